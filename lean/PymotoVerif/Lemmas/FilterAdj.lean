/- C09 helper lemmas: the sensitivity of `FilterConv` is the adjoint of its (linear part of the) response;
   constants and range preservation without constant-valued padding. -/
import PymotoVerif.Core.Filter
import PymotoVerif.Lemmas.FilterSpec
import PymotoVerif.Lemmas.Sum
import PymotoVerif.Props.C13
import Mathlib.Algebra.BigOperators.Group.Finset.Basic
import Mathlib.Algebra.BigOperators.Ring.Finset
import Mathlib.Algebra.BigOperators.Intervals
import Mathlib.Algebra.Order.BigOperators.Group.Finset
import Mathlib.Algebra.Order.BigOperators.Ring.Finset
import Mathlib.Tactic.Ring
import Mathlib.Tactic.Linarith

namespace PymotoVerif.Filter
open Finset PymotoVerif PymotoVerif.Domain
open PymotoVerif.Filter.Cfg

/-! ## sums -/

theorem sum3_eq {α : Type} [AddCommMonoid α] (nx ny nz : Nat) (f : A3 α) :
    sum3 nx ny nz f = ∑ i ∈ range nx, ∑ j ∈ range ny, ∑ k ∈ range nz, f i j k := by
  simp only [sum3, sumRange_eq]

theorem adj_sum3_congr {α : Type} [AddCommMonoid α] (nx ny nz : Nat) (f g : A3 α)
    (h : ∀ i j k, i < nx → j < ny → k < nz → f i j k = g i j k) :
    sum3 nx ny nz f = sum3 nx ny nz g := by
  simp only [sum3_eq]
  refine Finset.sum_congr rfl fun i hi => Finset.sum_congr rfl fun j hj => Finset.sum_congr rfl fun k hk => ?_
  exact h i j k (Finset.mem_range.mp hi) (Finset.mem_range.mp hj) (Finset.mem_range.mp hk)

theorem sum4_comm {β : Type} [AddCommMonoid β] (s1 s2 s3 s4 : Finset Nat) (H : Nat → Nat → Nat → Nat → β) :
    ∑ i ∈ s1, ∑ j ∈ s2, ∑ k ∈ s3, ∑ t ∈ s4, H i j k t = ∑ t ∈ s4, ∑ i ∈ s1, ∑ j ∈ s2, ∑ k ∈ s3, H i j k t := by
  calc ∑ i ∈ s1, ∑ j ∈ s2, ∑ k ∈ s3, ∑ t ∈ s4, H i j k t
      = ∑ i ∈ s1, ∑ j ∈ s2, ∑ t ∈ s4, ∑ k ∈ s3, H i j k t :=
        Finset.sum_congr rfl fun i _ => Finset.sum_congr rfl fun j _ => Finset.sum_comm
    _ = ∑ i ∈ s1, ∑ t ∈ s4, ∑ j ∈ s2, ∑ k ∈ s3, H i j k t :=
        Finset.sum_congr rfl fun i _ => Finset.sum_comm
    _ = ∑ t ∈ s4, ∑ i ∈ s1, ∑ j ∈ s2, ∑ k ∈ s3, H i j k t := Finset.sum_comm

theorem sum33_comm {β : Type} [AddCommMonoid β] (s1 s2 s3 s4 s5 s6 : Finset Nat)
    (H : Nat → Nat → Nat → Nat → Nat → Nat → β) :
    ∑ i ∈ s1, ∑ j ∈ s2, ∑ k ∈ s3, ∑ t ∈ s4, ∑ u ∈ s5, ∑ v ∈ s6, H i j k t u v
      = ∑ t ∈ s4, ∑ u ∈ s5, ∑ v ∈ s6, ∑ i ∈ s1, ∑ j ∈ s2, ∑ k ∈ s3, H i j k t u v := by
  calc ∑ i ∈ s1, ∑ j ∈ s2, ∑ k ∈ s3, ∑ t ∈ s4, ∑ u ∈ s5, ∑ v ∈ s6, H i j k t u v
      = ∑ t ∈ s4, ∑ i ∈ s1, ∑ j ∈ s2, ∑ k ∈ s3, ∑ u ∈ s5, ∑ v ∈ s6, H i j k t u v :=
        sum4_comm s1 s2 s3 s4 (fun i j k t => ∑ u ∈ s5, ∑ v ∈ s6, H i j k t u v)
    _ = ∑ t ∈ s4, ∑ u ∈ s5, ∑ i ∈ s1, ∑ j ∈ s2, ∑ k ∈ s3, ∑ v ∈ s6, H i j k t u v :=
        Finset.sum_congr rfl fun t _ => sum4_comm s1 s2 s3 s5 (fun i j k u => ∑ v ∈ s6, H i j k t u v)
    _ = ∑ t ∈ s4, ∑ u ∈ s5, ∑ v ∈ s6, ∑ i ∈ s1, ∑ j ∈ s2, ∑ k ∈ s3, H i j k t u v :=
        Finset.sum_congr rfl fun t _ => Finset.sum_congr rfl fun u _ =>
          sum4_comm s1 s2 s3 s6 (fun i j k v => H i j k t u v)

/-- 1-D re-indexing `a ↦ t = e + (K-1) - a` (valid convolution ↔ full correlation) -/
theorem reidx {β : Type} [AddCommMonoid β] (n K e : Nat) (he : e < n) (hK : 0 < K) (F : Nat → Nat → β) :
    ∑ a ∈ range K, F a (e + (K - 1) - a)
      = ∑ t ∈ range (n + K - 1),
          if t ≤ e + (K - 1) ∧ e + (K - 1) - t < K then F (e + (K - 1) - t) t else 0 := by
  symm
  rw [← Finset.sum_subset (s₁ := (range K).image (fun a => e + (K - 1) - a))]
  · rw [Finset.sum_image]
    · apply Finset.sum_congr rfl
      intro a ha
      have haK : a < K := Finset.mem_range.mp ha
      have h1 : e + (K - 1) - a ≤ e + (K - 1) := Nat.sub_le _ _
      have h2 : e + (K - 1) - (e + (K - 1) - a) = a := by omega
      simp [h1, h2, haK]
    · intro a ha b hb hab
      have := Finset.mem_range.mp (Finset.mem_coe.mp ha)
      have := Finset.mem_range.mp (Finset.mem_coe.mp hb)
      simp only at hab
      omega
  · intro t ht
    simp only [Finset.mem_image, Finset.mem_range] at ht ⊢
    obtain ⟨a, ha, rfl⟩ := ht
    omega
  · intro t ht hnt
    simp only [Finset.mem_image, Finset.mem_range, not_exists, not_and] at ht hnt
    have : ¬ (t ≤ e + (K - 1) ∧ e + (K - 1) - t < K) := by
      rintro ⟨h1, h2⟩
      exact hnt (e + (K - 1) - t) h2 (by omega)
    simp [this]

/-- FULL correlation is the adjoint of VALID convolution (3-D, all sizes) -/
theorem corrFull3_adjoint_convValid3 {α : Type} [CommSemiring α] (nx ny nz kx ky kz : Nat)
    (hkx : 0 < kx) (hky : 0 < ky) (hkz : 0 < kz) (g w xp : A3 α) :
    sum3 nx ny nz (fun i j k => g i j k * convValid3 kx ky kz w xp i j k)
      = sum3 (nx + kx - 1) (ny + ky - 1) (nz + kz - 1)
          (fun t u v => corrFull3 nx ny nz kx ky kz g w t u v * xp t u v) := by
  simp only [sum3_eq, convValid3, corrFull3]
  have key : ∀ i j k, i < nx → j < ny → k < nz →
      g i j k * ∑ a ∈ range kx, ∑ b ∈ range ky, ∑ cc ∈ range kz,
          w a b cc * xp (i + (kx - 1) - a) (j + (ky - 1) - b) (k + (kz - 1) - cc)
        = ∑ t ∈ range (nx + kx - 1), ∑ u ∈ range (ny + ky - 1), ∑ v ∈ range (nz + kz - 1),
            (if (t ≤ i + (kx - 1) ∧ i + (kx - 1) - t < kx) ∧ (u ≤ j + (ky - 1) ∧ j + (ky - 1) - u < ky)
                ∧ (v ≤ k + (kz - 1) ∧ k + (kz - 1) - v < kz)
             then g i j k * w (i + (kx - 1) - t) (j + (ky - 1) - u) (k + (kz - 1) - v) else 0) * xp t u v := by
    intro i j k hi hj hk
    simp only [Finset.mul_sum]
    refine (reidx nx kx i hi hkx (fun a t => ∑ b ∈ range ky, ∑ cc ∈ range kz,
        g i j k * (w a b cc * xp t (j + (ky - 1) - b) (k + (kz - 1) - cc)))).trans ?_
    refine Finset.sum_congr rfl fun t _ => ?_
    by_cases hcx : t ≤ i + (kx - 1) ∧ i + (kx - 1) - t < kx
    · rw [if_pos hcx]
      refine (reidx ny ky j hj hky (fun b u => ∑ cc ∈ range kz,
        g i j k * (w (i + (kx - 1) - t) b cc * xp t u (k + (kz - 1) - cc)))).trans ?_
      refine Finset.sum_congr rfl fun u _ => ?_
      by_cases hcy : u ≤ j + (ky - 1) ∧ j + (ky - 1) - u < ky
      · rw [if_pos hcy]
        refine (reidx nz kz k hk hkz (fun cc v =>
          g i j k * (w (i + (kx - 1) - t) (j + (ky - 1) - u) cc * xp t u v))).trans ?_
        refine Finset.sum_congr rfl fun v _ => ?_
        by_cases hcz : v ≤ k + (kz - 1) ∧ k + (kz - 1) - v < kz
        · rw [if_pos hcz, if_pos ⟨hcx, hcy, hcz⟩, mul_assoc]
        · rw [if_neg hcz, if_neg (fun h => hcz h.2.2), zero_mul]
      · rw [if_neg hcy]
        symm
        refine Finset.sum_eq_zero fun v _ => ?_
        rw [if_neg (fun h => hcy h.2.1), zero_mul]
    · rw [if_neg hcx]
      symm
      refine Finset.sum_eq_zero fun u _ => Finset.sum_eq_zero fun v _ => ?_
      rw [if_neg (fun h => hcx h.1), zero_mul]
  calc ∑ i ∈ range nx, ∑ j ∈ range ny, ∑ k ∈ range nz,
        g i j k * ∑ a ∈ range kx, ∑ b ∈ range ky, ∑ cc ∈ range kz,
          w a b cc * xp (i + (kx - 1) - a) (j + (ky - 1) - b) (k + (kz - 1) - cc)
      = ∑ i ∈ range nx, ∑ j ∈ range ny, ∑ k ∈ range nz,
          ∑ t ∈ range (nx + kx - 1), ∑ u ∈ range (ny + ky - 1), ∑ v ∈ range (nz + kz - 1),
            (if (t ≤ i + (kx - 1) ∧ i + (kx - 1) - t < kx) ∧ (u ≤ j + (ky - 1) ∧ j + (ky - 1) - u < ky)
                ∧ (v ≤ k + (kz - 1) ∧ k + (kz - 1) - v < kz)
             then g i j k * w (i + (kx - 1) - t) (j + (ky - 1) - u) (k + (kz - 1) - v) else 0) * xp t u v :=
        Finset.sum_congr rfl fun i hi => Finset.sum_congr rfl fun j hj => Finset.sum_congr rfl fun k hk =>
          key i j k (Finset.mem_range.mp hi) (Finset.mem_range.mp hj) (Finset.mem_range.mp hk)
    _ = _ := by
        rw [sum33_comm]
        refine Finset.sum_congr rfl fun t _ => Finset.sum_congr rfl fun u _ => Finset.sum_congr rfl fun v _ => ?_
        simp only [Finset.sum_mul]

/-- `np.add.at` through a 3-D index array is the adjoint of gathering through it -/
theorem scatterAdd3_adjoint {α : Type} [CommSemiring α] (N nx ny nz : Nat) (idx : A3 Nat)
    (hidx : ∀ i j k, i < nx → j < ny → k < nz → idx i j k < N) (w : Nat → α) (val : A3 α) :
    dot N w (scatterAdd3 nx ny nz idx val) = sum3 nx ny nz (fun i j k => w (idx i j k) * val i j k) := by
  simp only [dot, scatterAdd3, sum3_eq, sumRange_eq, Finset.mul_sum]
  rw [← sum4_comm]
  refine Finset.sum_congr rfl fun i hi => Finset.sum_congr rfl fun j hj => Finset.sum_congr rfl fun k hk => ?_
  have h := hidx i j k (Finset.mem_range.mp hi) (Finset.mem_range.mp hj) (Finset.mem_range.mp hk)
  simp only [mul_ite, mul_zero]
  rw [Finset.sum_ite_eq]
  simp [h]

/-! ## overrides -/

/-- the value overrides and the sensitivity zeroing act on the SAME index set -/
theorem overrides_mask {α : Type} [Zero α] (ovs : List (Override α)) :
    ∃ (m : A3 Bool) (r : A3 α), ∀ (f g : A3 α),
      (∀ a b cc, applyOverrides ovs f a b cc = if m a b cc then r a b cc else f a b cc) ∧
      (∀ a b cc, zeroOverrides ovs g a b cc = if m a b cc then 0 else g a b cc) := by
  induction ovs with
  | nil =>
    exact ⟨fun _ _ _ => false, fun _ _ _ => 0, fun f g =>
      ⟨fun _ _ _ => by simp [applyOverrides], fun _ _ _ => by simp [zeroOverrides]⟩⟩
  | cons o os ih =>
    obtain ⟨m, r, h⟩ := ih
    refine ⟨fun a b cc => m a b cc || o.mask a b cc,
      fun a b cc => if m a b cc then r a b cc else o.value, fun f g => ⟨?_, ?_⟩⟩
    · intro a b cc
      have h1 := (h (fun a b cc => if o.mask a b cc then o.value else f a b cc) g).1 a b cc
      simp only [applyOverrides, List.foldl_cons] at h1 ⊢
      rw [h1]
      by_cases hm : m a b cc = true <;> by_cases ho : o.mask a b cc = true <;> simp [hm, ho]
    · intro a b cc
      have h1 := (h f (fun a b cc => if o.mask a b cc then 0 else g a b cc)).2 a b cc
      simp only [zeroOverrides, List.foldl_cons] at h1 ⊢
      rw [h1]
      by_cases hm : m a b cc = true <;> by_cases ho : o.mask a b cc = true <;> simp [hm, ho]

/-! ## index bounds -/

theorem adj_npPadSrc_lt {k : PadKind} {L before q i : Nat} (hL : 0 < L) (h : npPadSrc k L before q = some i) :
    i < L := by
  unfold npPadSrc at h
  simp only at h
  split at h
  · rename_i hr
    obtain ⟨h0, h1⟩ := hr
    injection h with h
    omega
  · have hLi : (0 : Int) < (L : Int) := by exact_mod_cast hL
    cases k with
    | sym =>
      simp only [Option.some.injEq] at h
      subst h
      unfold extSym
      have h2L : (0 : Int) < 2 * (L : Int) := by omega
      have ha := Int.emod_nonneg ((q : Int) - (before : Int)) (ne_of_gt h2L)
      have hb := Int.emod_lt_of_pos ((q : Int) - (before : Int)) h2L
      generalize ((q : Int) - (before : Int)) % (2 * (L : Int)) = r at ha hb ⊢
      simp only
      split <;> omega
    | edge =>
      simp only [Option.some.injEq] at h
      subst h
      unfold extEdge
      split
      · omega
      · split <;> omega
    | wrap =>
      simp only [Option.some.injEq] at h
      subst h
      unfold extWrap
      have ha := Int.emod_nonneg ((q : Int) - (before : Int)) (ne_of_gt hLi)
      have hb := Int.emod_lt_of_pos ((q : Int) - (before : Int)) hLi
      omega
    | zero => simp at h

section bounds
variable {α : Type}

theorem npPad0_first {k : PadKind} {L before : Nat} {arr : A3 Nat} {M b cc : Nat} (hM : 0 < M) (hL : 0 < L)
    (h : ∀ t, t < L → arr t b cc < M) : ∀ a, npPad k 0 L before arr a b cc < M := by
  intro a
  simp only [npPad]
  split
  · rename_i i hi
    exact h i (adj_npPadSrc_lt hL hi)
  · exact hM

theorem npPad0_next {k : PadKind} {L before : Nat} {arr : A3 Nat} {M b cc : Nat} (hM : 0 < M)
    (h : ∀ t, arr t b cc < M) : ∀ a, npPad k 0 L before arr a b cc < M := by
  intro a
  simp only [npPad]
  split
  · exact h _
  · exact hM

theorem processPadding_lt0 (c : Cfg α) (indices : A3 Nat) (n : Nat) (e0 e1 : Mode α) (p M b cc : Nat)
    (hM : 0 < M) (hn : 0 < n) (h : ∀ t, t < n → indices t b cc < M) :
    ∀ a, (c.processPadding indices n e0 e1 0 p).1 a b cc < M := by
  cases e0 <;> cases e1 <;> simp only [processPadding, Mode.isWrap] <;>
    first
    | exact npPad0_first hM (by omega) (by simpa using h)
    | exact npPad0_next hM (npPad0_first hM (by omega) (by simpa using h))

theorem npPad1_first {k : PadKind} {L before : Nat} {arr : A3 Nat} {M a cc : Nat} (hM : 0 < M) (hL : 0 < L)
    (h : ∀ t, t < L → arr a t cc < M) : ∀ b, npPad k 1 L before arr a b cc < M := by
  intro b
  simp only [npPad]
  split
  · rename_i i hi
    exact h i (adj_npPadSrc_lt hL hi)
  · exact hM

theorem npPad1_next {k : PadKind} {L before : Nat} {arr : A3 Nat} {M a cc : Nat} (hM : 0 < M)
    (h : ∀ t, arr a t cc < M) : ∀ b, npPad k 1 L before arr a b cc < M := by
  intro b
  simp only [npPad]
  split
  · exact h _
  · exact hM

theorem processPadding_lt1 (c : Cfg α) (indices : A3 Nat) (n : Nat) (e0 e1 : Mode α) (p M a cc : Nat)
    (hM : 0 < M) (hn : 0 < n) (h : ∀ t, t < n → indices a t cc < M) :
    ∀ b, (c.processPadding indices n e0 e1 1 p).1 a b cc < M := by
  cases e0 <;> cases e1 <;> simp only [processPadding, Mode.isWrap] <;>
    first
    | exact npPad1_first hM (by omega) (by simpa using h)
    | exact npPad1_next hM (npPad1_first hM (by omega) (by simpa using h))

theorem npPad2_first {k : PadKind} {L before : Nat} {arr : A3 Nat} {M a b : Nat} (hM : 0 < M) (hL : 0 < L)
    (h : ∀ t, t < L → arr a b t < M) : ∀ cc, npPad k 2 L before arr a b cc < M := by
  intro cc
  simp only [npPad]
  split
  · rename_i i hi
    exact h i (adj_npPadSrc_lt hL hi)
  · exact hM

theorem npPad2_next {k : PadKind} {L before : Nat} {arr : A3 Nat} {M a b : Nat} (hM : 0 < M)
    (h : ∀ t, arr a b t < M) : ∀ cc, npPad k 2 L before arr a b cc < M := by
  intro cc
  simp only [npPad]
  split
  · exact h _
  · exact hM

theorem processPadding_lt2 (c : Cfg α) (indices : A3 Nat) (n : Nat) (e0 e1 : Mode α) (p M a b : Nat)
    (hM : 0 < M) (hn : 0 < n) (h : ∀ t, t < n → indices a b t < M) :
    ∀ cc, (c.processPadding indices n e0 e1 2 p).1 a b cc < M := by
  cases e0 <;> cases e1 <;> simp only [processPadding, Mode.isWrap] <;>
    first
    | exact npPad2_first hM (by omega) (by simpa using h)
    | exact npPad2_next hM (npPad2_first hM (by omega) (by simpa using h))

theorem adj_nx_eq (c : Cfg α) (hx : 1 ≤ c.dom.nelx) : c.nx = c.dom.nelx := by
  simp only [nx, sz]; omega
theorem adj_ny_eq (c : Cfg α) (hy : 1 ≤ c.dom.nely) : c.ny = c.dom.nely := by
  simp only [ny, sz]; omega
theorem adj_nz_eq (c : Cfg α) : c.nz = c.dom.nz := by
  simp only [nz, sz, Dom.nz]; omega
theorem adj_nz_pos (c : Cfg α) : 0 < c.nz := by
  simp only [nz, sz]; omega

theorem adj_nel_eq (c : Cfg α) (hx : 1 ≤ c.dom.nelx) (hy : 1 ≤ c.dom.nely) :
    c.nx * c.ny * c.nz = c.dom.nel := by
  rw [adj_nx_eq c hx, adj_ny_eq c hy, adj_nz_eq c, Dom.nel]

theorem nel_pos (c : Cfg α) (hx : 1 ≤ c.dom.nelx) (hy : 1 ≤ c.dom.nely) : 0 < c.nx * c.ny * c.nz := by
  rw [adj_nx_eq c hx, adj_ny_eq c hy]
  exact Nat.mul_pos (Nat.mul_pos hx hy) (adj_nz_pos c)

theorem el3dOrig_lt (c : Cfg α) (hx : 1 ≤ c.dom.nelx) (hy : 1 ≤ c.dom.nely) {i j k : Nat}
    (hi : i < c.nx) (hj : j < c.ny) (hk : k < c.nz) : c.el3dOrig i j k < c.nx * c.ny * c.nz := by
  rw [adj_nel_eq c hx hy]
  rw [adj_nx_eq c hx] at hi
  rw [adj_ny_eq c hy] at hj
  rw [adj_nz_eq c] at hk
  exact C13.elemNumber_lt c.dom hi hj hk

/-- every entry of `el3d_pad` (at ANY position) is a valid element number -/
theorem el3dPad_lt (c : Cfg α) (hx : 1 ≤ c.dom.nelx) (hy : 1 ≤ c.dom.nely) (a b cc : Nat) :
    c.el3dPad a b cc < c.nx * c.ny * c.nz := by
  have hM := nel_pos c hx hy
  have hnx : 0 < c.nx := by rw [adj_nx_eq c hx]; exact hx
  have hny : 0 < c.ny := by rw [adj_ny_eq c hy]; exact hy
  have h1 : ∀ a b cc, b < c.ny → cc < c.nz →
      (c.processPadding c.el3dOrig c.nx c.xmin c.xmax 0 c.px).1 a b cc < c.nx * c.ny * c.nz := by
    intro a b cc hb hc
    exact processPadding_lt0 c _ _ _ _ _ _ b cc hM hnx (fun t ht => el3dOrig_lt c hx hy ht hb hc) a
  have h2 : ∀ a b cc, cc < c.nz →
      (c.processPadding (c.processPadding c.el3dOrig c.nx c.xmin c.xmax 0 c.px).1 c.ny c.ymin c.ymax 1 c.py).1 a b cc
        < c.nx * c.ny * c.nz := by
    intro a b cc hc
    exact processPadding_lt1 c _ _ _ _ _ _ a cc hM hny (fun t ht => h1 a t cc ht hc) b
  simp only [el3dPad, padded]
  exact processPadding_lt2 c _ _ _ _ _ _ a b hM (adj_nz_pos c) (fun t ht => h2 a b t ht) cc

end bounds

/-! ## (A) the adjoint theorem -/

theorem sum3_sub {α : Type} [AddCommGroup α] (nx ny nz : Nat) (f g : A3 α) :
    sum3 nx ny nz f - sum3 nx ny nz g = sum3 nx ny nz (fun i j k => f i j k - g i j k) := by
  simp only [sum3_eq, Finset.sum_sub_distrib]

/-- `_sensitivity` is the adjoint of the linear part of `_response`: for all kernels, sizes, boundary modes and overrides -/
theorem filterConv_adjoint_lemma {α : Type} [CommRing α] (c : Cfg α) (hk : c.oddKernel)
    (hx : 1 ≤ c.dom.nelx) (hy : 1 ≤ c.dom.nely) (N : Nat) (hN : c.nx * c.ny * c.nz ≤ N) (x w : Nat → α) :
    dot N w (fun e => c.resp x e - c.resp (fun _ => 0) e) = dot N (c.sens w) x := by
  obtain ⟨hkx, hky, hkz⟩ := hk
  have hkx0 : 0 < c.kx := by omega
  have hky0 : 0 < c.ky := by omega
  have hkz0 : 0 < c.kz := by omega
  have hmx : c.nx + c.kx - 1 = c.mx := by simp only [mx, px]; omega
  have hmy : c.ny + c.ky - 1 = c.my := by simp only [my, py]; omega
  have hmz : c.nz + c.kz - 1 = c.mz := by simp only [mz, pz]; omega
  have hresp : ∀ y : Nat → α, dot N w (c.resp y) = sum3 c.mx c.my c.mz (fun t u v =>
      corrFull3 c.nx c.ny c.nz c.kx c.ky c.kz (fun i j k => w (c.el3dOrig i j k)) c.w t u v
        * c.paddedVector y t u v) := by
    intro y
    unfold resp
    rw [scatterAdd3_adjoint N _ _ _ _
      (fun i j k hi hj hk => lt_of_lt_of_le (el3dOrig_lt c hx hy hi hj hk) hN)]
    rw [corrFull3_adjoint_convValid3 _ _ _ _ _ _ hkx0 hky0 hkz0 (fun i j k => w (c.el3dOrig i j k)),
      hmx, hmy, hmz]
  have hsens : dot N (c.sens w) x = sum3 c.mx c.my c.mz (fun t u v => x (c.el3dPad t u v) *
      zeroOverrides c.overrides
        (corrFull3 c.nx c.ny c.nz c.kx c.ky c.kz (fun i j k => w (c.el3dOrig i j k)) c.w) t u v) := by
    have hcomm : dot N (c.sens w) x = dot N x (c.sens w) := by
      simp only [dot, sumRange_eq]
      exact Finset.sum_congr rfl fun e _ => mul_comm _ _
    rw [hcomm]
    unfold sens
    exact scatterAdd3_adjoint N _ _ _ _
      (fun i j k _ _ _ => lt_of_lt_of_le (el3dPad_lt c hx hy i j k) hN) x _
  have hsub : dot N w (fun e => c.resp x e - c.resp (fun _ => 0) e)
      = dot N w (c.resp x) - dot N w (c.resp (fun _ => 0)) := by
    simp only [dot, sumRange_eq, mul_sub, Finset.sum_sub_distrib]
  rw [hsub, hresp, hresp, hsens, sum3_sub]
  obtain ⟨m, r, hmr⟩ := overrides_mask c.overrides
  apply adj_sum3_congr
  intro t u v _ _ _
  unfold paddedVector
  rw [(hmr _ (fun _ _ _ => 0)).1, (hmr _ (fun _ _ _ => 0)).1, (hmr (fun _ _ _ => 0) _).2]
  by_cases hm : m t u v = true
  · simp [hm]
  · simp only [hm]
    simp only [Bool.false_eq_true, if_false]
    ring

/-! ## (B) constants and range without constant-valued padding -/

section noconst
variable {α : Type}

theorem processPadding_snd_nil (c : Cfg α) (indices : A3 Nat) (n : Nat) (e0 e1 : Mode α) (dir p : Nat)
    (h0 : e0.isConst = false) (h1 : e1.isConst = false) :
    (c.processPadding indices n e0 e1 dir p).2 = [] := by
  cases e0 <;> cases e1 <;> simp_all [processPadding, Mode.isConst]

theorem overrides_nil (c : Cfg α) (hnc : c.noConst) : c.overrides = [] := by
  obtain ⟨h1, h2, h3, h4, h5, h6, h7⟩ := hnc
  simp only [overrides, padded, h7, List.append_nil]
  rw [processPadding_snd_nil c _ _ _ _ _ _ h1 h2, processPadding_snd_nil c _ _ _ _ _ _ h3 h4,
    processPadding_snd_nil c _ _ _ _ _ _ h5 h6]
  rfl

theorem paddedVector_noConst (c : Cfg α) (hnc : c.noConst) (x : Nat → α) (a b cc : Nat) :
    c.paddedVector x a b cc = x (c.el3dPad a b cc) := by
  simp only [paddedVector, overrides_nil c hnc, applyOverrides, List.foldl_nil]

theorem sum3_single {α : Type} [AddCommMonoid α] (nx ny nz : Nat) (val : A3 α) {i0 j0 k0 : Nat}
    (hi : i0 < nx) (hj : j0 < ny) (hk : k0 < nz) :
    sum3 nx ny nz (fun i j k => if i = i0 ∧ j = j0 ∧ k = k0 then val i j k else 0) = val i0 j0 k0 := by
  simp only [sum3_eq]
  rw [Finset.sum_eq_single_of_mem i0 (Finset.mem_range.mpr hi)]
  · rw [Finset.sum_eq_single_of_mem j0 (Finset.mem_range.mpr hj)]
    · rw [Finset.sum_eq_single_of_mem k0 (Finset.mem_range.mpr hk)]
      · simp
      · intro k _ hne
        simp [hne]
    · intro j _ hne
      exact Finset.sum_eq_zero fun k _ => by simp [hne]
  · intro i _ hne
    exact Finset.sum_eq_zero fun j _ => Finset.sum_eq_zero fun k _ => by simp [hne]

/-- `np.add.at(y, el3d_orig, y3d)` writes each entry of `y3d` to its own element -/
theorem scatterAdd3_el3dOrig [AddCommMonoid α] [Mul α] (c : Cfg α) (hx : 1 ≤ c.dom.nelx) (hy : 1 ≤ c.dom.nely)
    (val : A3 α) {i0 j0 k0 : Nat} (hi : i0 < c.nx) (hj : j0 < c.ny) (hk : k0 < c.nz) :
    scatterAdd3 c.nx c.ny c.nz c.el3dOrig val (c.el3dOrig i0 j0 k0) = val i0 j0 k0 := by
  unfold scatterAdd3
  rw [← sum3_single c.nx c.ny c.nz val hi hj hk]
  apply adj_sum3_congr
  intro i j k hi' hj' _
  rw [adj_nx_eq c hx] at hi hi'
  rw [adj_ny_eq c hy] at hj hj'
  by_cases h : c.el3dOrig i j k = c.el3dOrig i0 j0 k0
  · rw [if_pos h, if_pos (C13.elemNumber_inj c.dom hi' hi hj' hj h)]
  · rw [if_neg h, if_neg]
    rintro ⟨rfl, rfl, rfl⟩
    exact h rfl

/-- without constant padding every output is a `w`-weighted sum of input entries -/
theorem resp_noConst [CommSemiring α] (c : Cfg α) (hx : 1 ≤ c.dom.nelx) (hy : 1 ≤ c.dom.nely)
    (hnc : c.noConst) (e : Nat) (he : e < c.nx * c.ny * c.nz) :
    ∃ idx : A3 Nat, (∀ a b cc, idx a b cc < c.nx * c.ny * c.nz) ∧
      ∀ x : Nat → α, c.resp x e = sum3 c.kx c.ky c.kz (fun a b cc => c.w a b cc * x (idx a b cc)) := by
  rw [adj_nel_eq c hx hy] at he
  obtain ⟨i, j, k, hi, hj, hk, rfl⟩ := C13.elemNumber_surj c.dom he
  rw [← adj_nx_eq c hx] at hi
  rw [← adj_ny_eq c hy] at hj
  rw [← adj_nz_eq c] at hk
  refine ⟨fun a b cc => c.el3dPad (i + (c.kx - 1) - a) (j + (c.ky - 1) - b) (k + (c.kz - 1) - cc),
    fun a b cc => el3dPad_lt c hx hy _ _ _, fun x => ?_⟩
  unfold resp
  have h1 : scatterAdd3 c.nx c.ny c.nz c.el3dOrig (convValid3 c.kx c.ky c.kz c.w (c.paddedVector x))
      (c.dom.elemNumber i j k) = convValid3 c.kx c.ky c.kz c.w (c.paddedVector x) i j k :=
    scatterAdd3_el3dOrig c hx hy (convValid3 c.kx c.ky c.kz c.w (c.paddedVector x)) hi hj hk
  rw [h1]
  unfold convValid3
  apply adj_sum3_congr
  intro a b cc _ _ _
  rw [paddedVector_noConst c hnc]

end noconst

theorem filterConv_const_lemma {α : Type} [CommSemiring α] (c : Cfg α) (hx : 1 ≤ c.dom.nelx)
    (hy : 1 ≤ c.dom.nely) (hnc : c.noConst) (hsum : sum3 c.kx c.ky c.kz c.w = 1) (v : α) (e : Nat)
    (he : e < c.nx * c.ny * c.nz) : c.resp (fun _ => v) e = v := by
  obtain ⟨idx, _, h⟩ := resp_noConst c hx hy hnc e he
  rw [h]
  have : sum3 c.kx c.ky c.kz (fun a b cc => c.w a b cc * v) = sum3 c.kx c.ky c.kz c.w * v := by
    simp only [sum3_eq, Finset.sum_mul]
  rw [this, hsum, one_mul]

theorem sum3_le_sum3 {α : Type} [AddCommMonoid α] [PartialOrder α] [IsOrderedAddMonoid α] (nx ny nz : Nat)
    (f g : A3 α) (h : ∀ i j k, i < nx → j < ny → k < nz → f i j k ≤ g i j k) :
    sum3 nx ny nz f ≤ sum3 nx ny nz g := by
  simp only [sum3_eq]
  refine Finset.sum_le_sum fun i hi => Finset.sum_le_sum fun j hj => Finset.sum_le_sum fun k hk => ?_
  exact h i j k (Finset.mem_range.mp hi) (Finset.mem_range.mp hj) (Finset.mem_range.mp hk)

theorem filterConv_range_lemma {α : Type} [Field α] [LinearOrder α] [IsStrictOrderedRing α] (c : Cfg α)
    (hx : 1 ≤ c.dom.nelx) (hy : 1 ≤ c.dom.nely) (hnc : c.noConst) (hsum : sum3 c.kx c.ky c.kz c.w = 1)
    (hpos : ∀ a b cc, a < c.kx → b < c.ky → cc < c.kz → 0 ≤ c.w a b cc) (x : Nat → α) (lo hi : α)
    (hlo : ∀ j, j < c.nx * c.ny * c.nz → lo ≤ x j) (hhi : ∀ j, j < c.nx * c.ny * c.nz → x j ≤ hi)
    (e : Nat) (he : e < c.nx * c.ny * c.nz) : lo ≤ c.resp x e ∧ c.resp x e ≤ hi := by
  obtain ⟨idx, hidx, h⟩ := resp_noConst c hx hy hnc e he
  rw [h]
  have hc : ∀ v : α, sum3 c.kx c.ky c.kz (fun a b cc => c.w a b cc * v) = v := by
    intro v
    have : sum3 c.kx c.ky c.kz (fun a b cc => c.w a b cc * v) = sum3 c.kx c.ky c.kz c.w * v := by
      simp only [sum3_eq, Finset.sum_mul]
    rw [this, hsum, one_mul]
  constructor
  · calc lo = sum3 c.kx c.ky c.kz (fun a b cc => c.w a b cc * lo) := (hc lo).symm
      _ ≤ _ := sum3_le_sum3 _ _ _ _ _ fun a b cc ha hb hcc =>
        mul_le_mul_of_nonneg_left (hlo _ (hidx a b cc)) (hpos a b cc ha hb hcc)
  · calc sum3 c.kx c.ky c.kz (fun a b cc => c.w a b cc * x (idx a b cc))
        ≤ sum3 c.kx c.ky c.kz (fun a b cc => c.w a b cc * hi) := sum3_le_sum3 _ _ _ _ _ fun a b cc ha hb hcc =>
          mul_le_mul_of_nonneg_left (hhi _ (hidx a b cc)) (hpos a b cc ha hb hcc)
      _ = hi := hc hi

end PymotoVerif.Filter
