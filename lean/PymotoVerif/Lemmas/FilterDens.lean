/- lemmas on the `DensityFilter` model (`Core/Filter.lean`, last section): Cartesian index facts, the window
   matrix as a full symmetric matrix, adjointness of `_response` / `_sensitivity`, cone average, positivity,
   constants and range preservation -/
import PymotoVerif.Core.Filter
import PymotoVerif.Lemmas.Sum
import PymotoVerif.Lemmas.Domain
import PymotoVerif.Props.C13
import Mathlib.Algebra.BigOperators.Group.Finset.Basic
import Mathlib.Algebra.BigOperators.Ring.Finset
import Mathlib.Algebra.BigOperators.Intervals
import Mathlib.Algebra.BigOperators.Field
import Mathlib.Algebra.Order.BigOperators.Group.Finset
import Mathlib.Algebra.Order.BigOperators.Ring.Finset
import Mathlib.Algebra.Order.Field.Basic
import Mathlib.Tactic.Ring
import Mathlib.Tactic.Linarith
import Mathlib.Tactic.FieldSimp
import Mathlib.Tactic.Positivity

namespace PymotoVerif.Filter
open PymotoVerif PymotoVerif.Domain Finset

/-! ## generic sums -/

/-- a sum over `range (m*n)` as a double sum (mixed radix `a*n + b`) -/
theorem sum_range_mul' {β} [AddCommMonoid β] (m n : Nat) (g : Nat → β) :
    ∑ e ∈ range (m * n), g e = ∑ a ∈ range m, ∑ b ∈ range n, g (a * n + b) := by
  induction m with
  | zero => simp
  | succ m ih => rw [Nat.succ_mul, Finset.sum_range_add, ih, Finset.sum_range_succ]

/-- a shifted sum over a window `[lo, up] ⊆ [0, n)` as a masked sum over `[0, n)` -/
theorem sum_window {β} [AddCommMonoid β] {n lo up : Nat} (hlo : lo ≤ up) (hup : up < n) (F : Nat → β) :
    ∑ a ∈ range (up - lo + 1), F (lo + a) = ∑ i ∈ range n, if lo ≤ i ∧ i ≤ up then F i else 0 := by
  rw [← Finset.sum_filter]
  have h : (range n).filter (fun i => lo ≤ i ∧ i ≤ up) = Ico lo (up + 1) := by
    ext i; simp only [mem_filter, mem_range, mem_Ico]; omega
  have h2 : up - lo + 1 = up + 1 - lo := by omega
  rw [h, Finset.sum_Ico_eq_sum_range, h2]

theorem sum_comm3 {β} [AddCommMonoid β] (s t u : Finset Nat) (T : Nat → Nat → Nat → β) :
    ∑ i ∈ s, ∑ j ∈ t, ∑ k ∈ u, T i j k = ∑ k ∈ u, ∑ j ∈ t, ∑ i ∈ s, T i j k := by
  calc ∑ i ∈ s, ∑ j ∈ t, ∑ k ∈ u, T i j k
      = ∑ i ∈ s, ∑ k ∈ u, ∑ j ∈ t, T i j k := Finset.sum_congr rfl (fun i _ => Finset.sum_comm)
    _ = ∑ k ∈ u, ∑ i ∈ s, ∑ j ∈ t, T i j k := Finset.sum_comm
    _ = ∑ k ∈ u, ∑ j ∈ t, ∑ i ∈ s, T i j k := Finset.sum_congr rfl (fun k _ => Finset.sum_comm)

/-- a shifted triple sum over a box window as a masked triple sum over the whole box (other nesting) -/
theorem sum3_window {β} [AddCommMonoid β] {nx ny nz xl xu yl yu zl zu : Nat}
    (hx : xl ≤ xu) (hx' : xu < nx) (hy : yl ≤ yu) (hy' : yu < ny) (hz : zl ≤ zu) (hz' : zu < nz)
    (G : Nat → Nat → Nat → β) :
    ∑ a ∈ range (xu - xl + 1), ∑ b ∈ range (yu - yl + 1), ∑ c ∈ range (zu - zl + 1),
        G (xl + a) (yl + b) (zl + c)
      = ∑ k ∈ range nz, ∑ j ∈ range ny, ∑ i ∈ range nx,
          if xl ≤ i ∧ i ≤ xu ∧ yl ≤ j ∧ j ≤ yu ∧ zl ≤ k ∧ k ≤ zu then G i j k else 0 := by
  rw [sum_comm3 (range nz) (range ny) (range nx)]
  rw [sum_window hx hx' (fun i => ∑ b ∈ range (yu - yl + 1), ∑ c ∈ range (zu - zl + 1), G i (yl + b) (zl + c))]
  apply Finset.sum_congr rfl
  intro i _
  rw [sum_window hy hy' (fun j => ∑ c ∈ range (zu - zl + 1), G i j (zl + c))]
  by_cases hi : xl ≤ i ∧ i ≤ xu
  · rw [if_pos hi]
    apply Finset.sum_congr rfl
    intro j _
    rw [sum_window hz hz' (fun k => G i j k)]
    by_cases hj : yl ≤ j ∧ j ≤ yu
    · rw [if_pos hj]
      apply Finset.sum_congr rfl
      intro k _
      by_cases hk : zl ≤ k ∧ k ≤ zu
      · rw [if_pos hk, if_pos ⟨hi.1, hi.2, hj.1, hj.2, hk.1, hk.2⟩]
      · rw [if_neg hk, if_neg (fun h => hk ⟨h.2.2.2.2.1, h.2.2.2.2.2⟩)]
    · rw [if_neg hj]
      symm
      apply Finset.sum_eq_zero
      intro k _
      rw [if_neg (fun h => hj ⟨h.2.2.1, h.2.2.2.1⟩)]
  · rw [if_neg hi]
    symm
    apply Finset.sum_eq_zero
    intro j _
    apply Finset.sum_eq_zero
    intro k _
    rw [if_neg (fun h => hi ⟨h.1, h.2.1⟩)]

/-! ## (1) Cartesian indices of an element number -/

namespace DF
variable {α : Type}

theorem nx_pos (f : DF α) (hx : 1 ≤ f.dom.nelx) : 0 < f.nx := hx
theorem ny_pos (f : DF α) (hy : 1 ≤ f.dom.nely) : 0 < f.ny := hy
theorem nz_pos (f : DF α) : 0 < f.nz := by unfold DF.nz; omega
theorem nz_eq (f : DF α) : f.nz = f.dom.nz := rfl

theorem nel_eq (f : DF α) : f.nel = f.nz * f.ny * f.nx := by
  unfold DF.nel DF.nz DF.ny DF.nx Dom.nel Dom.nz; ring

theorem nel_eq' (f : DF α) : f.nel = f.nx * f.ny * f.nz := by
  rw [nel_eq]; ring

theorem ix_lt (f : DF α) (hx : 1 ≤ f.dom.nelx) (e : Nat) : f.ix e < f.nx :=
  Nat.mod_lt _ (f.nx_pos hx)

theorem iy_lt (f : DF α) (hy : 1 ≤ f.dom.nely) (e : Nat) : f.iy e < f.ny :=
  Nat.mod_lt _ (f.ny_pos hy)

theorem iz_lt (f : DF α) (hx : 1 ≤ f.dom.nelx) (hy : 1 ≤ f.dom.nely) {e : Nat} (he : e < f.nel) :
    f.iz e < f.nz := by
  unfold DF.iz
  rw [Nat.div_lt_iff_lt_mul (Nat.mul_pos (f.nx_pos hx) (f.ny_pos hy))]
  calc e < f.nel := he
    _ = f.nz * (f.nx * f.ny) := by rw [nel_eq]; ring

/-- `get_elemnumber (ix e) (iy e) (iz e) = e` (holds for every `e`) -/
theorem elemNumber_ixyz (f : DF α) (e : Nat) :
    f.dom.elemNumber (f.ix e) (f.iy e) (f.iz e) = e := by
  unfold Dom.elemNumber DF.ix DF.iy DF.iz
  show (e / (f.nx * f.ny) * f.ny + e / f.nx % f.ny) * f.nx + e % f.nx = e
  rw [← Nat.div_div_eq_div_mul, Nat.div_add_mod', Nat.div_add_mod']

theorem ix_elemNumber (f : DF α) {i : Nat} (j k : Nat) (hi : i < f.nx) :
    f.ix (f.dom.elemNumber i j k) = i := by
  unfold Dom.elemNumber DF.ix
  exact radix_mod hi

theorem iy_elemNumber (f : DF α) {i j : Nat} (k : Nat) (hi : i < f.nx) (hj : j < f.ny) :
    f.iy (f.dom.elemNumber i j k) = j := by
  unfold Dom.elemNumber DF.iy
  show ((k * f.ny + j) * f.nx + i) / f.nx % f.ny = j
  rw [radix_div hi, radix_mod hj]

theorem iz_elemNumber (f : DF α) {i j : Nat} (k : Nat) (hi : i < f.nx) (hj : j < f.ny) :
    f.iz (f.dom.elemNumber i j k) = k := by
  unfold Dom.elemNumber DF.iz
  show ((k * f.ny + j) * f.nx + i) / (f.nx * f.ny) = k
  rw [← Nat.div_div_eq_div_mul, radix_div hi, radix_div hj]

theorem elemNumber_lt (f : DF α) {i j k : Nat} (hi : i < f.nx) (hj : j < f.ny) (hk : k < f.nz) :
    f.dom.elemNumber i j k < f.nel :=
  PymotoVerif.C13.elemNumber_lt f.dom hi hj hk

/-- flat sum over the elements = nested sum over `z` (outer), `y`, `x` (inner) -/
theorem sumRange_nel_eq_sum3 {β} [AddCommMonoid β] (f : DF α) (g : Nat → β) :
    sumRange f.nel g = sum3 f.nz f.ny f.nx (fun k j i => g (f.dom.elemNumber i j k)) := by
  unfold sum3
  simp only [sumRange_eq]
  rw [f.nel_eq, sum_range_mul', sum_range_mul']
  rfl

theorem sum_nel_eq_sum3 {β} [AddCommMonoid β] (f : DF α) (g : Nat → β) :
    ∑ e ∈ range f.nel, g e
      = ∑ k ∈ range f.nz, ∑ j ∈ range f.ny, ∑ i ∈ range f.nx, g (f.dom.elemNumber i j k) := by
  rw [f.nel_eq, sum_range_mul', sum_range_mul']
  rfl

/-! ## (2) the window matrix as a full matrix -/

/-- column `j` lies in the window of row `e` -/
def inWindow (f : DF α) (e j : Nat) : Prop :=
  f.xlow e ≤ f.ix j ∧ f.ix j ≤ f.xupp e ∧ f.ylow e ≤ f.iy j ∧ f.iy j ≤ f.yupp e ∧
    f.zlow e ≤ f.iz j ∧ f.iz j ≤ f.zupp e

instance (f : DF α) (e j : Nat) : Decidable (f.inWindow e j) := by
  unfold inWindow; infer_instance

theorem xwin (f : DF α) (hx : 1 ≤ f.dom.nelx) (e : Nat) : f.xlow e ≤ f.xupp e ∧ f.xupp e < f.nx := by
  have := f.ix_lt hx e
  unfold xlow xupp; omega

theorem ywin (f : DF α) (hy : 1 ≤ f.dom.nely) (e : Nat) : f.ylow e ≤ f.yupp e ∧ f.yupp e < f.ny := by
  have := f.iy_lt hy e
  unfold ylow yupp; omega

theorem zwin (f : DF α) (hx : 1 ≤ f.dom.nelx) (hy : 1 ≤ f.dom.nely) {e : Nat} (he : e < f.nel) :
    f.zlow e ≤ f.zupp e ∧ f.zupp e < f.nz := by
  have := f.iz_lt hx hy he
  unfold zlow zupp; omega

/-- window columns are element numbers -/
theorem col_lt (f : DF α) (hx : 1 ≤ f.dom.nelx) (hy : 1 ≤ f.dom.nely) {e a b c : Nat} (he : e < f.nel)
    (ha : a < f.nwindx e) (hb : b < f.nwindy e) (hc : c < f.nwindz e) : f.col e a b c < f.nel := by
  have h1 := f.xwin hx e
  have h2 := f.ywin hy e
  have h3 := f.zwin hx hy he
  unfold nwindx at ha; unfold nwindy at hb; unfold nwindz at hc
  exact f.elemNumber_lt (by omega) (by omega) (by omega)

/-- the window sum of row `e` (row-major order, as coded) re-indexed over all elements -/
theorem window_sum_eq {β} [AddCommMonoid β] (f : DF α) (hx : 1 ≤ f.dom.nelx) (hy : 1 ≤ f.dom.nely)
    {e : Nat} (he : e < f.nel) (g : Nat → β) :
    sum3 (f.nwindx e) (f.nwindy e) (f.nwindz e) (fun a b c => g (f.col e a b c))
      = sumRange f.nel (fun j => if f.inWindow e j then g j else 0) := by
  rw [sumRange_eq, sum_nel_eq_sum3]
  unfold sum3
  simp only [sumRange_eq]
  unfold nwindx nwindy nwindz col
  rw [sum3_window (f.xwin hx e).1 (f.xwin hx e).2 (f.ywin hy e).1 (f.ywin hy e).2
    (f.zwin hx hy he).1 (f.zwin hx hy he).2 (fun i j k => g (f.dom.elemNumber i j k))]
  apply Finset.sum_congr rfl
  intro k _
  apply Finset.sum_congr rfl
  intro j hj
  apply Finset.sum_congr rfl
  intro i hi
  have hi' := Finset.mem_range.mp hi
  have hj' := Finset.mem_range.mp hj
  simp only [inWindow, f.ix_elemNumber j k hi', f.iy_elemNumber k hi' hj', f.iz_elemNumber k hi' hj']

theorem inWindow_symm (f : DF α) (hx : 1 ≤ f.dom.nelx) (hy : 1 ≤ f.dom.nely) {e j : Nat}
    (he : e < f.nel) (hj : j < f.nel) : f.inWindow e j ↔ f.inWindow j e := by
  have h1 := f.ix_lt hx e
  have h2 := f.iy_lt hy e
  have h3 := f.iz_lt hx hy he
  have h4 := f.ix_lt hx j
  have h5 := f.iy_lt hy j
  have h6 := f.iz_lt hx hy hj
  unfold inWindow xlow xupp ylow yupp zlow zupp
  omega

section field
variable [Field α] [Max α]

/-- entry `(e, j)` of the assembled matrix `H` -/
def Hfull (sqrt : α → α) (f : DF α) (e j : Nat) : α :=
  if f.inWindow e j then DF.hval sqrt f e j else 0

theorem Hmul_eq_full (sqrt : α → α) (f : DF α) (hx : 1 ≤ f.dom.nelx) (hy : 1 ≤ f.dom.nely)
    (v : Nat → α) {e : Nat} (he : e < f.nel) :
    DF.Hmul sqrt f v e = sumRange f.nel (fun j => DF.Hfull sqrt f e j * v j) := by
  unfold Hmul
  rw [window_sum_eq f hx hy he (fun j => hval sqrt f e j * v j)]
  simp only [Hfull, ite_mul, zero_mul]

theorem Hs_eq_full (sqrt : α → α) (f : DF α) (hx : 1 ≤ f.dom.nelx) (hy : 1 ≤ f.dom.nely)
    {e : Nat} (he : e < f.nel) :
    DF.Hs sqrt f e = sumRange f.nel (fun j => DF.Hfull sqrt f e j) := by
  unfold Hs
  rw [window_sum_eq f hx hy he (fun j => hval sqrt f e j)]
  rfl

theorem hval_symm (sqrt : α → α) (f : DF α) (e j : Nat) : DF.hval sqrt f e j = DF.hval sqrt f j e := by
  unfold hval
  have h : (((f.ix e : Int) - f.ix j) * ((f.ix e : Int) - f.ix j)
      + ((f.iy e : Int) - f.iy j) * ((f.iy e : Int) - f.iy j)
      + ((f.iz e : Int) - f.iz j) * ((f.iz e : Int) - f.iz j) : Int)
      = ((f.ix j : Int) - f.ix e) * ((f.ix j : Int) - f.ix e)
      + ((f.iy j : Int) - f.iy e) * ((f.iy j : Int) - f.iy e)
      + ((f.iz j : Int) - f.iz e) * ((f.iz j : Int) - f.iz e) := by ring
  simp only [h]

theorem H_symm (sqrt : α → α) (f : DF α) (hx : 1 ≤ f.dom.nelx) (hy : 1 ≤ f.dom.nely) {e j : Nat}
    (he : e < f.nel) (hj : j < f.nel) : DF.Hfull sqrt f e j = DF.Hfull sqrt f j e := by
  unfold Hfull
  rw [hval_symm sqrt f e j]
  by_cases h : f.inWindow e j
  · rw [if_pos h, if_pos ((f.inWindow_symm hx hy he hj).mp h)]
  · rw [if_neg h, if_neg (fun h' => h ((f.inWindow_symm hx hy he hj).mpr h'))]

/-! ## (3) adjointness -/

theorem respOf_sensOf_adjoint (sqrt : α → α) (f : DF α) (hx : 1 ≤ f.dom.nelx) (hy : 1 ≤ f.dom.nely)
    (hs x w : Nat → α) :
    dot f.nel w (DF.respOf sqrt f hs x) = dot f.nel (DF.sensOf sqrt f hs w) x := by
  unfold dot respOf sensOf
  simp only [sumRange_eq]
  have hL : ∀ e ∈ range f.nel, w e * (Hmul sqrt f x e / hs e)
      = ∑ j ∈ range f.nel, Hfull sqrt f e j * (w e / hs e) * x j := by
    intro e he
    rw [Hmul_eq_full sqrt f hx hy x (Finset.mem_range.mp he), sumRange_eq, div_eq_mul_inv,
      Finset.sum_mul, Finset.mul_sum]
    apply Finset.sum_congr rfl
    intro j _
    rw [div_eq_mul_inv]; ring
  have hR : ∀ j ∈ range f.nel, Hmul sqrt f (fun j => w j / hs j) j * x j
      = ∑ e ∈ range f.nel, Hfull sqrt f e j * (w e / hs e) * x j := by
    intro j hj
    rw [Hmul_eq_full sqrt f hx hy _ (Finset.mem_range.mp hj), sumRange_eq, Finset.sum_mul]
    apply Finset.sum_congr rfl
    intro e he
    rw [H_symm sqrt f hx hy (Finset.mem_range.mp hj) (Finset.mem_range.mp he)]
  rw [Finset.sum_congr rfl hL, Finset.sum_congr rfl hR, Finset.sum_comm]

end field

/-! ## (4) the window contains the support of the cone -/

/-- the integer squared index distance of `h_values` -/
def d2 (f : DF α) (e j : Nat) : Int :=
  ((f.ix e : Int) - (f.ix j : Int)) * ((f.ix e : Int) - (f.ix j : Int))
    + ((f.iy e : Int) - (f.iy j : Int)) * ((f.iy e : Int) - (f.iy j : Int))
    + ((f.iz e : Int) - (f.iz j : Int)) * ((f.iz e : Int) - (f.iz j : Int))

theorem d2_nonneg (f : DF α) (e j : Nat) : 0 ≤ f.d2 e j := by
  unfold d2
  have h1 := mul_self_nonneg ((f.ix e : Int) - (f.ix j : Int))
  have h2 := mul_self_nonneg ((f.iy e : Int) - (f.iy j : Int))
  have h3 := mul_self_nonneg ((f.iz e : Int) - (f.iz j : Int))
  omega

theorem d2_self (f : DF α) (e : Nat) : f.d2 e e = 0 := by
  unfold d2; simp

theorem sq_ge_of_abs_ge {d n : Int} (hn : 0 ≤ n) (h : n ≤ d ∨ d ≤ -n) : n * n ≤ d * d := by
  rcases h with h | h <;> nlinarith

theorem far_of_not_window {a b n δ : Nat} (_ha : a < n) (hb : b < n)
    (h : ¬ (a - δ ≤ b ∧ b ≤ min (a + δ) (n - 1))) :
    (δ : Int) + 1 ≤ (a : Int) - (b : Int) ∨ (a : Int) - (b : Int) ≤ -((δ : Int) + 1) := by
  omega

/-- outside the window the squared index distance is at least `(delem+1)²` -/
theorem d2_ge_of_not_inWindow (f : DF α) (hx : 1 ≤ f.dom.nelx) (hy : 1 ≤ f.dom.nely) {e j : Nat}
    (he : e < f.nel) (hj : j < f.nel) (h : ¬ f.inWindow e j) :
    ((f.delem : Int) + 1) * ((f.delem : Int) + 1) ≤ f.d2 e j := by
  have hn : (0 : Int) ≤ (f.delem : Int) + 1 := by omega
  have sx := mul_self_nonneg ((f.ix e : Int) - (f.ix j : Int))
  have sy := mul_self_nonneg ((f.iy e : Int) - (f.iy j : Int))
  have sz := mul_self_nonneg ((f.iz e : Int) - (f.iz j : Int))
  unfold d2
  by_cases hX : f.ix e - f.delem ≤ f.ix j ∧ f.ix j ≤ min (f.ix e + f.delem) (f.nx - 1)
  · by_cases hY : f.iy e - f.delem ≤ f.iy j ∧ f.iy j ≤ min (f.iy e + f.delem) (f.ny - 1)
    · have hZ : ¬ (f.iz e - f.delem ≤ f.iz j ∧ f.iz j ≤ min (f.iz e + f.delem) (f.nz - 1)) := by
        intro hZ
        exact h ⟨hX.1, hX.2, hY.1, hY.2, hZ.1, hZ.2⟩
      have := sq_ge_of_abs_ge hn (far_of_not_window (f.iz_lt hx hy he) (f.iz_lt hx hy hj) hZ)
      omega
    · have := sq_ge_of_abs_ge hn (far_of_not_window (f.iy_lt hy e) (f.iy_lt hy j) hY)
      omega
  · have := sq_ge_of_abs_ge hn (far_of_not_window (f.ix_lt hx e) (f.ix_lt hx j) hX)
    omega

theorem inWindow_self (f : DF α) (hx : 1 ≤ f.dom.nelx) (hy : 1 ≤ f.dom.nely) {e : Nat}
    (he : e < f.nel) : f.inWindow e e := by
  have h1 := f.ix_lt hx e
  have h2 := f.iy_lt hy e
  have h3 := f.iz_lt hx hy he
  unfold inWindow xlow xupp ylow yupp zlow zupp
  omega

section ordered
variable [Field α] [LinearOrder α] [IsStrictOrderedRing α]

omit [IsStrictOrderedRing α] in
theorem hval_eq (sqrt : α → α) (f : DF α) (e j : Nat) :
    DF.hval sqrt f e j = max 0 (f.radius - sqrt ((f.d2 e j : Int) : α)) := rfl

omit [IsStrictOrderedRing α] in
theorem hval_nonneg (sqrt : α → α) (f : DF α) (e j : Nat) : 0 ≤ DF.hval sqrt f e j := by
  rw [hval_eq]; exact le_max_left _ _

omit [IsStrictOrderedRing α] in
theorem Hfull_nonneg (sqrt : α → α) (f : DF α) (e j : Nat) : 0 ≤ DF.Hfull sqrt f e j := by
  unfold Hfull
  split
  · exact hval_nonneg sqrt f e j
  · exact le_refl _

/-- a lower bound on the square gives a lower bound on the (contract) square root -/
theorem le_sqrt_of_sq_le (sqrt : α → α) (hsq0 : ∀ a, 0 ≤ a → 0 ≤ sqrt a)
    (hsq : ∀ a, 0 ≤ a → sqrt a * sqrt a = a) {c a : α} (ha : 0 ≤ a) (h : c * c ≤ a) :
    c ≤ sqrt a := by
  by_contra hlt
  have hlt' : sqrt a < c := not_le.mp hlt
  have := mul_self_lt_mul_self (hsq0 a ha) hlt'
  rw [hsq a ha] at this
  exact absurd h (not_le.mpr this)

/-- the cone vanishes outside the window when `radius < delem + 1` -/
theorem hval_eq_zero_of_not_inWindow (sqrt : α → α) (hsq0 : ∀ a, 0 ≤ a → 0 ≤ sqrt a)
    (hsq : ∀ a, 0 ≤ a → sqrt a * sqrt a = a) (f : DF α) (hx : 1 ≤ f.dom.nelx) (hy : 1 ≤ f.dom.nely)
    (hd : f.radius < (f.delem : α) + 1) {e j : Nat} (he : e < f.nel) (hj : j < f.nel)
    (h : ¬ f.inWindow e j) : DF.hval sqrt f e j = 0 := by
  rw [hval_eq]
  have h0 : (0 : α) ≤ ((f.d2 e j : Int) : α) := Int.cast_nonneg (f.d2_nonneg e j)
  have h1 : ((f.delem : α) + 1) * ((f.delem : α) + 1) ≤ ((f.d2 e j : Int) : α) := by
    have := (Int.cast_le (R := α)).mpr (f.d2_ge_of_not_inWindow hx hy he hj h)
    push_cast at this
    exact this
  have h2 := le_sqrt_of_sq_le sqrt hsq0 hsq h0 h1
  apply max_eq_left
  linarith

theorem Hfull_eq_hval (sqrt : α → α) (hsq0 : ∀ a, 0 ≤ a → 0 ≤ sqrt a)
    (hsq : ∀ a, 0 ≤ a → sqrt a * sqrt a = a) (f : DF α) (hx : 1 ≤ f.dom.nelx) (hy : 1 ≤ f.dom.nely)
    (hd : f.radius < (f.delem : α) + 1) {e j : Nat} (he : e < f.nel) (hj : j < f.nel) :
    DF.Hfull sqrt f e j = DF.hval sqrt f e j := by
  unfold Hfull
  by_cases h : f.inWindow e j
  · rw [if_pos h]
  · rw [if_neg h, hval_eq_zero_of_not_inWindow sqrt hsq0 hsq f hx hy hd he hj h]

omit [IsStrictOrderedRing α] in
theorem HsEff_none (sqrt : α → α) (f : DF α) (hnp : f.nonpadding = none) (e : Nat) :
    DF.HsEff sqrt f e = DF.Hs sqrt f e := by
  unfold HsEff hsEffOf
  simp only [hnp]

omit [IsStrictOrderedRing α] in
/-- without `nonpadding` : window form of the response as a quotient of full sums of `Hfull` -/
theorem resp_eq_full (sqrt : α → α) (f : DF α) (hx : 1 ≤ f.dom.nelx) (hy : 1 ≤ f.dom.nely)
    (hnp : f.nonpadding = none) (x : Nat → α) {e : Nat} (he : e < f.nel) :
    DF.resp sqrt f x e = (∑ j ∈ range f.nel, DF.Hfull sqrt f e j * x j)
      / (∑ j ∈ range f.nel, DF.Hfull sqrt f e j) := by
  unfold resp respOf
  rw [HsEff_none sqrt f hnp, Hmul_eq_full sqrt f hx hy x he, Hs_eq_full sqrt f hx hy he,
    sumRange_eq, sumRange_eq]

theorem Hfull_self (sqrt : α → α) (hsq : ∀ a, 0 ≤ a → sqrt a * sqrt a = a) (f : DF α)
    (hx : 1 ≤ f.dom.nelx) (hy : 1 ≤ f.dom.nely) (hr : 0 < f.radius) {e : Nat} (he : e < f.nel) :
    DF.Hfull sqrt f e e = f.radius := by
  unfold Hfull
  rw [if_pos (f.inWindow_self hx hy he), hval_eq, d2_self]
  have h0 : sqrt (0 : α) = 0 := mul_self_eq_zero.mp (hsq 0 (le_refl _))
  rw [Int.cast_zero, h0, sub_zero]
  exact max_eq_right hr.le

theorem Hs_pos (sqrt : α → α) (hsq : ∀ a, 0 ≤ a → sqrt a * sqrt a = a) (f : DF α)
    (hx : 1 ≤ f.dom.nelx) (hy : 1 ≤ f.dom.nely) (hr : 0 < f.radius) {e : Nat} (he : e < f.nel) :
    0 < DF.Hs sqrt f e := by
  rw [Hs_eq_full sqrt f hx hy he, sumRange_eq]
  have h := Finset.single_le_sum (f := fun j => DF.Hfull sqrt f e j)
    (fun j _ => Hfull_nonneg sqrt f e j) (Finset.mem_range.mpr he)
  rw [Hfull_self sqrt hsq f hx hy hr he] at h
  exact lt_of_lt_of_le hr h

end ordered
end DF

theorem densityFilter_adjoint_lemma {α : Type} [Field α] [Max α] (sqrt : α → α) (f : DF α)
    (hx : 1 ≤ f.dom.nelx) (hy : 1 ≤ f.dom.nely) (x w : Nat → α) :
    dot f.nel w (DF.resp sqrt f x) = dot f.nel (DF.sens sqrt f w) x :=
  DF.respOf_sensOf_adjoint sqrt f hx hy _ x w


section props
variable {α : Type} [Field α] [LinearOrder α] [IsStrictOrderedRing α]

theorem densityFilter_is_cone_average_lemma (sqrt : α → α) (hsq0 : ∀ a, 0 ≤ a → 0 ≤ sqrt a)
    (hsq : ∀ a, 0 ≤ a → sqrt a * sqrt a = a) (f : DF α) (hx : 1 ≤ f.dom.nelx) (hy : 1 ≤ f.dom.nely)
    (hnp : f.nonpadding = none)
    (hd : (f.delem : α) ≤ f.radius ∧ f.radius < (f.delem : α) + 1) (x : Nat → α) (e : Nat)
    (he : e < f.nel) :
    DF.resp sqrt f x e = sumRange f.nel (fun j => DF.hval sqrt f e j * x j)
      / sumRange f.nel (fun j => DF.hval sqrt f e j) := by
  rw [DF.resp_eq_full sqrt f hx hy hnp x he, sumRange_eq, sumRange_eq]
  congr 1
  · apply Finset.sum_congr rfl
    intro j hj
    rw [DF.Hfull_eq_hval sqrt hsq0 hsq f hx hy hd.2 he (Finset.mem_range.mp hj)]
  · apply Finset.sum_congr rfl
    intro j hj
    rw [DF.Hfull_eq_hval sqrt hsq0 hsq f hx hy hd.2 he (Finset.mem_range.mp hj)]

theorem densityFilter_Hs_pos_lemma (sqrt : α → α) (hsq : ∀ a, 0 ≤ a → sqrt a * sqrt a = a) (f : DF α)
    (hx : 1 ≤ f.dom.nelx) (hy : 1 ≤ f.dom.nely) (hr : 0 < f.radius) (e : Nat) (he : e < f.nel) :
    0 < DF.Hs sqrt f e := DF.Hs_pos sqrt hsq f hx hy hr he

theorem densityFilter_const_lemma (sqrt : α → α) (hsq : ∀ a, 0 ≤ a → sqrt a * sqrt a = a) (f : DF α)
    (hx : 1 ≤ f.dom.nelx) (hy : 1 ≤ f.dom.nely) (hnp : f.nonpadding = none) (hr : 0 < f.radius)
    (v : α) (e : Nat) (he : e < f.nel) : DF.resp sqrt f (fun _ => v) e = v := by
  have hpos := DF.Hs_pos sqrt hsq f hx hy hr he
  rw [DF.Hs_eq_full sqrt f hx hy he, sumRange_eq] at hpos
  rw [DF.resp_eq_full sqrt f hx hy hnp _ he, ← Finset.sum_mul, mul_div_assoc, mul_comm,
    div_mul_cancel₀ _ hpos.ne']

theorem densityFilter_range_lemma (sqrt : α → α) (hsq : ∀ a, 0 ≤ a → sqrt a * sqrt a = a) (f : DF α)
    (hx : 1 ≤ f.dom.nelx) (hy : 1 ≤ f.dom.nely) (hnp : f.nonpadding = none) (hr : 0 < f.radius)
    (x : Nat → α) (lo hi : α) (hlo : ∀ j, j < f.nel → lo ≤ x j) (hhi : ∀ j, j < f.nel → x j ≤ hi)
    (e : Nat) (he : e < f.nel) : lo ≤ DF.resp sqrt f x e ∧ DF.resp sqrt f x e ≤ hi := by
  have hpos := DF.Hs_pos sqrt hsq f hx hy hr he
  rw [DF.Hs_eq_full sqrt f hx hy he, sumRange_eq] at hpos
  rw [DF.resp_eq_full sqrt f hx hy hnp x he]
  constructor
  · rw [le_div_iff₀ hpos, Finset.mul_sum]
    apply Finset.sum_le_sum
    intro j hj
    rw [mul_comm]
    exact mul_le_mul_of_nonneg_left (hlo j (Finset.mem_range.mp hj)) (DF.Hfull_nonneg sqrt f e j)
  · rw [div_le_iff₀ hpos, Finset.mul_sum]
    apply Finset.sum_le_sum
    intro j hj
    rw [mul_comm hi]
    exact mul_le_mul_of_nonneg_left (hhi j (Finset.mem_range.mp hj)) (DF.Hfull_nonneg sqrt f e j)

end props

end PymotoVerif.Filter
