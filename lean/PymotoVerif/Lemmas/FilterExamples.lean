/- concrete configurations used by the non-vacuity `example`s of `Props/C09.lean` -/
import PymotoVerif.Lemmas.FilterSpec
namespace PymotoVerif.Filter

/-- binomial 3×3 kernel `[1 2 1]ᵀ[1 2 1] / 16` (non-negative, sums to one, mirror-symmetric), as a 3×3×1 array -/
def exKernel : A3 Rat := fun a b _ => ((if a = 1 then 2 else 1) * (if b = 1 then 2 else 1) : Rat) / 16

/-- 3×2 2-D domain, mixed boundary modes including a constant -/
def exCfgMixed : Cfg Rat :=
  ⟨⟨3, 2, 0⟩, 3, 3, 1, exKernel, .sym, .const 1, .edge, .wrap, .sym, .sym, []⟩

/-- 1×2 2-D domain (one element wide) with a kernel wider than the domain (5×3×1: pad 2 > 1 element),
    symmetric padding on all faces -/
def exCfgSym : Cfg Rat :=
  ⟨⟨1, 2, 0⟩, 5, 3, 1,
   fun a b _ => ((if a = 2 then 6 else if a = 1 ∨ a = 3 then 4 else 1) * (if b = 1 then 2 else 1) : Rat) / 64,
   .sym, .sym, .sym, .sym, .sym, .sym, []⟩

/-- 2×2×2 3-D domain, 3×3×3 kernel, wrap / edge / symmetric -/
def exCfg3d : Cfg Rat :=
  ⟨⟨2, 2, 2⟩, 3, 3, 3, fun a b c => ((if a = 1 then 2 else 1) * (if b = 1 then 2 else 1) * (if c = 1 then 2 else 1) : Rat) / 64,
   .wrap, .wrap, .edge, .sym, .sym, .edge, []⟩

/-- 2×2 2-D domain with a 3-D kernel (1×1×3, the identity: centre weight 1) and a constant upper z face
    (the input class repaired in /repo 6759d43: `domain_sizes` now uses `max(1, nelz)`) -/
def exCfgQuirk : Cfg Rat :=
  ⟨⟨2, 2, 0⟩, 1, 1, 3, fun _ _ c => if c = 1 then 1 else 0, .sym, .sym, .sym, .sym, .sym, .const 9, []⟩

/-- the field `[3, 5, 11, 13]` -/
def exField : Nat → Rat := fun i => ([3, 5, 11, 13].getD i 0 : Rat)

/-- witness of the open finding `filterconv-wide-pad-mixed-modes`: 2×1 domain, 7×1×1 kernel selecting the padded
    position 3 places below the output (pad 3 > 2 elements), lower x face symmetric, upper x face the constant 7 -/
def exCfgFinding : Cfg Rat :=
  ⟨⟨2, 1, 0⟩, 7, 1, 1, fun a _ _ => if a = 6 then 1 else 0, .sym, .const 7, .sym, .sym, .sym, .sym, []⟩

end PymotoVerif.Filter
