/- C09 : closed-form facts about the 1-D extension rules of `np.pad` and the 1-D specification of
   `_process_padding` (`axisSrc_spec`). -/
import PymotoVerif.Lemmas.FilterSpec
import Mathlib.Data.Int.Basic
import Mathlib.Tactic.Ring
import Mathlib.Tactic.Linarith
import Mathlib.Tactic.LinearCombination
namespace PymotoVerif.Filter

/-! ## `extSym` -/

theorem extSym_periodic (n : Nat) (t : Int) : extSym n (t + 2 * (n:Int)) = extSym n t := by
  unfold extSym
  simp

theorem extSym_reflect (n : Nat) (hn : 0 < n) (t : Int) : extSym n (-1 - t) = extSym n t := by
  unfold extSym
  have h2n : (0:Int) < 2 * (n:Int) := by omega
  have hr := Int.emod_nonneg t (ne_of_gt h2n)
  have hr' := Int.emod_lt_of_pos t h2n
  have key : (-1 - t) % (2 * (n:Int)) = 2 * (n:Int) - 1 - t % (2 * (n:Int)) := by
    have : -1 - t = (2 * (n:Int) - 1 - t % (2 * (n:Int))) + (2 * (n:Int)) * (-(t / (2 * (n:Int))) - 1) := by
      have h := Int.emod_add_mul_ediv t (2 * (n:Int))
      linear_combination (1 : Int) * h
    rw [this, Int.add_mul_emod_self_left]
    apply Int.emod_eq_of_lt <;> omega
  rw [key]
  simp only
  split_ifs <;> omega

theorem extSym_range (n : Nat) (hn : 0 < n) (t : Int) : 0 ≤ extSym n t ∧ extSym n t < n := by
  unfold extSym
  have h2n : (0:Int) < 2 * (n:Int) := by omega
  have hr := Int.emod_nonneg t (ne_of_gt h2n)
  have hr' := Int.emod_lt_of_pos t h2n
  simp only
  split_ifs <;> omega

theorem extSym_id (n : Nat) (t : Int) (h0 : 0 ≤ t) (h1 : t < n) : extSym n t = t := by
  unfold extSym
  have : t % (2 * (n:Int)) = t := Int.emod_eq_of_lt h0 (by omega)
  simp [this, h1]

/-- one reflection below the array -/
theorem extSym_below (n : Nat) (hn : 0 < n) (t : Int) (h0 : -(n:Int) ≤ t) (h1 : t < 0) :
    extSym n t = -1 - t := by
  rw [← extSym_reflect n hn t]
  exact extSym_id n _ (by omega) (by omega)

/-- one reflection above the array -/
theorem extSym_above (n : Nat) (hn : 0 < n) (t : Int) (h0 : (n:Int) ≤ t) (h1 : t < 2 * (n:Int)) :
    extSym n t = 2 * (n:Int) - 1 - t := by
  have h := extSym_periodic n (-1 - t)
  rw [← extSym_reflect n hn t, ← h]
  have e : -1 - t + 2 * (n:Int) = 2 * (n:Int) - 1 - t := by ring
  rw [e]
  exact extSym_id n _ (by omega) (by omega)

/-! ## `extEdge` -/

theorem extEdge_range (n : Nat) (hn : 0 < n) (t : Int) : 0 ≤ extEdge n t ∧ extEdge n t < n := by
  unfold extEdge
  split_ifs <;> omega

theorem extEdge_id (n : Nat) (t : Int) (h0 : 0 ≤ t) (h1 : t < n) : extEdge n t = t := by
  unfold extEdge
  split_ifs <;> omega

theorem extEdge_below (n : Nat) (t : Int) (h : t < 0) : extEdge n t = 0 := by
  unfold extEdge
  rw [if_pos h]

theorem extEdge_above (n : Nat) (t : Int) (h : (n:Int) ≤ t) : extEdge n t = (n:Int) - 1 := by
  unfold extEdge
  split_ifs <;> omega

/-! ## `extWrap` -/

theorem extWrap_range (n : Nat) (hn : 0 < n) (t : Int) : 0 ≤ extWrap n t ∧ extWrap n t < n := by
  unfold extWrap
  have hpos : (0:Int) < (n:Int) := by omega
  exact ⟨Int.emod_nonneg t (ne_of_gt hpos), Int.emod_lt_of_pos t hpos⟩

theorem extWrap_id (n : Nat) (t : Int) (h0 : 0 ≤ t) (h1 : t < n) : extWrap n t = t := by
  unfold extWrap
  exact Int.emod_eq_of_lt h0 h1

theorem extWrap_periodic (n : Nat) (t : Int) : extWrap n (t + (n:Int)) = extWrap n t := by
  unfold extWrap
  simp

/-! ## one `np.pad` call -/

theorem npPadSrc_sym (L b q : Nat) : npPadSrc .sym L b q = some (extSym L ((q:Int) - (b:Int))).toNat := by
  unfold npPadSrc
  simp only
  split_ifs with h
  · rw [extSym_id L _ h.1 h.2]
  · rfl

theorem npPadSrc_edge (L b q : Nat) : npPadSrc .edge L b q = some (extEdge L ((q:Int) - (b:Int))).toNat := by
  unfold npPadSrc
  simp only
  split_ifs with h
  · rw [extEdge_id L _ h.1 h.2]
  · rfl

theorem npPadSrc_wrap (L b q : Nat) : npPadSrc .wrap L b q = some (extWrap L ((q:Int) - (b:Int))).toNat := by
  unfold npPadSrc
  simp only
  split_ifs with h
  · rw [extWrap_id L _ h.1 h.2]
  · rfl

theorem npPadSrc_zero (L b q : Nat) :
    npPadSrc .zero L b q = if b ≤ q ∧ q < b + L then some (q - b) else none := by
  unfold npPadSrc
  simp only
  split_ifs with h1 h2 h2
  · congr 1; omega
  · omega
  · omega
  · rfl

theorem npPadSrc_lt (k : PadKind) (L before q i : Nat) (hL : 0 < L) (h : npPadSrc k L before q = some i) :
    i < L := by
  cases k
  · rw [npPadSrc_sym] at h
    have := extSym_range L hL ((q:Int) - (before:Int))
    simp only [Option.some.injEq] at h
    omega
  · rw [npPadSrc_edge] at h
    have := extEdge_range L hL ((q:Int) - (before:Int))
    simp only [Option.some.injEq] at h
    omega
  · rw [npPadSrc_wrap] at h
    have := extWrap_range L hL ((q:Int) - (before:Int))
    simp only [Option.some.injEq] at h
    omega
  · rw [npPadSrc_zero] at h
    split_ifs at h with hc
    simp only [Option.some.injEq] at h
    omega


/-! ## the composition of the three calls -/

/-- the lower-face `symmetric` pad of width `p` of an array of length `n + p` reflects once -/
theorem extSym_outer (n p : Nat) (hn : 0 < n) (t : Int) (h0 : -(p:Int) ≤ t) (h1 : t < (n:Int) + p) :
    extSym (n + p) t = if t < 0 then -1 - t else t := by
  split_ifs with h
  · exact extSym_below (n + p) (by omega) t (by omega) h
  · exact extSym_id (n + p) t (by omega) (by omega)

theorem extEdge_outer (n p : Nat) (t : Int) (h1 : t < (n:Int) + p) :
    extEdge (n + p) t = if t < 0 then 0 else t := by
  split_ifs with h
  · exact extEdge_below (n + p) t h
  · exact extEdge_id (n + p) t (by omega) (by omega)

theorem axisSrc_spec {α} (e0 e1 : Mode α) (n p q : Nat) (hn : 0 < n) (hq : q < n + 2 * p)
    (hc : axisClean e0 e1 n p) :
    axisSrc e0 e1 n p q = (match ext1 e0 e1 n ((q : Int) - (p : Int)) with
      | .idx i => some i
      | .cst _ => none) := by
  obtain ⟨t, ht⟩ : ∃ t : Int, t = (q : Int) - (p : Int) := ⟨_, rfl⟩
  have ht0 : -(p:Int) ≤ t := by omega
  have ht1 : t < (n:Int) + p := by omega
  have hS := extSym_outer n p hn t ht0 ht1
  have hE := extEdge_outer n p t ht1
  cases e0 <;> cases e1 <;>
    simp only [axisSrc, axisClean, Mode.isWrap, npPadSrc_sym, npPadSrc_edge, npPadSrc_wrap, npPadSrc_zero, ext1, extRule,
      Option.bind_some, Bool.false_eq_true, if_false, if_true, Bool.or_self, Bool.or_true, Bool.true_or,
      Nat.zero_add, Nat.add_zero, Nat.cast_zero, sub_zero, or_false, or_true] at hc ⊢
  case sym.sym =>
    rw [← ht, hS]
    by_cases h1 : t < 0
    · simp only [if_pos h1]
      rw [Int.toNat_of_nonneg (by omega), extSym_reflect n hn]
    · simp only [if_neg h1]
      rw [Int.toNat_of_nonneg (by omega)]
      by_cases h2 : t < n
      · simp only [if_pos h2]
        rw [extSym_id n t (by omega) h2]
      · simp only [if_neg h2]
  case sym.edge =>
    rw [← ht, hS]
    by_cases h1 : t < 0
    · simp only [if_pos h1]
      rw [Int.toNat_of_nonneg (by omega), extEdge_id n _ (by omega) (by omega), extSym_below n hn t (by omega) h1]
    · simp only [if_neg h1]
      rw [Int.toNat_of_nonneg (by omega)]
      by_cases h2 : t < n
      · simp only [if_pos h2]
        rw [extEdge_id n t (by omega) h2]
      · simp only [if_neg h2]
  case sym.wrap =>
    rw [← ht, hS]
    by_cases h1 : t < 0
    · simp only [if_pos h1]
      rw [Int.toNat_of_nonneg (by omega), extWrap_id n _ (by omega) (by omega), extSym_below n hn t (by omega) h1]
    · simp only [if_neg h1]
      rw [Int.toNat_of_nonneg (by omega)]
      by_cases h2 : t < n
      · simp only [if_pos h2]
        rw [extWrap_id n t (by omega) h2]
      · simp only [if_neg h2]
  case sym.const =>
    rw [← ht, hS]
    by_cases h1 : t < 0
    · simp only [if_pos h1]
      rw [if_pos (by omega), extSym_below n hn t (by omega) h1]
      rfl
    · simp only [if_neg h1]
      by_cases h2 : t < n
      · simp only [if_pos h2]
        rw [if_pos (by omega)]
        rfl
      · simp only [if_neg h2]
        rw [if_neg (by omega)]
        rfl
  case edge.sym =>
    rw [← ht, hE]
    by_cases h1 : t < 0
    · simp only [if_pos h1]
      rw [Int.toNat_of_nonneg (by omega), extSym_id n _ (by omega) (by omega), extEdge_below n t h1]
    · simp only [if_neg h1]
      rw [Int.toNat_of_nonneg (by omega)]
      by_cases h2 : t < n
      · simp only [if_pos h2]
        rw [extSym_id n t (by omega) h2]
      · simp only [if_neg h2]
  case edge.edge =>
    rw [← ht, hE]
    by_cases h1 : t < 0
    · simp only [if_pos h1]
      rw [Int.toNat_of_nonneg (by omega), extEdge_id n _ (by omega) (by omega), extEdge_below n t h1]
    · simp only [if_neg h1]
      rw [Int.toNat_of_nonneg (by omega)]
      by_cases h2 : t < n
      · simp only [if_pos h2]
        rw [extEdge_id n t (by omega) h2]
      · simp only [if_neg h2]
  case edge.wrap =>
    rw [← ht, hE]
    by_cases h1 : t < 0
    · simp only [if_pos h1]
      rw [Int.toNat_of_nonneg (by omega), extWrap_id n _ (by omega) (by omega), extEdge_below n t h1]
    · simp only [if_neg h1]
      rw [Int.toNat_of_nonneg (by omega)]
      by_cases h2 : t < n
      · simp only [if_pos h2]
        rw [extWrap_id n t (by omega) h2]
      · simp only [if_neg h2]
  case edge.const =>
    rw [← ht, hE]
    by_cases h1 : t < 0
    · simp only [if_pos h1]
      rw [if_pos (by omega), extEdge_below n t h1]
      rfl
    · simp only [if_neg h1]
      by_cases h2 : t < n
      · simp only [if_pos h2]
        rw [if_pos (by omega)]
        rfl
      · simp only [if_neg h2]
        rw [if_neg (by omega)]
        rfl
  case wrap.sym =>
    rw [← ht]
    by_cases h3 : q < p + n
    · rw [extSym_id (p + n) q (by omega) (by omega), Int.toNat_of_nonneg (by omega), ← ht]
      by_cases h1 : t < 0
      · simp only [if_pos h1]
      · simp only [if_neg h1]
        rw [if_pos (by omega), extWrap_id n t (by omega) (by omega)]
    · rw [extSym_above (p + n) (by omega) q (by omega) (by omega), Int.toNat_of_nonneg (by omega)]
      rw [if_neg (by omega), if_neg (by omega)]
      simp only
      rw [extSym_above n hn t (by omega) (by omega), extWrap_id n _ (by omega) (by omega)]
      congr 2
      omega
  case wrap.edge =>
    rw [← ht]
    by_cases h3 : q < p + n
    · rw [extEdge_id (p + n) q (by omega) (by omega), Int.toNat_of_nonneg (by omega), ← ht]
      by_cases h1 : t < 0
      · simp only [if_pos h1]
      · simp only [if_neg h1]
        rw [if_pos (by omega), extWrap_id n t (by omega) (by omega)]
    · rw [extEdge_above (p + n) q (by omega), Int.toNat_of_nonneg (by omega)]
      rw [if_neg (by omega), if_neg (by omega)]
      simp only
      rw [extEdge_above n t (by omega), extWrap_id n _ (by omega) (by omega)]
      congr 2
      omega
  case wrap.wrap =>
    rw [← ht]
    by_cases h1 : t < 0
    · simp only [if_pos h1]
    · simp only [if_neg h1]
      by_cases h2 : t < n
      · simp only [if_pos h2]
        rw [extWrap_id n t (by omega) h2]
      · simp only [if_neg h2]
  case wrap.const =>
    rw [← ht]
    by_cases h3 : q < p + n
    · rw [if_pos (by omega)]
      simp only [Option.bind_some, Nat.sub_zero]
      rw [← ht]
      by_cases h1 : t < 0
      · simp only [if_pos h1]
      · simp only [if_neg h1]
        rw [if_pos (by omega), extWrap_id n t (by omega) (by omega)]
    · rw [if_neg (by omega), if_neg (by omega), if_neg (by omega)]
      rfl
  case const.sym =>
    rw [← ht]
    by_cases h1 : t < 0
    · rw [if_neg (by omega), if_pos h1]
      rfl
    · have e : ((q - p : Nat) : Int) = t := by omega
      rw [if_pos (by omega), if_neg h1]
      simp only [Option.bind_some]
      rw [e]
      by_cases h2 : t < n
      · simp only [if_pos h2]
        rw [extSym_id n t (by omega) h2]
      · simp only [if_neg h2]
  case const.edge =>
    rw [← ht]
    by_cases h1 : t < 0
    · rw [if_neg (by omega), if_pos h1]
      rfl
    · have e : ((q - p : Nat) : Int) = t := by omega
      rw [if_pos (by omega), if_neg h1]
      simp only [Option.bind_some]
      rw [e]
      by_cases h2 : t < n
      · simp only [if_pos h2]
        rw [extEdge_id n t (by omega) h2]
      · simp only [if_neg h2]
  case const.wrap =>
    rw [← ht]
    by_cases h1 : t < 0
    · rw [if_neg (by omega), if_pos h1]
      rfl
    · have e : ((q - p : Nat) : Int) = t := by omega
      rw [if_pos (by omega), if_neg h1]
      simp only [Option.bind_some]
      rw [e]
      by_cases h2 : t < n
      · simp only [if_pos h2]
        rw [extWrap_id n t (by omega) h2]
      · simp only [if_neg h2]
  case const.const =>
    rw [← ht]
    by_cases h1 : t < 0
    · rw [if_neg (by omega), if_pos h1]
      rfl
    · rw [if_pos (by omega), if_neg h1]
      simp only [Option.bind_some]
      by_cases h2 : t < n
      · rw [if_pos (by omega), if_pos h2]
        simp only [Option.bind_some, Nat.sub_zero]
        congr 1
        omega
      · rw [if_neg (by omega), if_neg h2]
        rfl

/-- every source position delivered by `axisSrc` lies in the unpadded axis -/
theorem axisSrc_lt {α} (e0 e1 : Mode α) (n p q i : Nat) (hn : 0 < n) (h : axisSrc e0 e1 n p q = some i) :
    i < n := by
  unfold axisSrc at h
  simp only at h
  obtain ⟨q1, _, h⟩ := Option.bind_eq_some_iff.mp h
  obtain ⟨q2, h2, h⟩ := Option.bind_eq_some_iff.mp h
  cases e0 <;> cases e1 <;>
    simp only [Mode.isWrap, Bool.false_eq_true, if_false, if_true, Bool.or_self, Bool.or_true,
      Bool.or_false, Nat.zero_add, Nat.add_zero, Option.some.injEq] at h h2
  all_goals first
    | exact npPadSrc_lt _ _ _ _ _ hn h
    | (subst h; exact npPadSrc_lt _ _ _ _ _ hn h2)

/-! ## sanity (concrete instances) -/

example : (List.range 7).map (fun q : Nat => extSym 3 ((q:Int) - 2)) = [1, 0, 0, 1, 2, 2, 1] := by decide
example : (List.range 7).map (fun q : Nat => extEdge 3 ((q:Int) - 2)) = [0, 0, 0, 1, 2, 2, 2] := by decide
example : (List.range 7).map (fun q : Nat => extWrap 3 ((q:Int) - 2)) = [1, 2, 0, 1, 2, 0, 1] := by decide
/-- clean instance (`p ≤ n`): symmetric below, wrap above -/
example : (List.range 7).map (axisSrc (.sym : Mode Int) .wrap 3 2) =
    [some 1, some 0, some 0, some 1, some 2, some 0, some 1] := by decide
/-- clean instance: constant below, edge above -/
example : (List.range 7).map (axisSrc (.const (5:Int)) .edge 3 2) =
    [none, none, some 0, some 1, some 2, some 2, some 2] := by decide
/-- the cleanliness hypothesis of `axisSrc_spec` is needed: `symmetric` below / `edge` above with `p > n`
    re-reflects the already edge-extended array (position 0 reads element 1, the per-face rule says element 0) -/
example : axisSrc (.sym : Mode Int) .edge 2 5 0 = some 1 ∧
    (match ext1 (.sym : Mode Int) .edge 2 ((0:Int) - 5) with | .idx i => some i | .cst _ => none) = some 0 := by
  decide
example : axisClean (.sym : Mode Int) .sym 2 5 := Or.inr trivial
example : ¬ axisClean (.sym : Mode Int) .edge 2 5 := by simp [axisClean]

end PymotoVerif.Filter
