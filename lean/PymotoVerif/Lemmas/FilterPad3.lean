/- C09 helper lemmas, 3-D part: `_process_padding` as a per-axis source map, the override boxes,
   `get_padded_vector` = the extended field, and the scatter collapse of `_response`. -/
import PymotoVerif.Lemmas.FilterSpec
import PymotoVerif.Lemmas.Sum
import PymotoVerif.Props.C13

namespace PymotoVerif.Filter
open PymotoVerif PymotoVerif.Domain

/-! ## (a) the index array produced by `_process_padding` -/

theorem npPad_eq_padAlong (k : PadKind) (dir L before : Nat) (arr : A3 Nat) :
    npPad k dir L before arr = padAlong dir (npPadSrc k L before) arr := rfl

theorem padAlong_comp (dir : Nat) (s1 s2 : Nat → Option Nat) (arr : A3 Nat) :
    padAlong dir s1 (padAlong dir s2 arr) = padAlong dir (fun q => (s1 q).bind s2) arr := by
  funext a b c
  rcases dir with _ | _ | d
  · simp only [padAlong]; cases s1 a <;> simp
  · simp only [padAlong]; cases s1 b <;> simp
  · simp only [padAlong]; cases s1 c <;> simp

theorem padAlong_some (dir : Nat) (arr : A3 Nat) : padAlong dir some arr = arr := by
  funext a b c
  rcases dir with _ | _ | d <;> simp [padAlong]

theorem processPadding_fst {α} (c : Cfg α) (ind : A3 Nat) (n : Nat) (e0 e1 : Mode α) (dir p : Nat) :
    (c.processPadding ind n e0 e1 dir p).1 = padAlong dir (axisSrc e0 e1 n p) ind := by
  have h : ∀ s : Nat → Option Nat, (∀ q, s q = axisSrc e0 e1 n p q) →
      padAlong dir s ind = padAlong dir (axisSrc e0 e1 n p) ind := by
    intro s hs
    have : s = axisSrc e0 e1 n p := funext hs
    rw [this]
  cases e0 <;> cases e1 <;>
    simp only [Cfg.processPadding, Mode.isWrap, npPad_eq_padAlong, padAlong_comp, Bool.or_self,
      Bool.or_false, Bool.or_true, Bool.false_eq_true, if_true, if_false] <;>
    (apply h; intro q; simp [axisSrc, Mode.isWrap])

/-! ## (b) the override boxes appended by `_process_padding` -/

/-- the (at most two) boxes one call of `_process_padding` appends: upper face first, then lower face -/
def faceBoxes {α} (c : Cfg α) (e0 e1 : Mode α) (dir p : Nat) : List (Override α) :=
  (match e1 with
    | .const v => if p = 0 then [] else
        [⟨boxMask dir (p + c.domainSize dir) (p + c.domainSize dir + p)
            c.paddedSizeX c.paddedSizeY c.paddedSizeZ, v⟩]
    | _ => []) ++
  (match e0 with
    | .const v => if p = 0 then [] else
        [⟨boxMask dir 0 p c.paddedSizeX c.paddedSizeY c.paddedSizeZ, v⟩]
    | _ => [])

theorem processPadding_snd {α} (c : Cfg α) (ind : A3 Nat) (n : Nat) (e0 e1 : Mode α) (dir p : Nat) :
    (c.processPadding ind n e0 e1 dir p).2 = faceBoxes c e0 e1 dir p := by
  cases e0 <;> cases e1 <;> by_cases hp : p = 0 <;> simp [Cfg.processPadding, faceBoxes, hp]

theorem applyOverrides_nil {α} (f : A3 α) : Cfg.applyOverrides ([] : List (Override α)) f = f := rfl

theorem applyOverrides_cons {α} (o : Override α) (l : List (Override α)) (f : A3 α) :
    Cfg.applyOverrides (o :: l) f =
      Cfg.applyOverrides l (fun a b cc => if o.mask a b cc then o.value else f a b cc) := rfl

theorem applyOverrides_append {α} (l1 l2 : List (Override α)) (f : A3 α) :
    Cfg.applyOverrides (l1 ++ l2) f = Cfg.applyOverrides l2 (Cfg.applyOverrides l1 f) := by
  simp [Cfg.applyOverrides, List.foldl_append]

theorem applyOverrides_snoc {α} (l : List (Override α)) (o : Override α) (f : A3 α) :
    Cfg.applyOverrides (l ++ [o]) f =
      fun a b cc => if o.mask a b cc then o.value else Cfg.applyOverrides l f a b cc := by
  rw [applyOverrides_append]; rfl

/-- `applyOverrides` acts pointwise -/
theorem applyOverrides_congr {α} (l : List (Override α)) (f g : A3 α) (a b cc : Nat)
    (h : f a b cc = g a b cc) : Cfg.applyOverrides l f a b cc = Cfg.applyOverrides l g a b cc := by
  induction l generalizing f g with
  | nil => exact h
  | cons o l ih =>
    rw [applyOverrides_cons, applyOverrides_cons]
    apply ih
    simp only [h]

/-- coordinate of `(a,b,cc)` along axis `dir` -/
def coord (dir a b cc : Nat) : Nat :=
  match dir with
  | 0 => a
  | 1 => b
  | _ => cc

theorem boxMask_eq (dir lo hi fx fy fz a b cc : Nat) (ha : a < sz fx) (hb : b < sz fy) (hc : cc < sz fz) :
    boxMask dir lo hi fx fy fz a b cc = decide (lo ≤ coord dir a b cc ∧ coord dir a b cc < hi) := by
  rcases dir with _ | _ | d <;> simp [boxMask, coord, ha, hb, hc]

theorem ext1_lo {α} (e0 e1 : Mode α) (n : Nat) (t : Int) (h : t < 0) : ext1 e0 e1 n t = extRule e0 n t := by
  simp [ext1, h]

theorem ext1_mid {α} (e0 e1 : Mode α) (n : Nat) (t : Int) (h0 : 0 ≤ t) (h : t < (n : Int)) :
    ext1 e0 e1 n t = .idx t.toNat := by
  have : ¬ t < 0 := by omega
  simp [ext1, h, this]

theorem ext1_hi {α} (e0 e1 : Mode α) (n : Nat) (t : Int) (h : (n : Int) ≤ t) : ext1 e0 e1 n t = extRule e1 n t := by
  have h1 : ¬ t < 0 := by omega
  have h2 : ¬ t < (n : Int) := by omega
  simp [ext1, h1, h2]

/-- effect of the boxes of one axis on a position inside the padded array: the constant of the face whose
    padding region contains the position, else the previous value -/
theorem applyOverrides_faceBoxes {α} (c : Cfg α) (e0 e1 : Mode α) (dir p n : Nat) (f : A3 α) (a b cc : Nat)
    (ha : a < sz c.paddedSizeX) (hb : b < sz c.paddedSizeY) (hc : cc < sz c.paddedSizeZ)
    (hq : coord dir a b cc < n + 2 * p) (hn : p = 0 ∨ c.domainSize dir = n) :
    Cfg.applyOverrides (faceBoxes c e0 e1 dir p) f a b cc =
      (match ext1 e0 e1 n ((coord dir a b cc : Int) - (p : Int)) with
        | .cst v => v
        | .idx _ => f a b cc) := by
  by_cases hp : p = 0
  · subst hp
    rw [ext1_mid _ _ _ _ (by omega) (by omega)]
    cases e0 <;> cases e1 <;> simp [faceBoxes, applyOverrides_nil]
  · have hn' : c.domainSize dir = n := by omega
    by_cases h1 : (coord dir a b cc : Int) - (p : Int) < 0
    · have h1' : coord dir a b cc < p := by omega
      have h3 : ¬ (p + n ≤ coord dir a b cc) := by omega
      rw [ext1_lo _ _ _ _ h1]
      cases e0 <;> cases e1 <;>
        simp [faceBoxes, Cfg.applyOverrides, extRule, hp, hn', boxMask_eq, ha, hb, hc, h1', h3]
    · by_cases h2 : (coord dir a b cc : Int) - (p : Int) < (n : Int)
      · have h1' : ¬ (coord dir a b cc < p) := by omega
        have h3 : ¬ (p + n ≤ coord dir a b cc) := by omega
        rw [ext1_mid _ _ _ _ (by omega) h2]
        cases e0 <;> cases e1 <;>
          simp [faceBoxes, Cfg.applyOverrides, hp, hn', boxMask_eq, ha, hb, hc, h1', h3]
      · have h1' : ¬ (coord dir a b cc < p) := by omega
        have h3 : p + n ≤ coord dir a b cc := by omega
        have h4 : coord dir a b cc < p + n + p := by omega
        rw [ext1_hi _ _ _ _ (by omega)]
        cases e0 <;> cases e1 <;>
          simp [faceBoxes, Cfg.applyOverrides, extRule, hp, hn', boxMask_eq, ha, hb, hc, h1', h3, h4]

/-! ## (c) `el3d_pad` -/

theorem el3dPad_eq {α} (c : Cfg α) (a b cc : Nat) :
    c.el3dPad a b cc =
      (match axisSrc c.zmin c.zmax c.nz c.pz cc with
        | some k =>
          (match axisSrc c.ymin c.ymax c.ny c.py b with
          | some j =>
            (match axisSrc c.xmin c.xmax c.nx c.px a with
            | some i => c.dom.elemNumber i j k
            | none => 0)
          | none => 0)
        | none => 0) := by
  simp only [Cfg.el3dPad, Cfg.padded, processPadding_fst, padAlong, Cfg.el3dOrig]
  cases axisSrc c.zmin c.zmax c.nz c.pz cc <;> cases axisSrc c.ymin c.ymax c.ny c.py b <;>
    cases axisSrc c.xmin c.xmax c.nx c.px a <;> rfl

theorem padded_snd {α} (c : Cfg α) :
    c.padded.2 = faceBoxes c c.xmin c.xmax 0 c.px ++ faceBoxes c c.ymin c.ymax 1 c.py ++
      faceBoxes c c.zmin c.zmax 2 c.pz := by
  simp only [Cfg.padded, processPadding_snd]

/-! ## (d) `get_padded_vector` is the extended field -/

theorem sz_of_pos {s : Nat} (h : 1 ≤ s) : sz s = s := by unfold sz; omega

theorem nx_eq {α} (c : Cfg α) (hx : 1 ≤ c.dom.nelx) : c.nx = c.dom.nelx := sz_of_pos hx
theorem ny_eq {α} (c : Cfg α) (hy : 1 ≤ c.dom.nely) : c.ny = c.dom.nely := sz_of_pos hy

theorem sz_paddedSizeX {α} (c : Cfg α) (hx : 1 ≤ c.dom.nelx) : sz c.paddedSizeX = c.mx := by
  simp only [Cfg.paddedSizeX, Cfg.domainSize, Cfg.mx, Cfg.nx, sz]; omega

theorem sz_paddedSizeY {α} (c : Cfg α) (hy : 1 ≤ c.dom.nely) : sz c.paddedSizeY = c.my := by
  simp only [Cfg.paddedSizeY, Cfg.domainSize, Cfg.my, Cfg.ny, sz]; omega

theorem sz_paddedSizeZ {α} (c : Cfg α) : sz c.paddedSizeZ = c.mz := by
  simp only [Cfg.paddedSizeZ, Cfg.domainSize, Cfg.mz, Cfg.nz, sz]; omega

theorem pz_zero_or {α} (c : Cfg α) : c.pz = 0 ∨ c.domainSize 2 = c.nz := by
  right; show max 1 c.dom.nelz = sz c.dom.nelz; unfold sz; rfl

/-- the constructor boxes applied to `x[el3d_pad]` give the extended field -/
theorem constrOverrides_eq_extField {α} (c : Cfg α) (x : Nat → α)
    (hx : 1 ≤ c.dom.nelx) (hy : 1 ≤ c.dom.nely)
    (HX : ∀ q, q < c.nx + 2 * c.px → axisSrc c.xmin c.xmax c.nx c.px q =
        (match ext1 c.xmin c.xmax c.nx ((q : Int) - (c.px : Int)) with | .idx i => some i | .cst _ => none))
    (HY : ∀ q, q < c.ny + 2 * c.py → axisSrc c.ymin c.ymax c.ny c.py q =
        (match ext1 c.ymin c.ymax c.ny ((q : Int) - (c.py : Int)) with | .idx i => some i | .cst _ => none))
    (HZ : ∀ q, q < c.nz + 2 * c.pz → axisSrc c.zmin c.zmax c.nz c.pz q =
        (match ext1 c.zmin c.zmax c.nz ((q : Int) - (c.pz : Int)) with | .idx i => some i | .cst _ => none))
    (a b cc : Nat) (ha : a < c.mx) (hb : b < c.my) (hcc : cc < c.mz) :
    Cfg.applyOverrides c.padded.2 (fun a b cc => x (c.el3dPad a b cc)) a b cc =
      extField c x ((a : Int) - c.px) ((b : Int) - c.py) ((cc : Int) - c.pz) := by
  have ha' : a < sz c.paddedSizeX := by rw [sz_paddedSizeX c hx]; exact ha
  have hb' : b < sz c.paddedSizeY := by rw [sz_paddedSizeY c hy]; exact hb
  have hc' : cc < sz c.paddedSizeZ := by rw [sz_paddedSizeZ c]; exact hcc
  have ex : ∀ f : A3 α, Cfg.applyOverrides (faceBoxes c c.xmin c.xmax 0 c.px) f a b cc =
      (match ext1 c.xmin c.xmax c.nx ((a : Int) - (c.px : Int)) with
        | .cst v => v
        | .idx _ => f a b cc) := fun f =>
    applyOverrides_faceBoxes c c.xmin c.xmax 0 c.px c.nx f a b cc ha' hb' hc' ha (Or.inr (nx_eq c hx).symm)
  have ey : ∀ f : A3 α, Cfg.applyOverrides (faceBoxes c c.ymin c.ymax 1 c.py) f a b cc =
      (match ext1 c.ymin c.ymax c.ny ((b : Int) - (c.py : Int)) with
        | .cst v => v
        | .idx _ => f a b cc) := fun f =>
    applyOverrides_faceBoxes c c.ymin c.ymax 1 c.py c.ny f a b cc ha' hb' hc' hb (Or.inr (ny_eq c hy).symm)
  have ez : ∀ f : A3 α, Cfg.applyOverrides (faceBoxes c c.zmin c.zmax 2 c.pz) f a b cc =
      (match ext1 c.zmin c.zmax c.nz ((cc : Int) - (c.pz : Int)) with
        | .cst v => v
        | .idx _ => f a b cc) := fun f =>
    applyOverrides_faceBoxes c c.zmin c.zmax 2 c.pz c.nz f a b cc ha' hb' hc' hcc (pz_zero_or c)
  rw [padded_snd, applyOverrides_append, applyOverrides_append, ez, ey, ex, el3dPad_eq,
    HX a ha, HY b hb, HZ cc hcc]
  unfold extField
  generalize ext1 c.zmin c.zmax c.nz ((cc : Int) - (c.pz : Int)) = sZ
  generalize ext1 c.ymin c.ymax c.ny ((b : Int) - (c.py : Int)) = sY
  generalize ext1 c.xmin c.xmax c.nx ((a : Int) - (c.px : Int)) = sX
  cases sZ <;> cases sY <;> cases sX <;> rfl

/-- general form: the user's `override_values` entries are applied on top of the extended field -/
theorem paddedVector_eq_user_extField {α} (c : Cfg α) (x : Nat → α)
    (hx : 1 ≤ c.dom.nelx) (hy : 1 ≤ c.dom.nely)
    (HX : ∀ q, q < c.nx + 2 * c.px → axisSrc c.xmin c.xmax c.nx c.px q =
        (match ext1 c.xmin c.xmax c.nx ((q : Int) - (c.px : Int)) with | .idx i => some i | .cst _ => none))
    (HY : ∀ q, q < c.ny + 2 * c.py → axisSrc c.ymin c.ymax c.ny c.py q =
        (match ext1 c.ymin c.ymax c.ny ((q : Int) - (c.py : Int)) with | .idx i => some i | .cst _ => none))
    (HZ : ∀ q, q < c.nz + 2 * c.pz → axisSrc c.zmin c.zmax c.nz c.pz q =
        (match ext1 c.zmin c.zmax c.nz ((q : Int) - (c.pz : Int)) with | .idx i => some i | .cst _ => none))
    (a b cc : Nat) (ha : a < c.mx) (hb : b < c.my) (hcc : cc < c.mz) :
    c.paddedVector x a b cc =
      Cfg.applyOverrides c.user
        (fun a b cc => extField c x ((a : Int) - c.px) ((b : Int) - c.py) ((cc : Int) - c.pz)) a b cc := by
  unfold Cfg.paddedVector Cfg.overrides
  rw [applyOverrides_append]
  apply applyOverrides_congr
  exact constrOverrides_eq_extField c x hx hy HX HY HZ a b cc ha hb hcc

theorem paddedVector_eq_extField {α} (c : Cfg α) (x : Nat → α)
    (hx : 1 ≤ c.dom.nelx) (hy : 1 ≤ c.dom.nely) (huser : c.user = [])
    (HX : ∀ q, q < c.nx + 2 * c.px → axisSrc c.xmin c.xmax c.nx c.px q =
        (match ext1 c.xmin c.xmax c.nx ((q : Int) - (c.px : Int)) with | .idx i => some i | .cst _ => none))
    (HY : ∀ q, q < c.ny + 2 * c.py → axisSrc c.ymin c.ymax c.ny c.py q =
        (match ext1 c.ymin c.ymax c.ny ((q : Int) - (c.py : Int)) with | .idx i => some i | .cst _ => none))
    (HZ : ∀ q, q < c.nz + 2 * c.pz → axisSrc c.zmin c.zmax c.nz c.pz q =
        (match ext1 c.zmin c.zmax c.nz ((q : Int) - (c.pz : Int)) with | .idx i => some i | .cst _ => none))
    (a b cc : Nat) (ha : a < c.mx) (hb : b < c.my) (hcc : cc < c.mz) :
    c.paddedVector x a b cc = extField c x ((a : Int) - c.px) ((b : Int) - c.py) ((cc : Int) - c.pz) := by
  rw [paddedVector_eq_user_extField c x hx hy HX HY HZ a b cc ha hb hcc, huser]
  rfl

/-! ## (e) scatter collapse and the response as a padded convolution -/

theorem sumRange_congr {α} [Add α] [OfNat α 0] (n : Nat) (f g : Nat → α) (h : ∀ i, i < n → f i = g i) :
    sumRange n f = sumRange n g := by
  induction n with
  | zero => rfl
  | succ n ih =>
    rw [sumRange, sumRange, ih (fun i hi => h i (Nat.lt_succ_of_lt hi)), h n (Nat.lt_succ_self n)]

theorem sum3_congr {α} [Add α] [OfNat α 0] (nx ny nz : Nat) (f g : A3 α)
    (h : ∀ i j k, i < nx → j < ny → k < nz → f i j k = g i j k) : sum3 nx ny nz f = sum3 nx ny nz g := by
  unfold sum3
  apply sumRange_congr; intro i hi
  apply sumRange_congr; intro j hj
  apply sumRange_congr; intro k hk
  exact h i j k hi hj hk

/-- a sum of a function supported at a single in-range index -/
theorem sumRange_single {α} [AddCommMonoid α] (n i : Nat) (hi : i < n) (f : Nat → α)
    (h : ∀ i', i' < n → i' ≠ i → f i' = 0) : sumRange n f = f i := by
  rw [sumRange_eq]
  apply Finset.sum_eq_single i
  · intro b hb hne; exact h b (Finset.mem_range.mp hb) hne
  · intro hni; exact absurd (Finset.mem_range.mpr hi) hni

theorem sumRange_zero {α} [AddCommMonoid α] (n : Nat) (f : Nat → α) (h : ∀ i, i < n → f i = 0) :
    sumRange n f = 0 := by
  rw [sumRange_eq]
  exact Finset.sum_eq_zero (fun i hi => h i (Finset.mem_range.mp hi))

theorem scatterAdd3_elemNumber {α} [CommSemiring α] (c : Cfg α) (val : A3 α)
    (hx : 1 ≤ c.dom.nelx) (hy : 1 ≤ c.dom.nely) (i j k : Nat) (hi : i < c.nx) (hj : j < c.ny) (hk : k < c.nz) :
    Cfg.scatterAdd3 c.nx c.ny c.nz c.el3dOrig val (c.dom.elemNumber i j k) = val i j k := by
  have hnx := nx_eq c hx
  have hny := ny_eq c hy
  have key : ∀ i' j' k', i' < c.nx → j' < c.ny →
      c.dom.elemNumber i' j' k' = c.dom.elemNumber i j k → i' = i ∧ j' = j ∧ k' = k := by
    intro i' j' k' hi' hj' he
    exact C13.elemNumber_inj c.dom (by omega) (by omega) (by omega) (by omega) he
  unfold Cfg.scatterAdd3 sum3 Cfg.el3dOrig
  rw [sumRange_single c.nx i hi]
  · rw [sumRange_single c.ny j hj]
    · rw [sumRange_single c.nz k hk]
      · simp
      · intro k' _ hne
        beta_reduce
        rw [if_neg]
        intro he
        exact hne (key i j k' hi hj he).2.2
    · intro j' hj' hne
      apply sumRange_zero
      intro k' _
      beta_reduce
      rw [if_neg]
      intro he
      exact hne (key i j' k' hi hj' he).2.1
  · intro i' hi' hne
    apply sumRange_zero
    intro j' hj'
    apply sumRange_zero
    intro k' _
    beta_reduce
    rw [if_neg]
    intro he
    exact hne (key i' j' k' hi' hj' he).1

/-- general form (user overrides on top of the extended field) -/
theorem resp_eq_padded_convolution_user {α} [CommSemiring α] (c : Cfg α) (x : Nat → α)
    (hx : 1 ≤ c.dom.nelx) (hy : 1 ≤ c.dom.nely)
    (HX : ∀ q, q < c.nx + 2 * c.px → axisSrc c.xmin c.xmax c.nx c.px q =
        (match ext1 c.xmin c.xmax c.nx ((q : Int) - (c.px : Int)) with | .idx i => some i | .cst _ => none))
    (HY : ∀ q, q < c.ny + 2 * c.py → axisSrc c.ymin c.ymax c.ny c.py q =
        (match ext1 c.ymin c.ymax c.ny ((q : Int) - (c.py : Int)) with | .idx i => some i | .cst _ => none))
    (HZ : ∀ q, q < c.nz + 2 * c.pz → axisSrc c.zmin c.zmax c.nz c.pz q =
        (match ext1 c.zmin c.zmax c.nz ((q : Int) - (c.pz : Int)) with | .idx i => some i | .cst _ => none))
    (hk : c.oddKernel) (i j k : Nat) (hi : i < c.nx) (hj : j < c.ny) (hkk : k < c.nz) :
    c.resp x (c.dom.elemNumber i j k) =
      sum3 c.kx c.ky c.kz fun a b cc => c.w a b cc *
        Cfg.applyOverrides c.user
          (fun a b cc => extField c x ((a : Int) - c.px) ((b : Int) - c.py) ((cc : Int) - c.pz))
          (i + (c.kx - 1) - a) (j + (c.ky - 1) - b) (k + (c.kz - 1) - cc) := by
  obtain ⟨hkx, hky, hkz⟩ := hk
  unfold Cfg.resp
  rw [scatterAdd3_elemNumber c _ hx hy i j k hi hj hkk]
  unfold Cfg.convValid3
  apply sum3_congr
  intro a b cc ha hb hcc
  rw [paddedVector_eq_user_extField c x hx hy HX HY HZ]
  · unfold Cfg.mx Cfg.px; omega
  · unfold Cfg.my Cfg.py; omega
  · unfold Cfg.mz Cfg.pz; omega

theorem resp_eq_padded_convolution {α} [CommSemiring α] (c : Cfg α) (x : Nat → α)
    (hx : 1 ≤ c.dom.nelx) (hy : 1 ≤ c.dom.nely) (huser : c.user = [])
    (HX : ∀ q, q < c.nx + 2 * c.px → axisSrc c.xmin c.xmax c.nx c.px q =
        (match ext1 c.xmin c.xmax c.nx ((q : Int) - (c.px : Int)) with | .idx i => some i | .cst _ => none))
    (HY : ∀ q, q < c.ny + 2 * c.py → axisSrc c.ymin c.ymax c.ny c.py q =
        (match ext1 c.ymin c.ymax c.ny ((q : Int) - (c.py : Int)) with | .idx i => some i | .cst _ => none))
    (HZ : ∀ q, q < c.nz + 2 * c.pz → axisSrc c.zmin c.zmax c.nz c.pz q =
        (match ext1 c.zmin c.zmax c.nz ((q : Int) - (c.pz : Int)) with | .idx i => some i | .cst _ => none))
    (hk : c.oddKernel) (i j k : Nat) (hi : i < c.nx) (hj : j < c.ny) (hkk : k < c.nz) :
    c.resp x (c.dom.elemNumber i j k) =
      sum3 c.kx c.ky c.kz fun a b cc => c.w a b cc *
        extField c x ((i : Int) + c.px - a) ((j : Int) + c.py - b) ((k : Int) + c.pz - cc) := by
  rw [resp_eq_padded_convolution_user c x hx hy HX HY HZ hk i j k hi hj hkk, huser]
  obtain ⟨hkx, hky, hkz⟩ := hk
  apply sum3_congr
  intro a b cc ha hb hcc
  have e1 : ((i + (c.kx - 1) - a : Nat) : Int) - (c.px : Int) = (i : Int) + c.px - a := by
    unfold Cfg.px; omega
  have e2 : ((j + (c.ky - 1) - b : Nat) : Int) - (c.py : Int) = (j : Int) + c.py - b := by
    unfold Cfg.py; omega
  have e3 : ((k + (c.kz - 1) - cc : Nat) : Int) - (c.pz : Int) = (k : Int) + c.pz - cc := by
    unfold Cfg.pz; omega
  simp only [applyOverrides_nil, e1, e2, e3]

end PymotoVerif.Filter
