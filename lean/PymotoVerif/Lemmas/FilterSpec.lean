/- specification-level definitions for C09 (shared by the lemma files and `Props/C09.lean`):
   the field extended beyond each boundary "by the selected rule", and the 1-D view of `_process_padding`. -/
import PymotoVerif.Core.Filter
namespace PymotoVerif.Filter

/-- where a position of the extended field takes its value from: an element index along the axis, or a constant -/
inductive Src (α : Type) where
  | idx (i : Nat)
  | cst (v : α)

/-- the selected rule of one face applied at relative position `t` (outside `[0,n)`) -/
def extRule {α} (e : Mode α) (n : Nat) (t : Int) : Src α :=
  match e with
  | .sym => .idx (extSym n t).toNat
  | .edge => .idx (extEdge n t).toNat
  | .wrap => .idx (extWrap n t).toNat
  | .const v => .cst v

/-- SPECIFICATION of the extension along one axis: rule `e0` below the array, rule `e1` above it
    (`t` relative to the first element, array length `n`) -/
def ext1 {α} (e0 e1 : Mode α) (n : Nat) (t : Int) : Src α :=
  if t < 0 then extRule e0 n t
  else if t < (n : Int) then .idx t.toNat
  else extRule e1 n t

/-- the extended field `x̃` : extension in x, then in y, then in z (so a constant of a later axis wins in the corners) -/
def extField {α} (c : Cfg α) (x : Nat → α) (tx ty tz : Int) : α :=
  match ext1 c.zmin c.zmax c.nz tz with
  | .cst v => v
  | .idx k =>
    match ext1 c.ymin c.ymax c.ny ty with
    | .cst v => v
    | .idx j =>
      match ext1 c.xmin c.xmax c.nx tx with
      | .cst v => v
      | .idx i => x (c.dom.elemNumber i j k)

/-- mode pairs / pad widths for which the three successive `np.pad` calls of `_process_padding` produce the
    per-face rule: always when the pad is not wider than the array; for wider pads (repeated reflection) unless the
    later call reflects an array that was already extended by a different rule
    (`edge0 = symmetric` with `edge1 ≠ symmetric`, or `edge0 = wrap` with `edge1 = symmetric`). -/
def axisClean {α} (e0 e1 : Mode α) (n p : Nat) : Prop :=
  p ≤ n ∨ (match e0, e1 with
    | .sym, .sym => True
    | .sym, _ => False
    | .wrap, .sym => False
    | _, _ => True)

/-- 1-D view of `_process_padding`: position `q` of the padded axis ↦ source position in the unpadded axis, or
    `none` (constant placeholder `0`).  Composition of the (up to) three `np.pad` calls, outermost (last) call first. -/
def axisSrc {α} (e0 e1 : Mode α) (n p : Nat) (q : Nat) : Option Nat :=
  let w0 := if e0.isWrap then p else 0
  let w1 := if e1.isWrap then p else 0
  let la := w0 + n + w1
  let lb := if e1.isWrap then la else la + p
  let s0 : Option Nat :=
    match e0 with
    | .edge => npPadSrc .edge lb p q
    | .sym => npPadSrc .sym lb p q
    | .const _ => npPadSrc .zero lb p q
    | .wrap => some q
  s0.bind fun q1 =>
    let s1 : Option Nat :=
      match e1 with
      | .edge => npPadSrc .edge la 0 q1
      | .sym => npPadSrc .sym la 0 q1
      | .const _ => npPadSrc .zero la 0 q1
      | .wrap => some q1
    s1.bind fun q2 =>
      if e0.isWrap || e1.isWrap then npPadSrc .wrap n w0 q2 else some q2

/-- apply a 1-D source map along axis `dir` of a 3-D index array (placeholder `0` where there is no source) -/
def padAlong (dir : Nat) (src : Nat → Option Nat) (arr : A3 Nat) : A3 Nat := fun a b c =>
  match dir with
  | 0 => match src a with
    | some i => arr i b c
    | none => 0
  | 1 => match src b with
    | some j => arr a j c
    | none => 0
  | _ => match src c with
    | some l => arr a b l
    | none => 0

def Mode.isConst {α} : Mode α → Bool
  | .const _ => true
  | _ => false

/-- no constant-valued padding and no value overrides -/
def Cfg.noConst {α} (c : Cfg α) : Prop :=
  c.xmin.isConst = false ∧ c.xmax.isConst = false ∧ c.ymin.isConst = false ∧ c.ymax.isConst = false ∧
  c.zmin.isConst = false ∧ c.zmax.isConst = false ∧ c.user = []

/-- symmetric padding on all six faces, no value overrides -/
def Cfg.allSym {α} (c : Cfg α) : Prop :=
  c.xmin = .sym ∧ c.xmax = .sym ∧ c.ymin = .sym ∧ c.ymax = .sym ∧ c.zmin = .sym ∧ c.zmax = .sym ∧ c.user = []

end PymotoVerif.Filter
