/- C09 : volume preservation of `FilterConv` with symmetric padding (ANY pad width) and the properties of
   the cone kernel built by `set_filter_radius`. -/
import PymotoVerif.Lemmas.FilterPad1
import PymotoVerif.Lemmas.Sum
import PymotoVerif.Props.C13
import Mathlib.Algebra.BigOperators.Group.Finset.Basic
import Mathlib.Algebra.BigOperators.Intervals
import Mathlib.Algebra.BigOperators.Ring.Finset
import Mathlib.Algebra.BigOperators.Field
import Mathlib.Algebra.Order.BigOperators.Group.Finset
import Mathlib.Algebra.Order.Field.Basic
import Mathlib.Algebra.CharZero.Defs
import Mathlib.Data.Int.Basic
import Mathlib.Tactic.Ring
import Mathlib.Tactic.Linarith
import Mathlib.Tactic.FieldSimp
import Mathlib.Tactic.LinearCombination
namespace PymotoVerif.Filter
open Finset PymotoVerif PymotoVerif.Domain

/-! ## "covers twice" -/
section covers
variable {α : Type} [AddCommGroup α]

/-- sum over one full period does not depend on the shift -/
theorem vol_period_sum_shift (n : Nat) (g : Int → α) (hg : ∀ t, g (t + 2 * (n:Int)) = g t) (d : Int) :
    ∑ t ∈ range (2 * n), g ((t:Int) + d) = ∑ t ∈ range (2 * n), g (t:Int) := by
  have step : ∀ d : Int, ∑ t ∈ range (2 * n), g ((t:Int) + (d + 1)) = ∑ t ∈ range (2 * n), g ((t:Int) + d) := by
    intro d
    have h1 := Finset.sum_range_succ (fun t : Nat => g ((t:Int) + d)) (2 * n)
    have h2 := Finset.sum_range_succ' (fun t : Nat => g ((t:Int) + d)) (2 * n)
    have e1 : g (((2 * n : Nat) : Int) + d) = g ((0:Nat) + d) := by
      have := hg d
      push_cast
      rw [zero_add, add_comm]; exact this
    have e2 : ∀ t : Nat, g ((t:Int) + (d + 1)) = g (((t + 1 : Nat) : Int) + d) := by
      intro t; congr 1; push_cast; ring
    simp only [e2]
    rw [h1] at h2
    rw [e1] at h2
    exact (add_right_cancel h2).symm
  induction d using Int.induction_on with
  | zero => simp
  | succ k ih => rw [step, ih]
  | pred k ih =>
    have := step (-(k:Int) - 1)
    rw [show -(k:Int) - 1 + 1 = -(k:Int) by ring] at this
    rw [← this, ih]

/-- "covers twice": a symmetric pair of offsets sees every element of the field exactly twice
    (for ANY offset `d`, i.e. also under repeated reflection) -/
theorem extSym_covers_twice (n : Nat) (hn : 0 < n) (x : Int → α) (d : Int) :
    ∑ e ∈ range n, x (extSym n ((e:Int) + d)) + ∑ e ∈ range n, x (extSym n ((e:Int) - d))
      = ∑ j ∈ range n, x (j:Int) + ∑ j ∈ range n, x (j:Int) := by
  set g : Int → α := fun t => x (extSym n t) with hgdef
  have hg : ∀ t, g (t + 2 * (n:Int)) = g t := fun t => by simp only [hgdef, extSym_periodic]
  have h2 : ∑ e ∈ range n, g ((e:Int) - d) = ∑ e ∈ range n, g (((n + e : Nat) : Int) + d) := by
    rw [← Finset.sum_range_reflect]
    apply Finset.sum_congr rfl
    intro e he
    have hen : e < n := Finset.mem_range.mp he
    have : ((n - 1 - e : Nat) : Int) - d = -1 - (((n + e : Nat) : Int) + d - 2 * (n:Int)) := by
      have : ((n - 1 - e : Nat) : Int) = (n:Int) - 1 - e := by omega
      rw [this]; push_cast; ring
    simp only [hgdef]
    rw [this, extSym_reflect n hn]
    have := extSym_periodic n (((n + e : Nat) : Int) + d - 2 * (n:Int))
    rw [sub_add_cancel] at this
    rw [this]
  have h12 : ∑ e ∈ range n, g ((e:Int) + d) + ∑ e ∈ range n, g (((n + e : Nat) : Int) + d)
      = ∑ t ∈ range (2 * n), g ((t:Int) + d) := by
    rw [two_mul, Finset.sum_range_add]
  have h0 : ∑ t ∈ range (2 * n), g (t:Int) = ∑ j ∈ range n, x (j:Int) + ∑ j ∈ range n, x (j:Int) := by
    rw [two_mul, Finset.sum_range_add]
    congr 1
    · apply Finset.sum_congr rfl
      intro j hj
      have := Finset.mem_range.mp hj
      simp only [hgdef]; rw [extSym_id n j (by omega) (by omega)]
    · rw [← Finset.sum_range_reflect]
      apply Finset.sum_congr rfl
      intro j hj
      have hjn := Finset.mem_range.mp hj
      simp only [hgdef]
      have : (((n + (n - 1 - j) : Nat)) : Int) = -1 - (j:Int) + 2 * (n:Int) := by omega
      rw [this, extSym_periodic, extSym_reflect n hn, extSym_id n j (by omega) (by omega)]
  show ∑ e ∈ range n, g ((e:Int) + d) + ∑ e ∈ range n, g ((e:Int) - d) = _
  rw [h2, h12, vol_period_sum_shift n g hg d, h0]
end covers

/-! ## the 1-D core -/

/-- element seen by output position `i` through kernel entry `a` (pad `p`, symmetric extension) -/
def vol_E (n p i a : Nat) : Nat := (extSym n ((i:Int) + (p:Int) - (a:Int))).toNat

theorem vol_two_ne {α : Type} [Field α] [CharZero α] : (2:α) ≠ 0 := by
  have h : ((2:ℕ):α) ≠ 0 := Nat.cast_ne_zero.mpr (by decide)
  rwa [Nat.cast_ofNat] at h

theorem vol_core1 {α : Type} [Field α] [CharZero α] (n p : Nat) (hn : 0 < n) (w1 g : Nat → α)
    (hw : ∀ a, a < 2 * p + 1 → w1 (2 * p + 1 - 1 - a) = w1 a) :
    ∑ a ∈ range (2 * p + 1), w1 a * ∑ i ∈ range n, g (vol_E n p i a)
      = (∑ a ∈ range (2 * p + 1), w1 a) * ∑ i ∈ range n, g i := by
  set G : α := ∑ i ∈ range n, g i with hG
  set S : Nat → α := fun a => ∑ i ∈ range n, g (vol_E n p i a) with hS
  have hpair : ∀ a, a < 2 * p + 1 → S a + S (2 * p + 1 - 1 - a) = G + G := by
    intro a ha
    have h := extSym_covers_twice n hn (fun t => g t.toNat) ((p:Int) - a)
    simp only [Int.toNat_natCast] at h
    rw [hG, ← h]
    congr 1
    · apply Finset.sum_congr rfl
      intro i _
      simp only [vol_E]
      congr 3
      ring
    · apply Finset.sum_congr rfl
      intro i _
      simp only [vol_E]
      congr 3
      have : ((2 * p + 1 - 1 - a : Nat) : Int) = 2 * (p:Int) - a := by omega
      rw [this]; ring
  have hrefl : ∑ a ∈ range (2 * p + 1), w1 a * S a
      = ∑ a ∈ range (2 * p + 1), w1 a * S (2 * p + 1 - 1 - a) := by
    rw [← Finset.sum_range_reflect]
    apply Finset.sum_congr rfl
    intro a ha
    rw [hw a (Finset.mem_range.mp ha)]
  have h2 : ∑ a ∈ range (2 * p + 1), w1 a * S a + ∑ a ∈ range (2 * p + 1), w1 a * S a
      = (∑ a ∈ range (2 * p + 1), w1 a) * G + (∑ a ∈ range (2 * p + 1), w1 a) * G := by
    nth_rewrite 2 [hrefl]
    rw [← Finset.sum_add_distrib, ← mul_add, Finset.sum_mul]
    apply Finset.sum_congr rfl
    intro a ha
    rw [← mul_add, hpair a (Finset.mem_range.mp ha)]
  have h3 : (2:α) * ∑ a ∈ range (2 * p + 1), w1 a * S a = 2 * ((∑ a ∈ range (2 * p + 1), w1 a) * G) := by
    linear_combination h2
  exact mul_left_cancel₀ vol_two_ne h3

/-! ## the 3-D core -/

/-- rotation of a triple sum -/
theorem vol_rot3 {α : Type} [AddCommMonoid α] (l m n : Nat) (f : Nat → Nat → Nat → α) :
    ∑ i ∈ range l, ∑ j ∈ range m, ∑ k ∈ range n, f i j k
      = ∑ k ∈ range n, ∑ i ∈ range l, ∑ j ∈ range m, f i j k := by
  rw [Finset.sum_comm]
  calc ∑ j ∈ range m, ∑ i ∈ range l, ∑ k ∈ range n, f i j k
      = ∑ j ∈ range m, ∑ k ∈ range n, ∑ i ∈ range l, f i j k :=
        Finset.sum_congr rfl fun j _ => Finset.sum_comm
    _ = ∑ k ∈ range n, ∑ j ∈ range m, ∑ i ∈ range l, f i j k := Finset.sum_comm
    _ = ∑ k ∈ range n, ∑ i ∈ range l, ∑ j ∈ range m, f i j k :=
        Finset.sum_congr rfl fun k _ => Finset.sum_comm

theorem vol_core3 {α : Type} [Field α] [CharZero α] (nx ny nz px py pz : Nat)
    (hnx : 0 < nx) (hny : 0 < ny) (hnz : 0 < nz) (w F : Nat → Nat → Nat → α)
    (hmx : ∀ a b c, a < 2 * px + 1 → b < 2 * py + 1 → c < 2 * pz + 1 → w (2 * px + 1 - 1 - a) b c = w a b c)
    (hmy : ∀ a b c, a < 2 * px + 1 → b < 2 * py + 1 → c < 2 * pz + 1 → w a (2 * py + 1 - 1 - b) c = w a b c)
    (hmz : ∀ a b c, a < 2 * px + 1 → b < 2 * py + 1 → c < 2 * pz + 1 → w a b (2 * pz + 1 - 1 - c) = w a b c) :
    ∑ a ∈ range (2 * px + 1), ∑ b ∈ range (2 * py + 1), ∑ c ∈ range (2 * pz + 1),
        w a b c * ∑ i ∈ range nx, ∑ j ∈ range ny, ∑ k ∈ range nz,
          F (vol_E nx px i a) (vol_E ny py j b) (vol_E nz pz k c)
      = (∑ a ∈ range (2 * px + 1), ∑ b ∈ range (2 * py + 1), ∑ c ∈ range (2 * pz + 1), w a b c)
        * ∑ i ∈ range nx, ∑ j ∈ range ny, ∑ k ∈ range nz, F i j k := by
  -- z
  have hz : ∀ a ∈ range (2 * px + 1), ∀ b ∈ range (2 * py + 1),
      ∑ c ∈ range (2 * pz + 1), w a b c * ∑ i ∈ range nx, ∑ j ∈ range ny, ∑ k ∈ range nz,
          F (vol_E nx px i a) (vol_E ny py j b) (vol_E nz pz k c)
      = (∑ c ∈ range (2 * pz + 1), w a b c) * ∑ k ∈ range nz, ∑ i ∈ range nx, ∑ j ∈ range ny,
          F (vol_E nx px i a) (vol_E ny py j b) k := by
    intro a ha b hb
    rw [← vol_core1 nz pz hnz (fun c => w a b c)
      (fun K => ∑ i ∈ range nx, ∑ j ∈ range ny, F (vol_E nx px i a) (vol_E ny py j b) K)
      (fun c hc => hmz a b c (Finset.mem_range.mp ha) (Finset.mem_range.mp hb) hc)]
    apply Finset.sum_congr rfl
    intro c _
    rw [vol_rot3]
  -- y
  have hy : ∀ a ∈ range (2 * px + 1),
      ∑ b ∈ range (2 * py + 1), (∑ c ∈ range (2 * pz + 1), w a b c) *
          ∑ k ∈ range nz, ∑ i ∈ range nx, ∑ j ∈ range ny, F (vol_E nx px i a) (vol_E ny py j b) k
      = (∑ b ∈ range (2 * py + 1), ∑ c ∈ range (2 * pz + 1), w a b c) *
          ∑ j ∈ range ny, ∑ k ∈ range nz, ∑ i ∈ range nx, F (vol_E nx px i a) j k := by
    intro a ha
    rw [← vol_core1 ny py hny (fun b => ∑ c ∈ range (2 * pz + 1), w a b c)
      (fun J => ∑ k ∈ range nz, ∑ i ∈ range nx, F (vol_E nx px i a) J k)
      (fun b hb => Finset.sum_congr rfl fun c hc =>
        hmy a b c (Finset.mem_range.mp ha) hb (Finset.mem_range.mp hc))]
    apply Finset.sum_congr rfl
    intro b _
    rw [vol_rot3]
  -- x
  have hx : ∑ a ∈ range (2 * px + 1), (∑ b ∈ range (2 * py + 1), ∑ c ∈ range (2 * pz + 1), w a b c) *
          ∑ j ∈ range ny, ∑ k ∈ range nz, ∑ i ∈ range nx, F (vol_E nx px i a) j k
      = (∑ a ∈ range (2 * px + 1), ∑ b ∈ range (2 * py + 1), ∑ c ∈ range (2 * pz + 1), w a b c) *
          ∑ i ∈ range nx, ∑ j ∈ range ny, ∑ k ∈ range nz, F i j k := by
    rw [← vol_core1 nx px hnx (fun a => ∑ b ∈ range (2 * py + 1), ∑ c ∈ range (2 * pz + 1), w a b c)
      (fun I => ∑ j ∈ range ny, ∑ k ∈ range nz, F I j k)
      (fun a ha => Finset.sum_congr rfl fun b hb => Finset.sum_congr rfl fun c hc =>
        hmx a b c ha (Finset.mem_range.mp hb) (Finset.mem_range.mp hc))]
    apply Finset.sum_congr rfl
    intro a _
    rw [vol_rot3]
  rw [← hx]
  apply Finset.sum_congr rfl
  intro a ha
  rw [← hy a ha]
  apply Finset.sum_congr rfl
  intro b hb
  exact hz a ha b hb

/-! ## `_process_padding` is the 1-D source map applied along the axis -/

theorem vol_processPadding_fst {α : Type} (c : Cfg α) (ind : A3 Nat) (n : Nat) (e0 e1 : Mode α) (dir p : Nat) :
    (c.processPadding ind n e0 e1 dir p).1 = padAlong dir (axisSrc e0 e1 n p) ind := by
  funext a b cc
  rcases dir with _ | _ | d <;> cases e0 <;> cases e1 <;>
    simp [Cfg.processPadding, padAlong, axisSrc, npPad, Mode.isWrap, npPadSrc_sym, npPadSrc_edge,
      npPadSrc_wrap, npPadSrc_zero] <;>
    (try (split_ifs <;> simp <;> split_ifs <;> simp))

theorem vol_sz_pos (s : Nat) : 0 < sz s := by unfold sz; omega

theorem vol_axisSrc_sym {α : Type} (n p q : Nat) (hn : 0 < n) (hq : q < n + 2 * p) :
    axisSrc (.sym : Mode α) .sym n p q = some (extSym n ((q:Int) - (p:Int))).toNat := by
  rw [axisSrc_spec _ _ n p q hn hq (Or.inr trivial)]
  simp only [ext1, extRule]
  split_ifs with h1 h2
  · rfl
  · simp only
    rw [extSym_id n _ (by omega) h2]
  · rfl

/-- with symmetric padding on all faces, the padded index array is the reflected numbering (any pad width) -/
theorem vol_el3dPad_sym {α : Type} (c : Cfg α) (hs : c.allSym) (a b cc : Nat)
    (ha : a < c.mx) (hb : b < c.my) (hc : cc < c.mz) :
    c.el3dPad a b cc = c.dom.elemNumber (extSym c.nx ((a:Int) - (c.px:Int))).toNat
      (extSym c.ny ((b:Int) - (c.py:Int))).toNat (extSym c.nz ((cc:Int) - (c.pz:Int))).toNat := by
  obtain ⟨h1, h2, h3, h4, h5, h6, _⟩ := hs
  simp only [Cfg.el3dPad, Cfg.padded, vol_processPadding_fst, h1, h2, h3, h4, h5, h6, padAlong]
  rw [vol_axisSrc_sym c.nz c.pz cc (vol_sz_pos _) hc, vol_axisSrc_sym c.ny c.py b (vol_sz_pos _) hb,
    vol_axisSrc_sym c.nx c.px a (vol_sz_pos _) ha]
  rfl

theorem vol_overrides_sym {α : Type} (c : Cfg α) (hs : c.allSym) : c.overrides = [] := by
  obtain ⟨h1, h2, h3, h4, h5, h6, h7⟩ := hs
  simp [Cfg.overrides, Cfg.padded, Cfg.processPadding, h1, h2, h3, h4, h5, h6, h7]

theorem vol_paddedVector_sym {α : Type} (c : Cfg α) (hs : c.allSym) (x : Nat → α) :
    c.paddedVector x = fun a b cc => x (c.el3dPad a b cc) := by
  unfold Cfg.paddedVector
  rw [vol_overrides_sym c hs]
  rfl

/-! ## generic sum manipulations -/

/-- mixed radix: a sum over `range (m*n)` as a double sum -/
theorem vol_sum_range_mul {α : Type} [AddCommMonoid α] (m n : Nat) (g : Nat → α) :
    ∑ e ∈ range (m * n), g e = ∑ a ∈ range m, ∑ b ∈ range n, g (a * n + b) := by
  induction m with
  | zero => simp
  | succ m ih => rw [Nat.succ_mul, Finset.sum_range_add, ih, Finset.sum_range_succ]

/-- pull a fourth sum out of a triple sum -/
theorem vol_out3 {α : Type} [AddCommMonoid α] (l m n q : Nat) (f : Nat → Nat → Nat → Nat → α) :
    ∑ i ∈ range l, ∑ j ∈ range m, ∑ k ∈ range n, ∑ a ∈ range q, f i j k a
      = ∑ a ∈ range q, ∑ i ∈ range l, ∑ j ∈ range m, ∑ k ∈ range n, f i j k a := by
  calc ∑ i ∈ range l, ∑ j ∈ range m, ∑ k ∈ range n, ∑ a ∈ range q, f i j k a
      = ∑ i ∈ range l, ∑ j ∈ range m, ∑ a ∈ range q, ∑ k ∈ range n, f i j k a :=
        Finset.sum_congr rfl fun i _ => Finset.sum_congr rfl fun j _ => Finset.sum_comm
    _ = ∑ i ∈ range l, ∑ a ∈ range q, ∑ j ∈ range m, ∑ k ∈ range n, f i j k a :=
        Finset.sum_congr rfl fun i _ => Finset.sum_comm
    _ = ∑ a ∈ range q, ∑ i ∈ range l, ∑ j ∈ range m, ∑ k ∈ range n, f i j k a := Finset.sum_comm

/-- exchange two triple sums -/
theorem vol_swap33 {α : Type} [AddCommMonoid α] (l m n q r s : Nat)
    (f : Nat → Nat → Nat → Nat → Nat → Nat → α) :
    ∑ i ∈ range l, ∑ j ∈ range m, ∑ k ∈ range n, ∑ a ∈ range q, ∑ b ∈ range r, ∑ c ∈ range s, f i j k a b c
      = ∑ a ∈ range q, ∑ b ∈ range r, ∑ c ∈ range s, ∑ i ∈ range l, ∑ j ∈ range m, ∑ k ∈ range n,
          f i j k a b c := by
  rw [vol_out3 l m n q (fun i j k a => ∑ b ∈ range r, ∑ c ∈ range s, f i j k a b c)]
  apply Finset.sum_congr rfl
  intro a _
  rw [vol_out3 l m n r (fun i j k b => ∑ c ∈ range s, f i j k a b c)]
  apply Finset.sum_congr rfl
  intro b _
  rw [vol_out3 l m n s (fun i j k c => f i j k a b c)]

/-- summing a scatter-add over all targets gives the sum of the scattered values -/
theorem vol_scatter_sum {α : Type} [AddCommMonoid α] (N nx ny nz : Nat) (idx : A3 Nat) (val : A3 α)
    (h : ∀ i j k, i < nx → j < ny → k < nz → idx i j k < N) :
    ∑ e ∈ range N, ∑ i ∈ range nx, ∑ j ∈ range ny, ∑ k ∈ range nz, (if idx i j k = e then val i j k else 0)
      = ∑ i ∈ range nx, ∑ j ∈ range ny, ∑ k ∈ range nz, val i j k := by
  rw [← vol_out3 nx ny nz N (fun i j k e => if idx i j k = e then val i j k else 0)]
  apply Finset.sum_congr rfl
  intro i hi
  apply Finset.sum_congr rfl
  intro j hj
  apply Finset.sum_congr rfl
  intro k hk
  rw [Finset.sum_ite_eq]
  rw [if_pos (Finset.mem_range.mpr
    (h i j k (Finset.mem_range.mp hi) (Finset.mem_range.mp hj) (Finset.mem_range.mp hk)))]

theorem sumRange_scatterAdd3 {α : Type} [AddCommMonoid α] (N nx ny nz : Nat) (idx : A3 Nat) (val : A3 α)
    (h : ∀ i j k, i < nx → j < ny → k < nz → idx i j k < N) :
    sumRange N (Cfg.scatterAdd3 nx ny nz idx val) = sum3 nx ny nz val := by
  simp only [Cfg.scatterAdd3, sum3, sumRange_eq]
  exact vol_scatter_sum N nx ny nz idx val h

/-- the vector sum as a sum over the grid -/
theorem vol_sum_grid {α : Type} [AddCommMonoid α] (nx ny nz : Nat) (x : Nat → α) :
    ∑ e ∈ range (nx * ny * nz), x e
      = ∑ i ∈ range nx, ∑ j ∈ range ny, ∑ k ∈ range nz, x ((k * ny + j) * nx + i) := by
  have e : nx * ny * nz = nz * ny * nx := by ring
  rw [e, vol_sum_range_mul (nz * ny) nx, vol_sum_range_mul nz ny]
  rw [vol_rot3 nx ny nz (fun i j k => x ((k * ny + j) * nx + i))]
  apply Finset.sum_congr rfl
  intro k _
  exact Finset.sum_comm

/-! ## volume preservation -/

theorem filterConv_volume_lemma {α} [Field α] [CharZero α] (c : Cfg α) (hk : c.oddKernel)
    (hx : 1 ≤ c.dom.nelx) (hy : 1 ≤ c.dom.nely) (hs : c.allSym)
    (hmx : ∀ a b cc, a < c.kx → b < c.ky → cc < c.kz → c.w (c.kx - 1 - a) b cc = c.w a b cc)
    (hmy : ∀ a b cc, a < c.kx → b < c.ky → cc < c.kz → c.w a (c.ky - 1 - b) cc = c.w a b cc)
    (hmz : ∀ a b cc, a < c.kx → b < c.ky → cc < c.kz → c.w a b (c.kz - 1 - cc) = c.w a b cc)
    (x : Nat → α) :
    sumRange (c.nx * c.ny * c.nz) (c.resp x)
      = sum3 c.kx c.ky c.kz c.w * sumRange (c.nx * c.ny * c.nz) x := by
  obtain ⟨hkx, hky, hkz⟩ := hk
  have ekx : c.kx = 2 * c.px + 1 := by unfold Cfg.px; omega
  have eky : c.ky = 2 * c.py + 1 := by unfold Cfg.py; omega
  have ekz : c.kz = 2 * c.pz + 1 := by unfold Cfg.pz; omega
  have enx : c.nx = c.dom.nelx := by unfold Cfg.nx sz; omega
  have eny : c.ny = c.dom.nely := by unfold Cfg.ny sz; omega
  have enz : c.nz = c.dom.nz := by unfold Cfg.nz sz Dom.nz; omega
  have hlt : ∀ i j k, i < c.nx → j < c.ny → k < c.nz → c.el3dOrig i j k < c.nx * c.ny * c.nz := by
    intro i j k hi hj hk
    have := C13.elemNumber_lt c.dom (i := i) (j := j) (k := k) (by omega) (by omega) (by omega)
    rw [enx, eny, enz]
    exact this
  unfold Cfg.resp
  rw [sumRange_scatterAdd3 _ _ _ _ _ _ hlt]
  simp only [sum3, Cfg.convValid3, sumRange_eq, vol_paddedVector_sym c hs]
  -- the padded field through the reflected numbering
  have hF : ∀ i ∈ range c.nx, ∀ j ∈ range c.ny, ∀ k ∈ range c.nz,
      ∀ a ∈ range c.kx, ∀ b ∈ range c.ky, ∀ cc ∈ range c.kz,
      c.w a b cc * x (c.el3dPad (i + (c.kx - 1) - a) (j + (c.ky - 1) - b) (k + (c.kz - 1) - cc))
      = c.w a b cc * x (c.dom.elemNumber (vol_E c.nx c.px i a) (vol_E c.ny c.py j b) (vol_E c.nz c.pz k cc)) := by
    intro i hi j hj k hk a ha b hb cc hcc
    have hi := Finset.mem_range.mp hi
    have hj := Finset.mem_range.mp hj
    have hk := Finset.mem_range.mp hk
    have ha := Finset.mem_range.mp ha
    have hb := Finset.mem_range.mp hb
    have hcc := Finset.mem_range.mp hcc
    rw [vol_el3dPad_sym c hs _ _ _ (by unfold Cfg.mx; omega) (by unfold Cfg.my; omega) (by unfold Cfg.mz; omega)]
    have e1 : ((i + (c.kx - 1) - a : Nat) : Int) - (c.px : Int) = (i:Int) + (c.px:Int) - (a:Int) := by omega
    have e2 : ((j + (c.ky - 1) - b : Nat) : Int) - (c.py : Int) = (j:Int) + (c.py:Int) - (b:Int) := by omega
    have e3 : ((k + (c.kz - 1) - cc : Nat) : Int) - (c.pz : Int) = (k:Int) + (c.pz:Int) - (cc:Int) := by omega
    rw [e1, e2, e3]
    rfl
  have hL : ∑ i ∈ range c.nx, ∑ j ∈ range c.ny, ∑ k ∈ range c.nz,
      ∑ a ∈ range c.kx, ∑ b ∈ range c.ky, ∑ cc ∈ range c.kz,
        c.w a b cc * x (c.el3dPad (i + (c.kx - 1) - a) (j + (c.ky - 1) - b) (k + (c.kz - 1) - cc))
      = ∑ a ∈ range c.kx, ∑ b ∈ range c.ky, ∑ cc ∈ range c.kz,
        c.w a b cc * ∑ i ∈ range c.nx, ∑ j ∈ range c.ny, ∑ k ∈ range c.nz,
          x (c.dom.elemNumber (vol_E c.nx c.px i a) (vol_E c.ny c.py j b) (vol_E c.nz c.pz k cc)) := by
    rw [vol_swap33]
    apply Finset.sum_congr rfl
    intro a ha
    apply Finset.sum_congr rfl
    intro b hb
    apply Finset.sum_congr rfl
    intro cc hcc
    rw [Finset.mul_sum]
    apply Finset.sum_congr rfl
    intro i hi
    rw [Finset.mul_sum]
    apply Finset.sum_congr rfl
    intro j hj
    rw [Finset.mul_sum]
    apply Finset.sum_congr rfl
    intro k hk
    exact hF i hi j hj k hk a ha b hb cc hcc
  rw [hL, vol_sum_grid c.nx c.ny c.nz x]
  have hcore := vol_core3 c.nx c.ny c.nz c.px c.py c.pz (vol_sz_pos _) (vol_sz_pos _) (vol_sz_pos _) c.w
    (fun i j k => x (c.dom.elemNumber i j k))
    (by rw [← ekx, ← eky, ← ekz]; exact hmx) (by rw [← ekx, ← eky, ← ekz]; exact hmy)
    (by rw [← ekx, ← eky, ← ekz]; exact hmz)
  rw [← ekx, ← eky, ← ekz] at hcore
  rw [hcore]
  congr 1
  apply Finset.sum_congr rfl
  intro i _
  apply Finset.sum_congr rfl
  intro j _
  apply Finset.sum_congr rfl
  intro k _
  unfold Dom.elemNumber
  rw [enx, eny]

/-- a kernel that sums to one preserves the volume -/
theorem filterConv_volume_preserved {α} [Field α] [CharZero α] (c : Cfg α) (hk : c.oddKernel)
    (hx : 1 ≤ c.dom.nelx) (hy : 1 ≤ c.dom.nely) (hs : c.allSym)
    (hmx : ∀ a b cc, a < c.kx → b < c.ky → cc < c.kz → c.w (c.kx - 1 - a) b cc = c.w a b cc)
    (hmy : ∀ a b cc, a < c.kx → b < c.ky → cc < c.kz → c.w a (c.ky - 1 - b) cc = c.w a b cc)
    (hmz : ∀ a b cc, a < c.kx → b < c.ky → cc < c.kz → c.w a b (c.kz - 1 - cc) = c.w a b cc)
    (hone : sum3 c.kx c.ky c.kz c.w = 1) (x : Nat → α) :
    sumRange (c.nx * c.ny * c.nz) (c.resp x) = sumRange (c.nx * c.ny * c.nz) x := by
  rw [filterConv_volume_lemma c hk hx hy hs hmx hmy hmz x, hone, one_mul]

/-! ## every kernel of `set_filter_radius` qualifies -/
section radius
variable {α : Type} [Field α] [LinearOrder α] [IsStrictOrderedRing α]

omit [IsStrictOrderedRing α] in
theorem vol_cone_nonneg (sqrt : α → α) (radius dx dy dz : α) (hx hy hz a b c : Nat) :
    0 ≤ coneKernel sqrt radius dx dy dz hx hy hz a b c := le_max_left _ _

omit [IsStrictOrderedRing α] in
theorem vol_cone_centre (sqrt : α → α) (hsq : sqrt 0 = 0) (radius dx dy dz : α) (hx hy hz : Nat) :
    coneKernel sqrt radius dx dy dz hx hy hz hx hy hz = max 0 radius := by
  simp [coneKernel, hsq]

omit [IsStrictOrderedRing α] in
theorem vol_cone_mirror_x (sqrt : α → α) (radius dx dy dz : α) (hx hy hz a b c : Nat) (ha : a < 2 * hx + 1) :
    coneKernel sqrt radius dx dy dz hx hy hz (2 * hx + 1 - 1 - a) b c
      = coneKernel sqrt radius dx dy dz hx hy hz a b c := by
  unfold coneKernel
  have e : ((2 * hx + 1 - 1 - a : Nat) : Int) - (hx : Int) = -((a : Int) - (hx : Int)) := by omega
  simp only [e, Int.cast_neg, neg_mul, mul_neg, neg_neg]

omit [IsStrictOrderedRing α] in
theorem vol_cone_mirror_y (sqrt : α → α) (radius dx dy dz : α) (hx hy hz a b c : Nat) (hb : b < 2 * hy + 1) :
    coneKernel sqrt radius dx dy dz hx hy hz a (2 * hy + 1 - 1 - b) c
      = coneKernel sqrt radius dx dy dz hx hy hz a b c := by
  unfold coneKernel
  have e : ((2 * hy + 1 - 1 - b : Nat) : Int) - (hy : Int) = -((b : Int) - (hy : Int)) := by omega
  simp only [e, Int.cast_neg, neg_mul, mul_neg, neg_neg]

omit [IsStrictOrderedRing α] in
theorem vol_cone_mirror_z (sqrt : α → α) (radius dx dy dz : α) (hx hy hz a b c : Nat) (hc : c < 2 * hz + 1) :
    coneKernel sqrt radius dx dy dz hx hy hz a b (2 * hz + 1 - 1 - c)
      = coneKernel sqrt radius dx dy dz hx hy hz a b c := by
  unfold coneKernel
  have e : ((2 * hz + 1 - 1 - c : Nat) : Int) - (hz : Int) = -((c : Int) - (hz : Int)) := by omega
  simp only [e, Int.cast_neg, neg_mul, mul_neg, neg_neg]

/-- the normalising sum is positive: the centre weight is `radius > 0`, all others are `≥ 0` -/
theorem vol_cone_sum_pos (sqrt : α → α) (hsq : sqrt 0 = 0) (radius dx dy dz : α) (hr : 0 < radius)
    (hx hy hz : Nat) :
    0 < sum3 (2 * hx + 1) (2 * hy + 1) (2 * hz + 1) (coneKernel sqrt radius dx dy dz hx hy hz) := by
  simp only [sum3, sumRange_eq]
  have h3 : coneKernel sqrt radius dx dy dz hx hy hz hx hy hz
      ≤ ∑ c ∈ range (2 * hz + 1), coneKernel sqrt radius dx dy dz hx hy hz hx hy c :=
    Finset.single_le_sum (f := fun c => coneKernel sqrt radius dx dy dz hx hy hz hx hy c)
      (fun c _ => vol_cone_nonneg _ _ _ _ _ _ _ _ _ _ _) (Finset.mem_range.mpr (by omega))
  have h2 : ∑ c ∈ range (2 * hz + 1), coneKernel sqrt radius dx dy dz hx hy hz hx hy c
      ≤ ∑ b ∈ range (2 * hy + 1), ∑ c ∈ range (2 * hz + 1), coneKernel sqrt radius dx dy dz hx hy hz hx b c :=
    Finset.single_le_sum
      (f := fun b => ∑ c ∈ range (2 * hz + 1), coneKernel sqrt radius dx dy dz hx hy hz hx b c)
      (fun b _ => Finset.sum_nonneg fun c _ => vol_cone_nonneg _ _ _ _ _ _ _ _ _ _ _)
      (Finset.mem_range.mpr (by omega))
  have h1 : ∑ b ∈ range (2 * hy + 1), ∑ c ∈ range (2 * hz + 1), coneKernel sqrt radius dx dy dz hx hy hz hx b c
      ≤ ∑ a ∈ range (2 * hx + 1), ∑ b ∈ range (2 * hy + 1), ∑ c ∈ range (2 * hz + 1),
          coneKernel sqrt radius dx dy dz hx hy hz a b c :=
    Finset.single_le_sum
      (f := fun a => ∑ b ∈ range (2 * hy + 1), ∑ c ∈ range (2 * hz + 1),
        coneKernel sqrt radius dx dy dz hx hy hz a b c)
      (fun a _ => Finset.sum_nonneg fun b _ => Finset.sum_nonneg fun c _ =>
        vol_cone_nonneg _ _ _ _ _ _ _ _ _ _ _)
      (Finset.mem_range.mpr (by omega))
  have h0 : 0 < coneKernel sqrt radius dx dy dz hx hy hz hx hy hz := by
    rw [vol_cone_centre sqrt hsq]
    exact lt_max_of_lt_right hr
  linarith

/-- the kernel built by `set_filter_radius` (any positive radius): odd shape, non-negative, sums to one,
    mirror-symmetric in each axis — so `filterConv_volume_preserved` applies to it -/
theorem setFilterRadius_kernel_props (sqrt : α → α) (hsq : sqrt 0 = 0) (trunc : α → Int) (tiny : α)
    (dom : Dom) (es : α × α × α) (radius : α) (hr : 0 < radius) (rel : Bool)
    (kx ky kz : Nat) (w : A3 α)
    (h : setFilterRadius sqrt trunc tiny 1 dom es radius rel = .ok (kx, ky, kz, w)) :
    (kx % 2 = 1 ∧ ky % 2 = 1 ∧ kz % 2 = 1) ∧
    (∀ a b c, 0 ≤ w a b c) ∧
    sum3 kx ky kz w = 1 ∧
    (∀ a b c, a < kx → w (kx - 1 - a) b c = w a b c) ∧
    (∀ a b c, b < ky → w a (ky - 1 - b) c = w a b c) ∧
    (∀ a b c, c < kz → w a b (kz - 1 - c) = w a b c) := by
  simp only [setFilterRadius] at h
  generalize (if rel = true then (1:α) else es.1) = dx at h
  generalize (if rel = true then (1:α) else es.2.1) = dy at h
  generalize (if rel = true then (1:α) else es.2.2) = dz at h
  generalize kernelHalf trunc tiny dom.nelx radius dx = Hx at h
  generalize kernelHalf trunc tiny dom.nely radius dy = Hy at h
  generalize kernelHalf trunc tiny dom.nelz radius dz = Hz at h
  split_ifs at h with hneg
  simp only [Except.ok.injEq, Prod.mk.injEq] at h
  obtain ⟨rfl, rfl, rfl, rfl⟩ := h
  have hpos := vol_cone_sum_pos sqrt hsq radius dx dy dz hr Hx.toNat Hy.toNat Hz.toNat
  refine ⟨⟨by omega, by omega, by omega⟩, ?_, ?_, ?_, ?_, ?_⟩
  · intro a b c
    exact div_nonneg (vol_cone_nonneg _ _ _ _ _ _ _ _ _ _ _) (le_of_lt hpos)
  · have hne := ne_of_gt hpos
    simp only [sum3, sumRange_eq] at hne ⊢
    simp only [← Finset.sum_div]
    exact div_self hne
  · intro a b c ha
    simp only [vol_cone_mirror_x _ _ _ _ _ _ _ _ _ _ _ ha]
  · intro a b c hb
    simp only [vol_cone_mirror_y _ _ _ _ _ _ _ _ _ _ _ hb]
  · intro a b c hc
    simp only [vol_cone_mirror_z _ _ _ _ _ _ _ _ _ _ _ hc]

/-- a `FilterConv` built from a positive radius with symmetric padding preserves the volume -/
theorem filterConv_radius_volume_preserved (sqrt : α → α) (hsq : sqrt 0 = 0) (trunc : α → Int) (tiny : α)
    (es : α × α × α) (radius : α) (hr : 0 < radius) (rel : Bool) (c : Cfg α)
    (h : setFilterRadius sqrt trunc tiny 1 c.dom es radius rel = .ok (c.kx, c.ky, c.kz, c.w))
    (hx : 1 ≤ c.dom.nelx) (hy : 1 ≤ c.dom.nely) (hs : c.allSym) (x : Nat → α) :
    sumRange (c.nx * c.ny * c.nz) (c.resp x) = sumRange (c.nx * c.ny * c.nz) x := by
  obtain ⟨hodd, _, hone, h1, h2, h3⟩ :=
    setFilterRadius_kernel_props sqrt hsq trunc tiny c.dom es radius hr rel c.kx c.ky c.kz c.w h
  exact filterConv_volume_preserved c hodd hx hy hs (fun a b cc ha _ _ => h1 a b cc ha)
    (fun a b cc _ hb _ => h2 a b cc hb) (fun a b cc _ _ hc => h3 a b cc hc) hone x
end radius

/-! ## sanity: a kernel WIDER than the domain (pad 3 on 2 elements: numpy reflects twice) -/

/-- `nelx = 2`, kernel `[1,2,3,4,3,2,1]` (sum 16) -/
def vol_cfgT : Cfg Rat :=
  ⟨⟨2, 1, 0⟩, 7, 1, 1, fun a _ _ => ([1, 2, 3, 4, 3, 2, 1].getD a 0 : Rat), .sym, .sym, .sym, .sym, .sym, .sym, []⟩

example : vol_cfgT.oddKernel ∧ vol_cfgT.allSym :=
  ⟨by decide, rfl, rfl, rfl, rfl, rfl, rfl, rfl⟩
example : sumRange 2 (vol_cfgT.resp (fun i => ([5, 11].getD i 0 : Rat))) = 16 * (5 + 11) := by decide +kernel

end PymotoVerif.Filter
