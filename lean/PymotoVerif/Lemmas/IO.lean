/-
Helper lemmas for property C20 (`Core/IO.lean`): base64, decimal text, the 8-byte length prefix,
the parser combinators against the renderer, splitting of joined token lists.
-/
import PymotoVerif.Core.IO
namespace PymotoVerif.IO
open PymotoVerif.Domain

/-! ### bytes -/

theorem toNat_toUInt8 {n : Nat} (h : n < 256) : n.toUInt8.toNat = n := by
  simp [Nat.toUInt8]; omega

theorem toUInt8_toNat (a : UInt8) : a.toNat.toUInt8 = a := by simp

theorem toUInt8_eq_iff {n : Nat} (h : n < 256) (a : UInt8) : n.toUInt8 = a ↔ n = a.toNat := by
  constructor
  · intro e; rw [← e, toNat_toUInt8 h]
  · intro e; rw [e]; exact toUInt8_toNat a

/-! ### base64 -/

theorem b64code_lt {s : Nat} (h : s < 64) : b64code s < 256 := by
  unfold b64code; split <;> (try split) <;> (try split) <;> (try split) <;> omega

theorem b64val_b64char {s : Nat} (h : s < 64) : b64val (b64char s) = some s := by
  unfold b64val b64char
  rw [toNat_toUInt8 (b64code_lt h)]
  unfold b64code
  simp only []
  repeat' split
  all_goals first | (congr 1; omega) | omega

theorem b64val_pad : b64val 61 = none := by decide

theorem b64char_ne_pad {s : Nat} (h : s < 64) : b64char s ≠ 61 := by
  intro e
  have := b64val_b64char h
  rw [e, b64val_pad] at this
  exact absurd this (by simp)

theorem dec4_enc (x y z : Nat) (hx : x < 256) (hy : y < 256) (hz : z < 256) :
    dec4 (b64char ((x * 65536 + y * 256 + z) / 262144)) (b64char ((x * 65536 + y * 256 + z) / 4096 % 64))
      (b64char ((x * 65536 + y * 256 + z) / 64 % 64)) (b64char ((x * 65536 + y * 256 + z) % 64))
      = some [x.toUInt8, y.toUInt8, z.toUInt8] := by
  unfold dec4
  rw [b64val_b64char (by omega), b64val_b64char (by omega), b64val_b64char (by omega), b64val_b64char (by omega)]
  simp only [Option.bind_eq_bind, Option.bind_some]
  have e : (((x * 65536 + y * 256 + z) / 262144 * 64 + (x * 65536 + y * 256 + z) / 4096 % 64) * 64
      + (x * 65536 + y * 256 + z) / 64 % 64) * 64 + (x * 65536 + y * 256 + z) % 64 = x * 65536 + y * 256 + z := by omega
  rw [e]
  have e1 : (x * 65536 + y * 256 + z) / 65536 = x := by omega
  have e2 : (x * 65536 + y * 256 + z) / 256 % 256 = y := by omega
  have e3 : (x * 65536 + y * 256 + z) % 256 = z := by omega
  rw [e1, e2, e3]

theorem dec4_enc3 (a b c : UInt8) :
    ∃ q0 q1 q2 q3, enc3 a b c = [q0, q1, q2, q3] ∧ q3 ≠ 61 ∧ dec4 q0 q1 q2 q3 = some [a, b, c] := by
  have ha := a.toNat_lt
  have hb := b.toNat_lt
  have hc := c.toNat_lt
  refine ⟨_, _, _, _, rfl, b64char_ne_pad (by omega), ?_⟩
  have := dec4_enc a.toNat b.toNat c.toNat (by omega) (by omega) (by omega)
  simpa [toUInt8_toNat] using this

theorem decLast_enc2_nat (x y : Nat) (hx : x < 256) (hy : y < 256) :
    decLast (b64char ((x * 65536 + y * 256) / 262144)) (b64char ((x * 65536 + y * 256) / 4096 % 64))
      (b64char ((x * 65536 + y * 256) / 64 % 64)) 61 = some [x.toUInt8, y.toUInt8] := by
  unfold decLast
  rw [if_pos rfl, if_neg (b64char_ne_pad (by omega))]
  rw [b64val_b64char (by omega), b64val_b64char (by omega), b64val_b64char (by omega)]
  simp only [Option.bind_eq_bind, Option.bind_some]
  have e : (((x * 65536 + y * 256) / 262144 * 64 + (x * 65536 + y * 256) / 4096 % 64) * 64
      + (x * 65536 + y * 256) / 64 % 64) * 64 = x * 65536 + y * 256 := by omega
  rw [e]
  have e1 : (x * 65536 + y * 256) / 65536 = x := by omega
  have e2 : (x * 65536 + y * 256) / 256 % 256 = y := by omega
  rw [e1, e2]

theorem decLast_enc2 (a b : UInt8) :
    ∃ q0 q1 q2 q3, enc2 a b = [q0, q1, q2, q3] ∧ decLast q0 q1 q2 q3 = some [a, b] := by
  have ha := a.toNat_lt
  have hb := b.toNat_lt
  refine ⟨_, _, _, _, rfl, ?_⟩
  have := decLast_enc2_nat a.toNat b.toNat (by omega) (by omega)
  simpa [toUInt8_toNat] using this

theorem decLast_enc1_nat (x : Nat) (hx : x < 256) :
    decLast (b64char ((x * 65536) / 262144)) (b64char ((x * 65536) / 4096 % 64)) 61 61 = some [x.toUInt8] := by
  unfold decLast
  rw [if_pos rfl, if_pos rfl]
  rw [b64val_b64char (by omega), b64val_b64char (by omega)]
  simp only [Option.bind_eq_bind, Option.bind_some]
  have e : ((x * 65536) / 262144 * 64 + (x * 65536) / 4096 % 64) * 4096 = x * 65536 := by omega
  rw [e]
  have e1 : (x * 65536) / 65536 = x := by omega
  rw [e1]

theorem decLast_enc1 (a : UInt8) :
    ∃ q0 q1 q2 q3, enc1 a = [q0, q1, q2, q3] ∧ decLast q0 q1 q2 q3 = some [a] := by
  have ha := a.toNat_lt
  refine ⟨_, _, _, _, rfl, ?_⟩
  have := decLast_enc1_nat a.toNat (by omega)
  simpa [toUInt8_toNat] using this

theorem b64encode_isEmpty (bs : Bytes) : (b64encode bs).isEmpty = bs.isEmpty := by
  match bs with
  | [] => rfl
  | [a] => rfl
  | [a, b] => rfl
  | a :: b :: c :: rest => simp [b64encode, enc3]

/-- decoding inverts encoding, for every byte list (all three padding cases) -/
theorem b64decode_b64encode (bs : Bytes) : b64decode (b64encode bs) = some bs := by
  induction bs using b64encode.induct with
  | case1 => rfl
  | case2 a =>
    obtain ⟨q0, q1, q2, q3, he, hd⟩ := decLast_enc1 a
    simp [b64encode, he, b64decode, hd]
  | case3 a b =>
    obtain ⟨q0, q1, q2, q3, he, hd⟩ := decLast_enc2 a b
    simp [b64encode, he, b64decode, hd]
  | case4 a b c rest ih =>
    obtain ⟨q0, q1, q2, q3, he, hne, hd⟩ := dec4_enc3 a b c
    rw [b64encode, he]
    simp only [List.cons_append, List.nil_append, b64decode]
    rw [b64encode_isEmpty]
    cases rest with
    | nil => simp [decLast, hne, hd]
    | cons r rs => simp [hd, ih]

theorem b64encode_length (bs : Bytes) : (b64encode bs).length = b64len bs.length := by
  induction bs using b64encode.induct with
  | case1 => rfl
  | case2 a => simp [b64encode, enc1, b64len]
  | case3 a b => simp [b64encode, enc2, b64len]
  | case4 a b c rest ih =>
    rw [b64encode]
    simp only [List.length_append, ih, enc3, List.length_cons, List.length_nil, b64len]
    omega

/-! ### decimal text -/

theorem digitsAux_append (f n : Nat) (acc : Bytes) : digitsAux f n acc = digitsAux f n [] ++ acc := by
  induction f generalizing n acc with
  | zero => simp [digitsAux]
  | succ f ih =>
    simp only [digitsAux]
    split
    · simp
    · rw [ih (n / 10) (_ :: acc), ih (n / 10) [_]]; simp

theorem parseDecAux_digits (f n : Nat) (h : n < f) :
    ∃ k, ∀ rest a, parseDecAux (digitsAux f n [] ++ rest) a = parseDecAux rest (a * 10 ^ k + n) := by
  induction f generalizing n with
  | zero => omega
  | succ f ih =>
    have hd : ∀ m, m < 10 → ∀ rest a, parseDecAux ((48 + m).toUInt8 :: rest) a = parseDecAux rest (a * 10 + m) := by
      intro m hm rest a
      simp only [parseDecAux]
      rw [toNat_toUInt8 (by omega)]
      rw [if_pos (by omega)]
      congr 1; omega
    simp only [digitsAux]
    split
    · rename_i hlt
      refine ⟨1, fun rest a => ?_⟩
      have : n % 10 = n := by omega
      rw [this]
      simpa using hd n hlt rest a
    · rename_i hge
      obtain ⟨k, hk⟩ := ih (n / 10) (by omega)
      refine ⟨k + 1, fun rest a => ?_⟩
      rw [digitsAux_append, List.append_assoc, hk]
      simp only [List.singleton_append]
      rw [hd (n % 10) (by omega)]
      congr 1
      rw [Nat.pow_succ]
      have := Nat.div_add_mod n 10
      rw [Nat.add_mul, Nat.mul_assoc, Nat.add_assoc]
      congr 1
      omega

theorem digitsAux_digits (f n : Nat) : ∀ c ∈ digitsAux f n [], 48 ≤ c.toNat ∧ c.toNat ≤ 57 := by
  induction f generalizing n with
  | zero => simp [digitsAux]
  | succ f ih =>
    have hd : 48 ≤ ((48 + n % 10).toUInt8).toNat ∧ ((48 + n % 10).toUInt8).toNat ≤ 57 := by
      rw [toNat_toUInt8 (by omega)]; omega
    simp only [digitsAux]
    split
    · intro c hc
      simp only [List.mem_singleton] at hc
      rw [hc]; exact hd
    · rw [digitsAux_append]
      intro c hc
      simp only [List.mem_append, List.mem_singleton] at hc
      rcases hc with hc | hc
      · exact ih _ c hc
      · rw [hc]; exact hd

theorem natDec_digits (n : Nat) : ∀ c ∈ natDec n, 48 ≤ c.toNat ∧ c.toNat ≤ 57 := digitsAux_digits _ _

theorem natDec_ne_nil (n : Nat) : natDec n ≠ [] := by
  unfold natDec
  simp only [digitsAux]
  split
  · simp
  · rw [digitsAux_append]; simp

theorem parseDec_natDec (n : Nat) : parseDec (natDec n) = some n := by
  unfold parseDec
  have hne := natDec_ne_nil n
  have : (natDec n).isEmpty = false := by
    cases h : natDec n with
    | nil => exact absurd h hne
    | cons => rfl
  rw [this]
  obtain ⟨k, hk⟩ := parseDecAux_digits (n + 1) n (by omega)
  have := hk [] 0
  simp only [List.append_nil, Nat.zero_mul, Nat.zero_add] at this
  simpa [natDec, parseDecAux] using this

theorem not_mem_natDec {d : UInt8} (h : d.toNat < 48 ∨ 57 < d.toNat) (n : Nat) : d ∉ natDec n := by
  intro hm
  have := natDec_digits n d hm
  omega

theorem sp_not_mem_natDec (n : Nat) : (32 : UInt8) ∉ natDec n := not_mem_natDec (by decide) n
theorem quote_not_mem_natDec (n : Nat) : (34 : UInt8) ∉ natDec n := not_mem_natDec (by decide) n
theorem nl_not_mem_natDec (n : Nat) : (10 : UInt8) ∉ natDec n := not_mem_natDec (by decide) n

/-! ### the 8-byte length prefix -/

theorem u64ofLE_u64bytes (n : Nat) (h : n < two64) : u64ofLE (u64bytes true n) = some n := by
  unfold two64 at h
  simp only [u64bytes, if_true, u64ofLE]
  rw [toNat_toUInt8 (Nat.mod_lt _ (by omega)), toNat_toUInt8 (Nat.mod_lt _ (by omega)),
    toNat_toUInt8 (Nat.mod_lt _ (by omega)), toNat_toUInt8 (Nat.mod_lt _ (by omega)),
    toNat_toUInt8 (Nat.mod_lt _ (by omega)), toNat_toUInt8 (Nat.mod_lt _ (by omega)),
    toNat_toUInt8 (Nat.mod_lt _ (by omega)), toNat_toUInt8 (Nat.mod_lt _ (by omega))]
  congr 1
  omega

theorem u64of_u64bytes (le : Bool) (n : Nat) (h : n < two64) : u64of le (u64bytes le n) = some n := by
  cases le with
  | true => simpa [u64of] using u64ofLE_u64bytes n h
  | false =>
    have := u64ofLE_u64bytes n h
    simp only [u64bytes, if_true] at this
    simp only [u64of, u64bytes, Bool.false_eq_true, if_false, List.reverse_reverse]
    exact this

theorem u64bytes_length (le : Bool) (n : Nat) : (u64bytes le n).length = 8 := by
  cases le <;> simp [u64bytes]

/-! ### parser combinators against appended text -/

theorem expect_nil (inp : Bytes) : expect [] inp = some inp := by
  cases inp <;> rfl

theorem expect_append (lit rest : Bytes) : expect lit (lit ++ rest) = some rest := by
  induction lit with
  | nil => exact expect_nil rest
  | cons l ls ih => simp [expect, ih]

theorem takeUntil_append (d : UInt8) (xs rest : Bytes) (h : d ∉ xs) :
    takeUntil d (xs ++ d :: rest) = some (xs, rest) := by
  induction xs with
  | nil => simp [takeUntil]
  | cons c cs ih =>
    have hc : c ≠ d := by
      intro e; exact h (by simp [e])
    have hcs : d ∉ cs := fun hm => h (by simp [hm])
    simp [takeUntil, hc, ih hcs]

theorem takeN_append (xs rest : Bytes) : takeN xs.length (xs ++ rest) = some (xs, rest) := by
  induction xs with
  | nil => cases rest <;> rfl
  | cons c cs ih => simp [takeN, ih]

theorem takeN_append' {n : Nat} (xs rest : Bytes) (h : xs.length = n) : takeN n (xs ++ rest) = some (xs, rest) := by
  subst h; exact takeN_append xs rest

/-- number texts of the header: no blank, no quote -/
def TokOK (t : Bytes) : Prop := (32 : UInt8) ∉ t ∧ (34 : UInt8) ∉ t

instance (t : Bytes) : Decidable (TokOK t) := by unfold TokOK; infer_instance

theorem parseExtent_render (x y z : Nat) (rest : Bytes) :
    parseExtent (renderExtent x y z rest) = some ((x, y, z), rest) := by
  simp only [parseExtent, renderExtent, Option.bind_eq_bind]
  rw [expect_append]; simp only [Option.bind_some]
  rw [takeUntil_append _ _ _ (sp_not_mem_natDec x)]; simp only [Option.bind_some]
  rw [parseDec_natDec]; simp only [Option.bind_some]
  rw [expect_append]; simp only [Option.bind_some]
  rw [takeUntil_append _ _ _ (sp_not_mem_natDec y)]; simp only [Option.bind_some]
  rw [parseDec_natDec]; simp only [Option.bind_some]
  rw [expect_append]; simp only [Option.bind_some]
  rw [takeUntil_append _ _ _ (quote_not_mem_natDec z)]; simp only [Option.bind_some]
  rw [parseDec_natDec]; simp only [Option.bind_some]

theorem parseTriple_render (a b c rest : Bytes) (ha : TokOK a) (hb : TokOK b) (hc : TokOK c) :
    parseTriple (renderTriple a b c rest) = some ((a, b, c), rest) := by
  simp only [parseTriple, renderTriple, Option.bind_eq_bind]
  rw [takeUntil_append _ _ _ ha.1]; simp only [Option.bind_some]
  rw [takeUntil_append _ _ _ hb.1]; simp only [Option.bind_some]
  rw [takeUntil_append _ _ _ hc.2]; simp only [Option.bind_some]

/-- an array the code can write and the parser can read back: no quote in the name, the encoded
    length fits the 8-byte prefix -/
def ArrOK (a : Arr) : Prop := (34 : UInt8) ∉ a.name ∧ b64len a.payload.length < two64

instance (a : Arr) : Decidable (ArrOK a) := by unfold ArrOK; infer_instance

theorem parseArr_render (le : Bool) (a : Arr) (rest : Bytes) (h : ArrOK a) :
    parseArr le (renderArr le a rest) = some (a, rest) := by
  obtain ⟨hn, hl⟩ := h
  simp only [parseArr, renderArr, Option.bind_eq_bind]
  rw [expect_append]; simp only [Option.bind_some]
  rw [takeUntil_append _ _ _ hn]; simp only [Option.bind_some]
  rw [expect_append]; simp only [Option.bind_some]
  rw [takeUntil_append _ _ _ (quote_not_mem_natDec _)]; simp only [Option.bind_some]
  rw [parseDec_natDec]; simp only [Option.bind_some]
  rw [expect_append]; simp only [Option.bind_some]
  rw [takeN_append' _ _ (by rw [b64encode_length, u64bytes_length]; rfl)]; simp only [Option.bind_some]
  rw [b64decode_b64encode]; simp only [Option.bind_some]
  rw [u64of_u64bytes _ _ (by rw [b64encode_length]; exact hl)]; simp only [Option.bind_some]
  rw [takeN_append]; simp only [Option.bind_some]
  rw [b64decode_b64encode]; simp only [Option.bind_some]
  rw [expect_append]; simp only [Option.bind_some]

theorem parseArrs_render (le : Bool) (closeLit : Bytes)
    (hclose : ∀ r, expect closeLit (litArrA ++ r) = none)
    (as : List Arr) (rest : Bytes) (h : ∀ a ∈ as, ArrOK a) (fuel : Nat) (hf : as.length < fuel) :
    parseArrs le closeLit fuel (renderArrs le as (closeLit ++ rest)) = some (as, rest) := by
  induction as generalizing fuel with
  | nil =>
    cases fuel with
    | zero => omega
    | succ f => simp [parseArrs, renderArrs, expect_append]
  | cons a as ih =>
    cases fuel with
    | zero => omega
    | succ f =>
      have hstart : expect closeLit (renderArrs le (a :: as) (closeLit ++ rest)) = none := by
        simp only [renderArrs, renderArr]
        exact hclose _
      simp only [parseArrs, hstart, Option.bind_eq_bind]
      simp only [renderArrs]
      rw [parseArr_render le a _ (h a (by simp))]
      simp only [Option.bind_some]
      rw [ih (fun b hb => h b (by simp [hb])) f (by simp at hf; omega)]
      simp

theorem renderArr_length_pos (le : Bool) (a : Arr) (rest : Bytes) : rest.length < (renderArr le a rest).length := by
  simp only [renderArr, List.length_append, List.length_cons, litArrA]
  omega

theorem renderArrs_length (le : Bool) (as : List Arr) (rest : Bytes) :
    as.length + rest.length ≤ (renderArrs le as rest).length := by
  induction as with
  | nil => simp [renderArrs]
  | cons a as ih =>
    simp only [renderArrs, List.length_cons]
    have := renderArr_length_pos le a (renderArrs le as rest)
    omega

theorem renderSection_length (le : Bool) (o c : Bytes) (s : Option (List Arr)) (rest : Bytes) :
    (s.getD []).length + rest.length ≤ (renderSection le o c s rest).length := by
  cases s with
  | none => simp [renderSection]
  | some as =>
    simp only [renderSection, Option.getD_some, List.length_append]
    have := renderArrs_length le as (c ++ rest)
    simp only [List.length_append] at this
    omega

theorem parseSection_render (le : Bool) (openLit closeLit : Bytes)
    (hclose : ∀ r, expect closeLit (litArrA ++ r) = none)
    (s : Option (List Arr)) (rest : Bytes) (h : ∀ a ∈ s.getD [], ArrOK a)
    (hnone : s = none → expect openLit rest = none) (fuel : Nat) (hf : (s.getD []).length < fuel) :
    parseSection le openLit closeLit fuel (renderSection le openLit closeLit s rest) = some (s, rest) := by
  cases s with
  | none => simp [parseSection, renderSection, hnone rfl]
  | some as =>
    simp only [parseSection, renderSection, expect_append, Option.bind_eq_bind]
    rw [parseArrs_render le closeLit hclose as rest h fuel hf]
    simp

theorem pointClose_ne (r : Bytes) : expect litPointClose (litArrA ++ r) = none := by
  simp [expect, litPointClose, litArrA]

theorem cellClose_ne (r : Bytes) : expect litCellClose (litArrA ++ r) = none := by
  simp [expect, litCellClose, litArrA]

theorem pointOpen_ne_cell (le : Bool) (s : Option (List Arr)) :
    expect litPointOpen (renderSection le litCellOpen litCellClose s litTail) = none := by
  cases s with
  | none => simp [renderSection, expect, litPointOpen, litTail]
  | some as => simp [renderSection, expect, litPointOpen, litCellOpen]

theorem cellOpen_ne_tail : expect litCellOpen litTail = none := by
  simp [expect, litCellOpen, litTail]

/-- a document `write_to_vti` can produce and `parseVti` can read back -/
def DocOK (d : Doc) : Prop :=
  TokOK d.ox ∧ TokOK d.oy ∧ TokOK d.oz ∧ TokOK d.dx ∧ TokOK d.dy ∧ TokOK d.dz ∧
  (∀ a ∈ d.point.getD [], ArrOK a) ∧ (∀ a ∈ d.cell.getD [], ArrOK a)

instance (d : Doc) : Decidable (DocOK d) := by unfold DocOK; infer_instance

theorem renderVti_fuel (d : Doc) :
    (d.point.getD []).length < (renderVti d).length ∧ (d.cell.getD []).length < (renderVti d).length := by
  have h1 := renderSection_length d.le litPointOpen litPointClose d.point
    (renderSection d.le litCellOpen litCellClose d.cell litTail)
  have h2 := renderSection_length d.le litCellOpen litCellClose d.cell litTail
  simp only [renderVti, renderExtent, renderTriple, List.length_append, List.length_cons]
  omega

theorem parseVti_renderVti (d : Doc) (h : DocOK d) : parseVti (renderVti d) = some d := by
  obtain ⟨h1, h2, h3, h4, h5, h6, hp, hc⟩ := h
  obtain ⟨fp, fc⟩ := renderVti_fuel d
  generalize hfuel : (renderVti d).length = fuel at fp fc
  have hbo : (34 : UInt8) ∉ (if d.le then litLittle else litBig) := by
    cases d.le <;> decide
  have hle : parseByteOrder (if d.le then litLittle else litBig) = some d.le := by
    cases d.le <;> decide
  simp only [parseVti, hfuel, Option.bind_eq_bind]
  simp only [renderVti]
  rw [expect_append]; simp only [Option.bind_some]
  rw [expect_append]; simp only [Option.bind_some]
  rw [takeUntil_append _ _ _ hbo]; simp only [Option.bind_some]
  rw [hle]; simp only [Option.bind_some]
  rw [expect_append]; simp only [Option.bind_some]
  rw [expect_append]; simp only [Option.bind_some]
  rw [parseExtent_render]; simp only [Option.bind_some]
  rw [expect_append]; simp only [Option.bind_some]
  rw [parseTriple_render _ _ _ _ h1 h2 h3]; simp only [Option.bind_some]
  rw [expect_append]; simp only [Option.bind_some]
  rw [parseTriple_render _ _ _ _ h4 h5 h6]; simp only [Option.bind_some]
  rw [expect_append]; simp only [Option.bind_some]
  rw [expect_append]; simp only [Option.bind_some]
  rw [parseExtent_render]; simp only [Option.bind_some]
  simp only [decide_true, guardO, if_true, Option.bind_some]
  rw [expect_append]; simp only [Option.bind_some]
  rw [parseSection_render d.le litPointOpen litPointClose pointClose_ne d.point _ hp
    (fun _ => pointOpen_ne_cell d.le d.cell) fuel fp]
  simp only [Option.bind_some]
  rw [parseSection_render d.le litCellOpen litCellClose cellClose_ne d.cell _ hc
    (fun _ => cellOpen_ne_tail) fuel fc]
  simp only [Option.bind_some]
  have hself : expect litTail litTail = some [] := by
    have := expect_append litTail []
    simpa using this
  rw [hself]
  simp

/-! ### joined token lists split back -/

theorem isPrefixOf_append_of_le (p xs ys : Bytes) (h : p.length ≤ xs.length) :
    p.isPrefixOf (xs ++ ys) = p.isPrefixOf xs := by
  induction p generalizing xs with
  | nil => simp
  | cons a p ih =>
    cases xs with
    | nil => simp at h
    | cons x xs =>
      simp only [List.cons_append, List.isPrefixOf_cons_cons]
      rw [ih xs (by simpa using h)]

theorem isPrefixOf_append_right (p xs ys : Bytes) (h : p.isPrefixOf xs = true) : p.isPrefixOf (xs ++ ys) = true := by
  rw [List.isPrefixOf_iff_prefix] at *
  obtain ⟨t, ht⟩ := h
  exact ⟨t ++ ys, by rw [← ht, List.append_assoc]⟩

/-- the contract of the number formatter with respect to a separator: inside `t ++ sep` the separator
    occurs only at the very end (for a one-byte separator: the byte does not occur in `t`) -/
def SepFree (sep : Bytes) : Bytes → Prop
  | [] => True
  | c :: cs => sep.isPrefixOf (c :: cs ++ sep) = false ∧ SepFree sep cs

theorem sepFree_single (d : UInt8) (t : Bytes) (h : d ∉ t) : SepFree [d] t := by
  induction t with
  | nil => trivial
  | cons c cs ih =>
    refine ⟨?_, ih (fun hm => h (by simp [hm]))⟩
    have : (d == c) = false := by
      simp only [beq_eq_false_iff_ne, ne_eq]
      exact fun e => h (by simp [e])
    simp [List.isPrefixOf, this]

theorem splitGo_skip (sep xs rest : Bytes) : splitGo sep xs.length (xs ++ rest) = splitGo sep 0 rest := by
  induction xs with
  | nil => simp
  | cons x xs ih => simp [splitGo, ih]

theorem splitGo_tok (sep : Bytes) (hsep : sep ≠ []) (t : Bytes) (h : SepFree sep t) (rest : Bytes) :
    splitGo sep 0 (t ++ (sep ++ rest)) = t :: splitGo sep 0 rest := by
  induction t with
  | nil =>
    cases sep with
    | nil => exact absurd rfl hsep
    | cons s ss =>
      have hp : (s :: ss).isPrefixOf (s :: (ss ++ rest)) = true := by
        rw [List.isPrefixOf_iff_prefix]; exact ⟨rest, rfl⟩
      simp only [List.nil_append, List.cons_append, splitGo, hp, if_true, List.length_cons, Nat.add_sub_cancel]
      rw [splitGo_skip]
  | cons c cs ih =>
    obtain ⟨h1, h2⟩ := h
    have hp : sep.isPrefixOf (c :: (cs ++ (sep ++ rest))) = false := by
      have e : c :: (cs ++ (sep ++ rest)) = (c :: cs ++ sep) ++ rest := by simp
      rw [e, isPrefixOf_append_of_le _ _ _ (by simp; omega)]
      exact h1
    simp only [List.cons_append, splitGo, hp]
    rw [ih h2]
    simp [consHead]

theorem splitGo_last (sep t : Bytes) (h : SepFree sep t) : splitGo sep 0 t = [t] := by
  induction t with
  | nil => simp [splitGo]
  | cons c cs ih =>
    obtain ⟨h1, h2⟩ := h
    have hp : sep.isPrefixOf (c :: cs) = false := by
      cases hh : sep.isPrefixOf (c :: cs) with
      | false => rfl
      | true =>
        have := isPrefixOf_append_right sep (c :: cs) sep hh
        rw [h1] at this
        exact absurd this (by simp)
    simp only [splitGo, hp]
    rw [ih h2]
    simp [consHead]

theorem splitOn_joinSep (sep : Bytes) (hsep : sep ≠ []) (toks : List Bytes) (hne : toks ≠ [])
    (h : ∀ t ∈ toks, SepFree sep t) : splitOn sep (joinSep sep toks) = toks := by
  unfold splitOn
  induction toks with
  | nil => exact absurd rfl hne
  | cons t ts ih =>
    cases ts with
    | nil => simpa [joinSep] using splitGo_last sep t (h t (by simp))
    | cons t' ts' =>
      simp only [joinSep]
      rw [splitGo_tok sep hsep t (h t (by simp))]
      rw [ih (by simp) (fun x hx => h x (by simp [hx]))]

theorem mem_joinSep {x : UInt8} (sep : Bytes) (toks : List Bytes) (h : x ∈ joinSep sep toks) :
    x ∈ sep ∨ ∃ t ∈ toks, x ∈ t := by
  induction toks with
  | nil => simp [joinSep] at h
  | cons t ts ih =>
    cases ts with
    | nil => right; exact ⟨t, by simp, by simpa [joinSep] using h⟩
    | cons t' ts' =>
      simp only [joinSep, List.mem_append] at h
      rcases h with h | h | h
      · right; exact ⟨t, by simp, h⟩
      · left; exact h
      · rcases ih h with h' | ⟨u, hu, hx⟩
        · left; exact h'
        · right; exact ⟨u, by simp [hu], hx⟩

theorem linesOf_append (l rest : Bytes) (h : (10 : UInt8) ∉ l) :
    linesOf (l ++ 10 :: rest) = (linesOf rest).map (l :: ·) := by
  induction l with
  | nil => simp [linesOf]
  | cons c cs ih =>
    have hc : c ≠ 10 := fun e => h (by simp [e])
    simp only [List.cons_append, linesOf, hc, if_false]
    rw [ih (fun hm => h (by simp [hm]))]
    cases linesOf rest <;> simp

theorem linesOf_renderLog (sep : Bytes) (lines : List (List Bytes))
    (h : ∀ l ∈ lines, (10 : UInt8) ∉ joinSep sep l) :
    linesOf (renderLog sep lines) = some (lines.map (joinSep sep)) := by
  induction lines with
  | nil => simp [renderLog, linesOf]
  | cons l ls ih =>
    have e : renderLog sep (l :: ls) = joinSep sep l ++ 10 :: renderLog sep ls := by
      simp [renderLog]
    rw [e, linesOf_append _ _ (h l (by simp)), ih (fun x hx => h x (by simp [hx]))]
    simp

theorem parseLog_renderLog (sep : Bytes) (hsep : sep ≠ []) (hnl : (10 : UInt8) ∉ sep)
    (lines : List (List Bytes)) (hne : ∀ l ∈ lines, l ≠ [])
    (h : ∀ l ∈ lines, ∀ t ∈ l, SepFree sep t ∧ (10 : UInt8) ∉ t) :
    parseLog sep (renderLog sep lines) = some lines := by
  unfold parseLog
  rw [linesOf_renderLog]
  · simp only [Option.map_some, List.map_map]
    congr 1
    rw [List.map_congr_left (g := id)]
    · simp
    · intro l hl
      simp only [Function.comp]
      exact splitOn_joinSep sep hsep l (hne l hl) (fun t ht => (h l hl t ht).1)
  · intro l hl hm
    rcases mem_joinSep sep l hm with h' | ⟨t, ht, hx⟩
    · exact hnl h'
    · exact (h l hl t ht).2 hx

/-! ### the log as a state machine -/

theorem logRun_pos (sep : Bytes) (k : Nat) (hk : k ≠ 0) (F : Bytes) (calls : List (List Bytes × List Bytes)) :
    logRun sep ⟨k, some F⟩ calls = ⟨k + calls.length, some (F ++ renderLog sep (rowsFrom k calls))⟩ := by
  induction calls generalizing k F with
  | nil => simp [logRun, rowsFrom, renderLog]
  | cons c cs ih =>
    simp only [logRun, logWrite, hk, if_false, Option.getD_some]
    rw [ih (k + 1) (by omega)]
    simp only [rowsFrom, renderLog, List.flatMap_cons, List.length_cons, List.append_assoc]
    congr 1
    omega

theorem logRun_zero (sep : Bytes) (f0 : Option Bytes) (c : List Bytes × List Bytes)
    (cs : List (List Bytes × List Bytes)) :
    logRun sep ⟨0, f0⟩ (c :: cs) =
      ⟨(c :: cs).length, some (renderLog sep ((litIteration :: c.1) :: rowsFrom 0 (c :: cs)))⟩ := by
  simp only [logRun, logWrite, if_true, Option.getD_some]
  rw [logRun_pos sep (0 + 1) (by omega)]
  simp only [rowsFrom, renderLog, List.flatMap_cons, List.length_cons, List.append_assoc]
  congr 1
  omega

theorem rowsFrom_length (k : Nat) (calls : List (List Bytes × List Bytes)) :
    (rowsFrom k calls).length = calls.length := by
  induction calls generalizing k with
  | nil => rfl
  | cons c cs ih => simp [rowsFrom, ih]

theorem rowsFrom_getElem (k : Nat) (calls : List (List Bytes × List Bytes)) (i : Nat) (hi : i < calls.length) :
    (rowsFrom k calls)[i]'(by rw [rowsFrom_length]; exact hi) = natDec (k + i) :: calls[i].2 := by
  induction calls generalizing k i with
  | nil => simp at hi
  | cons c cs ih =>
    cases i with
    | zero => simp [rowsFrom]
    | succ j =>
      simp only [rowsFrom, List.getElem_cons_succ]
      rw [ih (k + 1) j (by simpa using hi)]
      congr 2
      omega

/-! ### classification, padding, and what `buildDoc` puts into the document -/

theorem pad2d_succ (n : Nat) (ws : List Bytes) :
    pad2d (n + 1) ws = pad2d n ws ++ [word ws (2 * n), word ws (2 * n + 1), zeroWord] := by
  simp [pad2d, List.range_succ, List.flatMap_append]

theorem pad2d_length (n : Nat) (ws : List Bytes) : (pad2d n ws).length = 3 * n := by
  induction n with
  | zero => simp [pad2d]
  | succ n ih => rw [pad2d_succ, List.length_append, ih]; simp; omega

theorem pad2d_get (nn : Nat) (ws : List Bytes) (n : Nat) (h : n < nn) :
    (pad2d nn ws).getD (3 * n) [] = word ws (2 * n) ∧
    (pad2d nn ws).getD (3 * n + 1) [] = word ws (2 * n + 1) ∧
    (pad2d nn ws).getD (3 * n + 2) [] = zeroWord := by
  induction nn with
  | zero => omega
  | succ m ih =>
    rw [pad2d_succ]
    have hl := pad2d_length m ws
    by_cases hm : n < m
    · obtain ⟨a, b, c⟩ := ih hm
      simp only [List.getD_eq_getElem?_getD] at *
      rw [List.getElem?_append_left (by omega), List.getElem?_append_left (by omega),
        List.getElem?_append_left (by omega)]
      exact ⟨a, b, c⟩
    · have e : n = m := by omega
      subst e
      simp only [List.getD_eq_getElem?_getD]
      rw [List.getElem?_append_right (by omega), List.getElem?_append_right (by omega),
        List.getElem?_append_right (by omega)]
      simp [hl]

theorem collect_ok_mem (f : Vec → Except String (List Arr)) (vs : List Vec) (as : List Arr)
    (h : collect f vs = .ok as) (v : Vec) (hv : v ∈ vs) : ∃ av, f v = .ok av ∧ ∀ a ∈ av, a ∈ as := by
  induction vs generalizing as with
  | nil => simp at hv
  | cons w ws ih =>
    simp only [collect] at h
    cases hf : f w with
    | error e => simp [hf, bind, Except.bind] at h
    | ok aw =>
      cases hr : collect f ws with
      | error e => simp [hf, hr, bind, Except.bind] at h
      | ok ar =>
        simp only [hf, hr, bind, Except.bind, Except.ok.injEq] at h
        subst h
        rcases List.mem_cons.mp hv with e | hm
        · subst e; exact ⟨aw, hf, fun a ha => by simp [ha]⟩
        · obtain ⟨av, h1, h2⟩ := ih ar hr hm
          exact ⟨av, h1, fun a ha => by simp [h2 a ha]⟩

theorem size_1d (v : Vec) (n : Nat) (h : v.shape = [n]) : v.size = n := by
  simp [Vec.size, h]

/-! ### what a successful `buildDoc` has computed -/

def cellsOf (d : Dom) (vs : List Vec) : List Vec := vs.filter (fun v => classify d v.size = .cell)
def pointsOf (d : Dom) (vs : List Vec) : List Vec := vs.filter (fun v => classify d v.size = .point)

/-- what a successful `buildDoc` that writes a file has computed -/
theorem buildDoc_ok (d : Dom) (h : Hdr) (vs : List Vec) (r : VtiResult) (doc : Doc)
    (hr : buildDoc d h vs = .ok r) (hd : r.doc = some doc) :
    d.nel ≠ 0 ∧
    (doc.le = h.le ∧ doc.nelx = d.nelx ∧ doc.nely = d.nely ∧ doc.nelz = d.nelz ∧ doc.ox = h.ox ∧ doc.oy = h.oy
      ∧ doc.oz = h.oz ∧ doc.dx = h.dx ∧ doc.dy = h.dy ∧ doc.dz = h.dz) ∧
    (if (pointsOf d vs).isEmpty then doc.point = none
      else ∃ as, doc.point = some as ∧ collect (pointArrs d) (pointsOf d vs) = .ok as) ∧
    (if (cellsOf d vs).isEmpty then doc.cell = none
      else ∃ as, doc.cell = some as ∧ collect (cellArrs d) (cellsOf d vs) = .ok as) ∧
    (∀ a ∈ doc.point.getD [] ++ doc.cell.getD [], b64len a.payload.length < two64) := by
  unfold buildDoc at hr
  split at hr
  · cases hr
  · rename_i hnel
    refine ⟨hnel, ?_⟩
    simp only [] at hr
    split at hr
    · cases hr; simp at hd
    · -- the file is written
      change (do
        let pt ← if (pointsOf d vs).isEmpty then pure none else (collect (pointArrs d) (pointsOf d vs)).map some
        let cl ← if (cellsOf d vs).isEmpty then pure none else (collect (cellArrs d) (cellsOf d vs)).map some
        if ((pt.getD []) ++ (cl.getD [])).any (fun a => b64len a.payload.length ≥ two64) then .error "struct.error"
        else .ok ⟨_, some ⟨h.le, d.nelx, d.nely, d.nelz, h.ox, h.oy, h.oz, h.dx, h.dy, h.dz, pt, cl⟩⟩) = Except.ok r at hr
      have key : ∀ (pt cl : Option (List Arr)),
          (if ((pt.getD []) ++ (cl.getD [])).any (fun a => b64len a.payload.length ≥ two64) then
            (Except.error "struct.error" : Except String VtiResult)
           else .ok ⟨(List.filter (fun v => decide (classify d v.size = Kind.skip)) vs).map (·.name),
              some ⟨h.le, d.nelx, d.nely, d.nelz, h.ox, h.oy, h.oz, h.dx, h.dy, h.dz, pt, cl⟩⟩) = Except.ok r →
          doc.point = pt ∧ doc.cell = cl ∧ (doc.le = h.le ∧ doc.nelx = d.nelx ∧ doc.nely = d.nely ∧ doc.nelz = d.nelz
            ∧ doc.ox = h.ox ∧ doc.oy = h.oy ∧ doc.oz = h.oz ∧ doc.dx = h.dx ∧ doc.dy = h.dy ∧ doc.dz = h.dz) ∧
          (∀ a ∈ pt.getD [] ++ cl.getD [], b64len a.payload.length < two64) := by
        intro pt cl hk
        split at hk
        · cases hk
        · rename_i hany
          cases hk
          simp only [Option.some.injEq] at hd
          subst hd
          refine ⟨rfl, rfl, ⟨rfl, rfl, rfl, rfl, rfl, rfl, rfl, rfl, rfl, rfl⟩, ?_⟩
          intro a ha
          simp only [List.any_eq_true, not_exists, not_and, decide_eq_true_eq] at hany
          have := hany a ha
          omega
      by_cases hp : (pointsOf d vs).isEmpty = true
      · by_cases hc : (cellsOf d vs).isEmpty = true
        · simp only [hp, hc, if_true, pure, Except.pure, bind, Except.bind] at hr
          obtain ⟨k1, k2, k3, k4⟩ := key none none hr
          exact ⟨k3, by simp [hp, k1], by simp [hc, k2], by rw [k1, k2]; exact k4⟩
        · simp only [hp, hc, if_true, pure, Except.pure, bind, Except.bind] at hr
          cases hcol : collect (cellArrs d) (cellsOf d vs) with
          | error e => simp [hcol, Except.map] at hr
          | ok as =>
            simp only [hcol, Except.map, Bool.false_eq_true, if_false] at hr
            obtain ⟨k1, k2, k3, k4⟩ := key none (some as) hr
            exact ⟨k3, by simp [hp, k1], by simp [hc, k2], by rw [k1, k2]; exact k4⟩
      · cases hpc : collect (pointArrs d) (pointsOf d vs) with
        | error e => simp [hp, hpc, Except.map, bind, Except.bind] at hr
        | ok ps =>
          by_cases hc : (cellsOf d vs).isEmpty = true
          · simp only [hp, hc, hpc, Except.map, if_true, pure, Except.pure, bind, Except.bind, Bool.false_eq_true, if_false] at hr
            obtain ⟨k1, k2, k3, k4⟩ := key (some ps) none hr
            exact ⟨k3, by simp [hp, k1], by simp [hc, k2], by rw [k1, k2]; exact k4⟩
          · cases hcol : collect (cellArrs d) (cellsOf d vs) with
            | error e => simp [hp, hc, hpc, hcol, Except.map, bind, Except.bind] at hr
            | ok as =>
              simp only [hp, hc, hpc, hcol, Except.map, pure, Except.pure, bind, Except.bind, Bool.false_eq_true, if_false] at hr
              obtain ⟨k1, k2, k3, k4⟩ := key (some ps) (some as) hr
              exact ⟨k3, by simp [hp, k1], by simp [hc, k2], by rw [k1, k2]; exact k4⟩

theorem collect_forall (f : Vec → Except String (List Arr)) (P : Arr → Prop) (vs : List Vec) (as : List Arr)
    (h : collect f vs = .ok as) (hP : ∀ v ∈ vs, ∀ av, f v = .ok av → ∀ a ∈ av, P a) : ∀ a ∈ as, P a := by
  induction vs generalizing as with
  | nil => simp [collect] at h; subst h; simp
  | cons w ws ih =>
    simp only [collect] at h
    cases hf : f w with
    | error e => simp [hf, bind, Except.bind] at h
    | ok aw =>
      cases hr : collect f ws with
      | error e => simp [hf, hr, bind, Except.bind] at h
      | ok ar =>
        simp only [hf, hr, bind, Except.bind, Except.ok.injEq] at h
        subst h
        intro a ha
        rcases List.mem_append.mp ha with h1 | h1
        · exact hP w (by simp) aw hf a h1
        · exact ih ar hr (fun v hv => hP v (by simp [hv])) a h1

theorem quote_not_mem_natDecPad (w n : Nat) : (34 : UInt8) ∉ natDecPad w n := by
  simp only [natDecPad, List.mem_append, List.mem_replicate, not_or]
  exact ⟨fun h => absurd h.2 (by decide), quote_not_mem_natDec n⟩

theorem pointArrs_names (d : Dom) (v : Vec) (as : List Arr) (h : pointArrs d v = .ok as)
    (hn : (34 : UInt8) ∉ v.name) : ∀ a ∈ as, (34 : UInt8) ∉ a.name := by
  unfold pointArrs at h
  cases hfa : firstAxis d.nnodes v.shape 0 with
  | none => simp [hfa] at h
  | some vecax =>
    simp only [hfa] at h
    by_cases h1 : v.shape.length > 2
    · simp [h1] at h
    · simp only [h1, if_false] at h
      generalize (if v.shape.length = 1 then 1 else v.shape.getD ((vecax + 1) % 2) 0) = nv at h
      by_cases h2 : nv > 1
      · simp only [h2, if_true, Except.ok.injEq] at h
        subst h
        intro a ha
        simp only [List.mem_map, List.mem_range] at ha
        obtain ⟨i, _, rfl⟩ := ha
        simp only [List.mem_append, List.mem_cons, not_or]
        exact ⟨hn, by decide, quote_not_mem_natDecPad _ i, by decide⟩
      · by_cases h3 : nv = 1
        · subst h3
          simp only [show ¬ (1 > 1) by omega, if_false, if_true] at h
          split at h
          · cases h
          · simp only [Except.ok.injEq] at h
            subst h
            intro a ha
            simp only [List.mem_singleton] at ha
            subst ha
            exact hn
        · simp only [h2, h3, if_false, Except.ok.injEq] at h
          subst h
          simp

theorem cellArrs_names (d : Dom) (v : Vec) (as : List Arr) (h : cellArrs d v = .ok as)
    (hn : (34 : UInt8) ∉ v.name) : ∀ a ∈ as, (34 : UInt8) ∉ a.name := by
  unfold cellArrs at h
  cases hfa : firstAxis d.nel v.shape 0 with
  | none => simp [hfa] at h
  | some vecax =>
    simp only [hfa] at h
    by_cases h1 : v.shape.length > 2
    · simp [h1] at h
    · simp only [h1, if_false] at h
      generalize (if v.shape.length = 1 then 1 else v.shape.getD ((vecax + 1) % 2) 0) = nv at h
      by_cases h2 : nv > 1
      · simp only [h2, if_true, Except.ok.injEq] at h
        subst h
        intro a ha
        simp only [List.mem_map, List.mem_range] at ha
        obtain ⟨i, _, rfl⟩ := ha
        simp only [List.mem_append, List.mem_cons, not_or]
        exact ⟨hn, by decide, quote_not_mem_natDec i, by decide⟩
      · by_cases h3 : nv = 1
        · subst h3
          simp only [show ¬ (1 > 1) by omega, if_false, if_true, Except.ok.injEq] at h
          subst h
          intro a ha
          simp only [List.mem_singleton] at ha
          subst ha
          exact hn
        · simp only [h2, h3, if_false, Except.ok.injEq] at h
          subst h
          simp

/-- the document of a successful `write_to_vti` is admissible for the parser -/
theorem buildDoc_docOK (d : Dom) (h : Hdr) (vs : List Vec) (r : VtiResult) (doc : Doc)
    (hr : buildDoc d h vs = .ok r) (hd : r.doc = some doc)
    (hh : TokOK h.ox ∧ TokOK h.oy ∧ TokOK h.oz ∧ TokOK h.dx ∧ TokOK h.dy ∧ TokOK h.dz)
    (hn : ∀ v ∈ vs, (34 : UInt8) ∉ v.name) : DocOK doc := by
  obtain ⟨_, ⟨_, _, _, _, e1, e2, e3, e4, e5, e6⟩, hp, hc, hl⟩ := buildDoc_ok d h vs r doc hr hd
  obtain ⟨t1, t2, t3, t4, t5, t6⟩ := hh
  refine ⟨e1 ▸ t1, e2 ▸ t2, e3 ▸ t3, e4 ▸ t4, e5 ▸ t5, e6 ▸ t6, ?_, ?_⟩
  · intro a ha
    refine ⟨?_, hl a (by simp [ha])⟩
    split at hp
    · rw [hp] at ha; simp at ha
    · obtain ⟨as, h1, h2⟩ := hp
      rw [h1] at ha
      exact collect_forall _ (fun a => (34 : UInt8) ∉ a.name) _ as h2
        (fun v hv av hav => pointArrs_names d v av hav (hn v ((List.mem_filter.mp hv).1))) a ha
  · intro a ha
    refine ⟨?_, hl a (by simp [ha])⟩
    split at hc
    · rw [hc] at ha; simp at ha
    · obtain ⟨as, h1, h2⟩ := hc
      rw [h1] at ha
      exact collect_forall _ (fun a => (34 : UInt8) ∉ a.name) _ as h2
        (fun v hv av hav => cellArrs_names d v av hav (hn v ((List.mem_filter.mp hv).1))) a ha


/-- "Nothing to write" happens only when no vector is classified -/
theorem buildDoc_none (d : Dom) (h : Hdr) (vs : List Vec) (r : VtiResult)
    (hr : buildDoc d h vs = .ok r) (hd : r.doc = none) :
    (pointsOf d vs).isEmpty = true ∧ (cellsOf d vs).isEmpty = true := by
  unfold buildDoc at hr
  split at hr
  · cases hr
  · simp only [] at hr
    split at hr
    · rename_i hboth; exact hboth
    · exfalso
      change (do
        let pt ← if (pointsOf d vs).isEmpty then pure none else (collect (pointArrs d) (pointsOf d vs)).map some
        let cl ← if (cellsOf d vs).isEmpty then pure none else (collect (cellArrs d) (cellsOf d vs)).map some
        if ((pt.getD []) ++ (cl.getD [])).any (fun a => b64len a.payload.length ≥ two64) then .error "struct.error"
        else .ok ⟨_, some ⟨h.le, d.nelx, d.nely, d.nelz, h.ox, h.oy, h.oz, h.dx, h.dy, h.dz, pt, cl⟩⟩) = Except.ok r at hr
      have key : ∀ (pt cl : Option (List Arr)),
          (if ((pt.getD []) ++ (cl.getD [])).any (fun a => b64len a.payload.length ≥ two64) then
            (Except.error "struct.error" : Except String VtiResult)
           else .ok ⟨(List.filter (fun v => decide (classify d v.size = Kind.skip)) vs).map (·.name),
              some ⟨h.le, d.nelx, d.nely, d.nelz, h.ox, h.oy, h.oz, h.dx, h.dy, h.dz, pt, cl⟩⟩) = Except.ok r → False := by
        intro pt cl hk
        split at hk
        · cases hk
        · cases hk; simp at hd
      by_cases hp : (pointsOf d vs).isEmpty = true
      · by_cases hc : (cellsOf d vs).isEmpty = true
        · simp only [hp, hc, if_true, pure, Except.pure, bind, Except.bind] at hr
          exact key none none hr
        · simp only [hp, hc, if_true, pure, Except.pure, bind, Except.bind] at hr
          cases hcol : collect (cellArrs d) (cellsOf d vs) with
          | error e => simp [hcol, Except.map] at hr
          | ok as =>
            simp only [hcol, Except.map, Bool.false_eq_true, if_false] at hr
            exact key none (some as) hr
      · cases hpc : collect (pointArrs d) (pointsOf d vs) with
        | error e => simp [hp, hpc, Except.map, bind, Except.bind] at hr
        | ok ps =>
          by_cases hc : (cellsOf d vs).isEmpty = true
          · simp only [hp, hc, hpc, Except.map, if_true, pure, Except.pure, bind, Except.bind, Bool.false_eq_true, if_false] at hr
            exact key (some ps) none hr
          · cases hcol : collect (cellArrs d) (cellsOf d vs) with
            | error e => simp [hp, hc, hpc, hcol, Except.map, bind, Except.bind] at hr
            | ok as =>
              simp only [hp, hc, hpc, hcol, Except.map, pure, Except.pure, bind, Except.bind, Bool.false_eq_true, if_false] at hr
              exact key (some ps) (some as) hr

/-! ### iteration file names -/

theorem parseDecAux_zeros (k : Nat) (rest : Bytes) : parseDecAux (List.replicate k 48 ++ rest) 0 = parseDecAux rest 0 := by
  induction k with
  | zero => simp
  | succ k ih =>
    simp only [List.replicate_succ, List.cons_append, parseDecAux]
    rw [if_pos (by decide)]
    simpa using ih

theorem parseDecAux_natDecPad (w n : Nat) : parseDecAux (natDecPad w n) 0 = some n := by
  unfold natDecPad
  rw [parseDecAux_zeros]
  have h := parseDec_natDec n
  unfold parseDec at h
  split at h
  · cases h
  · exact h

theorem natDecPad_inj (w i j : Nat) (h : natDecPad w i = natDecPad w j) : i = j := by
  have hi := parseDecAux_natDecPad w i
  rw [h, parseDecAux_natDecPad] at hi
  exact (Option.some.inj hi).symm

theorem natDecPad_digits (w n : Nat) : ∀ c ∈ natDecPad w n, 48 ≤ c.toNat ∧ c.toNat ≤ 57 := by
  intro c hc
  simp only [natDecPad, List.mem_append, List.mem_replicate] at hc
  rcases hc with ⟨_, rfl⟩ | hc
  · decide
  · exact natDec_digits n c hc

theorem count_dot_natDecPad (w n : Nat) : (natDecPad w n).count 46 = 0 := by
  rw [List.count_eq_zero]
  intro hm
  have := natDecPad_digits w n 46 hm
  revert this; decide

theorem iterName_inj (saveto : Bytes) (i j : Nat) (h : iterName saveto false i = iterName saveto false j) : i = j := by
  simp only [iterName, Bool.false_eq_true, if_false] at h
  have h1 := List.append_cancel_left h
  simp only [List.cons.injEq, true_and] at h1
  exact natDecPad_inj 4 i j (List.append_cancel_right h1)

theorem vtiFilename_cases (f g : Bytes) (h : vtiFilename f = vtiFilename g) :
    f = g ∨ f = g ++ litDotVti ∨ g = f ++ litDotVti := by
  unfold vtiFilename at h
  split at h <;> split at h
  · exact Or.inl h
  · exact Or.inr (Or.inl h)
  · exact Or.inr (Or.inr h.symm)
  · exact Or.inl (List.append_cancel_right h)

theorem iterName_ne_append (saveto : Bytes) (i j : Nat) :
    iterName saveto false i ≠ iterName saveto false j ++ litDotVti := by
  intro h
  have hc := congrArg (List.count 46) h
  simp only [iterName, Bool.false_eq_true, if_false, List.count_append, List.count_cons, count_dot_natDecPad] at hc
  have : List.count (46 : UInt8) litDotVti = 1 := by decide
  rw [this] at hc
  omega

theorem finalName_inj (saveto : Bytes) (i j : Nat)
    (h : vtiFilename (iterName saveto false i) = vtiFilename (iterName saveto false j)) : i = j := by
  rcases vtiFilename_cases _ _ h with h | h | h
  · exact iterName_inj saveto i j h
  · exact absurd h (iterName_ne_append saveto i j)
  · exact absurd h (iterName_ne_append saveto j i)

/-! ### concrete data for the non-vacuity examples of `Props/C20.lean` -/

/-- a concrete document: 2×1 elements, a 3-component cell array and a point array -/
def exDoc : Doc :=
  ⟨true, 2, 1, 0, bytes! "0.0", bytes! "-1.5", bytes! "0.0", bytes! "0.5", bytes! "1e-05", bytes! "1.0",
   some [⟨bytes! "u(0)", 1, [0, 0, 128, 63, 0, 0, 0, 64, 0, 0, 64, 64, 0, 0, 128, 64, 0, 0, 160, 64, 0, 0, 192, 64]⟩],
   some [⟨bytes! "rho", 1, [0, 0, 128, 63, 0, 0, 0, 63]⟩, ⟨[], 0, []⟩]⟩

/-- a concrete call: 2×1 elements (nel 2, nnodes 6 … a multiple, so take 3×1: nel 3, nnodes 8), one density
    vector (3 entries) and one 2-D displacement vector (16 entries) -/
def exHdr : Hdr := ⟨true, bytes! "0.0", bytes! "0.0", bytes! "0.0", bytes! "1.0", bytes! "1.0", bytes! "1.0"⟩
def exVecs : List Vec :=
  [⟨bytes! "rho", [3], [[0, 0, 128, 63], [0, 0, 0, 63], [0, 0, 0, 0]]⟩,
   ⟨bytes! "u", [16], (List.range 16).map fun i => [0, 0, i.toUInt8, 64]⟩]

end PymotoVerif.IO
