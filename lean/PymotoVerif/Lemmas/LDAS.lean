/-
Helper lemmas for C06 (`LA/LDAS.lean`): the diagonal-index test, the algebra of one `_do_solve_1rhs`
call (diagonal shortcut, reconstruction, inner solve, database append) and the mode table.
-/
import PymotoVerif.LA.LDAS
import Mathlib.Tactic.Ring
import Mathlib.Tactic.FieldSimp
import Mathlib.Tactic.Abel
import Mathlib.Tactic.Module

set_option linter.unusedSectionVars false

namespace PymotoVerif.LDAS
open Matrix

variable {n : Nat} {α : Type} [Field α] [DecidableEq α]

/-- algebraic facts about the scalar operations that the theorems use (true for `ℚ` with `cj = id`,
    for `ℚ(i)`, `ℝ`, `ℂ`) -/
structure Laws (c : Cfg α) : Prop where
  cj_add : ∀ a b, c.cj (a + b) = c.cj a + c.cj b
  cj_mul : ∀ a b, c.cj (a * b) = c.cj a * c.cj b
  cj_cj : ∀ a, c.cj (c.cj a) = a
  re_add : ∀ a b, c.re (a + b) = c.re a + c.re b
  re_mul : ∀ a b, c.re a = a → c.re (a * b) = a * c.re b
  /-- conjugation fixes real elements -/
  cj_real : ∀ a, c.re a = a → c.cj a = a

namespace Laws
variable {c : Cfg α} (h : Laws c)
include h

theorem cj_zero : c.cj 0 = 0 := by
  have := h.cj_add 0 0
  simpa using this

theorem re_zero : c.re 0 = 0 := by
  have := h.re_add 0 0
  simpa using this

theorem cj_sum {ι : Type} (s : Finset ι) (f : ι → α) : c.cj (∑ i ∈ s, f i) = ∑ i ∈ s, c.cj (f i) :=
  map_sum (AddMonoidHom.mk' c.cj h.cj_add) f s

theorem re_sum {ι : Type} (s : Finset ι) (f : ι → α) : c.re (∑ i ∈ s, f i) = ∑ i ∈ s, c.re (f i) :=
  map_sum (AddMonoidHom.mk' c.re h.re_add) f s

theorem cj_sub (a b : α) : c.cj (a - b) = c.cj a - c.cj b := by
  have := h.cj_add (a - b) b
  rw [sub_add_cancel] at this
  rw [this]; ring

theorem cj_eq_zero {a : α} : c.cj a = 0 ↔ a = 0 := by
  constructor
  · intro ha
    have := congrArg c.cj ha
    rw [h.cj_cj, h.cj_zero] at this
    exact this
  · rintro rfl; exact h.cj_zero
end Laws

/-! ### `get_diagonal_indices` -/

/-- index `i` is decoupled: non-zero diagonal entry, zero elsewhere in its row AND in its column -/
def Decoupled (A : Mat n α) (i : Fin n) : Prop :=
  A i i ≠ 0 ∧ (∀ j, j ≠ i → A i j = 0) ∧ (∀ j, j ≠ i → A j i = 0)

theorem card_filter_le_one {p : Fin n → Prop} [DecidablePred p] {i : Fin n} (hi : p i) :
    (Finset.univ.filter p).card ≤ 1 ↔ ∀ r, r ≠ i → ¬ p r := by
  rw [Finset.card_le_one]
  constructor
  · intro h r hr hp
    exact hr (h r (by simp [hp]) i (by simp [hi]))
  · intro h a ha b hb
    simp only [Finset.mem_filter, Finset.mem_univ, true_and] at ha hb
    have ea : a = i := by
      by_contra hne; exact h a hne ha
    have eb : b = i := by
      by_contra hne; exact h b hne hb
    rw [ea, eb]

theorem diagMask_iff (A : Mat n α) (i : Fin n) : diagMask A i = true ↔ Decoupled A i := by
  unfold diagMask Decoupled nnzCol nnzRow
  simp only [Bool.and_eq_true, decide_eq_true_eq]
  constructor
  · rintro ⟨⟨h0, hc⟩, hr⟩
    refine ⟨h0, ?_, ?_⟩
    · intro j hj
      have := (card_filter_le_one (p := fun c => A i c ≠ 0) h0).mp hr j hj
      simpa using this
    · intro j hj
      have := (card_filter_le_one (p := fun r => A r i ≠ 0) h0).mp hc j hj
      simpa using this
  · rintro ⟨h0, hr, hc⟩
    refine ⟨⟨h0, ?_⟩, ?_⟩
    · apply (card_filter_le_one (p := fun r => A r i ≠ 0) h0).mpr
      intro r hr'; simp [hc r hr']
    · apply (card_filter_le_one (p := fun c => A i c ≠ 0) h0).mpr
      intro r hr'; simp [hr r hr']

/-- the mask only flags decoupled indices (what correctness needs) -/
def MaskOK (M : Mat n α) (d : Fin n → Bool) : Prop := ∀ i, d i = true → Decoupled M i

theorem decoupled_adjM {c : Cfg α} (hL : Laws c) (A : Mat n α) (i : Fin n) :
    Decoupled (adjM c A) i ↔ Decoupled A i := by
  unfold Decoupled adjM
  simp only [Matrix.of_apply, ne_eq, hL.cj_eq_zero]
  constructor
  · rintro ⟨a, b, c'⟩; exact ⟨a, c', b⟩
  · rintro ⟨a, b, c'⟩; exact ⟨a, c', b⟩

theorem MaskOK.adj {c : Cfg α} (hL : Laws c) {A : Mat n α} {d : Fin n → Bool} (h : MaskOK A d) :
    MaskOK (adjM c A) d := fun i hi => (decoupled_adjM hL A i).mpr (h i hi)

/-! ### algebra of the masked operations -/

theorem mulVec_maskOff {M : Mat n α} {d : Fin n → Bool} (hd : MaskOK M d) (x : Vec n α) :
    M *ᵥ maskOff d x = maskOff d (M *ᵥ x) := by
  funext i
  simp only [Matrix.mulVec, dotProduct, maskOff]
  by_cases hi : d i = true
  · simp only [hi, if_true]
    apply Finset.sum_eq_zero
    intro j _
    by_cases hj : d j = true
    · simp [hj]
    · by_cases hji : j = i
      · subst hji; exact absurd hi hj
      · rw [(hd i hi).2.1 j hji]; simp
  · simp only [hi]
    apply Finset.sum_congr rfl
    intro j _
    by_cases hj : d j = true
    · have hij : i ≠ j := by rintro rfl; exact hi hj
      simp [hj, (hd j hj).2.2 i hij]
    · simp [hj]

/-- the diagonal shortcut solves the decoupled rows and leaves the rest as remaining right-hand side -/
theorem diag_step {M : Mat n α} {d : Fin n → Bool} (hd : MaskOK M d) (r : Vec n α) :
    M *ᵥ diagSol M d r + maskOff d r = r := by
  funext i
  simp only [Pi.add_apply, Matrix.mulVec, dotProduct, diagSol, maskOff]
  by_cases hi : d i = true
  · have hD := hd i hi
    rw [Finset.sum_eq_single i]
    · simp only [hi, if_true, add_zero]
      field_simp [hD.1]
    · intro j _ hji
      rw [hD.2.1 j hji]; simp
    · simp
  · rw [Finset.sum_eq_zero]
    · simp [hi]
    · intro j _
      by_cases hj : d j = true
      · have hij : i ≠ j := by rintro rfl; exact hi hj
        rw [(hd j hj).2.2 i hij]; simp
      · simp [hj]

/-- all entries are real -/
def RealM (c : Cfg α) (M : Mat n α) : Prop := ∀ i j, c.re (M i j) = M i j

theorem mulVec_re {c : Cfg α} (hL : Laws c) {M : Mat n α} (hM : RealM c M) (v : Vec n α) :
    (M *ᵥ fun i => c.re (v i)) = fun i => c.re ((M *ᵥ v) i) := by
  funext i
  simp only [Matrix.mulVec, dotProduct]
  rw [hL.re_sum]
  apply Finset.sum_congr rfl
  intro j _
  rw [hL.re_mul _ _ (hM i j)]

/-- a stored pair is a solution pair of the storage-side matrix and vanishes on the diagonal set -/
def PairOK (M : Mat n α) (d : Fin n → Bool) (p : Pair n α) : Prop :=
  M *ᵥ p.x = p.b ∧ ∀ i, d i = true → p.x i = 0 ∧ p.b i = 0

def DbOK (M : Mat n α) (d : Fin n → Bool) (db : List (Pair n α)) : Prop := ∀ p ∈ db, PairOK M d p

/-- loop invariant of the reconstruction: `M·sol + rhs_loc = rhs`, `rhs_loc` zero on the diagonal set -/
def RecOK {k : Nat} (M : Mat n α) (d : Fin n → Bool) (rhs : Blk n k α) (st : Blk n k α × Blk n k α) : Prop :=
  ∀ j, M *ᵥ st.2 j + st.1 j = rhs j ∧ ∀ i, d i = true → st.1 j i = 0

theorem rec_update {k : Nat} {M : Mat n α} {d : Fin n → Bool} {rhs : Blk n k α} {st : Blk n k α × Blk n k α}
    (h : RecOK M d rhs st) (R S : Blk n k α) (hRS : ∀ j, M *ᵥ S j = R j)
    (hz : ∀ j i, d i = true → R j i = 0 ∧ S j i = 0) :
    RecOK M d rhs (fun j i => if d i then st.1 j i else st.1 j i - R j i,
                   fun j i => if d i then st.2 j i else st.2 j i + S j i) := by
  intro j
  have e1 : (fun i => if d i then st.1 j i else st.1 j i - R j i) = st.1 j - R j := by
    funext i
    by_cases hi : d i = true
    · simp [hi, (hz j i hi).1]
    · simp [hi]
  have e2 : (fun i => if d i then st.2 j i else st.2 j i + S j i) = st.2 j + S j := by
    funext i
    by_cases hi : d i = true
    · simp [hi, (hz j i hi).2]
    · simp [hi]
  refine ⟨?_, ?_⟩
  · show M *ᵥ (fun i => if d i then st.2 j i else st.2 j i + S j i) + (fun i => if d i then st.1 j i else st.1 j i - R j i) = rhs j
    rw [e1, e2, Matrix.mulVec_add, hRS j, ← (h j).1]
    abel
  · intro i hi
    show (if d i then st.1 j i else st.1 j i - R j i) = 0
    simp [hi, (h j).2 i hi]

theorem reconStep_ok {k : Nat} {c : Cfg α} (hL : Laws c) {M : Mat n α} {d : Fin n → Bool} {rhs : Blk n k α}
    {rc : Bool} {p : Pair n α} (hp : PairOK M d p) (hreal : p.cplx = true → rc = false → RealM c M)
    {st : Blk n k α × Blk n k α} (h : RecOK M d rhs st) : RecOK M d rhs (reconStep c d rc p st) := by
  unfold reconStep
  simp only [memo_eq, memoB_eq]
  split_ifs with h1 h2 h3
  · -- complex pair, real right-hand side, contribution numerically real: real parts are used
    have hM : RealM c M := by
      simp only [Bool.and_eq_true, Bool.not_eq_true'] at h1
      exact hreal h1.1 h1.2
    apply rec_update h (fun j i => c.re (ipSel c d (st.1 j) p.b / ipSel c d p.b p.b * p.b i))
      (fun j i => c.re (ipSel c d (st.1 j) p.b / ipSel c d p.b p.b * p.x i))
    · intro j
      have := mulVec_re hL hM (fun i => ipSel c d (st.1 j) p.b / ipSel c d p.b p.b * p.x i)
      rw [this]
      funext i
      have e : (M *ᵥ fun i => ipSel c d (st.1 j) p.b / ipSel c d p.b p.b * p.x i)
          = (ipSel c d (st.1 j) p.b / ipSel c d p.b p.b) • p.b := by
        rw [← hp.1, ← Matrix.mulVec_smul]; rfl
      rw [e]; rfl
    · intro j i hi
      simp [(hp.2 i hi).1, (hp.2 i hi).2, hL.re_zero]
  · exact h
  · exact h
  · apply rec_update h (fun j i => ipSel c d (st.1 j) p.b / ipSel c d p.b p.b * p.b i)
      (fun j i => ipSel c d (st.1 j) p.b / ipSel c d p.b p.b * p.x i)
    · intro j
      have e : (M *ᵥ fun i => ipSel c d (st.1 j) p.b / ipSel c d p.b p.b * p.x i)
          = (ipSel c d (st.1 j) p.b / ipSel c d p.b p.b) • p.b := by
        rw [← hp.1, ← Matrix.mulVec_smul]; rfl
      rw [e]; rfl
    · intro j i hi
      simp [(hp.2 i hi).1, (hp.2 i hi).2]

theorem reconstruct_ok {k : Nat} {c : Cfg α} (hL : Laws c) {M : Mat n α} {d : Fin n → Bool} {rhs : Blk n k α}
    {rc : Bool} (hreal : rc = false → RealM c M) :
    ∀ (db : List (Pair n α)), DbOK M d db → ∀ st : Blk n k α × Blk n k α, RecOK M d rhs st →
      RecOK M d rhs (reconstruct c d rc db st)
  | [], _, st, h => by simpa [reconstruct] using h
  | p :: db, hdb, st, h => by
    simp only [reconstruct]
    apply reconstruct_ok hL hreal db (fun q hq => hdb q (List.mem_cons_of_mem _ hq))
    exact reconStep_ok hL (hdb p (List.mem_cons_self ..)) (fun _ hr => hreal hr) h

/-! ### database append -/

theorem orthPair_ok {c : Cfg α} {M : Mat n α} {d : Fin n → Bool} :
    ∀ (db : List (Pair n α)), DbOK M d db → ∀ st : Vec n α × Vec n α,
      (M *ᵥ st.1 = st.2 ∧ ∀ i, d i = true → st.1 i = 0 ∧ st.2 i = 0) →
      (M *ᵥ (orthPair c d db st).1 = (orthPair c d db st).2 ∧
        ∀ i, d i = true → (orthPair c d db st).1 i = 0 ∧ (orthPair c d db st).2 i = 0)
  | [], _, st, h => by simpa [orthPair] using h
  | p :: db, hdb, st, h => by
    simp only [orthPair, memo_eq]
    apply orthPair_ok db (fun q hq => hdb q (List.mem_cons_of_mem _ hq))
    have hp := hdb p (List.mem_cons_self ..)
    refine ⟨?_, ?_⟩
    · show M *ᵥ (fun i => st.1 i - ipSel c d st.2 p.b / ipSel c d p.b p.b * p.x i)
          = fun i => st.2 i - ipSel c d st.2 p.b / ipSel c d p.b p.b * p.b i
      have e1 : (fun i => st.1 i - ipSel c d st.2 p.b / ipSel c d p.b p.b * p.x i)
          = st.1 - (ipSel c d st.2 p.b / ipSel c d p.b p.b) • p.x := rfl
      have e2 : (fun i => st.2 i - ipSel c d st.2 p.b / ipSel c d p.b p.b * p.b i)
          = st.2 - (ipSel c d st.2 p.b / ipSel c d p.b p.b) • p.b := rfl
      rw [e1, e2, Matrix.mulVec_sub, Matrix.mulVec_smul, h.1, hp.1]
    · intro i hi
      simp [(h.2 i hi).1, (h.2 i hi).2, (hp.2 i hi).1, (hp.2 i hi).2]

theorem appendOne_ok {c : Cfg α} {M : Mat n α} {d : Fin n → Bool} (hd : MaskOK M d) (rc : Bool)
    {db : List (Pair n α)} (hdb : DbOK M d db) (xnew : Vec n α) :
    DbOK M d (appendOne c M d rc db xnew).1 := by
  unfold appendOne
  simp only [memo_eq]
  split_ifs
  · intro q hq
    rcases List.mem_append.mp hq with hq | hq
    · exact hdb q hq
    · rw [List.mem_singleton] at hq
      subst hq
      have := orthPair_ok (c := c) db hdb (maskOff d xnew, maskOff d (M *ᵥ xnew))
        ⟨mulVec_maskOff hd xnew, fun i hi => by simp [maskOff, hi]⟩
      refine ⟨?_, fun i hi => ?_⟩
      · show M *ᵥ (fun i => c.scale (ipSel c d (orthPair c d db (maskOff d xnew, maskOff d (M *ᵥ xnew))).2
            (orthPair c d db (maskOff d xnew, maskOff d (M *ᵥ xnew))).2) *
              (orthPair c d db (maskOff d xnew, maskOff d (M *ᵥ xnew))).1 i) = _
        rw [← this.1]
        exact Matrix.mulVec_smul M (c.scale _) (orthPair c d db (maskOff d xnew, maskOff d (M *ᵥ xnew))).1
      · show _ * (orthPair c d db (maskOff d xnew, maskOff d (M *ᵥ xnew))).1 i = 0 ∧
          _ * (orthPair c d db (maskOff d xnew, maskOff d (M *ᵥ xnew))).2 i = 0
        rw [(this.2 i hi).1, (this.2 i hi).2]
        simp
  · exact hdb

theorem appendCols_ok {k : Nat} {c : Cfg α} {M : Mat n α} {d : Fin n → Bool} (hd : MaskOK M d) (rc : Bool)
    (did : Fin k → Bool) (xnew : Blk n k α) :
    ∀ (js : List (Fin k)) (st : List (Pair n α) × Nat), DbOK M d st.1 →
      DbOK M d (appendCols c M d rc did xnew js st).1
  | [], st, h => by simpa [appendCols] using h
  | j :: js, st, h => by
    simp only [appendCols]
    by_cases hdj : did j = true
    · simp only [hdj, if_true]
      exact appendCols_ok hd rc did xnew js _ (appendOne_ok hd rc h (xnew j))
    · simp only [hdj]
      exact appendCols_ok hd rc did xnew js _ h

/-! ### one `_do_solve_1rhs` call -/

/-- adding the masked inner solution of the remaining right-hand side completes the column -/
theorem final_col {M : Mat n α} {d : Fin n → Bool} (hd : MaskOK M d) (r1 r2 rhs xn : Vec n α)
    (h1 : M *ᵥ r2 + r1 = rhs) (hz : ∀ i, d i = true → r1 i = 0) (hx : M *ᵥ xn = r1) :
    M *ᵥ (fun i => if d i then r2 i else r2 i + xn i) = rhs := by
  have e : (fun i => if d i then r2 i else r2 i + xn i) = r2 + maskOff d xn := by
    funext i
    by_cases hi : d i = true
    · simp [maskOff, hi]
    · simp [maskOff, hi]
  rw [e, Matrix.mulVec_add, mulVec_maskOff hd, hx]
  have hzz : maskOff d r1 = r1 := by
    funext i
    by_cases hi : d i = true
    · simp [maskOff, hi, hz i hi]
    · simp [maskOff, hi]
  rw [hzz]
  exact h1

theorem doSolve_ok {k : Nat} {c : Cfg α} (hL : Laws c) {M : Mat n α} {Mc : Bool} {d : Fin n → Bool}
    {db : List (Pair n α)} (hd : MaskOK M d) (hdb : DbOK M d db) (hreal : Mc = false → RealM c M)
    (solveFn : Vec n α → Option (Vec n α) → Vec n α) (hin : ∀ b x0, M *ᵥ solveFn b x0 = b)
    (rhs : Blk n k α) (rhsC : Bool) (x0 : Option (Blk n k α × Bool)) {o : SolveOut n k α}
    (h : doSolve c solveFn M Mc d db rhs rhsC x0 = .ok o) :
    DbOK M d o.db ∧ ∀ j, (o.did j = true → M *ᵥ o.sol j = rhs j) ∧
      (o.did j = false → exceeds c (M *ᵥ o.sol j - rhs j) (rhs j) = false) := by
  have hr : RecOK M d rhs (reconstruct c d (Mc || rhsC) db
      (fun j => maskOff d (rhs j), fun j => diagSol M d (rhs j))) := by
    apply reconstruct_ok hL (fun hrc => hreal (by simpa using (Bool.or_eq_false_iff.mp hrc).1)) db hdb
    intro j
    exact ⟨diag_step hd (rhs j), fun i hi => by simp [maskOff, hi]⟩
  unfold doSolve at h
  simp only [memo_eq, memoB_eq] at h
  split_ifs at h with hany
  · -- the inner solver ran
    injection h with h
    subst h
    refine ⟨appendCols_ok hd _ _ _ _ _ hdb, ?_⟩
    intro j
    constructor
    · intro hdid
      simp only at hdid ⊢
      simp only [hdid, if_true]
      exact final_col hd _ _ _ _ (hr j).1 (hr j).2 (hin _ _)
    · intro hdid
      simp only at hdid ⊢
      simp only [hdid]
      simpa using hdid
  · -- tolerance test passed for every column
    injection h with h
    subst h
    refine ⟨hdb, ?_⟩
    intro j
    constructor
    · intro hdid
      exfalso
      apply hany
      simp only at hdid
      rw [List.any_eq_true]
      exact ⟨j, List.mem_finRange j, hdid⟩
    · intro hdid
      simpa using hdid

end PymotoVerif.LDAS
