/-
C06 helper layer 2: the state invariant of `LDAWrapper`, the mode table, and the specification of one
`solve` call in terms of the REQUESTED system `op_trans(A) x = rhs`.
-/
import PymotoVerif.Lemmas.LDAS

set_option linter.unusedSectionVars false
set_option linter.unusedSimpArgs false

namespace PymotoVerif.LDAS
open Matrix

variable {n : Nat} {α : Type} [Field α] [DecidableEq α]

/-- the matrix of the requested system -/
def opMat (c : Cfg α) (A : Mat n α) : Trans → Mat n α
  | .N => A
  | .T => Matrix.of fun i j => A j i
  | .H => adjM c A
  | .other => A

def SymM (A : Mat n α) : Prop := ∀ i j, A i j = A j i
def HermM (c : Cfg α) (A : Mat n α) : Prop := ∀ i j, A i j = c.cj (A j i)

theorem allFin_iff (p : Fin n → Bool) : allFin p = true ↔ ∀ i, p i = true := by
  simp [allFin]

theorem isSym_iff (A : Mat n α) : isSym A = true ↔ SymM A := by
  simp [isSym, allFin_iff, SymM]

theorem isHerm_imp {c : Cfg α} (hL : Laws c) (A : Mat n α) (cplx : Bool) (hre : cplx = false → RealM c A)
    (h : isHerm c A cplx = true) : HermM c A := by
  unfold isHerm at h
  cases cplx with
  | true => simpa [allFin_iff, HermM] using h
  | false =>
    simp only [Bool.false_eq_true, if_false] at h
    intro i j
    rw [hL.cj_real _ (hre rfl j i)]
    exact (isSym_iff A).mp h i j

/-- what the caller must guarantee about an `update(A)`: dtype flag and user-asserted flags are truthful -/
def UpdOK (c : Cfg α) (s : State n α) (A : Mat n α) (cplx : Bool) : Prop :=
  (s.userSym = some true → SymM A) ∧ (s.userHerm = some true → HermM c A) ∧ (cplx = false → RealM c A)

/-- state invariant -/
def Inv (c : Cfg α) (s : State n α) : Prop :=
  (∀ u, s.userSym = some u → s.sym = some u) ∧ (∀ u, s.userHerm = some u → s.herm = some u) ∧
  match s.A with
  | none => s.db = [] ∧ s.dbAdj = []
  | some A =>
    (∀ i, s.diag i = true ↔ Decoupled A i) ∧ DbOK A s.diag s.db ∧ DbOK (adjM c A) s.diag s.dbAdj ∧
    (truthy s.sym = true → SymM A) ∧ (truthy s.herm = true → HermM c A) ∧ (s.Acplx = false → RealM c A)

/-- contract of the wrapped solver for the current matrix -/
def InnerOK (c : Cfg α) (inner : Mat n α → Bool → Vec n α → Option (Vec n α) → Vec n α) (A : Mat n α) : Prop :=
  ∀ b x0, A *ᵥ inner A false b x0 = b ∧ adjM c A *ᵥ inner A true b x0 = b

theorem realM_adj {c : Cfg α} (hL : Laws c) {A : Mat n α} (h : RealM c A) : RealM c (adjM c A) := by
  intro i j
  simp only [adjM, Matrix.of_apply]
  rw [hL.cj_real _ (h j i)]
  exact h j i

/-! ### mode table -/

theorem mode_table {c : Cfg α} (hL : Laws c) (s : State n α) (A : Mat n α)
    (hs : truthy s.sym = true → SymM A) (hh : truthy s.herm = true → HermM c A) (tr : Trans) (htr : tr ≠ .other) :
    (conjMode s tr = true → ∀ i j, opMat c A tr i j = c.cj ((if adjointMode s tr then adjM c A else A) i j)) ∧
    (conjMode s tr = false → opMat c A tr = (if adjointMode s tr then adjM c A else A)) := by
  cases tr with
  | other => exact absurd rfl htr
  | N => simp [conjMode, adjointMode, opMat]
  | T =>
    cases hS : truthy s.sym with
    | true =>
      simp only [conjMode, adjointMode, opMat, hS]
      refine ⟨by simp, fun _ => ?_⟩
      simp only [Bool.true_or, Bool.not_true, Bool.and_false, Bool.false_eq_true, if_false]
      ext i j
      simp only [Matrix.of_apply]
      exact hs hS j i
    | false =>
      cases hH : truthy s.herm with
      | true =>
        simp only [conjMode, adjointMode, opMat, hS, hH]
        refine ⟨fun _ i j => ?_, by simp⟩
        simp only [Bool.or_true, Bool.not_true, Bool.and_false, Bool.false_eq_true, if_false, Matrix.of_apply]
        exact hh hH j i
      | false =>
        simp only [conjMode, adjointMode, opMat, hS, hH]
        refine ⟨fun _ i j => ?_, by simp⟩
        simp [adjM, hL.cj_cj]
  | H =>
    cases hS : truthy s.sym with
    | true =>
      simp only [conjMode, adjointMode, opMat, hS]
      refine ⟨fun _ i j => ?_, by simp⟩
      simp only [Bool.true_or, Bool.not_true, Bool.and_false, Bool.false_eq_true, if_false, adjM, Matrix.of_apply]
      rw [hs hS j i]
    | false =>
      cases hH : truthy s.herm with
      | true =>
        simp only [conjMode, adjointMode, opMat, hS, hH]
        refine ⟨by simp, fun _ => ?_⟩
        simp only [Bool.or_true, Bool.not_true, Bool.and_false, Bool.false_eq_true, if_false]
        ext i j
        simp only [adjM, Matrix.of_apply]
        exact (hh hH i j).symm
      | false =>
        simp only [conjMode, adjointMode, opMat, hS, hH]
        refine ⟨by simp, fun _ => ?_⟩
        simp

/-! ### conjugated systems -/

theorem mulVec_cj {c : Cfg α} (hL : Laws c) {M Op : Mat n α} (hOp : ∀ i j, Op i j = c.cj (M i j)) (y : Vec n α) :
    (Op *ᵥ fun i => c.cj (y i)) = fun i => c.cj ((M *ᵥ y) i) := by
  funext i
  simp only [Matrix.mulVec, dotProduct]
  rw [hL.cj_sum]
  apply Finset.sum_congr rfl
  intro j _
  rw [hOp, hL.cj_mul]

theorem nsq_cj {c : Cfg α} (hL : Laws c) (v : Vec n α) : nsq c (fun i => c.cj (v i)) = nsq c v := by
  unfold nsq
  apply Finset.sum_congr rfl
  intro i _
  rw [hL.cj_cj]; ring

theorem transfer_conj {c : Cfg α} (hL : Laws c) {M Op : Mat n α} (hOp : ∀ i j, Op i j = c.cj (M i j))
    (y rhs : Vec n α) :
    (M *ᵥ y = (fun i => c.cj (rhs i)) → Op *ᵥ (fun i => c.cj (y i)) = rhs) ∧
    exceeds c (Op *ᵥ (fun i => c.cj (y i)) - rhs) rhs
      = exceeds c (M *ᵥ y - fun i => c.cj (rhs i)) (fun i => c.cj (rhs i)) := by
  constructor
  · intro h
    rw [mulVec_cj hL hOp, h]
    funext i
    exact hL.cj_cj _
  · have e : (Op *ᵥ (fun i => c.cj (y i)) - rhs) = fun i => c.cj ((M *ᵥ y - fun i => c.cj (rhs i)) i) := by
      rw [mulVec_cj hL hOp]
      funext i
      simp only [Pi.sub_apply]
      rw [hL.cj_sub, hL.cj_cj]
    unfold exceeds
    rw [e, nsq_cj hL, nsq_cj hL]

/-! ### one `solve` call, in terms of the requested system -/

/-- per-column specification of a returned block -/
def ColsOK {k : Nat} (c : Cfg α) (Op : Mat n α) (rhs : Blk n k α) (o : SolveOut n k α) : Prop :=
  ∀ j, (o.did j = true → Op *ᵥ o.sol j = rhs j) ∧
       (o.did j = false → exceeds c (Op *ᵥ o.sol j - rhs j) (rhs j) = false)

theorem solve_spec {k : Nat} {c : Cfg α} (hL : Laws c)
    (inner : Mat n α → Bool → Vec n α → Option (Vec n α) → Vec n α) (s : State n α) (hI : Inv c s)
    (hin : ∀ A, s.A = some A → InnerOK c inner A)
    (rhs : Blk n k α) (rhsC : Bool) (x0 : Option (Blk n k α × Bool)) (tr : Trans)
    {s' : State n α} {o : SolveOut n k α} (h : solve c inner s rhs rhsC x0 tr = .ok (s', o)) :
    Inv c s' ∧ ∃ A, s.A = some A ∧ s'.A = some A ∧ ColsOK c (opMat c A tr) rhs o := by
  unfold solve at h
  split_ifs at h with htr
  obtain ⟨hus, huh, hA⟩ := hI
  cases hsA : s.A with
  | none => simp [hsA] at h
  | some A =>
    rw [hsA] at hA
    obtain ⟨hdiag, hdb, hdbA, hsym, hherm, hreal⟩ := hA
    have hmask : MaskOK A s.diag := fun i hi => (hdiag i).mp hi
    have hinA := hin A hsA
    obtain ⟨mt1, mt2⟩ := mode_table hL s A hsym hherm tr htr
    simp only [hsA, memoB_eq] at h
    by_cases hadj : adjointMode s tr = true
    · simp only [hadj, if_true] at h mt1 mt2
      cases hds : doSolve c (inner A true) (adjM c A) s.Acplx s.diag s.dbAdj
          (if conjMode s tr = true then cjB c rhs else rhs) rhsC x0 with
      | error e => simp [hds] at h
      | ok o' =>
        simp only [hds] at h
        injection h with h
        injection h with h1 h2
        have key := doSolve_ok hL (hmask.adj hL) hdbA (fun hc => realM_adj hL (hreal hc)) (inner A true)
          (fun b x0 => (hinA b x0).2) _ rhsC x0 hds
        subst h1 h2
        refine ⟨⟨hus, huh, ?_⟩, A, rfl, rfl, ?_⟩
        · exact ⟨hdiag, hdb, key.1, hsym, hherm, hreal⟩
        · intro j
          by_cases hcm : conjMode s tr = true
          · simp only [hcm, if_true] at key ⊢
            have t := transfer_conj hL (mt1 hcm) (o'.sol j) (rhs j)
            have kj := key.2 j
            exact ⟨fun hd => t.1 (kj.1 hd), fun hd => by rw [show cjB c o'.sol j = fun i => c.cj (o'.sol j i) from rfl, t.2]; exact kj.2 hd⟩
          · simp only [hcm] at key ⊢
            rw [mt2 (by simpa using hcm)]
            exact key.2 j
    · simp only [hadj] at h mt1 mt2
      cases hds : doSolve c (inner A false) A s.Acplx s.diag s.db
          (if conjMode s tr = true then cjB c rhs else rhs) rhsC x0 with
      | error e => simp [hds] at h
      | ok o' =>
        simp only [hds] at h
        injection h with h
        injection h with h1 h2
        have key := doSolve_ok hL hmask hdb hreal (inner A false)
          (fun b x0 => (hinA b x0).1) _ rhsC x0 hds
        subst h1 h2
        refine ⟨⟨hus, huh, ?_⟩, A, rfl, rfl, ?_⟩
        · exact ⟨hdiag, key.1, hdbA, hsym, hherm, hreal⟩
        · intro j
          by_cases hcm : conjMode s tr = true
          · simp only [hcm, if_true] at key ⊢
            have t := transfer_conj hL (mt1 hcm) (o'.sol j) (rhs j)
            have kj := key.2 j
            exact ⟨fun hd => t.1 (kj.1 hd), fun hd => by rw [show cjB c o'.sol j = fun i => c.cj (o'.sol j i) from rfl, t.2]; exact kj.2 hd⟩
          · simp only [hcm] at key ⊢
            rw [mt2 (by simpa using hcm)]
            exact key.2 j

/-! ### histories -/

/-- admissible history: every `update` is truthful about dtype / user flags and the wrapped solver
    satisfies its contract for that matrix -/
def HistOK (c : Cfg α) (inner : Mat n α → Bool → Vec n α → Option (Vec n α) → Vec n α) :
    State n α → List (Op n α) → Prop
  | _, [] => True
  | s, .update A cplx :: ops => UpdOK c s A cplx ∧ InnerOK c inner A ∧ HistOK c inner (update c s A cplx) ops
  | s, .solve k rhs rhsC x0 tr :: ops => HistOK c inner (step c inner s (.solve k rhs rhsC x0 tr)).1 ops

/-- what one operation must deliver -/
def StepOK (c : Cfg α) (inner : Mat n α → Bool → Vec n α → Option (Vec n α) → Vec n α) (s : State n α) :
    Op n α → Prop
  | .update _ _ => True
  | .solve _ rhs rhsC x0 tr => ∀ s' o, solve c inner s rhs rhsC x0 tr = .ok (s', o) →
      ∃ A, s.A = some A ∧ ColsOK c (opMat c A tr) rhs o

/-- every operation of the history delivers -/
def RunOK (c : Cfg α) (inner : Mat n α → Bool → Vec n α → Option (Vec n α) → Vec n α) :
    State n α → List (Op n α) → Prop
  | _, [] => True
  | s, op :: ops => StepOK c inner s op ∧ RunOK c inner (step c inner s op).1 ops

theorem inv_update' {c : Cfg α} (hL : Laws c) (s : State n α) (hI : Inv c s) (A : Mat n α) (cplx : Bool)
    (hU : UpdOK c s A cplx) : Inv c (update c s A cplx) := by
  obtain ⟨hus, huh, _⟩ := hI
  obtain ⟨u1, u2, u3⟩ := hU
  refine ⟨?_, ?_, ?_⟩
  · intro u hu
    simp only [update] at hu ⊢
    rw [hu]; exact hus u hu
  · intro u hu
    simp only [update] at hu ⊢
    rw [hu]; exact huh u hu
  · simp only [update]
    refine ⟨fun i => diagMask_iff A i, fun p hp => absurd hp (List.not_mem_nil), fun p hp => absurd hp (List.not_mem_nil), ?_, ?_, u3⟩
    · intro ht
      cases hu : s.userSym with
      | none =>
        simp only [hu, truthy] at ht
        exact (isSym_iff A).mp ht
      | some u =>
        simp only [hu, hus u hu, truthy] at ht
        subst ht
        exact u1 hu
    · intro ht
      cases hu : s.userHerm with
      | none =>
        simp only [hu, truthy] at ht
        exact isHerm_imp hL A cplx u3 ht
      | some u =>
        simp only [hu, huh u hu, truthy] at ht
        subst ht
        exact u2 hu

theorem run_ok {c : Cfg α} (hL : Laws c) (inner : Mat n α → Bool → Vec n α → Option (Vec n α) → Vec n α) :
    ∀ (ops : List (Op n α)) (s : State n α), Inv c s → (∀ A, s.A = some A → InnerOK c inner A) →
      HistOK c inner s ops → RunOK c inner s ops
  | [], _, _, _, _ => trivial
  | .update A cplx :: ops, s, hI, _, hH => by
    obtain ⟨hU, hIn, hH⟩ := hH
    refine ⟨trivial, ?_⟩
    apply run_ok hL inner ops _ (inv_update' hL s hI A cplx hU) _ hH
    intro A' hA'
    simp only [update, Option.some.injEq] at hA'
    subst hA'; exact hIn
  | .solve k rhs rhsC x0 tr :: ops, s, hI, hIn, hH => by
    simp only [HistOK] at hH
    refine ⟨?_, ?_⟩
    · intro s' o h
      obtain ⟨_, A, h1, _, h3⟩ := solve_spec hL inner s hI hIn rhs rhsC x0 tr h
      exact ⟨A, h1, h3⟩
    · cases hs : solve c inner s rhs rhsC x0 tr with
      | error e =>
        have e1 : (step c inner s (.solve k rhs rhsC x0 tr)).1 = s := by simp [step, hs]
        rw [e1] at hH ⊢
        exact run_ok hL inner ops s hI hIn hH
      | ok r =>
        obtain ⟨s', o⟩ := r
        have e1 : (step c inner s (.solve k rhs rhsC x0 tr)).1 = s' := by simp [step, hs]
        rw [e1] at hH ⊢
        obtain ⟨hI', A, h1, h2, _⟩ := solve_spec hL inner s hI hIn rhs rhsC x0 tr hs
        apply run_ok hL inner ops s' hI' _ hH
        intro A' hA'
        rw [h2] at hA'
        injection hA' with hA'
        subst hA'
        exact hIn A h1

theorem doSolve_total {k : Nat} {c : Cfg α}
    (solveFn : Vec n α → Option (Vec n α) → Vec n α) (M : Mat n α) (Mc : Bool) (d : Fin n → Bool)
    (db : List (Pair n α)) (rhs : Blk n k α) (rhsC : Bool) (x0 : Option (Blk n k α × Bool)) :
    ∃ o, doSolve c solveFn M Mc d db rhs rhsC x0 = .ok o := by
  unfold doSolve
  simp only
  split_ifs <;> exact ⟨_, rfl⟩

end PymotoVerif.LDAS
