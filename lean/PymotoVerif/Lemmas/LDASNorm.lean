/-
C06 helper layer 4: the normalisation of the stored pairs (`badd /= bnrm; xadd /= bnrm`) is unobservable.
Two runs of the state machine that differ only in the normalisation factor (`Cfg.scale`) are related by a
simulation: all scalar state components are equal, the databases agree pair by pair up to a non-zero scalar,
and every output of `solve` is EQUAL.
-/
import PymotoVerif.Lemmas.LDASReuse
import Mathlib.Data.List.Forall2

set_option linter.unusedSectionVars false
set_option linter.unusedSimpArgs false

namespace PymotoVerif.LDAS
open Matrix

variable {n : Nat} {α : Type} [Field α] [DecidableEq α]

/-- the same operations with another normalisation factor -/
def Cfg.withScale (c : Cfg α) (f : α → α) : Cfg α := { c with scale := f }

@[simp] theorem ipSel_withScale (c : Cfg α) (f : α → α) (d : Fin n → Bool) (a b : Vec n α) :
    ipSel (c.withScale f) d a b = ipSel c d a b := rfl
@[simp] theorem exceeds_withScale (c : Cfg α) (f : α → α) (r b : Vec n α) :
    exceeds (c.withScale f) r b = exceeds c r b := rfl
@[simp] theorem nearReal_withScale {k : Nat} (c : Cfg α) (f : α → α) (B : Blk n k α) :
    nearReal (c.withScale f) B = nearReal c B := rfl
@[simp] theorem cjB_withScale {k : Nat} (c : Cfg α) (f : α → α) (B : Blk n k α) :
    cjB (c.withScale f) B = cjB c B := rfl
@[simp] theorem adjM_withScale (c : Cfg α) (f : α → α) (A : Mat n α) : adjM (c.withScale f) A = adjM c A := rfl
@[simp] theorem isHerm_withScale (c : Cfg α) (f : α → α) (A : Mat n α) (b : Bool) :
    isHerm (c.withScale f) A b = isHerm c A b := rfl
@[simp] theorem withScale_re (c : Cfg α) (f : α → α) : (c.withScale f).re = c.re := rfl
@[simp] theorem withScale_lt (c : Cfg α) (f : α → α) : (c.withScale f).lt = c.lt := rfl
@[simp] theorem withScale_tol2 (c : Cfg α) (f : α → α) : (c.withScale f).tol2 = c.tol2 := rfl
@[simp] theorem withScale_scale (c : Cfg α) (f : α → α) : (c.withScale f).scale = f := rfl

/-- `q` is `p` multiplied by a non-zero scalar -/
def PairSim (p q : Pair n α) : Prop :=
  ∃ t : α, t ≠ 0 ∧ q.x = (fun i => t * p.x i) ∧ q.b = (fun i => t * p.b i) ∧ q.cplx = p.cplx

def DbSim (db₁ db₂ : List (Pair n α)) : Prop := List.Forall₂ PairSim db₁ db₂

theorem DbSim.any_cplx {db₁ db₂ : List (Pair n α)} (h : DbSim db₁ db₂) :
    db₂.any (·.cplx) = db₁.any (·.cplx) := by
  induction h with
  | nil => rfl
  | cons hp _ ih =>
    obtain ⟨_, _, _, _, hc⟩ := hp
    simp only [List.any_cons, hc, ih]

/-- the projection coefficient times the stored vector does not see the scalar:
    `⟨r, t b⟩/⟨t b, t b⟩ · (t v) = ⟨r, b⟩/⟨b, b⟩ · v` -/
theorem coef_scale {c : Cfg α} (hL : Laws c) (d : Fin n → Bool) (r b : Vec n α) {t : α} (ht : t ≠ 0) (v : α) :
    ipSel c d r (fun i => t * b i) / ipSel c d (fun i => t * b i) (fun i => t * b i) * (t * v)
      = ipSel c d r b / ipSel c d b b * v := by
  rw [ipSel_smul_right hL, ipSel_smul_right hL, ipSel_smul_left]
  have hct : c.cj t ≠ 0 := fun h => ht (hL.cj_eq_zero.mp h)
  by_cases hY : ipSel c d b b = 0
  · simp [hY]
  · field_simp

/-! ### reconstruction -/

/-- `reconStep` as a function of the two contributions `alpha * b`, `alpha * x` -/
def reconCore {k : Nat} (c : Cfg α) (d : Fin n → Bool) (rc cplx : Bool) (R S : Blk n k α)
    (st : Blk n k α × Blk n k α) : Blk n k α × Blk n k α :=
  if cplx && !rc then
    if nearReal c R then
      if nearReal c S then
        (fun j i => if d i then st.1 j i else st.1 j i - c.re (R j i),
         fun j i => if d i then st.2 j i else st.2 j i + c.re (S j i))
      else st
    else st
  else
    (fun j i => if d i then st.1 j i else st.1 j i - R j i,
     fun j i => if d i then st.2 j i else st.2 j i + S j i)

theorem reconStep_eq_core {k : Nat} (c : Cfg α) (d : Fin n → Bool) (rc : Bool) (p : Pair n α)
    (st : Blk n k α × Blk n k α) :
    reconStep c d rc p st = reconCore c d rc p.cplx
      (fun j i => ipSel c d (st.1 j) p.b / ipSel c d p.b p.b * p.b i)
      (fun j i => ipSel c d (st.1 j) p.b / ipSel c d p.b p.b * p.x i) st := by
  unfold reconStep reconCore
  simp only [memo_eq, memoB_eq]

theorem reconStep_sim {k : Nat} {c : Cfg α} (hL : Laws c) (f : α → α) (d : Fin n → Bool) (rc : Bool)
    {p q : Pair n α} (h : PairSim p q) (st : Blk n k α × Blk n k α) :
    reconStep (c.withScale f) d rc q st = reconStep c d rc p st := by
  obtain ⟨t, ht, hx, hb, hc⟩ := h
  rw [reconStep_eq_core, reconStep_eq_core]
  have e1 : (fun (j : Fin k) i => ipSel (c.withScale f) d (st.1 j) q.b / ipSel (c.withScale f) d q.b q.b * q.b i)
      = fun j i => ipSel c d (st.1 j) p.b / ipSel c d p.b p.b * p.b i := by
    funext j i
    simp only [ipSel_withScale, hb]
    exact coef_scale hL d (st.1 j) p.b ht (p.b i)
  have e2 : (fun (j : Fin k) i => ipSel (c.withScale f) d (st.1 j) q.b / ipSel (c.withScale f) d q.b q.b * q.x i)
      = fun j i => ipSel c d (st.1 j) p.b / ipSel c d p.b p.b * p.x i := by
    funext j i
    simp only [ipSel_withScale, hb, hx]
    exact coef_scale hL d (st.1 j) p.b ht (p.x i)
  rw [e1, e2, hc]
  rfl

theorem reconstruct_sim {k : Nat} {c : Cfg α} (hL : Laws c) (f : α → α) (d : Fin n → Bool) (rc : Bool)
    {db₁ db₂ : List (Pair n α)} (h : DbSim db₁ db₂) :
    ∀ st : Blk n k α × Blk n k α, reconstruct (c.withScale f) d rc db₂ st = reconstruct c d rc db₁ st := by
  induction h with
  | nil => intro st; rfl
  | cons hp _ ih =>
    intro st
    simp only [reconstruct]
    rw [reconStep_sim hL f d rc hp, ih]

/-! ### deflation, orthogonalisation, append -/

theorem deflate_sim {c : Cfg α} (hL : Laws c) (f : α → α) (d : Fin n → Bool) (x0c : Bool)
    {db₁ db₂ : List (Pair n α)} (h : DbSim db₁ db₂) :
    ∀ v : Vec n α, deflate (c.withScale f) d x0c db₂ v = deflate c d x0c db₁ v := by
  induction h with
  | nil => intro v; rfl
  | @cons p q _ _ hp _ ih =>
    intro v
    obtain ⟨t, ht, hx, _, hc⟩ := hp
    simp only [deflate, memo_eq, hc, ipSel_withScale]
    have e : (fun i => if d i = true then v i else v i - q.x i * (ipSel c d v q.x / ipSel c d q.x q.x))
        = fun i => if d i = true then v i else v i - p.x i * (ipSel c d v p.x / ipSel c d p.x p.x) := by
      funext i
      have := coef_scale hL d v p.x ht (p.x i)
      rw [hx]
      simp only
      rw [mul_comm (t * p.x i), this, mul_comm]
    rw [e, ih, ih]

theorem orthPair_sim {c : Cfg α} (hL : Laws c) (f : α → α) (d : Fin n → Bool)
    {db₁ db₂ : List (Pair n α)} (h : DbSim db₁ db₂) :
    ∀ st : Vec n α × Vec n α, orthPair (c.withScale f) d db₂ st = orthPair c d db₁ st := by
  induction h with
  | nil => intro st; rfl
  | @cons p q _ _ hp _ ih =>
    intro st
    obtain ⟨t, ht, hx, hb, _⟩ := hp
    simp only [orthPair, memo_eq, ipSel_withScale]
    have e1 : (fun i => st.1 i - ipSel c d st.2 q.b / ipSel c d q.b q.b * q.x i)
        = fun i => st.1 i - ipSel c d st.2 p.b / ipSel c d p.b p.b * p.x i := by
      funext i
      rw [hb, hx]
      simp only
      rw [coef_scale hL d st.2 p.b ht (p.x i)]
    have e2 : (fun i => st.2 i - ipSel c d st.2 q.b / ipSel c d q.b q.b * q.b i)
        = fun i => st.2 i - ipSel c d st.2 p.b / ipSel c d p.b p.b * p.b i := by
      funext i
      rw [hb]
      simp only
      rw [coef_scale hL d st.2 p.b ht (p.b i)]
    rw [e1, e2, ih]

theorem appendOne_sim {c : Cfg α} (hL : Laws c) (hsc : ScaleOK c) (f : α → α) (hf : ∀ a, f a ≠ 0)
    (M : Mat n α) (d : Fin n → Bool) (rc : Bool) {db₁ db₂ : List (Pair n α)} (h : DbSim db₁ db₂) (xnew : Vec n α) :
    DbSim (appendOne c M d rc db₁ xnew).1 (appendOne (c.withScale f) M d rc db₂ xnew).1 ∧
      (appendOne (c.withScale f) M d rc db₂ xnew).2 = (appendOne c M d rc db₁ xnew).2 := by
  unfold appendOne
  simp only [memo_eq, ipSel_withScale, withScale_lt, withScale_tol2, withScale_scale, orthPair_sim hL f d h, h.any_cplx]
  split_ifs
  · refine ⟨List.rel_append h (List.Forall₂.cons ?_ List.Forall₂.nil), rfl⟩
    generalize ipSel c d (orthPair c d db₁ (maskOff d xnew, maskOff d (M *ᵥ xnew))).2
      (orthPair c d db₁ (maskOff d xnew, maskOff d (M *ᵥ xnew))).2 = N
    have hN := hsc N
    refine ⟨f N / c.scale N, div_ne_zero (hf N) hN, ?_, ?_, rfl⟩
    · funext i
      simp only
      field_simp
    · funext i
      simp only
      field_simp
  · exact ⟨h, rfl⟩

theorem appendCols_sim {k : Nat} {c : Cfg α} (hL : Laws c) (hsc : ScaleOK c) (f : α → α) (hf : ∀ a, f a ≠ 0)
    (M : Mat n α) (d : Fin n → Bool) (rc : Bool) (did : Fin k → Bool) (xnew : Blk n k α) :
    ∀ (js : List (Fin k)) (st₁ st₂ : List (Pair n α) × Nat), DbSim st₁.1 st₂.1 → st₂.2 = st₁.2 →
      DbSim (appendCols c M d rc did xnew js st₁).1 (appendCols (c.withScale f) M d rc did xnew js st₂).1 ∧
      (appendCols (c.withScale f) M d rc did xnew js st₂).2 = (appendCols c M d rc did xnew js st₁).2
  | [], st₁, st₂, h, hn => by simpa [appendCols] using ⟨h, hn⟩
  | j :: js, st₁, st₂, h, hn => by
    simp only [appendCols]
    by_cases hdj : did j = true
    · simp only [hdj, if_true]
      obtain ⟨a1, a2⟩ := appendOne_sim hL hsc f hf M d rc h (xnew j)
      apply appendCols_sim hL hsc f hf M d rc did xnew js _ _ a1
      simp only [a2, hn]
    · simp only [hdj]
      exact appendCols_sim hL hsc f hf M d rc did xnew js _ _ h hn

/-! ### one call -/

/-- outputs are equal, the new databases agree up to scalars -/
def OutSim {k : Nat} (o₁ o₂ : SolveOut n k α) : Prop :=
  o₂.sol = o₁.sol ∧ o₂.did = o₁.did ∧ o₂.called = o₁.called ∧ o₂.dropped = o₁.dropped ∧ o₂.rem = o₁.rem ∧
  o₂.x0loc = o₁.x0loc ∧ DbSim o₁.db o₂.db

theorem doSolve_sim {k : Nat} {c : Cfg α} (hL : Laws c) (hsc : ScaleOK c) (f : α → α) (hf : ∀ a, f a ≠ 0)
    (solveFn : Vec n α → Option (Vec n α) → Vec n α) (M : Mat n α) (Mc : Bool) (d : Fin n → Bool)
    {db₁ db₂ : List (Pair n α)} (h : DbSim db₁ db₂) (rhs : Blk n k α) (rhsC : Bool) (x0 : Option (Blk n k α × Bool))
    {o₁ : SolveOut n k α} (h₁ : doSolve c solveFn M Mc d db₁ rhs rhsC x0 = .ok o₁) :
    ∃ o₂, doSolve (c.withScale f) solveFn M Mc d db₂ rhs rhsC x0 = .ok o₂ ∧ OutSim o₁ o₂ := by
  unfold doSolve at h₁ ⊢
  simp only [memo_eq, memoB_eq, exceeds_withScale, reconstruct_sim hL f d _ h, deflate_sim hL f d _ h] at h₁ ⊢
  split_ifs at h₁ ⊢ with hany
  · injection h₁ with h₁
    subst h₁
    refine ⟨_, rfl, rfl, rfl, rfl, ?_, rfl, rfl, ?_⟩
    · exact (appendCols_sim hL hsc f hf M d _ _ _ _ (db₁, 0) (db₂, 0) h rfl).2
    · exact (appendCols_sim hL hsc f hf M d _ _ _ _ (db₁, 0) (db₂, 0) h rfl).1
  · injection h₁ with h₁
    subst h₁
    exact ⟨_, rfl, rfl, rfl, rfl, rfl, rfl, rfl, h⟩

/-! ### states and histories -/

/-- everything equal except the databases, which agree up to one non-zero scalar per pair -/
def StateSim (s₁ s₂ : State n α) : Prop :=
  s₂.A = s₁.A ∧ s₂.Acplx = s₁.Acplx ∧ s₂.userSym = s₁.userSym ∧ s₂.userHerm = s₁.userHerm ∧ s₂.sym = s₁.sym ∧
  s₂.herm = s₁.herm ∧ s₂.diag = s₁.diag ∧ DbSim s₁.db s₂.db ∧ DbSim s₁.dbAdj s₂.dbAdj

theorem DbSim.refl (db : List (Pair n α)) : DbSim db db := by
  induction db with
  | nil => exact List.Forall₂.nil
  | cons p db ih => exact List.Forall₂.cons ⟨1, one_ne_zero, by simp, by simp, rfl⟩ ih

theorem StateSim.refl (s : State n α) : StateSim s s :=
  ⟨rfl, rfl, rfl, rfl, rfl, rfl, rfl, DbSim.refl _, DbSim.refl _⟩

theorem update_sim (c : Cfg α) (f : α → α) {s₁ s₂ : State n α} (h : StateSim s₁ s₂) (A : Mat n α) (cplx : Bool) :
    StateSim (update c s₁ A cplx) (update (c.withScale f) s₂ A cplx) := by
  obtain ⟨_, _, h3, h4, h5, h6, _, _, _⟩ := h
  refine ⟨rfl, rfl, h3, h4, ?_, ?_, rfl, List.Forall₂.nil, List.Forall₂.nil⟩
  · simp only [update, h3, h5]
  · simp only [update, h4, h6, isHerm_withScale]

theorem solve_sim {k : Nat} {c : Cfg α} (hL : Laws c) (hsc : ScaleOK c) (f : α → α) (hf : ∀ a, f a ≠ 0)
    (inner : Mat n α → Bool → Vec n α → Option (Vec n α) → Vec n α) {s₁ s₂ : State n α} (h : StateSim s₁ s₂)
    (rhs : Blk n k α) (rhsC : Bool) (x0 : Option (Blk n k α × Bool)) (tr : Trans) :
    (∀ e, solve c inner s₁ rhs rhsC x0 tr = .error e → solve (c.withScale f) inner s₂ rhs rhsC x0 tr = .error e) ∧
    (∀ s₁' o₁, solve c inner s₁ rhs rhsC x0 tr = .ok (s₁', o₁) →
      ∃ s₂' o₂, solve (c.withScale f) inner s₂ rhs rhsC x0 tr = .ok (s₂', o₂) ∧ StateSim s₁' s₂' ∧ OutSim o₁ o₂) := by
  obtain ⟨hA, hAc, h3, h4, h5, h6, h7, h8, h9⟩ := h
  have hadj : adjointMode s₂ tr = adjointMode s₁ tr := by simp only [adjointMode, h5, h6]
  have hcm : conjMode s₂ tr = conjMode s₁ tr := by simp only [conjMode, h5]
  unfold solve
  simp only [hA, hAc, h7, hadj, hcm, memoB_eq, cjB_withScale, adjM_withScale]
  by_cases htr : tr = .other
  · simp only [htr, if_true]
    exact ⟨fun e he => he, fun s₁' o₁ he => by simp at he⟩
  · simp only [htr, if_false]
    generalize (if conjMode s₁ tr = true then cjB c rhs else rhs) = rhs'
    cases hsA : s₁.A with
    | none => exact ⟨fun e he => he, fun s₁' o₁ he => by simp at he⟩
    | some A =>
      simp only
      by_cases ha : adjointMode s₁ tr = true
      · simp only [ha, if_true]
        obtain ⟨o₁, ho₁⟩ := doSolve_total (c := c) (inner A true) (adjM c A) s₁.Acplx s₁.diag s₁.dbAdj rhs' rhsC x0
        obtain ⟨o₂, ho₂, hs⟩ := doSolve_sim hL hsc f hf (inner A true) (adjM c A) s₁.Acplx s₁.diag h9 rhs' rhsC x0 ho₁
        rw [ho₁, ho₂]
        refine ⟨fun e he => by simp at he, fun s₁' o₁' he => ?_⟩
        injection he with he
        injection he with he1 he2
        subst he1 he2
        obtain ⟨g1, g2, g3, g4, g5, g6, g7⟩ := hs
        exact ⟨_, _, rfl, ⟨rfl, rfl, h3, h4, h5, h6, rfl, h8, g7⟩, ⟨by simp only [g1], g2, g3, g4, g5, g6, g7⟩⟩
      · simp only [ha]
        obtain ⟨o₁, ho₁⟩ := doSolve_total (c := c) (inner A false) A s₁.Acplx s₁.diag s₁.db rhs' rhsC x0
        obtain ⟨o₂, ho₂, hs⟩ := doSolve_sim hL hsc f hf (inner A false) A s₁.Acplx s₁.diag h8 rhs' rhsC x0 ho₁
        rw [ho₁, ho₂]
        refine ⟨fun e he => by simp at he, fun s₁' o₁' he => ?_⟩
        injection he with he
        injection he with he1 he2
        subst he1 he2
        obtain ⟨g1, g2, g3, g4, g5, g6, g7⟩ := hs
        exact ⟨_, _, rfl, ⟨rfl, rfl, h3, h4, h5, h6, rfl, g7, h9⟩, ⟨by simp only [g1], g2, g3, g4, g5, g6, g7⟩⟩

/-- what a caller can observe of one operation -/
def Res.obs : Res n α → Option (Except Err (Σ k : Nat, Blk n k α × (Fin k → Bool) × Bool × Nat))
  | .updated => none
  | .failed e => some (.error e)
  | .solved k o => some (.ok ⟨k, o.sol, o.did, o.called, o.dropped⟩)

/-- state after a history -/
def finalState (c : Cfg α) (inner : Mat n α → Bool → Vec n α → Option (Vec n α) → Vec n α) :
    State n α → List (Op n α) → State n α
  | s, [] => s
  | s, op :: ops => finalState c inner (step c inner s op).1 ops

theorem step_sim {c : Cfg α} (hL : Laws c) (hsc : ScaleOK c) (f : α → α) (hf : ∀ a, f a ≠ 0)
    (inner : Mat n α → Bool → Vec n α → Option (Vec n α) → Vec n α) {s₁ s₂ : State n α} (h : StateSim s₁ s₂)
    (op : Op n α) :
    StateSim (step c inner s₁ op).1 (step (c.withScale f) inner s₂ op).1 ∧
      (step (c.withScale f) inner s₂ op).2.obs = (step c inner s₁ op).2.obs := by
  cases op with
  | update A cplx => exact ⟨update_sim c f h A cplx, rfl⟩
  | solve k rhs rhsC x0 tr =>
    obtain ⟨he, hok⟩ := solve_sim hL hsc f hf inner h rhs rhsC x0 tr
    cases hs : solve c inner s₁ rhs rhsC x0 tr with
    | error e =>
      simp only [step, hs, he e hs]
      exact ⟨h, trivial⟩
    | ok r =>
      obtain ⟨s₁', o₁⟩ := r
      obtain ⟨s₂', o₂, h2, hS, hO⟩ := hok s₁' o₁ hs
      simp only [step, hs, h2]
      refine ⟨hS, ?_⟩
      obtain ⟨g1, g2, g3, g4, _, _, _⟩ := hO
      simp only [Res.obs, g1, g2, g3, g4]

theorem run_sim {c : Cfg α} (hL : Laws c) (hsc : ScaleOK c) (f : α → α) (hf : ∀ a, f a ≠ 0)
    (inner : Mat n α → Bool → Vec n α → Option (Vec n α) → Vec n α) :
    ∀ (ops : List (Op n α)) (s₁ s₂ : State n α), StateSim s₁ s₂ →
      (run (c.withScale f) inner s₂ ops).map Res.obs = (run c inner s₁ ops).map Res.obs ∧
      StateSim (finalState c inner s₁ ops) (finalState (c.withScale f) inner s₂ ops)
  | [], _, _, h => ⟨rfl, h⟩
  | op :: ops, s₁, s₂, h => by
    obtain ⟨hS, hO⟩ := step_sim hL hsc f hf inner h op
    obtain ⟨r1, r2⟩ := run_sim hL hsc f hf inner ops _ _ hS
    refine ⟨?_, r2⟩
    simp only [run, List.map_cons, hO, r1]

end PymotoVerif.LDAS
