/-
C06 helper layer 3: orthogonality of the stored right-hand sides and the Gram–Schmidt argument behind reuse.
-/
import PymotoVerif.Lemmas.LDASInv

set_option linter.unusedSectionVars false
set_option linter.unusedSimpArgs false

namespace PymotoVerif.LDAS
open Matrix

variable {n : Nat} {α : Type} [Field α] [DecidableEq α]

/-- the order is only asked one thing: `tol²·‖v‖² < 0` is false -/
def LtOK (c : Cfg α) (n : Nat) : Prop := ∀ (d : Fin n → Bool) (v : Vec n α), c.lt (c.tol2 * ipSel c d v v) 0 = false

theorem ipSel_sub_mul (c : Cfg α) (d : Fin n → Bool) (a b e : Vec n α) (β : α) :
    ipSel c d (fun i => a i - β * b i) e = ipSel c d a e - β * ipSel c d b e := by
  unfold ipSel
  rw [Finset.mul_sum, ← Finset.sum_sub_distrib]
  apply Finset.sum_congr rfl
  intro i _
  split_ifs <;> ring

theorem ipSel_mul_add (c : Cfg α) (d : Fin n → Bool) (b w e : Vec n α) (a : α) :
    ipSel c d (fun i => a * b i + w i) e = a * ipSel c d b e + ipSel c d w e := by
  unfold ipSel
  rw [Finset.mul_sum, ← Finset.sum_add_distrib]
  apply Finset.sum_congr rfl
  intro i _
  split_ifs <;> ring

theorem ipSel_smul_left (c : Cfg α) (d : Fin n → Bool) (a e : Vec n α) (t : α) :
    ipSel c d (fun i => t * a i) e = t * ipSel c d a e := by
  unfold ipSel
  rw [Finset.mul_sum]
  apply Finset.sum_congr rfl
  intro i _
  split_ifs <;> ring

theorem ipSel_smul_right {c : Cfg α} (hL : Laws c) (d : Fin n → Bool) (a e : Vec n α) (t : α) :
    ipSel c d a (fun i => t * e i) = c.cj t * ipSel c d a e := by
  unfold ipSel
  rw [Finset.mul_sum]
  apply Finset.sum_congr rfl
  intro i _
  split_ifs
  · ring
  · rw [hL.cj_mul]; ring

/-- the normalisation factor is never zero -/
def ScaleOK (c : Cfg α) : Prop := ∀ a, c.scale a ≠ 0

/-- stored right-hand sides: each later one is orthogonal to every earlier one, none has zero norm -/
def OrthDb (c : Cfg α) (d : Fin n → Bool) (db : List (Pair n α)) : Prop :=
  db.Pairwise (fun p q => ipSel c d q.b p.b = 0) ∧ ∀ p ∈ db, ipSel c d p.b p.b ≠ 0

/-- the orthogonalised new right-hand side is orthogonal to the whole database -/
theorem orthPair_orth (c : Cfg α) (d : Fin n → Bool) :
    ∀ (db E : List (Pair n α)), OrthDb c d (E ++ db) → ∀ st : Vec n α × Vec n α,
      (∀ e ∈ E, ipSel c d st.2 e.b = 0) → ∀ p ∈ E ++ db, ipSel c d (orthPair c d db st).2 p.b = 0
  | [], E, _, st, hE => by simpa [orthPair] using hE
  | p :: db, E, hO, st, hE => by
    simp only [orthPair, memo_eq]
    have hassoc : E ++ p :: db = (E ++ [p]) ++ db := by simp
    rw [hassoc] at hO ⊢
    apply orthPair_orth c d db (E ++ [p]) hO
    intro e he
    show ipSel c d (fun i => st.2 i - ipSel c d st.2 p.b / ipSel c d p.b p.b * p.b i) e.b = 0
    rw [ipSel_sub_mul]
    rcases List.mem_append.mp he with he | he
    · have h1 : ipSel c d p.b e.b = 0 := by
        have := (List.pairwise_append.mp hO.1).1
        exact (List.pairwise_append.mp this).2.2 e he p (by simp)
      rw [hE e he, h1]; ring
    · rw [List.mem_singleton] at he
      subst he
      have hnz : ipSel c d e.b e.b ≠ 0 := hO.2 e (by simp)
      field_simp
      ring

theorem appendOne_orth {c : Cfg α} (hL : Laws c) (hsc : ScaleOK c) (hlt : LtOK c n) (M : Mat n α) (d : Fin n → Bool)
    (rc : Bool) {db : List (Pair n α)} (hO : OrthDb c d db) (xnew : Vec n α) :
    OrthDb c d (appendOne c M d rc db xnew).1 := by
  unfold appendOne
  simp only [memo_eq]
  split_ifs with h
  · have horth := orthPair_orth c d db [] (by simpa using hO) (maskOff d xnew, maskOff d (M *ᵥ xnew))
      (by intro e he; simp at he)
    simp only [List.nil_append] at horth
    refine ⟨?_, ?_⟩
    · rw [List.pairwise_append]
      refine ⟨hO.1, List.pairwise_singleton _ _, ?_⟩
      intro p hp q hq
      rw [List.mem_singleton] at hq
      subst hq
      simp only
      rw [ipSel_smul_left, horth p hp, mul_zero]
    · intro p hp
      rcases List.mem_append.mp hp with hp | hp
      · exact hO.2 p hp
      · rw [List.mem_singleton] at hp
        subst hp
        simp only
        rw [ipSel_smul_left, ipSel_smul_right hL]
        intro h0
        rcases mul_eq_zero.mp h0 with h1 | h1
        · exact hsc _ h1
        · rcases mul_eq_zero.mp h1 with h2 | h2
          · exact hsc _ (hL.cj_eq_zero.mp h2)
          · rw [h2, hlt] at h
            exact Bool.false_ne_true h
  · exact hO

theorem appendCols_orth {k : Nat} {c : Cfg α} (hL : Laws c) (hsc : ScaleOK c) (hlt : LtOK c n) (M : Mat n α) (d : Fin n → Bool) (rc : Bool)
    (did : Fin k → Bool) (xnew : Blk n k α) :
    ∀ (js : List (Fin k)) (st : List (Pair n α) × Nat), OrthDb c d st.1 →
      OrthDb c d (appendCols c M d rc did xnew js st).1
  | [], st, h => by simpa [appendCols] using h
  | j :: js, st, h => by
    simp only [appendCols]
    by_cases hdj : did j = true
    · simp only [hdj, if_true]
      exact appendCols_orth hL hsc hlt M d rc did xnew js _ (appendOne_orth hL hsc hlt M d rc h (xnew j))
    · simp only [hdj]
      exact appendCols_orth hL hsc hlt M d rc did xnew js _ h

theorem doSolve_orth {k : Nat} {c : Cfg α} (hL : Laws c) (hsc : ScaleOK c) (hlt : LtOK c n) (solveFn : Vec n α → Option (Vec n α) → Vec n α)
    (M : Mat n α) (Mc : Bool) (d : Fin n → Bool) {db : List (Pair n α)} (hO : OrthDb c d db)
    (rhs : Blk n k α) (rhsC : Bool) (x0 : Option (Blk n k α × Bool)) {o : SolveOut n k α}
    (h : doSolve c solveFn M Mc d db rhs rhsC x0 = .ok o) : OrthDb c d o.db := by
  unfold doSolve at h
  simp only [memo_eq, memoB_eq] at h
  split_ifs at h
  · injection h with h
    subst h
    exact appendCols_orth hL hsc hlt M d _ _ _ _ _ hO
  · injection h with h
    subst h
    exact hO

/-! ### span of the stored right-hand sides and the reconstruction -/

/-- `v` is a linear combination of the stored right-hand sides -/
def SpanL : List (Pair n α) → Vec n α → Prop
  | [], v => v = 0
  | p :: db, v => ∃ (a : α) (w : Vec n α), SpanL db w ∧ v = fun i => a * p.b i + w i

theorem span_orth (c : Cfg α) (d : Fin n → Bool) (e : Vec n α) :
    ∀ (db : List (Pair n α)) (w : Vec n α), SpanL db w → (∀ q ∈ db, ipSel c d q.b e = 0) → ipSel c d w e = 0
  | [], w, hw, _ => by
    simp only [SpanL] at hw
    subst hw
    simp [ipSel]
  | p :: db, w, hw, hq => by
    obtain ⟨a, w', hw', rfl⟩ := hw
    rw [ipSel_mul_add, hq p (by simp), span_orth c d e db w' hw' (fun q hq' => hq q (by simp [hq']))]
    ring

theorem span_zero_on (d : Fin n → Bool) :
    ∀ (db : List (Pair n α)) (w : Vec n α), SpanL db w → (∀ q ∈ db, ∀ i, d i = true → q.b i = 0) →
      ∀ i, d i = true → w i = 0
  | [], w, hw, _, i, _ => by
    simp only [SpanL] at hw
    subst hw; rfl
  | p :: db, w, hw, hz, i, hi => by
    obtain ⟨a, w', hw', rfl⟩ := hw
    simp only
    rw [hz p (by simp) i hi, span_zero_on d db w' hw' (fun q hq' => hz q (by simp [hq'])) i hi]
    ring

/-- modified Gram–Schmidt over an orthogonal family reproduces every element of its span:
    the remaining right-hand side is zero -/
theorem reconstruct_span {k : Nat} (c : Cfg α) (d : Fin n → Bool) (rc : Bool) :
    ∀ (db : List (Pair n α)), OrthDb c d db → (∀ q ∈ db, ∀ i, d i = true → q.b i = 0) →
      (∀ q ∈ db, (q.cplx && !rc) = false) →
      ∀ st : Blk n k α × Blk n k α, (∀ j, SpanL db (st.1 j)) → ∀ j, (reconstruct c d rc db st).1 j = 0
  | [], _, _, _, st, hs, j => by simpa [reconstruct, SpanL] using hs j
  | p :: db, hO, hz, hns, st, hs, j => by
    simp only [reconstruct]
    have hO' : OrthDb c d db := ⟨(List.pairwise_cons.mp hO.1).2, fun q hq => hO.2 q (by simp [hq])⟩
    apply reconstruct_span c d rc db hO' (fun q hq => hz q (by simp [hq])) (fun q hq => hns q (by simp [hq]))
    intro j
    obtain ⟨a, w, hw, hv⟩ := hs j
    have hnz : ipSel c d p.b p.b ≠ 0 := hO.2 p (by simp)
    have hwp : ipSel c d w p.b = 0 :=
      span_orth c d p.b db w hw (fun q hq => (List.pairwise_cons.mp hO.1).1 q hq)
    have hal : ipSel c d (st.1 j) p.b / ipSel c d p.b p.b = a := by
      rw [hv, ipSel_mul_add, hwp, add_zero]
      field_simp
    have hstep : (reconStep c d rc p st).1 j = w := by
      unfold reconStep
      simp only [memo_eq, memoB_eq, hns p (by simp), Bool.false_eq_true, if_false]
      funext i
      rw [hal]
      by_cases hi : d i = true
      · simp only [hi, if_true]
        rw [hv]
        simp only
        rw [hz p (by simp) i hi]; ring
      · simp only [hi]
        rw [hv]
        simp only [Bool.false_eq_true, if_false]
        ring
    rw [hstep]
    exact hw

/-! ### one call: zero remainder ⇒ no inner solve; in-span ⇒ zero remainder -/

theorem nsq_eq_ipSel (c : Cfg α) (v : Vec n α) : nsq c v = ipSel c (fun _ => false) v v := by
  simp [nsq, ipSel]

theorem doSolve_zero_rem {k : Nat} {c : Cfg α} (hL : Laws c) (hlt : LtOK c n)
    {M : Mat n α} {Mc : Bool} {d : Fin n → Bool} {db : List (Pair n α)} (hd : MaskOK M d) (hdb : DbOK M d db)
    (hreal : Mc = false → RealM c M) (solveFn : Vec n α → Option (Vec n α) → Vec n α)
    (rhs : Blk n k α) (rhsC : Bool) (x0 : Option (Blk n k α × Bool))
    (hzero : ∀ j, (reconstruct c d (Mc || rhsC) db (fun j => maskOff d (rhs j), fun j => diagSol M d (rhs j))).1 j = 0)
    {o : SolveOut n k α} (h : doSolve c solveFn M Mc d db rhs rhsC x0 = .ok o) : o.called = false := by
  have hr : RecOK M d rhs (reconstruct c d (Mc || rhsC) db
      (fun j => maskOff d (rhs j), fun j => diagSol M d (rhs j))) := by
    apply reconstruct_ok hL (fun hrc => hreal (by simpa using (Bool.or_eq_false_iff.mp hrc).1)) db hdb
    intro j
    exact ⟨diag_step hd (rhs j), fun i hi => by simp [maskOff, hi]⟩
  have hno : ∀ j, exceeds c (M *ᵥ (reconstruct c d (Mc || rhsC) db
      (fun j => maskOff d (rhs j), fun j => diagSol M d (rhs j))).2 j - rhs j) (rhs j) = false := by
    intro j
    have h1 := (hr j).1
    rw [hzero j, add_zero] at h1
    rw [h1, sub_self]
    unfold exceeds
    have : nsq c (0 : Vec n α) = 0 := by simp [nsq]
    rw [this, nsq_eq_ipSel]
    exact hlt _ _
  unfold doSolve at h
  simp only [memo_eq, memoB_eq] at h
  split_ifs at h with hany
  · exfalso
    rw [List.any_eq_true] at hany
    obtain ⟨j, _, hj⟩ := hany
    rw [hno j] at hj
    exact Bool.false_ne_true hj
  · injection h with h
    subst h
    rfl

theorem doSolve_reuse {k : Nat} {c : Cfg α} (hL : Laws c) (hlt : LtOK c n)
    {M : Mat n α} {Mc : Bool} {d : Fin n → Bool} {db : List (Pair n α)} (hd : MaskOK M d) (hdb : DbOK M d db)
    (hO : OrthDb c d db) (hreal : Mc = false → RealM c M) (solveFn : Vec n α → Option (Vec n α) → Vec n α)
    (rhs : Blk n k α) (rhsC : Bool) (x0 : Option (Blk n k α × Bool))
    (hns : ∀ q ∈ db, (q.cplx && !(Mc || rhsC)) = false)
    (hspan : ∀ j, SpanL db (maskOff d (rhs j)))
    {o : SolveOut n k α} (h : doSolve c solveFn M Mc d db rhs rhsC x0 = .ok o) : o.called = false :=
  doSolve_zero_rem hL hlt hd hdb hreal solveFn rhs rhsC x0
    (reconstruct_span c d (Mc || rhsC) db hO (fun q hq i hi => ((hdb q hq).2 i hi).2) hns _ hspan) h

/-! ### state level -/

/-- orthogonality component of the invariant -/
def OrthInv (c : Cfg α) (s : State n α) : Prop := OrthDb c s.diag s.db ∧ OrthDb c s.diag s.dbAdj

theorem orthDb_nil (c : Cfg α) (d : Fin n → Bool) : OrthDb c d [] :=
  ⟨List.Pairwise.nil, fun _ hp => absurd hp List.not_mem_nil⟩

/-- the database `solve` will use, and the right-hand side it will present to it -/
def selDb (s : State n α) (tr : Trans) : List (Pair n α) := if adjointMode s tr then s.dbAdj else s.db
def effRhs {k : Nat} (c : Cfg α) (s : State n α) (tr : Trans) (rhs : Blk n k α) : Blk n k α :=
  if conjMode s tr then cjB c rhs else rhs

theorem solve_orth {k : Nat} {c : Cfg α} (hL : Laws c) (hsc : ScaleOK c) (hlt : LtOK c n)
    (inner : Mat n α → Bool → Vec n α → Option (Vec n α) → Vec n α) (s : State n α) (hO : OrthInv c s)
    (rhs : Blk n k α) (rhsC : Bool) (x0 : Option (Blk n k α × Bool)) (tr : Trans)
    {s' : State n α} {o : SolveOut n k α} (h : solve c inner s rhs rhsC x0 tr = .ok (s', o)) : OrthInv c s' := by
  unfold solve at h
  split_ifs at h with htr
  cases hsA : s.A with
  | none => simp [hsA] at h
  | some A =>
    simp only [hsA, memoB_eq] at h
    by_cases hadj : adjointMode s tr = true
    · simp only [hadj, if_true] at h
      cases hds : doSolve c (inner A true) (adjM c A) s.Acplx s.diag s.dbAdj
          (if conjMode s tr = true then cjB c rhs else rhs) rhsC x0 with
      | error e => simp [hds] at h
      | ok o' =>
        simp only [hds] at h
        injection h with h
        injection h with h1 h2
        subst h1 h2
        exact ⟨hO.1, doSolve_orth hL hsc hlt _ _ _ _ hO.2 _ _ _ hds⟩
    · simp only [hadj] at h
      cases hds : doSolve c (inner A false) A s.Acplx s.diag s.db
          (if conjMode s tr = true then cjB c rhs else rhs) rhsC x0 with
      | error e => simp [hds] at h
      | ok o' =>
        simp only [hds] at h
        injection h with h
        injection h with h1 h2
        subst h1 h2
        exact ⟨doSolve_orth hL hsc hlt _ _ _ _ hO.1 _ _ _ hds, hO.2⟩

theorem solve_reuse {k : Nat} {c : Cfg α} (hL : Laws c) (hlt : LtOK c n)
    (inner : Mat n α → Bool → Vec n α → Option (Vec n α) → Vec n α) (s : State n α) (hI : Inv c s) (hO : OrthInv c s)
    (rhs : Blk n k α) (rhsC : Bool) (x0 : Option (Blk n k α × Bool)) (tr : Trans)
    (hns : ∀ q ∈ selDb s tr, (q.cplx && !(s.Acplx || rhsC)) = false)
    (hspan : ∀ j, SpanL (selDb s tr) (maskOff s.diag (effRhs c s tr rhs j)))
    {s' : State n α} {o : SolveOut n k α} (h : solve c inner s rhs rhsC x0 tr = .ok (s', o)) : o.called = false := by
  unfold solve at h
  split_ifs at h with htr
  obtain ⟨_, _, hA⟩ := hI
  cases hsA : s.A with
  | none => simp [hsA] at h
  | some A =>
    rw [hsA] at hA
    obtain ⟨hdiag, hdb, hdbA, _, _, hreal⟩ := hA
    have hmask : MaskOK A s.diag := fun i hi => (hdiag i).mp hi
    simp only [hsA, memoB_eq] at h
    unfold selDb at hns hspan
    unfold effRhs at hspan
    by_cases hadj : adjointMode s tr = true
    · simp only [hadj, if_true] at h hns hspan
      cases hds : doSolve c (inner A true) (adjM c A) s.Acplx s.diag s.dbAdj
          (if conjMode s tr = true then cjB c rhs else rhs) rhsC x0 with
      | error e => simp [hds] at h
      | ok o' =>
        simp only [hds] at h
        injection h with h
        injection h with h1 h2
        subst h1 h2
        exact (doSolve_reuse hL hlt (hmask.adj hL) hdbA hO.2 (fun hc => realM_adj hL (hreal hc)) _ _ rhsC x0 hns hspan hds : o'.called = false)
    · simp only [hadj] at h hns hspan
      cases hds : doSolve c (inner A false) A s.Acplx s.diag s.db
          (if conjMode s tr = true then cjB c rhs else rhs) rhsC x0 with
      | error e => simp [hds] at h
      | ok o' =>
        simp only [hds] at h
        injection h with h
        injection h with h1 h2
        subst h1 h2
        exact (doSolve_reuse hL hlt hmask hdb hO.1 hreal _ _ rhsC x0 hns hspan hds : o'.called = false)

end PymotoVerif.LDAS
