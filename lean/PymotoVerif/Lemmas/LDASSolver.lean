/-
C06 ∘ C07: the LDAS state machine seen through the interface that `LinSolve` (C07, `LA/LinSys.lean`) uses —
`solver.solve(rhs)` and `solver.solve(rhs, trans='T')` — and the facts needed to show that, in exact arithmetic
(tolerance 0), it satisfies C07's contract `Solver.Ok`.
-/
import PymotoVerif.Lemmas.LDASNorm
import PymotoVerif.LA.LinSys

set_option linter.unusedSectionVars false
set_option linter.unusedSimpArgs false

namespace PymotoVerif.LDAS
open Matrix

variable {n : Nat} {α : Type} [Field α] [DecidableEq α]

/-- exact arithmetic: the only vector whose squared norm is not positive is zero (true at ℚ, ℚ(i), ℝ, ℂ) -/
def DefOK (c : Cfg α) (n : Nat) : Prop := ∀ v : Vec n α, c.lt 0 (nsq c v) = false → v = 0

/-- `(n, k)` array ↔ block of columns -/
def toBlk {k : Nat} (B : Matrix (Fin n) (Fin k) α) : Blk n k α := fun j i => B i j
def ofBlk {k : Nat} (X : Blk n k α) : Matrix (Fin n) (Fin k) α := fun i j => X j i

/-- the wrapper as C07's `Solver`: `solve` is `LDAWrapper.solve(rhs)` issued in state `sN`, `solveT` is
    `LDAWrapper.solve(rhs, trans='T')` issued in state `sT` (the wrapper is stateful: the two calls of one
    `LinSolve` response/sensitivity pair see different states; any two reachable states are allowed) -/
def ldasSolver (c : Cfg α) (inner : Mat n α → Bool → Vec n α → Option (Vec n α) → Vec n α)
    (sN sT : State n α) (rhsC : Bool) : LinSys.Solver n α where
  solve := fun B => match solve c inner sN (toBlk B) rhsC none .N with
    | .ok (_, o) => ofBlk o.sol
    | .error _ => 0
  solveT := fun B => match solve c inner sT (toBlk B) rhsC none .T with
    | .ok (_, o) => ofBlk o.sol
    | .error _ => 0

theorem mul_ofBlk {k : Nat} (M : Mat n α) (X : Blk n k α) (B : Matrix (Fin n) (Fin k) α)
    (h : ∀ j, M *ᵥ X j = toBlk B j) : M * ofBlk X = B := by
  ext i j
  have := congrFun (h j) i
  simpa [Matrix.mul_apply, Matrix.mulVec, dotProduct, ofBlk, toBlk] using this

/-- `solve` succeeds whenever a matrix is present and `trans` is valid -/
theorem solve_isOk {k : Nat} (c : Cfg α) (inner : Mat n α → Bool → Vec n α → Option (Vec n α) → Vec n α)
    (s : State n α) {A : Mat n α} (hA : s.A = some A) (rhs : Blk n k α) (rhsC : Bool)
    (x0 : Option (Blk n k α × Bool)) (tr : Trans) (htr : tr ≠ .other) :
    ∃ r, solve c inner s rhs rhsC x0 tr = .ok r := by
  unfold solve
  simp only [htr, if_false, hA]
  generalize (if conjMode s tr = true then memoB (cjB c rhs) else rhs) = rhs'
  by_cases hadj : adjointMode s tr = true
  · simp only [hadj, if_true]
    obtain ⟨o, ho⟩ := doSolve_total (c := c) (inner A true) (adjM c A) s.Acplx s.diag s.dbAdj rhs' rhsC x0
    rw [ho]; exact ⟨_, rfl⟩
  · simp only [hadj]
    obtain ⟨o, ho⟩ := doSolve_total (c := c) (inner A false) A s.Acplx s.diag s.db rhs' rhsC x0
    rw [ho]; exact ⟨_, rfl⟩

/-- with tolerance 0 every column of a returned block solves the requested system EXACTLY: a column either went
    through the inner solver, or its residual failed the test `‖r‖² > 0`, i.e. is zero -/
theorem cols_exact {k : Nat} {c : Cfg α} (h0 : c.tol2 = 0) (hdef : DefOK c n) {Op : Mat n α} {rhs : Blk n k α}
    {o : SolveOut n k α} (h : ColsOK c Op rhs o) : ∀ j, Op *ᵥ o.sol j = rhs j := by
  intro j
  cases hd : o.did j with
  | true => exact (h j).1 hd
  | false =>
    have := (h j).2 hd
    unfold exceeds at this
    rw [h0, zero_mul] at this
    exact sub_eq_zero.mp (hdef _ this)

/-! ### reachable states -/

def Op.isSolve : Op n α → Bool
  | .solve .. => true
  | .update .. => false

/-- along an admissible history the invariant and the inner solver's contract for the current matrix persist -/
theorem final_inv {c : Cfg α} (hL : Laws c) (inner : Mat n α → Bool → Vec n α → Option (Vec n α) → Vec n α) :
    ∀ (ops : List (Op n α)) (s : State n α), Inv c s → (∀ A, s.A = some A → InnerOK c inner A) →
      HistOK c inner s ops →
      Inv c (finalState c inner s ops) ∧ (∀ A, (finalState c inner s ops).A = some A → InnerOK c inner A) ∧
      ((∀ op ∈ ops, Op.isSolve op = true) → (finalState c inner s ops).A = s.A)
  | [], _, hI, hIn, _ => ⟨hI, hIn, fun _ => rfl⟩
  | .update A cplx :: ops, s, hI, _, hH => by
    obtain ⟨hU, hInA, hH⟩ := hH
    have hIn' : ∀ A', (update c s A cplx).A = some A' → InnerOK c inner A' := by
      intro A' hA'
      simp only [update, Option.some.injEq] at hA'
      subst hA'; exact hInA
    obtain ⟨r1, r2, _⟩ := final_inv hL inner ops _ (inv_update' hL s hI A cplx hU) hIn' hH
    refine ⟨r1, r2, fun hall => ?_⟩
    have := hall (.update A cplx) (by simp)
    simp [Op.isSolve] at this
  | .solve k rhs rhsC x0 tr :: ops, s, hI, hIn, hH => by
    simp only [HistOK] at hH
    simp only [finalState]
    cases hs : solve c inner s rhs rhsC x0 tr with
    | error e =>
      have e1 : (step c inner s (.solve k rhs rhsC x0 tr)).1 = s := by simp [step, hs]
      rw [e1] at hH ⊢
      obtain ⟨r1, r2, r3⟩ := final_inv hL inner ops s hI hIn hH
      exact ⟨r1, r2, fun hall => r3 (fun op hop => hall op (by simp [hop]))⟩
    | ok r =>
      obtain ⟨s', o⟩ := r
      have e1 : (step c inner s (.solve k rhs rhsC x0 tr)).1 = s' := by simp [step, hs]
      rw [e1] at hH ⊢
      obtain ⟨hI', A, h1, h2, _⟩ := solve_spec hL inner s hI hIn rhs rhsC x0 tr hs
      have hIn' : ∀ A', s'.A = some A' → InnerOK c inner A' := by
        intro A' hA'
        rw [h2] at hA'
        injection hA' with hA'
        subst hA'
        exact hIn A h1
      obtain ⟨r1, r2, r3⟩ := final_inv hL inner ops s' hI' hIn' hH
      exact ⟨r1, r2, fun hall => by rw [r3 (fun op hop => hall op (by simp [hop])), h2, h1]⟩

end PymotoVerif.LDAS
