/-
C06: concrete instances used by the non-vacuity examples and by the witness of the open
mixed-dtype defect in `Props/C06.lean` (ℚ with `cj = id`).
-/
import PymotoVerif.Lemmas.LDASInv
import Mathlib.LinearAlgebra.Matrix.Notation

namespace PymotoVerif.C06
open PymotoVerif.LDAS Matrix

/-- the configuration the driver uses at `ℚ` -/
def cfgQ (strict : Bool) : Cfg ℚ :=
  { cj := id, re := id, im := fun _ => 0, lt := fun a b => decide (a < b), tol2 := 1 / 10 ^ 14,
    eps2 := 1 / 10 ^ 20, strictCast := strict }

theorem laws_cfgQ (strict : Bool) : Laws (cfgQ strict) :=
  { cj_add := fun _ _ => rfl, cj_mul := fun _ _ => rfl, cj_cj := fun _ => rfl, re_add := fun _ _ => rfl,
    re_mul := fun _ _ _ => rfl, cj_real := fun _ _ => rfl }

/-- exact 2×2 inner solver (Cramer), `adj` selects the conjugate transpose (= transpose at ℚ) -/
def inner2 (A : Mat 2 ℚ) (adj : Bool) (b : Vec 2 ℚ) (_ : Option (Vec 2 ℚ)) : Vec 2 ℚ :=
  let M : Mat 2 ℚ := if adj then adjM (cfgQ false) A else A
  let det := M 0 0 * M 1 1 - M 0 1 * M 1 0
  ![(M 1 1 * b 0 - M 0 1 * b 1) / det, (M 0 0 * b 1 - M 1 0 * b 0) / det]

def A2 : Mat 2 ℚ := !![1, 1; 0, 1]


/-- a coupled 2×2 matrix for the defect witness -/
def A3 : Mat 2 ℚ := !![2, 1; 1, 3]

def isOk {ε β : Type} : Except ε β → Bool
  | .ok _ => true
  | .error _ => false

/-- fresh wrapper, `update(A3)` -/
def s0 (c : Cfg ℚ) : State 2 ℚ := update c (init none none) A3 false

/-- `solve([1,0].astype(complex))` on the fresh wrapper -/
def firstOk (c : Cfg ℚ) : Bool := isOk (solve c inner2 (s0 c) (fun _ : Fin 1 => ![1, 0]) true none .N)

/-- … followed by `solve([0,1])` (real) on the same wrapper -/
def secondOk (c : Cfg ℚ) : Bool :=
  match solve c inner2 (s0 c) (fun _ : Fin 1 => ![1, 0]) true none .N with
  | .ok (s1, _) => isOk (solve c inner2 s1 (fun _ : Fin 1 => ![0, 1]) false none .N)
  | .error _ => false

/-- `solve([0,1])` on a fresh wrapper -/
def freshOk (c : Cfg ℚ) : Bool := isOk (solve c inner2 (s0 c) (fun _ : Fin 1 => ![0, 1]) false none .N)

end PymotoVerif.C06
