/-
C06: concrete instances used by the non-vacuity examples in `Props/C06.lean` (ℚ with `cj = id`).
-/
import PymotoVerif.Lemmas.LDASInv
import Mathlib.LinearAlgebra.Matrix.Notation

namespace PymotoVerif.C06
open PymotoVerif.LDAS Matrix

/-- the configuration the driver uses at `ℚ` -/
def cfgQ : Cfg ℚ :=
  { cj := id, re := id, im := fun _ => 0, lt := fun a b => decide (a < b), tol2 := 1 / 10 ^ 14,
    eps2 := 1 / 10 ^ 20, scale := fun _ => 1 }

theorem laws_cfgQ : Laws cfgQ :=
  { cj_add := fun _ _ => rfl, cj_mul := fun _ _ => rfl, cj_cj := fun _ => rfl, re_add := fun _ _ => rfl,
    re_mul := fun _ _ _ => rfl, cj_real := fun _ _ => rfl }

/-- exact 2×2 inner solver (Cramer), `adj` selects the conjugate transpose (= transpose at ℚ) -/
def inner2 (A : Mat 2 ℚ) (adj : Bool) (b : Vec 2 ℚ) (_ : Option (Vec 2 ℚ)) : Vec 2 ℚ :=
  let M : Mat 2 ℚ := if adj then adjM cfgQ A else A
  let det := M 0 0 * M 1 1 - M 0 1 * M 1 0
  ![(M 1 1 * b 0 - M 0 1 * b 1) / det, (M 0 0 * b 1 - M 1 0 * b 0) / det]

def A2 : Mat 2 ℚ := !![1, 1; 0, 1]


end PymotoVerif.C06
