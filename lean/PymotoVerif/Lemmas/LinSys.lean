/- helper lemmas for Props/C07.lean: the entrywise pairing, DyadCarrier meaning, fancy-index assignment, index partitions -/
import PymotoVerif.LA.LinSys
import Mathlib.LinearAlgebra.Matrix.Trace
import Mathlib.LinearAlgebra.Matrix.NonsingularInverse
import Mathlib.Algebra.BigOperators.Fin
import Mathlib.Logic.Equiv.Fin.Basic
import Mathlib.Tactic.Ring
import Mathlib.Tactic.Abel

namespace PymotoVerif.LinSys
open Matrix

variable {α : Type*} [CommRing α]

/-! ## the pairing `Σ Xᵢⱼ Yᵢⱼ` (no conjugation, DESIGN §3.2) -/

/-- `Σᵢⱼ Xᵢⱼ Yᵢⱼ` -/
def pair {m k : ℕ} (X Y : Matrix (Fin m) (Fin k) α) : α := ∑ i, ∑ j, X i j * Y i j

theorem pair_eq_trace {m k : ℕ} (X Y : Matrix (Fin m) (Fin k) α) : pair X Y = trace (Xᵀ * Y) := by
  unfold pair
  rw [trace, Finset.sum_comm]
  simp [Matrix.mul_apply]

theorem pair_comm {m k : ℕ} (X Y : Matrix (Fin m) (Fin k) α) : pair X Y = pair Y X := by
  unfold pair
  exact Finset.sum_congr rfl fun i _ => Finset.sum_congr rfl fun j _ => mul_comm _ _

theorem pair_add_left {m k : ℕ} (X X' Y : Matrix (Fin m) (Fin k) α) : pair (X + X') Y = pair X Y + pair X' Y := by
  simp [pair, add_mul, Finset.sum_add_distrib]

theorem pair_add_right {m k : ℕ} (X Y Y' : Matrix (Fin m) (Fin k) α) : pair X (Y + Y') = pair X Y + pair X Y' := by
  simp [pair, mul_add, Finset.sum_add_distrib]

theorem pair_neg_left {m k : ℕ} (X Y : Matrix (Fin m) (Fin k) α) : pair (-X) Y = -pair X Y := by
  simp [pair, Finset.sum_neg_distrib]

theorem pair_neg_right {m k : ℕ} (X Y : Matrix (Fin m) (Fin k) α) : pair X (-Y) = -pair X Y := by
  simp [pair, Finset.sum_neg_distrib]

theorem pair_sub_left {m k : ℕ} (X X' Y : Matrix (Fin m) (Fin k) α) : pair (X - X') Y = pair X Y - pair X' Y := by
  rw [sub_eq_add_neg, pair_add_left, pair_neg_left, sub_eq_add_neg]

theorem pair_sub_right {m k : ℕ} (X Y Y' : Matrix (Fin m) (Fin k) α) : pair X (Y - Y') = pair X Y - pair X Y' := by
  rw [sub_eq_add_neg, pair_add_right, pair_neg_right, sub_eq_add_neg]

theorem pair_sum_left {ι : Type*} {m k : ℕ} (s : Finset ι) (X : ι → Matrix (Fin m) (Fin k) α)
    (Y : Matrix (Fin m) (Fin k) α) : pair (∑ i ∈ s, X i) Y = ∑ i ∈ s, pair (X i) Y := by
  classical
  induction s using Finset.induction_on with
  | empty => simp [pair]
  | insert a s ha ih => rw [Finset.sum_insert ha, Finset.sum_insert ha, pair_add_left, ih]

theorem pair_zero_left {m k : ℕ} (Y : Matrix (Fin m) (Fin k) α) : pair 0 Y = 0 := by simp [pair]
theorem pair_zero_right {m k : ℕ} (X : Matrix (Fin m) (Fin k) α) : pair X 0 = 0 := by simp [pair]

theorem pair_smul_left {m k : ℕ} (c : α) (X Y : Matrix (Fin m) (Fin k) α) : pair (c • X) Y = c * pair X Y := by
  simp [pair, Finset.mul_sum, mul_assoc]

/-- move a left factor to the other side: `⟨M X, Y⟩ = ⟨X, Mᵀ Y⟩` -/
theorem pair_mul_left {m m' k : ℕ} (M : Matrix (Fin m') (Fin m) α) (X : Matrix (Fin m) (Fin k) α)
    (Y : Matrix (Fin m') (Fin k) α) : pair (M * X) Y = pair X (Mᵀ * Y) := by
  rw [pair_eq_trace, pair_eq_trace, transpose_mul, Matrix.mul_assoc]

/-- move a right factor to the other side: `⟨X N, Y⟩ = ⟨X, Y Nᵀ⟩` -/
theorem pair_mul_right {m l k : ℕ} (X : Matrix (Fin m) (Fin l) α) (N : Matrix (Fin l) (Fin k) α)
    (Y : Matrix (Fin m) (Fin k) α) : pair (X * N) Y = pair X (Y * Nᵀ) := by
  rw [pair_eq_trace, pair_eq_trace, transpose_mul, Matrix.mul_assoc, trace_mul_comm, Matrix.mul_assoc]

theorem pair_transpose {m k : ℕ} (X Y : Matrix (Fin m) (Fin k) α) : pair Xᵀ Yᵀ = pair X Y := by
  unfold pair
  rw [Finset.sum_comm]
  rfl

/-- `⟨L Uᵀ, dA⟩ = ⟨L, dA U⟩` : the matrix sensitivity `L Uᵀ` paired with a perturbation of the matrix -/
theorem pair_outer {n k : ℕ} (L U : Matrix (Fin n) (Fin k) α) (dA : Matrix (Fin n) (Fin n) α) :
    pair (L * Uᵀ) dA = pair L (dA * U) := by
  rw [pair_mul_right, transpose_transpose]

/-! ## real parts -/

theorem re_pair_map_left {m k : ℕ} (R : RealPart α) (X Y : Matrix (Fin m) (Fin k) α)
    (hY : ∀ i j, R.IsReal (Y i j)) : R.re (pair (X.map R.re) Y) = R.re (pair X Y) := by
  unfold pair
  rw [R.re_sum, R.re_sum]
  refine Finset.sum_congr rfl fun i _ => ?_
  rw [R.re_sum, R.re_sum]
  refine Finset.sum_congr rfl fun j _ => ?_
  rw [Matrix.map_apply, R.re_mul_real _ (hY i j), R.re_mul_real _ (hY i j), R.re_re]

theorem re_list_sum (R : RealPart α) (l : List α) : R.re l.sum = (l.map R.re).sum := by
  induction l with
  | nil => simp [R.re_zero]
  | cons a l ih => simp [R.re_add, ih]

/-! ## DyadCarrier -/

@[simp] theorem Dyads.toDense_nil {n m : ℕ} : Dyads.toDense ([] : Dyads n m α) = 0 := by
  ext i j; simp [Dyads.toDense]

theorem Dyads.toDense_cons {n m : ℕ} (d : (Fin n → α) × (Fin m → α)) (D : Dyads n m α) :
    Dyads.toDense (d :: D) = vecMulVec d.1 d.2 + Dyads.toDense D := by
  ext i j; simp [Dyads.toDense, vecMulVec_apply]

theorem Dyads.toDense_append {n m : ℕ} (D E : Dyads n m α) :
    Dyads.toDense (D ++ E) = Dyads.toDense D + Dyads.toDense E := by
  ext i j; simp [Dyads.toDense]

/-- `DyadCarrier.real` is the entrywise real part of the dense matrix -/
theorem Dyads.toDense_real {n m : ℕ} (R : RealPart α) (D : Dyads n m α) :
    (D.real R).toDense = D.toDense.map R.re := by
  ext i j
  simp only [Dyads.real, Dyads.toDense, Matrix.map_apply, List.map_append, List.map_map, List.sum_append,
    re_list_sum]
  induction D with
  | nil => simp
  | cons d D ih =>
    simp only [List.map_cons, List.sum_cons, Function.comp_apply] at ih ⊢
    rw [R.re_mul, ← ih]
    ring

theorem colDyads_toDense {n m k : ℕ} (U : Matrix (Fin n) (Fin k) α) (V : Matrix (Fin m) (Fin k) α) :
    (colDyads U V).toDense = U * Vᵀ := by
  ext i j
  simp [colDyads, Dyads.toDense, Matrix.mul_apply, Fin.sum_univ_def, Function.comp_def]

/-- `Cl @ D @ C.T` on a DyadCarrier maps every dyad `(u, v)` to `(Cl u, C v)` -/
theorem Dyads.toDense_map_mulVec {n m : ℕ} (Cl C : Matrix (Fin n) (Fin m) α) (D : Dyads m m α) :
    Dyads.toDense (D.map fun d => (Cl *ᵥ d.1, C *ᵥ d.2)) = Cl * D.toDense * Cᵀ := by
  induction D with
  | nil => simp
  | cons d D ih =>
    rw [List.map_cons, Dyads.toDense_cons, Dyads.toDense_cons, ih, Matrix.mul_add, Matrix.add_mul]
    congr 1
    ext i j
    simp only [vecMulVec_apply, Matrix.mul_apply, mulVec, dotProduct, transpose_apply]
    simp only [Finset.sum_mul, Finset.mul_sum]
    refine Finset.sum_congr rfl fun a _ => Finset.sum_congr rfl fun b _ => ?_
    ring

theorem MatSens.toDense_real {n m : ℕ} (R : RealPart α) (s : MatSens n m α) :
    (s.real R).toDense = s.toDense.map R.re := by
  cases s with
  | dense M => rfl
  | dyads D => exact Dyads.toDense_real R D

/-! ## fancy-index assignment -/

omit [CommRing α] in
theorem scatterRows_apply_of_injective {n nf k : ℕ} {f : Fin nf → Fin n} (hf : Function.Injective f)
    (V : Matrix (Fin nf) (Fin k) α) (base : Matrix (Fin n) (Fin k) α) (r : Fin nf) (j : Fin k) :
    scatterRows f V base (f r) j = V r j := by
  unfold scatterRows
  cases h : (List.finRange nf).reverse.find? (fun r' => f r' = f r) with
  | none =>
    rw [List.find?_eq_none] at h
    have := h r (by simp)
    simp at this
  | some r' =>
    have := List.find?_some h
    simp only [decide_eq_true_eq] at this
    rw [hf this]

omit [CommRing α] in
theorem scatterRows_apply_of_not_mem {n nf k : ℕ} {f : Fin nf → Fin n}
    (V : Matrix (Fin nf) (Fin k) α) (base : Matrix (Fin n) (Fin k) α) (i : Fin n) (hi : ∀ r, f r ≠ i) (j : Fin k) :
    scatterRows f V base i j = base i j := by
  unfold scatterRows
  cases h : (List.finRange nf).reverse.find? (fun r' => f r' = i) with
  | none => rfl
  | some r' =>
    have := List.find?_some h
    simp only [decide_eq_true_eq] at this
    exact absurd this (hi r')

omit [CommRing α] in
theorem scatterRows_submatrix_self {n nf k : ℕ} {f : Fin nf → Fin n} (hf : Function.Injective f)
    (V : Matrix (Fin nf) (Fin k) α) (base : Matrix (Fin n) (Fin k) α) :
    (scatterRows f V base).submatrix f id = V := by
  ext r j
  exact scatterRows_apply_of_injective hf V base r j

omit [CommRing α] in
theorem scatterRows_submatrix_other {n nf np k : ℕ} {f : Fin nf → Fin n} {p : Fin np → Fin n}
    (hfp : ∀ r s, f r ≠ p s) (V : Matrix (Fin nf) (Fin k) α) (base : Matrix (Fin n) (Fin k) α) :
    (scatterRows f V base).submatrix p id = base.submatrix p id := by
  ext s j
  exact scatterRows_apply_of_not_mem V base (p s) (fun r => hfp r s) j

/-! ## index partitions `f ⊎ p = {0,…,n-1}` -/

/-- `f` and `p` enumerate a partition of the index set: injective, disjoint, covering -/
def IsPartition {n nf np : ℕ} (f : Fin nf → Fin n) (p : Fin np → Fin n) : Prop :=
  Function.Bijective (Sum.elim f p)

namespace IsPartition
variable {n nf np : ℕ} {f : Fin nf → Fin n} {p : Fin np → Fin n}

theorem inj_left (h : IsPartition f p) : Function.Injective f := fun a b hab => by
  have := h.1 (a₁ := Sum.inl a) (a₂ := Sum.inl b) (by simpa using hab)
  simpa using this

theorem inj_right (h : IsPartition f p) : Function.Injective p := fun a b hab => by
  have := h.1 (a₁ := Sum.inr a) (a₂ := Sum.inr b) (by simpa using hab)
  simpa using this

theorem disjoint (h : IsPartition f p) (r : Fin nf) (s : Fin np) : f r ≠ p s := fun hab => by
  have := h.1 (a₁ := Sum.inl r) (a₂ := Sum.inr s) (by simpa using hab)
  simp at this

theorem disjoint' (h : IsPartition f p) (s : Fin np) (r : Fin nf) : p s ≠ f r := fun hab => h.disjoint r s hab.symm

theorem sum_eq (h : IsPartition f p) {β : Type*} [AddCommMonoid β] (g : Fin n → β) :
    ∑ i, g i = ∑ r, g (f r) + ∑ s, g (p s) := by
  have hb : Function.Bijective (Sum.elim f p) := h
  rw [← (Equiv.ofBijective _ hb).sum_comp g, Fintype.sum_sum_type]
  simp

/-- rows of a product, split over the partition of the inner index -/
theorem mul_submatrix (h : IsPartition f p) {m k : ℕ} (M : Matrix (Fin m) (Fin n) α) (Y : Matrix (Fin n) (Fin k) α) :
    M * Y = M.submatrix id f * Y.submatrix f id + M.submatrix id p * Y.submatrix p id := by
  ext i j
  simp only [Matrix.mul_apply, Matrix.add_apply, submatrix_apply, id]
  exact h.sum_eq _

theorem pair_split (h : IsPartition f p) {k : ℕ} (Y Z : Matrix (Fin n) (Fin k) α) :
    pair Y Z = pair (Y.submatrix f id) (Z.submatrix f id) + pair (Y.submatrix p id) (Z.submatrix p id) := by
  unfold pair
  exact h.sum_eq _

omit [CommRing α] in
theorem ext_rows (h : IsPartition f p) {k : ℕ} {Y Z : Matrix (Fin n) (Fin k) α}
    (hf : Y.submatrix f id = Z.submatrix f id) (hp : Y.submatrix p id = Z.submatrix p id) : Y = Z := by
  ext i j
  obtain ⟨x, hx⟩ := h.2 i
  cases x with
  | inl r =>
    have := congrFun (congrFun hf r) j
    simp only [Sum.elim_inl] at hx
    simpa [hx] using this
  | inr s =>
    have := congrFun (congrFun hp s) j
    simp only [Sum.elim_inr] at hx
    simpa [hx] using this

end IsPartition

/-! ## square systems -/

/-- a right inverse of a square matrix is a left inverse -/
theorem left_inv_of_right_inv {n : ℕ} {A B : Matrix (Fin n) (Fin n) α} (h : A * B = 1) : B * A = 1 :=
  mul_eq_one_comm.mp h

/-- an exact solver makes the matrix invertible; hence solutions are unique -/
theorem Solver.Ok.isUnit_det {n : ℕ} {S : Solver n α} {A : Matrix (Fin n) (Fin n) α} (h : S.Ok A) :
    IsUnit A.det :=
  isUnit_det_of_right_inverse (h.solve_eq (1 : Matrix (Fin n) (Fin n) α))

theorem Solver.Ok.cancel {n k : ℕ} {S : Solver n α} {A : Matrix (Fin n) (Fin n) α} (h : S.Ok A)
    {X Y : Matrix (Fin n) (Fin k) α} (hXY : A * X = A * Y) : X = Y := by
  have hl : S.solve 1 * A = 1 := left_inv_of_right_inv (h.solve_eq 1)
  calc X = (S.solve 1 * A) * X := by rw [hl, Matrix.one_mul]
    _ = S.solve 1 * (A * Y) := by rw [Matrix.mul_assoc, hXY]
    _ = Y := by rw [← Matrix.mul_assoc, hl, Matrix.one_mul]

theorem Solver.Ok.solve_eq_inv {n k : ℕ} {S : Solver n α} {A : Matrix (Fin n) (Fin n) α} (h : S.Ok A)
    (B : Matrix (Fin n) (Fin k) α) : S.solve B = A⁻¹ * B := by
  apply h.cancel
  rw [h.solve_eq, ← Matrix.mul_assoc, Matrix.mul_nonsing_inv _ h.isUnit_det, Matrix.one_mul]

end PymotoVerif.LinSys

namespace PymotoVerif.LinSys
open Matrix
variable {α : Type*} [CommRing α]

/-! ## the solver contract is satisfiable: Mathlib's inverse of a non-singular matrix -/

/-- the (noncomputable) exact solver given by the inverse matrix -/
noncomputable def Solver.ofInv {n : ℕ} (A : Matrix (Fin n) (Fin n) α) : Solver n α where
  solve := fun B => A⁻¹ * B
  solveT := fun B => (Aᵀ)⁻¹ * B

theorem Solver.ofInv_ok {n : ℕ} (A : Matrix (Fin n) (Fin n) α) (h : IsUnit A.det) : (Solver.ofInv A).Ok A where
  solve_eq := fun B => by
    show A * (A⁻¹ * B) = B
    rw [← Matrix.mul_assoc, Matrix.mul_nonsing_inv _ h, Matrix.one_mul]
  solveT_eq := fun B => by
    show Aᵀ * ((Aᵀ)⁻¹ * B) = B
    rw [← Matrix.mul_assoc, Matrix.mul_nonsing_inv _ (by rwa [det_transpose]), Matrix.one_mul]

/-! ## unfolding the responses on admissible inputs -/

/-- the documented rejection: real sparse matrix with a complex right-hand side -/
def LinSolveFlags.rejected (fl : LinSolveFlags) : Bool := fl.issparse && !fl.iscomplex && fl.rhsComplex

theorem linSolveResponse_ok {n k : ℕ} (fl : LinSolveFlags) (h : fl.rejected = false) (S : Solver n α)
    (B : Matrix (Fin n) (Fin k) α) : linSolveResponse fl S B = .ok (S.solve B) := by
  unfold LinSolveFlags.rejected at h
  simp [linSolveResponse, h]

theorem linSolveResponse_rejected {n k : ℕ} (fl : LinSolveFlags) (h : fl.rejected = true) (S : Solver n α)
    (B : Matrix (Fin n) (Fin k) α) : linSolveResponse fl S B = .error .TypeError := by
  unfold LinSolveFlags.rejected at h
  simp [linSolveResponse, h]

/-- the value computed by `SystemOfEquations._response` on an admissible input -/
theorem soeResponse_ok {n nf np k : ℕ} (fl : LinSolveFlags) (h : fl.rejected = false) (f : Fin nf → Fin n)
    (p : Fin np → Fin n) (A : Matrix (Fin n) (Fin n) α) (S : Solver nf α)
    (bf : Matrix (Fin nf) (Fin k) α) (xp : Matrix (Fin np) (Fin k) α) :
    soeResponse fl f p A S bf xp =
      .ok ((scatterRows f (S.solve (bf - A.submatrix f p * xp)) (scatterRows p xp 0),
            scatterRows p (A.submatrix p f * S.solve (bf - A.submatrix f p * xp) + A.submatrix p p * xp)
              (scatterRows f bf 0)),
           ⟨scatterRows f (S.solve (bf - A.submatrix f p * xp)) (scatterRows p xp 0),
            A.submatrix f p, A.submatrix p f, A.submatrix p p⟩) := by
  simp [soeResponse, linSolveResponse_ok fl h]

/-! ### what `SystemOfEquations._sensitivity` computes (a `None` seed reads as zero) -/

theorem soeAdjointLoad_eq {n nf np k : ℕ} (f : Fin nf → Fin n) (p : Fin np → Fin n)
    (st : SoeState n nf np k α) (gx gb : Option (Matrix (Fin n) (Fin k) α)) :
    soeAdjointLoad f p st gx gb = (gx.getD 0).submatrix f id + st.Apfᵀ * (gb.getD 0).submatrix p id := by
  cases gx <;> cases gb <;> simp [soeAdjointLoad]

theorem soeLam_free {n nf np k : ℕ} {f : Fin nf → Fin n} {p : Fin np → Fin n} (hpart : IsPartition f p)
    (S : Solver nf α) (st : SoeState n nf np k α) (gx gb : Option (Matrix (Fin n) (Fin k) α)) :
    (soeLam f p S st gx gb).submatrix f id = (-1 : α) • S.solveT (soeAdjointLoad f p st gx gb) := by
  cases gb with
  | none =>
    simp only [soeLam, Tab.get_tabulate]
    exact scatterRows_submatrix_self hpart.inj_left _ _
  | some g =>
    simp only [soeLam, Tab.get_tabulate]
    rw [scatterRows_submatrix_other hpart.disjoint', scatterRows_submatrix_self hpart.inj_left]

theorem soeLam_prescribed {n nf np k : ℕ} {f : Fin nf → Fin n} {p : Fin np → Fin n} (hpart : IsPartition f p)
    (S : Solver nf α) (st : SoeState n nf np k α) (gx gb : Option (Matrix (Fin n) (Fin k) α)) :
    (soeLam f p S st gx gb).submatrix p id = (gb.getD 0).submatrix p id := by
  cases gb with
  | none =>
    simp only [soeLam, Tab.get_tabulate]
    rw [scatterRows_submatrix_other hpart.disjoint]
    simp
  | some g =>
    simp only [soeLam, Tab.get_tabulate]
    rw [scatterRows_submatrix_self hpart.inj_right]
    simp

theorem soeSensitivity_eq {n nf np k : ℕ} (f : Fin nf → Fin n) (p : Fin np → Fin n)
    (S : Solver nf α) (st : SoeState n nf np k α) (gx gb : Option (Matrix (Fin n) (Fin k) α)) :
    (soeSensitivity f p S st gx gb).1.toDense = soeLam f p S st gx gb * st.xᵀ ∧
    (soeSensitivity f p S st gx gb).2.1 = -(soeLam f p S st gx gb).submatrix f id + (gb.getD 0).submatrix f id ∧
    (soeSensitivity f p S st gx gb).2.2 = st.Afpᵀ * (soeLam f p S st gx gb).submatrix f id
        + (gx.getD 0).submatrix p id + st.Appᵀ * (gb.getD 0).submatrix p id := by
  cases gx <;> cases gb <;> simp [soeSensitivity, colDyads_toDense]

/-- two-level fancy-index assignment into zeros, entrywise as a sum of indicator terms -/
theorem scatter2_apply {n nf nm c : ℕ} {f : Fin nf → Fin n} {m : Fin nm → Fin n}
    (hf : Function.Injective f) (hm : Function.Injective m) (hfm : ∀ r s, f r ≠ m s)
    (V : Matrix (Fin nf) (Fin c) α) (W : Matrix (Fin nm) (Fin c) α) (i : Fin n) (j : Fin c) :
    scatterRows f V (scatterRows m W 0) i j =
      (∑ r, if f r = i then V r j else 0) + ∑ s, if m s = i then W s j else 0 := by
  by_cases h1 : ∃ r, f r = i
  · obtain ⟨r, rfl⟩ := h1
    rw [scatterRows_apply_of_injective hf]
    have h2 : (∑ s, if m s = f r then W s j else 0) = 0 :=
      Finset.sum_eq_zero fun s _ => if_neg (fun h => hfm r s h.symm)
    have h3 : (∑ r', if f r' = f r then V r' j else 0) = V r j := by
      rw [Finset.sum_eq_single r]
      · simp
      · intro b _ hb
        exact if_neg (fun h => hb (hf h))
      · simp
    rw [h2, h3, add_zero]
  · have h1' : ∀ r, f r ≠ i := fun r hr => h1 ⟨r, hr⟩
    rw [scatterRows_apply_of_not_mem _ _ _ h1']
    have h3 : (∑ r, if f r = i then V r j else 0) = 0 := Finset.sum_eq_zero fun r _ => if_neg (h1' r)
    rw [h3, zero_add]
    by_cases h2 : ∃ s, m s = i
    · obtain ⟨s, rfl⟩ := h2
      rw [scatterRows_apply_of_injective hm, Finset.sum_eq_single s]
      · simp
      · intro b _ hb
        exact if_neg (fun h => hb (hm h))
      · simp
    · have h2' : ∀ s, m s ≠ i := fun s hs => h2 ⟨s, hs⟩
      rw [scatterRows_apply_of_not_mem _ _ _ h2']
      exact (Finset.sum_eq_zero fun s _ => if_neg (h2' s)).symm

/-- `Cᵀ Z` for `C = zeros; C[m] = W; C[f] = V` -/
theorem scatter2_transpose_mul {n nf nm c l : ℕ} {f : Fin nf → Fin n} {m : Fin nm → Fin n}
    (hf : Function.Injective f) (hm : Function.Injective m) (hfm : ∀ r s, f r ≠ m s)
    (V : Matrix (Fin nf) (Fin c) α) (W : Matrix (Fin nm) (Fin c) α) (Z : Matrix (Fin n) (Fin l) α) :
    (scatterRows f V (scatterRows m W 0))ᵀ * Z = Vᵀ * Z.submatrix f id + Wᵀ * Z.submatrix m id := by
  ext a b
  simp only [Matrix.mul_apply, transpose_apply, Matrix.add_apply, submatrix_apply, id]
  simp only [scatter2_apply hf hm hfm, add_mul, Finset.sum_add_distrib, Finset.sum_mul]
  congr 1
  · rw [Finset.sum_comm]
    refine Finset.sum_congr rfl fun r _ => ?_
    simp [ite_mul]
  · rw [Finset.sum_comm]
    refine Finset.sum_congr rfl fun s _ => ?_
    simp [ite_mul]

/-- `Y C` for `C = zeros; C[m] = W; C[f] = V` -/
theorem mul_scatter2 {n nf nm c l : ℕ} {f : Fin nf → Fin n} {m : Fin nm → Fin n}
    (hf : Function.Injective f) (hm : Function.Injective m) (hfm : ∀ r s, f r ≠ m s)
    (V : Matrix (Fin nf) (Fin c) α) (W : Matrix (Fin nm) (Fin c) α) (Y : Matrix (Fin l) (Fin n) α) :
    Y * scatterRows f V (scatterRows m W 0) = Y.submatrix id f * V + Y.submatrix id m * W := by
  have h := scatter2_transpose_mul hf hm hfm V W Yᵀ
  have h2 := congrArg transpose h
  rw [transpose_mul, transpose_transpose, transpose_transpose] at h2
  rw [h2, transpose_add, transpose_mul, transpose_mul, transpose_transpose, transpose_transpose]
  rfl

end PymotoVerif.LinSys
