/-
Helper lemmas for Props/C07Deriv.lean: derivatives of matrix-valued curves `ℝ → Matrix (Fin m) (Fin k) F`
(`F` a normed field over ℝ, i.e. ℝ or ℂ), stated ENTRYWISE (`MatDerivAt`), and the implicit-function step for the
linear system `A(s) X(s) = B(s)`:  `X' = A⁻¹ (B' − A' X)`.

Why entrywise: `Matrix` carries no global norm in Mathlib; the entrywise statement needs no choice of a matrix norm and
is equivalent to `HasDerivAt` in the normed space `Matrix m k F` with the (local) sup-norm instance
`Matrix.normedAddCommGroup` (`matDerivAt_iff_hasDerivAt`; all norms on a finite-dimensional space are equivalent).

Route of the main lemma (`MatDerivAt.inv_mul`): near `t` the determinant stays a unit (continuity of `det`) and
`X(s) = X(t) + (A s)⁻¹ * ((B s − B t) − (A s − A t) * X(t))`; the bracket vanishes at `t` and is differentiable there,
the factor `(A s)⁻¹` is merely continuous at `t` (`continuousAt_matrix_inv`), and a product `c · d` with `c` continuous,
`d(t) = 0`, `d` differentiable at `t` has derivative `c(t) d'(t)` (`hasDerivAt_mul_of_continuousAt_of_eq_zero`).
-/
import PymotoVerif.Lemmas.LinSys
import Mathlib.Analysis.Calculus.Deriv.Mul
import Mathlib.Analysis.Calculus.Deriv.Add
import Mathlib.Analysis.Calculus.Deriv.Slope
import Mathlib.Analysis.Calculus.Deriv.Prod
import Mathlib.Analysis.Matrix.Normed
import Mathlib.Topology.Instances.Matrix
import Mathlib.Analysis.Complex.Basic
import Mathlib.Analysis.Calculus.Deriv.Comp

namespace PymotoVerif.LinSys
open Matrix Filter Topology

variable {F : Type*} [NormedField F] [NormedAlgebra ℝ F]

/-- the curve of matrices `M` has the ENTRYWISE derivative `M'` at `t`:
every entry `s ↦ M s i j` has the derivative `M' i j` at `t` -/
def MatDerivAt {m k : ℕ} (M : ℝ → Matrix (Fin m) (Fin k) F) (M' : Matrix (Fin m) (Fin k) F) (t : ℝ) : Prop :=
  ∀ i j, HasDerivAt (fun s => M s i j) (M' i j) t

section norm
attribute [local instance] Matrix.normedAddCommGroup Matrix.normedSpace

/-- `MatDerivAt` is the derivative in the normed space of matrices (sup norm of the entries) -/
theorem matDerivAt_iff_hasDerivAt {m k : ℕ} (M : ℝ → Matrix (Fin m) (Fin k) F) (M' : Matrix (Fin m) (Fin k) F)
    (t : ℝ) : MatDerivAt M M' t ↔ HasDerivAt M M' t := by
  unfold MatDerivAt
  constructor
  · intro h
    refine hasDerivAt_pi.2 fun i => ?_
    exact hasDerivAt_pi.2 fun j => h i j
  · intro h i j
    exact hasDerivAt_pi.1 (hasDerivAt_pi.1 h i) j

end norm

namespace MatDerivAt
variable {m l k : ℕ} {t : ℝ}

theorem const (M : Matrix (Fin m) (Fin k) F) (t : ℝ) : MatDerivAt (fun _ => M) 0 t :=
  fun i j => hasDerivAt_const t (M i j)

/-- the straight line `s ↦ M₀ + s • D` (the curve of a directional derivative) has derivative `D` everywhere -/
theorem affine (M₀ D : Matrix (Fin m) (Fin k) F) (t : ℝ) : MatDerivAt (fun s : ℝ => M₀ + s • D) D t := by
  intro i j
  have h1 : HasDerivAt (fun s : ℝ => s • D i j) ((1 : ℝ) • D i j) t := (hasDerivAt_id t).smul_const (D i j)
  have h2 := h1.const_add (M₀ i j)
  rw [one_smul] at h2
  exact h2

theorem add {M N : ℝ → Matrix (Fin m) (Fin k) F} {M' N' : Matrix (Fin m) (Fin k) F}
    (hM : MatDerivAt M M' t) (hN : MatDerivAt N N' t) : MatDerivAt (fun s => M s + N s) (M' + N') t :=
  fun i j => (hM i j).fun_add (hN i j)

theorem sub {M N : ℝ → Matrix (Fin m) (Fin k) F} {M' N' : Matrix (Fin m) (Fin k) F}
    (hM : MatDerivAt M M' t) (hN : MatDerivAt N N' t) : MatDerivAt (fun s => M s - N s) (M' - N') t :=
  fun i j => (hM i j).fun_sub (hN i j)

theorem neg {M : ℝ → Matrix (Fin m) (Fin k) F} {M' : Matrix (Fin m) (Fin k) F}
    (hM : MatDerivAt M M' t) : MatDerivAt (fun s => -M s) (-M') t :=
  fun i j => (hM i j).fun_neg

/-- product rule -/
theorem mul {M : ℝ → Matrix (Fin m) (Fin l) F} {N : ℝ → Matrix (Fin l) (Fin k) F}
    {M' : Matrix (Fin m) (Fin l) F} {N' : Matrix (Fin l) (Fin k) F}
    (hM : MatDerivAt M M' t) (hN : MatDerivAt N N' t) :
    MatDerivAt (fun s => M s * N s) (M' * N t + M t * N') t := by
  intro i j
  simp only [Matrix.mul_apply, Matrix.add_apply]
  rw [← Finset.sum_add_distrib]
  exact HasDerivAt.fun_sum fun a _ => (hM i a).fun_mul (hN a j)

theorem submatrix {M : ℝ → Matrix (Fin m) (Fin k) F} {M' : Matrix (Fin m) (Fin k) F} (hM : MatDerivAt M M' t)
    {a b : ℕ} (r : Fin a → Fin m) (c : Fin b → Fin k) :
    MatDerivAt (fun s => (M s).submatrix r c) (M'.submatrix r c) t :=
  fun i j => hM (r i) (c j)

theorem transpose {M : ℝ → Matrix (Fin m) (Fin k) F} {M' : Matrix (Fin m) (Fin k) F} (hM : MatDerivAt M M' t) :
    MatDerivAt (fun s => (M s)ᵀ) M'ᵀ t :=
  fun i j => hM j i

/-- fancy-index assignment `base[f] = V` of differentiable data (the index bookkeeping does not depend on `s`) -/
theorem scatterRows {n nf : ℕ} (f : Fin nf → Fin n) {V : ℝ → Matrix (Fin nf) (Fin k) F}
    {base : ℝ → Matrix (Fin n) (Fin k) F} {V' : Matrix (Fin nf) (Fin k) F} {base' : Matrix (Fin n) (Fin k) F}
    (hV : MatDerivAt V V' t) (hb : MatDerivAt base base' t) :
    MatDerivAt (fun s => LinSys.scatterRows f (V s) (base s)) (LinSys.scatterRows f V' base') t := by
  intro i j
  simp only [LinSys.scatterRows]
  cases (List.finRange nf).reverse.find? (fun r => f r = i) with
  | none => exact hb i j
  | some r => exact hV r j

/-- the scalar `s ↦ Σ Wᵢⱼ (M s)ᵢⱼ` -/
theorem pair {M : ℝ → Matrix (Fin m) (Fin k) F} {M' : Matrix (Fin m) (Fin k) F} (hM : MatDerivAt M M' t)
    (W : Matrix (Fin m) (Fin k) F) : HasDerivAt (fun s => LinSys.pair W (M s)) (LinSys.pair W M') t := by
  unfold LinSys.pair
  exact HasDerivAt.fun_sum fun i _ => HasDerivAt.fun_sum fun j _ => (hM i j).const_mul (W i j)

theorem unique {M : ℝ → Matrix (Fin m) (Fin k) F} {M₀ M₁ : Matrix (Fin m) (Fin k) F}
    (h₀ : MatDerivAt M M₀ t) (h₁ : MatDerivAt M M₁ t) : M₀ = M₁ := by
  ext i j
  exact (h₀ i j).unique (h₁ i j)

theorem congr_of_eventuallyEq {M N : ℝ → Matrix (Fin m) (Fin k) F} {M' : Matrix (Fin m) (Fin k) F}
    (h : MatDerivAt M M' t) (h₁ : N =ᶠ[𝓝 t] M) : MatDerivAt N M' t :=
  fun i j => (h i j).congr_of_eventuallyEq (h₁.mono fun s hs => by simp only [hs])

theorem continuousAt {M : ℝ → Matrix (Fin m) (Fin k) F} {M' : Matrix (Fin m) (Fin k) F}
    (h : MatDerivAt M M' t) : ContinuousAt M t :=
  continuousAt_pi.2 fun i => continuousAt_pi.2 fun j => (h i j).continuousAt

/-- a matrix that is non-singular at `t` stays non-singular near `t` -/
theorem eventually_isUnit_det {n : ℕ} {A : ℝ → Matrix (Fin n) (Fin n) F} {A' : Matrix (Fin n) (Fin n) F}
    (hA : MatDerivAt A A' t) (hdet : IsUnit (A t).det) : ∀ᶠ s in 𝓝 t, IsUnit (A s).det := by
  have hdc : ContinuousAt (fun s => (A s).det) t :=
    ContinuousAt.comp (f := A) (g := fun M : Matrix (Fin n) (Fin n) F => M.det)
      (continuous_id.matrix_det.continuousAt) hA.continuousAt
  exact (hdc.eventually_ne (isUnit_iff_ne_zero.mp hdet)).mono fun s hs => isUnit_iff_ne_zero.mpr hs

/-- `s ↦ (A s)⁻¹` is continuous at a non-singular point -/
theorem continuousAt_inv {n : ℕ} {A : ℝ → Matrix (Fin n) (Fin n) F} {A' : Matrix (Fin n) (Fin n) F}
    (hA : MatDerivAt A A' t) (hdet : IsUnit (A t).det) : ContinuousAt (fun s => (A s)⁻¹) t := by
  have h1 : ContinuousAt Inv.inv (A t) := by
    refine continuousAt_matrix_inv (A t) ?_
    rw [Ring.inverse_eq_inv']
    exact continuousAt_inv₀ (isUnit_iff_ne_zero.mp hdet)
  exact ContinuousAt.comp (f := A) (g := Inv.inv) h1 hA.continuousAt

end MatDerivAt

/-- a product `c · d` with `c` continuous at `t`, `d` differentiable at `t` and `d t = 0` has derivative `c t · d'` -/
theorem hasDerivAt_mul_of_continuousAt_of_eq_zero {c d : ℝ → F} {d' : F} {t : ℝ}
    (hc : ContinuousAt c t) (hd : HasDerivAt d d' t) (h0 : d t = 0) :
    HasDerivAt (fun s => c s * d s) (c t * d') t := by
  rw [hasDerivAt_iff_tendsto_slope] at hd ⊢
  have h1 : Tendsto (fun s => c s * slope d t s) (𝓝[≠] t) (𝓝 (c t * d')) :=
    (hc.tendsto.mono_left nhdsWithin_le_nhds).mul hd
  refine h1.congr fun s => ?_
  simp only [slope_def_module, h0, sub_zero, mul_zero, mul_smul_comm]

/-- **implicit differentiation of a linear system.** If `A`, `B` are (entrywise) differentiable at `t` and `A t` is
non-singular, then `X(s) = (A s)⁻¹ * B s` is differentiable at `t` with `X' = (A t)⁻¹ * (B' − A' * X(t))`. -/
theorem MatDerivAt.inv_mul {n k : ℕ} {A : ℝ → Matrix (Fin n) (Fin n) F} {B : ℝ → Matrix (Fin n) (Fin k) F}
    {A' : Matrix (Fin n) (Fin n) F} {B' : Matrix (Fin n) (Fin k) F} {t : ℝ}
    (hA : MatDerivAt A A' t) (hB : MatDerivAt B B' t) (hdet : IsUnit (A t).det) :
    MatDerivAt (fun s => (A s)⁻¹ * B s) ((A t)⁻¹ * (B' - A' * ((A t)⁻¹ * B t))) t := by
  set X0 := (A t)⁻¹ * B t with hX0
  have e1 : A t * X0 = B t := by
    rw [hX0, ← Matrix.mul_assoc, Matrix.mul_nonsing_inv _ hdet, Matrix.one_mul]
  -- the bracket `D(s) = (B s − B t) − (A s − A t) X0`
  have hD : MatDerivAt (fun s => (B s - B t) - (A s - A t) * X0) (B' - A' * X0) t := by
    have h1 := (hB.sub (MatDerivAt.const (B t) t)).sub
      ((hA.sub (MatDerivAt.const (A t) t)).mul (MatDerivAt.const X0 t))
    simpa using h1
  have hcont := hA.continuousAt_inv hdet
  have hid : (fun s => (A s)⁻¹ * B s) =ᶠ[𝓝 t] fun s => X0 + (A s)⁻¹ * ((B s - B t) - (A s - A t) * X0) := by
    filter_upwards [hA.eventually_isUnit_det hdet] with s hs
    have inner : (B s - B t) - (A s - A t) * X0 = B s - A s * X0 := by
      rw [Matrix.sub_mul, e1]; abel
    rw [inner, Matrix.mul_sub, ← Matrix.mul_assoc, Matrix.nonsing_inv_mul _ hs, Matrix.one_mul]
    abel
  have hprod : MatDerivAt (fun s => (A s)⁻¹ * ((B s - B t) - (A s - A t) * X0)) ((A t)⁻¹ * (B' - A' * X0)) t := by
    intro i j
    simp only [Matrix.mul_apply]
    refine HasDerivAt.fun_sum fun a _ => ?_
    refine hasDerivAt_mul_of_continuousAt_of_eq_zero ?_ (hD a j) (by simp)
    exact continuousAt_pi.1 (continuousAt_pi.1 hcont i) a
  have h := (MatDerivAt.const X0 t).add hprod
  rw [zero_add] at h
  exact h.congr_of_eventuallyEq hid

/-- derivative of the inverse: `(A⁻¹)' = −A⁻¹ A' A⁻¹` -/
theorem MatDerivAt.inv {n : ℕ} {A : ℝ → Matrix (Fin n) (Fin n) F} {A' : Matrix (Fin n) (Fin n) F} {t : ℝ}
    (hA : MatDerivAt A A' t) (hdet : IsUnit (A t).det) :
    MatDerivAt (fun s => (A s)⁻¹) (-((A t)⁻¹ * A' * (A t)⁻¹)) t := by
  have h := hA.inv_mul (MatDerivAt.const (1 : Matrix (Fin n) (Fin n) F) t) hdet
  simp only [Matrix.mul_one, zero_sub, Matrix.mul_neg] at h
  rw [Matrix.mul_assoc]
  exact h

/-! ## reading a successful response backwards -/

section resp
variable {α : Type*} [CommRing α]

theorem linSolveResponse_eq_ok {n k : ℕ} {fl : LinSolveFlags} {S : Solver n α} {B X : Matrix (Fin n) (Fin k) α}
    (h : linSolveResponse fl S B = .ok X) : fl.rejected = false ∧ X = S.solve B := by
  cases hr : fl.rejected with
  | true =>
    rw [linSolveResponse_rejected fl hr] at h
    cases h
  | false =>
    rw [linSolveResponse_ok fl hr] at h
    injection h with h
    exact ⟨rfl, h.symm⟩

theorem soeResponse_eq_ok {n nf np k : ℕ} {fl : LinSolveFlags} {f : Fin nf → Fin n} {p : Fin np → Fin n}
    {A : Matrix (Fin n) (Fin n) α} {S : Solver nf α} {bf : Matrix (Fin nf) (Fin k) α} {xp : Matrix (Fin np) (Fin k) α}
    {r : (Matrix (Fin n) (Fin k) α × Matrix (Fin n) (Fin k) α) × SoeState n nf np k α}
    (h : soeResponse fl f p A S bf xp = .ok r) : fl.rejected = false := by
  cases hr : fl.rejected with
  | true =>
    have : soeResponse fl f p A S bf xp = .error .TypeError := by
      simp [soeResponse, linSolveResponse_rejected fl hr]
    rw [this] at h
    cases h
  | false => rfl

theorem staticCondResponse_eq_ok {n nm nf : ℕ} {issparse : Bool} {m : Fin nm → Fin n} {f : Fin nf → Fin n}
    {A : Matrix (Fin n) (Fin n) α} {S : Solver nf α} {Y : Matrix (Fin nm) (Fin nm) α} {X : Matrix (Fin nf) (Fin nm) α}
    (h : staticCondResponse issparse m f A S = .ok (Y, X)) :
    issparse = true ∧ X = S.solve (A.submatrix f m) ∧ Y = A.submatrix m m - A.submatrix m f * X := by
  cases issparse with
  | false => cases h
  | true =>
    simp only [staticCondResponse, Bool.not_true, Bool.false_eq_true, if_false, Tab.get_tabulate] at h
    injection h with h
    injection h with hY hX
    refine ⟨rfl, hX.symm, ?_⟩
    rw [← hY, hX]

end resp

/-! ## complex data: numpy's `.real` on ℂ, real curves, real part of a derivative -/

/-- `.real` / `.imag` of Mathlib's complex numbers (as embedded real scalars), the `RealPart` used for complex data -/
noncomputable def complexRealPart : RealPart ℂ where
  re := fun z => (z.re : ℂ)
  im := fun z => (z.im : ℂ)
  re_add := fun a b => by simp
  re_mul := fun a b => by simp
  re_re := fun a => by simp
  im_re := fun a => by simp

theorem complexRealPart_re_apply (z : ℂ) : complexRealPart.re z = ((z.re : ℝ) : ℂ) := rfl

theorem complexRealPart_isReal {a : ℂ} (h : a.im = 0) : complexRealPart.IsReal a := by
  show ((a.re : ℝ) : ℂ) = a
  apply Complex.ext <;> simp [h]

/-- the real part of a differentiable complex-valued function of a real variable -/
theorem hasDerivAt_complex_re {g : ℝ → ℂ} {g' : ℂ} {t : ℝ} (h : HasDerivAt g g' t) :
    HasDerivAt (fun s => (g s).re) g'.re t :=
  Complex.reCLM.hasFDerivAt.comp_hasDerivAt t h

theorem hasDerivAt_complex_im {g : ℝ → ℂ} {g' : ℂ} {t : ℝ} (h : HasDerivAt g g' t) :
    HasDerivAt (fun s => (g s).im) g'.im t :=
  Complex.imCLM.hasFDerivAt.comp_hasDerivAt t h

/-- a curve of REAL matrices (stored in a complex array) has a real derivative -/
theorem MatDerivAt.im_eq_zero {m k : ℕ} {M : ℝ → Matrix (Fin m) (Fin k) ℂ} {M' : Matrix (Fin m) (Fin k) ℂ} {t : ℝ}
    (hM : MatDerivAt M M' t) (hreal : ∀ᶠ s in 𝓝 t, ∀ i j, (M s i j).im = 0) (i : Fin m) (j : Fin k) :
    (M' i j).im = 0 := by
  have h1 := hasDerivAt_complex_im (hM i j)
  have h2 : HasDerivAt (fun s => (M s i j).im) 0 t :=
    (hasDerivAt_const t (0 : ℝ)).congr_of_eventuallyEq (hreal.mono fun s hs => hs i j)
  exact h1.unique h2

end PymotoVerif.LinSys
