/- helper lemmas for C05: row sums of the geometric-multigrid interpolation matrix (`mgTriplets` / `mgInterp`) -/
import PymotoVerif.LA.CG
import PymotoVerif.Props.C13
import Mathlib.Algebra.BigOperators.Group.Finset.Basic
import Mathlib.Algebra.BigOperators.Ring.Finset
import Mathlib.Algebra.BigOperators.Ring.List
import Mathlib.Algebra.CharP.Defs
import Mathlib.Tactic.Ring
import Mathlib.Tactic.FieldSimp
import Mathlib.Tactic.NormNum

namespace PymotoVerif.LA
open PymotoVerif.Domain

section lsum
variable {α : Type*} [Field α] {β γ : Type*}

/-- sum of `f` over a list -/
def lsum (l : List β) (f : β → α) : α := (l.map f).sum

@[simp] theorem lsum_nil (f : β → α) : lsum [] f = 0 := rfl
@[simp] theorem lsum_cons (x : β) (l : List β) (f : β → α) : lsum (x :: l) f = f x + lsum l f := by
  simp [lsum]
theorem lsum_append (l l' : List β) (f : β → α) : lsum (l ++ l') f = lsum l f + lsum l' f := by
  simp [lsum]

theorem foldl_add_eq (l : List β) (g : β → α) (a : α) : l.foldl (fun s t => s + g t) a = a + lsum l g := by
  induction l generalizing a with
  | nil => simp
  | cons x l ih => rw [List.foldl_cons, ih, lsum_cons]; ring

theorem lsum_filter (l : List β) (p : β → Bool) (g : β → α) :
    lsum (l.filter p) g = lsum l (fun t => if p t then g t else 0) := by
  induction l with
  | nil => simp
  | cons x l ih =>
    rw [List.filter_cons]
    split <;> simp_all

theorem lsum_flatMap (l : List β) (F : β → List γ) (g : γ → α) :
    lsum (l.flatMap F) g = lsum l (fun x => lsum (F x) g) := by
  induction l with
  | nil => simp
  | cons x l ih => rw [List.flatMap_cons, lsum_append, ih, lsum_cons]

theorem lsum_map (l : List β) (F : β → γ) (g : γ → α) : lsum (l.map F) g = lsum l (fun x => g (F x)) := by
  simp [lsum, Function.comp_def]

theorem lsum_congr (l : List β) (f g : β → α) (h : ∀ x ∈ l, f x = g x) : lsum l f = lsum l g := by
  unfold lsum
  rw [List.map_congr_left h]

theorem lsum_mul_left (l : List β) (c : α) (f : β → α) : lsum l (fun x => c * f x) = c * lsum l f := by
  induction l with
  | nil => simp
  | cons x l ih => simp [ih, mul_add]

theorem lsum_mul_right (l : List β) (c : α) (f : β → α) : lsum l (fun x => f x * c) = lsum l f * c := by
  induction l with
  | nil => simp
  | cons x l ih => simp [ih, add_mul]

theorem sum_lsum_comm (s : Finset γ) (l : List β) (F : γ → β → α) :
    (∑ c ∈ s, lsum l (F c)) = lsum l (fun x => ∑ c ∈ s, F c x) := by
  induction l with
  | nil => simp
  | cons x l ih => simp [Finset.sum_add_distrib, ih]

theorem lsum_range (m : ℕ) (f : ℕ → α) : lsum (List.range m) f = ∑ v ∈ Finset.range m, f v := by
  induction m with
  | zero => simp
  | succ m ih => rw [List.range_succ, lsum_append, ih, Finset.sum_range_succ]; simp

/-- an indicator of one point of `range m` sums to the value at that point -/
theorem lsum_range_single (m v0 : ℕ) (c : α) (h : v0 < m) :
    lsum (List.range m) (fun v => if v = v0 then c else 0) = c := by
  rw [lsum_range, Finset.sum_ite_eq' (Finset.range m) v0 (fun _ => c)]
  simp [h]

theorem lsum_zero (l : List β) : lsum l (fun _ => (0 : α)) = 0 := by
  induction l with
  | nil => simp
  | cons x l ih => simp [ih]
end lsum

section oneD
variable {α : Type*} [Field α] [CharZero α]

/-- the 1-D weight: 1 for the coincident node (offset 0 ≙ index 1), 1/2 for the two neighbours -/
def hW (a : ℕ) : α := if a = 1 then 1 else 1 / (1 + 1)

theorem mem_mgRange {nc a v : ℕ} :
    v ∈ mgRange nc a ↔ (if a = 0 then 1 else 0) ≤ v ∧ v < (if a = 2 then nc else nc + 1) := by
  simp only [mgRange, List.mem_filter, List.mem_range, decide_eq_true_eq]
  tauto

theorem nodup_mgRange (nc a : ℕ) : (mgRange nc a).Nodup := by
  unfold mgRange
  exact List.Nodup.filter _ List.nodup_range

omit [CharZero α] in
theorem lsum_single {β : Type*} [DecidableEq β] (l : List β) (hl : l.Nodup) (v0 : β) (hv : v0 ∈ l) (c : α) :
    lsum l (fun v => if v = v0 then c else 0) = c := by
  induction l with
  | nil => simp at hv
  | cons x l ih =>
    rw [List.nodup_cons] at hl
    rw [lsum_cons]
    by_cases hx : x = v0
    · subst hx
      have : lsum l (fun v => if v = x then c else 0) = 0 := by
        rw [lsum_congr l _ (fun _ => 0) (fun v hv' => by
          have : v ≠ x := fun h => hl.1 (h ▸ hv')
          simp [this]), lsum_zero]
      simp [this]
    · have hv' : v0 ∈ l := by
        rcases List.mem_cons.mp hv with h | h
        · exact absurd h.symm hx
        · exact h
      rw [ih hl.2 hv']
      simp [hx]

omit [CharZero α] in
theorem lsum_eq_zero {β : Type*} (l : List β) (f : β → α) (h : ∀ x ∈ l, f x = 0) : lsum l f = 0 := by
  rw [lsum_congr l f (fun _ => 0) h, lsum_zero]

/-- the three 1-D weights that reach the fine index `fi` sum to one (`fi ≤ 2 nc`) -/
theorem oneD_partition (nc fi : ℕ) (hfi : fi ≤ 2 * nc) :
    lsum [0, 1, 2] (fun a => lsum (mgRange nc a) (fun ix => if 2 * ix + a - 1 = fi then (hW a : α) else 0)) = 1 := by
  have h2 : (1 + 1 : α) ≠ 0 := by
    have : ((2 : ℕ) : α) ≠ 0 := Nat.cast_ne_zero.mpr (by norm_num)
    simpa [one_add_one_eq_two] using this
  simp only [lsum_cons, lsum_nil]
  rcases Nat.even_or_odd' fi with ⟨m, hm | hm⟩
  · -- fi = 2 m: only the coincident coarse node m contributes, with weight 1
    have X0 : lsum (mgRange nc 0) (fun ix => if 2 * ix + 0 - 1 = fi then (hW 0 : α) else 0) = 0 := by
      apply lsum_eq_zero
      intro v hv
      rw [mem_mgRange] at hv
      simp at hv
      rw [if_neg]; omega
    have X1 : lsum (mgRange nc 1) (fun ix => if 2 * ix + 1 - 1 = fi then (hW 1 : α) else 0) = 1 := by
      rw [lsum_congr _ _ (fun v => if v = m then (1 : α) else 0)]
      · exact lsum_single _ (nodup_mgRange nc 1) m (by rw [mem_mgRange]; simp; omega) 1
      · intro v _
        simp only [hW, if_true]
        split_ifs <;> first | rfl | omega
    have X2 : lsum (mgRange nc 2) (fun ix => if 2 * ix + 2 - 1 = fi then (hW 2 : α) else 0) = 0 := by
      apply lsum_eq_zero
      intro v _
      rw [if_neg]; omega
    rw [X0, X1, X2]; simp
  · -- fi = 2 m + 1: the coarse nodes m + 1 and m contribute 1/2 each
    have X0 : lsum (mgRange nc 0) (fun ix => if 2 * ix + 0 - 1 = fi then (hW 0 : α) else 0) = 1 / (1 + 1) := by
      rw [lsum_congr _ _ (fun v => if v = m + 1 then (1 / (1 + 1) : α) else 0)]
      · exact lsum_single _ (nodup_mgRange nc 0) (m + 1) (by rw [mem_mgRange]; simp; omega) _
      · intro v hv
        rw [mem_mgRange] at hv
        simp at hv
        have h01 : (hW 0 : α) = 1 / (1 + 1) := by simp [hW]
        rw [h01]
        by_cases hvm : v = m + 1
        · rw [if_pos hvm, if_pos (by omega)]
        · rw [if_neg hvm, if_neg (by omega)]
    have X1 : lsum (mgRange nc 1) (fun ix => if 2 * ix + 1 - 1 = fi then (hW 1 : α) else 0) = 0 := by
      apply lsum_eq_zero
      intro v _
      rw [if_neg]; omega
    have X2 : lsum (mgRange nc 2) (fun ix => if 2 * ix + 2 - 1 = fi then (hW 2 : α) else 0) = 1 / (1 + 1) := by
      rw [lsum_congr _ _ (fun v => if v = m then (1 / (1 + 1) : α) else 0)]
      · exact lsum_single _ (nodup_mgRange nc 2) m (by rw [mem_mgRange]; simp; omega) _
      · intro v _
        simp only [hW]
        split_ifs <;> first | rfl | omega
    rw [X0, X1, X2]
    field_simp
    ring

/-- 1-D: an affine function of the coarse node position `2·ix` (fine units) is interpolated exactly -/
theorem oneD_linear (nc fi : ℕ) (hfi : fi ≤ 2 * nc) (al be : α) :
    lsum [0, 1, 2] (fun a => lsum (mgRange nc a) (fun ix =>
      if 2 * ix + a - 1 = fi then (hW a : α) * (al + be * ((2 * ix : ℕ) : α)) else 0)) = al + be * (fi : α) := by
  have h2 : (1 + 1 : α) ≠ 0 := by
    have : ((2 : ℕ) : α) ≠ 0 := Nat.cast_ne_zero.mpr (by norm_num)
    simpa [one_add_one_eq_two] using this
  simp only [lsum_cons, lsum_nil]
  rcases Nat.even_or_odd' fi with ⟨m, hm | hm⟩
  · have X0 : lsum (mgRange nc 0) (fun ix => if 2 * ix + 0 - 1 = fi then (hW 0 : α) * (al + be * ((2 * ix : ℕ) : α)) else 0) = 0 := by
      apply lsum_eq_zero
      intro v hv
      rw [mem_mgRange] at hv
      simp at hv
      rw [if_neg]; omega
    have X1 : lsum (mgRange nc 1) (fun ix => if 2 * ix + 1 - 1 = fi then (hW 1 : α) * (al + be * ((2 * ix : ℕ) : α)) else 0)
        = al + be * ((2 * m : ℕ) : α) := by
      rw [lsum_congr _ _ (fun v => if v = m then (al + be * ((2 * m : ℕ) : α)) else 0)]
      · exact lsum_single _ (nodup_mgRange nc 1) m (by rw [mem_mgRange]; simp; omega) _
      · intro v _
        have h11 : (hW 1 : α) = 1 := by simp [hW]
        rw [h11, one_mul]
        by_cases hvm : v = m
        · subst hvm; rw [if_pos rfl, if_pos (by omega)]
        · rw [if_neg hvm, if_neg (by omega)]
    have X2 : lsum (mgRange nc 2) (fun ix => if 2 * ix + 2 - 1 = fi then (hW 2 : α) * (al + be * ((2 * ix : ℕ) : α)) else 0) = 0 := by
      apply lsum_eq_zero
      intro v _
      rw [if_neg]; omega
    rw [X0, X1, X2, hm]; simp
  · have h01 : (hW 0 : α) = 1 / (1 + 1) := by simp [hW]
    have h21 : (hW 2 : α) = 1 / (1 + 1) := by simp [hW]
    have X0 : lsum (mgRange nc 0) (fun ix => if 2 * ix + 0 - 1 = fi then (hW 0 : α) * (al + be * ((2 * ix : ℕ) : α)) else 0)
        = 1 / (1 + 1) * (al + be * ((2 * (m + 1) : ℕ) : α)) := by
      rw [lsum_congr _ _ (fun v => if v = m + 1 then (1 / (1 + 1) * (al + be * ((2 * (m + 1) : ℕ) : α))) else 0)]
      · exact lsum_single _ (nodup_mgRange nc 0) (m + 1) (by rw [mem_mgRange]; simp; omega) _
      · intro v hv
        rw [mem_mgRange] at hv
        simp at hv
        rw [h01]
        by_cases hvm : v = m + 1
        · subst hvm; rw [if_pos rfl, if_pos (by omega)]
        · rw [if_neg hvm, if_neg (by omega)]
    have X1 : lsum (mgRange nc 1) (fun ix => if 2 * ix + 1 - 1 = fi then (hW 1 : α) * (al + be * ((2 * ix : ℕ) : α)) else 0) = 0 := by
      apply lsum_eq_zero
      intro v _
      rw [if_neg]; omega
    have X2 : lsum (mgRange nc 2) (fun ix => if 2 * ix + 2 - 1 = fi then (hW 2 : α) * (al + be * ((2 * ix : ℕ) : α)) else 0)
        = 1 / (1 + 1) * (al + be * ((2 * m : ℕ) : α)) := by
      rw [lsum_congr _ _ (fun v => if v = m then (1 / (1 + 1) * (al + be * ((2 * m : ℕ) : α))) else 0)]
      · exact lsum_single _ (nodup_mgRange nc 2) m (by rw [mem_mgRange]; simp; omega) _
      · intro v _
        rw [h21]
        by_cases hvm : v = m
        · subst hvm; rw [if_pos rfl, if_pos (by omega)]
        · rw [if_neg hvm, if_neg (by omega)]
    rw [X0, X1, X2, hm]
    push_cast
    field_simp
    ring
end oneD

section assembly
variable {α : Type*} [Field α] [CharZero α]

theorem mgWeight_factor {a b c : ℕ} (ha : a ∈ [0, 1, 2]) (hb : b ∈ [0, 1, 2]) (hc : c ∈ [0, 1, 2]) :
    (mgWeight a b c : α) = hW a * hW b * hW c := by
  simp only [List.mem_cons, List.mem_nil_iff, or_false] at ha hb hc
  rcases ha with rfl | rfl | rfl <;> rcases hb with rfl | rfl | rfl <;> rcases hc with rfl | rfl | rfl <;>
    simp [mgWeight, hW]

/-- the seven nested loops of `setup_interpolation` as a nested sum -/
def tripSum (cx cy cz ndof : ℕ) (ks : List ℕ) (G : ℕ → ℕ → ℕ → ℕ → ℕ → ℕ → ℕ → α) : α :=
  lsum [0, 1, 2] fun a => lsum [0, 1, 2] fun b => lsum ks fun c => lsum (List.range ndof) fun d =>
    lsum (mgRange cx a) fun ix => lsum (mgRange cy b) fun iy => lsum (mgRange cz c) fun iz => G a b c d ix iy iz

omit [CharZero α] in
theorem tripSum_congr (cx cy cz ndof : ℕ) (ks : List ℕ) (G G' : ℕ → ℕ → ℕ → ℕ → ℕ → ℕ → ℕ → α)
    (h : ∀ a ∈ [0, 1, 2], ∀ b ∈ [0, 1, 2], ∀ c ∈ ks, ∀ d ∈ List.range ndof, ∀ ix ∈ mgRange cx a,
      ∀ iy ∈ mgRange cy b, ∀ iz ∈ mgRange cz c, G a b c d ix iy iz = G' a b c d ix iy iz) :
    tripSum cx cy cz ndof ks G = tripSum cx cy cz ndof ks G' := by
  unfold tripSum
  refine lsum_congr _ _ _ fun a ha => lsum_congr _ _ _ fun b hb => lsum_congr _ _ _ fun c hc =>
    lsum_congr _ _ _ fun d hd => lsum_congr _ _ _ fun ix hix => lsum_congr _ _ _ fun iy hiy =>
    lsum_congr _ _ _ fun iz hiz => h a ha b hb c hc d hd ix hix iy hiy iz hiz

omit [CharZero α] in
theorem tripSum_factor (cx cy cz ndof : ℕ) (ks : List ℕ) (D : ℕ → α) (X Y Z : ℕ → ℕ → α) :
    tripSum cx cy cz ndof ks (fun a b c d ix iy iz => D d * X a ix * Y b iy * Z c iz) =
      lsum (List.range ndof) D * (lsum [0, 1, 2] fun a => lsum (mgRange cx a) (X a)) *
        (lsum [0, 1, 2] fun b => lsum (mgRange cy b) (Y b)) * (lsum ks fun c => lsum (mgRange cz c) (Z c)) := by
  unfold tripSum
  simp only [lsum_mul_left, lsum_mul_right]

omit [CharZero α] in
theorem lsum_mgTriplets (cx cy cz ndof : ℕ) (g : ℕ × ℕ × α → α) :
    lsum (mgTriplets (α := α) ⟨2 * cx, 2 * cy, 2 * cz⟩ ndof) g =
      tripSum cx cy cz ndof (if (Dom.mk (2 * cx) (2 * cy) (2 * cz)).dim = 3 then [0, 1, 2] else [1])
        (fun a b c d ix iy iz =>
          g ((Dom.mk (2 * cx) (2 * cy) (2 * cz)).nodeNumber (2 * ix + a - 1) (2 * iy + b - 1) (2 * iz + c - 1) * ndof + d,
             (Dom.mk cx cy cz).nodeNumber ix iy iz * ndof + d, mgWeight a b c)) := by
  unfold mgTriplets tripSum
  simp only [lsum_flatMap, lsum_map, Nat.mul_div_cancel_left _ (by norm_num : 0 < 2)]

/-- the weights of the third direction sum to one as well: 3-D by `oneD_partition`, 2-D because only `k = 0` is looped -/
theorem zdir_partition (cx cy cz fk : ℕ) (hfk : fk ≤ 2 * cz) :
    lsum (if (Dom.mk (2 * cx) (2 * cy) (2 * cz)).dim = 3 then [0, 1, 2] else [1])
      (fun c => lsum (mgRange cz c) (fun iz => if 2 * iz + c - 1 = fk then (hW c : α) else 0)) = 1 := by
  by_cases hd : (Dom.mk (2 * cx) (2 * cy) (2 * cz)).dim = 3
  · rw [if_pos hd]; exact oneD_partition cz fk hfk
  · rw [if_neg hd]
    have hz : cz = 0 := by
      unfold Dom.dim at hd
      simp only at hd
      by_contra h
      apply hd
      rw [if_neg (by omega)]
    subst hz
    have hk : fk = 0 := by omega
    subst hk
    have hr : mgRange 0 1 = [0] := by decide
    simp [hr, hW]

/-- row `f = node(fi,fj,fk)·ndof + dd` of the interpolation matrix sums to one -/
theorem mg_rowsum (cx cy cz ndof fi fj fk dd : ℕ) (hfi : fi ≤ 2 * cx) (hfj : fj ≤ 2 * cy) (hfk : fk ≤ 2 * cz)
    (hdd : dd < ndof) :
    (∑ c' ∈ Finset.range ((Dom.mk cx cy cz).nnodes * ndof),
      mgInterp (α := α) ⟨2 * cx, 2 * cy, 2 * cz⟩ ndof
        ((Dom.mk (2 * cx) (2 * cy) (2 * cz)).nodeNumber fi fj fk * ndof + dd) c') = 1 := by
  have h1 : ∀ c', mgInterp (α := α) ⟨2 * cx, 2 * cy, 2 * cz⟩ ndof
        ((Dom.mk (2 * cx) (2 * cy) (2 * cz)).nodeNumber fi fj fk * ndof + dd) c' =
      lsum (mgTriplets (α := α) ⟨2 * cx, 2 * cy, 2 * cz⟩ ndof) (fun t =>
        if t.1 = (Dom.mk (2 * cx) (2 * cy) (2 * cz)).nodeNumber fi fj fk * ndof + dd ∧ t.2.1 = c' then t.2.2 else 0) := by
    intro c'
    unfold mgInterp
    rw [foldl_add_eq, lsum_filter, zero_add]
    apply lsum_congr
    intro t _
    simp
  simp only [h1]
  rw [sum_lsum_comm, lsum_mgTriplets]
  rw [tripSum_congr _ _ _ _ _ _ (fun a b c d ix iy iz =>
    (if d = dd then (1 : α) else 0) * (if 2 * ix + a - 1 = fi then hW a else 0) *
      (if 2 * iy + b - 1 = fj then hW b else 0) * (if 2 * iz + c - 1 = fk then hW c else 0))]
  · rw [tripSum_factor, lsum_single _ List.nodup_range dd (by simpa using hdd), oneD_partition cx fi hfi,
      oneD_partition cy fj hfj, zdir_partition cx cy cz fk hfk]
    simp
  · intro a ha b hb c hc d hd ix hix iy hiy iz hiz
    have hc' : c ∈ [0, 1, 2] := by
      split at hc
      · exact hc
      · simp only [List.mem_singleton] at hc; subst hc; simp
    rw [List.mem_range] at hd
    rw [mem_mgRange] at hix hiy hiz
    simp only [List.mem_cons, List.mem_nil_iff, or_false] at ha hb hc'
    have bx : 2 * ix + a - 1 ≤ 2 * cx := by rcases ha with rfl | rfl | rfl <;> simp at hix <;> omega
    have by' : 2 * iy + b - 1 ≤ 2 * cy := by rcases hb with rfl | rfl | rfl <;> simp at hiy <;> omega
    have cxb : ix ≤ cx := by rcases ha with rfl | rfl | rfl <;> simp at hix <;> omega
    have cyb : iy ≤ cy := by rcases hb with rfl | rfl | rfl <;> simp at hiy <;> omega
    have czb : iz ≤ cz := by rcases hc' with rfl | rfl | rfl <;> simp at hiz <;> omega
    have hcol : (Dom.mk cx cy cz).nodeNumber ix iy iz * ndof + d < (Dom.mk cx cy cz).nnodes * ndof :=
      radix_lt (C13.nodeNumber_lt _ cxb cyb czb) hd
    have hrow : ((Dom.mk (2 * cx) (2 * cy) (2 * cz)).nodeNumber (2 * ix + a - 1) (2 * iy + b - 1) (2 * iz + c - 1) * ndof + d
          = (Dom.mk (2 * cx) (2 * cy) (2 * cz)).nodeNumber fi fj fk * ndof + dd) ↔
        (d = dd ∧ 2 * ix + a - 1 = fi ∧ 2 * iy + b - 1 = fj ∧ 2 * iz + c - 1 = fk) := by
      constructor
      · intro h
        obtain ⟨hn, hdd'⟩ := radix_inj hd hdd h
        obtain ⟨e1, e2, e3⟩ := C13.nodeNumber_inj _ (by exact bx) (by exact hfi) (by exact by') (by exact hfj) hn
        exact ⟨hdd', e1, e2, e3⟩
      · rintro ⟨rfl, rfl, rfl, rfl⟩; rfl
    have hw : (mgWeight a b c : α) = hW a * hW b * hW c :=
      mgWeight_factor (by simpa using ha) (by simpa using hb) (by simpa using hc')
    show (∑ c' ∈ Finset.range ((Dom.mk cx cy cz).nnodes * ndof), if _ ∧ _ = c' then (mgWeight a b c : α) else 0) = _
    by_cases hr : (Dom.mk (2 * cx) (2 * cy) (2 * cz)).nodeNumber (2 * ix + a - 1) (2 * iy + b - 1) (2 * iz + c - 1) * ndof + d
          = (Dom.mk (2 * cx) (2 * cy) (2 * cz)).nodeNumber fi fj fk * ndof + dd
    · obtain ⟨e0, e1, e2, e3⟩ := hrow.mp hr
      simp only [hr, true_and]
      rw [Finset.sum_ite_eq (Finset.range _) _ (fun _ => (mgWeight a b c : α)), if_pos (Finset.mem_range.mpr hcol),
        if_pos e0, if_pos e1, if_pos e2, if_pos e3, hw]
      ring
    · have hz : ¬(d = dd ∧ 2 * ix + a - 1 = fi ∧ 2 * iy + b - 1 = fj ∧ 2 * iz + c - 1 = fk) := fun h => hr (hrow.mpr h)
      simp only [hr, false_and, if_false, Finset.sum_const_zero]
      by_cases e0 : d = dd
      · by_cases e1 : 2 * ix + a - 1 = fi
        · by_cases e2 : 2 * iy + b - 1 = fj
          · have e3 : ¬(2 * iz + c - 1 = fk) := fun e3 => hz ⟨e0, e1, e2, e3⟩
            rw [if_neg e3, mul_zero]
          · rw [if_neg e2]; ring
        · rw [if_neg e1]; ring
      · rw [if_neg e0]; ring

theorem zdir_linear (cx cy cz fk : ℕ) (hfk : fk ≤ 2 * cz) (al be : α) :
    lsum (if (Dom.mk (2 * cx) (2 * cy) (2 * cz)).dim = 3 then [0, 1, 2] else [1])
      (fun c => lsum (mgRange cz c) (fun iz =>
        if 2 * iz + c - 1 = fk then (hW c : α) * (al + be * ((2 * iz : ℕ) : α)) else 0)) = al + be * (fk : α) := by
  by_cases hd : (Dom.mk (2 * cx) (2 * cy) (2 * cz)).dim = 3
  · rw [if_pos hd]; exact oneD_linear cz fk hfk al be
  · rw [if_neg hd]
    have hz : cz = 0 := by
      unfold Dom.dim at hd
      simp only at hd
      by_contra h
      apply hd
      rw [if_neg (by omega)]
    subst hz
    have hk : fk = 0 := by omega
    subst hk
    have hr : mgRange 0 1 = [0] := by decide
    simp [hr, hW]

/-- a function that is affine in each coordinate of the coarse node position (in fine-grid units `2·i`) -/
def triAffine (cx cy cz : ℕ) (ax bx ay by' az bz : α) (ndof c' : ℕ) : α :=
  (ax + bx * ((2 * (Dom.mk cx cy cz).nodeI (c' / ndof) : ℕ) : α)) *
  (ay + by' * ((2 * (Dom.mk cx cy cz).nodeJ (c' / ndof) : ℕ) : α)) *
  (az + bz * ((2 * (Dom.mk cx cy cz).nodeK (c' / ndof) : ℕ) : α))

/-- row `f = node(fi,fj,fk)·ndof + dd` applied to the coarse nodal values of a tri-affine function gives its value at
    the fine node -/
theorem mg_rowsum_linear (cx cy cz ndof fi fj fk dd : ℕ) (hfi : fi ≤ 2 * cx) (hfj : fj ≤ 2 * cy) (hfk : fk ≤ 2 * cz)
    (hdd : dd < ndof) (ax bx ay by' az bz : α) :
    (∑ c' ∈ Finset.range ((Dom.mk cx cy cz).nnodes * ndof),
      mgInterp (α := α) ⟨2 * cx, 2 * cy, 2 * cz⟩ ndof
        ((Dom.mk (2 * cx) (2 * cy) (2 * cz)).nodeNumber fi fj fk * ndof + dd) c' *
        triAffine cx cy cz ax bx ay by' az bz ndof c') =
      (ax + bx * (fi : α)) * (ay + by' * (fj : α)) * (az + bz * (fk : α)) := by
  have h1 : ∀ c', mgInterp (α := α) ⟨2 * cx, 2 * cy, 2 * cz⟩ ndof
        ((Dom.mk (2 * cx) (2 * cy) (2 * cz)).nodeNumber fi fj fk * ndof + dd) c' *
        triAffine cx cy cz ax bx ay by' az bz ndof c' =
      lsum (mgTriplets (α := α) ⟨2 * cx, 2 * cy, 2 * cz⟩ ndof) (fun t =>
        (if t.1 = (Dom.mk (2 * cx) (2 * cy) (2 * cz)).nodeNumber fi fj fk * ndof + dd ∧ t.2.1 = c' then t.2.2 else 0) *
          triAffine cx cy cz ax bx ay by' az bz ndof c') := by
    intro c'
    unfold mgInterp
    rw [foldl_add_eq, lsum_filter, zero_add, lsum_mul_right]
    congr 1
    apply lsum_congr
    intro t _
    simp
  simp only [h1]
  rw [sum_lsum_comm, lsum_mgTriplets]
  rw [tripSum_congr _ _ _ _ _ _ (fun a b c d ix iy iz =>
    (if d = dd then (1 : α) else 0) * (if 2 * ix + a - 1 = fi then hW a * (ax + bx * ((2 * ix : ℕ) : α)) else 0) *
      (if 2 * iy + b - 1 = fj then hW b * (ay + by' * ((2 * iy : ℕ) : α)) else 0) *
      (if 2 * iz + c - 1 = fk then hW c * (az + bz * ((2 * iz : ℕ) : α)) else 0))]
  · rw [tripSum_factor, lsum_single _ List.nodup_range dd (by simpa using hdd), oneD_linear cx fi hfi,
      oneD_linear cy fj hfj, zdir_linear cx cy cz fk hfk]
    simp
  · intro a ha b hb c hc d hd ix hix iy hiy iz hiz
    have hc' : c ∈ [0, 1, 2] := by
      split at hc
      · exact hc
      · simp only [List.mem_singleton] at hc; subst hc; simp
    rw [List.mem_range] at hd
    rw [mem_mgRange] at hix hiy hiz
    simp only [List.mem_cons, List.mem_nil_iff, or_false] at ha hb hc'
    have bx' : 2 * ix + a - 1 ≤ 2 * cx := by rcases ha with rfl | rfl | rfl <;> simp at hix <;> omega
    have by'' : 2 * iy + b - 1 ≤ 2 * cy := by rcases hb with rfl | rfl | rfl <;> simp at hiy <;> omega
    have cxb : ix ≤ cx := by rcases ha with rfl | rfl | rfl <;> simp at hix <;> omega
    have cyb : iy ≤ cy := by rcases hb with rfl | rfl | rfl <;> simp at hiy <;> omega
    have czb : iz ≤ cz := by rcases hc' with rfl | rfl | rfl <;> simp at hiz <;> omega
    have hcol : (Dom.mk cx cy cz).nodeNumber ix iy iz * ndof + d < (Dom.mk cx cy cz).nnodes * ndof :=
      radix_lt (C13.nodeNumber_lt _ cxb cyb czb) hd
    have hrow : ((Dom.mk (2 * cx) (2 * cy) (2 * cz)).nodeNumber (2 * ix + a - 1) (2 * iy + b - 1) (2 * iz + c - 1) * ndof + d
          = (Dom.mk (2 * cx) (2 * cy) (2 * cz)).nodeNumber fi fj fk * ndof + dd) ↔
        (d = dd ∧ 2 * ix + a - 1 = fi ∧ 2 * iy + b - 1 = fj ∧ 2 * iz + c - 1 = fk) := by
      constructor
      · intro h
        obtain ⟨hn, hdd'⟩ := radix_inj hd hdd h
        obtain ⟨e1, e2, e3⟩ := C13.nodeNumber_inj _ (by exact bx') (by exact hfi) (by exact by'') (by exact hfj) hn
        exact ⟨hdd', e1, e2, e3⟩
      · rintro ⟨rfl, rfl, rfl, rfl⟩; rfl
    have hw : (mgWeight a b c : α) = hW a * hW b * hW c :=
      mgWeight_factor (by simpa using ha) (by simpa using hb) (by simpa using hc')
    have hG : triAffine cx cy cz ax bx ay by' az bz ndof ((Dom.mk cx cy cz).nodeNumber ix iy iz * ndof + d) =
        (ax + bx * ((2 * ix : ℕ) : α)) * (ay + by' * ((2 * iy : ℕ) : α)) * (az + bz * ((2 * iz : ℕ) : α)) := by
      obtain ⟨e1, e2, e3⟩ := C13.nodeIndices_nodeNumber (Dom.mk cx cy cz) (k := iz) (by exact cxb) (by exact cyb)
      unfold triAffine
      rw [radix_div hd, e1, e2, e3]
    show (∑ c' ∈ Finset.range ((Dom.mk cx cy cz).nnodes * ndof),
      (if _ ∧ _ = c' then (mgWeight a b c : α) else 0) * triAffine cx cy cz ax bx ay by' az bz ndof c') = _
    by_cases hr : (Dom.mk (2 * cx) (2 * cy) (2 * cz)).nodeNumber (2 * ix + a - 1) (2 * iy + b - 1) (2 * iz + c - 1) * ndof + d
          = (Dom.mk (2 * cx) (2 * cy) (2 * cz)).nodeNumber fi fj fk * ndof + dd
    · obtain ⟨e0, e1, e2, e3⟩ := hrow.mp hr
      simp only [hr, true_and, ite_mul, zero_mul]
      rw [Finset.sum_ite_eq (Finset.range _) _ (fun c' => (mgWeight a b c : α) * triAffine cx cy cz ax bx ay by' az bz ndof c'),
        if_pos (Finset.mem_range.mpr hcol), if_pos e0, if_pos e1, if_pos e2, if_pos e3, hw, hG]
      ring
    · have hz : ¬(d = dd ∧ 2 * ix + a - 1 = fi ∧ 2 * iy + b - 1 = fj ∧ 2 * iz + c - 1 = fk) := fun h => hr (hrow.mpr h)
      simp only [hr, false_and, if_false, zero_mul, Finset.sum_const_zero]
      by_cases e0 : d = dd
      · by_cases e1 : 2 * ix + a - 1 = fi
        · by_cases e2 : 2 * iy + b - 1 = fj
          · have e3 : ¬(2 * iz + c - 1 = fk) := fun e3 => hz ⟨e0, e1, e2, e3⟩
            rw [if_neg e3, mul_zero]
          · rw [if_neg e2]; ring
        · rw [if_neg e1]; ring
      · rw [if_neg e0]; ring
end assembly

end PymotoVerif.LA
