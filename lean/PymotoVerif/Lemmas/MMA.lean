/- helper lemmas for `Core/MMA.lean`: concatenate/split round trip, approximation algebra, asymptote enclosure, offsets,
   bound expansion, interior invariant of the sub-problem solver, exit condition -/
import PymotoVerif.Core.MMA
import PymotoVerif.Lemmas.DesignVec
import Mathlib.Algebra.Order.Field.Basic
import Mathlib.Tactic.NormNum
import Mathlib.Tactic.NormNum.OfScientific
import Mathlib.Tactic.Linarith
import Mathlib.Tactic.Ring
import Mathlib.Tactic.FieldSimp
import Mathlib.Tactic.LinearCombination
set_option linter.unusedSectionVars false
namespace PymotoVerif.MMA
open PymotoVerif PymotoVerif.DV

/-! ## concatenate / split -/
theorem cumlens_getLast {β} (L : List (List β)) : (cumlens L).getLast? = some (cum L L.length) := by
  unfold cumlens
  rw [List.getLast?_map, List.getLast?_range]
  simp

theorem split_concat {β} (L : List (List β)) : split (concat L) (cumlens L) = .ok L := by
  unfold split
  rw [cumlens_getLast]
  simp only [cum_length, ne_eq, not_true_eq_false, if_false, cumlens_length, Nat.add_sub_cancel]
  have := writeBack_eq_splitBy L (concat L)
  unfold writeBack at this
  rw [this, concat, splitBy_roundtrip]

section Field
variable {α : Type} [Field α] [LinearOrder α] [IsStrictOrderedRing α]

/-! ## approximation -/
theorem dgp_sub_dgm (a : α) : vmax a 0 - vmax (-a) 0 = a := by
  rw [vmax_eq, vmax_eq]
  rcases le_total a 0 with h | h
  · rw [max_eq_right h, max_eq_left (by linarith)]; ring
  · rw [max_eq_left h, max_eq_right (by linarith)]; ring

theorem approxGrad_eq (v : Version) (shift dx xval : Nat → α) (dg : Nat → Nat → α) (i j : Nat)
    (hs : shift j ≠ 0) :
    approxGrad (coefP v shift dx dg) (coefQ v shift dx dg) (fun j => xval j - shift j) (fun j => xval j + shift j)
      i j xval = dg i j := by
  unfold approxGrad coefP coefQ
  have e1 : xval j + shift j - xval j = shift j := by ring
  have e2 : xval j - (xval j - shift j) = shift j := by ring
  simp only [e1, e2]
  have hd := dgp_sub_dgm (dg i j)
  have h1 : (1.001:α) = 1 + 1e-3 := by norm_num
  cases v <;> simp only <;> field_simp
  · exact hd
  · rw [h1]; linear_combination hd
  · rw [h1]; linear_combination hd

theorem sumRange_add (n : Nat) (f g : Nat → α) :
    sumRange n (fun j => f j + g j) = sumRange n f + sumRange n g := by
  induction n with
  | zero => simp [sumRange]
  | succ n ih => simp only [sumRange, ih]; ring

theorem approx_eq (n : Nat) (P Q : Nat → Nat → α) (shift xval g : Nat → α) (i : Nat) :
    approx n P Q (fun j => xval j - shift j) (fun j => xval j + shift j) (rhs n P Q shift g) i xval = g i := by
  unfold approx rhs
  have e : (fun j => P i j / (xval j + shift j - xval j) + Q i j / (xval j - (xval j - shift j))) =
      (fun j => P i j * (1 / shift j) + Q i j * (1 / shift j)) := by
    funext j
    have e1 : xval j + shift j - xval j = shift j := by ring
    have e2 : xval j - (xval j - shift j) = shift j := by ring
    rw [e1, e2]; ring
  rw [e, sumRange_add]; ring

/-! ## asymptotes -/
theorem asymptotes_enclose (albefa : α) (offset dx move xmin xmax xval : Nat → α) (j : Nat)
    (h1 : xmin j ≤ xval j) (h2 : xval j ≤ xmax j) (hdx : 0 < dx j) (ha0 : 0 < albefa) (ha1 : albefa < 1)
    (hm : 0 < move j) (ho : 0 < offset j) :
    let A := asymptotes albefa offset dx move xmin xmax xval
    A.low j < A.alfa j ∧ A.alfa j ≤ xval j ∧ xval j ≤ A.beta j ∧ A.beta j < A.upp j ∧
    xmin j ≤ A.alfa j ∧ A.beta j ≤ xmax j ∧
    xval j - A.alfa j ≤ move j * dx j ∧ A.beta j - xval j ≤ move j * dx j := by
  intro A
  have hs : 0 < offset j * dx j := mul_pos ho hdx
  have hmd : 0 < move j * dx j := mul_pos hm hdx
  have has : albefa * (offset j * dx j) < offset j * dx j := by nlinarith
  have has0 : 0 < albefa * (offset j * dx j) := mul_pos ha0 hs
  simp only [A, asymptotes, vmax_eq, vmin_eq]
  refine ⟨?_, ?_, ?_, ?_, ?_, ?_, ?_, ?_⟩
  · exact lt_of_lt_of_le (by linarith) (le_trans (le_max_left _ _) (le_max_left _ _))
  · exact max_le (max_le (by linarith) (by linarith)) h1
  · exact le_min (le_min (by linarith) (by linarith)) h2
  · exact lt_of_le_of_lt (le_trans (min_le_left _ _) (min_le_left _ _)) (by linarith)
  · exact le_max_right _ _
  · exact min_le_right _ _
  · have : xval j - move j * dx j ≤ max (max (xval j - offset j * dx j + albefa * (offset j * dx j)) (xval j - move j * dx j)) (xmin j) :=
      le_trans (le_max_right _ _) (le_max_left _ _)
    linarith
  · have : min (min (xval j + offset j * dx j - albefa * (offset j * dx j)) (xval j + move j * dx j)) (xmax j) ≤ xval j + move j * dx j :=
      le_trans (min_le_left _ _) (min_le_right _ _)
    linarith

/-- the offsets stay positive: `asyinit > 0` initially, and the clip to `[1/asybound², asybound]` afterwards -/
theorem newOffset_pos (o : Opts α) (mem : Mem α) (xval : Nat → α) (j : Nat)
    (hinit : 0 < o.asyinit) (hb : 0 < o.asybound)
    (hprev : ∀ a, mem.offset = some a → 0 < ofArr a j) : 0 < newOffset o mem xval j := by
  have hlo : 0 < 1 / (o.asybound * o.asybound) := by positivity
  have hclip : ∀ t : α, 0 < clip t (1 / (o.asybound * o.asybound)) o.asybound := by
    intro t; rw [clip_eq]; exact lt_min (lt_of_lt_of_le hlo (le_max_right _ _)) hb
  unfold newOffset
  cases h : mem.offset with
  | none =>
    cases h1 : mem.xold1 with
    | none => exact hinit
    | some x1 =>
      cases h2 : mem.xold2 with
      | none => exact hinit
      | some x2 => exact hclip _
  | some a =>
    cases h1 : mem.xold1 with
    | none => exact hprev a h
    | some x1 =>
      cases h2 : mem.xold2 with
      | none => exact hprev a h
      | some x2 => exact hclip _

/-! ## bounds expansion -/
theorem perSignal_spec (cumulative : Nat → Nat) (vals : Nat → α) (hmono : ∀ a b, a ≤ b → cumulative a ≤ cumulative b)
    (k i j : Nat) (hi : i < k) (h1 : cumulative i ≤ j) (h2 : j < cumulative (i+1)) :
    perSignal cumulative vals k j = vals i := by
  induction k with
  | zero => omega
  | succ k ih =>
    unfold perSignal
    rcases Nat.lt_or_ge i k with h | h
    · have : ¬ (cumulative k ≤ j ∧ j < cumulative (k+1)) := by
        intro ⟨a, _⟩
        have := hmono (i+1) k (by omega)
        omega
      rw [if_neg this]; exact ih h
    · have : i = k := by omega
      subst this
      rw [if_pos ⟨h1, h2⟩]



/-! ## interior invariant of `subsolv` -/

/-- the point is strictly inside: `alfa < x < beta` and all multipliers / slacks positive -/
structure Interior (pb : SubProb α) (p : Pt α) : Prop where
  xlo : ∀ j, j < pb.n → pb.alfa j < ofArr p.x j
  xhi : ∀ j, j < pb.n → ofArr p.x j < pb.beta j
  y : ∀ i, i < pb.m → 0 < ofArr p.y i
  z : 0 < p.z
  lam : ∀ i, i < pb.m → 0 < ofArr p.lam i
  xsi : ∀ j, j < pb.n → 0 < ofArr p.xsi j
  eta : ∀ j, j < pb.n → 0 < ofArr p.eta j
  mu : ∀ i, i < pb.m → 0 < ofArr p.mu i
  zet : 0 < p.zet
  s : ∀ i, i < pb.m → 0 < ofArr p.s i

/-- scalar core of the step-length rule: if `t·(-1.01·d/v) ≤ 1` with `v, t > 0` then `v + t·d > 0` -/
theorem step_pos (v d t : α) (hv : 0 < v) (ht : 0 < t) (h : t * (-1.01 * d / v) ≤ 1) : 0 < v + t * d := by
  have h101 : (1:α) < 1.01 := by norm_num
  have h' : t * (-1.01 * d) ≤ v := by
    have := mul_le_mul_of_nonneg_right h hv.le
    rw [one_mul] at this
    calc t * (-1.01 * d) = t * (-1.01 * d / v) * v := by field_simp
      _ ≤ v := this
  nlinarith

/-- a step length `t` is safe for the point `p` and the direction `dr` -/
structure Safe (pb : SubProb α) (p : Pt α) (dr : Dir α) (t : α) : Prop where
  pos : 0 < t
  xlo : ∀ j, j < pb.n → t * (-1.01 * ofArr dr.dx j / (ofArr p.x j - pb.alfa j)) ≤ 1
  xhi : ∀ j, j < pb.n → t * (1.01 * ofArr dr.dx j / (pb.beta j - ofArr p.x j)) ≤ 1
  y : ∀ i, i < pb.m → t * (-1.01 * ofArr dr.dy i / ofArr p.y i) ≤ 1
  z : t * (-1.01 * dr.dz / p.z) ≤ 1
  lam : ∀ i, i < pb.m → t * (-1.01 * ofArr dr.dlam i / ofArr p.lam i) ≤ 1
  xsi : ∀ j, j < pb.n → t * (-1.01 * ofArr dr.dxsi j / ofArr p.xsi j) ≤ 1
  eta : ∀ j, j < pb.n → t * (-1.01 * ofArr dr.deta j / ofArr p.eta j) ≤ 1
  mu : ∀ i, i < pb.m → t * (-1.01 * ofArr dr.dmu i / ofArr p.mu i) ≤ 1
  zet : t * (-1.01 * dr.dzet / p.zet) ≤ 1
  s : ∀ i, i < pb.m → t * (-1.01 * ofArr dr.ds i / ofArr p.s i) ≤ 1

theorem half_le_one (t r : α) (ht : 0 < t) (h : t * r ≤ 1) : t / 2 * r ≤ 1 := by
  rcases le_total r 0 with hr | hr
  · have : t / 2 * r ≤ 0 := mul_nonpos_of_nonneg_of_nonpos (by linarith) hr
    linarith
  · have : t / 2 * r ≤ t * r := mul_le_mul_of_nonneg_right (by linarith) hr
    linarith

theorem Safe.half (pb : SubProb α) (p : Pt α) (dr : Dir α) (t : α) (h : Safe pb p dr t) : Safe pb p dr (t / 2) :=
  ⟨by linarith [h.pos], fun j hj => half_le_one _ _ h.pos (h.xlo j hj), fun j hj => half_le_one _ _ h.pos (h.xhi j hj),
   fun i hi => half_le_one _ _ h.pos (h.y i hi), half_le_one _ _ h.pos h.z, fun i hi => half_le_one _ _ h.pos (h.lam i hi),
   fun j hj => half_le_one _ _ h.pos (h.xsi j hj), fun j hj => half_le_one _ _ h.pos (h.eta j hj),
   fun i hi => half_le_one _ _ h.pos (h.mu i hi), half_le_one _ _ h.pos h.zet, fun i hi => half_le_one _ _ h.pos (h.s i hi)⟩

/-- a safe step keeps the point strictly inside -/
theorem movePt_interior (pb : SubProb α) (p : Pt α) (dr : Dir α) (t : α) (hp : Interior pb p) (hs : Safe pb p dr t) :
    Interior pb (movePt pb p dr t) := by
  unfold movePt
  refine ⟨?_, ?_, ?_, ?_, ?_, ?_, ?_, ?_, ?_, ?_⟩
  · intro j hj
    dsimp only; rw [ofArr_freeze _ _ j hj]
    have := step_pos (ofArr p.x j - pb.alfa j) (ofArr dr.dx j) t (by linarith [hp.xlo j hj]) hs.pos (hs.xlo j hj)
    linarith
  · intro j hj
    dsimp only; rw [ofArr_freeze _ _ j hj]
    have h := hs.xhi j hj
    have e : t * (1.01 * ofArr dr.dx j / (pb.beta j - ofArr p.x j)) = t * (-1.01 * (-(ofArr dr.dx j)) / (pb.beta j - ofArr p.x j)) := by ring
    rw [e] at h
    have := step_pos (pb.beta j - ofArr p.x j) (-(ofArr dr.dx j)) t (by linarith [hp.xhi j hj]) hs.pos h
    linarith
  · intro i hi; dsimp only; rw [ofArr_freeze _ _ i hi]; exact step_pos _ _ t (hp.y i hi) hs.pos (hs.y i hi)
  · exact step_pos _ _ t hp.z hs.pos hs.z
  · intro i hi; dsimp only; rw [ofArr_freeze _ _ i hi]; exact step_pos _ _ t (hp.lam i hi) hs.pos (hs.lam i hi)
  · intro i hi; dsimp only; rw [ofArr_freeze _ _ i hi]; exact step_pos _ _ t (hp.xsi i hi) hs.pos (hs.xsi i hi)
  · intro i hi; dsimp only; rw [ofArr_freeze _ _ i hi]; exact step_pos _ _ t (hp.eta i hi) hs.pos (hs.eta i hi)
  · intro i hi; dsimp only; rw [ofArr_freeze _ _ i hi]; exact step_pos _ _ t (hp.mu i hi) hs.pos (hs.mu i hi)
  · exact step_pos _ _ t hp.zet hs.pos hs.zet
  · intro i hi; dsimp only; rw [ofArr_freeze _ _ i hi]; exact step_pos _ _ t (hp.s i hi) hs.pos (hs.s i hi)

theorem inv_mul_le_one (M r : α) (hM : 1 ≤ M) (h : r ≤ M) : 1 / M * r ≤ 1 := by
  have hpos : 0 < M := by linarith
  rw [one_div, inv_mul_le_iff₀ hpos]; linarith

theorem neg_min_bound (k : Nat) (f : Nat → α) (i : Nat) (hi : i < k) (d v : α) (hf : f i = d / v) :
    -1.01 * d / v ≤ -1.01 * npMin k f := by
  have h := minUpTo_le f (k - 1) i (by omega)
  have h101 : (0:α) < 1.01 := by norm_num
  unfold npMin
  rw [hf] at h
  have : -1.01 * d / v = -1.01 * (d / v) := by ring
  rw [this]
  nlinarith

theorem pos_max_bound (k : Nat) (f : Nat → α) (i : Nat) (hi : i < k) (d v : α) (hf : f i = d / v) :
    1.01 * d / v ≤ 1.01 * npMax k f := by
  have h := maxUpTo_ge f (k - 1) i (by omega)
  have h101 : (0:α) < 1.01 := by norm_num
  unfold npMax
  rw [hf] at h
  have : 1.01 * d / v = 1.01 * (d / v) := by ring
  rw [this]
  nlinarith

/-- the coded initial step length is safe (the `1.01` factors and the final `max(…, 1)`) -/
theorem stepLength_safe (pb : SubProb α) (p : Pt α) (dr : Dir α) : Safe pb p dr (stepLength pb p dr) := by
  unfold stepLength
  simp only [vmax_eq]
  set stmy := -1.01 * npMin pb.m (fun i => ofArr dr.dy i / ofArr p.y i) with hy
  set stmz := -1.01 * dr.dz / p.z with hz
  set stmlam := -1.01 * npMin pb.m (fun i => ofArr dr.dlam i / ofArr p.lam i) with hlam
  set stmxsi := -1.01 * npMin pb.n (fun j => ofArr dr.dxsi j / ofArr p.xsi j) with hxsi
  set stmeta := -1.01 * npMin pb.n (fun j => ofArr dr.deta j / ofArr p.eta j) with heta
  set stmmu := -1.01 * npMin pb.m (fun i => ofArr dr.dmu i / ofArr p.mu i) with hmu
  set stmzet := -1.01 * dr.dzet / p.zet with hzet
  set stms := -1.01 * npMin pb.m (fun i => ofArr dr.ds i / ofArr p.s i) with hs
  set stmalfa := -1.01 * npMin pb.n (fun j => ofArr dr.dx j / (ofArr p.x j - pb.alfa j)) with halfa
  set stmbeta := 1.01 * npMax pb.n (fun j => ofArr dr.dx j / (pb.beta j - ofArr p.x j)) with hbeta
  set stmxx := max (max (max (max (max (max (max stmy stmz) stmlam) stmxsi) stmeta) stmmu) stmzet) stms with hxx
  set M := max (max (max stmalfa stmbeta) stmxx) 1 with hM
  have hM1 : 1 ≤ M := le_max_right _ _
  have hxxM : stmxx ≤ M := le_trans (le_max_right _ _) (le_max_left _ _)
  have b_alfa : stmalfa ≤ M := le_trans (le_trans (le_max_left _ _) (le_max_left _ _)) (le_max_left _ _)
  have b_beta : stmbeta ≤ M := le_trans (le_trans (le_max_right _ _) (le_max_left _ _)) (le_max_left _ _)
  have b_s : stms ≤ M := le_trans (le_max_right _ _) hxxM
  have b_zet : stmzet ≤ M := le_trans (le_trans (le_max_right _ _) (le_max_left _ _)) hxxM
  have b_mu : stmmu ≤ M := le_trans (le_trans (le_trans (le_max_right _ _) (le_max_left _ _)) (le_max_left _ _)) hxxM
  have b_eta : stmeta ≤ M :=
    le_trans (le_trans (le_trans (le_trans (le_max_right _ _) (le_max_left _ _)) (le_max_left _ _)) (le_max_left _ _)) hxxM
  have b_xsi : stmxsi ≤ M :=
    le_trans (le_trans (le_trans (le_trans (le_trans (le_max_right _ _) (le_max_left _ _)) (le_max_left _ _))
      (le_max_left _ _)) (le_max_left _ _)) hxxM
  have b_lam : stmlam ≤ M :=
    le_trans (le_trans (le_trans (le_trans (le_trans (le_trans (le_max_right _ _) (le_max_left _ _)) (le_max_left _ _))
      (le_max_left _ _)) (le_max_left _ _)) (le_max_left _ _)) hxxM
  have b_z : stmz ≤ M :=
    le_trans (le_trans (le_trans (le_trans (le_trans (le_trans (le_trans (le_max_right _ _) (le_max_left _ _))
      (le_max_left _ _)) (le_max_left _ _)) (le_max_left _ _)) (le_max_left _ _)) (le_max_left _ _)) hxxM
  have b_y : stmy ≤ M :=
    le_trans (le_trans (le_trans (le_trans (le_trans (le_trans (le_trans (le_max_left _ _) (le_max_left _ _))
      (le_max_left _ _)) (le_max_left _ _)) (le_max_left _ _)) (le_max_left _ _)) (le_max_left _ _)) hxxM
  refine ⟨by have : 0 < M := by linarith
             positivity, ?_, ?_, ?_, ?_, ?_, ?_, ?_, ?_, ?_, ?_⟩
  · intro j hj; exact inv_mul_le_one _ _ hM1 (le_trans (neg_min_bound pb.n _ j hj _ _ rfl) b_alfa)
  · intro j hj; exact inv_mul_le_one _ _ hM1 (le_trans (pos_max_bound pb.n _ j hj _ _ rfl) b_beta)
  · intro i hi; exact inv_mul_le_one _ _ hM1 (le_trans (neg_min_bound pb.m _ i hi _ _ rfl) b_y)
  · exact inv_mul_le_one _ _ hM1 b_z
  · intro i hi; exact inv_mul_le_one _ _ hM1 (le_trans (neg_min_bound pb.m _ i hi _ _ rfl) b_lam)
  · intro j hj; exact inv_mul_le_one _ _ hM1 (le_trans (neg_min_bound pb.n _ j hj _ _ rfl) b_xsi)
  · intro j hj; exact inv_mul_le_one _ _ hM1 (le_trans (neg_min_bound pb.n _ j hj _ _ rfl) b_eta)
  · intro i hi; exact inv_mul_le_one _ _ hM1 (le_trans (neg_min_bound pb.m _ i hi _ _ rfl) b_mu)
  · exact inv_mul_le_one _ _ hM1 b_zet
  · intro i hi; exact inv_mul_le_one _ _ hM1 (le_trans (neg_min_bound pb.m _ i hi _ _ rfl) b_s)

/-- the line search returns a strictly interior point -/
theorem lineSearch_interior (sqrt : α → α) (pb : SubProb α) (epsi : α) (old : Pt α) (dr : Dir α) (rn : α)
    (hold : Interior pb old) (k : Nat) (t : α) (ht : Safe pb old dr t) (last : Pt α × List α) (hl : Interior pb last.1) :
    Interior pb (lineSearch sqrt pb epsi old dr rn k t last).1 := by
  induction k generalizing t last with
  | zero => exact hl
  | succ k ih =>
    unfold lineSearch
    dsimp only
    split_ifs
    · exact movePt_interior pb old dr t hold ht
    · exact ih (t / 2) (ht.half) _ (movePt_interior pb old dr t hold ht)

/-- **one Newton pass keeps the point strictly interior**, whatever the linear solver returns -/
theorem newtonStep_interior (sqrt : α → α) (linsolve : Nat → (Nat → Nat → α) → (Nat → α) → Option (Nat → α))
    (pb : SubProb α) (epsi : α) (st st' : NState α) (h : Interior pb st.p)
    (hs : newtonStep sqrt linsolve pb epsi st = .ok st') : Interior pb st'.p := by
  unfold newtonStep at hs
  split at hs
  · exact absurd hs (by simp)
  · rename_i dr _
    dsimp only at hs
    injection hs with hs
    subst hs
    exact lineSearch_interior sqrt pb epsi st.p dr st.residunorm h 400 _ (stepLength_safe pb st.p dr) _ h

theorem newtonLoop_interior (sqrt : α → α) (linsolve : Nat → (Nat → Nat → α) → (Nat → α) → Option (Nat → α))
    (pb : SubProb α) (epsi : α) (k : Nat) (st st' : NState α) (h : Interior pb st.p)
    (hs : newtonLoop sqrt linsolve pb epsi k st = .ok st') : Interior pb st'.p := by
  induction k generalizing st with
  | zero => unfold newtonLoop at hs; injection hs with hs; subst hs; exact h
  | succ k ih =>
    unfold newtonLoop at hs
    split_ifs at hs
    · split at hs
      · exact absurd hs (by simp)
      · rename_i st1 h1
        exact ih st1 (newtonStep_interior sqrt linsolve pb epsi st st1 h h1) hs
    · injection hs with hs; subst hs; exact h

theorem outerLoop_interior (sqrt : α → α) (linsolve : Nat → (Nat → Nat → α) → (Nat → α) → Option (Nat → α))
    (pb : SubProb α) (fuel : Nat) (epsi : α) (acc out : SubOut α) (h : Interior pb acc.p)
    (hs : outerLoop sqrt linsolve pb fuel epsi acc = .ok out) : Interior pb out.p := by
  induction fuel generalizing epsi acc with
  | zero => unfold outerLoop at hs; exact absurd hs (by simp)
  | succ fuel ih =>
    unfold outerLoop at hs
    split_ifs at hs
    · dsimp only at hs
      split at hs
      · exact absurd hs (by simp)
      · rename_i st h1
        exact ih _ _ (newtonLoop_interior sqrt linsolve pb epsi 400 _ st h h1) hs
    · injection hs with hs; subst hs; exact h

/-- the starting point is strictly interior (the `1e-10` clip needs a box wider than `2e-10`) -/
theorem initPt_interior (pb : SubProb α) (x0 : Option (Nat → α))
    (hbox : ∀ j, j < pb.n → pb.alfa j + 1e-10 ≤ pb.beta j - 1e-10) : Interior pb (initPt pb x0) := by
  have he : (0:α) < 1e-10 := by norm_num
  have h5 : (0.5:α) = 1/2 := by norm_num
  have hx : ∀ j, j < pb.n → pb.alfa j < ofArr (initPt pb x0).x j ∧ ofArr (initPt pb x0).x j < pb.beta j := by
    intro j hj
    have hb := hbox j hj
    unfold initPt
    dsimp only
    rw [ofArr_freeze _ _ j hj]
    cases x0 with
    | none => dsimp only; rw [h5]; constructor <;> linarith
    | some x0 =>
      dsimp only
      obtain ⟨a, b⟩ := clip_mem (x0 j) _ _ hb
      constructor <;> linarith
  refine ⟨fun j hj => (hx j hj).1, fun j hj => (hx j hj).2, ?_, ?_, ?_, ?_, ?_, ?_, ?_, ?_⟩
  · intro i hi; unfold initPt; dsimp only; rw [ofArr_freeze _ _ i hi]; exact one_pos
  · unfold initPt; exact one_pos
  · intro i hi; unfold initPt; dsimp only; rw [ofArr_freeze _ _ i hi]; exact one_pos
  · intro j hj; unfold initPt; dsimp only; rw [ofArr_freeze _ _ j hj, vmax_eq]
    exact lt_of_lt_of_le one_pos (le_max_right _ _)
  · intro j hj; unfold initPt; dsimp only; rw [ofArr_freeze _ _ j hj, vmax_eq]
    exact lt_of_lt_of_le one_pos (le_max_right _ _)
  · intro i hi; unfold initPt; dsimp only; rw [ofArr_freeze _ _ i hi, vmax_eq]
    exact lt_of_lt_of_le one_pos (le_max_left _ _)
  · unfold initPt; exact one_pos
  · intro i hi; unfold initPt; dsimp only; rw [ofArr_freeze _ _ i hi]; exact one_pos

theorem subsolv_interior (sqrt : α → α) (linsolve : Nat → (Nat → Nat → α) → (Nat → α) → Option (Nat → α))
    (pb : SubProb α) (x0 : Option (Nat → α)) (fuel : Nat) (out : SubOut α)
    (hbox : ∀ j, j < pb.n → pb.alfa j + 1e-10 ≤ pb.beta j - 1e-10)
    (hs : subsolv sqrt linsolve pb x0 fuel = .ok out) : Interior pb out.p :=
  outerLoop_interior sqrt linsolve pb fuel 1 _ out (initPt_interior pb x0 hbox) hs


/-! ## exit condition of `subsolv` -/

theorem vabs_eq (a : α) : vabs a = |a| := by
  unfold vabs; split_ifs with h
  · exact (abs_of_neg h).symm
  · exact (abs_of_nonneg (not_lt.mp h)).symm

theorem foldl_max_ge (l : List α) (a : α) : a ≤ l.foldl (fun acc w => vmax acc (vabs w)) a ∧
    ∀ r ∈ l, |r| ≤ l.foldl (fun acc w => vmax acc (vabs w)) a := by
  induction l generalizing a with
  | nil => simp
  | cons v rest ih =>
    simp only [List.foldl_cons, List.mem_cons]
    obtain ⟨h1, h2⟩ := ih (vmax a (vabs v))
    rw [vmax_eq, vabs_eq] at h1 h2 ⊢
    refine ⟨le_trans (le_max_left _ _) h1, ?_⟩
    rintro r (rfl | hr)
    · exact le_trans (le_max_right _ _) h1
    · exact h2 r hr

theorem mem_le_maxAbsL (l : List α) (r : α) (h : r ∈ l) : |r| ≤ maxAbsL l := by
  cases l with
  | nil => simp at h
  | cons v rest =>
    show |r| ≤ List.foldl (fun acc w => vmax acc (vabs w)) (vabs v) rest
    obtain ⟨h1, h2⟩ := foldl_max_ge rest (vabs v)
    rcases List.mem_cons.mp h with rfl | hr
    · rw [← vabs_eq]; exact h1
    · exact h2 r hr

theorem lineSearch_residual (sqrt : α → α) (pb : SubProb α) (epsi : α) (old : Pt α) (dr : Dir α) (rn : α)
    (k : Nat) (t : α) (last : Pt α × List α) :
    (lineSearch sqrt pb epsi old dr rn (k+1) t last).2 =
      residual pb epsi (lineSearch sqrt pb epsi old dr rn (k+1) t last).1 := by
  induction k generalizing t last with
  | zero =>
    unfold lineSearch; dsimp only
    split_ifs
    · rfl
    · unfold lineSearch; rfl
  | succ k ih =>
    unfold lineSearch; dsimp only
    split_ifs
    · rfl
    · exact ih _ _

/-- the loop state carries the residual maximum of its own point -/
def NInv (pb : SubProb α) (epsi : α) (st : NState α) : Prop := st.residumax = maxAbsL (residual pb epsi st.p)

theorem newtonStep_inv (sqrt : α → α) (linsolve : Nat → (Nat → Nat → α) → (Nat → α) → Option (Nat → α))
    (pb : SubProb α) (epsi : α) (st st' : NState α) (hs : newtonStep sqrt linsolve pb epsi st = .ok st') :
    NInv pb epsi st' ∧ st'.ittt = st.ittt + 1 := by
  unfold newtonStep at hs
  split at hs
  · exact absurd hs (by simp)
  · rename_i dr _
    dsimp only at hs
    injection hs with hs
    subst hs
    refine ⟨?_, rfl⟩
    unfold NInv
    dsimp only
    rw [lineSearch_residual]

theorem newtonLoop_exit (sqrt : α → α) (linsolve : Nat → (Nat → Nat → α) → (Nat → α) → Option (Nat → α))
    (pb : SubProb α) (epsi : α) (k : Nat) (st st' : NState α) (h : NInv pb epsi st)
    (hs : newtonLoop sqrt linsolve pb epsi k st = .ok st') :
    NInv pb epsi st' ∧ (st'.residumax ≤ 0.9 * epsi ∨ st'.ittt = st.ittt + k) := by
  induction k generalizing st with
  | zero => unfold newtonLoop at hs; injection hs with hs; subst hs; exact ⟨h, Or.inr rfl⟩
  | succ k ih =>
    unfold newtonLoop at hs
    split_ifs at hs with hc
    · split at hs
      · exact absurd hs (by simp)
      · rename_i st1 h1
        obtain ⟨i1, i2⟩ := newtonStep_inv sqrt linsolve pb epsi st st1 h1
        obtain ⟨a, b⟩ := ih st1 i1 hs
        refine ⟨a, ?_⟩
        rcases b with b | b
        · exact Or.inl b
        · right; rw [b, i2]; omega
    · injection hs with hs; subst hs; exact ⟨h, Or.inl (not_lt.mp hc)⟩

/-- what the outer loop knows about its accumulator when it is about to test `epsi > epsimin` -/
def OInv (pb : SubProb α) (epsi : α) (acc : SubOut α) : Prop :=
  acc.outer = 0 ∨
  (epsi = acc.epsiLast / 10 ∧ pb.epsimin < acc.epsiLast ∧
   acc.residumax = maxAbsL (residual pb acc.epsiLast acc.p) ∧
   (acc.residumax ≤ 0.9 * acc.epsiLast ∨ acc.itttLast = 400))

theorem outerLoop_exit (sqrt : α → α) (linsolve : Nat → (Nat → Nat → α) → (Nat → α) → Option (Nat → α))
    (pb : SubProb α) (fuel : Nat) (epsi : α) (acc out : SubOut α) (h : OInv pb epsi acc)
    (hs : outerLoop sqrt linsolve pb fuel epsi acc = .ok out) :
    out.outer = 0 ∨
    (out.epsiLast / 10 ≤ pb.epsimin ∧ pb.epsimin < out.epsiLast ∧
     out.residumax = maxAbsL (residual pb out.epsiLast out.p) ∧
     (out.residumax ≤ 0.9 * out.epsiLast ∨ out.itttLast = 400)) := by
  induction fuel generalizing epsi acc with
  | zero => unfold outerLoop at hs; exact absurd hs (by simp)
  | succ fuel ih =>
    unfold outerLoop at hs
    split_ifs at hs with hc
    · dsimp only at hs
      split at hs
      · exact absurd hs (by simp)
      · rename_i st h1
        obtain ⟨a, b⟩ := newtonLoop_exit sqrt linsolve pb epsi 400 _ st (by unfold NInv; rfl) h1
        refine ih _ _ ?_ hs
        right
        refine ⟨rfl, hc, a, ?_⟩
        rcases b with b | b
        · exact Or.inl b
        · right; simpa using b
    · injection hs with hs; subst hs
      rcases h with h | ⟨e, h2, h3, h4⟩
      · exact Or.inl h
      · right; exact ⟨by rw [← e]; exact not_lt.mp hc, h2, h3, h4⟩


end Field

/-! ## MMA write-back -/
theorem cum_le_total {β} (L : List (List β)) (i : Nat) : cum L i ≤ (concat L).length := by
  induction L generalizing i with
  | nil => simp [cum, concat]
  | cons s rest ih =>
    cases i with
    | zero => simp [cum]
    | succ i =>
      have := ih i
      simp only [cum, concat, List.flatten_cons, List.length_append] at this ⊢
      omega

theorem slice_one {β} [OfNat β 0] (v : List β) (a b : Nat) (h : b - a = 1) (hb : b ≤ v.length) :
    [v.getD a 0] = slice v a b := by
  unfold slice
  rw [h]
  have ha : a < v.length := by omega
  rw [List.getD_eq_getElem?_getD, List.getElem?_eq_getElem ha]
  simp only [Option.getD_some]
  rw [List.take_one_drop_eq_of_lt_length ha]
  rfl

/-- the flattened MMA write-back is the slice write-back -/
theorem writeBackMMA_flat {β} [OfNat β 0] (L : List (List β)) (v : List β) (h : v.length = (concat L).length) :
    (writeBackMMA v (cumlens L) L.length).map St.flat = writeBack v (cumlens L) L.length := by
  unfold writeBackMMA writeBack
  rw [List.map_map]
  apply List.map_congr_left
  intro i hi
  have hi' : i < L.length := List.mem_range.mp hi
  simp only [Function.comp]
  split_ifs with hc
  · simp only [St.flat]
    apply slice_one _ _ _ hc
    rw [cumlens_getD L (i+1) (by omega), h]
    exact cum_le_total L (i+1)
  · rfl

theorem writeBackMMA_kind {β} [OfNat β 0] (L : List (List β)) (v : List β) (i : Nat) (hi : i < L.length) :
    ∃ st, (writeBackMMA v (cumlens L) L.length)[i]? = some st ∧
      ((L.getD i []).length = 1 → ∃ x, st = .scalar x) ∧ ((L.getD i []).length ≠ 1 → ∃ l, st = .arr l) := by
  unfold writeBackMMA
  rw [List.getElem?_map, List.getElem?_range hi]
  simp only [Option.map_some]
  have e : (cumlens L).getD (i+1) 0 - (cumlens L).getD i 0 = (L.getD i []).length := by
    rw [cumlens_getD L i (by omega), cumlens_getD L (i+1) (by omega), cum_succ L i hi]; omega
  refine ⟨_, rfl, ?_, ?_⟩
  · intro h1; rw [e, if_pos h1]; exact ⟨_, rfl⟩
  · intro h1; rw [e, if_neg h1]; exact ⟨_, rfl⟩


end PymotoVerif.MMA
