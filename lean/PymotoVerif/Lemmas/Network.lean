/- helper lemmas tying the executable model `Core/Network.lean` to the abstract reverse-mode
   kernel `Lemmas/Backprop.lean` -/
import PymotoVerif.Core.Network
import PymotoVerif.Lemmas.Sum
import PymotoVerif.Lemmas.Backprop
import Mathlib.Data.List.GetD
import Mathlib.Data.List.Basic
import Mathlib.Data.List.Nodup

namespace PymotoVerif.Net
open Finset

/-! ### sequential writes -/

theorem writeFrom_not_mem {α} (es : List Nat) (j : Nat) (v f : Nat → α) (i : Nat) (h : i ∉ es) :
    writeFrom es j v f i = f i := by
  induction es generalizing j f with
  | nil => rfl
  | cons e t ih =>
    simp only [List.mem_cons, not_or] at h
    simp only [writeFrom]
    rw [ih _ _ h.2]; simp [h.1]

theorem writeFrom_mem {α} (es : List Nat) (hn : es.Nodup) (j : Nat) (v f : Nat → α) (i : Nat)
    (h : i ∈ es) : writeFrom es j v f i = v (j + es.idxOf i) := by
  induction es generalizing j f with
  | nil => simp at h
  | cons e t ih =>
    have hn' := List.nodup_cons.mp hn
    simp only [writeFrom]
    by_cases hit : i ∈ t
    · have hie : e ≠ i := fun he => hn'.1 (he ▸ hit)
      rw [ih hn'.2 _ _ hit, List.idxOf_cons_ne _ hie]
      congr 1; omega
    · have hie : i = e := (List.mem_cons.mp h).resolve_right hit
      rw [writeFrom_not_mem _ _ _ _ _ hit]; subst hie; simp

theorem getD_idxOf (es : List Nat) (i : Nat) (h : i ∈ es) : es.getD (es.idxOf i) 0 = i := by
  rw [List.getD_eq_getElem _ _ (List.idxOf_lt_length_of_mem h)]
  exact List.getElem_idxOf _

/-- scatter of position-indexed data through a duplicate-free entry list -/
theorem sum_pos_eq {α} [AddCommMonoid α] (es : List Nat) (hn : es.Nodup) (d : Nat → α) (i : Nat) :
    ∑ c ∈ range es.length, (if es.getD c 0 = i then d c else 0)
      = if i ∈ es then d (es.idxOf i) else 0 := by
  by_cases h : i ∈ es
  · rw [if_pos h, Finset.sum_eq_single (es.idxOf i)]
    · rw [getD_idxOf es i h, if_pos rfl]
    · intro c hc hne
      have hc' : c < es.length := Finset.mem_range.mp hc
      rw [if_neg]
      intro he
      apply hne
      rw [List.getD_eq_getElem _ _ hc'] at he
      rw [← he]; exact (hn.idxOf_getElem c hc').symm
    · intro hnot
      exact absurd (Finset.mem_range.mpr (List.idxOf_lt_length_of_mem h)) hnot
  · rw [if_neg h]
    apply Finset.sum_eq_zero
    intro c hc
    have hc' : c < es.length := Finset.mem_range.mp hc
    rw [if_neg]
    intro he
    apply h
    rw [List.getD_eq_getElem _ _ hc'] at he
    rw [← he]; exact List.getElem_mem hc'

/-- `get / += / set back` through a duplicate-free entry list adds `d` position-wise -/
theorem writeFrom_add {α} [AddCommMonoid α] (es : List Nat) (hn : es.Nodup) (d f : Nat → α) (i : Nat) :
    writeFrom es 0 (fun j => f (es.getD j 0) + d j) f i
      = f i + ∑ c ∈ range es.length, (if es.getD c 0 = i then d c else 0) := by
  rw [sum_pos_eq es hn]
  by_cases h : i ∈ es
  · rw [writeFrom_mem es hn _ _ _ _ h, if_pos h, Nat.zero_add, getD_idxOf es i h]
  · rw [writeFrom_not_mem _ _ _ _ _ h, if_neg h, add_zero]


theorem writeFrom_const {α} (es : List Nat) (j : Nat) (a : α) (f : Nat → α) (i : Nat) :
    writeFrom es j (fun _ => a) f i = if i ∈ es then a else f i := by
  induction es generalizing j f with
  | nil => simp [writeFrom]
  | cons e t ih =>
    simp only [writeFrom]
    rw [ih]
    by_cases h1 : i ∈ t
    · simp [h1]
    · by_cases h2 : i = e
      · simp [h2]
      · simp [h1, h2]

/-- scatter-add of position-indexed data `d` through the entry list `es` -/
def scat {α} [AddCommMonoid α] (es : List Nat) (d : Nat → α) (i : Nat) : α :=
  ∑ c ∈ range es.length, (if es.getD c 0 = i then d c else 0)

theorem scat_not_mem {α} [AddCommMonoid α] (es : List Nat) (d : Nat → α) (i : Nat) (h : i ∉ es) :
    scat es d i = 0 := by
  unfold scat
  apply Finset.sum_eq_zero
  intro c hc
  have hc' : c < es.length := Finset.mem_range.mp hc
  rw [if_neg]
  intro he
  apply h
  rw [List.getD_eq_getElem _ _ hc'] at he
  rw [← he]; exact List.getElem_mem hc'

theorem scat_append {α} [AddCommMonoid α] (a b : List Nat) (d : Nat → α) (i : Nat) :
    scat (a ++ b) d i = scat a d i + scat b (fun c => d (a.length + c)) i := by
  unfold scat
  rw [List.length_append, Finset.sum_range_add]
  congr 1
  · apply Finset.sum_congr rfl
    intro c hc
    rw [List.getD_append _ _ _ _ (Finset.mem_range.mp hc)]
  · apply Finset.sum_congr rfl
    intro c _
    rw [List.getD_append_right _ _ _ _ (Nat.le_add_right _ _), Nat.add_sub_cancel_left]

/-! ### well-formedness and the "None ≡ 0" invariant -/

/-- different base signals own different entries -/
structure Layout.WF (L : Layout) : Prop where
  disj : ∀ b b', b ≠ b' → ∀ e, e ∈ L.bents b → e ∉ L.bents b'

/-- a signal selects duplicate-free entries of its base; a plain signal selects all of them -/
structure Sig.WF (L : Layout) (s : Sig) : Prop where
  sub : ∀ e ∈ s.ents, e ∈ L.bents s.base
  nodup : s.ents.Nodup
  plain : s.isSlice = false → s.ents = L.bents s.base

/-- a base whose sensitivity is `None` holds zeros in the model's flat sensitivity vector -/
def Clean {α} [Zero α] (L : Layout) (σ : Store α) : Prop :=
  ∀ b, σ.hasSe b = false → ∀ e ∈ L.bents b, σ.se e = 0

section
variable {α : Type} [CommRing α]

theorem addSensT_spec (L : Layout) (hL : L.WF) (s : Sig) (hs : s.WF L) (σ : Store α) (hc : Clean L σ)
    (d : Nat → α) :
    (addSensT L s d σ).se = (fun i => σ.se i + scat s.ents d i) ∧ Clean L (addSensT L s d σ) ∧
    (addSensT L s d σ).st = σ.st ∧ (addSensT L s d σ).hasSt = σ.hasSt ∧
    (addSensT L s d σ).hasSe = setB σ.hasSe s.base true := by
  have hse : (addSensT L s d σ).se = (fun i => σ.se i + scat s.ents d i) := by
    funext i
    unfold addSensT
    by_cases hsl : s.isSlice = true
    · by_cases hh : σ.hasSe s.base = true
      · simp only [hsl, hh, if_true]
        exact writeFrom_add s.ents hs.nodup d σ.se i
      · have hz : writeFrom (L.bents s.base) 0 (fun _ => (0:α)) σ.se = σ.se := by
          funext k
          rw [writeFrom_const]
          split_ifs with hk
          · exact (hc s.base (by simpa using hh) k hk).symm
          · rfl
        simp only [hsl, hh, if_true, hz]
        exact writeFrom_add s.ents hs.nodup d σ.se i
    · by_cases hh : σ.hasSe s.base = true
      · simp only [hsl, hh, if_true]
        exact writeFrom_add s.ents hs.nodup d σ.se i
      · simp only [hsl, hh]
        simp only [Bool.false_eq_true, if_false]
        unfold scat
        rw [sum_pos_eq s.ents hs.nodup]
        by_cases hi : i ∈ s.ents
        · rw [writeFrom_mem s.ents hs.nodup _ _ _ _ hi, if_pos hi,
            hc s.base (by simpa using hh) i (hs.sub i hi)]
          simp
        · rw [writeFrom_not_mem _ _ _ _ _ hi, if_neg hi, add_zero]
  have hst : (addSensT L s d σ).st = σ.st := by
    unfold addSensT; split_ifs <;> rfl
  have hhs : (addSensT L s d σ).hasSt = σ.hasSt := by
    unfold addSensT; split_ifs <;> rfl
  have hhe : (addSensT L s d σ).hasSe = setB σ.hasSe s.base true := by
    funext b
    unfold addSensT setB
    split_ifs <;> simp_all
  refine ⟨hse, ?_, hst, hhs, hhe⟩
  intro b hb e he
  rw [hhe] at hb
  unfold setB at hb
  have hbne : b ≠ s.base := by
    intro h; simp [h] at hb
  simp only [hbne, if_false] at hb
  rw [hse]
  have hnot : e ∉ s.ents := fun hm => hL.disj b s.base hbne e he (hs.sub e hm)
  simp only [scat_not_mem _ _ _ hnot, add_zero]
  exact hc b hb e he

theorem addAll_spec (L : Layout) (hL : L.WF) (ins : List Sig) (hins : ∀ s ∈ ins, s.WF L)
    (σ : Store α) (hc : Clean L σ) (hst : ∀ s ∈ ins, σ.hasSt s.base = true) (off : Nat) (d : Nat → α) :
    ∃ σ', addAll L ins off d σ = .ok σ' ∧
      σ'.se = (fun i => σ.se i + scat (entsOf ins) (fun c => d (off + c)) i) ∧ Clean L σ' ∧
      σ'.st = σ.st ∧ σ'.hasSt = σ.hasSt := by
  induction ins generalizing σ off with
  | nil =>
    refine ⟨σ, rfl, ?_, hc, rfl, rfl⟩
    funext i; simp [entsOf, scat]
  | cons s ss ih =>
    have hs := hins s (by simp)
    obtain ⟨h1, h2, h3, h4, _⟩ := addSensT_spec L hL s hs σ hc (fun j => d (off + j))
    have hst' : ∀ s' ∈ ss, (addSensT L s (fun j => d (off + j)) σ).hasSt s'.base = true := by
      intro s' hs'; rw [h4]; exact hst s' (by simp [hs'])
    obtain ⟨σ', e1, e2, e3, e4, e5⟩ := ih (fun s' hs' => hins s' (by simp [hs'])) _ h2 hst' (off + s.ents.length)
    refine ⟨σ', ?_, ?_, e3, by rw [e4, h3], by rw [e5, h4]⟩
    · simp only [addAll, addSens, hst s (by simp)]
      simp only [Bool.not_true, Bool.and_false, Bool.false_eq_true, if_false]
      exact e1
    · rw [e2, h1]
      funext i
      have : entsOf (s :: ss) = s.ents ++ entsOf ss := by simp [entsOf]
      rw [this, scat_append]
      simp only [add_assoc]

/-- under `Clean`, the concatenated seed (None → zeros) is the flat sensitivity vector read at the
    output entries -/
theorem seedFlat_eq (L : Layout) (outs : List Sig) (houts : ∀ s ∈ outs, s.WF L) (σ : Store α)
    (hc : Clean L σ) (r : Nat) (hr : r < (entsOf outs).length) :
    seedFlat outs (outs.map (·.ents.length)) σ r = σ.se ((entsOf outs).getD r 0) := by
  induction outs generalizing r with
  | nil => simp [entsOf] at hr
  | cons s ss ih =>
    have hE : entsOf (s :: ss) = s.ents ++ entsOf ss := by simp [entsOf]
    rw [hE] at hr ⊢
    simp only [List.map_cons, seedFlat]
    by_cases h : r < s.ents.length
    · rw [if_pos h, List.getD_append _ _ _ _ h]
      by_cases hh : s.hasSens σ = true
      · rw [if_pos hh]
      · rw [if_neg hh]
        have hs := houts s (by simp)
        have hm : s.ents.getD r 0 ∈ s.ents := by
          rw [List.getD_eq_getElem _ _ h]; exact List.getElem_mem h
        exact (hc s.base (by simpa [Sig.hasSens] using hh) _ (hs.sub _ hm)).symm
    · rw [if_neg h, List.getD_append_right _ _ _ _ (Nat.le_of_not_lt h)]
      apply ih (fun s' hs' => houts s' (by simp [hs']))
      rw [List.length_append] at hr; omega

/-! ### local Jacobians of the kinds and the local adjoint law -/

/-- `∂ (output r) / ∂ (input c)` of the flat map of a kind at the input `x` -/
def Kind.jac : Kind α → Nat → (Nat → α) → Nat → Nat → α
  | .lin _ A, _, _ => fun r c => A r c
  | .mul, n, x => fun r c =>
      if c < n / 2 then (if c = r then x (n / 2 + c) else 0) else (if c - n / 2 = r then x (c - n / 2) else 0)
  | .dot, n, x => fun _ c => if c < n / 2 then x (n / 2 + c) else x (c - n / 2)
  | .sq, _, x => fun r c => if c = r then x c + x c else 0
  | .fan _, n, _ => fun r c => if r % n = c then 1 else 0
  | .cat, _, _ => fun r c => if r = c then 1 else 0
  | .sink, _, _ => fun _ _ => 0

/-- size side condition of a kind (the two halves of `mul` / `dot`) -/
def Kind.sized : Kind α → Nat → Prop
  | .mul, n => n % 2 = 0
  | .dot, n => n % 2 = 0
  | _, _ => True

theorem sum_fan (k n c : Nat) (hc : c < n) (w : Nat → α) :
    ∑ r ∈ range (k * n), (if r % n = c then (1:α) else 0) * w r = ∑ q ∈ range k, w (q * n + c) := by
  induction k with
  | zero => simp
  | succ k ih =>
    rw [Nat.succ_mul, Finset.sum_range_add, ih, Finset.sum_range_succ]
    congr 1
    have : ∀ j ∈ range n, (if (k * n + j) % n = c then (1:α) else 0) * w (k * n + j)
        = if c = j then w (k * n + j) else 0 := by
      intro j hj
      have hj' : j < n := Finset.mem_range.mp hj
      rw [Nat.mul_add_mod_of_lt hj']
      by_cases h : j = c
      · subst h; simp
      · have h' : ¬ c = j := fun e => h e.symm
        simp [h, h']
    rw [Finset.sum_congr rfl this, Finset.sum_ite_eq]
    simp [hc]

/-- the coded adjoint of every kind is the transposed Jacobian applied to the seed -/
theorem Kind.adj_eq (k : Kind α) (n : Nat) (hk : k.sized n) (x w : Nat → α) (c : Nat) (hc : c < n) :
    k.adj n x w c = ∑ r ∈ range (k.nOut n), k.jac n x r c * w r := by
  cases k with
  | lin rows A => simp only [Kind.adj, Kind.nOut, Kind.jac, sumRange_eq]
  | mul =>
    simp only [Kind.adj, Kind.nOut, Kind.jac]
    have hn : n % 2 = 0 := hk
    by_cases h : c < n / 2
    · simp only [h, if_true, ite_mul, zero_mul]
      rw [Finset.sum_ite_eq]; simp [h]
    · simp only [h, if_false, ite_mul, zero_mul]
      rw [Finset.sum_ite_eq]
      have : c - n / 2 < n / 2 := by omega
      simp [this]
  | dot =>
    simp only [Kind.adj, Kind.nOut, Kind.jac, Finset.sum_range_one]
    split_ifs <;> rfl
  | sq =>
    simp only [Kind.adj, Kind.nOut, Kind.jac, ite_mul, zero_mul]
    rw [Finset.sum_ite_eq]; simp [hc]; ring
  | fan q =>
    simp only [Kind.adj, Kind.nOut, Kind.jac, sumRange_eq]
    rw [sum_fan q n c hc]
  | cat =>
    simp only [Kind.adj, Kind.nOut, Kind.jac, ite_mul, one_mul, zero_mul]
    rw [Finset.sum_ite_eq']; simp [hc]
  | sink => simp [Kind.adj, Kind.nOut, Kind.jac]

/-- with zero seeds every kind's adjoint is zero -/
theorem Kind.adj_zero (k : Kind α) (n : Nat) (x : Nat → α) (c : Nat) :
    k.adj n x (fun _ => 0) c = 0 := by
  cases k <;> simp [Kind.adj, sumRange_eq]

/-! ### one module: `Module.sensitivity` is `LMod.back` of the linearised module -/

structure Prim.WF (L : Layout) (p : Prim α) : Prop where
  ins : ∀ s ∈ p.ins, s.WF L
  outs : ∀ s ∈ p.outs, s.WF L
  osz : p.outSizes = p.outs.map (·.ents.length)
  nout : p.kind.nOut p.nIn = (entsOf p.outs).length
  sized : p.kind.sized p.nIn

/-- the linearisation of a primitive module at the states `st`, at entry granularity: it writes the
    entries of its outputs; `J o e` sums the kind's local Jacobian over all positions at which the
    entries `o` / `e` occur in the output / input lists (a signal listed twice contributes twice) -/
def Prim.lmod (p : Prim α) (st : Nat → α) : LMod Nat α where
  outs := (entsOf p.outs).toFinset
  J := fun o e => ∑ r ∈ range (entsOf p.outs).length, ∑ c ∈ range p.nIn,
    if (entsOf p.outs).getD r 0 = o ∧ (entsOf p.ins).getD c 0 = e
    then p.kind.jac p.nIn (fun c => st ((entsOf p.ins).getD c 0)) r c else 0

theorem getD_mem_toFinset (l : List Nat) (r : Nat) (hr : r < l.length) : l.getD r 0 ∈ l.toFinset := by
  rw [List.mem_toFinset, List.getD_eq_getElem _ _ hr]; exact List.getElem_mem hr

theorem back_eq (p : Prim α) (st se w : Nat → α)
    (hw : ∀ r, r < (entsOf p.outs).length → w r = se ((entsOf p.outs).getD r 0))
    (hn : p.kind.nOut p.nIn = (entsOf p.outs).length) (hk : p.kind.sized p.nIn) (i : Nat) :
    scat (entsOf p.ins) (fun c => p.kind.adj p.nIn (fun c => st ((entsOf p.ins).getD c 0)) w c) i
      = ∑ o ∈ (p.lmod st).outs, (p.lmod st).J o i * se o := by
  unfold scat
  simp only [Prim.lmod]
  have hR : ∀ o ∈ (entsOf p.outs).toFinset,
      (∑ r ∈ range (entsOf p.outs).length, ∑ c ∈ range p.nIn,
        if (entsOf p.outs).getD r 0 = o ∧ (entsOf p.ins).getD c 0 = i
        then p.kind.jac p.nIn (fun c => st ((entsOf p.ins).getD c 0)) r c else 0) * se o
      = ∑ r ∈ range (entsOf p.outs).length, ∑ c ∈ range p.nIn,
        if (entsOf p.outs).getD r 0 = o then
          (if (entsOf p.ins).getD c 0 = i
            then p.kind.jac p.nIn (fun c => st ((entsOf p.ins).getD c 0)) r c * se o else 0) else 0 := by
    intro o _
    rw [Finset.sum_mul]; apply Finset.sum_congr rfl; intro r _
    rw [Finset.sum_mul]; apply Finset.sum_congr rfl; intro c _
    by_cases h1 : (entsOf p.outs).getD r 0 = o
    · by_cases h2 : (entsOf p.ins).getD c 0 = i
      · rw [if_pos ⟨h1, h2⟩, if_pos h1, if_pos h2]
      · rw [if_neg (fun h => h2 h.2), if_pos h1, if_neg h2, zero_mul]
    · rw [if_neg (fun h => h1 h.1), if_neg h1, zero_mul]
  rw [Finset.sum_congr rfl hR, Finset.sum_comm]
  have hI : ∀ r ∈ range (entsOf p.outs).length,
      (∑ o ∈ (entsOf p.outs).toFinset, ∑ c ∈ range p.nIn,
        if (entsOf p.outs).getD r 0 = o then
          (if (entsOf p.ins).getD c 0 = i
            then p.kind.jac p.nIn (fun c => st ((entsOf p.ins).getD c 0)) r c * se o else 0) else 0)
      = ∑ c ∈ range p.nIn, if (entsOf p.ins).getD c 0 = i
          then p.kind.jac p.nIn (fun c => st ((entsOf p.ins).getD c 0)) r c * w r else 0 := by
    intro r hr
    have hr' : r < (entsOf p.outs).length := Finset.mem_range.mp hr
    rw [Finset.sum_comm]; apply Finset.sum_congr rfl; intro c _
    rw [Finset.sum_ite_eq, if_pos (getD_mem_toFinset _ r hr'), hw r hr']
  rw [Finset.sum_congr rfl hI, Finset.sum_comm]
  apply Finset.sum_congr rfl; intro c hc
  have hc' : c < p.nIn := Finset.mem_range.mp hc
  by_cases h2 : (entsOf p.ins).getD c 0 = i
  · simp only [h2, if_true]
    rw [Kind.adj_eq p.kind p.nIn hk _ _ c hc', hn]
  · rw [if_neg h2]
    symm; apply Finset.sum_eq_zero; intro r _; rw [if_neg h2]

/-- the body of `Module.sensitivity` after the skip test (i.e. run with `None` seeds read as zeros) -/
def Prim.sensitivityNoSkip (L : Layout) (p : Prim α) (σ : Store α) : Except String (Store α) :=
  if p.ins.any (fun s => !s.hasState σ) then .error "TypeError"
  else addAll L p.ins 0 (p.kind.adj p.nIn (p.x σ) (seedFlat p.outs p.outSizes σ)) σ

theorem Prim.noskip_spec (L : Layout) (hL : L.WF) (p : Prim α) (hp : p.WF L) (σ σ' : Store α)
    (hc : Clean L σ) (h : p.sensitivityNoSkip L σ = .ok σ') :
    σ'.se = (p.lmod σ.st).back σ.se ∧ Clean L σ' ∧ σ'.st = σ.st ∧ σ'.hasSt = σ.hasSt := by
  unfold Prim.sensitivityNoSkip at h
  by_cases hany : p.ins.any (fun s => !s.hasState σ) = true
  · rw [if_pos hany] at h; cases h
  · rw [if_neg hany] at h
    have hst : ∀ s ∈ p.ins, σ.hasSt s.base = true := by
      intro s hs
      by_contra hcon
      apply hany
      rw [List.any_eq_true]
      exact ⟨s, hs, by simpa [Sig.hasState] using hcon⟩
    obtain ⟨σ2, e1, e2, e3, e4, e5⟩ := addAll_spec L hL p.ins hp.ins σ hc hst 0
      (p.kind.adj p.nIn (p.x σ) (seedFlat p.outs p.outSizes σ))
    rw [e1] at h
    cases h
    refine ⟨?_, e3, e4, e5⟩
    rw [e2]
    funext i
    unfold LMod.back
    congr 1
    simp only [Nat.zero_add]
    have hw : ∀ r, r < (entsOf p.outs).length →
        seedFlat p.outs p.outSizes σ r = σ.se ((entsOf p.outs).getD r 0) := by
      intro r hr; rw [hp.osz]; exact seedFlat_eq L p.outs hp.outs σ hc r hr
    exact back_eq p σ.st σ.se _ hw hp.nout hp.sized i

/-- a skipped module has zero sensitivities on all its output entries -/
theorem Prim.skip_zero (L : Layout) (p : Prim α) (hp : p.WF L) (σ : Store α) (hc : Clean L σ)
    (hs : p.skip σ = true) : ∀ o ∈ (p.lmod σ.st).outs, σ.se o = 0 := by
  intro o ho
  simp only [Prim.lmod, List.mem_toFinset, entsOf, List.mem_flatMap] at ho
  obtain ⟨s, hs1, hs2⟩ := ho
  unfold Prim.skip at hs
  simp only [Bool.and_eq_true, List.all_eq_true] at hs
  have := hs.2 s hs1
  exact hc s.base (by simpa [Sig.hasSens] using this) o ((hp.outs s hs1).sub o hs2)

theorem back_zero (m : LMod Nat α) (A : Nat → α) (h : ∀ o ∈ m.outs, A o = 0) : m.back A = A := by
  funext e
  unfold LMod.back
  rw [Finset.sum_eq_zero, add_zero]
  intro o ho; rw [h o ho, mul_zero]

theorem Prim.sens_spec (L : Layout) (hL : L.WF) (p : Prim α) (hp : p.WF L) (σ σ' : Store α)
    (hc : Clean L σ) (h : p.sensitivity L σ = .ok σ') :
    σ'.se = (p.lmod σ.st).back σ.se ∧ Clean L σ' ∧ σ'.st = σ.st ∧ σ'.hasSt = σ.hasSt := by
  by_cases hs : p.skip σ = true
  · have : σ' = σ := by
      unfold Prim.sensitivity at h; rw [if_pos hs] at h; cases h; rfl
    subst this
    exact ⟨(back_zero _ _ (Prim.skip_zero L p hp σ' hc hs)).symm, hc, rfl, rfl⟩
  · apply Prim.noskip_spec L hL p hp σ σ' hc
    unfold Prim.sensitivity at h; rw [if_neg hs] at h
    exact h

/-! ### programs -/

def Prog.WF (L : Layout) : Prog α → Prop
  | .done => True
  | .prim p r => p.WF L ∧ r.WF L
  | .sub i r => i.WF L ∧ r.WF L

/-- the linearised modules of a program (flattened, in execution order) at the states `st` -/
def Prog.lmods (g : Prog α) (st : Nat → α) : List (LMod Nat α) := g.flat.map (·.lmod st)

theorem Prog.sens_spec (L : Layout) (hL : L.WF) (g : Prog α) (hg : g.WF L) (σ σ' : Store α)
    (hc : Clean L σ) (h : g.sensitivity L σ = .ok σ') :
    σ'.se = backChain (g.lmods σ.st) σ.se ∧ Clean L σ' ∧ σ'.st = σ.st ∧ σ'.hasSt = σ.hasSt := by
  induction g generalizing σ σ' with
  | done =>
    simp only [Prog.sensitivity] at h; cases h
    exact ⟨rfl, hc, rfl, rfl⟩
  | prim p r ih =>
    simp only [Prog.sensitivity] at h
    cases h1 : r.sensitivity L σ with
    | error e => rw [h1] at h; cases h
    | ok σ1 =>
      rw [h1] at h
      obtain ⟨a1, a2, a3, a4⟩ := ih hg.2 σ σ1 hc h1
      obtain ⟨b1, b2, b3, b4⟩ := Prim.sens_spec L hL p hg.1 σ1 σ' a2 h
      refine ⟨?_, b2, by rw [b3, a3], by rw [b4, a4]⟩
      rw [b1, a1, a3]
      simp [Prog.lmods, Prog.flat, backChain]
  | sub i r ihi ihr =>
    simp only [Prog.sensitivity] at h
    cases h1 : r.sensitivity L σ with
    | error e => rw [h1] at h; cases h
    | ok σ1 =>
      rw [h1] at h
      obtain ⟨a1, a2, a3, a4⟩ := ihr hg.2 σ σ1 hc h1
      obtain ⟨b1, b2, b3, b4⟩ := ihi hg.1 σ1 σ' a2 h
      refine ⟨?_, b2, by rw [b3, a3], by rw [b4, a4]⟩
      rw [b1, a1, a3]
      simp only [Prog.lmods, Prog.flat, List.map_append, backChain_append]

/-! ### nested networks behave as their flattening -/

theorem Prog.response_append (a b : List (Prim α)) (σ : Store α) :
    (Prog.ofList (a ++ b)).response σ =
      match (Prog.ofList a).response σ with
      | .ok σ1 => (Prog.ofList b).response σ1
      | .error e => .error e := by
  induction a generalizing σ with
  | nil => simp [Prog.ofList, Prog.response]
  | cons p ps ih =>
    simp only [List.cons_append, Prog.ofList, Prog.response]
    cases p.response σ with
    | error e => rfl
    | ok σ1 => exact ih σ1

theorem Prog.sensitivity_append (L : Layout) (a b : List (Prim α)) (σ : Store α) :
    (Prog.ofList (a ++ b)).sensitivity L σ =
      match (Prog.ofList b).sensitivity L σ with
      | .ok σ1 => (Prog.ofList a).sensitivity L σ1
      | .error e => .error e := by
  induction a with
  | nil =>
    simp only [List.nil_append, Prog.ofList, Prog.sensitivity]
    cases (Prog.ofList b).sensitivity L σ <;> rfl
  | cons p ps ih =>
    simp only [List.cons_append, Prog.ofList, Prog.sensitivity, ih]
    cases (Prog.ofList b).sensitivity L σ <;> rfl

theorem Prog.reset_append (L : Layout) (a b : List (Prim α)) (σ : Store α) :
    (Prog.ofList (a ++ b)).reset L σ = (Prog.ofList a).reset L ((Prog.ofList b).reset L σ) := by
  induction a with
  | nil => rfl
  | cons p ps ih => simp only [List.cons_append, Prog.ofList, Prog.reset, ih]

end
end PymotoVerif.Net
