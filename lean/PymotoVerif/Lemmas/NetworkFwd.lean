/- the local Jacobian `Kind.jac` of every module kind is the derivative of its response `Kind.f`:
   exact second-order expansion `f (x + δ) = f x + J(x) δ + Q δ` with `Q` homogeneous quadratic -/
import PymotoVerif.Lemmas.Network

namespace PymotoVerif.Net
open Finset

variable {α : Type} [CommRing α]

/-- the second-order remainder of a kind: the kind itself for the homogeneous quadratic kinds,
    zero for the linear ones -/
def Kind.quad : Kind α → Nat → (Nat → α) → (Nat → α)
  | .mul, n, d => Kind.f .mul n d
  | .dot, n, d => Kind.f .dot n d
  | .sq, n, d => Kind.f .sq n d
  | _, _, _ => fun _ => 0

theorem sum_halves (h : Nat) (x d : Nat → α) :
    ∑ c ∈ range (h + h), (if c < h then x (h + c) else x (c - h)) * d c
      = ∑ c ∈ range h, x (h + c) * d c + ∑ c ∈ range h, x c * d (h + c) := by
  rw [Finset.sum_range_add]
  congr 1
  · apply Finset.sum_congr rfl; intro c hc
    rw [if_pos (Finset.mem_range.mp hc)]
  · apply Finset.sum_congr rfl; intro c _
    rw [if_neg (by omega), Nat.add_sub_cancel_left]

theorem Kind.f_expand (k : Kind α) (n : Nat) (hk : k.sized n) (x d : Nat → α) (r : Nat)
    (hr : r < k.nOut n) :
    k.f n (fun c => x c + d c) r
      = k.f n x r + ∑ c ∈ range n, k.jac n x r c * d c + k.quad n d r := by
  cases k with
  | lin rows A =>
    simp only [Kind.f, Kind.jac, Kind.quad, sumRange_eq, mul_add, Finset.sum_add_distrib, add_zero]
  | mul =>
    have hn : n % 2 = 0 := hk
    have hr0 : r < n / 2 := hr
    obtain ⟨h, rfl⟩ : ∃ h, n = h + h := ⟨n / 2, by omega⟩
    have hh : (h + h) / 2 = h := by omega
    have hr' : r < h := by omega
    simp only [Kind.f, Kind.jac, Kind.quad, hh]
    have hs : ∑ c ∈ range (h + h), (if c < h then (if c = r then x (h + c) else 0)
        else (if c - h = r then x (c - h) else 0)) * d c
        = x (h + r) * d r + x r * d (h + r) := by
      rw [Finset.sum_range_add]
      congr 1
      · have : ∀ c ∈ range h, (if c < h then (if c = r then x (h + c) else 0)
            else (if c - h = r then x (c - h) else 0)) * d c
            = if r = c then x (h + c) * d c else 0 := by
          intro c hc
          rw [if_pos (Finset.mem_range.mp hc)]
          by_cases h : c = r
          · subst h; simp
          · have h' : ¬ r = c := fun e => h e.symm
            simp [h, h']
        rw [Finset.sum_congr rfl this, Finset.sum_ite_eq]; simp [hr']
      · have : ∀ c ∈ range h, (if h + c < h then (if h + c = r then x (h + (h + c)) else 0)
            else (if h + c - h = r then x (h + c - h) else 0)) * d (h + c)
            = if r = c then x c * d (h + c) else 0 := by
          intro c _
          rw [if_neg (by omega), Nat.add_sub_cancel_left]
          by_cases h : c = r
          · subst h; simp
          · have h' : ¬ r = c := fun e => h e.symm
            simp [h, h']
        rw [Finset.sum_congr rfl this, Finset.sum_ite_eq]; simp [hr']
    rw [hs]; ring
  | dot =>
    have hn : n % 2 = 0 := hk
    obtain ⟨h, rfl⟩ : ∃ h, n = h + h := ⟨n / 2, by omega⟩
    have hh : (h + h) / 2 = h := by omega
    simp only [Kind.f, Kind.jac, Kind.quad, sumRange_eq, hh]
    rw [sum_halves h x d, ← Finset.sum_add_distrib, ← Finset.sum_add_distrib, ← Finset.sum_add_distrib]
    apply Finset.sum_congr rfl; intro c _; ring
  | sq =>
    have hr' : r < n := hr
    simp only [Kind.f, Kind.jac, Kind.quad, ite_mul, zero_mul]
    rw [Finset.sum_ite_eq']; simp only [Finset.mem_range, hr', if_true]; ring
  | fan q =>
    have hr' : r < q * n := hr
    have hn : 0 < n := by
      rcases Nat.eq_zero_or_pos n with h | h
      · subst h; simp at hr'
      · exact h
    simp only [Kind.f, Kind.jac, Kind.quad, ite_mul, one_mul, zero_mul, add_zero]
    rw [Finset.sum_ite_eq]; simp [Nat.mod_lt r hn]
  | cat =>
    have hr' : r < n := hr
    simp only [Kind.f, Kind.jac, Kind.quad, ite_mul, one_mul, zero_mul, add_zero]
    rw [Finset.sum_ite_eq]; simp [hr']
  | sink => exact absurd hr (Nat.not_lt_zero r)

/-- the remainder is homogeneous of degree two -/
theorem Kind.quad_homogeneous (k : Kind α) (n : Nat) (t : α) (d : Nat → α) (r : Nat) :
    k.quad n (fun c => t * d c) r = t * t * k.quad n d r := by
  cases k with
  | mul => simp only [Kind.quad, Kind.f]; ring
  | dot =>
    simp only [Kind.quad, Kind.f, sumRange_eq, Finset.mul_sum]
    apply Finset.sum_congr rfl; intro c _; ring
  | sq => simp only [Kind.quad, Kind.f]; ring
  | lin rows A => simp [Kind.quad]
  | fan q => simp [Kind.quad]
  | cat => simp [Kind.quad]
  | sink => simp [Kind.quad]

end PymotoVerif.Net
