/- chain rule for the COMPOSED response of the executable model `Core/Network.lean`:
   `Prog.response` at `x + t·δ` = `Prog.response` at `x` + `t · fwdChain lmods δ` + `t² · remainder`,
   for well-formed, single-assignment, read-after-write ordered programs (exact, all `t`). -/
import PymotoVerif.Lemmas.NetworkFwd

namespace PymotoVerif.Net
open Finset

/-! ### `writeOuts` : state effect, success depends on the flags only -/

/-- the pure state effect of `writeOuts` -/
def wr {α} : List Sig → List Nat → Nat → (Nat → α) → (Nat → α) → (Nat → α)
  | s :: ss, z :: zs, off, y, st => wr ss zs (off + z) y (writeFrom s.ents 0 (fun j => y (off + j)) st)
  | _, _, _, _, st => st

section
variable {α : Type}

theorem setState_ok (s : Sig) (v : Nat → α) (σ σ1 : Store α) (h : setState s v σ = .ok σ1) :
    σ1.st = writeFrom s.ents 0 v σ.st ∧ σ1.se = σ.se ∧ σ1.hasSe = σ.hasSe ∧
    ∀ (v2 : Nat → α) (σ2 : Store α), σ2.hasSt = σ.hasSt →
      ∃ σ2', setState s v2 σ2 = .ok σ2' ∧ σ2'.hasSt = σ1.hasSt ∧
        σ2'.st = writeFrom s.ents 0 v2 σ2.st ∧ σ2'.se = σ2.se ∧ σ2'.hasSe = σ2.hasSe := by
  unfold setState at h
  by_cases hsl : s.isSlice = true
  · rw [if_pos hsl] at h
    by_cases hh : σ.hasSt s.base = true
    · rw [if_pos hh] at h
      cases h
      refine ⟨rfl, rfl, rfl, ?_⟩
      intro v2 σ2 h2
      refine ⟨{ σ2 with st := writeFrom s.ents 0 v2 σ2.st }, ?_, h2, rfl, rfl, rfl⟩
      unfold setState
      rw [if_pos hsl, h2, if_pos hh]
    · rw [if_neg hh] at h; cases h
  · rw [if_neg hsl] at h
    cases h
    refine ⟨rfl, rfl, rfl, ?_⟩
    intro v2 σ2 h2
    refine ⟨{ σ2 with st := writeFrom s.ents 0 v2 σ2.st, hasSt := setB σ2.hasSt s.base true }, ?_, ?_, rfl, rfl, rfl⟩
    · unfold setState; rw [if_neg hsl]
    · simp only [h2]

theorem writeOuts_ok (outs : List Sig) (osz : List Nat) (off : Nat) (y : Nat → α) (σ σ' : Store α)
    (h : writeOuts outs osz off y σ = .ok σ') :
    σ'.st = wr outs osz off y σ.st ∧ σ'.se = σ.se ∧ σ'.hasSe = σ.hasSe ∧
    ∀ (y2 : Nat → α) (σ2 : Store α), σ2.hasSt = σ.hasSt →
      ∃ σ2', writeOuts outs osz off y2 σ2 = .ok σ2' ∧ σ2'.hasSt = σ'.hasSt ∧
        σ2'.st = wr outs osz off y2 σ2.st ∧ σ2'.se = σ2.se ∧ σ2'.hasSe = σ2.hasSe := by
  induction outs generalizing osz off σ with
  | nil =>
    simp only [writeOuts] at h; cases h
    exact ⟨rfl, rfl, rfl, fun y2 σ2 h2 => ⟨σ2, rfl, h2, rfl, rfl, rfl⟩⟩
  | cons s ss ih =>
    cases osz with
    | nil =>
      simp only [writeOuts] at h; cases h
      exact ⟨rfl, rfl, rfl, fun y2 σ2 h2 => ⟨σ2, rfl, h2, rfl, rfl, rfl⟩⟩
    | cons z zs =>
      simp only [writeOuts] at h
      cases hs : setState s (fun j => y (off + j)) σ with
      | error e => rw [hs] at h; cases h
      | ok σ1 =>
        rw [hs] at h
        obtain ⟨a1, a2, a3, a4⟩ := setState_ok s _ σ σ1 hs
        obtain ⟨b1, b2, b3, b4⟩ := ih zs (off + z) σ1 h
        refine ⟨by rw [b1, a1]; rfl, by rw [b2, a2], by rw [b3, a3], ?_⟩
        intro y2 σ2 h2
        obtain ⟨σ21, c1, c2, c3, c4, c5⟩ := a4 (fun j => y2 (off + j)) σ2 h2
        obtain ⟨σ2', d1, d2, d3, d4, d5⟩ := b4 y2 σ21 c2
        refine ⟨σ2', ?_, d2, by rw [d3, c3]; rfl, by rw [d4, c4], by rw [d5, c5]⟩
        simp only [writeOuts, c1]
        exact d1
end

theorem wr_not_mem {α} (outs : List Sig) (osz : List Nat) (off : Nat) (y st : Nat → α) (e : Nat)
    (h : e ∉ entsOf outs) : wr outs osz off y st e = st e := by
  induction outs generalizing osz off st with
  | nil => cases osz <;> rfl
  | cons s ss ih =>
    cases osz with
    | nil => rfl
    | cons z zs =>
      have hE : entsOf (s :: ss) = s.ents ++ entsOf ss := by simp [entsOf]
      rw [hE, List.mem_append, not_or] at h
      simp only [wr]
      rw [ih _ _ _ h.2, writeFrom_not_mem _ _ _ _ _ h.1]

theorem wr_eq {α} (outs : List Sig) (hn : (entsOf outs).Nodup) (off : Nat) (y st : Nat → α) (e : Nat) :
    wr outs (outs.map (·.ents.length)) off y st e
      = if e ∈ entsOf outs then y (off + (entsOf outs).idxOf e) else st e := by
  induction outs generalizing off st with
  | nil => simp [wr, entsOf]
  | cons s ss ih =>
    have hE : entsOf (s :: ss) = s.ents ++ entsOf ss := by simp [entsOf]
    rw [hE] at hn ⊢
    obtain ⟨n1, n2, n3⟩ := List.nodup_append.mp hn
    simp only [List.map_cons, wr]
    rw [ih n2]
    by_cases h2 : e ∈ entsOf ss
    · have h1 : e ∉ s.ents := fun h1 => n3 e h1 e h2 rfl
      rw [if_pos h2, if_pos (List.mem_append_right _ h2), List.idxOf_append_of_notMem h1]
      congr 1; omega
    · rw [if_neg h2]
      by_cases h1 : e ∈ s.ents
      · rw [writeFrom_mem _ n1 _ _ _ _ h1, if_pos (List.mem_append_left _ h1), List.idxOf_append_of_mem h1]
        congr 1; omega
      · rw [writeFrom_not_mem _ _ _ _ _ h1, if_neg]
        rw [List.mem_append, not_or]; exact ⟨h1, h2⟩

section
variable {α : Type} [CommRing α]

/-! ### the Jacobian of a module depends on the states of its inputs only -/

theorem Kind.jac_congr (k : Kind α) (n : Nat) (x x' : Nat → α) (h : ∀ c, c < n → x c = x' c)
    (r c : Nat) (hc : c < n) : k.jac n x r c = k.jac n x' r c := by
  cases k with
  | lin rows A => rfl
  | mul =>
    simp only [Kind.jac]
    by_cases h1 : c < n / 2
    · rw [if_pos h1, if_pos h1, h (n / 2 + c) (by omega)]
    · rw [if_neg h1, if_neg h1, h (c - n / 2) (by omega)]
  | dot =>
    simp only [Kind.jac]
    by_cases h1 : c < n / 2
    · rw [if_pos h1, if_pos h1, h (n / 2 + c) (by omega)]
    · rw [if_neg h1, if_neg h1, h (c - n / 2) (by omega)]
  | sq => simp only [Kind.jac, h c hc]
  | fan q => rfl
  | cat => rfl
  | sink => rfl

theorem getD_mem (l : List Nat) (c : Nat) (hc : c < l.length) : l.getD c 0 ∈ l := by
  rw [List.getD_eq_getElem _ _ hc]; exact List.getElem_mem hc

theorem Prim.lmod_congr (p : Prim α) (st1 st2 : Nat → α)
    (h : ∀ e ∈ entsOf p.ins, st1 e = st2 e) : p.lmod st1 = p.lmod st2 := by
  unfold Prim.lmod
  congr 1
  funext o e
  apply Finset.sum_congr rfl; intro r _
  apply Finset.sum_congr rfl; intro c hc
  have hc' : c < p.nIn := Finset.mem_range.mp hc
  by_cases hcond : (entsOf p.outs).getD r 0 = o ∧ (entsOf p.ins).getD c 0 = e
  · rw [if_pos hcond, if_pos hcond]
    apply Kind.jac_congr _ _ _ _ _ r c hc'
    intro c' hc''
    exact h _ (getD_mem _ c' hc'')
  · rw [if_neg hcond, if_neg hcond]

/-- a Jacobian row of the linearised module applied to a vector, in terms of the kind's flat
    Jacobian (output entries are duplicate-free, inputs lie in `U`) -/
theorem lmod_J_sum (p : Prim α) (st V : Nat → α) (U : Finset Nat)
    (hin : ∀ e ∈ entsOf p.ins, e ∈ U) (hnd : (entsOf p.outs).Nodup) (e : Nat)
    (he : e ∈ entsOf p.outs) :
    ∑ i ∈ U, (p.lmod st).J e i * V i
      = ∑ c ∈ range p.nIn, p.kind.jac p.nIn (fun c => st ((entsOf p.ins).getD c 0))
          ((entsOf p.outs).idxOf e) c * V ((entsOf p.ins).getD c 0) := by
  simp only [Prim.lmod]
  have h1 : ∀ i ∈ U,
      (∑ r ∈ range (entsOf p.outs).length, ∑ c ∈ range p.nIn,
        if (entsOf p.outs).getD r 0 = e ∧ (entsOf p.ins).getD c 0 = i
        then p.kind.jac p.nIn (fun c => st ((entsOf p.ins).getD c 0)) r c else 0) * V i
      = ∑ r ∈ range (entsOf p.outs).length, ∑ c ∈ range p.nIn,
        if (entsOf p.ins).getD c 0 = i then
          (if (entsOf p.outs).getD r 0 = e
            then p.kind.jac p.nIn (fun c => st ((entsOf p.ins).getD c 0)) r c * V i else 0) else 0 := by
    intro i _
    rw [Finset.sum_mul]; apply Finset.sum_congr rfl; intro r _
    rw [Finset.sum_mul]; apply Finset.sum_congr rfl; intro c _
    by_cases h1 : (entsOf p.outs).getD r 0 = e
    · by_cases h2 : (entsOf p.ins).getD c 0 = i
      · rw [if_pos ⟨h1, h2⟩, if_pos h2, if_pos h1]
      · rw [if_neg (fun h => h2 h.2), if_neg h2, zero_mul]
    · by_cases h2 : (entsOf p.ins).getD c 0 = i
      · rw [if_neg (fun h => h1 h.1), if_pos h2, if_neg h1, zero_mul]
      · rw [if_neg (fun h => h1 h.1), if_neg h2, zero_mul]
  rw [Finset.sum_congr rfl h1, Finset.sum_comm]
  have h2 : ∀ r ∈ range (entsOf p.outs).length,
      (∑ i ∈ U, ∑ c ∈ range p.nIn,
        if (entsOf p.ins).getD c 0 = i then
          (if (entsOf p.outs).getD r 0 = e
            then p.kind.jac p.nIn (fun c => st ((entsOf p.ins).getD c 0)) r c * V i else 0) else 0)
      = if (entsOf p.outs).getD r 0 = e then
          ∑ c ∈ range p.nIn, p.kind.jac p.nIn (fun c => st ((entsOf p.ins).getD c 0)) r c
            * V ((entsOf p.ins).getD c 0) else 0 := by
    intro r _
    rw [Finset.sum_comm]
    have h3 : ∀ c ∈ range p.nIn,
        (∑ i ∈ U, if (entsOf p.ins).getD c 0 = i then
          (if (entsOf p.outs).getD r 0 = e
            then p.kind.jac p.nIn (fun c => st ((entsOf p.ins).getD c 0)) r c * V i else 0) else 0)
        = if (entsOf p.outs).getD r 0 = e
            then p.kind.jac p.nIn (fun c => st ((entsOf p.ins).getD c 0)) r c
              * V ((entsOf p.ins).getD c 0) else 0 := by
      intro c hc
      rw [Finset.sum_ite_eq, if_pos (hin _ (getD_mem _ c (Finset.mem_range.mp hc)))]
    rw [Finset.sum_congr rfl h3]
    by_cases h1 : (entsOf p.outs).getD r 0 = e
    · simp only [h1, if_true]
    · simp only [h1, if_false, Finset.sum_const_zero]
  rw [Finset.sum_congr rfl h2, sum_pos_eq (entsOf p.outs) hnd, if_pos he]

/-- exact expansion of a kind along a line -/
theorem Kind.f_line (k : Kind α) (n : Nat) (hk : k.sized n) (x d : Nat → α) (t : α) (r : Nat)
    (hr : r < k.nOut n) :
    k.f n (fun c => x c + t * d c) r
      = k.f n x r + t * ∑ c ∈ range n, k.jac n x r c * d c + t * t * k.quad n d r := by
  rw [Kind.f_expand k n hk x (fun c => t * d c) r hr, Kind.quad_homogeneous, Finset.mul_sum]
  congr 2
  apply Finset.sum_congr rfl; intro c _; ring

/-! ### one module -/

/-- second-order remainder after one module (`T` tangent, `R` remainder before the module) -/
def Prim.remStep (U : Finset Nat) (t : α) (p : Prim α) (st T R : Nat → α) : Nat → α := fun e =>
  if e ∈ entsOf p.outs then
    ∑ i ∈ U, (p.lmod st).J e i * R i
      + p.kind.quad p.nIn (fun c => T ((entsOf p.ins).getD c 0) + t * R ((entsOf p.ins).getD c 0))
          ((entsOf p.outs).idxOf e)
  else R e

theorem Prim.response_frame (p : Prim α) (σ σ1 : Store α) (h : p.response σ = .ok σ1) :
    (∀ e, e ∉ entsOf p.outs → σ1.st e = σ.st e) ∧ σ1.se = σ.se ∧ σ1.hasSe = σ.hasSe := by
  unfold Prim.response at h
  split_ifs at h
  obtain ⟨a1, a2, a3, _⟩ := writeOuts_ok _ _ _ _ _ _ h
  exact ⟨fun e he => by rw [a1, wr_not_mem _ _ _ _ _ _ he], a2, a3⟩

theorem Prim.response_expand (L : Layout) (p : Prim α) (hp : p.WF L) (hnd : (entsOf p.outs).Nodup)
    (U : Finset Nat) (hin : ∀ e ∈ entsOf p.ins, e ∈ U) (t : α) (σ σt σ1 : Store α) (T R : Nat → α)
    (hfl : σt.hasSt = σ.hasSt) (hst : ∀ e, σt.st e = σ.st e + t * T e + t * t * R e)
    (h : p.response σ = .ok σ1) :
    ∃ σt1, p.response σt = .ok σt1 ∧ σt1.hasSt = σ1.hasSt ∧
      ∀ e, σt1.st e = σ1.st e + t * (p.lmod σ.st).fwd U T e + t * t * p.remStep U t σ.st T R e := by
  unfold Prim.response at h
  by_cases hany : p.ins.any (fun s => !s.hasState σ) = true
  · rw [if_pos hany] at h; cases h
  rw [if_neg hany] at h
  by_cases har : p.outSizes.length ≠ p.outs.length
  · rw [if_pos har] at h; cases h
  rw [if_neg har] at h
  obtain ⟨a1, _, _, a4⟩ := writeOuts_ok _ _ _ _ _ _ h
  obtain ⟨σt1, b1, b2, b3, _, _⟩ := a4 (p.kind.f p.nIn (p.x σt)) σt hfl
  have hany' : ¬ p.ins.any (fun s => !s.hasState σt) = true := by
    simpa only [Sig.hasState, hfl] using hany
  refine ⟨σt1, ?_, b2, ?_⟩
  · unfold Prim.response; rw [if_neg hany', if_neg har]; exact b1
  intro e
  rw [b3, a1, hp.osz, wr_eq _ hnd, wr_eq _ hnd]
  unfold LMod.fwd Prim.remStep
  have hmem : e ∈ (p.lmod σ.st).outs ↔ e ∈ entsOf p.outs := by simp [Prim.lmod]
  by_cases he : e ∈ entsOf p.outs
  · rw [if_pos he, if_pos he, if_pos (hmem.mpr he), if_pos he, Nat.zero_add]
    have hr : (entsOf p.outs).idxOf e < p.kind.nOut p.nIn := by
      rw [hp.nout]; exact List.idxOf_lt_length_of_mem he
    have hx : p.x σt = fun c => p.x σ c + t * (T ((entsOf p.ins).getD c 0) + t * R ((entsOf p.ins).getD c 0)) := by
      funext c; simp only [Prim.x, hst]; ring
    rw [hx, Kind.f_line _ _ hp.sized _ _ _ _ hr, lmod_J_sum p σ.st T U hin hnd e he,
      lmod_J_sum p σ.st R U hin hnd e he]
    have hs : ∑ c ∈ range p.nIn, p.kind.jac p.nIn (p.x σ) ((entsOf p.outs).idxOf e) c
          * (T ((entsOf p.ins).getD c 0) + t * R ((entsOf p.ins).getD c 0))
        = ∑ c ∈ range p.nIn, p.kind.jac p.nIn (p.x σ) ((entsOf p.outs).idxOf e) c * T ((entsOf p.ins).getD c 0)
          + t * ∑ c ∈ range p.nIn, p.kind.jac p.nIn (p.x σ) ((entsOf p.outs).idxOf e) c * R ((entsOf p.ins).getD c 0) := by
      rw [Finset.mul_sum, ← Finset.sum_add_distrib]
      apply Finset.sum_congr rfl; intro c _; ring
    rw [hs]
    have hxe : p.x σ = fun c => σ.st ((entsOf p.ins).getD c 0) := rfl
    rw [hxe]
    ring
  · rw [if_neg he, if_neg he, if_neg (fun h => he (hmem.mp h)), if_neg he, hst e]

/-! ### lists of modules -/

omit [CommRing α] in
theorem outEnts_cons (p : Prim α) (ps : List (Prim α)) :
    outEnts (p :: ps) = entsOf p.outs ++ outEnts ps := by simp [outEnts]

/-- the explicit second-order remainder of the composed response -/
def remChain (U : Finset Nat) (t : α) : List (Prim α) → (Nat → α) → (Nat → α) → (Nat → α) → (Nat → α)
  | [], _, _, R => R
  | p :: ps, st, T, R => remChain U t ps st ((p.lmod st).fwd U T) (p.remStep U t st T R)

/-- no module reads an entry that it or a later module writes -/
def Ordered : List (Prim α) → Prop
  | [] => True
  | p :: ps => (∀ e ∈ entsOf p.ins, e ∉ entsOf p.outs ++ outEnts ps) ∧ Ordered ps

theorem list_response_frame (ps : List (Prim α)) (σ σ' : Store α)
    (h : (Prog.ofList ps).response σ = .ok σ') :
    (∀ e, e ∉ outEnts ps → σ'.st e = σ.st e) ∧ σ'.se = σ.se ∧ σ'.hasSe = σ.hasSe := by
  induction ps generalizing σ with
  | nil => simp only [Prog.ofList, Prog.response] at h; cases h; exact ⟨fun _ _ => rfl, rfl, rfl⟩
  | cons p ps ih =>
    simp only [Prog.ofList, Prog.response] at h
    cases h1 : p.response σ with
    | error e => rw [h1] at h; cases h
    | ok σ1 =>
      rw [h1] at h
      obtain ⟨a1, a2, a3⟩ := Prim.response_frame p σ σ1 h1
      obtain ⟨b1, b2, b3⟩ := ih σ1 h
      refine ⟨?_, by rw [b2, a2], by rw [b3, a3]⟩
      intro e he
      rw [outEnts_cons, List.mem_append, not_or] at he
      rw [b1 e he.2, a1 e he.1]

theorem list_response_expand (L : Layout) (U : Finset Nat) (ps : List (Prim α))
    (hwf : ∀ p ∈ ps, p.WF L) (hnd : (outEnts ps).Nodup) (hord : Ordered ps)
    (hU : ∀ p ∈ ps, ∀ e ∈ entsOf p.ins, e ∈ U) (t : α) (σ σt σ' : Store α) (T R : Nat → α)
    (hfl : σt.hasSt = σ.hasSt) (hst : ∀ e, σt.st e = σ.st e + t * T e + t * t * R e)
    (h : (Prog.ofList ps).response σ = .ok σ') :
    ∃ σt', (Prog.ofList ps).response σt = .ok σt' ∧ σt'.hasSt = σ'.hasSt ∧
      ∀ e, σt'.st e = σ'.st e + t * fwdChain U (ps.map (·.lmod σ'.st)) T e
        + t * t * remChain U t ps σ'.st T R e := by
  induction ps generalizing σ σt T R with
  | nil =>
    simp only [Prog.ofList, Prog.response] at h; cases h
    exact ⟨σt, rfl, hfl, hst⟩
  | cons p ps ih =>
    simp only [Prog.ofList, Prog.response] at h
    cases h1 : p.response σ with
    | error e => rw [h1] at h; cases h
    | ok σ1 =>
      rw [h1] at h
      rw [outEnts_cons] at hnd
      obtain ⟨n1, n2, _⟩ := List.nodup_append.mp hnd
      obtain ⟨σt1, c1, c2, c3⟩ := Prim.response_expand L p (hwf p (by simp)) n1 U (hU p (by simp)) t
        σ σt σ1 T R hfl hst h1
      obtain ⟨σt', d1, d2, d3⟩ := ih (fun q hq => hwf q (by simp [hq])) n2 hord.2
        (fun q hq => hU q (by simp [hq])) σ1 σt1 _ _ c2 c3 h
      have hl : p.lmod σ.st = p.lmod σ'.st := by
        apply Prim.lmod_congr
        intro e he
        have hno := hord.1 e he
        rw [List.mem_append, not_or] at hno
        rw [(list_response_frame ps σ1 σ' h).1 e hno.2, (Prim.response_frame p σ σ1 h1).1 e hno.1]
      have hr : p.remStep U t σ.st T R = p.remStep U t σ'.st T R := by
        unfold Prim.remStep; rw [hl]
      refine ⟨σt', ?_, d2, ?_⟩
      · simp only [Prog.ofList, Prog.response, c1]; exact d1
      · intro e
        rw [d3 e]
        simp only [List.map_cons, fwdChain, remChain, hl, hr]

/-! ### the decidable read-after-write predicate -/

omit [CommRing α] in
theorem rawFrom_ordered (before all : List Nat) (ps : List (Prim α))
    (hnd : (before ++ outEnts ps).Nodup) (hall : ∀ e ∈ outEnts ps, e ∈ all)
    (h : rawFrom before all ps = true) : Ordered ps := by
  induction ps generalizing before with
  | nil => trivial
  | cons p ps ih =>
    simp only [rawFrom, Bool.and_eq_true, List.all_eq_true] at h
    rw [outEnts_cons] at hnd hall
    refine ⟨?_, ?_⟩
    · intro e he hX
      have hc := h.1 e he
      simp only [Bool.or_eq_true, List.contains_iff_mem, Bool.not_eq_true', ← Bool.not_eq_true] at hc
      rcases hc with hb | hna
      · exact (List.nodup_append.mp hnd).2.2 e hb e hX rfl
      · exact hna (hall e hX)
    · apply ih (before ++ entsOf p.outs)
      · rw [List.append_assoc]; exact hnd
      · intro e he; exact hall e (List.mem_append_right _ he)
      · exact h.2

omit [CommRing α] in
theorem Prog.ordered_of_raw (g : Prog α) (hs : g.ssaEntries = true) (hr : g.rawOrdered = true) :
    Ordered g.flat := by
  apply rawFrom_ordered [] (outEnts g.flat) g.flat
  · simpa [Prog.ssaEntries] using hs
  · exact fun e he => he
  · exact hr

/-! ### link with the `Finset` form of single assignment used by the reverse sweep -/

theorem written_map (ps : List (Prim α)) (st : Nat → α) :
    written (ps.map (·.lmod st)) = (outEnts ps).toFinset := by
  induction ps with
  | nil => simp [written, outEnts]
  | cons p ps ih =>
    rw [outEnts_cons, List.toFinset_append, List.map_cons, written, ih]
    rfl

theorem SSA_of_nodup (ps : List (Prim α)) (st : Nat → α) (hnd : (outEnts ps).Nodup) :
    SSA (ps.map (·.lmod st)) := by
  induction ps with
  | nil => trivial
  | cons p ps ih =>
    rw [outEnts_cons] at hnd
    obtain ⟨_, n2, n3⟩ := List.nodup_append.mp hnd
    refine ⟨?_, ih n2⟩
    rw [written_map, Finset.disjoint_left]
    intro e he1 he2
    have h1 : e ∈ entsOf p.outs := by simpa [Prim.lmod] using he1
    exact n3 e h1 e (List.mem_toFinset.mp he2) rfl

theorem Prog.response_flat (g : Prog α) (σ : Store α) :
    g.response σ = (Prog.ofList g.flat).response σ := by
  induction g generalizing σ with
  | done => rfl
  | prim p r ih =>
    simp only [Prog.response, Prog.flat, Prog.ofList]
    cases p.response σ with
    | error e => rfl
    | ok σ1 => exact ih σ1
  | sub i r ihi ihr =>
    simp only [Prog.response, Prog.flat, Prog.response_append, ihi σ]
    cases (Prog.ofList i.flat).response σ with
    | error e => rfl
    | ok σ1 => exact ihr σ1

omit [CommRing α] in
theorem Prog.WF_flat (L : Layout) (g : Prog α) (hg : g.WF L) : ∀ p ∈ g.flat, p.WF L := by
  induction g with
  | done => intro p hp; simp [Prog.flat] at hp
  | prim q r ih =>
    intro p hp
    simp only [Prog.flat, List.mem_cons] at hp
    rcases hp with rfl | hp
    · exact hg.1
    · exact ih hg.2 p hp
  | sub i r ihi ihr =>
    intro p hp
    simp only [Prog.flat, List.mem_append] at hp
    rcases hp with hp | hp
    · exact ihi hg.1 p hp
    · exact ihr hg.2 p hp

end
end PymotoVerif.Net
