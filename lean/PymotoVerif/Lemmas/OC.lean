/- helper lemmas for `Core/OC.lean` (optimality-criteria loop): clip bounds, bisection invariant, run invariant -/
import PymotoVerif.Core.OC
import PymotoVerif.Lemmas.DesignVec
import Mathlib.Algebra.Order.Field.Basic
import Mathlib.Algebra.Order.BigOperators.Group.Finset
import Mathlib.Tactic.NormNum
import Mathlib.Tactic.NormNum.OfScientific
import Mathlib.Tactic.Linarith
import Mathlib.Tactic.Ring
import Mathlib.Logic.Function.Iterate
import Mathlib.Algebra.Order.AbsoluteValue.Basic

set_option linter.unusedSectionVars false
namespace PymotoVerif.OC
open PymotoVerif PymotoVerif.DV

section Field
variable {α : Type} [Field α] [LinearOrder α] [IsStrictOrderedRing α]

/-! ## the clipped update -/

theorem lower_le (xmin move xval : Nat → α) (i : Nat) (h1 : xmin i ≤ xval i) (hm : 0 ≤ move i) :
    xmin i ≤ lower xmin move xval i ∧ xval i - move i ≤ lower xmin move xval i ∧ lower xmin move xval i ≤ xval i := by
  unfold lower; rw [vmax_eq]
  exact ⟨le_max_left _ _, le_max_right _ _, max_le h1 (by linarith)⟩

theorem le_upper (xmax move xval : Nat → α) (i : Nat) (h2 : xval i ≤ xmax i) (hm : 0 ≤ move i) :
    upper xmax move xval i ≤ xmax i ∧ upper xmax move xval i ≤ xval i + move i ∧ xval i ≤ upper xmax move xval i := by
  unfold upper; rw [vmin_eq]
  exact ⟨min_le_left _ _, min_le_right _ _, le_min h2 (by linarith)⟩

theorem update_mem (sqrt : α → α) (xmin xmax move xval dfdx : Nat → α) (lam : α) (i : Nat)
    (h1 : xmin i ≤ xval i) (h2 : xval i ≤ xmax i) (hm : 0 ≤ move i) :
    lower xmin move xval i ≤ update sqrt xmin xmax move xval dfdx lam i ∧
    update sqrt xmin xmax move xval dfdx lam i ≤ upper xmax move xval i := by
  unfold update
  exact clip_mem _ _ _ (le_trans (lower_le xmin move xval i h1 hm).2.2 (le_upper xmax move xval i h2 hm).2.2)

/-! ## volume -/

theorem volume_ofArr_freeze (n : Nat) (f : Nat → α) : volume n (ofArr (freeze n f)) = volume n f :=
  sumRange_congr n _ _ (fun i hi => ofArr_freeze n f i hi)

theorem volume_mono (n : Nat) (f g : Nat → α) (h : ∀ i, i < n → f i ≤ g i) : volume n f ≤ volume n g := by
  unfold volume
  rw [sumRange_eq, sumRange_eq]
  exact Finset.sum_le_sum (fun i hi => h i (Finset.mem_range.mp hi))

/-! ## bisection -/

/-- total volume of the update for the multiplier `l` -/
def volF (n : Nat) (upd : α → Nat → α) (l : α) : α := volume n (upd l)

/-- midpoint as coded -/
def mid (s : BState α) : α := 0.5 * (s.l1 + s.l2)

theorem mid_between (s : BState α) (h : s.l1 ≤ s.l2) : s.l1 ≤ mid s ∧ mid s ≤ s.l2 := by
  unfold mid
  have h5 : (0.5 : α) = 1 / 2 := by norm_num
  rw [h5]
  constructor <;> linarith

theorem bisectStep_above (n : Nat) (upd : α → Nat → α) (maxvol : α) (s : BState α)
    (h : maxvol < volF n upd (mid s)) :
    (bisectStep n upd maxvol s).l1 = mid s ∧ (bisectStep n upd maxvol s).l2 = s.l2 ∧
    (bisectStep n upd maxvol s).xnew = some (freeze n (upd (mid s))) := by
  have hd : 0 < volume n (ofArr (freeze n (upd (0.5 * (s.l1 + s.l2))))) - maxvol := by
    rw [volume_ofArr_freeze]; exact sub_pos.mpr h
  unfold bisectStep
  simp only [hd, if_true, mid, and_self]

theorem bisectStep_below (n : Nat) (upd : α → Nat → α) (maxvol : α) (s : BState α)
    (h : ¬ maxvol < volF n upd (mid s)) :
    (bisectStep n upd maxvol s).l1 = s.l1 ∧ (bisectStep n upd maxvol s).l2 = mid s ∧
    (bisectStep n upd maxvol s).xnew = some (freeze n (upd (mid s))) := by
  have hd : ¬ 0 < volume n (ofArr (freeze n (upd (0.5 * (s.l1 + s.l2))))) - maxvol := by
    rw [volume_ofArr_freeze]; intro h'; exact h (sub_pos.mp h')
  unfold bisectStep
  simp only [hd, if_false, mid, and_self]

/-- what the bisection keeps true, relative to the state `s0` it started from -/
structure BInv (n : Nat) (upd : α → Nat → α) (maxvol : α) (s0 s : BState α) : Prop where
  lo : s0.l1 ≤ s.l1
  hi : s.l2 ≤ s0.l2
  ord : s0.l1 ≤ s0.l2 → s.l1 ≤ s.l2
  above : s.l1 = s0.l1 ∨ maxvol < volF n upd s.l1
  below : s.l2 = s0.l2 ∨ volF n upd s.l2 ≤ maxvol
  xnew : (s.xnew = s0.xnew ∧ s.l1 = s0.l1 ∧ s.l2 = s0.l2) ∨
         ∃ lm, (lm = s.l1 ∨ lm = s.l2) ∧ s.xnew = some (freeze n (upd lm))

theorem BInv.refl (n : Nat) (upd : α → Nat → α) (maxvol : α) (s : BState α) : BInv n upd maxvol s s :=
  ⟨le_rfl, le_rfl, id, Or.inl rfl, Or.inl rfl, Or.inl ⟨rfl, rfl, rfl⟩⟩

theorem BInv.step (n : Nat) (upd : α → Nat → α) (maxvol : α) (s0 s : BState α) (h : BInv n upd maxvol s0 s)
    (hord : s0.l1 ≤ s0.l2) : BInv n upd maxvol s0 (bisectStep n upd maxvol s) := by
  have hm := mid_between s (h.ord hord)
  by_cases hv : maxvol < volF n upd (mid s)
  · obtain ⟨e1, e2, e3⟩ := bisectStep_above n upd maxvol s hv
    refine ⟨?_, ?_, ?_, ?_, ?_, ?_⟩
    · rw [e1]; exact le_trans h.lo hm.1
    · rw [e2]; exact h.hi
    · intro _; rw [e1, e2]; exact hm.2
    · right; rw [e1]; exact hv
    · rw [e2]; exact h.below
    · right; exact ⟨mid s, Or.inl e1.symm, e3⟩
  · obtain ⟨e1, e2, e3⟩ := bisectStep_below n upd maxvol s hv
    refine ⟨?_, ?_, ?_, ?_, ?_, ?_⟩
    · rw [e1]; exact h.lo
    · rw [e2]; exact le_trans hm.2 h.hi
    · intro _; rw [e1, e2]; exact hm.1
    · rw [e1]; exact h.above
    · right; rw [e2]; exact not_lt.mp hv
    · right; exact ⟨mid s, Or.inr e2.symm, e3⟩

/-- the `while` loop is the iterated body, stopped the first time its condition fails -/
theorem bisect_iterate (n : Nat) (upd : α → Nat → α) (maxvol tol : α) (fuel : Nat) (s s' : BState α)
    (h : bisect n upd maxvol tol fuel s = some s') :
    ∃ k, k < fuel ∧ s' = (bisectStep n upd maxvol)^[k] s ∧ ¬ tol < s'.l2 - s'.l1 ∧
      ∀ j, j < k → tol < ((bisectStep n upd maxvol)^[j] s).l2 - ((bisectStep n upd maxvol)^[j] s).l1 := by
  induction fuel generalizing s with
  | zero => simp [bisect] at h
  | succ fuel ih =>
    rw [bisect] at h
    split_ifs at h with hc
    · obtain ⟨k, hk, e, hx, hall⟩ := ih _ h
      refine ⟨k+1, by omega, ?_, hx, ?_⟩
      · rw [Function.iterate_succ_apply]; exact e
      · intro j hj
        cases j with
        | zero => simpa using hc
        | succ j => rw [Function.iterate_succ_apply]; exact hall j (by omega)
    · have : s = s' := by simpa using h
      subst this
      exact ⟨0, by omega, rfl, hc, fun j hj => by omega⟩

theorem BInv.iterate (n : Nat) (upd : α → Nat → α) (maxvol : α) (s : BState α) (hord : s.l1 ≤ s.l2) (k : Nat) :
    BInv n upd maxvol s ((bisectStep n upd maxvol)^[k] s) := by
  induction k with
  | zero => exact BInv.refl n upd maxvol s
  | succ k ih => rw [Function.iterate_succ_apply']; exact BInv.step n upd maxvol s _ ih hord

/-- a bracket that is not wider than the tolerance is returned untouched; a wider one with `l2 < l1` cannot occur -/
theorem bisect_inv (n : Nat) (upd : α → Nat → α) (maxvol tol : α) (fuel : Nat) (s s' : BState α)
    (hord : s.l1 ≤ s.l2) (h : bisect n upd maxvol tol fuel s = some s') :
    BInv n upd maxvol s s' ∧ s'.l2 - s'.l1 ≤ tol := by
  obtain ⟨k, _, e, hx, _⟩ := bisect_iterate n upd maxvol tol fuel s s' h
  exact ⟨e ▸ BInv.iterate n upd maxvol s hord k, not_lt.mp hx⟩

/-! ## the run -/

theorem bisectStep_xnew (n : Nat) (upd : α → Nat → α) (maxvol : α) (s : BState α) :
    (bisectStep n upd maxvol s).xnew = some (freeze n (upd (mid s))) := by
  unfold bisectStep mid
  simp only []
  split_ifs <;> rfl

/-- the `xnew` left behind by the bisection is the stale one or an update for some multiplier -/
theorem bisect_xnew (n : Nat) (upd : α → Nat → α) (maxvol tol : α) (fuel : Nat) (s s' : BState α)
    (h : bisect n upd maxvol tol fuel s = some s') :
    s'.xnew = s.xnew ∨ ∃ lm, s'.xnew = some (freeze n (upd lm)) := by
  induction fuel generalizing s with
  | zero => simp [bisect] at h
  | succ fuel ih =>
    rw [bisect] at h
    split_ifs at h with hc
    · rcases ih _ h with e | e
      · right; exact ⟨mid s, by rw [e, bisectStep_xnew]⟩
      · right; exact e
    · left
      have : s = s' := by simpa using h
      rw [this]

/-- every entry within its bounds -/
def InB (n : Nat) (p : Params α) (x : Nat → α) : Prop := ∀ i, i < n → p.xmin i ≤ x i ∧ x i ≤ p.xmax i
/-- `y` differs from `x` by at most the move limit, entry by entry -/
def MoveOK (n : Nat) (p : Params α) (x y : Nat → α) : Prop := ∀ i, i < n → |y i - x i| ≤ p.move i

/-- invariant of the `for` loop -/
structure Good (n : Nat) (p : Params α) (s : LState α) : Prop where
  size : s.xval.size = n
  inb : InB n p (ofArr s.xval)
  st : concat s.states = s.xval.toList
  stale : s.xnew = none ∨ s.xnew = some s.xval
  tr_len : ∀ t ∈ s.trace, t.length = n
  tr_inb : ∀ t ∈ s.trace, InB n p (ofList t)
  chain : List.IsChain (fun newer older => MoveOK n p (ofList older) (ofList newer)) (s.xval.toList :: s.trace)

theorem moveOK_refl (n : Nat) (p : Params α) (hm : ∀ i, i < n → 0 ≤ p.move i) (x : Nat → α) : MoveOK n p x x := by
  intro i hi; simpa using hm i hi

theorem update_inB (sqrt : α → α) (p : Params α) (n : Nat) (x dfdx : Nat → α) (lam : α)
    (hm : ∀ i, i < n → 0 ≤ p.move i) (hx : InB n p x) :
    InB n p (update sqrt p.xmin p.xmax p.move x dfdx lam) ∧
    MoveOK n p x (update sqrt p.xmin p.xmax p.move x dfdx lam) := by
  constructor
  · intro i hi
    obtain ⟨h1, h2⟩ := hx i hi
    obtain ⟨a, b⟩ := update_mem sqrt p.xmin p.xmax p.move x dfdx lam i h1 h2 (hm i hi)
    exact ⟨le_trans (lower_le p.xmin p.move x i h1 (hm i hi)).1 a, le_trans b (le_upper p.xmax p.move x i h2 (hm i hi)).1⟩
  · intro i hi
    obtain ⟨h1, h2⟩ := hx i hi
    obtain ⟨a, b⟩ := update_mem sqrt p.xmin p.xmax p.move x dfdx lam i h1 h2 (hm i hi)
    have l := (lower_le p.xmin p.move x i h1 (hm i hi)).2.1
    have u := (le_upper p.xmax p.move x i h2 (hm i hi)).2.1
    rw [abs_le]; constructor <;> linarith

/-- what a finished run exposes is the trace and the states of a `Good` loop state -/
def OutGood (n : Nat) (p : Params α) (o : Out α) : Prop :=
  ∃ s', Good n p s' ∧ o.trace = s'.trace.reverse ∧ o.states = s'.states

theorem iteration_good (sqrt : α → α) (prob : Problem α) (p : Params α) (L0 : List (List α)) (fuel : Nat)
    (n : Nat) (hn : (concat L0).length = n) (hm : ∀ i, i < n → 0 ≤ p.move i)
    (s : LState α) (hg : Good n p s) (r : Step α)
    (h : iteration sqrt prob p (cumlens L0) L0.length fuel s = .ok r) :
    match r with
    | .cont s' => Good n p s'
    | .stop o => OutGood n p o := by
  -- the state after `function.response()`
  have hseen : ∀ f xnew relf relx margins, (xnew = none ∨ xnew = some s.xval) → Good n p
      { xval := s.xval, states := s.states, f := f, xnew := xnew, trace := concat s.states :: s.trace,
        relf := relf, relx := relx, margins := margins } := by
    intro f xnew relf relx margins hx
    refine ⟨hg.size, hg.inb, hg.st, hx, ?_, ?_, ?_⟩
    · intro t ht
      rcases List.mem_cons.mp ht with h | h
      · rw [h, hg.st, Array.length_toList]; exact hg.size
      · exact hg.tr_len t h
    · intro t ht
      rcases List.mem_cons.mp ht with h | h
      · rw [h, hg.st, ofList_toList]; exact hg.inb
      · exact hg.tr_inb t h
    · show List.IsChain _ (s.xval.toList :: concat s.states :: s.trace)
      rw [hg.st]
      exact List.IsChain.cons_cons (moveOK_refl n p hm _) hg.chain
  unfold iteration at h
  simp only [] at h
  split_ifs at h with h1 h2
  · -- stop on tolf
    injection h with h; subst h
    exact ⟨_, hseen s.f s.xnew s.relf s.relx s.margins hg.stale, rfl, rfl⟩
  · split at h
    · exact absurd h (by simp)
    · rename_i b hb
      split at h
      · exact absurd h (by simp)
      · rename_i xn hxn
        -- what `xn` is
        have hxn' : (xn = s.xval) ∨ ∃ lm, xn = freeze s.xval.size
            (update sqrt p.xmin p.xmax p.move (ofArr s.xval)
              (ofArr (freeze s.xval.size (clipGrad (prob (ofList (concat s.states))).2))) lm) := by
          rcases bisect_xnew _ _ _ _ _ _ _ hb with e | ⟨lm, e⟩
          · left
            rw [hxn] at e
            rcases hg.stale with e' | e'
            · rw [e'] at e; exact absurd e (by simp)
            · rw [e'] at e; exact (Option.some.inj e)
          · right; exact ⟨lm, by rw [hxn] at e; exact Option.some.inj e⟩
        have hsz : xn.size = n := by
          rcases hxn' with e | ⟨lm, e⟩
          · rw [e]; exact hg.size
          · rw [e, freeze_size]; exact hg.size
        have hprop : InB n p (ofArr xn) ∧ MoveOK n p (ofArr s.xval) (ofArr xn) := by
          rcases hxn' with e | ⟨lm, e⟩
          · rw [e]; exact ⟨hg.inb, moveOK_refl n p hm _⟩
          · obtain ⟨a, b⟩ := update_inB sqrt p n (ofArr s.xval)
              (ofArr (freeze s.xval.size (clipGrad (prob (ofList (concat s.states))).2))) lm hm hg.inb
            have hsize := hg.size
            rw [e]
            clear e hxn hb
            subst hsize
            constructor
            · intro i hi; rw [ofArr_freeze _ _ i hi]; exact a i hi
            · intro i hi; rw [ofArr_freeze _ _ i hi]; exact b i hi
        split_ifs at h with h3
        · -- stop on tolx: nothing written back
          injection h with h; subst h
          exact ⟨_, hseen s.f s.xnew s.relf s.relx s.margins hg.stale, rfl, rfl⟩
        · injection h with h; subst h
          have hs := hseen (prob (ofList (concat s.states))).1 s.xnew [] [] [] hg.stale
          refine ⟨hsz, hprop.1, ?_, Or.inr rfl, hs.tr_len, hs.tr_inb, ?_⟩
          · exact concat_writeBack L0 xn.toList (by rw [Array.length_toList, hsz, hn])
          · refine List.IsChain.cons_cons ?_ hs.chain.tail
            rw [hg.st, ofList_toList, ofList_toList]
            exact hprop.2


theorem loop_good (sqrt : α → α) (prob : Problem α) (p : Params α) (L0 : List (List α)) (fuel : Nat)
    (n : Nat) (hn : (concat L0).length = n) (hm : ∀ i, i < n → 0 ≤ p.move i)
    (k : Nat) (s : LState α) (hg : Good n p s) (o : Out α)
    (h : loop sqrt prob p (cumlens L0) L0.length fuel k s = .ok o) : OutGood n p o := by
  induction k generalizing s with
  | zero =>
    rw [loop] at h
    injection h with h; subst h
    exact ⟨s, hg, rfl, rfl⟩
  | succ k ih =>
    rw [loop] at h
    split at h
    · exact absurd h (by simp)
    · rename_i o' hi
      injection h with h; subst h
      exact iteration_good sqrt prob p L0 fuel n hn hm s hg _ hi
    · rename_i s' hi
      exact ih s' (iteration_good sqrt prob p L0 fuel n hn hm s hg _ hi) h

theorem concatenate_some {β} (L0 : List (List β)) :
    concatenate (L0.map some) = .ok (concat L0, cumlens L0) := by
  unfold concatenate
  have h1 : (L0.map some).any Option.isNone = false := by simp
  have h2 : (L0.map some).map (fun o => o.getD []) = L0 := by simp
  simp only [h1, h2]
  rfl

theorem minimizeOC_good (sqrt : α → α) (prob : Problem α) (L0 : List (List α))
    (tolx tolf : α) (maxit : Nat) (xmin xmax move : Bnd α) (l1init l2init l1l2tol : α) (maxvol : Option α)
    (fuel : Nat) (xmn xmx mvv : Nat → α)
    (h1 : bcast (concat L0).length xmin = .ok xmn) (h2 : bcast (concat L0).length xmax = .ok xmx)
    (h3 : bcast (concat L0).length move = .ok mvv)
    (hx : ∀ i, i < (concat L0).length → xmn i ≤ ofList (concat L0) i ∧ ofList (concat L0) i ≤ xmx i)
    (hm : ∀ i, i < (concat L0).length → 0 ≤ mvv i) (o : Out α)
    (h : minimizeOC sqrt prob (L0.map some) tolx tolf maxit xmin xmax move l1init l2init l1l2tol maxvol fuel = .ok o) :
    ∃ p : Params α, p.xmin = xmn ∧ p.xmax = xmx ∧ p.move = mvv ∧ OutGood (concat L0).length p o := by
  unfold minimizeOC at h
  rw [concatenate_some] at h
  simp only [bind, Except.bind, h1, h2, h3, pure, Except.pure] at h
  have e : (L0.map some).map (fun o => o.getD []) = L0 := by simp
  rw [e] at h
  refine ⟨⟨tolx, tolf, maxit, xmn, xmx, mvv, l1init, l2init, l1l2tol, _⟩, rfl, rfl, rfl,
    loop_good sqrt prob _ L0 fuel _ rfl hm maxit _ ?_ o h⟩
  refine ⟨by simp, ?_, by simp, Or.inl rfl, by simp, by simp, by simp⟩
  intro i hi
  rw [ofArr_toArray]
  exact hx i hi


end Field
end PymotoVerif.OC
