/- helper lemmas for C17: the bisection `while l2 - l1 > l1l2tol` halves the bracket in every pass, hence terminates
   after `k` passes once `(l2 - l1) ≤ l1l2tol · 2^k`; more fuel does not change the result;
   the un-clipped OC update of the separable objective `Σ cᵢ/xᵢ` is `sqrt(cᵢ/λ)`, whatever the current design is. -/
import PymotoVerif.Lemmas.OCVolume
import Mathlib.Tactic.Linarith
import Mathlib.Tactic.Ring
import Mathlib.Tactic.FieldSimp

set_option linter.unusedSectionVars false
namespace PymotoVerif.OC
open PymotoVerif PymotoVerif.DV

section Field
variable {α : Type} [Field α] [LinearOrder α] [IsStrictOrderedRing α]

/-- every pass of the `while` body halves the width of the bracket, whichever end moves -/
theorem bisectStep_width (n : Nat) (upd : α → Nat → α) (maxvol : α) (s : BState α) :
    (bisectStep n upd maxvol s).l2 - (bisectStep n upd maxvol s).l1 = (s.l2 - s.l1) / 2 := by
  have h5 : (0.5 : α) = 1 / 2 := by norm_num
  by_cases hv : maxvol < volF n upd (mid s)
  · obtain ⟨e1, e2, _⟩ := bisectStep_above n upd maxvol s hv
    rw [e1, e2, mid, h5]; ring
  · obtain ⟨e1, e2, _⟩ := bisectStep_below n upd maxvol s hv
    rw [e1, e2, mid, h5]; ring

/-- width after `k` passes -/
theorem iterate_width (n : Nat) (upd : α → Nat → α) (maxvol : α) (s : BState α) (k : Nat) :
    ((bisectStep n upd maxvol)^[k] s).l2 - ((bisectStep n upd maxvol)^[k] s).l1 = (s.l2 - s.l1) / 2 ^ k := by
  induction k generalizing s with
  | zero => simp
  | succ k ih =>
    rw [Function.iterate_succ_apply, ih, bisectStep_width, pow_succ]
    field_simp

/-- **termination**: if the width of the bracket is at most `tol · 2^k`, the loop ends within `k` passes
    (fuel `k + 1` suffices: `k` passes and the final test) -/
theorem bisect_terminates (n : Nat) (upd : α → Nat → α) (maxvol tol : α) (k : Nat) (s : BState α)
    (hw : s.l2 - s.l1 ≤ tol * 2 ^ k) : ∃ s', bisect n upd maxvol tol (k + 1) s = some s' := by
  induction k generalizing s with
  | zero =>
    rw [bisect]
    have : ¬ tol < s.l2 - s.l1 := by simpa using hw
    simp [this]
  | succ k ih =>
    rw [bisect]
    split_ifs with hc
    · apply ih
      rw [bisectStep_width]
      rw [pow_succ] at hw
      linarith
    · exact ⟨s, rfl⟩

/-- more fuel than needed does not change what the loop returns -/
theorem bisect_fuel_mono (n : Nat) (upd : α → Nat → α) (maxvol tol : α) (f : Nat) (s s' : BState α)
    (h : bisect n upd maxvol tol f s = some s') (g : Nat) (hg : f ≤ g) : bisect n upd maxvol tol g s = some s' := by
  induction f generalizing s g with
  | zero => simp [bisect] at h
  | succ f ih =>
    obtain ⟨g', rfl⟩ : ∃ g', g = g' + 1 := ⟨g - 1, by omega⟩
    rw [bisect] at h ⊢
    split_ifs at h ⊢ with hc
    · exact ih _ h g' (by omega)
    · exact h

/-! ## separable objective `Σ cᵢ/xᵢ` -/

/-- for `x > 0`, `c ≥ 0`, `λ > 0` and the gradient `-c/x²` of `c/x`, the un-clipped update `x·sqrt(-g/λ)` is
    `sqrt(c/λ)`: it does not depend on the current design -/
theorem separable_update {sqrt : α → α} (hs : SqrtOK sqrt) (x c l : α) (hx : 0 < x) (hc : 0 ≤ c) (hl : 0 < l) :
    x * sqrt (-(-(c / (x * x))) / l) = sqrt (c / l) := by
  have hxx : 0 < x * x := mul_pos hx hx
  have ha : 0 ≤ -(-(c / (x * x))) / l := by
    rw [neg_neg]; exact div_nonneg (div_nonneg hc hxx.le) hl.le
  have h1 : 0 ≤ x * sqrt (-(-(c / (x * x))) / l) := mul_nonneg hx.le (hs.nonneg _ ha)
  have h2 : 0 ≤ sqrt (c / l) := hs.nonneg _ (div_nonneg hc hl.le)
  apply (mul_self_inj h1 h2).mp
  rw [hs.sq _ (div_nonneg hc hl.le), mul_mul_mul_comm, hs.sq _ ha, neg_neg]
  field_simp

/-- `φ(y) − φ(x) = (y − x)(λxy − c)/(xy)` for `φ(t) = c/t + λt` -/
theorem lagr_diff (c l x y : α) (hx : 0 < x) (hy : 0 < y) :
    (c / y + l * y) - (c / x + l * x) = (y - x) * (l * x * y - c) / (x * y) := by
  field_simp
  ring

/-- the clipped stationary point minimises the Lagrangian term `c/t + λt` over the box: with `t² = c/λ`, `t ≥ 0`,
    `x = clip(t, lo, hi)`, `0 < lo ≤ hi`, every `y ∈ [lo, hi]` has `c/x + λx ≤ c/y + λy` -/
theorem lagr_min (c l t lo hi y : α) (hl : 0 < l) (ht : 0 ≤ t) (htt : t * t = c / l) (hlo : 0 < lo) (hlh : lo ≤ hi)
    (hy1 : lo ≤ y) (hy2 : y ≤ hi) :
    c / clip t lo hi + l * clip t lo hi ≤ c / y + l * y := by
  have hy : 0 < y := lt_of_lt_of_le hlo hy1
  have hc : c = l * (t * t) := by rw [htt]; field_simp
  obtain ⟨hx1, hx2⟩ := clip_mem t lo hi hlh
  have hx : 0 < clip t lo hi := lt_of_lt_of_le hlo hx1
  rw [← sub_nonneg, lagr_diff c l _ y hx hy]
  apply div_nonneg _ (mul_pos hx hy).le
  rw [clip_eq] at hx hx1 hx2 ⊢
  rcases le_total t lo with h1 | h1
  · -- clipped to lo : λ·lo·y ≥ λ·t² = c
    rw [max_eq_right h1, min_eq_left hlh]
    apply mul_nonneg (sub_nonneg.mpr hy1)
    rw [hc, sub_nonneg, mul_assoc]
    apply mul_le_mul_of_nonneg_left _ hl.le
    exact mul_le_mul h1 (le_trans h1 hy1) ht hlo.le
  · rw [max_eq_left h1]
    rcases le_total t hi with h2 | h2
    · -- interior : (y − t)·λ·t·(y − t) ≥ 0
      rw [min_eq_left h2, hc]
      have : (y - t) * (l * t * y - l * (t * t)) = l * t * ((y - t) * (y - t)) := by ring
      rw [this]
      exact mul_nonneg (mul_nonneg hl.le ht) (mul_self_nonneg _)
    · -- clipped to hi : λ·hi·y ≤ λ·t² = c
      rw [min_eq_right h2]
      apply mul_nonneg_of_nonpos_of_nonpos (sub_nonpos.mpr hy2)
      rw [hc, sub_nonpos, mul_assoc]
      apply mul_le_mul_of_nonneg_left _ hl.le
      exact mul_le_mul h2 (le_trans hy2 h2) hy.le ht

theorem sumRange_add' (n : Nat) (f g : Nat → α) :
    sumRange n (fun i => f i + g i) = sumRange n f + sumRange n g := by
  induction n with
  | zero => simp [sumRange]
  | succ n ih => simp only [sumRange, ih]; ring

theorem sumRange_mul_left' (n : Nat) (a : α) (f : Nat → α) :
    sumRange n (fun i => a * f i) = a * sumRange n f := by
  induction n with
  | zero => simp [sumRange]
  | succ n ih => simp only [sumRange, ih]; ring

/-- an iteration of `minimize_oc` whose fuel covers the `k` halvings the bracket needs never reports the fuel running out -/
theorem iteration_not_diverges (sqrt : α → α) (prob : Problem α) (p : Params α) (cumulative : List Nat) (nsig fuel k : Nat)
    (s : LState α) (hw : p.l2init - p.l1init ≤ p.l1l2tol * 2 ^ k) (hf : k + 1 ≤ fuel) :
    iteration sqrt prob p cumulative nsig fuel s ≠ .error "Diverges" := by
  intro h
  unfold iteration at h
  simp only [] at h
  split_ifs at h with h1 h2
  · simp at h
  split at h
  · rename_i hb
    obtain ⟨s', hs'⟩ := bisect_terminates s.xval.size
      (update sqrt p.xmin p.xmax p.move (ofArr s.xval)
        (ofArr (freeze s.xval.size (clipGrad (prob (ofList (concat s.states))).2))))
      p.maxvol p.l1l2tol k ⟨p.l1init, p.l2init, s.xnew, none⟩ hw
    have := bisect_fuel_mono _ _ _ _ _ _ _ hs' fuel hf
    rw [this] at hb
    exact absurd hb (by simp)
  · split at h
    · exact absurd h (by simp)
    · split_ifs at h

end Field
end PymotoVerif.OC
