/- helper lemmas for C17, volume tolerance: under the contract of the square root (`sqrt a ≥ 0`, `sqrt a · sqrt a = a`
   for `a ≥ 0`) the clipped OC update is Lipschitz in the multiplier on `[l, ∞)`, `l > 0`, with the explicit constant
   `x·sqrt(-g) / (2·l·sqrt l)`; positivity of the bracket; what one `for` iteration hands on. -/
import PymotoVerif.Lemmas.OC
import PymotoVerif.Lemmas.Sum
import Mathlib.Tactic.FieldSimp
import Mathlib.Tactic.Positivity

set_option linter.unusedSectionVars false
namespace PymotoVerif.OC
open PymotoVerif PymotoVerif.DV Finset

section Field
variable {α : Type} [Field α] [LinearOrder α] [IsStrictOrderedRing α]

/-! ## the square root under its contract -/

/-- contract of `np.sqrt` on the non-negative reals -/
structure SqrtOK (sqrt : α → α) : Prop where
  nonneg : ∀ a, 0 ≤ a → 0 ≤ sqrt a
  sq : ∀ a, 0 ≤ a → sqrt a * sqrt a = a

theorem SqrtOK.mono {sqrt : α → α} (hs : SqrtOK sqrt) (a b : α) (ha : 0 ≤ a) (hab : a ≤ b) : sqrt a ≤ sqrt b := by
  have hb : 0 ≤ b := le_trans ha hab
  by_contra hlt
  have hlt' : sqrt b < sqrt a := not_le.mp hlt
  have : sqrt b * sqrt b < sqrt a * sqrt a :=
    mul_self_lt_mul_self (hs.nonneg b hb) hlt'
  rw [hs.sq a ha, hs.sq b hb] at this
  exact absurd hab (not_le.mpr this)

theorem SqrtOK.pos {sqrt : α → α} (hs : SqrtOK sqrt) (a : α) (ha : 0 < a) : 0 < sqrt a := by
  rcases (hs.nonneg a ha.le).lt_or_eq with h | h
  · exact h
  · have := hs.sq a ha.le
    rw [← h, mul_zero] at this
    exact absurd this.symm ha.ne'

theorem SqrtOK.div {sqrt : α → α} (hs : SqrtOK sqrt) (c l : α) (hc : 0 ≤ c) (hl : 0 < l) :
    sqrt (c / l) = sqrt c / sqrt l := by
  have hp := hs.pos l hl
  have h1 : 0 ≤ sqrt (c / l) := hs.nonneg _ (div_nonneg hc hl.le)
  have h2 : 0 ≤ sqrt c / sqrt l := div_nonneg (hs.nonneg c hc) hp.le
  have e : sqrt (c / l) * sqrt (c / l) = (sqrt c / sqrt l) * (sqrt c / sqrt l) := by
    rw [hs.sq _ (div_nonneg hc hl.le), div_mul_div_comm, hs.sq c hc, hs.sq l hl.le]
  exact (mul_self_inj h1 h2).mp e

/-- the scalar heart of the matter: for `c ≥ 0` and `0 < l ≤ l'`,
    `0 ≤ sqrt(c/l) − sqrt(c/l') ≤ sqrt c · (l' − l) / (2·l·sqrt l)` -/
theorem SqrtOK.div_lipschitz {sqrt : α → α} (hs : SqrtOK sqrt) (c l l' : α) (hc : 0 ≤ c) (hl : 0 < l) (hll : l ≤ l') :
    sqrt (c / l') ≤ sqrt (c / l) ∧ sqrt (c / l) - sqrt (c / l') ≤ sqrt c * (l' - l) / (2 * l * sqrt l) := by
  have hl' : 0 < l' := lt_of_lt_of_le hl hll
  have hp : 0 < sqrt l := hs.pos l hl
  have hq : 0 < sqrt l' := hs.pos l' hl'
  have hpq : sqrt l ≤ sqrt l' := hs.mono l l' hl.le hll
  have hr : 0 ≤ sqrt c := hs.nonneg c hc
  constructor
  · exact hs.mono _ _ (div_nonneg hc hl'.le) (div_le_div_of_nonneg_left hc hl hll)
  · rw [hs.div c l hc hl, hs.div c l' hc hl']
    -- in terms of p = sqrt l, q = sqrt l', r = sqrt c
    have e1 : l = sqrt l * sqrt l := (hs.sq l hl.le).symm
    have e2 : l' = sqrt l' * sqrt l' := (hs.sq l' hl'.le).symm
    generalize sqrt l = p at *
    generalize sqrt l' = q at *
    generalize sqrt c = r at *
    rw [e1, e2]
    have hpp : 0 < p * p := mul_pos hp hp
    rw [div_sub_div _ _ hp.ne' hq.ne', div_le_div_iff₀ (mul_pos hp hq) (by positivity)]
    -- r (q − p) · 2 p³ ≤ r (q² − p²) · p q
    have h3 : 0 ≤ q - p := sub_nonneg.mpr hpq
    have key : 0 ≤ r * (q - p) * p * (q * q + p * q - 2 * (p * p)) := by
      have : 0 ≤ q * q + p * q - 2 * (p * p) := by nlinarith
      positivity
    nlinarith [key]

/-! ## clip is 1-Lipschitz -/

theorem clip_sub_le (a b lo hi : α) (h : a ≤ b) : clip b lo hi - clip a lo hi ≤ b - a := by
  rw [clip_eq, clip_eq]
  simp only [max_def, min_def]
  split_ifs <;> linarith

/-! ## the update and the volume -/

/-- Lipschitz bound of one component of the update in the multiplier -/
theorem update_lipschitz {sqrt : α → α} (hs : SqrtOK sqrt) (xmin xmax move xval dfdx : Nat → α) (i : Nat)
    (hx : 0 ≤ xval i) (hg : dfdx i ≤ 0) (l l' : α) (hl : 0 < l) (hll : l ≤ l') :
    update sqrt xmin xmax move xval dfdx l i - update sqrt xmin xmax move xval dfdx l' i
      ≤ xval i * sqrt (-(dfdx i)) * ((l' - l) / (2 * l * sqrt l)) := by
  have hc : 0 ≤ -(dfdx i) := neg_nonneg.mpr hg
  obtain ⟨h1, h2⟩ := hs.div_lipschitz (-(dfdx i)) l l' hc hl hll
  unfold update
  refine le_trans (clip_sub_le _ _ _ _ (mul_le_mul_of_nonneg_left h1 hx)) ?_
  rw [← mul_sub, mul_assoc]
  apply mul_le_mul_of_nonneg_left _ hx
  rw [← mul_div_assoc]
  exact h2

/-- the constant `A = Σ xᵢ·sqrt(−gᵢ)` -/
def ocA (sqrt : α → α) (n : Nat) (xval dfdx : Nat → α) : α := ∑ i ∈ range n, xval i * sqrt (-(dfdx i))

theorem ocA_nonneg {sqrt : α → α} (hs : SqrtOK sqrt) (n : Nat) (xval dfdx : Nat → α)
    (hx : ∀ i, i < n → 0 ≤ xval i) (hg : ∀ i, i < n → dfdx i ≤ 0) : 0 ≤ ocA sqrt n xval dfdx :=
  Finset.sum_nonneg fun i hi =>
    mul_nonneg (hx i (mem_range.mp hi)) (hs.nonneg _ (neg_nonneg.mpr (hg i (mem_range.mp hi))))

/-- **the volume is Lipschitz in the multiplier on `[l, ∞)`**:
    `vol(l) − vol(l') ≤ A · (l' − l) / (2·l·sqrt l)` for `0 < l ≤ l'` -/
theorem volume_lipschitz {sqrt : α → α} (hs : SqrtOK sqrt) (n : Nat) (xmin xmax move xval dfdx : Nat → α)
    (hx : ∀ i, i < n → 0 ≤ xval i) (hg : ∀ i, i < n → dfdx i ≤ 0) (l l' : α) (hl : 0 < l) (hll : l ≤ l') :
    volF n (update sqrt xmin xmax move xval dfdx) l - volF n (update sqrt xmin xmax move xval dfdx) l'
      ≤ ocA sqrt n xval dfdx * (l' - l) / (2 * l * sqrt l) := by
  unfold volF volume ocA
  rw [sumRange_eq, sumRange_eq, ← Finset.sum_sub_distrib, mul_div_assoc, Finset.sum_mul]
  exact Finset.sum_le_sum fun i hi =>
    update_lipschitz hs xmin xmax move xval dfdx i (hx i (mem_range.mp hi)) (hg i (mem_range.mp hi)) l l' hl hll

/-- monotonicity under the contract (the `sqrt` of `oc_volume_monotone` need only be monotone on `[0, ∞)`) -/
theorem volume_antitone {sqrt : α → α} (hs : SqrtOK sqrt) (n : Nat) (xmin xmax move xval dfdx : Nat → α)
    (hx : ∀ i, i < n → 0 ≤ xval i) (hg : ∀ i, i < n → dfdx i ≤ 0) (l l' : α) (hl : 0 < l) (hll : l ≤ l') :
    volF n (update sqrt xmin xmax move xval dfdx) l' ≤ volF n (update sqrt xmin xmax move xval dfdx) l := by
  apply volume_mono
  intro i hi
  unfold update
  apply clip_mono
  apply mul_le_mul_of_nonneg_left _ (hx i hi)
  exact (hs.div_lipschitz (-(dfdx i)) l l' (neg_nonneg.mpr (hg i hi)) hl hll).1

/-- the bound `A·w / (2·l·sqrt l)` gets better with a larger lower end and a narrower bracket -/
theorem ocBound_mono {sqrt : α → α} (hs : SqrtOK sqrt) (A w w' l μ : α) (hA : 0 ≤ A) (hw : w ≤ w') (hw0 : 0 ≤ w')
    (hμ : 0 < μ) (hl : μ ≤ l) : A * w / (2 * l * sqrt l) ≤ A * w' / (2 * μ * sqrt μ) := by
  have h1 : 0 < sqrt μ := hs.pos μ hμ
  have h2 : sqrt μ ≤ sqrt l := hs.mono μ l hμ.le hl
  have hden : 2 * μ * sqrt μ ≤ 2 * l * sqrt l :=
    mul_le_mul (by linarith) h2 h1.le (by linarith)
  have hnum : A * w ≤ A * w' := mul_le_mul_of_nonneg_left hw hA
  exact div_le_div₀ (mul_nonneg hA hw0) hnum (by positivity) hden

/-! ## the bracket stays positive -/

theorem bisectStep_pos (n : Nat) (upd : α → Nat → α) (maxvol : α) (s : BState α) (h0 : 0 ≤ s.l1) (h2 : 0 < s.l2) :
    0 ≤ (bisectStep n upd maxvol s).l1 ∧ 0 < (bisectStep n upd maxvol s).l2 := by
  have hm : 0 < mid s := by
    unfold mid
    have h5 : (0.5 : α) = 1 / 2 := by norm_num
    rw [h5]; linarith
  by_cases hv : maxvol < volF n upd (mid s)
  · obtain ⟨e1, e2, _⟩ := bisectStep_above n upd maxvol s hv
    rw [e1, e2]; exact ⟨hm.le, h2⟩
  · obtain ⟨e1, e2, _⟩ := bisectStep_below n upd maxvol s hv
    rw [e1, e2]; exact ⟨h0, hm⟩

theorem bisect_pos (n : Nat) (upd : α → Nat → α) (maxvol tol : α) (fuel : Nat) (s s' : BState α)
    (h0 : 0 ≤ s.l1) (h2 : 0 < s.l2) (h : bisect n upd maxvol tol fuel s = some s') : 0 ≤ s'.l1 ∧ 0 < s'.l2 := by
  induction fuel generalizing s with
  | zero => simp [bisect] at h
  | succ fuel ih =>
    rw [bisect] at h
    split_ifs at h with hc
    · obtain ⟨a, b⟩ := bisectStep_pos n upd maxvol s h0 h2
      exact ih _ a b h
    · have : s = s' := by simpa using h
      rw [← this]; exact ⟨h0, h2⟩

/-! ## exit of the bisection -/

/-- exit with both ends known to be on the right side of the target: the volume of the returned design is squeezed
    between `vol(l2)` and `vol(l1)`, whose distance is bounded by the Lipschitz estimate -/
theorem bisect_exit_volume {sqrt : α → α} (hs : SqrtOK sqrt) (n : Nat) (xmin xmax move xval dfdx : Nat → α)
    (hx : ∀ i, i < n → 0 ≤ xval i) (hg : ∀ i, i < n → dfdx i ≤ 0) (maxvol tol : α) (fuel : Nat) (s s' : BState α)
    (hord : s.l1 ≤ s.l2)
    (h : bisect n (update sqrt xmin xmax move xval dfdx) maxvol tol fuel s = some s')
    (hpos : 0 < s'.l1) (hl : s'.l1 ≠ s.l1)
    (hQ : volF n (update sqrt xmin xmax move xval dfdx) s'.l2 ≤ maxvol) :
    ∃ xn, s'.xnew = some xn ∧
      |volume n (ofArr xn) - maxvol| ≤ ocA sqrt n xval dfdx * (s'.l2 - s'.l1) / (2 * s'.l1 * sqrt s'.l1) := by
  obtain ⟨hb, _⟩ := bisect_inv n _ maxvol tol fuel s s' hord h
  have hP : maxvol < volF n (update sqrt xmin xmax move xval dfdx) s'.l1 := hb.above.resolve_left hl
  have hlip := volume_lipschitz hs n xmin xmax move xval dfdx hx hg s'.l1 s'.l2 hpos (hb.ord hord)
  rcases hb.xnew with ⟨_, e, _⟩ | ⟨lm, hlm, e⟩
  · exact absurd e hl
  · refine ⟨_, e, ?_⟩
    rw [volume_ofArr_freeze]
    change |volF n (update sqrt xmin xmax move xval dfdx) lm - maxvol| ≤ _
    rw [abs_le]
    rcases hlm with e' | e' <;> rw [e'] <;> constructor <;> linarith

/-! ## one `for` iteration: what is handed on -/

/-- an iteration that continues has run the bisection from `[l1init, l2init]` on the update for the current design and
    the clipped gradient, and hands on the `xnew` the bisection left behind -/
theorem iteration_cont_spec (sqrt : α → α) (prob : Problem α) (p : Params α) (cumulative : List Nat) (nsig fuel : Nat)
    (s s' : LState α) (h : iteration sqrt prob p cumulative nsig fuel s = .ok (.cont s')) :
    ∃ b, bisect s.xval.size
        (update sqrt p.xmin p.xmax p.move (ofArr s.xval)
          (ofArr (freeze s.xval.size (clipGrad (prob (ofList (concat s.states))).2))))
        p.maxvol p.l1l2tol fuel ⟨p.l1init, p.l2init, s.xnew, none⟩ = some b ∧
      b.xnew = some s'.xval ∧ s'.states = writeBack s'.xval.toList cumulative nsig := by
  unfold iteration at h
  simp only [] at h
  split_ifs at h with h1 h2
  · exact absurd h (by simp)
  · split at h
    · exact absurd h (by simp)
    · rename_i b hb
      split at h
      · exact absurd h (by simp)
      · rename_i xn hxn
        split_ifs at h with h3
        · exact absurd h (by simp)
        · injection h with h
          injection h with h
          subst h
          exact ⟨b, hb, hxn, rfl⟩

end Field
end PymotoVerif.OC
