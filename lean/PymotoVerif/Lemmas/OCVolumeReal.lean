/- C17, volume tolerance: `Real.sqrt` satisfies the contract `SqrtOK`, and a worked bisection over `ℝ`
   (one variable `x = 1`, gradient `-1`, bounds `[0, 1]`, move `1`, target volume `1/2`, bracket `[0, 8]`, tolerance `2`)
   used as the non-vacuity instance of the volume-tolerance theorems. -/
import PymotoVerif.Lemmas.OCVolume
import Mathlib.Analysis.Real.Sqrt

namespace PymotoVerif.OC
open PymotoVerif PymotoVerif.DV

theorem sqrtOK_real : SqrtOK Real.sqrt := ⟨fun a _ => Real.sqrt_nonneg a, fun _ ha => Real.mul_self_sqrt ha⟩

/-- the update of the worked example -/
noncomputable def demoUpd : ℝ → Nat → ℝ :=
  update Real.sqrt (fun _ => 0) (fun _ => 1) (fun _ => 1) (fun _ => 1) (fun _ => -1)

theorem demo_vol (l : ℝ) : volF 1 demoUpd l = min (Real.sqrt (1 / l)) 1 := by
  simp [volF, volume, sumRange, demoUpd, update, lower, upper, clip_eq, vmax_eq, vmin_eq]

theorem demo_v4 : ¬ (1 / 2 : ℝ) < volF 1 demoUpd 4 := by
  rw [demo_vol, not_lt]
  refine le_trans (min_le_left _ _) ?_
  rw [Real.sqrt_le_left (by norm_num)]
  norm_num

theorem demo_v8 : volF 1 demoUpd 8 ≤ 1 / 2 := by
  rw [demo_vol]
  refine le_trans (min_le_left _ _) ?_
  rw [Real.sqrt_le_left (by norm_num)]
  norm_num

theorem demo_v2 : (1 / 2 : ℝ) < volF 1 demoUpd 2 := by
  rw [demo_vol, lt_min_iff]
  refine ⟨?_, by norm_num⟩
  rw [Real.lt_sqrt (by norm_num)]
  norm_num

theorem demo_v3 : (1 / 2 : ℝ) < volF 1 demoUpd 3 := by
  rw [demo_vol, lt_min_iff]
  refine ⟨?_, by norm_num⟩
  rw [Real.lt_sqrt (by norm_num)]
  norm_num

/-- the bisection of the worked example: two passes, `[0, 8] → [0, 4] → [2, 4]` -/
theorem demo_bisect :
    ∃ s', bisect 1 demoUpd (1 / 2) 2 5 ⟨0, 8, none, none⟩ = some s' ∧ s'.l1 = 2 ∧ s'.l2 = 4 := by
  have m0 : mid (⟨0, 8, none, none⟩ : BState ℝ) = 4 := by
    unfold mid; norm_num
  obtain ⟨a1, a2, _⟩ := bisectStep_below 1 demoUpd (1 / 2) ⟨0, 8, none, none⟩ (by rw [m0]; exact demo_v4)
  have m1 : mid (bisectStep 1 demoUpd (1 / 2) ⟨0, 8, none, none⟩) = 2 := by
    unfold mid; rw [a1, a2, m0]; norm_num
  obtain ⟨b1, b2, _⟩ := bisectStep_above 1 demoUpd (1 / 2) (bisectStep 1 demoUpd (1 / 2) ⟨0, 8, none, none⟩)
    (by rw [m1]; exact demo_v2)
  refine ⟨bisectStep 1 demoUpd (1 / 2) (bisectStep 1 demoUpd (1 / 2) ⟨0, 8, none, none⟩), ?_,
    by rw [b1, m1], by rw [b2, a2, m0]⟩
  rw [bisect, if_pos (by norm_num)]
  rw [bisect, if_pos (by rw [a1, a2, m0]; norm_num)]
  rw [bisect, if_neg (by rw [b1, b2, a2, m1, m0]; norm_num)]

end PymotoVerif.OC
