/- helper lemmas for C05: the modified Gram–Schmidt of `orth` (`LA/CG.lean`) -/
import PymotoVerif.LA.CG
import Mathlib.LinearAlgebra.Span.Defs
import Mathlib.Algebra.Star.BigOperators
import Mathlib.Algebra.BigOperators.Field
import Mathlib.Tactic.Ring
import Mathlib.Tactic.FieldSimp

namespace PymotoVerif.LA
open Matrix

variable {α : Type*} [Field α] [StarRing α] {n : ℕ}

theorem dotc_star (a b : Fin n → α) : dotc a b = star (dotc b a) := by
  simp [dotc, dotProduct, star_sum, mul_comm]

/-- one step `vi -= vj * alpha_ij / alpha_jj` of the inner loop of `orth` -/
def mgsStep (nz : Bool) (vi vj : Fin n → α) : Fin n → α :=
  fun t => vi t - vj t * dotc vi vj / (if nz then 1 else dotc vj vj)

theorem orthProject_eq (nz : Bool) (acc : List (Fin n → α)) (u : Fin n → α) :
    orthProject nz acc u = acc.foldl (mgsStep nz) u := by
  simp only [orthProject, withMemoV_eq, id]
  rfl

/-- what `orth` appends for a kept vector -/
def keepV (nz : Bool) (sqrt : α → α) (vi : Fin n → α) : Fin n → α :=
  if nz then fun t => vi t / sqrt (dotc vi vi) else vi

theorem orthCols_nil [DecidableEq α] (nz : Bool) (sqrt : α → α) (lt : α → α → Bool) (rtol : α)
    (acc : List (Fin n → α)) : orthCols nz sqrt lt rtol acc [] = .ok acc := by
  simp [orthCols]

theorem orthCols_cons [DecidableEq α] (nz : Bool) (sqrt : α → α) (lt : α → α → Bool) (rtol : α)
    (acc : List (Fin n → α)) (u : Fin n → α) (us : List (Fin n → α)) :
    orthCols nz sqrt lt rtol acc (u :: us) =
      if dotc u u = 0 then orthCols nz sqrt lt rtol acc us
      else if lt (dotc (orthProject nz acc u) (orthProject nz acc u) / dotc u u) rtol = true then
        orthCols nz sqrt lt rtol acc us
      else orthCols nz sqrt lt rtol (acc ++ [keepV nz sqrt (orthProject nz acc u)]) us := by
  simp only [orthCols, withMemoV_eq, keepV]

theorem dotc_mgsStep (nz : Bool) (vi vj z : Fin n → α) :
    dotc (mgsStep nz vi vj) z = dotc vi z - dotc vj z * (dotc vi vj / (if nz then 1 else dotc vj vj)) := by
  simp only [dotc, dotProduct, mgsStep, sub_mul, Finset.sum_sub_distrib]
  congr 1
  rw [Finset.sum_mul]
  apply Finset.sum_congr rfl
  intro t _
  ring

theorem mgsStep_eq (nz : Bool) (vi vj : Fin n → α) :
    mgsStep nz vi vj = vi - (dotc vi vj / (if nz then 1 else dotc vj vj)) • vj := by
  funext t
  simp only [mgsStep, Pi.sub_apply, Pi.smul_apply, smul_eq_mul]
  ring

/-- orthogonality relation between two vectors (both orders) -/
def OrthR (a b : Fin n → α) : Prop := dotc a b = 0 ∧ dotc b a = 0

/-- a kept vector: non-zero norm, unit norm when `normalize` -/
def GoodV (nz : Bool) (v : Fin n → α) : Prop := dotc v v ≠ 0 ∧ (nz = true → dotc v v = 1)

theorem GoodV.ajj {nz : Bool} {v : Fin n → α} (h : GoodV nz v) : (if nz then 1 else dotc v v) = dotc v v := by
  cases nz
  · simp
  · simp [h.2 rfl]

theorem foldl_mgs_preserves (nz : Bool) (z : Fin n → α) :
    ∀ (rest : List (Fin n → α)) (u : Fin n → α), dotc u z = 0 → (∀ r ∈ rest, dotc r z = 0) →
      dotc (rest.foldl (mgsStep nz) u) z = 0 := by
  intro rest
  induction rest with
  | nil => intro u hu _; simpa using hu
  | cons r rest ih =>
    intro u hu hr
    rw [List.foldl_cons]
    apply ih
    · rw [dotc_mgsStep, hu, hr r (by simp)]; simp
    · intro r' hr'; exact hr r' (by simp [hr'])

theorem foldl_mgs_orth (nz : Bool) :
    ∀ (acc : List (Fin n → α)), acc.Pairwise OrthR → (∀ v ∈ acc, GoodV nz v) →
      ∀ (u : Fin n → α), ∀ w ∈ acc, dotc (acc.foldl (mgsStep nz) u) w = 0 := by
  intro acc
  induction acc with
  | nil => intro _ _ u w hw; simp at hw
  | cons v rest ih =>
    intro hp hg u w hw
    rw [List.pairwise_cons] at hp
    rw [List.foldl_cons]
    rcases List.mem_cons.mp hw with rfl | hw'
    · apply foldl_mgs_preserves
      · have hv := hg w (by simp)
        rw [dotc_mgsStep, hv.ajj]
        field_simp [hv.1]
        ring
      · intro r hr; exact (hp.1 r hr).2
    · exact ih hp.2 (fun v' hv' => hg v' (by simp [hv'])) _ w hw'

theorem dotc_div_left (vi w : Fin n → α) (s : α) : dotc (fun t => vi t / s) w = dotc vi w / s := by
  simp only [dotc, dotProduct, Finset.sum_div]
  apply Finset.sum_congr rfl
  intro t _
  ring

theorem dotc_div_self (vi : Fin n → α) (s : α) :
    dotc (fun t => vi t / s) (fun t => vi t / s) = dotc vi vi / (s * star s) := by
  simp only [dotc, dotProduct, Finset.sum_div, star_div₀]
  apply Finset.sum_congr rfl
  intro t _
  rw [div_mul_div_comm]

section main
variable [DecidableEq α]

/-- contracts: `sqrt(z) * conj(sqrt z) = z` on the squared norms that occur, and `0 < zero_rtol` -/
structure OrthContract (nz : Bool) (sqrt : α → α) (lt : α → α → Bool) (rtol : α) : Prop where
  sqrt_ok : nz = true → ∀ v : Fin n → α, sqrt (dotc v v) * star (sqrt (dotc v v)) = dotc v v
  lt_zero : lt 0 rtol = true

theorem keepV_good (nz : Bool) (sqrt : α → α) (vi : Fin n → α) (hne : dotc vi vi ≠ 0)
    (hs : nz = true → sqrt (dotc vi vi) * star (sqrt (dotc vi vi)) = dotc vi vi) : GoodV nz (keepV nz sqrt vi) := by
  cases nz
  · simpa [keepV, GoodV] using hne
  · have h1 : dotc (keepV true sqrt vi) (keepV true sqrt vi) = 1 := by
      simp only [keepV, if_true]
      rw [dotc_div_self, hs rfl, div_self hne]
    exact ⟨by rw [h1]; exact one_ne_zero, fun _ => h1⟩

theorem keepV_orth (nz : Bool) (sqrt : α → α) (vi w : Fin n → α) (h : dotc vi w = 0) :
    OrthR w (keepV nz sqrt vi) := by
  have h1 : dotc (keepV nz sqrt vi) w = 0 := by
    cases nz
    · simpa [keepV] using h
    · simp only [keepV, if_true]; rw [dotc_div_left, h, zero_div]
  exact ⟨by rw [dotc_star, h1, star_zero], h1⟩

/-- invariant of the outer loop: the kept vectors stay pairwise orthogonal, non-null, and of unit norm when `normalize` -/
theorem orthCols_orthogonal (nz : Bool) (sqrt : α → α) (lt : α → α → Bool) (rtol : α)
    (hc : OrthContract (n := n) nz sqrt lt rtol) :
    ∀ (us acc out : List (Fin n → α)), acc.Pairwise OrthR → (∀ v ∈ acc, GoodV nz v) →
      orthCols nz sqrt lt rtol acc us = .ok out → out.Pairwise OrthR ∧ ∀ v ∈ out, GoodV nz v := by
  intro us
  induction us with
  | nil =>
    intro acc out hp hg h
    rw [orthCols_nil] at h
    cases h
    exact ⟨hp, hg⟩
  | cons u us ih =>
    intro acc out hp hg h
    rw [orthCols_cons] at h
    split at h
    · exact ih acc out hp hg h
    · rename_i hb
      split at h
      · exact ih acc out hp hg h
      · rename_i hkeep
        have hne : dotc (orthProject nz acc u) (orthProject nz acc u) ≠ 0 := by
          intro h0
          apply hkeep
          rw [h0, zero_div]
          exact hc.lt_zero
        refine ih _ out ?_ ?_ h
        · rw [List.pairwise_append]
          refine ⟨hp, by simp, ?_⟩
          intro a ha b hb'
          rw [List.mem_singleton] at hb'
          subst hb'
          apply keepV_orth
          rw [orthProject_eq]
          exact foldl_mgs_orth nz acc hp hg u a ha
        · intro v hv
          rcases List.mem_append.mp hv with hv | hv
          · exact hg v hv
          · rw [List.mem_singleton] at hv
            subst hv
            exact keepV_good nz sqrt _ hne (fun h => hc.sqrt_ok h _)

/-- everything `orth` returns stays inside any subspace that contains the inputs -/
theorem foldl_mgs_mem (nz : Bool) (W : Submodule α (Fin n → α)) :
    ∀ (acc : List (Fin n → α)) (u : Fin n → α), u ∈ W → (∀ v ∈ acc, v ∈ W) → acc.foldl (mgsStep nz) u ∈ W := by
  intro acc
  induction acc with
  | nil => intro u hu _; simpa using hu
  | cons v rest ih =>
    intro u hu hacc
    rw [List.foldl_cons]
    apply ih
    · rw [mgsStep_eq]
      exact W.sub_mem hu (W.smul_mem _ (hacc v (by simp)))
    · intro v' hv'; exact hacc v' (by simp [hv'])

theorem keepV_mem (nz : Bool) (sqrt : α → α) (W : Submodule α (Fin n → α)) (vi : Fin n → α) (h : vi ∈ W) :
    keepV nz sqrt vi ∈ W := by
  cases nz
  · simpa [keepV] using h
  · have : keepV true sqrt vi = (1 / sqrt (dotc vi vi)) • vi := by
      funext t; simp [keepV, div_eq_inv_mul]
    rw [this]
    exact W.smul_mem _ h

theorem orthCols_mem (nz : Bool) (sqrt : α → α) (lt : α → α → Bool) (rtol : α) (W : Submodule α (Fin n → α)) :
    ∀ (us acc out : List (Fin n → α)), (∀ v ∈ acc, v ∈ W) → (∀ u ∈ us, u ∈ W) →
      orthCols nz sqrt lt rtol acc us = .ok out → ∀ v ∈ out, v ∈ W := by
  intro us
  induction us with
  | nil =>
    intro acc out ha _ h
    rw [orthCols_nil] at h
    cases h
    exact ha
  | cons u us ih =>
    intro acc out ha hu h
    have hus : ∀ u' ∈ us, u' ∈ W := fun u' hu' => hu u' (by simp [hu'])
    rw [orthCols_cons] at h
    split at h
    · exact ih acc out ha hus h
    · split at h
      · exact ih acc out ha hus h
      · refine ih _ out ?_ hus h
        intro v hv
        rcases List.mem_append.mp hv with hv | hv
        · exact ha v hv
        · rw [List.mem_singleton] at hv
          subst hv
          apply keepV_mem
          rw [orthProject_eq]
          exact foldl_mgs_mem nz W acc u (hu u (by simp)) ha

/-- span of the vectors of a list -/
def spanL (l : List (Fin n → α)) : Submodule α (Fin n → α) := Submodule.span α {w | w ∈ l}

theorem mem_spanL {l : List (Fin n → α)} {v : Fin n → α} (h : v ∈ l) : v ∈ spanL l :=
  Submodule.subset_span h

theorem spanL_mono {l l' : List (Fin n → α)} (h : ∀ v ∈ l, v ∈ l') : spanL l ≤ spanL l' :=
  Submodule.span_mono h

/-- the part removed by the projection lies in the span of the vectors projected against -/
theorem sub_foldl_mgs_mem (nz : Bool) :
    ∀ (acc : List (Fin n → α)) (u : Fin n → α), u - acc.foldl (mgsStep nz) u ∈ spanL acc := by
  intro acc
  induction acc with
  | nil => intro u; simp
  | cons v rest ih =>
    intro u
    rw [List.foldl_cons]
    have h1 : u - mgsStep nz u v ∈ spanL (v :: rest) := by
      rw [mgsStep_eq, sub_sub_cancel]
      exact (spanL (v :: rest)).smul_mem _ (mem_spanL (by simp))
    have h2 : mgsStep nz u v - rest.foldl (mgsStep nz) (mgsStep nz u v) ∈ spanL (v :: rest) :=
      spanL_mono (fun w hw => by simp [hw]) (ih (mgsStep nz u v))
    have := (spanL (v :: rest)).add_mem h1 h2
    simpa using this

/-- `orth` (as repaired) never fails -/
theorem orthCols_total (nz : Bool) (sqrt : α → α) (lt : α → α → Bool) (rtol : α) :
    ∀ (us acc : List (Fin n → α)), ∃ out, orthCols nz sqrt lt rtol acc us = .ok out := by
  intro us
  induction us with
  | nil => intro acc; exact ⟨acc, orthCols_nil _ _ _ _ _⟩
  | cons u us ih =>
    intro acc
    rw [orthCols_cons]
    split
    · exact ih acc
    · split
      · exact ih acc
      · exact ih _

/-- `orth` only appends -/
theorem orthCols_extends (nz : Bool) (sqrt : α → α) (lt : α → α → Bool) (rtol : α) :
    ∀ (us acc out : List (Fin n → α)), orthCols nz sqrt lt rtol acc us = .ok out → ∀ v ∈ acc, v ∈ out := by
  intro us
  induction us with
  | nil => intro acc out h; rw [orthCols_nil] at h; cases h; exact fun v hv => hv
  | cons u us ih =>
    intro acc out h
    rw [orthCols_cons] at h
    split at h
    · exact ih acc out h
    · split at h
      · exact ih acc out h
      · intro v hv; exact ih _ out h v (by simp [hv])

/-- every input column is, up to its dropped remainder, in the span of the returned columns -/
theorem orthCols_inputs (nz : Bool) (sqrt : α → α) (lt : α → α → Bool) (rtol : α)
    (hc : OrthContract (n := n) nz sqrt lt rtol) :
    ∀ (us acc out : List (Fin n → α)), orthCols nz sqrt lt rtol acc us = .ok out →
      ∀ u ∈ us, ∃ rem : Fin n → α, u - rem ∈ spanL out ∧
        (rem = 0 ∨ dotc u u = 0 ∨ lt (dotc rem rem / dotc u u) rtol = true) := by
  intro us
  induction us with
  | nil => intro acc out _ u hu; simp at hu
  | cons u us ih =>
    intro acc out h u' hu'
    rw [orthCols_cons] at h
    have hsub : u - orthProject nz acc u ∈ spanL acc := by
      rw [orthProject_eq]; exact sub_foldl_mgs_mem nz acc u
    split at h
    · rename_i hb
      rcases List.mem_cons.mp hu' with rfl | hu''
      · exact ⟨orthProject nz acc u', spanL_mono (orthCols_extends nz sqrt lt rtol us acc out h) hsub, Or.inr (Or.inl hb)⟩
      · exact ih acc out h u' hu''
    · split at h
      · rename_i hdrop
        rcases List.mem_cons.mp hu' with rfl | hu''
        · exact ⟨orthProject nz acc u', spanL_mono (orthCols_extends nz sqrt lt rtol us acc out h) hsub,
            Or.inr (Or.inr hdrop)⟩
        · exact ih acc out h u' hu''
      · rename_i hkeep
        rcases List.mem_cons.mp hu' with rfl | hu''
        · refine ⟨0, ?_, Or.inl rfl⟩
          have hext := orthCols_extends nz sqrt lt rtol us _ out h
          have hne : dotc (orthProject nz acc u') (orthProject nz acc u') ≠ 0 := by
            intro h0
            apply hkeep
            rw [h0, zero_div]
            exact hc.lt_zero
          have hk : keepV nz sqrt (orthProject nz acc u') ∈ spanL out := mem_spanL (hext _ (by simp))
          have hvi : orthProject nz acc u' ∈ spanL out := by
            cases nz
            · simpa [keepV] using hk
            · have hs := hc.sqrt_ok rfl (orthProject true acc u')
              have hs0 : sqrt (dotc (orthProject true acc u') (orthProject true acc u')) ≠ 0 := by
                intro h0; rw [h0, zero_mul] at hs; exact hne hs.symm
              have : orthProject true acc u' =
                  sqrt (dotc (orthProject true acc u') (orthProject true acc u')) • keepV true sqrt (orthProject true acc u') := by
                funext t
                simp only [keepV, if_true, Pi.smul_apply, smul_eq_mul]
                rw [mul_div_cancel₀ _ hs0]
              rw [this]
              exact (spanL out).smul_mem _ hk
          have h1 : u' - orthProject nz acc u' ∈ spanL out :=
            spanL_mono (fun v hv => hext v (by simp [hv])) hsub
          have := (spanL out).add_mem h1 hvi
          simpa using this
        · exact ih _ out h u' hu''
end main

end PymotoVerif.LA
