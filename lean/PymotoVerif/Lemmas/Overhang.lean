/- helper lemmas for C14: flat arrays, geometry of the layer sweep (the element numbers of layer `l` at in-layer
   position `(a, b)` and their decoding), the `while` loop as a fold over the layers in print order, and the
   refinement of `_response` to the layer recursion `specY` (Langelaar's scheme in layer coordinates). -/
import PymotoVerif.Core.Overhang
import PymotoVerif.Lemmas.Domain
import Mathlib.Tactic.Ring
import Mathlib.Tactic.Linarith
import Mathlib.Tactic.IntervalCases

set_option linter.unusedSectionVars false
set_option linter.unnecessarySeqFocus false

namespace PymotoVerif.Overhang
open PymotoVerif PymotoVerif.Domain

/-! ## flat arrays -/

theorem vget_vtab {α} [OfNat α 0] (n : Nat) (f : Nat → α) (e : Nat) :
    vget (vtab n f) e = if e < n then f e else 0 := by
  unfold vget vtab
  split
  · rename_i h
    simp [Array.getD, h]
  · rename_i h
    simp [Array.getD, h]

theorem vget_vtab_lt {α} [OfNat α 0] {n : Nat} (f : Nat → α) {e : Nat} (h : e < n) :
    vget (vtab n f) e = f e := by
  rw [vget_vtab, if_pos h]

theorem sumRange_congr {α} [Add α] [OfNat α 0] (n : Nat) (f g : Nat → α) (h : ∀ i, i < n → f i = g i) :
    sumRange n f = sumRange n g := by
  induction n with
  | zero => rfl
  | succ n ih =>
    rw [sumRange, sumRange, ih (fun i hi => h i (Nat.lt_succ_of_lt hi)), h n (Nat.lt_succ_self n)]

/-! ## geometry -/

namespace Geo

/-- the three axes `dir_layer, dir_orth1, dir_orth2` are a permutation of `0, 1, 2` -/
theorem axes_perm (g : Geo) (h : g.dirLayer < 3) :
    g.orth1 < 3 ∧ g.orth2 < 3 ∧ g.orth1 ≠ g.dirLayer ∧ g.orth2 ≠ g.dirLayer ∧ g.orth1 ≠ g.orth2 := by
  unfold orth1 orth2 orthPair
  have : g.dirLayer = 0 ∨ g.dirLayer = 1 ∨ g.dirLayer = 2 := by omega
  rcases this with h0 | h0 | h0 <;> rw [h0] <;> by_cases hd : g.dom.dim = 2 <;> simp [hd]

theorem axis_cases (g : Geo) (h : g.dirLayer < 3) (axis : Nat) (ha : axis < 3) :
    axis = g.dirLayer ∨ axis = g.orth1 ∨ axis = g.orth2 := by
  obtain ⟨h1, h2, h3, h4, h5⟩ := g.axes_perm h
  omega

/-- the coordinate function used by `el` -/
def cfun (g : Geo) (l a b : Nat) : Nat → Nat :=
  fun axis => if axis = g.dirLayer then l else if axis = g.orth1 then a else b

theorem el_eq (g : Geo) (l a b : Nat) :
    g.el l a b = g.dom.elemNumber (g.cfun l a b 0) (g.cfun l a b 1) (g.cfun l a b 2) := rfl

theorem cfun_lt (g : Geo) (h : g.dirLayer < 3) {l a b : Nat} (hl : l < g.nl) (ha : a < g.n1) (hb : b < g.n2)
    (axis : Nat) (hax : axis < 3) : g.cfun l a b axis < g.size axis := by
  unfold cfun
  split
  · rename_i h1; rw [h1]; exact hl
  · split
    · rename_i h1 h2; rw [h2]; exact ha
    · rename_i h1 h2
      rcases g.axis_cases h axis hax with h3 | h3 | h3
      · exact absurd h3 h1
      · exact absurd h3 h2
      · rw [h3]; exact hb

theorem coord_elemNumber (g : Geo) {i j k : Nat} (hi : i < g.dom.nelx) (hj : j < g.dom.nely) :
    g.coord 0 (g.dom.elemNumber i j k) = i ∧ g.coord 1 (g.dom.elemNumber i j k) = j ∧
    g.coord 2 (g.dom.elemNumber i j k) = k := by
  unfold coord Dom.elemNumber
  refine ⟨by simp [radix_mod hi], ?_, ?_⟩
  · simp only [if_neg (show (1:Nat) ≠ 0 by omega), if_true]
    rw [radix_div hi, radix_mod hj]
  · simp only [if_neg (show (2:Nat) ≠ 0 by omega), if_neg (show (2:Nat) ≠ 1 by omega)]
    rw [← Nat.div_div_eq_div_mul, radix_div hi, radix_div hj]

theorem size_0 (g : Geo) : g.size 0 = g.dom.nelx := by simp [size]
theorem size_1 (g : Geo) : g.size 1 = g.dom.nely := by simp [size]
theorem size_2 (g : Geo) : g.size 2 = g.dom.nz := by simp [size]

theorem coord_el (g : Geo) (h : g.dirLayer < 3) {l a b : Nat} (hl : l < g.nl) (ha : a < g.n1) (hb : b < g.n2)
    (axis : Nat) (hax : axis < 3) : g.coord axis (g.el l a b) = g.cfun l a b axis := by
  have h0 := g.cfun_lt h hl ha hb 0 (by omega)
  have h1 := g.cfun_lt h hl ha hb 1 (by omega)
  rw [size_0] at h0
  rw [size_1] at h1
  obtain ⟨c0, c1, c2⟩ := g.coord_elemNumber (k := g.cfun l a b 2) h0 h1
  rw [el_eq]
  have : axis = 0 ∨ axis = 1 ∨ axis = 2 := by omega
  rcases this with h | h | h <;> rw [h] <;> assumption

theorem el_lt (g : Geo) (h : g.dirLayer < 3) {l a b : Nat} (hl : l < g.nl) (ha : a < g.n1) (hb : b < g.n2) :
    g.el l a b < g.dom.nel := by
  have h0 := g.cfun_lt h hl ha hb 0 (by omega)
  have h1 := g.cfun_lt h hl ha hb 1 (by omega)
  have h2 := g.cfun_lt h hl ha hb 2 (by omega)
  rw [size_0] at h0
  rw [size_1] at h1
  rw [size_2] at h2
  rw [el_eq]
  unfold Dom.elemNumber Dom.nel
  have e1 : g.cfun l a b 2 * g.dom.nely + g.cfun l a b 1 < g.dom.nz * g.dom.nely := radix_lt h2 h1
  have e2 := radix_lt (n := g.dom.nelx) e1 h0
  calc _ < g.dom.nz * g.dom.nely * g.dom.nelx := e2
    _ = g.dom.nelx * g.dom.nely * g.dom.nz := by ring

theorem coord_dir_el (g : Geo) (h : g.dirLayer < 3) {l a b : Nat} (hl : l < g.nl) (ha : a < g.n1) (hb : b < g.n2) :
    g.coord g.dirLayer (g.el l a b) = l := by
  rw [g.coord_el h hl ha hb _ h]; simp [cfun]

theorem coord_orth1_el (g : Geo) (h : g.dirLayer < 3) {l a b : Nat} (hl : l < g.nl) (ha : a < g.n1) (hb : b < g.n2) :
    g.coord g.orth1 (g.el l a b) = a := by
  obtain ⟨h1, h2, h3, h4, h5⟩ := g.axes_perm h
  rw [g.coord_el h hl ha hb _ h1]; simp [cfun, h3]

theorem coord_orth2_el (g : Geo) (h : g.dirLayer < 3) {l a b : Nat} (hl : l < g.nl) (ha : a < g.n1) (hb : b < g.n2) :
    g.coord g.orth2 (g.el l a b) = b := by
  obtain ⟨h1, h2, h3, h4, h5⟩ := g.axes_perm h
  rw [g.coord_el h hl ha hb _ h2]; simp [cfun, h4, Ne.symm h5]

theorem inLayer_el (g : Geo) (h : g.dirLayer < 3) {l a b : Nat} (hl : l < g.nl) (ha : a < g.n1) (hb : b < g.n2)
    (l' : Nat) : g.inLayer l' (g.el l a b) = decide (l = l') := by
  unfold inLayer
  rw [g.coord_dir_el h hl ha hb]
  simp [g.el_lt h hl ha hb]

/-- the element numbers of the layers are injective in `(l, a, b)` -/
theorem el_inj (g : Geo) (h : g.dirLayer < 3) {l a b l' a' b' : Nat} (hl : l < g.nl) (ha : a < g.n1) (hb : b < g.n2)
    (hl' : l' < g.nl) (ha' : a' < g.n1) (hb' : b' < g.n2) (he : g.el l a b = g.el l' a' b') :
    l = l' ∧ a = a' ∧ b = b' := by
  refine ⟨?_, ?_, ?_⟩
  · rw [← g.coord_dir_el h hl ha hb, he, g.coord_dir_el h hl' ha' hb']
  · rw [← g.coord_orth1_el h hl ha hb, he, g.coord_orth1_el h hl' ha' hb']
  · rw [← g.coord_orth2_el h hl ha hb, he, g.coord_orth2_el h hl' ha' hb']

end Geo

namespace Geo

theorem coord_lt (g : Geo) {e : Nat} (he : e < g.dom.nel) (axis : Nat) (hax : axis < 3) :
    g.coord axis e < g.size axis := by
  unfold Dom.nel at he
  have hx : 0 < g.dom.nelx := by
    rcases Nat.eq_zero_or_pos g.dom.nelx with h | h
    · simp [h] at he
    · exact h
  have hy : 0 < g.dom.nely := by
    rcases Nat.eq_zero_or_pos g.dom.nely with h | h
    · simp [h] at he
    · exact h
  have : axis = 0 ∨ axis = 1 ∨ axis = 2 := by omega
  rcases this with h | h | h <;> subst h
  · simp only [coord, size, if_true]; exact Nat.mod_lt _ hx
  · simp only [coord, size, if_neg (show (1:Nat) ≠ 0 by omega), if_true]; exact Nat.mod_lt _ hy
  · simp only [coord, size, if_neg (show (2:Nat) ≠ 0 by omega), if_neg (show (2:Nat) ≠ 1 by omega)]
    rw [Nat.div_lt_iff_lt_mul (Nat.mul_pos hx hy)]
    calc e < g.dom.nelx * g.dom.nely * g.dom.nz := he
      _ = g.dom.nz * (g.dom.nelx * g.dom.nely) := by ring

theorem elemNumber_coord (g : Geo) (e : Nat) :
    g.dom.elemNumber (g.coord 0 e) (g.coord 1 e) (g.coord 2 e) = e := by
  unfold Dom.elemNumber coord
  simp only [if_true, if_neg (show (1:Nat) ≠ 0 by omega), if_neg (show (2:Nat) ≠ 0 by omega),
    if_neg (show (2:Nat) ≠ 1 by omega)]
  rw [← Nat.div_div_eq_div_mul]
  have h1 := Nat.div_add_mod (e / g.dom.nelx) g.dom.nely
  have h2 := Nat.div_add_mod e g.dom.nelx
  calc (e / g.dom.nelx / g.dom.nely * g.dom.nely + e / g.dom.nelx % g.dom.nely) * g.dom.nelx + e % g.dom.nelx
      = (g.dom.nely * (e / g.dom.nelx / g.dom.nely) + e / g.dom.nelx % g.dom.nely) * g.dom.nelx + e % g.dom.nelx := by ring
    _ = (e / g.dom.nelx) * g.dom.nelx + e % g.dom.nelx := by rw [h1]
    _ = g.dom.nelx * (e / g.dom.nelx) + e % g.dom.nelx := by ring
    _ = e := h2

/-- every element is the element of its layer at its in-layer position -/
theorem el_coord (g : Geo) (h : g.dirLayer < 3) (e : Nat) :
    g.el (g.coord g.dirLayer e) (g.coord g.orth1 e) (g.coord g.orth2 e) = e := by
  obtain ⟨h1, h2, h3, h4, h5⟩ := g.axes_perm h
  have hc : ∀ axis, axis < 3 →
      g.cfun (g.coord g.dirLayer e) (g.coord g.orth1 e) (g.coord g.orth2 e) axis = g.coord axis e := by
    intro axis hax
    unfold cfun
    rcases g.axis_cases h axis hax with h6 | h6 | h6
    · rw [if_pos h6, h6]
    · rw [if_neg (by rw [h6]; exact h3), if_pos h6, h6]
    · rw [if_neg (by rw [h6]; exact h4), if_neg (by rw [h6]; exact Ne.symm h5), h6]
  rw [el_eq, hc 0 (by omega), hc 1 (by omega), hc 2 (by omega)]
  exact g.elemNumber_coord e

theorem coord_dir_lt (g : Geo) (h : g.dirLayer < 3) {e : Nat} (he : e < g.dom.nel) : g.coord g.dirLayer e < g.nl :=
  g.coord_lt he _ h
theorem coord_orth1_lt (g : Geo) (h : g.dirLayer < 3) {e : Nat} (he : e < g.dom.nel) : g.coord g.orth1 e < g.n1 :=
  g.coord_lt he _ (g.axes_perm h).1
theorem coord_orth2_lt (g : Geo) (h : g.dirLayer < 3) {e : Nat} (he : e < g.dom.nel) : g.coord g.orth2 e < g.n2 :=
  g.coord_lt he _ (g.axes_perm h).2.1

end Geo


/-! ## direction strings -/

/-- the alphabet of direction strings -/
def alphabet : List Char := ['x', 'y', 'z', 'X', 'Y', 'Z', '+', '-']

/-- all strings over the alphabet up to length `n` (with repetitions) -/
def stringsUpTo : Nat → List (List Char)
  | 0 => [[]]
  | n+1 => [] :: (alphabet.flatMap fun c => (stringsUpTo n).map (c :: ·))

/-- number of distinct axis letters (either case) in a string -/
def axisCount (s : List Char) : Nat :=
  (if hasLetter s 'x' 'X' then 1 else 0) + (if hasLetter s 'y' 'Y' then 1 else 0) +
  (if hasLetter s 'z' 'Z' then 1 else 0)

/-- the axis named by a string with exactly one axis letter -/
def axisOf (s : List Char) : Nat :=
  if hasLetter s 'x' 'X' then 0 else if hasLetter s 'y' 'Y' then 1 else 2

/-- `±e_axis` as a list of three entries -/
def unitVec {α} [OfNat α 0] (axis : Nat) (sg : α) : List α := (List.range 3).map (fun i => if i = axis then sg else 0)

/-- the intended forms: axis letter in either case, optional sign before or after -/
def wellFormed : List (List Char × List Int) :=
  [0, 1, 2].flatMap fun axis =>
    let lo : Char := ['x', 'y', 'z'].getD axis 'x'
    let up : Char := ['X', 'Y', 'Z'].getD axis 'X'
    [lo, up].flatMap fun c =>
      [([c], unitVec axis 1), (['+', c], unitVec axis 1), ([c, '+'], unitVec axis 1),
       (['-', c], unitVec axis (-1)), ([c, '-'], unitVec axis (-1))]

theorem parseStr_spec {α} [Neg α] [OfNat α 0] [OfNat α 1] (s : List Char) :
    parseStr (α := α) s =
      if axisCount s = 1 then .ok (unitVec (axisOf s) (if hasMinus s then -1 else 1)) else .error "ValueError" := by
  unfold parseStr axesOf axisCount axisOf unitVec
  cases hasLetter s 'x' 'X' <;> cases hasLetter s 'y' 'Y' <;> cases hasLetter s 'z' 'Z' <;> simp

/-! ## supports -/

theorem inRange_iff (n a : Nat) (o : Int) : inRange n a o = true ↔ 0 ≤ (a : Int) + o ∧ (a : Int) + o < n := by
  simp [inRange]

theorem shiftIdx_lt {n a : Nat} {o : Int} (h : inRange n a o = true) : shiftIdx a o < n := by
  rw [inRange_iff] at h
  unfold shiftIdx
  omega

theorem mask_iff (g : Geo) (i a b : Nat) :
    g.mask i a b = true ↔ inRange g.n1 a (offA i) = true ∧ inRange g.n2 b (offB i) = true := by
  simp [Geo.mask]

/-! ## the `while` loop as a fold over the layers in print order -/

/-- the `t`-th layer in print order (`t = 0` is the base layer) -/
def layerIdx (g : Geo) (t : Nat) : Nat := if 0 ≤ g.dxLayer then t else g.nl - 1 - t

theorem layerIdx_lt (g : Geo) {t : Nat} (ht : t < g.nl) : layerIdx g t < g.nl := by
  unfold layerIdx; split <;> omega

theorem layerIdx_inj (g : Geo) {t t' : Nat} (ht : t < g.nl) (ht' : t' < g.nl)
    (h : layerIdx g t = layerIdx g t') : t = t' := by
  unfold layerIdx at h; split at h <;> omega

theorem layerIdx_invol (g : Geo) {t : Nat} (ht : t < g.nl) :
    layerIdx g (layerIdx g t) = t := by
  unfold layerIdx; split <;> omega

section Sweep
variable {α : Type} [Add α] [Sub α] [Mul α] [Div α] [Neg α] [OfNat α 0] [OfNat α 1] [OfNat α 2]

/-- the state after the layers `1 … n` (print order) have been processed -/
def sweepTo (F : Fns α) (P : Par α) (g : Geo) (x : Nat → α) : Nat → State α
  | 0 => ⟨vtab g.dom.nel x, vtab g.dom.nel x⟩
  | n+1 => stepLayer F P g x (sweepTo F P g x n) (layerIdx g (n+1)) (layerIdx g n)

/-- `k` passes starting with print-order layer `m+1` -/
def iterSteps (F : Fns α) (P : Par α) (g : Geo) (x : Nat → α) : Nat → Nat → State α → State α
  | 0, _, st => st
  | k+1, m, st => iterSteps F P g x k (m+1) (stepLayer F P g x st (layerIdx g (m+1)) (layerIdx g m))

/-- the integer `ind_layer` when print-order layer `t` is processed -/
def idxZ (g : Geo) (t : Nat) : Int := if 0 ≤ g.dxLayer then (t : Int) else (g.nl : Int) - 1 - t

theorem loop_eq_iterSteps (F : Fns α) (P : Par α) (g : Geo) (x : Nat → α)
    (hdx : g.dxLayer = 1 ∨ g.dxLayer = -1) :
    ∀ (k m fuel : Nat) (st : State α), m + 1 + k = g.nl → k ≤ fuel →
      loop F P g x fuel (idxZ g (m+1)) st = iterSteps F P g x k m st := by
  intro k
  induction k with
  | zero =>
    intro m fuel st hm _
    have hout : ¬ (0 ≤ idxZ g (m+1) ∧ idxZ g (m+1) < (g.nl : Int)) := by
      unfold idxZ; rcases hdx with h | h <;> rw [h] <;> simp <;> omega
    cases fuel with
    | zero => rfl
    | succ f => rw [loop, if_neg hout]; rfl
  | succ k ih =>
    intro m fuel st hm hf
    cases fuel with
    | zero => omega
    | succ f =>
      have hin : 0 ≤ idxZ g (m+1) ∧ idxZ g (m+1) < (g.nl : Int) := by
        unfold idxZ; rcases hdx with h | h <;> rw [h] <;> simp <;> omega
      have h1 : idxZ g (m+1) + g.dxLayer = idxZ g (m+1+1) := by
        unfold idxZ; rcases hdx with h | h <;> rw [h] <;> simp <;> omega
      have h2 : (idxZ g (m+1)).toNat = layerIdx g (m+1) := by
        unfold idxZ layerIdx; rcases hdx with h | h <;> rw [h] <;> simp <;> omega
      have h3 : (idxZ g (m+1) - g.dxLayer).toNat = layerIdx g m := by
        unfold idxZ layerIdx; rcases hdx with h | h <;> rw [h] <;> simp <;> omega
      rw [loop, if_pos hin, h1, h2, h3, iterSteps]
      exact ih (m+1) f _ (by omega) (by omega)

theorem iterSteps_sweepTo (F : Fns α) (P : Par α) (g : Geo) (x : Nat → α) :
    ∀ (k m : Nat), iterSteps F P g x k m (sweepTo F P g x m) = sweepTo F P g x (m + k) := by
  intro k
  induction k with
  | zero => intro m; rfl
  | succ k ih =>
    intro m
    rw [iterSteps]
    have : stepLayer F P g x (sweepTo F P g x m) (layerIdx g (m+1)) (layerIdx g m) = sweepTo F P g x (m+1) := rfl
    rw [this, ih (m+1)]
    congr 1; omega

/-- `_response` is the fold over the layers `1 … nl-1` in print order -/
theorem response_eq_sweepTo (F : Fns α) (P : Par α) (g : Geo) (x : Nat → α)
    (hdx : g.dxLayer = 1 ∨ g.dxLayer = -1) :
    response F P g x = sweepTo F P g x (g.nl - 1) := by
  unfold response
  have hs : g.startInd = idxZ g (0+1) := by
    unfold Geo.startInd idxZ; rcases hdx with h | h <;> rw [h] <;> simp <;> omega
  rcases Nat.eq_zero_or_pos g.nl with h0 | hpos
  · rw [h0]; rfl
  · rw [hs, loop_eq_iterSteps F P g x hdx (g.nl - 1) 0 g.nl _ (by omega) (by omega)]
    have := iterSteps_sweepTo F P g x (g.nl - 1) 0
    simp only [Nat.zero_add] at this
    exact this

end Sweep

/-! ## Langelaar's scheme in layer coordinates and the refinement of `_response` to it -/

section Spec
variable {α : Type} [Add α] [Sub α] [Mul α] [Div α] [Neg α] [OfNat α 0] [OfNat α 1] [OfNat α 2]

/-- smooth maximum of the in-domain supports of in-layer position `(a, b)`, the previous layer being `Yp` -/
def smaxOf (F : Fns α) (P : Par α) (ns n1 n2 : Nat) (Yp : Nat → Nat → α) (a b : Nat) : α :=
  F.pow (sumRange ns (fun i =>
    if inRange n1 a (offA i) && inRange n2 b (offB i) then
      F.pow (Yp (shiftIdx a (offA i)) (shiftIdx b (offB i)) + P.shift) P.p
    else 0)) (1 / P.q) - P.backshift

/-- the layer recursion: `X t a b` is the input at print-order layer `t`, in-layer position `(a, b)` -/
def specY (F : Fns α) (P : Par α) (ns n1 n2 : Nat) (X : Nat → Nat → Nat → α) : Nat → Nat → Nat → α
  | 0 => X 0
  | t+1 => fun a b => smin F P.eps (X (t+1) a b) (smaxOf F P ns n1 n2 (specY F P ns n1 n2 X t) a b)

/-- the input field in layer coordinates -/
def layered (g : Geo) (x : Nat → α) : Nat → Nat → Nat → α := fun t a b => x (g.el (layerIdx g t) a b)

theorem smaxOf_congr (F : Fns α) (P : Par α) (ns n1 n2 : Nat) (Y Y' : Nat → Nat → α) (a b : Nat)
    (h : ∀ a' b', a' < n1 → b' < n2 → Y a' b' = Y' a' b') :
    smaxOf F P ns n1 n2 Y a b = smaxOf F P ns n1 n2 Y' a b := by
  unfold smaxOf
  congr 2
  apply sumRange_congr
  intro i _
  by_cases hm : (inRange n1 a (offA i) && inRange n2 b (offB i)) = true
  · rw [if_pos hm, if_pos hm]
    simp only [Bool.and_eq_true] at hm
    rw [h _ _ (shiftIdx_lt hm.1) (shiftIdx_lt hm.2)]
  · rw [if_neg hm, if_neg hm]

theorem specY_congr (F : Fns α) (P : Par α) (ns n1 n2 : Nat) (X X' : Nat → Nat → Nat → α) (T : Nat)
    (h : ∀ t a b, t < T → a < n1 → b < n2 → X t a b = X' t a b) :
    ∀ t, t < T → ∀ a b, a < n1 → b < n2 → specY F P ns n1 n2 X t a b = specY F P ns n1 n2 X' t a b := by
  intro t
  induction t with
  | zero => intro ht a b ha hb; exact h 0 a b ht ha hb
  | succ t ih =>
    intro ht a b ha hb
    simp only [specY]
    rw [h (t+1) a b ht ha hb, smaxOf_congr F P ns n1 n2 _ _ a b (ih (by omega))]

/-- `maxSupp` of the code reads the previous layer through the flat array -/
theorem maxSupp_eq_smaxOf (F : Fns α) (P : Par α) (g : Geo) (xp : Array α) (lp a b : Nat) :
    maxSupp F P g xp lp a b = smaxOf F P g.ns g.n1 g.n2 (fun a' b' => vget xp (g.el lp a' b')) a b := rfl

/-- invariant of the sweep: after `n` passes the layers `0 … n` hold the recursion's values, the later ones the
    input; `smax` holds the smooth maxima of the processed layers -/
theorem sweepTo_inv (F : Fns α) (P : Par α) (g : Geo) (x : Nat → α) (hd : g.dirLayer < 3) :
    ∀ n, n < g.nl → ∀ t a b, t < g.nl → a < g.n1 → b < g.n2 →
      vget (sweepTo F P g x n).xprint (g.el (layerIdx g t) a b) =
        (if t ≤ n then specY F P g.ns g.n1 g.n2 (layered g x) t a b else x (g.el (layerIdx g t) a b)) ∧
      vget (sweepTo F P g x n).smax (g.el (layerIdx g t) a b) =
        (if 1 ≤ t ∧ t ≤ n then smaxOf F P g.ns g.n1 g.n2 (specY F P g.ns g.n1 g.n2 (layered g x) (t-1)) a b
         else x (g.el (layerIdx g t) a b)) := by
  intro n
  induction n with
  | zero =>
    intro _ t a b ht ha hb
    have hlt := g.el_lt hd (layerIdx_lt g ht) ha hb
    simp only [sweepTo]
    rw [vget_vtab_lt _ hlt]
    constructor
    · by_cases h0 : t ≤ 0
      · have : t = 0 := by omega
        subst this; simp [specY, layered]
      · rw [if_neg h0]
    · rw [if_neg (by omega)]
  | succ n ih =>
    intro hn t a b ht ha hb
    have ih' := ih (by omega)
    have hlt := g.el_lt hd (layerIdx_lt g ht) ha hb
    have hl : layerIdx g t < g.nl := layerIdx_lt g ht
    simp only [sweepTo, stepLayer]
    rw [vget_vtab_lt _ hlt, vget_vtab_lt _ hlt]
    rw [g.inLayer_el hd hl ha hb]
    have hms : maxSupp F P g (sweepTo F P g x n).xprint (layerIdx g n)
          (g.coord g.orth1 (g.el (layerIdx g t) a b)) (g.coord g.orth2 (g.el (layerIdx g t) a b))
        = smaxOf F P g.ns g.n1 g.n2 (specY F P g.ns g.n1 g.n2 (layered g x) n) a b := by
      rw [g.coord_orth1_el hd hl ha hb, g.coord_orth2_el hd hl ha hb, maxSupp_eq_smaxOf]
      apply smaxOf_congr
      intro a' b' ha' hb'
      have := (ih' n a' b' (by omega) ha' hb').1
      rw [if_pos (Nat.le_refl n)] at this
      exact this
    by_cases heq : layerIdx g t = layerIdx g (n+1)
    · have htn : t = n+1 := layerIdx_inj g ht hn heq
      subst htn
      simp only [decide_true, if_true]
      rw [hms]
      constructor
      · rw [if_pos (Nat.le_refl _)]
        simp only [specY, layered]
      · rw [if_pos ⟨by omega, Nat.le_refl _⟩]
        simp
    · have htn : t ≠ n+1 := fun h => heq (by rw [h])
      simp only [heq, decide_false, Bool.false_eq_true, if_false]
      obtain ⟨i1, i2⟩ := ih' t a b ht ha hb
      rw [i1, i2]
      constructor
      · by_cases h1 : t ≤ n
        · rw [if_pos h1, if_pos (by omega)]
        · rw [if_neg h1, if_neg (by omega)]
      · by_cases h1 : 1 ≤ t ∧ t ≤ n
        · rw [if_pos h1, if_pos ⟨h1.1, by omega⟩]
        · rw [if_neg h1, if_neg (by omega)]

/-- `_response` computes the layer recursion -/
theorem response_eq_spec (F : Fns α) (P : Par α) (g : Geo) (x : Nat → α) (hd : g.dirLayer < 3)
    (hdx : g.dxLayer = 1 ∨ g.dxLayer = -1) {t a b : Nat} (ht : t < g.nl) (ha : a < g.n1) (hb : b < g.n2) :
    vget (response F P g x).xprint (g.el (layerIdx g t) a b) = specY F P g.ns g.n1 g.n2 (layered g x) t a b := by
  rw [response_eq_sweepTo F P g x hdx]
  have := (sweepTo_inv F P g x hd (g.nl - 1) (by omega) t a b ht ha hb).1
  rw [if_pos (by omega)] at this
  exact this

/-- … and stores the smooth maxima -/
theorem response_smax_eq_spec (F : Fns α) (P : Par α) (g : Geo) (x : Nat → α) (hd : g.dirLayer < 3)
    (hdx : g.dxLayer = 1 ∨ g.dxLayer = -1) {t a b : Nat} (ht : t + 1 < g.nl) (ha : a < g.n1) (hb : b < g.n2) :
    vget (response F P g x).smax (g.el (layerIdx g (t+1)) a b) =
      smaxOf F P g.ns g.n1 g.n2 (specY F P g.ns g.n1 g.n2 (layered g x) t) a b := by
  rw [response_eq_sweepTo F P g x hdx]
  have := (sweepTo_inv F P g x hd (g.nl - 1) (by omega) (t+1) a b ht ha hb).2
  rw [if_pos (by omega)] at this
  simpa using this

end Spec

end PymotoVerif.Overhang
