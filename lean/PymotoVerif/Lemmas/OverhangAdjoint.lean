/- C14 / C01: the linear algebra of the reverse sweep.
   * gather over the support table ↔ scatter over the negated table (re-indexing of a double sum);
   * the linearised layer recursion `tanY` (tangent of `specY`) with arbitrary coefficient fields, the reverse
     recursion `back` (what `_sensitivity` computes, in layer coordinates) and the adjoint identity between them. -/
import PymotoVerif.Lemmas.Overhang
import PymotoVerif.Lemmas.Sum
import Mathlib.Algebra.BigOperators.Group.Finset.Basic
import Mathlib.Algebra.BigOperators.Ring.Finset
import Mathlib.Algebra.BigOperators.Intervals
import Mathlib.Tactic.Ring

set_option linter.unusedSectionVars false
set_option linter.unnecessarySeqFocus false

namespace PymotoVerif.Overhang
open PymotoVerif Finset

section
variable {R : Type} [CommRing R]

/-- one-dimensional shift: summing over the positions whose shifted partner is inside = summing over the partners -/
theorem sum_shift (n : Nat) (o : Int) (f : Nat → Nat → R) :
    ∑ a ∈ range n, (if inRange n a o then f a (shiftIdx a o) else 0) =
      ∑ a' ∈ range n, (if inRange n a' (-o) then f (shiftIdx a' (-o)) a' else 0) := by
  rw [← Finset.sum_filter, ← Finset.sum_filter]
  apply Finset.sum_nbij' (fun a => shiftIdx a o) (fun a' => shiftIdx a' (-o))
  · intro a ha
    simp only [Finset.mem_filter, Finset.mem_range, inRange_iff] at ha ⊢
    unfold shiftIdx; omega
  · intro a ha
    simp only [Finset.mem_filter, Finset.mem_range, inRange_iff] at ha ⊢
    unfold shiftIdx; omega
  · intro a ha
    simp only [Finset.mem_filter, Finset.mem_range, inRange_iff] at ha
    unfold shiftIdx; omega
  · intro a ha
    simp only [Finset.mem_filter, Finset.mem_range, inRange_iff] at ha
    unfold shiftIdx; omega
  · intro a ha
    simp only [Finset.mem_filter, Finset.mem_range, inRange_iff] at ha
    have : shiftIdx (shiftIdx a o) (-o) = a := by unfold shiftIdx; omega
    rw [this]

/-- gather of the in-domain supports of `(a, b)` -/
def gatherS (ns n1 n2 : Nat) (u : Nat → Nat → R) (a b : Nat) : R :=
  ∑ i ∈ range ns, if inRange n1 a (offA i) && inRange n2 b (offB i) then
    u (shiftIdx a (offA i)) (shiftIdx b (offB i)) else 0

/-- scatter: what `(a', b')` receives from the elements it supports -/
def scatterS (ns n1 n2 : Nat) (c : Nat → Nat → R) (a' b' : Nat) : R :=
  ∑ i ∈ range ns, if inRange n1 a' (-(offA i)) && inRange n2 b' (-(offB i)) then
    c (shiftIdx a' (-(offA i))) (shiftIdx b' (-(offB i))) else 0

/-- pairing of two in-layer fields -/
def pair2 (n1 n2 : Nat) (f g : Nat → Nat → R) : R := ∑ a ∈ range n1, ∑ b ∈ range n2, f a b * g a b

theorem shift2 (n1 n2 : Nat) (o o' : Int) (c u : Nat → Nat → R) :
    ∑ a ∈ range n1, ∑ b ∈ range n2,
        (if inRange n1 a o && inRange n2 b o' then c a b * u (shiftIdx a o) (shiftIdx b o') else 0) =
      ∑ a' ∈ range n1, ∑ b' ∈ range n2,
        (if inRange n1 a' (-o) && inRange n2 b' (-o') then c (shiftIdx a' (-o)) (shiftIdx b' (-o')) * u a' b' else 0) := by
  have hL : ∀ a, ∑ b ∈ range n2,
        (if inRange n1 a o && inRange n2 b o' then c a b * u (shiftIdx a o) (shiftIdx b o') else 0)
      = if inRange n1 a o then
          (fun a a' => ∑ b' ∈ range n2, if inRange n2 b' (-o') then c a (shiftIdx b' (-o')) * u a' b' else 0)
            a (shiftIdx a o) else 0 := by
    intro a
    by_cases h : inRange n1 a o = true
    · simp only [h, Bool.true_and, if_true]
      exact sum_shift n2 o' (fun b b' => c a b * u (shiftIdx a o) b')
    · simp [h]
  rw [Finset.sum_congr rfl (fun a _ => hL a)]
  rw [sum_shift n1 o
    (fun a a' => ∑ b' ∈ range n2, if inRange n2 b' (-o') then c a (shiftIdx b' (-o')) * u a' b' else 0)]
  apply Finset.sum_congr rfl
  intro a' _
  by_cases h : inRange n1 a' (-o) = true
  · simp only [h, Bool.true_and, if_true]
  · simp [h]

/-- gather/scatter duality over the support table -/
theorem gather_scatter_dual (ns n1 n2 : Nat) (c u : Nat → Nat → R) :
    pair2 n1 n2 c (gatherS ns n1 n2 u) = pair2 n1 n2 (scatterS ns n1 n2 c) u := by
  unfold pair2 gatherS scatterS
  simp only [Finset.mul_sum, Finset.sum_mul, mul_ite, ite_mul, mul_zero, zero_mul]
  -- bring the sum over the table outside
  have e1 : ∀ (F : Nat → Nat → Nat → R), ∑ a ∈ range n1, ∑ b ∈ range n2, ∑ i ∈ range ns, F a b i
      = ∑ i ∈ range ns, ∑ a ∈ range n1, ∑ b ∈ range n2, F a b i := by
    intro F
    rw [Finset.sum_comm]
    rw [Finset.sum_congr rfl (fun a _ => Finset.sum_comm)]
    rw [Finset.sum_comm]
    apply Finset.sum_congr rfl; intro i _
    rw [Finset.sum_comm]
  rw [e1, e1]
  apply Finset.sum_congr rfl
  intro i _
  exact shift2 n1 n2 (offA i) (offB i) c u

end

section
variable {R : Type} [CommRing R]

/-- coefficient fields of the linearised layer maps: `α t a b = ∂y(t+1,a,b)/∂x(t+1,a,b)`, and
    `∂y(t+1,a,b)/∂y(t,a',b') = β t a b * γ t a' b'` for every in-domain support `(a',b')` of `(a,b)` -/
structure Coef (R : Type) where
  α : Nat → Nat → Nat → R
  β : Nat → Nat → Nat → R
  γ : Nat → Nat → Nat → R

/-- tangent of the layer recursion (forward mode) -/
def tanY (ns n1 n2 : Nat) (K : Coef R) (V : Nat → Nat → Nat → R) : Nat → Nat → Nat → R
  | 0 => V 0
  | t+1 => fun a b => K.α t a b * V (t+1) a b +
      K.β t a b * gatherS ns n1 n2 (fun a' b' => K.γ t a' b' * tanY ns n1 n2 K V t a' b') a b

/-- what layer `T` receives from the adjoint `lam` of layer `T+1` (transposed Jacobian of the layer map) -/
def zOf (ns n1 n2 : Nat) (K : Coef R) (T : Nat) (lam : Nat → Nat → R) : Nat → Nat → R :=
  fun a' b' => scatterS ns n1 n2 (fun a b => lam a b * K.β T a b) a' b' * K.γ T a' b'

/-- the running adjoint after the pass of layer `T+1` -/
def updW (ns n1 n2 : Nat) (K : Coef R) (T : Nat) (W : Nat → Nat → Nat → R) : Nat → Nat → Nat → R :=
  fun t a b => if t = T then W T a b + zOf ns n1 n2 K T (W (T+1)) a b else W t a b

/-- reverse mode over the layers `T, T-1, …, 1`, then the base layer: the gradient with respect to the input -/
def back (ns n1 n2 : Nat) (K : Coef R) : Nat → (Nat → Nat → Nat → R) → Nat → Nat → Nat → R
  | 0, W => fun t a b => if t = 0 then W 0 a b else 0
  | T+1, W => fun t a b =>
      if t = T+1 then W (T+1) a b * K.α T a b else back ns n1 n2 K T (updW ns n1 n2 K T W) t a b

/-- transposed-Jacobian-chain identity: reverse mode is the adjoint of forward mode -/
theorem back_adjoint (ns n1 n2 : Nat) (K : Coef R) (V : Nat → Nat → Nat → R) :
    ∀ (T : Nat) (W : Nat → Nat → Nat → R),
      ∑ t ∈ range (T+1), pair2 n1 n2 (W t) (tanY ns n1 n2 K V t) =
        ∑ t ∈ range (T+1), pair2 n1 n2 (back ns n1 n2 K T W t) (V t) := by
  intro T
  induction T with
  | zero =>
    intro W
    simp [back, tanY]
  | succ T ih =>
    intro W
    rw [Finset.sum_range_succ, Finset.sum_range_succ _ (T+1)]
    -- the top layer
    have htop : pair2 n1 n2 (W (T+1)) (tanY ns n1 n2 K V (T+1)) =
        pair2 n1 n2 (fun a b => W (T+1) a b * K.α T a b) (V (T+1)) +
        pair2 n1 n2 (zOf ns n1 n2 K T (W (T+1))) (tanY ns n1 n2 K V T) := by
      have hd := gather_scatter_dual ns n1 n2 (fun a b => W (T+1) a b * K.β T a b)
        (fun a' b' => K.γ T a' b' * tanY ns n1 n2 K V T a' b')
      unfold pair2 at hd ⊢
      simp only [tanY, zOf]
      have e2 : ∑ a ∈ range n1, ∑ b ∈ range n2,
            scatterS ns n1 n2 (fun a b => W (T+1) a b * K.β T a b) a b * K.γ T a b * tanY ns n1 n2 K V T a b
          = ∑ a ∈ range n1, ∑ b ∈ range n2,
            scatterS ns n1 n2 (fun a b => W (T+1) a b * K.β T a b) a b * (K.γ T a b * tanY ns n1 n2 K V T a b) := by
        apply Finset.sum_congr rfl; intro a _
        apply Finset.sum_congr rfl; intro b _
        ring
      rw [e2, ← hd, ← Finset.sum_add_distrib]
      apply Finset.sum_congr rfl; intro a _
      rw [← Finset.sum_add_distrib]
      apply Finset.sum_congr rfl; intro b _
      ring
    -- the layers below with the updated adjoint
    have hlow : ∑ t ∈ range (T+1), pair2 n1 n2 (updW ns n1 n2 K T W t) (tanY ns n1 n2 K V t) =
        ∑ t ∈ range (T+1), pair2 n1 n2 (W t) (tanY ns n1 n2 K V t) +
        pair2 n1 n2 (zOf ns n1 n2 K T (W (T+1))) (tanY ns n1 n2 K V T) := by
      rw [Finset.sum_range_succ, Finset.sum_range_succ _ T]
      have h1 : ∑ t ∈ range T, pair2 n1 n2 (updW ns n1 n2 K T W t) (tanY ns n1 n2 K V t) =
          ∑ t ∈ range T, pair2 n1 n2 (W t) (tanY ns n1 n2 K V t) := by
        apply Finset.sum_congr rfl
        intro t ht
        have : t ≠ T := by have := Finset.mem_range.mp ht; omega
        unfold updW
        simp only [if_neg this]
      have h2 : pair2 n1 n2 (updW ns n1 n2 K T W T) (tanY ns n1 n2 K V T) =
          pair2 n1 n2 (W T) (tanY ns n1 n2 K V T) + pair2 n1 n2 (zOf ns n1 n2 K T (W (T+1))) (tanY ns n1 n2 K V T) := by
        unfold pair2 updW
        simp only [if_true]
        rw [← Finset.sum_add_distrib]
        apply Finset.sum_congr rfl; intro a _
        rw [← Finset.sum_add_distrib]
        apply Finset.sum_congr rfl; intro b _
        ring
      rw [h1, h2]; ring
    have hR : ∑ t ∈ range (T+1), pair2 n1 n2 (back ns n1 n2 K (T+1) W t) (V t) =
        ∑ t ∈ range (T+1), pair2 n1 n2 (back ns n1 n2 K T (updW ns n1 n2 K T W) t) (V t) := by
      apply Finset.sum_congr rfl
      intro t ht
      have : t ≠ T+1 := by have := Finset.mem_range.mp ht; omega
      simp only [back, if_neg this]
    have hRtop : pair2 n1 n2 (back ns n1 n2 K (T+1) W (T+1)) (V (T+1)) =
        pair2 n1 n2 (fun a b => W (T+1) a b * K.α T a b) (V (T+1)) := by
      simp only [back, if_true]
    rw [hR, hRtop, ← ih (updW ns n1 n2 K T W), hlow, htop]
    ring

/-- `scatterS` reads its argument only inside the layer -/
theorem scatterS_congr (ns n1 n2 : Nat) (c c' : Nat → Nat → R)
    (h : ∀ a b, a < n1 → b < n2 → c a b = c' a b) (a' b' : Nat) :
    scatterS ns n1 n2 c a' b' = scatterS ns n1 n2 c' a' b' := by
  unfold scatterS
  apply Finset.sum_congr rfl
  intro i _
  by_cases hm : (inRange n1 a' (-(offA i)) && inRange n2 b' (-(offB i))) = true
  · rw [if_pos hm, if_pos hm]
    simp only [Bool.and_eq_true] at hm
    exact h _ _ (shiftIdx_lt hm.1) (shiftIdx_lt hm.2)
  · rw [if_neg hm, if_neg hm]

/-- `back` depends on the coefficient fields and on the seed only through their in-layer entries -/
theorem back_congr (ns n1 n2 : Nat) (K K' : Coef R) :
    ∀ (T : Nat) (W W' : Nat → Nat → Nat → R),
      (∀ t a b, t < T → a < n1 → b < n2 → K.α t a b = K'.α t a b ∧ K.β t a b = K'.β t a b ∧ K.γ t a b = K'.γ t a b) →
      (∀ t a b, t ≤ T → a < n1 → b < n2 → W t a b = W' t a b) →
      ∀ t a b, a < n1 → b < n2 → back ns n1 n2 K T W t a b = back ns n1 n2 K' T W' t a b := by
  intro T
  induction T with
  | zero =>
    intro W W' _ hW t a b ha hb
    simp only [back]
    by_cases h : t = 0
    · rw [if_pos h, if_pos h]; exact hW 0 a b (Nat.le_refl 0) ha hb
    · rw [if_neg h, if_neg h]
  | succ T ih =>
    intro W W' hK hW t a b ha hb
    simp only [back]
    by_cases h : t = T+1
    · rw [if_pos h, if_pos h, hW (T+1) a b (Nat.le_refl _) ha hb, (hK T a b (by omega) ha hb).1]
    · rw [if_neg h, if_neg h]
      apply ih _ _ (fun t a b ht ha hb => hK t a b (by omega) ha hb) _ t a b ha hb
      intro t' a' b' ht' ha' hb'
      unfold updW
      by_cases h2 : t' = T
      · rw [if_pos h2, if_pos h2, hW T a' b' (by omega) ha' hb']
        unfold zOf
        rw [(hK T a' b' (by omega) ha' hb').2.2]
        congr 2
        apply scatterS_congr
        intro a2 b2 ha2 hb2
        rw [hW (T+1) a2 b2 (Nat.le_refl _) ha2 hb2, (hK T a2 b2 (by omega) ha2 hb2).2.1]
      · rw [if_neg h2, if_neg h2]
        exact hW t' a' b' (by omega) ha' hb'

end

end PymotoVerif.Overhang
