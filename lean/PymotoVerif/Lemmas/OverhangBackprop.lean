/- C14 / C01 over `ℝ`: the code's reverse sweep, read in layer coordinates, is the reverse recursion `back`
   with the coefficient fields of the stored forward state; assembled with the adjoint identity and the
   directional derivative of the layer recursion this gives "sensitivity = derivative" for the flat fields -/
import PymotoVerif.Lemmas.OverhangTangent
import PymotoVerif.Lemmas.OverhangSens
import Mathlib.Algebra.BigOperators.Group.Finset.Sigma

set_option linter.unusedSectionVars false
set_option linter.unnecessarySeqFocus false

namespace PymotoVerif.Overhang
open PymotoVerif Finset

/-- a flat array in layer coordinates (print order) -/
noncomputable def lay (g : Geo) (v : Array ℝ) : Nat → Nat → Nat → ℝ :=
  fun t a b => vget v (g.el (layerIdx g t) a b)

/-- the coefficient fields the code uses: input `x`, stored `xprint` and `smax` of the last response -/
noncomputable def coefRs (c : ℝ) (P : Par ℝ) (g : Geo) (x : Nat → ℝ) (rs : State ℝ) : Coef ℝ :=
  coefOf c P (layered g x) (lay g rs.xprint) (fun t => lay g rs.smax (t+1))

theorem dsminDx_lin (c ε x s dy : ℝ) :
    dsminDx (realFns c) ε x s dy = dy * dsminDx (realFns c) ε x s 1 := by
  simp only [dsminDx, dfdr1, realFns]; ring

theorem cOf_lin (c : ℝ) (P : Par ℝ) (ε x s dy : ℝ) :
    cOf (realFns c) P s (dsminDs (realFns c) ε x s dy) = dy * cOf (realFns c) P s (dsminDs (realFns c) ε x s 1) := by
  simp only [cOf, dsminDs, dfdr1, realFns]; ring

theorem foldRange_add_sum (n : Nat) (cnd : Nat → Bool) (f : Nat → ℝ) (init : ℝ) :
    foldRange n (fun v i => if cnd i then v + f i else v) init =
      init + ∑ i ∈ range n, if cnd i then f i else 0 := by
  induction n with
  | zero => simp [foldRange]
  | succ n ih =>
    simp only [foldRange]
    rw [ih, Finset.sum_range_succ]
    by_cases h : cnd n = true
    · simp only [h, if_true]; ring
    · simp only [h, Bool.false_eq_true, if_false]; ring

section Step
variable (c : ℝ) (P : Par ℝ) (g : Geo) (x : Nat → ℝ) (rs : State ℝ)

/-- one pass, current layer, in layer coordinates -/
theorem lay_sensStep_dx (st : SState ℝ) (hd : g.dirLayer < 3) {T t a b : Nat} (hT : T + 1 < g.nl) (ht : t < g.nl)
    (ha : a < g.n1) (hb : b < g.n2) :
    lay g (sensStep (realFns c) P g x rs st (layerIdx g (T+1)) (layerIdx g T)).dx t a b =
      if t = T+1 then lay g st.dxprint (T+1) a b * (coefRs c P g x rs).α T a b else lay g st.dx t a b := by
  unfold lay
  rw [sensStep_dx_el (realFns c) P g x rs st hd (layerIdx_lt g ht) ha hb]
  by_cases h : t = T+1
  · subst h
    simp only [if_true]
    rw [dsminDx_lin]
    rfl
  · have : layerIdx g t ≠ layerIdx g (T+1) := fun he => h (layerIdx_inj g ht hT he)
    rw [if_neg this, if_neg h]

/-- one pass, supporting layer, in layer coordinates: the transposed layer Jacobian is added -/
theorem lay_sensStep_dxprint (st : SState ℝ) (hd : g.dirLayer < 3) {T a b : Nat} (hT : T + 1 < g.nl)
    (ha : a < g.n1) (hb : b < g.n2) :
    lay g (sensStep (realFns c) P g x rs st (layerIdx g (T+1)) (layerIdx g T)).dxprint T a b =
      lay g st.dxprint T a b + zOf g.ns g.n1 g.n2 (coefRs c P g x rs) T (lay g st.dxprint (T+1)) a b := by
  unfold lay
  rw [sensStep_dxprint_el (realFns c) P g x rs st hd (layerIdx_lt g hT) (layerIdx_lt g (by omega)) ha hb]
  rw [foldRange_add_sum g.ns (fun i => inRange g.n1 a (-(offA i)) && inRange g.n2 b (-(offB i)))]
  congr 1
  unfold zOf scatterS
  rw [Finset.sum_mul]
  apply Finset.sum_congr rfl
  intro i _
  by_cases hm : (inRange g.n1 a (-(offA i)) && inRange g.n2 b (-(offB i))) = true
  · rw [if_pos hm, if_pos hm]
    unfold cAt
    rw [cOf_lin]
    rfl
  · rw [if_neg hm, if_neg hm, zero_mul]

theorem lay_sensStep_dxprint_other (st : SState ℝ) (hd : g.dirLayer < 3) {T t a b : Nat} (hT : T + 1 < g.nl)
    (ht : t < g.nl) (ha : a < g.n1) (hb : b < g.n2) (hne : t ≠ T) :
    lay g (sensStep (realFns c) P g x rs st (layerIdx g (T+1)) (layerIdx g T)).dxprint t a b =
      lay g st.dxprint t a b := by
  unfold lay
  have : layerIdx g t ≠ layerIdx g T := fun he => hne (layerIdx_inj g ht (by omega) he)
  exact sensStep_dxprint_other (realFns c) P g x rs st hd (layerIdx_lt g ht) ha hb this

/-- the reverse passes `T, T-1, …, 1` compute `back` of the current `dxprint` -/
theorem iterBack_inv (hd : g.dirLayer < 3) :
    ∀ (T : Nat), T < g.nl → ∀ (st : SState ℝ),
      (∀ t a b, T < t → t < g.nl → a < g.n1 → b < g.n2 →
        lay g (iterBack (realFns c) P g x rs T T st).dx t a b = lay g st.dx t a b) ∧
      (∀ t a b, 1 ≤ t → t ≤ T → a < g.n1 → b < g.n2 →
        lay g (iterBack (realFns c) P g x rs T T st).dx t a b =
          back g.ns g.n1 g.n2 (coefRs c P g x rs) T (lay g st.dxprint) t a b) ∧
      (∀ a b, a < g.n1 → b < g.n2 →
        lay g (iterBack (realFns c) P g x rs T T st).dxprint 0 a b =
          back g.ns g.n1 g.n2 (coefRs c P g x rs) T (lay g st.dxprint) 0 a b) := by
  intro T
  induction T with
  | zero =>
    intro _ st
    refine ⟨fun _ _ _ _ _ _ _ => rfl, fun t _ _ h1 h2 _ _ => by omega, fun a b _ _ => ?_⟩
    simp [iterBack, back]
  | succ T ih =>
    intro hT st
    have hstep : iterBack (realFns c) P g x rs (T+1) (T+1) st =
        iterBack (realFns c) P g x rs T T
          (sensStep (realFns c) P g x rs st (layerIdx g (T+1)) (layerIdx g T)) := by
      simp only [iterBack, Nat.add_sub_cancel]
    rw [hstep]
    set st1 := sensStep (realFns c) P g x rs st (layerIdx g (T+1)) (layerIdx g T) with hst1
    obtain ⟨ia, ib, ic⟩ := ih (by omega) st1
    -- the running adjoint after the pass agrees with `updW` on the layers `≤ T`
    have hW : ∀ t a b, t ≤ T → a < g.n1 → b < g.n2 →
        lay g st1.dxprint t a b = updW g.ns g.n1 g.n2 (coefRs c P g x rs) T (lay g st.dxprint) t a b := by
      intro t a b ht ha hb
      unfold updW
      by_cases h : t = T
      · subst h
        rw [if_pos rfl, hst1, lay_sensStep_dxprint c P g x rs st hd hT ha hb]
      · rw [if_neg h, hst1, lay_sensStep_dxprint_other c P g x rs st hd hT (by omega) ha hb h]
    have hcong : ∀ t a b, a < g.n1 → b < g.n2 →
        back g.ns g.n1 g.n2 (coefRs c P g x rs) T (lay g st1.dxprint) t a b =
        back g.ns g.n1 g.n2 (coefRs c P g x rs) T
          (updW g.ns g.n1 g.n2 (coefRs c P g x rs) T (lay g st.dxprint)) t a b :=
      fun t a b ha hb => back_congr g.ns g.n1 g.n2 _ _ T _ _
        (fun _ _ _ _ _ _ => ⟨rfl, rfl, rfl⟩) hW t a b ha hb
    refine ⟨?_, ?_, ?_⟩
    · intro t a b h1 h2 ha hb
      rw [ia t a b (by omega) h2 ha hb, hst1, lay_sensStep_dx c P g x rs st hd hT h2 ha hb,
        if_neg (by omega)]
    · intro t a b h1 h2 ha hb
      by_cases h : t = T+1
      · subst h
        rw [ia (T+1) a b (by omega) hT ha hb, hst1, lay_sensStep_dx c P g x rs st hd hT hT ha hb, if_pos rfl]
        simp only [back, if_true]
      · rw [ib t a b h1 (by omega) ha hb, hcong t a b ha hb]
        simp only [back, if_neg h]
    · intro a b ha hb
      rw [ic a b ha hb, hcong 0 a b ha hb]
      simp only [back, if_neg (show (0 : Nat) ≠ T+1 by omega)]

end Step

/-! ## flat sums ↔ layer sums -/

theorem sum_flat_eq_layers (g : Geo) (hd : g.dirLayer < 3) (f : Nat → ℝ) :
    ∑ e ∈ range g.dom.nel, f e =
      ∑ t ∈ range g.nl, ∑ a ∈ range g.n1, ∑ b ∈ range g.n2, f (g.el (layerIdx g t) a b) := by
  have h2 : ∀ t, ∑ a ∈ range g.n1, ∑ b ∈ range g.n2, f (g.el (layerIdx g t) a b) =
      ∑ q ∈ range g.n1 ×ˢ range g.n2, f (g.el (layerIdx g t) q.1 q.2) := by
    intro t
    rw [Finset.sum_product' (range g.n1) (range g.n2) (fun a b => f (g.el (layerIdx g t) a b))]
  rw [Finset.sum_congr rfl (fun t _ => h2 t)]
  rw [← Finset.sum_product' (range g.nl) (range g.n1 ×ˢ range g.n2)
    (fun t q => f (g.el (layerIdx g t) q.1 q.2))]
  apply Finset.sum_nbij'
    (fun e => (layerIdx g (g.coord g.dirLayer e), (g.coord g.orth1 e, g.coord g.orth2 e)))
    (fun p => g.el (layerIdx g p.1) p.2.1 p.2.2)
  · intro e he
    have he' := Finset.mem_range.mp he
    simp only [Finset.mem_product, Finset.mem_range]
    exact ⟨layerIdx_lt g (g.coord_dir_lt hd he'), g.coord_orth1_lt hd he', g.coord_orth2_lt hd he'⟩
  · intro p hp
    simp only [Finset.mem_product, Finset.mem_range] at hp
    exact Finset.mem_range.mpr (g.el_lt hd (layerIdx_lt g hp.1) hp.2.1 hp.2.2)
  · intro e he
    have he' := Finset.mem_range.mp he
    rw [layerIdx_invol g (g.coord_dir_lt hd he'), g.el_coord hd]
  · intro p hp
    simp only [Finset.mem_product, Finset.mem_range] at hp
    obtain ⟨h1, h2, h3⟩ := hp
    have hl := layerIdx_lt g h1
    rw [g.coord_dir_el hd hl h2 h3, g.coord_orth1_el hd hl h2 h3, g.coord_orth2_el hd hl h2 h3,
      layerIdx_invol g h1]
  · intro e he
    have he' := Finset.mem_range.mp he
    rw [layerIdx_invol g (g.coord_dir_lt hd he'), g.el_coord hd]

/-! ## assembly -/

section Final
variable (c : ℝ) (P : Par ℝ) (g : Geo) (x v w : Nat → ℝ)

/-- the tangent of the flat response in direction `v` -/
noncomputable def tanFlat : Nat → ℝ := fun e =>
  tanY g.ns g.n1 g.n2 (coefSpec c P g.ns g.n1 g.n2 (layered g x)) (layered g v)
    (layerIdx g (g.coord g.dirLayer e)) (g.coord g.orth1 e) (g.coord g.orth2 e)

theorem tanFlat_el (hd : g.dirLayer < 3) {t a b : Nat} (ht : t < g.nl) (ha : a < g.n1) (hb : b < g.n2) :
    tanFlat c P g x v (g.el (layerIdx g t) a b) =
      tanY g.ns g.n1 g.n2 (coefSpec c P g.ns g.n1 g.n2 (layered g x)) (layered g v) t a b := by
  have hl := layerIdx_lt g ht
  unfold tanFlat
  rw [g.coord_dir_el hd hl ha hb, g.coord_orth1_el hd hl ha hb, g.coord_orth2_el hd hl ha hb,
    layerIdx_invol g ht]

/-- every entry of the response is differentiable along `x + τ v`, with the linearised recursion as derivative -/
theorem response_entry_hasDerivAt (hd : g.dirLayer < 3) (hdx : g.dxLayer = 1 ∨ g.dxLayer = -1)
    (hns : 2 ≤ g.ns) (hq : P.q ≠ 0)
    (hpos : ∀ e, e < g.dom.nel → 0 < vget (response (realFns c) P g x).xprint e + P.shift)
    (hrad : ∀ t a b, t + 1 < g.nl → a < g.n1 → b < g.n2 →
      (x (g.el (layerIdx g (t+1)) a b) - vget (response (realFns c) P g x).smax (g.el (layerIdx g (t+1)) a b)) *
      (x (g.el (layerIdx g (t+1)) a b) - vget (response (realFns c) P g x).smax (g.el (layerIdx g (t+1)) a b))
        + P.eps ≠ 0)
    {e : Nat} (he : e < g.dom.nel) :
    HasDerivAt (fun τ : ℝ => vget (response (realFns c) P g (fun e => x e + τ * v e)).xprint e)
      (tanFlat c P g x v e) 0 := by
  have ht := layerIdx_lt g (g.coord_dir_lt hd he)
  have ha := g.coord_orth1_lt hd he
  have hb := g.coord_orth2_lt hd he
  have hE : g.el (layerIdx g (layerIdx g (g.coord g.dirLayer e))) (g.coord g.orth1 e) (g.coord g.orth2 e) = e := by
    rw [layerIdx_invol g (g.coord_dir_lt hd he), g.el_coord hd]
  have hfun : (fun τ : ℝ => vget (response (realFns c) P g (fun e => x e + τ * v e)).xprint e) =
      fun τ : ℝ => specY (realFns c) P g.ns g.n1 g.n2
        (fun t a b => layered g x t a b + τ * layered g v t a b)
        (layerIdx g (g.coord g.dirLayer e)) (g.coord g.orth1 e) (g.coord g.orth2 e) := by
    funext τ
    rw [← hE, response_eq_spec (realFns c) P g _ hd hdx ht ha hb, hE]
    rfl
  rw [hfun]
  unfold tanFlat
  apply specY_hasDerivAt c P g.ns g.n1 g.n2 (layered g x) (layered g v) (g.nl - 1) hns hq _ _ _ (by omega) _ _ ha hb
  · intro t a b ht' ha' hb'
    rw [← response_eq_spec (realFns c) P g x hd hdx (by omega) ha' hb']
    exact hpos _ (g.el_lt hd (layerIdx_lt g (by omega)) ha' hb')
  · intro t a b ht' ha' hb'
    rw [← response_smax_eq_spec (realFns c) P g x hd hdx (by omega) ha' hb']
    exact hrad t a b (by omega) ha' hb'

/-- the code's sensitivities in layer coordinates are `back` of the layered seed -/
theorem lay_sensitivity (hd : g.dirLayer < 3) (hdx : g.dxLayer = 1 ∨ g.dxLayer = -1)
    {t a b : Nat} (ht : t < g.nl) (ha : a < g.n1) (hb : b < g.n2) :
    lay g (sensitivity (realFns c) P g x (response (realFns c) P g x) w) t a b =
      back g.ns g.n1 g.n2 (coefSpec c P g.ns g.n1 g.n2 (layered g x)) (g.nl - 1) (layered g w) t a b := by
  have hl := layerIdx_lt g ht
  have hlt := g.el_lt hd hl ha hb
  -- the coefficient fields of the stored state are those of the recursion
  have hK : ∀ t a b, t < g.nl - 1 → a < g.n1 → b < g.n2 →
      (coefRs c P g x (response (realFns c) P g x)).α t a b = (coefSpec c P g.ns g.n1 g.n2 (layered g x)).α t a b ∧
      (coefRs c P g x (response (realFns c) P g x)).β t a b = (coefSpec c P g.ns g.n1 g.n2 (layered g x)).β t a b ∧
      (coefRs c P g x (response (realFns c) P g x)).γ t a b = (coefSpec c P g.ns g.n1 g.n2 (layered g x)).γ t a b := by
    intro t a b ht' ha' hb'
    have e1 : lay g (response (realFns c) P g x).smax (t+1) a b =
        smaxOf (realFns c) P g.ns g.n1 g.n2 (specY (realFns c) P g.ns g.n1 g.n2 (layered g x) t) a b :=
      response_smax_eq_spec (realFns c) P g x hd hdx (by omega) ha' hb'
    have e2 : lay g (response (realFns c) P g x).xprint t a b =
        specY (realFns c) P g.ns g.n1 g.n2 (layered g x) t a b :=
      response_eq_spec (realFns c) P g x hd hdx (by omega) ha' hb'
    simp only [coefRs, coefSpec, coefOf, e1, e2, and_self]
  have hW : ∀ t a b, t ≤ g.nl - 1 → a < g.n1 → b < g.n2 →
      lay g (vtab g.dom.nel w) t a b = layered g w t a b := by
    intro t a b ht' ha' hb'
    unfold lay layered
    rw [vget_vtab_lt _ (g.el_lt hd (layerIdx_lt g (by omega)) ha' hb')]
  rcases Nat.lt_or_ge g.nl 2 with h1 | h2
  · -- a single layer
    have hT : g.nl - 1 = 0 := by omega
    have ht0 : t = 0 := by omega
    subst ht0
    unfold lay
    rw [sensitivity_one_layer _ P g x _ w h1, vget_vtab_lt _ hlt, hT]
    simp [back, layered]
  · unfold lay
    rw [sensitivity_eq_iterBack _ P g x _ w hdx h2]
    simp only
    rw [vget_vtab_lt _ hlt, g.inLayer_el hd hl ha hb]
    obtain ⟨_, ib, ic⟩ := iterBack_inv c P g x (response (realFns c) P g x) hd (g.nl - 1) (by omega)
      ⟨vtab g.dom.nel w, vtab g.dom.nel (fun _ => 0)⟩
    by_cases h0 : t = 0
    · subst h0
      simp only [decide_true, if_true]
      have := ic a b ha hb
      unfold lay at this
      rw [this]
      exact back_congr g.ns g.n1 g.n2 _ _ (g.nl - 1) _ _ hK hW 0 a b ha hb
    · have hne : ¬ layerIdx g t = layerIdx g 0 := fun he => h0 (layerIdx_inj g ht (by omega) he)
      simp only [hne, decide_false, Bool.false_eq_true, if_false]
      have := ib t a b (by omega) (by omega) ha hb
      unfold lay at this
      rw [this]
      exact back_congr g.ns g.n1 g.n2 _ _ (g.nl - 1) _ _ hK hW t a b ha hb

/-- the pairing of the code's sensitivities with a direction = the pairing of the seed with the tangent -/
theorem sens_pairing (hd : g.dirLayer < 3) (hdx : g.dxLayer = 1 ∨ g.dxLayer = -1) :
    dot g.dom.nel w (tanFlat c P g x v) =
      dot g.dom.nel (vget (sensitivity (realFns c) P g x (response (realFns c) P g x) w)) v := by
  unfold dot
  rw [sumRange_eq, sumRange_eq, sum_flat_eq_layers g hd, sum_flat_eq_layers g hd]
  have hL : ∀ t ∈ range g.nl, ∑ a ∈ range g.n1, ∑ b ∈ range g.n2,
        w (g.el (layerIdx g t) a b) * tanFlat c P g x v (g.el (layerIdx g t) a b) =
      pair2 g.n1 g.n2 (layered g w t)
        (tanY g.ns g.n1 g.n2 (coefSpec c P g.ns g.n1 g.n2 (layered g x)) (layered g v) t) := by
    intro t ht
    unfold pair2
    apply Finset.sum_congr rfl; intro a ha
    apply Finset.sum_congr rfl; intro b hb
    rw [tanFlat_el c P g x v hd (Finset.mem_range.mp ht) (Finset.mem_range.mp ha) (Finset.mem_range.mp hb)]
    rfl
  have hR : ∀ t ∈ range g.nl, ∑ a ∈ range g.n1, ∑ b ∈ range g.n2,
        vget (sensitivity (realFns c) P g x (response (realFns c) P g x) w) (g.el (layerIdx g t) a b) *
          v (g.el (layerIdx g t) a b) =
      pair2 g.n1 g.n2
        (back g.ns g.n1 g.n2 (coefSpec c P g.ns g.n1 g.n2 (layered g x)) (g.nl - 1) (layered g w) t)
        (layered g v t) := by
    intro t ht
    unfold pair2
    apply Finset.sum_congr rfl; intro a ha
    apply Finset.sum_congr rfl; intro b hb
    rw [← lay_sensitivity c P g x w hd hdx (Finset.mem_range.mp ht) (Finset.mem_range.mp ha)
      (Finset.mem_range.mp hb)]
    rfl
  rw [Finset.sum_congr rfl hL, Finset.sum_congr rfl hR]
  rcases Nat.eq_zero_or_pos g.nl with h0 | hpos
  · rw [h0]; simp
  · have hT : g.nl = (g.nl - 1) + 1 := by omega
    rw [hT]
    simp only [Nat.add_sub_cancel]
    exact back_adjoint g.ns g.n1 g.n2 _ (layered g v) (g.nl - 1) (layered g w)

/-- `_sensitivity` is the derivative of `_response`: for every seed `w` and direction `v` -/
theorem sensitivity_hasDerivAt (hd : g.dirLayer < 3) (hdx : g.dxLayer = 1 ∨ g.dxLayer = -1)
    (hns : 2 ≤ g.ns) (hq : P.q ≠ 0)
    (hpos : ∀ e, e < g.dom.nel → 0 < vget (response (realFns c) P g x).xprint e + P.shift)
    (hrad : ∀ t a b, t + 1 < g.nl → a < g.n1 → b < g.n2 →
      (x (g.el (layerIdx g (t+1)) a b) - vget (response (realFns c) P g x).smax (g.el (layerIdx g (t+1)) a b)) *
      (x (g.el (layerIdx g (t+1)) a b) - vget (response (realFns c) P g x).smax (g.el (layerIdx g (t+1)) a b))
        + P.eps ≠ 0) :
    HasDerivAt (fun τ : ℝ => dot g.dom.nel w (vget (response (realFns c) P g (fun e => x e + τ * v e)).xprint))
      (dot g.dom.nel (vget (sensitivity (realFns c) P g x (response (realFns c) P g x) w)) v) 0 := by
  rw [← sens_pairing c P g x v w hd hdx]
  unfold dot
  apply hasDerivAt_sumRange g.dom.nel
    (fun e τ => w e * vget (response (realFns c) P g (fun e => x e + τ * v e)).xprint e)
    (fun e => w e * tanFlat c P g x v e)
  intro e he
  exact (response_entry_hasDerivAt c P g x v hd hdx hns hq hpos hrad he).const_mul (w e)

end Final

end PymotoVerif.Overhang
