/- C14 / C01: the scalar derivative atoms of the overhang filter over `ℝ` and their composition along one
   support → smooth maximum → smooth minimum path, in the form the code's `_sensitivity` uses them -/
import PymotoVerif.Lemmas.OverhangReal
import Mathlib.Analysis.Calculus.Deriv.Comp

namespace PymotoVerif.Overhang
open PymotoVerif

/-- atom 1: `v ↦ (v + shift)^p` -/
theorem hasDerivAt_shift_pow (v shift p : ℝ) (h : v + shift ≠ 0 ∨ 1 ≤ p) :
    HasDerivAt (fun v : ℝ => (v + shift) ^ p) (p * (v + shift) ^ (p - 1)) v := by
  have h1 : HasDerivAt (fun v : ℝ => v + shift) 1 v := (hasDerivAt_id v).add_const shift
  have h2 := h1.rpow_const (p := p) h
  simpa using h2

/-- atom 2: `k ↦ k^(1/q) - backshift`, derivative in the code's form `k^((1/q) - 1) / q` -/
theorem hasDerivAt_root (k q backshift : ℝ) (hk : k ≠ 0) :
    HasDerivAt (fun k : ℝ => k ^ (1 / q) - backshift) (k ^ (1 / q - 1) / q) k := by
  have h := (Real.hasDerivAt_rpow_const (p := 1 / q) (Or.inl hk)).sub_const backshift
  exact h.congr_deriv (by ring)

/-- the code recomputes `keep` from the stored smooth maximum: `(smax + backshift)^q = keep` -/
theorem keep_recomputed (k q backshift : ℝ) (hk : 0 ≤ k) (hq : q ≠ 0) :
    ((k ^ (1 / q) - backshift) + backshift) ^ q = k := by
  rw [sub_add_cancel, ← Real.rpow_mul hk, one_div, inv_mul_cancel₀ hq, Real.rpow_one]

/-- atom 3a: the smooth minimum in its first argument -/
theorem hasDerivAt_smin_x (c ε x s : ℝ) (h : (x - s) * (x - s) + ε ≠ 0) :
    HasDerivAt (fun x : ℝ => smin (realFns c) ε x s)
      (1 / 2 - (x - s) / (2 * Real.sqrt ((x - s) * (x - s) + ε))) x := by
  have hd : HasDerivAt (fun x : ℝ => x - s) 1 x := (hasDerivAt_id x).sub_const s
  have hf : HasDerivAt (fun x : ℝ => (x - s) * (x - s) + ε) (1 * (x - s) + (x - s) * 1) x :=
    (hd.mul hd).add_const ε
  have hs := hf.sqrt h
  have h1 : HasDerivAt (fun x : ℝ => x + s) 1 x := (hasDerivAt_id x).add_const s
  have h2 := (((h1.sub hs).add_const (Real.sqrt ε)).div_const 2)
  exact h2.congr_deriv (by ring)

/-- atom 3b: the smooth minimum in its second argument -/
theorem hasDerivAt_smin_s (c ε x s : ℝ) (h : (x - s) * (x - s) + ε ≠ 0) :
    HasDerivAt (fun s : ℝ => smin (realFns c) ε x s)
      (1 / 2 + (x - s) / (2 * Real.sqrt ((x - s) * (x - s) + ε))) s := by
  have hd : HasDerivAt (fun s : ℝ => x - s) (-1) s := (hasDerivAt_id s).const_sub x
  have hf : HasDerivAt (fun s : ℝ => (x - s) * (x - s) + ε) ((-1) * (x - s) + (x - s) * (-1)) s :=
    (hd.mul hd).add_const ε
  have hs := hf.sqrt h
  have h1 : HasDerivAt (fun s : ℝ => x + s) 1 s := (hasDerivAt_id s).const_add x
  have h2 := (((h1.sub hs).add_const (Real.sqrt ε)).div_const 2)
  exact h2.congr_deriv (by ring)

/-- the code's `dx[els] = dxprint/2 + dfdr1` is seed × ∂smin/∂x -/
theorem dsminDx_eq (c ε x s dy : ℝ) :
    dsminDx (realFns c) ε x s dy = dy * (1 / 2 - (x - s) / (2 * Real.sqrt ((x - s) * (x - s) + ε))) := by
  simp only [dsminDx, dfdr1, realFns]; ring

/-- the code's `dfdsmax = dxprint/2 - dfdr1` is seed × ∂smin/∂s -/
theorem dsminDs_eq (c ε x s dy : ℝ) :
    dsminDs (realFns c) ε x s dy = dy * (1 / 2 + (x - s) / (2 * Real.sqrt ((x - s) * (x - s) + ε))) := by
  simp only [dsminDs, dfdr1, realFns]; ring

/-- one support → smooth maximum → smooth minimum path: `K` is the sum of the other supports' terms, `v` the printed
    density of this support.  The derivative of the printed density of the supported element with respect to `v`,
    times the seed `dy`, is exactly what the code adds to `dxprint` of the support:
    `c * (v + shift)^(p-1)` with `c = p * dfdsmax * keep^((1/q)-1) / q`, `keep = (smax + backshift)^q`. -/
theorem support_path_hasDerivAt (c : ℝ) (P : Par ℝ) (x K v dy : ℝ) (hK : 0 ≤ K) (hv : 0 < v + P.shift)
    (hq : P.q ≠ 0)
    (hne : (x - ((K + (v + P.shift) ^ P.p) ^ (1 / P.q) - P.backshift)) *
      (x - ((K + (v + P.shift) ^ P.p) ^ (1 / P.q) - P.backshift)) + P.eps ≠ 0) :
    let s := (K + (v + P.shift) ^ P.p) ^ (1 / P.q) - P.backshift
    HasDerivAt (fun v : ℝ => dy * smin (realFns c) P.eps x ((K + (v + P.shift) ^ P.p) ^ (1 / P.q) - P.backshift))
      (cOf (realFns c) P s (dsminDs (realFns c) P.eps x s dy) * (v + P.shift) ^ (P.p - 1)) v := by
  intro s
  have hpos : 0 < K + (v + P.shift) ^ P.p := by
    have := Real.rpow_pos_of_pos hv P.p
    linarith
  have h1 : HasDerivAt (fun v : ℝ => K + (v + P.shift) ^ P.p) (P.p * (v + P.shift) ^ (P.p - 1)) v :=
    (hasDerivAt_shift_pow v P.shift P.p (Or.inl hv.ne')).const_add K
  have h2 := hasDerivAt_root (K + (v + P.shift) ^ P.p) P.q P.backshift hpos.ne'
  have h3 := hasDerivAt_smin_s c P.eps x s hne
  have h12 : HasDerivAt (fun v : ℝ => (K + (v + P.shift) ^ P.p) ^ (1 / P.q) - P.backshift)
      ((K + (v + P.shift) ^ P.p) ^ (1 / P.q - 1) / P.q * (P.p * (v + P.shift) ^ (P.p - 1))) v :=
    HasDerivAt.comp (h₂ := fun k : ℝ => k ^ (1 / P.q) - P.backshift) v h2 h1
  have h123 : HasDerivAt (fun v : ℝ => smin (realFns c) P.eps x
      ((K + (v + P.shift) ^ P.p) ^ (1 / P.q) - P.backshift))
      ((1 / 2 + (x - s) / (2 * Real.sqrt ((x - s) * (x - s) + P.eps))) *
        ((K + (v + P.shift) ^ P.p) ^ (1 / P.q - 1) / P.q * (P.p * (v + P.shift) ^ (P.p - 1)))) v :=
    HasDerivAt.comp (h₂ := fun s : ℝ => smin (realFns c) P.eps x s) v h3 h12
  have h4 := h123.const_mul dy
  refine h4.congr_deriv ?_
  have hkeep : (s + P.backshift) ^ P.q = K + (v + P.shift) ^ P.p :=
    keep_recomputed _ P.q P.backshift hpos.le hq
  rw [dsminDs_eq]
  simp only [cOf, realFns]
  rw [hkeep]
  ring

end PymotoVerif.Overhang
