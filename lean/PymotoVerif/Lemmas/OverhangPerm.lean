/- C14: relabelling the axes of the DOMAIN (any permutation, in particular exchanging the print axis with another
   axis): the layer recursion only sees `nl`, `dx_layer`, `nsampling`, the two in-layer extents and the element map
   `el`; two geometries whose element maps correspond (in-layer axes in the same or in exchanged order) give
   corresponding results.  Any scalar type, the function parameters arbitrary. -/
import PymotoVerif.Lemmas.Overhang
import PymotoVerif.Lemmas.OverhangSymm
import Mathlib.Logic.Equiv.Basic

set_option linter.unusedSectionVars false
set_option linter.unnecessarySeqFocus false
set_option linter.unusedVariables false

namespace PymotoVerif.Overhang
open PymotoVerif PymotoVerif.Domain

/-! ## domains with Cartesian coordinates indexed by the axis -/

/-- `size = [nelx, nely, max(nelz, 1)]` as a function of the axis -/
def dsize (dom : Dom) (i : Fin 3) : Nat := if i = 0 then dom.nelx else if i = 1 then dom.nely else dom.nz

/-- `get_elemnumber(c[0], c[1], c[2])` -/
def elemAt (dom : Dom) (c : Fin 3 → Nat) : Nat := dom.elemNumber (c 0) (c 1) (c 2)

/-- the Cartesian position `(i, j, k)` -/
def vec3 (i j k : Nat) : Fin 3 → Nat := fun a => if a = 0 then i else if a = 1 then j else k

theorem Geo.size_val (g : Geo) (i : Fin 3) : g.size i.val = dsize g.dom i := by
  match i with
  | ⟨0, _⟩ => rfl
  | ⟨1, _⟩ => rfl
  | ⟨2, _⟩ => rfl

/-- the element at Cartesian position `c` is the element of layer `c[dir_layer]` at in-layer position
    `(c[dir_orth1], c[dir_orth2])` -/
theorem elemAt_eq_el (g : Geo) (h : g.dirLayer < 3) (c : Fin 3 → Nat) (D O1 O2 : Fin 3) (hD : D.val = g.dirLayer)
    (hO1 : O1.val = g.orth1) (hO2 : O2.val = g.orth2) : elemAt g.dom c = g.el (c D) (c O1) (c O2) := by
  obtain ⟨h1, h2, h3, h4, h5⟩ := g.axes_perm h
  have hc : ∀ i : Fin 3, g.cfun (c D) (c O1) (c O2) i.val = c i := by
    intro i
    unfold Geo.cfun
    rcases g.axis_cases h i.val i.isLt with h6 | h6 | h6
    · rw [if_pos h6]; congr 1; exact Fin.ext (by omega)
    · rw [if_neg (by omega), if_pos h6]; congr 1; exact Fin.ext (by omega)
    · rw [if_neg (by omega), if_neg (by omega)]; congr 1; exact Fin.ext (by omega)
  rw [Geo.el_eq]
  have e0 := hc 0
  have e1 := hc 1
  have e2 := hc 2
  simp only [Fin.val_zero, Fin.val_one, Fin.val_two] at e0 e1 e2
  rw [e0, e1, e2]
  rfl

/-- in 2-D the second in-layer axis of a sweep along `x` or `y` is `z` -/
theorem Geo.orth2_eq_two (g : Geo) (hdim : g.dom.dim = 2) (hd : g.dirLayer < 2) : g.orth2 = 2 := by
  unfold Geo.orth2 Geo.orthPair
  have : g.dirLayer = 0 ∨ g.dirLayer = 1 := by omega
  rcases this with h0 | h0 <;> rw [h0] <;> simp [hdim]

/-- a 2-D domain has one layer along `z` -/
theorem Geo.nl_of_dim2 (g : Geo) (hdim : g.dom.dim = 2) (hd : g.dirLayer = 2) : g.nl = 1 := by
  unfold Geo.nl Geo.size
  rw [hd]
  simp only [if_neg (show (2:Nat) ≠ 0 by omega), if_neg (show (2:Nat) ≠ 1 by omega)]
  unfold Dom.dim at hdim
  unfold Dom.nz
  split at hdim
  · rename_i hz; rw [hz]; rfl
  · omega

section Relabel
variable {α : Type} [Add α] [Sub α] [Mul α] [Div α] [Neg α] [OfNat α 0] [OfNat α 1] [OfNat α 2]

/-- with a single layer along the print axis the filter returns its input -/
theorem response_one_layer (F : Fns α) (P : Par α) (g : Geo) (x : Nat → α) (hd : g.dirLayer < 3)
    (hdx : g.dxLayer = 1 ∨ g.dxLayer = -1) (hnl : g.nl ≤ 1) {l a b : Nat} (hl : l < g.nl) (ha : a < g.n1)
    (hb : b < g.n2) : vget (response F P g x).xprint (g.el l a b) = x (g.el l a b) := by
  have hl0 : l = 0 := by omega
  have hli : layerIdx g 0 = l := by unfold layerIdx; split <;> omega
  have := response_eq_spec F P g x hd hdx (t := 0) (by omega) ha hb
  rw [hli] at this
  rw [this]
  simp only [specY, layered, hli]

/-- RELABELLING, in-layer axes in the same order: two geometries with the same number of layers, sweep direction,
    number of supports and in-layer extents, applied to designs that agree through the element maps, give results
    that agree through the element maps -/
theorem response_relabel (F : Fns α) (P : Par α) (g g' : Geo) (x x' : Nat → α) (hd : g.dirLayer < 3)
    (hd' : g'.dirLayer < 3) (hdx : g.dxLayer = 1 ∨ g.dxLayer = -1)
    (hdxe : g'.dxLayer = g.dxLayer) (hnse : g'.ns = g.ns) (hnl : g'.nl = g.nl) (hn1 : g'.n1 = g.n1)
    (hn2 : g'.n2 = g.n2)
    (hx : ∀ l a b, l < g.nl → a < g.n1 → b < g.n2 → x' (g'.el l a b) = x (g.el l a b)) :
    ∀ l a b, l < g.nl → a < g.n1 → b < g.n2 →
      vget (response F P g' x').xprint (g'.el l a b) = vget (response F P g x).xprint (g.el l a b) := by
  intro l a b hl ha hb
  have hli : ∀ t, layerIdx g' t = layerIdx g t := by intro t; unfold layerIdx; rw [hdxe, hnl]
  have key : ∀ t, t < g.nl → vget (response F P g' x').xprint (g'.el (layerIdx g' t) a b) =
      vget (response F P g x).xprint (g.el (layerIdx g t) a b) := by
    intro t ht
    rw [response_eq_spec F P g' x' hd' (by rw [hdxe]; exact hdx) (by rw [hnl]; exact ht)
        (by rw [hn1]; exact ha) (by rw [hn2]; exact hb),
      response_eq_spec F P g x hd hdx ht ha hb, hnse, hn1, hn2]
    apply specY_congr F P g.ns g.n1 g.n2 _ _ g.nl _ _ ht a b ha hb
    intro t' a' b' ht' ha' hb'
    show x' (g'.el (layerIdx g' t') a' b') = x (g.el (layerIdx g t') a' b')
    rw [hli]
    exact hx _ a' b' (layerIdx_lt g ht') ha' hb'
  have := key (layerIdx g l) (layerIdx_lt g hl)
  rwa [hli, layerIdx_invol g hl] at this

end Relabel

section Perm
variable {α : Type} [Field α]

/-- RELABELLING, in-layer axes exchanged (5 or 9 supports) -/
theorem response_relabel_swap (F : Fns α) (P : Par α) (g g' : Geo) (x x' : Nat → α) (hd : g.dirLayer < 3)
    (hd' : g'.dirLayer < 3) (hdx : g.dxLayer = 1 ∨ g.dxLayer = -1) (hns : g.ns = 5 ∨ g.ns = 9)
    (hdxe : g'.dxLayer = g.dxLayer) (hnse : g'.ns = g.ns) (hnl : g'.nl = g.nl) (hn1 : g'.n1 = g.n2)
    (hn2 : g'.n2 = g.n1)
    (hx : ∀ l a b, l < g.nl → a < g.n2 → b < g.n1 → x' (g'.el l a b) = x (g.el l b a)) :
    ∀ l a b, l < g.nl → a < g.n2 → b < g.n1 →
      vget (response F P g' x').xprint (g'.el l a b) = vget (response F P g x).xprint (g.el l b a) := by
  intro l a b hl ha hb
  have hli : ∀ t, layerIdx g' t = layerIdx g t := by intro t; unfold layerIdx; rw [hdxe, hnl]
  have key : ∀ t, t < g.nl → vget (response F P g' x').xprint (g'.el (layerIdx g' t) a b) =
      vget (response F P g x).xprint (g.el (layerIdx g t) b a) := by
    intro t ht
    rw [response_eq_spec F P g' x' hd' (by rw [hdxe]; exact hdx) (by rw [hnl]; exact ht)
        (by rw [hn1]; exact ha) (by rw [hn2]; exact hb),
      response_eq_spec F P g x hd hdx ht hb ha, hnse, hn1, hn2]
    apply specY_swap F P g.ns g.n1 g.n2 hns _ _ g.nl _ _ ht a b ha hb
    intro t' a' b' ht' ha' hb'
    show x' (g'.el (layerIdx g' t') a' b') = x (g.el (layerIdx g t') b' a')
    rw [hli]
    exact hx _ a' b' (layerIdx_lt g ht') ha' hb'
  have := key (layerIdx g l) (layerIdx_lt g hl)
  rwa [hli, layerIdx_invol g hl] at this

/-- PERMUTATION OF THE DOMAIN AXES.  `π` sends axis `i` of `g.dom` to axis `π i` of `g'.dom` (extents carried along),
    the print axis `D` goes to `π D`, sweep sign and number of supports are the same; the design `x'` on `g'.dom` is
    `x` with permuted coordinates (`c ↦ c ∘ π⁻¹`).  Then the result on `g'` is the result on `g` with permuted
    coordinates.  The in-layer axes of `g'` are the images of those of `g` in the same or in exchanged order; the
    second case occurs only in 3-D (5 or 9 supports, symmetric under the exchange) or for a 2-D domain "printed"
    along `z`, where there is one layer. -/
theorem response_axis_perm (F : Fns α) (P : Par α) (g g' : Geo) (π : Equiv.Perm (Fin 3)) (D : Fin 3)
    (x x' : Nat → α) (hD : D.val = g.dirLayer) (hD' : (π D).val = g'.dirLayer)
    (hdx : g.dxLayer = 1 ∨ g.dxLayer = -1) (hdxe : g'.dxLayer = g.dxLayer) (hnse : g'.ns = g.ns)
    (hns : (g.dom.dim = 2 ∧ g.ns = 3) ∨ (g.dom.dim = 3 ∧ (g.ns = 5 ∨ g.ns = 9)))
    (hdim : g'.dom.dim = g.dom.dim) (h2 : g.dom.dim = 2 → π 2 = 2)
    (hsize : ∀ i, dsize g'.dom (π i) = dsize g.dom i)
    (hx : ∀ c : Fin 3 → Nat, (∀ i, c i < dsize g.dom i) → x' (elemAt g'.dom (c ∘ π.symm)) = x (elemAt g.dom c)) :
    ∀ c : Fin 3 → Nat, (∀ i, c i < dsize g.dom i) →
      vget (response F P g' x').xprint (elemAt g'.dom (c ∘ π.symm)) =
        vget (response F P g x).xprint (elemAt g.dom c) := by
  intro c hc
  have hd : g.dirLayer < 3 := by rw [← hD]; exact D.isLt
  have hd' : g'.dirLayer < 3 := by rw [← hD']; exact (π D).isLt
  obtain ⟨h1, h2o, h3, h4, h5⟩ := g.axes_perm hd
  obtain ⟨h1', h2o', h3', h4', h5'⟩ := g'.axes_perm hd'
  -- the in-layer axes as elements of `Fin 3`
  obtain ⟨O1, hO1⟩ : ∃ O1 : Fin 3, O1.val = g.orth1 := ⟨⟨g.orth1, h1⟩, rfl⟩
  obtain ⟨O2, hO2⟩ : ∃ O2 : Fin 3, O2.val = g.orth2 := ⟨⟨g.orth2, h2o⟩, rfl⟩
  have hne1 : O1 ≠ D := fun h => h3 (by rw [← hO1, ← hD, h])
  have hne2 : O2 ≠ D := fun h => h4 (by rw [← hO2, ← hD, h])
  have hne12 : O1 ≠ O2 := fun h => h5 (by rw [← hO1, ← hO2, h])
  have hp1 : (π O1).val ≠ (π D).val := fun h => hne1 (π.injective (Fin.ext h))
  have hp2 : (π O2).val ≠ (π D).val := fun h => hne2 (π.injective (Fin.ext h))
  have hp12 : (π O1).val ≠ (π O2).val := fun h => hne12 (π.injective (Fin.ext h))
  -- extents
  have hsz : ∀ i : Fin 3, g'.size (π i).val = g.size i.val := by
    intro i; rw [Geo.size_val, Geo.size_val]; exact hsize i
  have hnl : g'.nl = g.nl := by
    unfold Geo.nl; rw [← hD', ← hD]; exact hsz D
  have hcl : c D < g.nl := by unfold Geo.nl; rw [← hD, Geo.size_val]; exact hc D
  have hc1 : c O1 < g.n1 := by unfold Geo.n1; rw [← hO1, Geo.size_val]; exact hc O1
  have hc2 : c O2 < g.n2 := by unfold Geo.n2; rw [← hO2, Geo.size_val]; exact hc O2
  -- the coordinate function of `(l, a, b)` in `g`
  have hcc : ∀ l a b, l < g.nl → a < g.n1 → b < g.n2 →
      (∀ i : Fin 3, g.cfun l a b i.val < dsize g.dom i) ∧ g.cfun l a b D.val = l ∧ g.cfun l a b O1.val = a ∧
        g.cfun l a b O2.val = b := by
    intro l a b hl ha hb
    refine ⟨fun i => ?_, ?_, ?_, ?_⟩
    · rw [← Geo.size_val]; exact g.cfun_lt hd hl ha hb i.val i.isLt
    · unfold Geo.cfun; rw [if_pos hD]
    · unfold Geo.cfun; rw [if_neg (by omega), if_pos hO1]
    · unfold Geo.cfun; rw [if_neg (by omega), if_neg (by omega)]
  -- the in-layer axes of `g'` are the images of those of `g`, in the same or in exchanged order
  have hcls : ((π O1).val = g'.orth1 ∧ (π O2).val = g'.orth2) ∨ ((π O1).val = g'.orth2 ∧ (π O2).val = g'.orth1) := by
    rcases g'.axis_cases hd' (π O1).val (π O1).isLt with e | e | e
    · omega
    · rcases g'.axis_cases hd' (π O2).val (π O2).isLt with e' | e' | e'
      · omega
      · omega
      · exact Or.inl ⟨e, e'⟩
    · rcases g'.axis_cases hd' (π O2).val (π O2).isLt with e' | e' | e'
      · omega
      · exact Or.inr ⟨e, e'⟩
      · omega
  rcases hcls with ⟨e1, e2⟩ | ⟨e1, e2⟩
  · -- same order
    have hn1 : g'.n1 = g.n1 := by unfold Geo.n1; rw [← e1, ← hO1]; exact hsz O1
    have hn2 : g'.n2 = g.n2 := by unfold Geo.n2; rw [← e2, ← hO2]; exact hsz O2
    rw [elemAt_eq_el g' hd' (c ∘ π.symm) (π D) (π O1) (π O2) hD' e1 e2, elemAt_eq_el g hd c D O1 O2 hD hO1 hO2]
    simp only [Function.comp, Equiv.symm_apply_apply]
    apply response_relabel F P g g' x x' hd hd' hdx hdxe hnse hnl hn1 hn2 ?_ _ _ _ hcl hc1 hc2
    intro l a b hl ha hb
    obtain ⟨q0, q1, q2, q3⟩ := hcc l a b hl ha hb
    have := hx (fun i => g.cfun l a b i.val) q0
    rw [elemAt_eq_el g' hd' _ (π D) (π O1) (π O2) hD' e1 e2, elemAt_eq_el g hd _ D O1 O2 hD hO1 hO2] at this
    simp only [Function.comp, Equiv.symm_apply_apply] at this
    rw [q1, q2, q3] at this
    exact this
  · -- exchanged order
    have hn1 : g'.n1 = g.n2 := by unfold Geo.n1 Geo.n2; rw [← e2, ← hO2]; exact hsz O2
    have hn2 : g'.n2 = g.n1 := by unfold Geo.n1 Geo.n2; rw [← e1, ← hO1]; exact hsz O1
    rw [elemAt_eq_el g' hd' (c ∘ π.symm) (π D) (π O2) (π O1) hD' e2 e1, elemAt_eq_el g hd c D O1 O2 hD hO1 hO2]
    simp only [Function.comp, Equiv.symm_apply_apply]
    have hxg : ∀ l a b, l < g.nl → a < g.n2 → b < g.n1 → x' (g'.el l a b) = x (g.el l b a) := by
      intro l a b hl ha hb
      obtain ⟨q0, q1, q2, q3⟩ := hcc l b a hl hb ha
      have := hx (fun i => g.cfun l b a i.val) q0
      rw [elemAt_eq_el g' hd' _ (π D) (π O2) (π O1) hD' e2 e1, elemAt_eq_el g hd _ D O1 O2 hD hO1 hO2] at this
      simp only [Function.comp, Equiv.symm_apply_apply] at this
      rw [q1, q2, q3] at this
      exact this
    rcases hns with ⟨hdim2, hns3⟩ | ⟨_, hns59⟩
    · -- 2-D: only possible when "printing" along `z`, one layer
      have hdim2' : g'.dom.dim = 2 := by rw [hdim]; exact hdim2
      have hπ2 := h2 hdim2
      by_cases hdz : g.dirLayer = 2
      · have hnl1 : g.nl = 1 := g.nl_of_dim2 hdim2 hdz
        rw [response_one_layer F P g' x' hd' (by rw [hdxe]; exact hdx) (by omega) (by omega)
            (by rw [hn1]; exact hc2) (by rw [hn2]; exact hc1),
          response_one_layer F P g x hd hdx (by omega) hcl hc1 hc2]
        exact hxg _ _ _ hcl hc2 hc1
      · exfalso
        have ho2 : g.orth2 = 2 := g.orth2_eq_two hdim2 (by omega)
        have hO22 : O2 = 2 := Fin.ext (by rw [hO2, ho2]; rfl)
        have hD2 : D ≠ 2 := fun h => hdz (by rw [← hD, h]; rfl)
        have hd'2 : g'.dirLayer ≠ 2 := by
          intro h
          apply hD2
          apply π.injective
          rw [hπ2]
          exact Fin.ext (by rw [hD', h]; rfl)
        have ho2' : g'.orth2 = 2 := g'.orth2_eq_two hdim2' (by omega)
        have : (π O2).val = 2 := by rw [hO22, hπ2]; rfl
        omega
    · exact response_relabel_swap F P g g' x x' hd hd' hdx hns59 hdxe hnse hnl hn1 hn2 hxg _ _ _ hcl hc2 hc1

end Perm

end PymotoVerif.Overhang
