/- C14: what a successful `_prepare` guarantees about the sweep geometry (over any linearly ordered field) -/
import PymotoVerif.Core.Overhang
import Mathlib.Algebra.Order.Field.Basic
import Mathlib.Tactic.Linarith
import Mathlib.Tactic.NormNum
import Mathlib.Tactic.Positivity

set_option linter.unusedSectionVars false
set_option linter.unnecessarySeqFocus false

namespace PymotoVerif.Overhang
open PymotoVerif PymotoVerif.Domain

section
variable {α : Type} [Field α] [LinearOrder α] [IsStrictOrderedRing α]

theorem absv_nonneg (a : α) : 0 ≤ absv a := by
  unfold absv; split <;> linarith

theorem absv_eq_zero {a : α} (h : absv a = 0) : a = 0 := by
  unfold absv at h; split at h <;> linarith

theorem argmax3_lt (v : Nat → α) : argmax3 v < 3 := by
  simp only [argmax3]; split <;> split <;> omega

/-- `np.argmax` returns a position of the maximum -/
theorem le_argmax3 (v : Nat → α) : v 0 ≤ v (argmax3 v) ∧ v 1 ≤ v (argmax3 v) ∧ v 2 ≤ v (argmax3 v) := by
  simp only [argmax3]
  by_cases h01 : v 0 < v 1
  · simp only [h01, if_true]
    by_cases h2 : v 1 < v 2
    · simp only [h2, if_true]; exact ⟨by linarith, by linarith, le_refl _⟩
    · simp only [h2, if_false]; exact ⟨by linarith, le_refl _, by linarith⟩
  · simp only [h01, if_false]
    by_cases h2 : v 0 < v 2
    · simp only [h2, if_true]; exact ⟨by linarith, by linarith, le_refl _⟩
    · simp only [h2, if_false]; exact ⟨le_refl _, by linarith, by linarith⟩

theorem tol10_lt_one : (tol10 : α) < 1 := by
  unfold tol10
  rw [div_lt_one (by positivity)]
  norm_num

/-- a successful `_prepare` yields a sweep along one of the three axes with `dx_layer = ±1` and 3, 5 or 9 supports -/
theorem prepare_ok_geo (F : Fns α) (dom : Dom) (arg : DirArg α) (xi0 p eps : α) (ns : Option Int)
    (pr : Prepared α) (h : prepare F dom arg xi0 p eps ns = .ok pr) :
    (geoOf pr).dirLayer < 3 ∧ ((geoOf pr).dxLayer = 1 ∨ (geoOf pr).dxLayer = -1) ∧
    ((geoOf pr).ns = 3 ∨ (geoOf pr).ns = 5 ∨ (geoOf pr).ns = 9) ∧ (geoOf pr).dom = dom := by
  unfold prepare at h
  split at h
  · cases h
  · rename_i dir _
    split_ifs at h with h1 h2 h3
    cases h
    refine ⟨by simp only [geoOf]; exact argmax3_lt _, ?_, ?_, rfl⟩
    · -- the entry of largest modulus is not zero because the 1-norm is at least `1 - 1e-10 > 0`
      simp only [geoOf]
      have hsum : 0 < absv (dir 0) + absv (dir 1) + absv (dir 2) := by
        have := tol10_lt_one (α := α)
        linarith
      obtain ⟨m0, m1, m2⟩ := le_argmax3 (fun i => absv (dir i))
      have hmax : 0 < absv (dir (argmax3 fun i => absv (dir i))) := by
        by_contra hc
        have hz : absv (dir (argmax3 fun i => absv (dir i))) = 0 :=
          le_antisymm (not_lt.mp hc) (absv_nonneg _)
        simp only [hz] at m0 m1 m2
        have := absv_nonneg (dir 0); have := absv_nonneg (dir 1); have := absv_nonneg (dir 2)
        linarith
      have hne : dir (argmax3 fun i => absv (dir i)) ≠ 0 := by
        intro h0; rw [h0] at hmax; simp [absv] at hmax
      unfold signInt
      rcases lt_trichotomy (dir (argmax3 fun i => absv (dir i))) 0 with hl | hl | hl
      · right; simp [hl]
      · exact absurd hl hne
      · left; simp [hl, not_lt.mpr hl.le]
    · simp only [geoOf]
      simp only [nsValid, Bool.or_eq_true, Bool.and_eq_true, decide_eq_true_eq] at h3
      rcases h3 with ⟨_, h⟩ | ⟨_, h | h⟩ <;> rw [h] <;> simp
end

end PymotoVerif.Overhang
