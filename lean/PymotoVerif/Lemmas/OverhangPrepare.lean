/- C14: what a successful `_prepare` guarantees about the sweep geometry (over any linearly ordered field) -/
import PymotoVerif.Core.Overhang
import Mathlib.Algebra.Order.Field.Basic
import Mathlib.Tactic.Linarith
import Mathlib.Tactic.NormNum
import Mathlib.Tactic.Positivity

set_option linter.unusedSectionVars false
set_option linter.unnecessarySeqFocus false

namespace PymotoVerif.Overhang
open PymotoVerif PymotoVerif.Domain

section
variable {α : Type} [Field α] [LinearOrder α] [IsStrictOrderedRing α]

theorem absv_nonneg (a : α) : 0 ≤ absv a := by
  unfold absv; split <;> linarith

theorem absv_eq_zero {a : α} (h : absv a = 0) : a = 0 := by
  unfold absv at h; split at h <;> linarith

theorem argmax3_lt (v : Nat → α) : argmax3 v < 3 := by
  simp only [argmax3]; split <;> split <;> omega

/-- `np.argmax` returns a position of the maximum -/
theorem le_argmax3 (v : Nat → α) : v 0 ≤ v (argmax3 v) ∧ v 1 ≤ v (argmax3 v) ∧ v 2 ≤ v (argmax3 v) := by
  simp only [argmax3]
  by_cases h01 : v 0 < v 1
  · simp only [h01, if_true]
    by_cases h2 : v 1 < v 2
    · simp only [h2, if_true]; exact ⟨by linarith, by linarith, le_refl _⟩
    · simp only [h2, if_false]; exact ⟨by linarith, le_refl _, by linarith⟩
  · simp only [h01, if_false]
    by_cases h2 : v 0 < v 2
    · simp only [h2, if_true]; exact ⟨by linarith, by linarith, le_refl _⟩
    · simp only [h2, if_false]; exact ⟨le_refl _, by linarith, by linarith⟩

theorem tol10_lt_one : (tol10 : α) < 1 := by
  unfold tol10
  rw [div_lt_one (by positivity)]
  norm_num

/-- a successful `_prepare` yields a sweep along one of the three axes with `dx_layer = ±1` and 3, 5 or 9 supports -/
theorem prepare_ok_geo (F : Fns α) (dom : Dom) (arg : DirArg α) (xi0 p eps : α) (ns : Option Int)
    (pr : Prepared α) (h : prepare F dom arg xi0 p eps ns = .ok pr) :
    (geoOf pr).dirLayer < 3 ∧ ((geoOf pr).dxLayer = 1 ∨ (geoOf pr).dxLayer = -1) ∧
    ((geoOf pr).ns = 3 ∨ (geoOf pr).ns = 5 ∨ (geoOf pr).ns = 9) ∧ (geoOf pr).dom = dom := by
  unfold prepare at h
  split at h
  · cases h
  · rename_i dir _
    split_ifs at h with h1 h2 h3
    cases h
    refine ⟨by simp only [geoOf]; exact argmax3_lt _, ?_, ?_, rfl⟩
    · -- the entry of largest modulus is not zero because the 1-norm is at least `1 - 1e-10 > 0`
      simp only [geoOf]
      have hsum : 0 < absv (dir 0) + absv (dir 1) + absv (dir 2) := by
        have := tol10_lt_one (α := α)
        linarith
      obtain ⟨m0, m1, m2⟩ := le_argmax3 (fun i => absv (dir i))
      have hmax : 0 < absv (dir (argmax3 fun i => absv (dir i))) := by
        by_contra hc
        have hz : absv (dir (argmax3 fun i => absv (dir i))) = 0 :=
          le_antisymm (not_lt.mp hc) (absv_nonneg _)
        simp only [hz] at m0 m1 m2
        have := absv_nonneg (dir 0); have := absv_nonneg (dir 1); have := absv_nonneg (dir 2)
        linarith
      have hne : dir (argmax3 fun i => absv (dir i)) ≠ 0 := by
        intro h0; rw [h0] at hmax; simp [absv] at hmax
      unfold signInt
      rcases lt_trichotomy (dir (argmax3 fun i => absv (dir i))) 0 with hl | hl | hl
      · right; simp [hl]
      · exact absurd hl hne
      · left; simp [hl, not_lt.mpr hl.le]
    · simp only [geoOf]
      simp only [nsValid, Bool.or_eq_true, Bool.and_eq_true, decide_eq_true_eq] at h3
      rcases h3 with ⟨_, h⟩ | ⟨_, h | h⟩ <;> rw [h] <;> simp

/-- `np.argmax` of three entries of which exactly the `d`-th is positive and the others are zero -/
theorem argmax3_single (v : Nat → α) (d : Nat) (hd : d < 3) (hpos : 0 < v d) (hz : ∀ i, i ≠ d → v i = 0) :
    argmax3 v = d := by
  have : d = 0 ∨ d = 1 ∨ d = 2 := by omega
  simp only [argmax3]
  rcases this with h | h | h <;> subst h
  · have e1 := hz 1 (by omega); have e2 := hz 2 (by omega)
    simp [e1, e2, not_lt.mpr hpos.le]
  · have e0 := hz 0 (by omega); have e2 := hz 2 (by omega)
    simp [e0, e2, hpos, not_lt.mpr hpos.le]
  · have e0 := hz 0 (by omega); have e1 := hz 1 (by omega)
    simp [e0, e1, hpos]

/-- the direction given as a string is the direction given as the parsed vector -/
theorem prepare_str_eq_vec (F : Fns α) (dom : Dom) (s : List Char) (w : List α) (xi0 p eps : α) (ns : Option Int)
    (h : parseStr (α := α) s = .ok w) :
    prepare F dom (.str s) xi0 p eps ns = prepare F dom (.vec w) xi0 p eps ns := by
  unfold prepare parseDirection
  simp only [h]

/-- `_prepare` with an AXIS direction `m·e_d` (`m ≠ 0`, any magnitude; `np.linalg.norm` positive): the sweep runs along
    axis `d` with `dx_layer = sign m`, the supports are those validated for the dimension, the scalar parameters are
    stored unchanged -/
theorem prepare_axis_geo (F : Fns α) (dom : Dom) (v : List α) (xi0 p eps : α) (ns : Option Int) (pr : Prepared α)
    (d : Nat) (hd : d < 3) (m : α) (hm : m ≠ 0) (hv : ∀ i, padTrunc v i = if i = d then m else 0)
    (hnrm : 0 < norm3 F (padTrunc v)) (h : prepare F dom (.vec v) xi0 p eps ns = .ok pr) :
    geoOf pr = ⟨dom, d, if m < 0 then -1 else 1, (nsOf dom ns).toNat⟩ ∧
    ((dom.dim = 2 ∧ (nsOf dom ns).toNat = 3) ∨
      (dom.dim = 3 ∧ ((nsOf dom ns).toNat = 5 ∨ (nsOf dom ns).toNat = 9))) ∧
    pr.xi0 = xi0 ∧ pr.p = p ∧ pr.eps = eps ∧ pr.nsampling = (nsOf dom ns).toNat := by
  have hpd : parseDirection F (DirArg.vec v) = .ok (fun i => padTrunc v i / norm3 F (padTrunc v)) := rfl
  unfold prepare at h
  rw [hpd] at h
  simp only at h
  split_ifs at h with h1 h2 h3
  cases h
  have hdir : ∀ i, padTrunc v i / norm3 F (padTrunc v) = if i = d then m / norm3 F (padTrunc v) else 0 := by
    intro i; rw [hv i]; split
    · rfl
    · exact zero_div _
  have hmd : m / norm3 F (padTrunc v) ≠ 0 := div_ne_zero hm hnrm.ne'
  have hav : ∀ i, absv (padTrunc v i / norm3 F (padTrunc v)) =
      if i = d then absv (m / norm3 F (padTrunc v)) else 0 := by
    intro i; rw [hdir i]; split
    · rfl
    · simp [absv]
  have hapos : 0 < absv (m / norm3 F (padTrunc v)) :=
    lt_of_le_of_ne (absv_nonneg _) (fun h0 => hmd (absv_eq_zero h0.symm))
  have harg : argmax3 (fun i => absv (padTrunc v i / norm3 F (padTrunc v))) = d := by
    apply argmax3_single _ d hd
    · show 0 < absv (padTrunc v d / norm3 F (padTrunc v))
      rw [hav d, if_pos rfl]; exact hapos
    · intro i hi
      show absv (padTrunc v i / norm3 F (padTrunc v)) = 0
      rw [hav i, if_neg hi]
  refine ⟨?_, ?_, rfl, rfl, rfl, rfl⟩
  · simp only [geoOf]
    rw [harg, hdir d, if_pos rfl]
    congr 1
    unfold signInt
    by_cases hneg : m < 0
    · have : m / norm3 F (padTrunc v) < 0 := div_neg_of_neg_of_pos hneg hnrm
      rw [if_pos this, if_pos hneg]
    · have hmpos : 0 < m := lt_of_le_of_ne (not_lt.mp hneg) (Ne.symm hm)
      have : 0 < m / norm3 F (padTrunc v) := div_pos hmpos hnrm
      rw [if_neg (not_lt.mpr this.le), if_pos this, if_neg hneg]
  · simp only [nsValid, Bool.or_eq_true, Bool.and_eq_true, decide_eq_true_eq] at h3
    rcases h3 with ⟨hd2, h⟩ | ⟨hd3, h | h⟩
    · left; exact ⟨hd2, by rw [h]; rfl⟩
    · right; exact ⟨hd3, Or.inl (by rw [h]; rfl)⟩
    · right; exact ⟨hd3, Or.inr (by rw [h]; rfl)⟩

/-- `m·e_d` has a positive Euclidean norm when `sqrt` is positive on positive numbers -/
theorem norm3_axis_pos (F : Fns α) (w : Nat → α) (d : Nat) (hd : d < 3) (m : α) (hm : m ≠ 0)
    (hw : ∀ i, w i = if i = d then m else 0) (hsqrt : ∀ t : α, 0 < t → 0 < F.sqrt t) : 0 < norm3 F w := by
  unfold norm3
  apply hsqrt
  have hmm : 0 < m * m := by
    rcases lt_or_gt_of_ne hm with h | h
    · exact mul_pos_of_neg_of_neg h h
    · exact mul_pos h h
  have : d = 0 ∨ d = 1 ∨ d = 2 := by omega
  have key : w 0 * w 0 + w 1 * w 1 + w 2 * w 2 = m * m := by
    rcases this with h | h | h <;> subst h <;> simp [hw]
  rw [key]; exact hmm

/-- pad/truncate of the unit vector the string branch builds -/
theorem padTrunc_unitList (a : Nat) (ha : a < 3) (sg : α) (i : Nat) :
    padTrunc ((List.range 3).map (fun i => if i = a then sg else 0)) i = if i = a then sg else 0 := by
  unfold padTrunc
  by_cases hi : i < 3
  · rw [if_pos hi]
    have : i = 0 ∨ i = 1 ∨ i = 2 := by omega
    rcases this with h | h | h <;> subst h <;> rfl
  · rw [if_neg hi, if_neg (by omega)]
end

end PymotoVerif.Overhang
