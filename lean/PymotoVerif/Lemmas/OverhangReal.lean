/- C14 over `ℝ`: bounds of the smooth minimum / smooth maximum and the scalar derivative atoms of the sweep -/
import PymotoVerif.Lemmas.Overhang
import PymotoVerif.Lemmas.Sum
import Mathlib.Analysis.SpecialFunctions.Pow.Real
import Mathlib.Analysis.SpecialFunctions.Pow.Deriv
import Mathlib.Analysis.SpecialFunctions.Sqrt
import Mathlib.Analysis.Calculus.Deriv.Add
import Mathlib.Analysis.Calculus.Deriv.Mul
import Mathlib.Tactic.FieldSimp
import Mathlib.Tactic.Positivity

set_option linter.unusedSectionVars false

namespace PymotoVerif.Overhang
open PymotoVerif Finset

/-- the function parameters over `ℝ`: `Real.log`, `Real.rpow`, `Real.sqrt`; `np.finfo.tiny` is any number -/
noncomputable def realFns (dblMin : ℝ) : Fns ℝ := ⟨Real.log, fun a b => a ^ b, Real.sqrt, dblMin⟩

/-! ## smooth minimum -/

theorem abs_le_sqrt_sq_add (d ε : ℝ) (hε : 0 ≤ ε) : |d| ≤ Real.sqrt (d * d + ε) := by
  apply Real.abs_le_sqrt
  nlinarith

theorem sqrt_sq_add_le (d ε : ℝ) (hε : 0 ≤ ε) : Real.sqrt (d * d + ε) ≤ |d| + Real.sqrt ε := by
  rw [Real.sqrt_le_iff]
  constructor
  · positivity
  · have h1 := Real.sq_sqrt hε
    have h2 : 0 ≤ |d| * Real.sqrt ε := by positivity
    have h3 : |d| ^ 2 = d * d := by rw [sq_abs]; ring
    nlinarith

theorem min_eq_half (x s : ℝ) : min x s = (x + s - |x - s|) / 2 := by
  rcases le_total x s with h | h
  · rw [min_eq_left h, abs_of_nonpos (by linarith)]; ring
  · rw [min_eq_right h, abs_of_nonneg (by linarith)]; ring

/-- `smin(x, s) ≤ min(x, s) + √ε/2` -/
theorem smin_le (c ε x s : ℝ) (hε : 0 ≤ ε) :
    smin (realFns c) ε x s ≤ min x s + Real.sqrt ε / 2 := by
  have h := abs_le_sqrt_sq_add (x - s) ε hε
  rw [min_eq_half]
  simp only [smin, realFns]
  linarith

/-- `min(x, s) ≤ smin(x, s)` -/
theorem le_smin (c ε x s : ℝ) (hε : 0 ≤ ε) :
    min x s ≤ smin (realFns c) ε x s := by
  have h := sqrt_sq_add_le (x - s) ε hε
  rw [min_eq_half]
  simp only [smin, realFns]
  linarith

/-! ## sums -/

theorem sumRange_nonneg (n : Nat) (f : Nat → ℝ) (h : ∀ i, i < n → 0 ≤ f i) : 0 ≤ sumRange n f := by
  induction n with
  | zero => simp [sumRange]
  | succ n ih =>
    rw [sumRange]
    have := ih (fun i hi => h i (Nat.lt_succ_of_lt hi))
    have := h n (Nat.lt_succ_self n)
    linarith

theorem sumRange_le_mul (n : Nat) (f : Nat → ℝ) (c : ℝ) (h : ∀ i, i < n → f i ≤ c) :
    sumRange n f ≤ (n : ℝ) * c := by
  induction n with
  | zero => simp [sumRange]
  | succ n ih =>
    rw [sumRange]
    have := ih (fun i hi => h i (Nat.lt_succ_of_lt hi))
    have := h n (Nat.lt_succ_self n)
    push_cast
    linarith

theorem le_sumRange (n : Nat) (f : Nat → ℝ) (h : ∀ i, i < n → 0 ≤ f i) (j : Nat) (hj : j < n) :
    f j ≤ sumRange n f := by
  induction n with
  | zero => omega
  | succ n ih =>
    rw [sumRange]
    rcases Nat.lt_succ_iff_lt_or_eq.mp hj with h1 | h1
    · have := ih (fun i hi => h i (Nat.lt_succ_of_lt hi)) h1
      have := h n (Nat.lt_succ_self n)
      linarith
    · subst h1
      have := sumRange_nonneg j f (fun i hi => h i (Nat.lt_succ_of_lt hi))
      linarith

/-! ## smooth maximum -/

/-- upper bound: in-domain supports in `[-shift, δ]` give `smax ≤ ns^(1/q) (δ+shift)^(p/q) - backshift` -/
theorem smaxOf_le (c : ℝ) (P : Par ℝ) (ns n1 n2 : Nat) (Yp : Nat → Nat → ℝ) (a b : Nat) (δ : ℝ)
    (hq : 0 < P.q) (hp : 0 ≤ P.p) (hδ : 0 ≤ δ + P.shift)
    (hY : ∀ i, i < ns → inRange n1 a (offA i) = true → inRange n2 b (offB i) = true →
      0 ≤ Yp (shiftIdx a (offA i)) (shiftIdx b (offB i)) + P.shift ∧
      Yp (shiftIdx a (offA i)) (shiftIdx b (offB i)) ≤ δ) :
    smaxOf (realFns c) P ns n1 n2 Yp a b ≤ (ns : ℝ) ^ (1 / P.q) * (δ + P.shift) ^ (P.p / P.q) - P.backshift := by
  unfold smaxOf
  simp only [realFns]
  have hC : 0 ≤ (δ + P.shift) ^ P.p := Real.rpow_nonneg hδ _
  have hterm : ∀ i, i < ns →
      (if (inRange n1 a (offA i) && inRange n2 b (offB i)) = true then
        (Yp (shiftIdx a (offA i)) (shiftIdx b (offB i)) + P.shift) ^ P.p else 0) ≤ (δ + P.shift) ^ P.p ∧
      0 ≤ (if (inRange n1 a (offA i) && inRange n2 b (offB i)) = true then
        (Yp (shiftIdx a (offA i)) (shiftIdx b (offB i)) + P.shift) ^ P.p else 0) := by
    intro i hi
    by_cases hm : (inRange n1 a (offA i) && inRange n2 b (offB i)) = true
    · rw [if_pos hm]
      simp only [Bool.and_eq_true] at hm
      obtain ⟨h0, h1⟩ := hY i hi hm.1 hm.2
      exact ⟨Real.rpow_le_rpow h0 (by linarith) hp, Real.rpow_nonneg h0 _⟩
    · rw [if_neg hm]; exact ⟨hC, le_refl _⟩
  have hk0 := sumRange_nonneg ns _ (fun i hi => (hterm i hi).2)
  have hk1 := sumRange_le_mul ns _ _ (fun i hi => (hterm i hi).1)
  have h1 := Real.rpow_le_rpow hk0 hk1 (by positivity : 0 ≤ 1 / P.q)
  rw [Real.mul_rpow (Nat.cast_nonneg ns) hC, ← Real.rpow_mul hδ, mul_one_div] at h1
  linarith

/-- lower bound: non-negative terms and one in-domain support with `(y + shift)^p ≥ L ≥ 0` give
    `smax ≥ L^(1/q) - backshift` -/
theorem le_smaxOf (c : ℝ) (P : Par ℝ) (ns n1 n2 : Nat) (Yp : Nat → Nat → ℝ) (a b : Nat) (L : ℝ)
    (hq : 0 < P.q) (hL : 0 ≤ L)
    (hY : ∀ i, i < ns → inRange n1 a (offA i) = true → inRange n2 b (offB i) = true →
      0 ≤ Yp (shiftIdx a (offA i)) (shiftIdx b (offB i)) + P.shift)
    (j : Nat) (hj : j < ns) (hja : inRange n1 a (offA j) = true) (hjb : inRange n2 b (offB j) = true)
    (hjL : L ≤ (Yp (shiftIdx a (offA j)) (shiftIdx b (offB j)) + P.shift) ^ P.p) :
    L ^ (1 / P.q) - P.backshift ≤ smaxOf (realFns c) P ns n1 n2 Yp a b := by
  unfold smaxOf
  simp only [realFns]
  have hterm : ∀ i, i < ns →
      0 ≤ (if (inRange n1 a (offA i) && inRange n2 b (offB i)) = true then
        (Yp (shiftIdx a (offA i)) (shiftIdx b (offB i)) + P.shift) ^ P.p else 0) := by
    intro i hi
    by_cases hm : (inRange n1 a (offA i) && inRange n2 b (offB i)) = true
    · rw [if_pos hm]
      simp only [Bool.and_eq_true] at hm
      exact Real.rpow_nonneg (hY i hi hm.1 hm.2) _
    · rw [if_neg hm]
  have hk := le_sumRange ns _ hterm j hj
  rw [if_pos (by simp [hja, hjb])] at hk
  have h1 := Real.rpow_le_rpow hL (le_trans hjL hk) (by positivity : 0 ≤ 1 / P.q)
  linarith

/-- Langelaar's choice of `q` makes the back-shift smaller than the shift:
    `0.95 · ns^(1/q) · shift^(p/q) ≤ shift` whenever `0 < shift ≤ ξ₀ < 1`, `q = p + log ns / log ξ₀ > 0` -/
theorem backshift_le_shift (c : ℝ) (ns : Nat) (hns : 1 ≤ ns) (xi0 p shift : ℝ) (hx0 : 0 < xi0) (hx1 : xi0 < 1)
    (hs0 : 0 < shift) (hs1 : shift ≤ xi0) (hq : 0 < qOf (realFns c) ns xi0 p) :
    backshiftOf (realFns c) ns p (qOf (realFns c) ns xi0 p) shift ≤ shift := by
  set q := qOf (realFns c) ns xi0 p with hqdef
  have hnsR : (1 : ℝ) ≤ (ns : ℝ) := by exact_mod_cast hns
  have hlogns : 0 ≤ Real.log (ns : ℝ) := Real.log_nonneg hnsR
  have hlogxi : Real.log xi0 < 0 := Real.log_neg hx0 hx1
  have hlogs : Real.log shift ≤ Real.log xi0 := Real.log_le_log hs0 hs1
  -- q - p = log ns / log xi0
  have hqp : q = p + Real.log (ns : ℝ) / Real.log xi0 := by
    rw [hqdef]; simp [qOf, realFns]
  -- ns ≤ shift ^ (q - p)
  have h1 : (ns : ℝ) ≤ shift ^ (q - p) := by
    have hexp : q - p = Real.log (ns : ℝ) / Real.log xi0 := by rw [hqp]; ring
    rw [Real.rpow_def_of_pos hs0, hexp]
    have hratio : 1 ≤ Real.log shift / Real.log xi0 := by
      rw [le_div_iff_of_neg hlogxi]; linarith
    have : Real.log (ns : ℝ) ≤ Real.log shift * (Real.log (ns : ℝ) / Real.log xi0) := by
      have : Real.log shift * (Real.log (ns : ℝ) / Real.log xi0)
          = Real.log (ns : ℝ) * (Real.log shift / Real.log xi0) := by ring
      rw [this]
      nlinarith
    calc (ns : ℝ) = Real.exp (Real.log (ns : ℝ)) := (Real.exp_log (by linarith)).symm
      _ ≤ _ := Real.exp_le_exp.mpr this
  -- ns * shift^p ≤ shift^q
  have hsp : 0 < shift ^ p := Real.rpow_pos_of_pos hs0 p
  have h2 : (ns : ℝ) * shift ^ p ≤ shift ^ q := by
    have : shift ^ q = shift ^ (q - p) * shift ^ p := by
      rw [← Real.rpow_add hs0]; congr 1; ring
    rw [this]
    exact mul_le_mul_of_nonneg_right h1 hsp.le
  have h3 := Real.rpow_le_rpow (by positivity) h2 (by positivity : 0 ≤ 1 / q)
  rw [Real.mul_rpow (Nat.cast_nonneg ns) hsp.le, ← Real.rpow_mul hs0.le, ← Real.rpow_mul hs0.le,
    mul_one_div, mul_one_div, div_self hq.ne', Real.rpow_one] at h3
  unfold backshiftOf
  simp only [realFns]
  have h4 : (((95 : Nat) : ℝ) / ((100 : Nat) : ℝ)) ≤ 1 := by norm_num
  have h5 : 0 ≤ (ns : ℝ) ^ (1 / q) * shift ^ (p / q) := by positivity
  nlinarith

theorem offA_one : offA 1 = 0 := by decide
theorem offB_one : offB 1 = 0 := by decide

theorem inRange_zero {n a : Nat} (h : a < n) : inRange n a 0 = true := by
  rw [inRange_iff]; omega

theorem shiftIdx_zero (a : Nat) : shiftIdx a 0 = a := by simp [shiftIdx]

/-- fully supported: all in-domain supports printed `≥ 1` give a smooth maximum `≥ 1` -/
theorem one_le_smaxOf (c : ℝ) (P : Par ℝ) (ns n1 n2 : Nat) (Yp : Nat → Nat → ℝ) (a b : Nat) (xi0 : ℝ)
    (hns : 2 ≤ ns) (ha : a < n1) (hb : b < n2) (hx0 : 0 < xi0) (hx1 : xi0 < 1) (hp : 0 < P.p)
    (hq : P.q = qOf (realFns c) ns xi0 P.p) (hq0 : 0 < P.q) (hs0 : 0 < P.shift) (hs1 : P.shift ≤ xi0)
    (hbs : P.backshift = backshiftOf (realFns c) ns P.p P.q P.shift)
    (hY : ∀ i, i < ns → inRange n1 a (offA i) = true → inRange n2 b (offB i) = true →
      1 ≤ Yp (shiftIdx a (offA i)) (shiftIdx b (offB i))) :
    1 ≤ smaxOf (realFns c) P ns n1 n2 Yp a b := by
  have hc : 1 ≤ Yp a b := by
    have := hY 1 (by omega) (by rw [offA_one]; exact inRange_zero ha) (by rw [offB_one]; exact inRange_zero hb)
    rwa [offA_one, offB_one, shiftIdx_zero, shiftIdx_zero] at this
  have h1s : (1 : ℝ) ≤ 1 + P.shift := by linarith
  have hL : 0 ≤ (1 + P.shift) ^ P.p := Real.rpow_nonneg (by linarith) _
  have hlow := le_smaxOf c P ns n1 n2 Yp a b ((1 + P.shift) ^ P.p) hq0 hL
    (fun i hi h1 h2 => by have := hY i hi h1 h2; linarith) 1 (by omega)
    (by rw [offA_one]; exact inRange_zero ha) (by rw [offB_one]; exact inRange_zero hb)
    (by rw [offA_one, offB_one, shiftIdx_zero, shiftIdx_zero]
        exact Real.rpow_le_rpow (by linarith) (by linarith) hp.le)
  -- ((1+shift)^p)^(1/q) = (1+shift)^(p/q) ≥ 1 + shift
  have hqp : P.q ≤ P.p := by
    rw [hq]; simp only [qOf, realFns]
    have h1 : (1 : ℝ) ≤ 1 * (ns : ℝ) := by
      have : (2 : ℝ) ≤ (ns : ℝ) := by exact_mod_cast hns
      linarith
    have : Real.log (1 * (ns : ℝ)) / Real.log xi0 ≤ 0 :=
      div_nonpos_of_nonneg_of_nonpos (Real.log_nonneg h1) (Real.log_neg hx0 hx1).le
    linarith
  have hexp : 1 ≤ P.p / P.q := by rw [le_div_iff₀ hq0]; linarith
  have h2 : 1 + P.shift ≤ ((1 + P.shift) ^ P.p) ^ (1 / P.q) := by
    rw [← Real.rpow_mul (by linarith), mul_one_div]
    calc 1 + P.shift = (1 + P.shift) ^ (1 : ℝ) := (Real.rpow_one _).symm
      _ ≤ _ := Real.rpow_le_rpow_of_exponent_le h1s hexp
  have h3 : P.backshift ≤ P.shift := by
    rw [hbs, hq]
    exact backshift_le_shift c ns (by omega) xi0 P.p P.shift hx0 hx1 hs0 hs1 (by rw [← hq]; exact hq0)
  linarith

end PymotoVerif.Overhang
