/- C14 / C01: structure of the reverse sweep `_sensitivity`: the `while True … break` loop processes the layers
   `nl-1, …, 1` in reverse print order, each by `sensStep`, then transfers the base layer -/
import PymotoVerif.Lemmas.Overhang

set_option linter.unusedSectionVars false
set_option linter.unnecessarySeqFocus false

namespace PymotoVerif.Overhang
open PymotoVerif

section
variable {α : Type} [Add α] [Sub α] [Mul α] [Div α] [Neg α] [OfNat α 0] [OfNat α 1] [OfNat α 2]

/-- `k` reverse passes for the print-order layers `t, t-1, …, t-k+1`, each with its supports in the layer before -/
def iterBack (F : Fns α) (P : Par α) (g : Geo) (x : Nat → α) (rs : State α) : Nat → Nat → SState α → SState α
  | 0, _, st => st
  | k+1, t, st => iterBack F P g x rs k (t-1) (sensStep F P g x rs st (layerIdx g t) (layerIdx g (t-1)))

theorem sloop_eq_iterBack (F : Fns α) (P : Par α) (g : Geo) (x : Nat → α) (rs : State α)
    (hdx : g.dxLayer = 1 ∨ g.dxLayer = -1) :
    ∀ (k fuel : Nat) (st : SState α), k + 1 < g.nl → k + 1 ≤ fuel →
      sloop F P g x rs fuel (idxZ g (k+1)) st = (iterBack F P g x rs (k+1) (k+1) st, idxZ g 0) := by
  intro k
  induction k with
  | zero =>
    intro fuel st hk hf
    cases fuel with
    | zero => omega
    | succ f =>
      have h2 : (idxZ g (0+1)).toNat = layerIdx g 1 := by
        unfold idxZ layerIdx; rcases hdx with h | h <;> rw [h] <;> simp <;> omega
      have h3 : (idxZ g 0).toNat = layerIdx g 0 := by
        unfold idxZ layerIdx; rcases hdx with h | h <;> rw [h] <;> simp <;> omega
      have h4 : idxZ g (0+1) - g.dxLayer = idxZ g 0 := by
        unfold idxZ; rcases hdx with h | h <;> rw [h] <;> simp <;> omega
      have hstop : ¬ (1 ≤ idxZ g 0 ∧ idxZ g 0 < (g.nl : Int) - 1) := by
        unfold idxZ; rcases hdx with h | h <;> rw [h] <;> simp <;> omega
      simp only [sloop, h2, h3, h4, if_neg hstop, iterBack]
  | succ k ih =>
    intro fuel st hk hf
    cases fuel with
    | zero => omega
    | succ f =>
      have h2 : (idxZ g (k+1+1)).toNat = layerIdx g (k+1+1) := by
        unfold idxZ layerIdx; rcases hdx with h | h <;> rw [h] <;> simp <;> omega
      have h3 : (idxZ g (k+1)).toNat = layerIdx g (k+1) := by
        unfold idxZ layerIdx; rcases hdx with h | h <;> rw [h] <;> simp <;> omega
      have h4 : idxZ g (k+1+1) - g.dxLayer = idxZ g (k+1) := by
        unfold idxZ; rcases hdx with h | h <;> rw [h] <;> simp <;> omega
      have hgo : 1 ≤ idxZ g (k+1) ∧ idxZ g (k+1) < (g.nl : Int) - 1 := by
        unfold idxZ; rcases hdx with h | h <;> rw [h] <;> simp <;> omega
      simp only [sloop, h2, h3, h4, if_pos hgo]
      rw [ih f _ (by omega) (by omega)]
      rfl

/-- `_sensitivity` with at least two layers: reverse passes over the layers `nl-1, …, 1` (print order), then the base
    layer (print-order layer `0`) receives the accumulated `dxprint`, all other elements the assigned `dx` -/
theorem sensitivity_eq_iterBack (F : Fns α) (P : Par α) (g : Geo) (x : Nat → α) (rs : State α) (seed : Nat → α)
    (hdx : g.dxLayer = 1 ∨ g.dxLayer = -1) (hnl : 2 ≤ g.nl) :
    sensitivity F P g x rs seed =
      let st := iterBack F P g x rs (g.nl - 1) (g.nl - 1) ⟨vtab g.dom.nel seed, vtab g.dom.nel (fun _ => 0)⟩
      vtab g.dom.nel (fun e => if g.inLayer (layerIdx g 0) e then vget st.dxprint e else vget st.dx e) := by
  unfold sensitivity
  rw [if_neg (by omega)]
  have h0 : (if 0 ≤ g.dxLayer then (g.nl : Int) - 1 else 0) = idxZ g (g.nl - 2 + 1) := by
    unfold idxZ; rcases hdx with h | h <;> rw [h] <;> simp <;> omega
  have hz : (idxZ g 0).toNat = layerIdx g 0 := by
    unfold idxZ layerIdx; rcases hdx with h | h <;> rw [h] <;> simp <;> omega
  have e1 : g.nl - 2 + 1 = g.nl - 1 := by omega
  simp only [h0]
  rw [sloop_eq_iterBack F P g x rs hdx (g.nl - 2) g.nl _ (by omega) (by omega)]
  simp only [hz, e1]

/-- one layer only: the seed is returned (as a copy) -/
theorem sensitivity_one_layer (F : Fns α) (P : Par α) (g : Geo) (x : Nat → α) (rs : State α) (seed : Nat → α)
    (hnl : g.nl < 2) : sensitivity F P g x rs seed = vtab g.dom.nel seed := by
  unfold sensitivity
  rw [if_pos hnl]

end

theorem foldRange_pointwise {β : Type} (h : Nat → Nat → β → β) (n : Nat) (init : Nat → β) (e : Nat) :
    foldRange n (fun (dxp : Nat → β) i e' => h i e' (dxp e')) init e
      = foldRange n (fun v i => h i e v) (init e) := by
  induction n with
  | zero => rfl
  | succ n ih => simp only [foldRange]; rw [ih]

section
variable {α : Type} [Add α] [Sub α] [Mul α] [Div α] [Neg α] [OfNat α 0] [OfNat α 1] [OfNat α 2]

/-- the coefficient `c` of the code for the element at layer `ind`, position `(a, b)` -/
def cAt (F : Fns α) (P : Par α) (g : Geo) (x : Nat → α) (rs : State α) (st : SState α) (ind a b : Nat) : α :=
  cOf F P (vget rs.smax (g.el ind a b))
    (dsminDs F P.eps (x (g.el ind a b)) (vget rs.smax (g.el ind a b)) (vget st.dxprint (g.el ind a b)))

/-- one reverse pass, support side: the element `(lp, a', b')` receives, offset by offset, the contribution of every
    element `(ind, a' - o_a, b' - o_b)` of the current layer that lies in the layer (i.e. of which it is a support) -/
theorem sensStep_dxprint_el (F : Fns α) (P : Par α) (g : Geo) (x : Nat → α) (rs : State α) (st : SState α)
    (hd : g.dirLayer < 3) {ind lp a' b' : Nat} (hi : ind < g.nl) (hl : lp < g.nl) (ha : a' < g.n1) (hb : b' < g.n2) :
    vget (sensStep F P g x rs st ind lp).dxprint (g.el lp a' b') =
      foldRange g.ns (fun v i =>
        if inRange g.n1 a' (-(offA i)) && inRange g.n2 b' (-(offB i)) then
          v + cAt F P g x rs st ind (shiftIdx a' (-(offA i))) (shiftIdx b' (-(offB i))) *
            F.pow (vget rs.xprint (g.el lp a' b') + P.shift) (P.p - 1)
        else v) (vget st.dxprint (g.el lp a' b')) := by
  have hlt := g.el_lt hd hl ha hb
  simp only [sensStep]
  rw [vget_vtab_lt _ hlt]
  rw [foldRange_pointwise (fun i e v =>
    if g.inLayer lp e = true then
      if (inRange g.n1 (g.coord g.orth1 e) (-(offA i)) && inRange g.n2 (g.coord g.orth2 e) (-(offB i))) = true then
        v + vget (vtab g.dom.nel (fun e =>
            if g.inLayer ind e = true then
              cOf F P (vget rs.smax e) (dsminDs F P.eps (x e) (vget rs.smax e) (vget st.dxprint e))
            else 0))
          (g.el ind (shiftIdx (g.coord g.orth1 e) (-(offA i))) (shiftIdx (g.coord g.orth2 e) (-(offB i)))) *
          F.pow (vget rs.xprint e + P.shift) (P.p - 1)
      else v
    else v)]
  congr 1
  funext v i
  rw [g.inLayer_el hd hl ha hb, g.coord_orth1_el hd hl ha hb, g.coord_orth2_el hd hl ha hb]
  simp only [decide_true, if_true]
  by_cases hm : (inRange g.n1 a' (-(offA i)) && inRange g.n2 b' (-(offB i))) = true
  · rw [if_pos hm, if_pos hm]
    simp only [Bool.and_eq_true] at hm
    have h1 := shiftIdx_lt hm.1
    have h2 := shiftIdx_lt hm.2
    rw [vget_vtab_lt _ (g.el_lt hd hi h1 h2), g.inLayer_el hd hi h1 h2]
    simp only [decide_true, if_true, cAt]
  · rw [if_neg hm, if_neg hm]

/-- one reverse pass, current layer: `dx = seed × ∂smin/∂x` -/
theorem sensStep_dx_el (F : Fns α) (P : Par α) (g : Geo) (x : Nat → α) (rs : State α) (st : SState α)
    (hd : g.dirLayer < 3) {ind lp l a b : Nat} (hl : l < g.nl) (ha : a < g.n1) (hb : b < g.n2) :
    vget (sensStep F P g x rs st ind lp).dx (g.el l a b) =
      if l = ind then dsminDx F P.eps (x (g.el l a b)) (vget rs.smax (g.el l a b)) (vget st.dxprint (g.el l a b))
      else vget st.dx (g.el l a b) := by
  have hlt := g.el_lt hd hl ha hb
  simp only [sensStep]
  rw [vget_vtab_lt _ hlt, g.inLayer_el hd hl ha hb]
  by_cases h : l = ind
  · simp [h]
  · simp [h]

end

theorem foldRange_id {β : Type} (n : Nat) (v : β) : foldRange n (fun v _ => v) v = v := by
  induction n with
  | zero => rfl
  | succ n ih => simp only [foldRange]; exact ih

section
variable {α : Type} [Add α] [Sub α] [Mul α] [Div α] [Neg α] [OfNat α 0] [OfNat α 1] [OfNat α 2]

/-- one reverse pass leaves `dxprint` of every layer but the supporting one untouched -/
theorem sensStep_dxprint_other (F : Fns α) (P : Par α) (g : Geo) (x : Nat → α) (rs : State α) (st : SState α)
    (hd : g.dirLayer < 3) {ind lp l a b : Nat} (hl : l < g.nl) (ha : a < g.n1) (hb : b < g.n2) (hne : l ≠ lp) :
    vget (sensStep F P g x rs st ind lp).dxprint (g.el l a b) = vget st.dxprint (g.el l a b) := by
  have hlt := g.el_lt hd hl ha hb
  simp only [sensStep]
  rw [vget_vtab_lt _ hlt]
  rw [foldRange_pointwise (fun i e v =>
    if g.inLayer lp e = true then
      if (inRange g.n1 (g.coord g.orth1 e) (-(offA i)) && inRange g.n2 (g.coord g.orth2 e) (-(offB i))) = true then
        v + vget (vtab g.dom.nel (fun e =>
            if g.inLayer ind e = true then
              cOf F P (vget rs.smax e) (dsminDs F P.eps (x e) (vget rs.smax e) (vget st.dxprint e))
            else 0))
          (g.el ind (shiftIdx (g.coord g.orth1 e) (-(offA i))) (shiftIdx (g.coord g.orth2 e) (-(offB i)))) *
          F.pow (vget rs.xprint e + P.shift) (P.p - 1)
      else v
    else v)]
  rw [g.inLayer_el hd hl ha hb]
  simp only [hne, decide_false, Bool.false_eq_true, if_false]
  exact foldRange_id _ _

end

end PymotoVerif.Overhang
