/- C14: symmetries of the layer recursion `specY` (reflection of an in-layer axis, exchange of the two in-layer
   axes) by re-indexing the support table, over any commutative ring with the function parameters arbitrary -/
import PymotoVerif.Lemmas.Overhang
import Mathlib.Algebra.Field.Defs
import Mathlib.Tactic.Abel

set_option linter.unusedSectionVars false
set_option linter.unnecessarySeqFocus false

namespace PymotoVerif.Overhang
open PymotoVerif

/-- the support table re-indexed by negating the first offset -/
def sig1 : Nat → Nat
  | 0 => 2 | 2 => 0 | 5 => 7 | 7 => 5 | 6 => 8 | 8 => 6 | i => i
/-- … by negating the second offset -/
def sig2 : Nat → Nat
  | 3 => 4 | 4 => 3 | 5 => 6 | 6 => 5 | 7 => 8 | 8 => 7 | i => i
/-- … by exchanging the two offsets -/
def tau : Nat → Nat
  | 0 => 3 | 3 => 0 | 2 => 4 | 4 => 2 | 6 => 7 | 7 => 6 | i => i

theorem off_sig1 : ∀ i, i < 9 → offA (sig1 i) = -offA i ∧ offB (sig1 i) = offB i := by decide
theorem off_sig2 : ∀ i, i < 9 → offA (sig2 i) = offA i ∧ offB (sig2 i) = -offB i := by decide
theorem off_tau : ∀ i, i < 9 → offA (tau i) = offB i ∧ offB (tau i) = offA i := by decide

/-- the same filter printing in the opposite direction -/
def flipDir (g : Geo) : Geo := ⟨g.dom, g.dirLayer, -g.dxLayer, g.ns⟩

/-- reflected in-layer index -/
def refl (n a : Nat) : Nat := n - 1 - a

theorem refl_lt {n a : Nat} (h : a < n) : refl n a < n := by unfold refl; omega
theorem refl_refl {n a : Nat} (h : a < n) : refl n (refl n a) = a := by unfold refl; omega

theorem inRange_refl {n a : Nat} (h : a < n) (o : Int) : inRange n (refl n a) (-o) = inRange n a o := by
  rw [Bool.eq_iff_iff, inRange_iff, inRange_iff]
  unfold refl; omega

theorem shiftIdx_refl {n a : Nat} (h : a < n) {o : Int} (hr : inRange n a o = true) :
    shiftIdx (refl n a) (-o) = refl n (shiftIdx a o) := by
  rw [inRange_iff] at hr
  unfold shiftIdx refl; omega

theorem inRange_refl' {n a : Nat} (h : a < n) (o : Int) : inRange n a (-o) = inRange n (refl n a) o := by
  rw [Bool.eq_iff_iff, inRange_iff, inRange_iff]
  unfold refl; omega

theorem shiftIdx_refl' {n a : Nat} (h : a < n) {o : Int} (hr : inRange n a (-o) = true) :
    refl n (shiftIdx a (-o)) = shiftIdx (refl n a) o := by
  rw [inRange_iff] at hr
  unfold shiftIdx refl; omega

section
variable {α : Type} [Field α]

theorem sumRange_sig1 (ns : Nat) (hns : ns = 3 ∨ ns = 5 ∨ ns = 9) (T : Nat → α) :
    sumRange ns (fun i => T (sig1 i)) = sumRange ns T := by
  rcases hns with h | h | h <;> subst h <;> simp only [sumRange, sig1] <;> abel

theorem sumRange_sig2 (ns : Nat) (hns : ns = 3 ∨ ns = 5 ∨ ns = 9) (T : Nat → α) :
    sumRange ns (fun i => T (sig2 i)) = sumRange ns T := by
  rcases hns with h | h | h <;> subst h <;> simp only [sumRange, sig2] <;> abel

theorem sumRange_tau (ns : Nat) (hns : ns = 5 ∨ ns = 9) (T : Nat → α) :
    sumRange ns (fun i => T (tau i)) = sumRange ns T := by
  rcases hns with h | h <;> subst h <;> simp only [sumRange, tau] <;> abel

theorem smaxOf_refl1 (F : Fns α) (P : Par α) (ns n1 n2 : Nat) (hns : ns = 3 ∨ ns = 5 ∨ ns = 9)
    (Y : Nat → Nat → α) {a : Nat} (ha : a < n1) (b : Nat) :
    smaxOf F P ns n1 n2 (fun a' b' => Y (refl n1 a') b') a b = smaxOf F P ns n1 n2 Y (refl n1 a) b := by
  unfold smaxOf
  congr 2
  rw [← sumRange_sig1 ns hns]
  apply sumRange_congr
  intro i hi
  have hi9 : i < 9 := by omega
  obtain ⟨hA, hB⟩ := off_sig1 i hi9
  rw [hA, hB, ← inRange_refl' ha]
  by_cases hm : (inRange n1 a (-offA i) && inRange n2 b (offB i)) = true
  · rw [if_pos hm, if_pos hm]
    simp only [Bool.and_eq_true] at hm
    rw [← shiftIdx_refl' ha hm.1]
  · rw [if_neg hm, if_neg hm]

theorem smaxOf_refl2 (F : Fns α) (P : Par α) (ns n1 n2 : Nat) (hns : ns = 3 ∨ ns = 5 ∨ ns = 9)
    (Y : Nat → Nat → α) (a : Nat) {b : Nat} (hb : b < n2) :
    smaxOf F P ns n1 n2 (fun a' b' => Y a' (refl n2 b')) a b = smaxOf F P ns n1 n2 Y a (refl n2 b) := by
  unfold smaxOf
  congr 2
  rw [← sumRange_sig2 ns hns]
  apply sumRange_congr
  intro i hi
  have hi9 : i < 9 := by omega
  obtain ⟨hA, hB⟩ := off_sig2 i hi9
  rw [hA, hB, ← inRange_refl' hb]
  by_cases hm : (inRange n1 a (offA i) && inRange n2 b (-offB i)) = true
  · rw [if_pos hm, if_pos hm]
    simp only [Bool.and_eq_true] at hm
    rw [← shiftIdx_refl' hb hm.2]
  · rw [if_neg hm, if_neg hm]

theorem smaxOf_swap (F : Fns α) (P : Par α) (ns n1 n2 : Nat) (hns : ns = 5 ∨ ns = 9)
    (Y : Nat → Nat → α) (a b : Nat) :
    smaxOf F P ns n2 n1 (fun a' b' => Y b' a') a b = smaxOf F P ns n1 n2 Y b a := by
  unfold smaxOf
  congr 2
  rw [← sumRange_tau ns hns]
  apply sumRange_congr
  intro i hi
  have hi9 : i < 9 := by omega
  obtain ⟨hA, hB⟩ := off_tau i hi9
  rw [hA, hB, Bool.and_comm]

/-- reflecting the first in-layer axis of the input reflects the result -/
theorem specY_refl1 (F : Fns α) (P : Par α) (ns n1 n2 : Nat) (hns : ns = 3 ∨ ns = 5 ∨ ns = 9)
    (X X' : Nat → Nat → Nat → α) (T : Nat)
    (hX : ∀ t a b, t < T → a < n1 → b < n2 → X' t a b = X t (refl n1 a) b) :
    ∀ t, t < T → ∀ a b, a < n1 → b < n2 →
      specY F P ns n1 n2 X' t a b = specY F P ns n1 n2 X t (refl n1 a) b := by
  intro t
  induction t with
  | zero => intro ht a b ha hb; exact hX 0 a b ht ha hb
  | succ t ih =>
    intro ht a b ha hb
    simp only [specY]
    rw [hX (t+1) a b ht ha hb,
      smaxOf_congr F P ns n1 n2 _ (fun a' b' => specY F P ns n1 n2 X t (refl n1 a') b') a b (ih (by omega)),
      smaxOf_refl1 F P ns n1 n2 hns _ ha]

/-- reflecting the second in-layer axis of the input reflects the result -/
theorem specY_refl2 (F : Fns α) (P : Par α) (ns n1 n2 : Nat) (hns : ns = 3 ∨ ns = 5 ∨ ns = 9)
    (X X' : Nat → Nat → Nat → α) (T : Nat)
    (hX : ∀ t a b, t < T → a < n1 → b < n2 → X' t a b = X t a (refl n2 b)) :
    ∀ t, t < T → ∀ a b, a < n1 → b < n2 →
      specY F P ns n1 n2 X' t a b = specY F P ns n1 n2 X t a (refl n2 b) := by
  intro t
  induction t with
  | zero => intro ht a b ha hb; exact hX 0 a b ht ha hb
  | succ t ih =>
    intro ht a b ha hb
    simp only [specY]
    rw [hX (t+1) a b ht ha hb,
      smaxOf_congr F P ns n1 n2 _ (fun a' b' => specY F P ns n1 n2 X t a' (refl n2 b')) a b (ih (by omega)),
      smaxOf_refl2 F P ns n1 n2 hns _ a hb]

/-- exchanging the two in-layer axes of the input exchanges them in the result (5 or 9 supports) -/
theorem specY_swap (F : Fns α) (P : Par α) (ns n1 n2 : Nat) (hns : ns = 5 ∨ ns = 9)
    (X X' : Nat → Nat → Nat → α) (T : Nat) (hX : ∀ t a b, t < T → a < n2 → b < n1 → X' t a b = X t b a) :
    ∀ t, t < T → ∀ a b, a < n2 → b < n1 → specY F P ns n2 n1 X' t a b = specY F P ns n1 n2 X t b a := by
  intro t
  induction t with
  | zero => intro ht a b ha hb; exact hX 0 a b ht ha hb
  | succ t ih =>
    intro ht a b ha hb
    simp only [specY]
    rw [hX (t+1) a b ht ha hb,
      smaxOf_congr F P ns n2 n1 _ (fun a' b' => specY F P ns n1 n2 X t b' a') a b (ih (by omega)),
      smaxOf_swap F P ns n1 n2 hns]

end

end PymotoVerif.Overhang
