/- C14 / C01 over `ℝ`: the directional derivative of the layer recursion `specY` along `X + τ V` is the linearised
   recursion `tanY` with the coefficient fields given by the three scalar atoms -/
import PymotoVerif.Lemmas.OverhangAdjoint
import PymotoVerif.Lemmas.OverhangDeriv

set_option linter.unusedSectionVars false
set_option linter.unnecessarySeqFocus false

namespace PymotoVerif.Overhang
open PymotoVerif Finset

/-- the coefficient fields of the code's reverse sweep from the layered input `Xl`, the printed densities `Yl` and
    the stored smooth maxima `Sl t = smax of layer t+1` -/
noncomputable def coefOf (c : ℝ) (P : Par ℝ) (Xl Yl Sl : Nat → Nat → Nat → ℝ) : Coef ℝ where
  α := fun t a b => dsminDx (realFns c) P.eps (Xl (t+1) a b) (Sl t a b) 1
  β := fun t a b => cOf (realFns c) P (Sl t a b) (dsminDs (realFns c) P.eps (Xl (t+1) a b) (Sl t a b) 1)
  γ := fun t a b => (Yl t a b + P.shift) ^ (P.p - 1)

theorem hasDerivAt_sumRange (n : Nat) (f : Nat → ℝ → ℝ) (f' : Nat → ℝ) (x : ℝ)
    (h : ∀ i, i < n → HasDerivAt (f i) (f' i) x) :
    HasDerivAt (fun τ => sumRange n (fun i => f i τ)) (sumRange n f') x := by
  induction n with
  | zero => simpa [sumRange] using hasDerivAt_const x (0 : ℝ)
  | succ n ih =>
    simp only [sumRange]
    exact (ih (fun i hi => h i (Nat.lt_succ_of_lt hi))).add (h n (Nat.lt_succ_self n))

/-- smooth minimum of two differentiable functions -/
theorem hasDerivAt_smin_comp (c ε : ℝ) (f g : ℝ → ℝ) (f' g' τ : ℝ) (hf : HasDerivAt f f' τ)
    (hg : HasDerivAt g g' τ) (h : (f τ - g τ) * (f τ - g τ) + ε ≠ 0) :
    HasDerivAt (fun τ => smin (realFns c) ε (f τ) (g τ))
      (f' * (1 / 2 - (f τ - g τ) / (2 * Real.sqrt ((f τ - g τ) * (f τ - g τ) + ε))) +
       g' * (1 / 2 + (f τ - g τ) / (2 * Real.sqrt ((f τ - g τ) * (f τ - g τ) + ε)))) τ := by
  have hd : HasDerivAt (fun τ => f τ - g τ) (f' - g') τ := hf.sub hg
  have hr : HasDerivAt (fun τ => (f τ - g τ) * (f τ - g τ) + ε)
      ((f' - g') * (f τ - g τ) + (f τ - g τ) * (f' - g')) τ := (hd.mul hd).add_const ε
  have hs := hr.sqrt h
  have h2 := ((((hf.add hg).sub hs).add_const (Real.sqrt ε)).div_const 2)
  refine h2.congr_deriv ?_
  ring

/-- the inner sum of the smooth maximum -/
noncomputable def keepOf (P : Par ℝ) (ns n1 n2 : Nat) (Yp : Nat → Nat → ℝ) (a b : Nat) : ℝ :=
  sumRange ns (fun i =>
    if inRange n1 a (offA i) && inRange n2 b (offB i) then
      (Yp (shiftIdx a (offA i)) (shiftIdx b (offB i)) + P.shift) ^ P.p
    else 0)

theorem smaxOf_eq_keepOf (c : ℝ) (P : Par ℝ) (ns n1 n2 : Nat) (Yp : Nat → Nat → ℝ) (a b : Nat) :
    smaxOf (realFns c) P ns n1 n2 Yp a b = keepOf P ns n1 n2 Yp a b ^ (1 / P.q) - P.backshift := rfl

theorem keepOf_pos (P : Par ℝ) (ns n1 n2 : Nat) (Yp : Nat → Nat → ℝ) {a b : Nat} (hns : 2 ≤ ns) (ha : a < n1)
    (hb : b < n2) (hY : ∀ a' b', a' < n1 → b' < n2 → 0 < Yp a' b' + P.shift) :
    0 < keepOf P ns n1 n2 Yp a b := by
  unfold keepOf
  have hterm : ∀ i, i < ns → 0 ≤ (if (inRange n1 a (offA i) && inRange n2 b (offB i)) = true then
      (Yp (shiftIdx a (offA i)) (shiftIdx b (offB i)) + P.shift) ^ P.p else 0) := by
    intro i _
    by_cases hm : (inRange n1 a (offA i) && inRange n2 b (offB i)) = true
    · rw [if_pos hm]
      simp only [Bool.and_eq_true] at hm
      exact (Real.rpow_pos_of_pos (hY _ _ (shiftIdx_lt hm.1) (shiftIdx_lt hm.2)) _).le
    · rw [if_neg hm]
  have hk := le_sumRange ns _ hterm 1 (by omega)
  rw [if_pos (by rw [offA_one, offB_one]; simp [inRange_zero ha, inRange_zero hb])] at hk
  rw [offA_one, offB_one, shiftIdx_zero, shiftIdx_zero] at hk
  have := Real.rpow_pos_of_pos (hY a b ha hb) P.p
  linarith

/-- derivative of the smooth maximum of a layer that moves with `τ` -/
theorem smaxOf_hasDerivAt (c : ℝ) (P : Par ℝ) (ns n1 n2 : Nat) (Yf : ℝ → Nat → Nat → ℝ) (Y0 dY : Nat → Nat → ℝ)
    (a b : Nat)
    (hY0 : ∀ a' b', a' < n1 → b' < n2 → Yf 0 a' b' = Y0 a' b')
    (hd : ∀ a' b', a' < n1 → b' < n2 → HasDerivAt (fun τ => Yf τ a' b') (dY a' b') 0)
    (hpos : ∀ a' b', a' < n1 → b' < n2 → 0 < Y0 a' b' + P.shift)
    (hk : 0 < keepOf P ns n1 n2 Y0 a b) :
    HasDerivAt (fun τ => smaxOf (realFns c) P ns n1 n2 (Yf τ) a b)
      (sumRange ns (fun i =>
          if inRange n1 a (offA i) && inRange n2 b (offB i) then
            dY (shiftIdx a (offA i)) (shiftIdx b (offB i)) * P.p *
              (Y0 (shiftIdx a (offA i)) (shiftIdx b (offB i)) + P.shift) ^ (P.p - 1)
          else 0) * (1 / P.q) * keepOf P ns n1 n2 Y0 a b ^ (1 / P.q - 1)) 0 := by
  have hk0 : keepOf P ns n1 n2 (Yf 0) a b = keepOf P ns n1 n2 Y0 a b := by
    unfold keepOf
    apply sumRange_congr
    intro i _
    by_cases hm : (inRange n1 a (offA i) && inRange n2 b (offB i)) = true
    · rw [if_pos hm, if_pos hm]
      simp only [Bool.and_eq_true] at hm
      rw [hY0 _ _ (shiftIdx_lt hm.1) (shiftIdx_lt hm.2)]
    · rw [if_neg hm, if_neg hm]
  have hsum : HasDerivAt (fun τ => keepOf P ns n1 n2 (Yf τ) a b)
      (sumRange ns (fun i =>
          if inRange n1 a (offA i) && inRange n2 b (offB i) then
            dY (shiftIdx a (offA i)) (shiftIdx b (offB i)) * P.p *
              (Y0 (shiftIdx a (offA i)) (shiftIdx b (offB i)) + P.shift) ^ (P.p - 1)
          else 0)) 0 := by
    unfold keepOf
    apply hasDerivAt_sumRange ns
      (fun i τ => if inRange n1 a (offA i) && inRange n2 b (offB i) then
        (Yf τ (shiftIdx a (offA i)) (shiftIdx b (offB i)) + P.shift) ^ P.p else 0)
    intro i _
    by_cases hm : (inRange n1 a (offA i) && inRange n2 b (offB i)) = true
    · simp only [if_pos hm]
      simp only [Bool.and_eq_true] at hm
      have h1 := shiftIdx_lt hm.1
      have h2 := shiftIdx_lt hm.2
      have hne : Yf 0 (shiftIdx a (offA i)) (shiftIdx b (offB i)) + P.shift ≠ 0 := by
        rw [hY0 _ _ h1 h2]; exact (hpos _ _ h1 h2).ne'
      have := ((hd _ _ h1 h2).add_const P.shift).rpow_const (p := P.p) (Or.inl hne)
      rw [hY0 _ _ h1 h2] at this
      exact this
    · simp only [if_neg hm]
      exact hasDerivAt_const _ _
  have hr := hsum.rpow_const (p := 1 / P.q) (Or.inl (by rw [hk0]; exact hk.ne'))
  rw [hk0] at hr
  exact hr.sub_const P.backshift

/-- the coefficient fields at the printed state `specY X` -/
noncomputable def coefSpec (c : ℝ) (P : Par ℝ) (ns n1 n2 : Nat) (X : Nat → Nat → Nat → ℝ) : Coef ℝ :=
  coefOf c P X (specY (realFns c) P ns n1 n2 X)
    (fun t => smaxOf (realFns c) P ns n1 n2 (specY (realFns c) P ns n1 n2 X t))

theorem specY_zero_path (c : ℝ) (P : Par ℝ) (ns n1 n2 : Nat) (X V : Nat → Nat → Nat → ℝ) (t a b : Nat)
    (ha : a < n1) (hb : b < n2) :
    specY (realFns c) P ns n1 n2 (fun t a b => X t a b + 0 * V t a b) t a b = specY (realFns c) P ns n1 n2 X t a b := by
  apply specY_congr (realFns c) P ns n1 n2 _ _ (t+1) _ t (Nat.lt_succ_self t) a b ha hb
  intro t' a' b' _ _ _
  simp

/-- the directional derivative of the layer recursion is the linearised recursion -/
theorem specY_hasDerivAt (c : ℝ) (P : Par ℝ) (ns n1 n2 : Nat) (X V : Nat → Nat → Nat → ℝ) (T : Nat)
    (hns : 2 ≤ ns) (hq : P.q ≠ 0)
    (hpos : ∀ t a b, t < T → a < n1 → b < n2 → 0 < specY (realFns c) P ns n1 n2 X t a b + P.shift)
    (hrad : ∀ t a b, t < T → a < n1 → b < n2 →
      (X (t+1) a b - smaxOf (realFns c) P ns n1 n2 (specY (realFns c) P ns n1 n2 X t) a b) *
      (X (t+1) a b - smaxOf (realFns c) P ns n1 n2 (specY (realFns c) P ns n1 n2 X t) a b) + P.eps ≠ 0) :
    ∀ t, t ≤ T → ∀ a b, a < n1 → b < n2 →
      HasDerivAt (fun τ : ℝ => specY (realFns c) P ns n1 n2 (fun t a b => X t a b + τ * V t a b) t a b)
        (tanY ns n1 n2 (coefSpec c P ns n1 n2 X) V t a b) 0 := by
  intro t
  induction t with
  | zero =>
    intro _ a b _ _
    simp only [specY, tanY]
    have h := ((hasDerivAt_id (0 : ℝ)).mul_const (V 0 a b)).const_add (X 0 a b)
    simpa using h
  | succ t ih =>
    intro ht a b ha hb
    have hf : HasDerivAt (fun τ : ℝ => X (t+1) a b + τ * V (t+1) a b) (V (t+1) a b) 0 := by
      have h := ((hasDerivAt_id (0 : ℝ)).mul_const (V (t+1) a b)).const_add (X (t+1) a b)
      simpa using h
    have hk := keepOf_pos P ns n1 n2 (specY (realFns c) P ns n1 n2 X t) hns ha hb
      (fun a' b' ha' hb' => hpos t a' b' (by omega) ha' hb')
    have hg := smaxOf_hasDerivAt c P ns n1 n2
      (fun τ => specY (realFns c) P ns n1 n2 (fun t a b => X t a b + τ * V t a b) t)
      (specY (realFns c) P ns n1 n2 X t) (tanY ns n1 n2 (coefSpec c P ns n1 n2 X) V t) a b
      (fun a' b' ha' hb' => specY_zero_path c P ns n1 n2 X V t a' b' ha' hb')
      (fun a' b' ha' hb' => ih (by omega) a' b' ha' hb')
      (fun a' b' ha' hb' => hpos t a' b' (by omega) ha' hb') hk
    have hS0 : smaxOf (realFns c) P ns n1 n2
        (specY (realFns c) P ns n1 n2 (fun t a b => X t a b + 0 * V t a b) t) a b =
        smaxOf (realFns c) P ns n1 n2 (specY (realFns c) P ns n1 n2 X t) a b :=
      smaxOf_congr (realFns c) P ns n1 n2 _ _ a b
        (fun a' b' ha' hb' => specY_zero_path c P ns n1 n2 X V t a' b' ha' hb')
    have hne := hrad t a b (by omega) ha hb
    have hsm := hasDerivAt_smin_comp c P.eps (fun τ : ℝ => X (t+1) a b + τ * V (t+1) a b)
      (fun τ => smaxOf (realFns c) P ns n1 n2
        (specY (realFns c) P ns n1 n2 (fun t a b => X t a b + τ * V t a b) t) a b) _ _ 0 hf hg
      (by simp only [zero_mul, add_zero]; exact hne)
    simp only [specY]
    refine hsm.congr_deriv ?_
    simp only [zero_mul, add_zero]
    rw [show (fun t a b => X t a b) = X from rfl]
    -- the inner sum of the tangent is `p` times the gather of `γ · tanY`
    have hK : sumRange ns (fun i =>
          if inRange n1 a (offA i) && inRange n2 b (offB i) then
            tanY ns n1 n2 (coefSpec c P ns n1 n2 X) V t (shiftIdx a (offA i)) (shiftIdx b (offB i)) * P.p *
              (specY (realFns c) P ns n1 n2 X t (shiftIdx a (offA i)) (shiftIdx b (offB i)) + P.shift) ^ (P.p - 1)
          else 0) =
        P.p * gatherS ns n1 n2 (fun a' b' => (coefSpec c P ns n1 n2 X).γ t a' b' *
          tanY ns n1 n2 (coefSpec c P ns n1 n2 X) V t a' b') a b := by
      rw [sumRange_eq]
      unfold gatherS
      rw [Finset.mul_sum]
      apply Finset.sum_congr rfl
      intro i _
      by_cases hm : (inRange n1 a (offA i) && inRange n2 b (offB i)) = true
      · rw [if_pos hm, if_pos hm]
        simp only [coefSpec, coefOf]
        ring
      · rw [if_neg hm, if_neg hm, mul_zero]
    rw [hK]
    simp only [tanY]
    have hkeep : (smaxOf (realFns c) P ns n1 n2 (specY (realFns c) P ns n1 n2 X t) a b + P.backshift) ^ P.q
        = keepOf P ns n1 n2 (specY (realFns c) P ns n1 n2 X t) a b := by
      rw [smaxOf_eq_keepOf]
      exact keep_recomputed _ P.q P.backshift hk.le hq
    have hα : (coefSpec c P ns n1 n2 X).α t a b =
        1 / 2 - (X (t+1) a b - smaxOf (realFns c) P ns n1 n2 (specY (realFns c) P ns n1 n2 X t) a b) /
          (2 * Real.sqrt ((X (t+1) a b - smaxOf (realFns c) P ns n1 n2 (specY (realFns c) P ns n1 n2 X t) a b) *
            (X (t+1) a b - smaxOf (realFns c) P ns n1 n2 (specY (realFns c) P ns n1 n2 X t) a b) + P.eps)) := by
      simp only [coefSpec, coefOf]
      rw [dsminDx_eq]; ring
    have hβ : (coefSpec c P ns n1 n2 X).β t a b =
        P.p * ((1 / 2 + (X (t+1) a b - smaxOf (realFns c) P ns n1 n2 (specY (realFns c) P ns n1 n2 X t) a b) /
          (2 * Real.sqrt ((X (t+1) a b - smaxOf (realFns c) P ns n1 n2 (specY (realFns c) P ns n1 n2 X t) a b) *
            (X (t+1) a b - smaxOf (realFns c) P ns n1 n2 (specY (realFns c) P ns n1 n2 X t) a b) + P.eps))) *
          keepOf P ns n1 n2 (specY (realFns c) P ns n1 n2 X t) a b ^ (1 / P.q - 1) / P.q) := by
      simp only [coefSpec, coefOf]
      rw [dsminDs_eq]
      simp only [cOf, realFns]
      have := hkeep
      simp only [realFns] at this
      rw [this]
      ring
    rw [hα, hβ]
    ring

end PymotoVerif.Overhang
