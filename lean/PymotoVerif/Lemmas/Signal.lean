/- helper lemmas for the C18 model (`Core/Signal.lean`): buffer writes, heap updates -/
import PymotoVerif.Core.Signal
namespace PymotoVerif.Signal

/-! ## `writeList` -/

@[simp] theorem writeList_nil_idx (d : List GI) (vals : List GI) : writeList d [] vals = d := by
  cases vals <;> rfl

@[simp] theorem writeList_nil_vals (d : List GI) (idx : List Nat) : writeList d idx [] = d := by
  cases idx <;> rfl

@[simp] theorem writeList_cons (d : List GI) (i : Nat) (is : List Nat) (v : GI) (vs : List GI) :
    writeList d (i :: is) (v :: vs) = writeList (d.set i v) is vs := rfl

@[simp] theorem writeList_length (d : List GI) (idx : List Nat) (vals : List GI) :
    (writeList d idx vals).length = d.length := by
  induction idx generalizing d vals with
  | nil => simp
  | cons i is ih =>
    cases vals with
    | nil => simp
    | cons v vs => simp [ih]

theorem getD_set_ne (d : List GI) (i j : Nat) (v : GI) (h : j ≠ i) : (d.set i v).getD j 0 = d.getD j 0 := by
  simp [List.getD_eq_getElem?_getD, List.getElem?_set_ne (Ne.symm h)]

theorem getD_set_self (d : List GI) (i : Nat) (v : GI) (h : i < d.length) : (d.set i v).getD i 0 = v := by
  simp [List.getD_eq_getElem?_getD, h]

/-- entries that are not written keep their value -/
theorem writeList_getD_of_not_mem (d : List GI) (idx : List Nat) (vals : List GI) (j : Nat) (h : j ∉ idx) :
    (writeList d idx vals).getD j 0 = d.getD j 0 := by
  induction idx generalizing d vals with
  | nil => simp
  | cons i is ih =>
    cases vals with
    | nil => simp
    | cons v vs =>
      have hji : j ≠ i := fun e => h (by simp [e])
      have hjis : j ∉ is := fun e => h (by simp [e])
      rw [writeList_cons, ih _ _ hjis, getD_set_ne _ _ _ _ hji]

/-- the `k`-th written position receives the `k`-th value (positions without repeats, in bounds) -/
theorem writeList_getD_of_nodup (d : List GI) (idx : List Nat) (vals : List GI) (hn : idx.Nodup) (k : Nat)
    (hk : k < idx.length) (hkv : k < vals.length) (hb : idx.getD k 0 < d.length) :
    (writeList d idx vals).getD (idx.getD k 0) 0 = vals.getD k 0 := by
  induction idx generalizing d vals k with
  | nil => simp at hk
  | cons i is ih =>
    cases vals with
    | nil => simp at hkv
    | cons v vs =>
      rw [List.nodup_cons] at hn
      cases k with
      | zero =>
        simp only [List.getD_cons_zero] at hb ⊢
        rw [writeList_cons, writeList_getD_of_not_mem _ _ _ _ hn.1, getD_set_self _ _ _ hb]
      | succ k =>
        simp only [List.getD_cons_succ] at hb ⊢
        rw [writeList_cons]
        exact ih (d.set i v) vs hn.2 k (by simpa using hk) (by simpa using hkv) (by simpa using hb)

theorem getD_range (n p : Nat) (h : p < n) : (List.range n).getD p 0 = p := by
  simp [List.getD_eq_getElem?_getD, h]

theorem map_getD_range (n : Nat) (pos : List Nat) (h : ∀ p ∈ pos, p < n) :
    pos.map (fun p => (List.range n).getD p 0) = pos := by
  induction pos with
  | nil => rfl
  | cons a as ih =>
    simp only [List.map_cons]
    rw [getD_range n a (h a (by simp)), ih (fun p hp => h p (by simp [hp]))]

/-! ## heap updates -/

@[simp] theorem write_objs_ne (h : Heap) (r r' : Nat) (idx : List Nat) (vals : List GI) (hne : r' ≠ r) :
    (h.write r idx vals).objs r' = h.objs r' := by
  simp [Heap.write, hne]

@[simp] theorem write_objs_self (h : Heap) (r : Nat) (idx : List Nat) (vals : List GI) :
    (h.write r idx vals).objs r = { h.objs r with data := writeList (h.objs r).data idx vals } := by
  simp [Heap.write]

@[simp] theorem write_next (h : Heap) (r : Nat) (idx : List Nat) (vals : List GI) :
    (h.write r idx vals).next = h.next := rfl

@[simp] theorem alloc_next (h : Heap) (o : Obj) : (h.alloc o).1.next = h.next + 1 := rfl
@[simp] theorem alloc_ref (h : Heap) (o : Obj) : (h.alloc o).2 = h.next := rfl
@[simp] theorem alloc_objs_new (h : Heap) (o : Obj) : (h.alloc o).1.objs h.next = o := by simp [Heap.alloc]
@[simp] theorem alloc_objs_old (h : Heap) (o : Obj) (r : Nat) (hr : r ≠ h.next) : (h.alloc o).1.objs r = h.objs r := by
  simp [Heap.alloc, hr]

/-- in-place write: entries outside the written positions are unchanged -/
theorem write_getD_of_not_mem (h : Heap) (r : Nat) (idx : List Nat) (vals : List GI) (j : Nat) (hj : j ∉ idx) :
    ((h.write r idx vals).objs r).data.getD j 0 = (h.objs r).data.getD j 0 := by
  rw [write_objs_self]
  exact writeList_getD_of_not_mem _ _ _ _ hj

theorem map_getD_range_self (d : List GI) : (List.range d.length).map (fun p => d.getD p 0) = d := by
  apply List.ext_getElem
  · simp
  · intro i h _
    simp [List.getD_eq_getElem?_getD, ‹i < d.length›]

/-! ## frames: what an operation may change in the heap

`Frame N r T h h'`: going from `h` to `h'` only allocates new objects, and among the objects below the reference
point `N` changes at most the entries `T` of the buffer of `r` (identity, dtype, shape and length of `r` are kept). -/

def Frame (N r : Nat) (T : List Nat) (h h' : Heap) : Prop :=
  h.next ≤ h'.next ∧ (∀ r', r' < N → r' ≠ r → h'.objs r' = h.objs r') ∧
  (∀ j, j ∉ T → (h'.objs r).data.getD j 0 = (h.objs r).data.getD j 0) ∧
  (h'.objs r).data.length = (h.objs r).data.length ∧ (h'.objs r).shape = (h.objs r).shape ∧
  (h'.objs r).cplx = (h.objs r).cplx

theorem Frame.refl (N r : Nat) (T : List Nat) (h : Heap) : Frame N r T h h :=
  ⟨Nat.le_refl _, fun _ _ _ => rfl, fun _ _ => rfl, rfl, rfl, rfl⟩

theorem Frame.trans {N r : Nat} {T : List Nat} {h1 h2 h3 : Heap} (a : Frame N r T h1 h2) (b : Frame N r T h2 h3) :
    Frame N r T h1 h3 := by
  obtain ⟨a1, a2, a3, a4, a5, a6⟩ := a
  obtain ⟨b1, b2, b3, b4, b5, b6⟩ := b
  refine ⟨Nat.le_trans a1 b1, ?_, ?_, by rw [b4, a4], by rw [b5, a5], by rw [b6, a6]⟩
  · intro r' h1' hne
    rw [b2 r' h1' hne, a2 r' h1' hne]
  · intro j hj
    rw [b3 j hj, a3 j hj]

/-- writing into `r` at positions inside `T` -/
theorem Frame.write (N r : Nat) (T idx : List Nat) (vals : List GI) (h : Heap) (hsub : ∀ p ∈ idx, p ∈ T) :
    Frame N r T h (h.write r idx vals) := by
  refine ⟨Nat.le_refl _, fun r' _ hne => by simp [hne], ?_, by simp, by simp, by simp⟩
  intro j hj
  exact write_getD_of_not_mem h r idx vals j (fun hm => hj (hsub j hm))

/-- writing into an object created after the reference point -/
theorem Frame.write_fresh (N r c : Nat) (T idx : List Nat) (vals : List GI) (h : Heap) (hr : r < N) (hc : N ≤ c) :
    Frame N r T h (h.write c idx vals) := by
  have hne : r ≠ c := by omega
  refine ⟨Nat.le_refl _, fun r' h' _ => ?_, fun j _ => ?_, ?_, ?_, ?_⟩ <;>
    first | (have : r' ≠ c := by omega) | skip
  all_goals simp [*]

theorem Frame.alloc (N r : Nat) (T : List Nat) (h : Heap) (o : Obj) (hr : r < N) (hN : N ≤ h.next) :
    Frame N r T h (h.alloc o).1 := by
  have hne : r ≠ h.next := by omega
  refine ⟨by simp, ?_, ?_, by simp [hne], by simp [hne], by simp [hne]⟩
  · intro r' h' _
    have : r' ≠ h.next := by omega
    simp [this]
  · intro j _
    simp [hne]

/-- well-formed world: everything reachable lives below the allocation pointer -/
def World.WF (w : World) : Prop :=
  (∀ j f b, ((w.sigs j).get f).buf = some b → b < w.heap.next) ∧ (∀ e, e ∈ w.exts → e < w.heap.next)

/-! ## building blocks -/

theorem getItem_ok {h h' : Heap} {v v' : PVal} {sp : SliceSpec} {r : Nat} {idx shp : List Nat}
    (hv : v.asView h = some (r, idx, shp)) (hg : getItem h v sp = .ok (h', v')) :
    ∃ pos shp', selIdx shp sp = .ok (pos, shp') ∧
      ((shp' = [] ∧ h' = h) ∨
       (shp' ≠ [] ∧ sp.isView = true ∧ h' = h ∧ v' = .view r (pos.map fun p => idx.getD p 0) shp') ∨
       (shp' ≠ [] ∧ sp.isView = false ∧
        h' = (h.alloc ⟨(h.objs r).cplx, shp', h.read r (pos.map fun p => idx.getD p 0)⟩).1 ∧ v' = .arr h.next)) := by
  unfold getItem at hg
  rw [hv] at hg
  simp only at hg
  split at hg
  · cases hg
  · rename_i pos shp' hsel
    refine ⟨pos, shp', hsel, ?_⟩
    by_cases hz : shp' = []
    · simp only [hz, if_true] at hg
      injection hg with hg
      injection hg with h1 h2
      exact Or.inl ⟨hz, h1.symm⟩
    · simp only [hz, if_false] at hg
      by_cases hview : sp.isView = true
      · simp only [hview, if_true] at hg
        injection hg with hg
        injection hg with h1 h2
        exact Or.inr (Or.inl ⟨hz, hview, h1.symm, h2.symm⟩)
      · simp only [hview] at hg
        injection hg with hg
        injection hg with h1 h2
        exact Or.inr (Or.inr ⟨hz, by simpa using hview, h1.symm, h2.symm⟩)

theorem prepSet_pos {h : Heap} {tc : Bool} {shp : List Nat} {sp : SliceSpec} {v : PVal} {pos pos' shp' : List Nat}
    {vals : List GI} (hsel : selIdx shp sp = .ok (pos, shp')) (hp : prepSet h tc shp sp v = .ok (pos', vals)) :
    pos' = pos := by
  unfold prepSet at hp
  split at hp
  · cases hp
  · split at hp
    · simp only [hsel] at hp
      cases hp
    · cases hp
    · simp only [hsel] at hp
      cases hp
      rfl
  · simp only [hsel] at hp
    split at hp <;> cases hp <;> rfl

theorem setItem_ok {h h' : Heap} {t v : PVal} {sp : SliceSpec} {r : Nat} {idx shp pos shp' : List Nat}
    (ht : t.asView h = some (r, idx, shp)) (hsel : selIdx shp sp = .ok (pos, shp'))
    (hs : setItem h t sp v = .ok h') : ∃ vals, h' = h.write r (pos.map fun p => idx.getD p 0) vals := by
  unfold setItem at hs
  rw [ht] at hs
  simp only at hs
  split at hs
  · cases hs
  · rename_i pos' vals hp
    have := prepSet_pos hsel hp
    subst this
    injection hs with hs
    exact ⟨vals, hs.symm⟩

theorem iadd_view_ok {h h' : Heap} {t ds : PVal} {res : IaddRes} {r : Nat} {idx shp : List Nat}
    (ht : t.asView h = some (r, idx, shp)) (hi : iadd h t ds = .ok (h', res)) :
    res = .same ∧ ∃ vals, h' = h.write r idx vals := by
  unfold iadd at hi
  split at hi
  · cases hi
  · rename_i d hd
    cases t with
    | none => simp [PVal.asView] at ht
    | sc c x => simp [PVal.asView] at ht
    | npsc c x => simp [PVal.asView] at ht
    | arr r0 =>
      simp only [ht] at hi
      cases d <;> simp only at hi <;> repeat' split at hi
      all_goals cases hi <;> exact ⟨rfl, _, rfl⟩
    | view r0 i0 s0 =>
      simp only [ht] at hi
      cases d <;> simp only at hi <;> repeat' split at hi
      all_goals cases hi <;> exact ⟨rfl, _, rfl⟩

/-! ## slices taken directly of a base signal that holds a whole array -/

/-- what a slice operation may do to the world: holdings untouched, heap changed only inside `Frame` -/
def Step (N r : Nat) (T : List Nat) (w w' : World) : Prop :=
  w'.sigs = w.sigs ∧ w'.exts = w.exts ∧ w'.nsig = w.nsig ∧ Frame N r T w.heap w'.heap

theorem Step.refl (N r : Nat) (T : List Nat) (w : World) : Step N r T w w := ⟨rfl, rfl, rfl, Frame.refl _ _ _ _⟩

theorem Step.trans {N r : Nat} {T : List Nat} {w1 w2 w3 : World} (a : Step N r T w1 w2) (b : Step N r T w2 w3) :
    Step N r T w1 w3 :=
  ⟨b.1.trans a.1, b.2.1.trans a.2.1, b.2.2.1.trans a.2.2.1, a.2.2.2.trans b.2.2.2⟩

/-- the slice's parent array as seen in world `w` -/
structure Sel (w : World) (r : Nat) (sp : SliceSpec) (pos shp' : List Nat) : Prop where
  sel : selIdx (w.heap.objs r).shape sp = .ok (pos, shp')
  inb : ∀ p, p ∈ pos → p < (w.heap.objs r).data.length
  nz : shp' ≠ []        -- the selection keeps at least one axis (otherwise numpy hands out a scalar)

theorem Sel.step {N r : Nat} {T : List Nat} {w w' : World} {sp : SliceSpec} {pos shp' : List Nat}
    (hs : Sel w r sp pos shp') (st : Step N r T w w') : Sel w' r sp pos shp' := by
  obtain ⟨_, _, _, _, _, _, h4, h5, _⟩ := st
  exact ⟨by rw [h5]; exact hs.sel, by rw [h4]; exact hs.inb, hs.nz⟩

theorem asView_arr_sel {w : World} {r : Nat} {sp : SliceSpec} {pos shp' : List Nat} (hs : Sel w r sp pos shp') :
    (pos.map fun p => (List.range (w.heap.objs r).data.length).getD p 0) = pos :=
  map_getD_range _ _ hs.inb

theorem writeField_base {N : Nat} (f : Fld) (w : World) (i r : Nat) (sp : SliceSpec) (v : PVal) (pos shp' : List Nat)
    (hh : (w.sigs i).get f = .arr r) (hs : Sel w r sp pos shp') :
    Step N r pos w (writeField f w (.base i) sp v).1 := by
  unfold writeField
  simp only [getField, hh]
  split
  · exact Step.refl _ _ _ _
  · rename_i h' hset
    obtain ⟨vals, hv⟩ := setItem_ok (t := .arr r) (r := r) (idx := List.range (w.heap.objs r).data.length)
      (shp := (w.heap.objs r).shape) rfl hs.sel hset
    rw [asView_arr_sel hs] at hv
    subst hv
    exact ⟨rfl, rfl, rfl, Frame.write _ _ _ _ _ _ (fun p hp => hp)⟩

theorem getField_slice_base {N : Nat} (f : Fld) (w w1 : World) (i r : Nat) (sp : SliceSpec) (v : PVal) (pos shp' : List Nat)
    (hh : (w.sigs i).get f = .arr r) (hs : Sel w r sp pos shp') (hr : r < N) (hN : N ≤ w.heap.next)
    (hg : getField f w (.slice (.base i) sp) = .ok (w1, v)) :
    Step N r pos w w1 ∧ (v = .view r pos shp' ∨
      (v = .arr w.heap.next ∧ ∃ o, w1.heap = (w.heap.alloc o).1)) := by
  simp only [getField, hh] at hg
  split at hg
  · cases hg
  · rename_i h' v' hget
    cases hg
    obtain ⟨pos', shp'', hsel, hcase⟩ := getItem_ok (v := .arr r) (r := r)
      (idx := List.range (w.heap.objs r).data.length) (shp := (w.heap.objs r).shape) rfl hget
    rw [hs.sel] at hsel
    cases hsel
    rw [asView_arr_sel hs] at hcase
    rcases hcase with ⟨hz, _⟩ | ⟨_, _, h1, h2⟩ | ⟨_, _, h1, h2⟩
    · exact absurd hz hs.nz
    · subst h1
      exact ⟨Step.refl _ _ _ _, Or.inl h2⟩
    · exact ⟨⟨rfl, rfl, rfl, by rw [h1]; exact Frame.alloc _ _ _ _ _ hr hN⟩, Or.inr ⟨h2, _, h1⟩⟩

/-- `SignalSlice.sensitivity = v` when the base already has a sensitivity array -/
theorem setSens_slice_base {N : Nat} (w : World) (i r : Nat) (sp : SliceSpec) (v : PVal) (pos shp' : List Nat)
    (hh : (w.sigs i).sens = .arr r) (hs : Sel w r sp pos shp') :
    Step N r pos w (setSens w (.slice (.base i) sp) v).1 := by
  have hh' : (w.sigs i).get .sens = .arr r := hh
  unfold setSens
  simp only [getField, hh']
  exact writeField_base .sens w i r sp _ pos shp' hh' hs

theorem Step.next_le {N r : Nat} {T : List Nat} {w w' : World} (st : Step N r T w w') : w.heap.next ≤ w'.heap.next :=
  st.2.2.2.1

theorem addTail_base {N : Nat} (w : World) (i r : Nat) (sp : SliceSpec) (ds : PVal) (pos shp' : List Nat)
    (hh : (w.sigs i).sens = .arr r) (hs : Sel w r sp pos shp') (hr : r < N) (hN : N ≤ w.heap.next) :
    Step N r pos w (addTail w (.base i) sp ds).1 := by
  unfold addTail
  split
  · exact Step.refl _ _ _ _
  · rename_i w5 v5 hg5
    obtain ⟨st5, _⟩ := getField_slice_base .sens w w5 i r sp v5 pos shp' hh hs hr hN hg5
    have hh5 : (w5.sigs i).sens = .arr r := by rw [st5.1]; exact hh
    have hs5 := hs.step st5
    have hN5 : N ≤ w5.heap.next := Nat.le_trans hN st5.next_le
    split
    · exact st5
    · rename_i w6 tmp hg6
      obtain ⟨st6, htmp⟩ := getField_slice_base .sens w5 w6 i r sp tmp pos shp' hh5 hs5 hr hN5 hg6
      have st06 := st5.trans st6
      have hh6 : (w6.sigs i).sens = .arr r := by rw [st6.1]; exact hh5
      split
      · exact st06
      · rename_i h7 res hi
        have st67 : Step N r pos w6 { w6 with heap := h7 } := by
          refine ⟨rfl, rfl, rfl, ?_⟩
          rcases htmp with hv | ⟨hv, _⟩
          · subst hv
            obtain ⟨_, vals, hw⟩ := iadd_view_ok (t := .view r pos shp') (r := r) (idx := pos) (shp := shp') rfl hi
            rw [hw]
            exact Frame.write _ _ _ _ _ _ (fun p hp => hp)
          · subst hv
            obtain ⟨_, vals, hw⟩ := iadd_view_ok (t := .arr w5.heap.next) (r := w5.heap.next)
              (idx := List.range (w6.heap.objs w5.heap.next).data.length)
              (shp := (w6.heap.objs w5.heap.next).shape) rfl hi
            rw [hw]
            exact Frame.write_fresh _ _ _ _ _ _ _ hr hN5
        have st07 := st06.trans st67
        have hh7 : (({ w6 with heap := h7 } : World).sigs i).sens = .arr r := hh6
        exact st07.trans (setSens_slice_base _ i r sp _ pos shp' hh7 (hs.step st07))

theorem addSlice_base {N : Nat} (w : World) (i r : Nat) (sp : SliceSpec) (ds : PVal) (pos shp' : List Nat)
    (hh : (w.sigs i).sens = .arr r) (hs : Sel w r sp pos shp') (hr : r < N) (hN : N ≤ w.heap.next) :
    Step N r pos w (addSlice w (.base i) sp ds).1 := by
  have hh' : (w.sigs i).get .sens = .arr r := hh
  cases ds <;> simp only [addSlice, getField, hh', initSens]
  · exact Step.refl _ _ _ _
  all_goals exact addTail_base w i r sp _ pos shp' hh hs hr hN

theorem resetSlice_base {N : Nat} (w : World) (i r : Nat) (sp : SliceSpec) (pos shp' : List Nat)
    (hh : (w.sigs i).sens = .arr r) (hs : Sel w r sp pos shp') (hr : r < N) (hN : N ≤ w.heap.next) :
    Step N r pos w (resetSlice w (.base i) sp).1 := by
  unfold resetSlice
  split
  · exact Step.refl _ _ _ _
  · rename_i w1 hg
    exact (getField_slice_base .sens w w1 i r sp _ pos shp' hh hs hr hN hg).1
  · rename_i w1 v hne hg
    obtain ⟨st, _⟩ := getField_slice_base .sens w w1 i r sp v pos shp' hh hs hr hN hg
    have hh1 : (w1.sigs i).sens = .arr r := by rw [st.1]; exact hh
    exact st.trans (setSens_slice_base w1 i r sp _ pos shp' hh1 (hs.step st))

end PymotoVerif.Signal
