/- C18 helper lemmas, part 5: numpy's contract for index sets, PROVED for the model's `selIdx`:
   the selected flat positions lie inside the array and there are as many as the result shape says. -/
import PymotoVerif.Lemmas.SignalSpec
namespace PymotoVerif.Signal

/-! ## one axis -/

theorem clampPos_bounds (v n : Int) (hn : 0 ≤ n) :
    0 ≤ (if v < 0 then (if v + n < 0 then 0 else v + n) else if v ≥ n then n else v) ∧
    (if v < 0 then (if v + n < 0 then 0 else v + n) else if v ≥ n then n else v) ≤ n := by
  split
  · split <;> omega
  · split <;> omega

theorem clampNeg_bounds (v n : Int) (hn : 0 ≤ n) :
    -1 ≤ (if v < 0 then (if v + n < 0 then -1 else v + n) else if v ≥ n then n - 1 else v) ∧
    (if v < 0 then (if v + n < 0 then -1 else v + n) else if v ≥ n then n - 1 else v) ≤ n - 1 := by
  split
  · split <;> omega
  · split <;> omega

theorem pos_aux (start stop step n : Int) (k len : Nat) (h0 : 0 ≤ start) (h1 : stop ≤ n) (hs : step > 0)
    (hl : (if stop > start then ((stop - start - 1) / step + 1).toNat else 0) = len) (hk : k < len) :
    0 ≤ start + (k : Int) * step ∧ start + (k : Int) * step < n := by
  split at hl
  · rename_i hgt
    have hq : (k : Int) ≤ (stop - start - 1) / step := by
      have : (k : Int) < ((stop - start - 1) / step + 1).toNat := by rw [hl]; exact_mod_cast hk
      omega
    have h4 : (k : Int) * step ≤ (stop - start - 1) / step * step :=
      Int.mul_le_mul_of_nonneg_right hq (Int.le_of_lt hs)
    have h5 : (stop - start - 1) / step * step ≤ stop - start - 1 := Int.ediv_mul_le _ (Int.ne_of_gt hs)
    have h6 : 0 ≤ (k : Int) * step := Int.mul_nonneg (Int.natCast_nonneg k) (Int.le_of_lt hs)
    generalize (k : Int) * step = t at h4 h5 h6 ⊢
    generalize (stop - start - 1) / step * step = u at h4 h5
    omega
  · omega

theorem neg_aux (start stop step n : Int) (k len : Nat) (h0 : start ≤ n - 1) (h1 : -1 ≤ stop) (hs : step < 0)
    (hl : (if stop < start then ((start - stop - 1) / (-step) + 1).toNat else 0) = len) (hk : k < len) :
    0 ≤ start + (k : Int) * step ∧ start + (k : Int) * step < n := by
  split at hl
  · rename_i hlt
    have hq : (k : Int) ≤ (start - stop - 1) / (-step) := by
      have : (k : Int) < ((start - stop - 1) / (-step) + 1).toNat := by rw [hl]; exact_mod_cast hk
      omega
    have hps : 0 < -step := by omega
    have h4 : (k : Int) * (-step) ≤ (start - stop - 1) / (-step) * (-step) :=
      Int.mul_le_mul_of_nonneg_right hq (Int.le_of_lt hps)
    have h5 : (start - stop - 1) / (-step) * (-step) ≤ start - stop - 1 := Int.ediv_mul_le _ (Int.ne_of_gt hps)
    have h6 : 0 ≤ (k : Int) * (-step) := Int.mul_nonneg (Int.natCast_nonneg k) (Int.le_of_lt hps)
    have h7 : (k : Int) * step = -((k : Int) * (-step)) := by rw [Int.mul_neg, Int.neg_neg]
    rw [h7]
    generalize (k : Int) * (-step) = t at h4 h5 h6 ⊢
    generalize (start - stop - 1) / (-step) * (-step) = u at h4 h5
    omega
  · omega

/-- the `k`-th index of a slice lies on the axis -/
theorem indices_bounds {s : PySlice} {n : Nat} {start step : Int} {len : Nat}
    (h : s.indices n = .ok (start, step, len)) (k : Nat) (hk : k < len) :
    0 ≤ start + (k : Int) * step ∧ start + (k : Int) * step < (n : Int) := by
  obtain ⟨st, sp, se⟩ := s
  unfold PySlice.indices at h
  simp only at h
  have hn : (0 : Int) ≤ (n : Int) := Int.natCast_nonneg n
  split at h
  · cases h
  · rename_i hs0
    split at h
    · rename_i hpos
      simp only [Except.ok.injEq, Prod.mk.injEq] at h
      obtain ⟨h1, h2, h3⟩ := h
      subst h1 h2
      refine pos_aux _ _ _ n k len ?_ ?_ hpos h3 hk
      · cases st with
        | none => exact Int.le_refl _
        | some v => exact (clampPos_bounds v n hn).1
      · cases sp with
        | none => exact Int.le_refl _
        | some v => exact (clampPos_bounds v n hn).2
    · rename_i hpos
      simp only [Except.ok.injEq, Prod.mk.injEq] at h
      obtain ⟨h1, h2, h3⟩ := h
      subst h1 h2
      refine neg_aux _ _ _ n k len ?_ ?_ (by omega) h3 hk
      · cases st with
        | none => exact Int.le_refl _
        | some v => exact (clampNeg_bounds v n hn).2
      · cases sp with
        | none => exact Int.le_refl _
        | some v => exact (clampNeg_bounds v n hn).1

theorem axis_lt {s : PySlice} {n : Nat} {a : List Nat} (h : s.axis n = .ok a) : ∀ x, x ∈ a → x < n := by
  unfold PySlice.axis at h
  split at h
  · cases h
  · rename_i start step len hi
    simp only [Except.ok.injEq] at h
    subst h
    intro x hx
    simp only [List.mem_map, List.mem_range] at hx
    obtain ⟨k, hk, rfl⟩ := hx
    have := indices_bounds hi k hk
    omega

theorem intAxis_lt {n : Nat} : ∀ {is : List Int} {a : List Nat}, intAxis n is = .ok a → ∀ x, x ∈ a → x < n
  | [], a, h => by simp only [intAxis, Except.ok.injEq] at h; subst h; simp
  | i :: is, a, h => by
    simp only [intAxis] at h
    generalize (if i < 0 then i + (n : Int) else i) = j at h
    by_cases hc : j < 0 ∨ j ≥ (n : Int)
    · rw [if_pos hc] at h; cases h
    · rw [if_neg hc] at h
      cases hr : intAxis n is with
      | error e => rw [hr] at h; cases h
      | ok r =>
        rw [hr] at h
        simp only [Except.ok.injEq] at h
        subst h
        intro x hx
        rcases List.mem_cons.1 hx with rfl | hx
        · omega
        · exact intAxis_lt hr x hx

theorem intIndex_lt {n : Nat} {i : Int} {j : Nat} (h : intIndex n i = .ok j) : j < n := by
  unfold intIndex at h
  simp only at h
  generalize (if i < 0 then i + (n : Int) else i) = k at h
  by_cases hc : k < 0 ∨ k ≥ (n : Int)
  · rw [if_pos hc] at h; cases h
  · rw [if_neg hc] at h
    simp only [Except.ok.injEq] at h
    omega

/-! ## Cartesian products of per-axis index lists -/

/-- per-axis index lists that fit the shape -/
def AxOK : List Nat → List (List Nat) → Prop
  | _, [] => True
  | [], _ :: _ => False
  | d :: ds, a :: as => (∀ x, x ∈ a → x < d) ∧ AxOK ds as

theorem AxOK_nil (s : List Nat) : AxOK s [] := by
  cases s <;> simp [AxOK]

theorem prod_append (a b : List Nat) : prod (a ++ b) = prod a * prod b := by
  induction a with
  | nil => simp [prod]
  | cons x xs ih => simp [prod, ih, Nat.mul_assoc]

theorem mul_add_lt {i d P q : Nat} (hi : i < d) (hq : q < P) : i * P + q < d * P := by
  have h1 : i * P + q < (i + 1) * P := by rw [Nat.succ_mul]; omega
  exact Nat.lt_of_lt_of_le h1 (Nat.mul_le_mul_right P hi)

theorem length_flatMap_const_mem {α β : Type} (l : List α) (f : α → List β) (n : Nat)
    (h : ∀ x, x ∈ l → (f x).length = n) : (l.flatMap f).length = l.length * n := by
  induction l with
  | nil => simp
  | cons a as ih =>
    simp only [List.flatMap_cons, List.length_append, List.length_cons]
    rw [ih (fun x hx => h x (by simp [hx])), h a (by simp), Nat.succ_mul]
    omega

theorem cartIdx_lt : ∀ (shape : List Nat) (axes : List (List Nat)), AxOK shape axes →
    ∀ p, p ∈ cartIdx shape axes → p < prod shape
  | [], _, _ => by
    intro p hp
    have : cartIdx [] ‹_› = [0] := by unfold cartIdx; rfl
    rw [this] at hp
    simp only [List.mem_singleton] at hp
    subst hp; exact Nat.one_pos
  | d :: ds, [], _ => by
    intro p hp
    simp only [cartIdx, List.mem_flatMap, List.mem_range, List.mem_map] at hp
    obtain ⟨i, hi, q, hq, rfl⟩ := hp
    exact mul_add_lt hi (cartIdx_lt ds [] (AxOK_nil ds) q hq)
  | d :: ds, a :: as, h => by
    intro p hp
    simp only [cartIdx, List.mem_flatMap, List.mem_map] at hp
    obtain ⟨i, hi, q, hq, rfl⟩ := hp
    exact mul_add_lt (h.1 i hi) (cartIdx_lt ds as h.2 q hq)

theorem cartIdx_length : ∀ (shape : List Nat) (axes : List (List Nat)), AxOK shape axes →
    (cartIdx shape axes).length = prod (axes.map List.length) * prod (shape.drop axes.length)
  | [], [], _ => rfl
  | [], _ :: _, h => False.elim h
  | d :: ds, [], _ => by
    have ih := cartIdx_length ds [] (AxOK_nil ds)
    simp only [List.map_nil, List.length_nil, List.drop_zero, prod, Nat.one_mul] at ih ⊢
    simp only [cartIdx]
    rw [length_flatMap_const _ _ (prod ds) (fun x => by simp [ih])]
    simp
  | d :: ds, a :: as, h => by
    have ih := cartIdx_length ds as h.2
    simp only [cartIdx, List.map_cons, List.length_cons, List.drop_succ_cons, prod]
    rw [length_flatMap_const _ _ (prod (as.map List.length) * prod (ds.drop as.length)) (fun x => by simp [ih])]
    rw [Nat.mul_assoc]

theorem AxOK_append : ∀ (shape : List Nat) (A B : List (List Nat)), AxOK shape A → AxOK (shape.drop A.length) B →
    AxOK shape (A ++ B)
  | shape, [], B, _, hB => by simpa using hB
  | [], _ :: _, _, hA, _ => False.elim hA
  | d :: ds, a :: as, B, hA, hB => by
    simp only [List.cons_append, AxOK]
    exact ⟨hA.1, AxOK_append ds as B hA.2 (by simpa using hB)⟩

/-! ## parsing index tuples -/

theorem sliceAxes_ok : ∀ (shape : List Nat) (ss : List PySlice) (axes : List (List Nat)), sliceAxes shape ss = .ok axes →
    AxOK shape axes ∧ (ss.length ≤ shape.length → axes.length = ss.length)
  | [], [], axes, h => by simp only [sliceAxes, Except.ok.injEq] at h; subst h; exact ⟨AxOK_nil _, fun _ => rfl⟩
  | [], _ :: _, axes, h => by
    simp only [sliceAxes, Except.ok.injEq] at h; subst h
    exact ⟨AxOK_nil _, fun hl => by simp at hl⟩
  | _ :: _, [], axes, h => by simp only [sliceAxes, Except.ok.injEq] at h; subst h; exact ⟨AxOK_nil _, fun _ => rfl⟩
  | d :: ds, s :: ss, axes, h => by
    simp only [sliceAxes] at h
    cases ha : s.axis d with
    | error e => rw [ha] at h; cases h
    | ok a =>
      rw [ha] at h
      simp only at h
      cases hr : sliceAxes ds ss with
      | error e => rw [hr] at h; cases h
      | ok r =>
        rw [hr] at h
        simp only [Except.ok.injEq] at h
        subst h
        obtain ⟨i1, i2⟩ := sliceAxes_ok ds ss r hr
        exact ⟨⟨axis_lt ha, i1⟩, fun hl => by simp [i2 (by simpa using hl)]⟩

theorem parseItems_ok : ∀ (shape : List Nat) (items : List BItem) (ax : List (List Nat)), parseItems shape items = .ok ax →
    AxOK shape ax ∧ (items.length ≤ shape.length → ax.length = items.length) ∧
    prod (keptLens items ax) = prod (ax.map List.length)
  | [], [], ax, h => by simp only [parseItems, Except.ok.injEq] at h; subst h; exact ⟨AxOK_nil _, fun _ => rfl, rfl⟩
  | [], _ :: _, ax, h => by
    simp only [parseItems, Except.ok.injEq] at h; subst h
    exact ⟨AxOK_nil _, fun hl => by simp at hl, by cases ‹BItem› <;> rfl⟩
  | _ :: _, [], ax, h => by simp only [parseItems, Except.ok.injEq] at h; subst h; exact ⟨AxOK_nil _, fun _ => rfl, rfl⟩
  | d :: ds, .sl s :: is, ax, h => by
    simp only [parseItems] at h
    cases ha : s.axis d with
    | error e => rw [ha] at h; cases h
    | ok a =>
      rw [ha] at h
      simp only at h
      cases hr : parseItems ds is with
      | error e => rw [hr] at h; cases h
      | ok r =>
        rw [hr] at h
        simp only [Except.ok.injEq] at h
        subst h
        obtain ⟨i1, i2, i3⟩ := parseItems_ok ds is r hr
        exact ⟨⟨axis_lt ha, i1⟩, fun hl => by simp [i2 (by simpa using hl)], by simp [keptLens, prod, i3]⟩
  | d :: ds, .int i :: is, ax, h => by
    simp only [parseItems] at h
    cases ha : intIndex d i with
    | error e => rw [ha] at h; cases h
    | ok j =>
      rw [ha] at h
      simp only at h
      cases hr : parseItems ds is with
      | error e => rw [hr] at h; cases h
      | ok r =>
        rw [hr] at h
        simp only [Except.ok.injEq] at h
        subst h
        obtain ⟨i1, i2, i3⟩ := parseItems_ok ds is r hr
        refine ⟨⟨fun x hx => ?_, i1⟩, fun hl => by simp [i2 (by simpa using hl)], by simp [keptLens, prod, i3]⟩
        simp only [List.mem_singleton] at hx
        subst hx
        exact intIndex_lt ha

/-! ## `selIdx` obeys numpy's contract for index sets -/

theorem selTuple_ok {shape : List Nat} {ss : List PySlice} {pos shp' : List Nat} (h : selTuple shape ss = .ok (pos, shp')) :
    pos.length = prod shp' ∧ ∀ p, p ∈ pos → p < prod shape := by
  unfold selTuple at h
  split at h
  · cases h
  · rename_i hle
    cases hr : sliceAxes shape ss with
    | error e => rw [hr] at h; cases h
    | ok axes =>
      rw [hr] at h
      simp only [Except.ok.injEq, Prod.mk.injEq] at h
      obtain ⟨h1, h2⟩ := h
      subst h1 h2
      obtain ⟨i1, i2⟩ := sliceAxes_ok shape ss axes hr
      refine ⟨?_, cartIdx_lt shape axes i1⟩
      rw [cartIdx_length shape axes i1, prod_append, i2 (by omega)]

theorem mixedParse_inv {shape : List Nat} {pre post : List BItem} {k d : Nat} {preAx postAx : List (List Nat)} {rshape : List Nat}
    (h : mixedParse shape pre k post = .ok (preAx, d, postAx, rshape)) :
    ∃ rest, pre.length + 1 + post.length ≤ shape.length ∧ parseItems shape pre = .ok preAx ∧
      shape.drop pre.length = d :: rest ∧ parseItems rest post = .ok postAx ∧
      rshape = (if adjacent pre post then keptLens pre preAx ++ [k] ++ keptLens post postAx ++ rest.drop post.length
                else k :: (keptLens pre preAx ++ keptLens post postAx ++ rest.drop post.length)) := by
  unfold mixedParse at h
  split at h
  · cases h
  · rename_i hle
    cases hp : parseItems shape pre with
    | error e => rw [hp] at h; cases h
    | ok pa =>
      rw [hp] at h
      simp only at h
      cases hd : shape.drop pre.length with
      | nil => rw [hd] at h; cases h
      | cons d' rest =>
        rw [hd] at h
        simp only at h
        cases hq : parseItems rest post with
        | error e => rw [hq] at h; cases h
        | ok qa =>
          rw [hq] at h
          simp only [Except.ok.injEq, Prod.mk.injEq] at h
          obtain ⟨h1, h2, h3, h4⟩ := h
          subst h1 h2 h3
          exact ⟨rest, by omega, rfl, rfl, hq, h4.symm⟩

theorem mixed_cart {shape rest : List Nat} {d : Nat} {pre post : List BItem} {preAx postAx : List (List Nat)} (m : List Nat)
    (hle : pre.length + 1 + post.length ≤ shape.length) (hp : parseItems shape pre = .ok preAx)
    (hd : shape.drop pre.length = d :: rest) (hq : parseItems rest post = .ok postAx) (hm : ∀ x, x ∈ m → x < d) :
    (∀ p, p ∈ cartIdx shape (preAx ++ [m] ++ postAx) → p < prod shape) ∧
    (cartIdx shape (preAx ++ [m] ++ postAx)).length =
      prod (keptLens pre preAx) * (m.length * (prod (keptLens post postAx) * prod (rest.drop post.length))) := by
  obtain ⟨a1, a2, a3⟩ := parseItems_ok shape pre preAx hp
  obtain ⟨b1, b2, b3⟩ := parseItems_ok rest post postAx hq
  have hl1 : preAx.length = pre.length := a2 (by omega)
  have hrl : rest.length + 1 = shape.length - pre.length := by
    have := congrArg List.length hd
    simpa using this.symm
  have hl2 : postAx.length = post.length := b2 (by omega)
  have hok : AxOK shape (preAx ++ [m] ++ postAx) := by
    rw [List.append_assoc]
    apply AxOK_append
    · exact a1
    · rw [hl1, hd]
      exact ⟨hm, b1⟩
  refine ⟨cartIdx_lt _ _ hok, ?_⟩
  rw [cartIdx_length _ _ hok]
  have hdrop : shape.drop (preAx ++ [m] ++ postAx).length = rest.drop post.length := by
    have : (preAx ++ [m] ++ postAx).length = pre.length + (1 + post.length) := by
      simp [hl1, hl2]; omega
    rw [this, ← List.drop_drop, hd]
    simp [Nat.add_comm 1]
  rw [hdrop]
  simp only [List.map_append, List.map_cons, List.map_nil, prod_append, prod, a3, b3, Nat.mul_one, Nat.mul_assoc]

/-- every index the model supports selects positions INSIDE the array, and as many as the result shape says -/
theorem selIdx_ok {shape : List Nat} {sp : SliceSpec} {pos shp' : List Nat} (h : selIdx shape sp = .ok (pos, shp')) :
    pos.length = prod shp' ∧ ∀ p, p ∈ pos → p < prod shape := by
  cases sp with
  | basic s => exact selTuple_ok h
  | tuple ss => exact selTuple_ok h
  | intArr is =>
    cases shape with
    | nil => simp [selIdx] at h
    | cons d ds =>
      simp only [selIdx] at h
      cases ha : intAxis d is with
      | error e => rw [ha] at h; cases h
      | ok a =>
        rw [ha] at h
        simp only [Except.ok.injEq, Prod.mk.injEq] at h
        obtain ⟨h1, h2⟩ := h
        subst h1 h2
        have hok : AxOK (d :: ds) [a] := ⟨intAxis_lt ha, AxOK_nil ds⟩
        refine ⟨?_, cartIdx_lt _ _ hok⟩
        rw [cartIdx_length _ _ hok]
        simp [prod]
  | mixed pre arr post =>
    cases arr with
    | none =>
      simp only [selIdx] at h
      split at h
      · cases h
      · rename_i hle
        cases hp : parseItems shape (pre ++ post) with
        | error e => rw [hp] at h; cases h
        | ok ax =>
          rw [hp] at h
          simp only [Except.ok.injEq, Prod.mk.injEq] at h
          obtain ⟨h1, h2⟩ := h
          subst h1 h2
          obtain ⟨a1, a2, a3⟩ := parseItems_ok shape (pre ++ post) ax hp
          refine ⟨?_, cartIdx_lt _ _ a1⟩
          rw [cartIdx_length _ _ a1, prod_append, a3, a2 (by omega)]
    | some is =>
      simp only [selIdx] at h
      cases hm : mixedParse shape pre is.length post with
      | error e => rw [hm] at h; cases h
      | ok res =>
        obtain ⟨preAx, d, postAx, rshape⟩ := res
        rw [hm] at h
        simp only at h
        cases ha : intAxis d is with
        | error e => rw [ha] at h; cases h
        | ok a =>
          rw [ha] at h
          simp only [Except.ok.injEq, Prod.mk.injEq] at h
          obtain ⟨h1, h2⟩ := h
          subst h2
          obtain ⟨rest, hle, hp, hd, hq, hshape⟩ := mixedParse_inv hm
          have hal : a.length = is.length := intAxis_length ha
          by_cases hadj : adjacent pre post = true
          · rw [if_pos hadj] at h1 hshape
            subst h1
            obtain ⟨c1, c2⟩ := mixed_cart a hle hp hd hq (intAxis_lt ha)
            refine ⟨?_, c1⟩
            rw [c2, hshape]
            simp only [prod_append, prod, hal, Nat.mul_one, Nat.mul_assoc]
          · rw [if_neg hadj] at h1 hshape
            subst h1
            have hone : ∀ j, j ∈ a → (∀ x, x ∈ [j] → x < d) := by
              intro j hj x hx
              simp only [List.mem_singleton] at hx
              subst hx
              exact intAxis_lt ha _ hj
            refine ⟨?_, ?_⟩
            · rw [length_flatMap_const_mem a _ (prod (keptLens pre preAx) * (1 * (prod (keptLens post postAx) * prod (rest.drop post.length))))
                (fun j hj => (mixed_cart [j] hle hp hd hq (hone j hj)).2)]
              rw [hshape]
              simp only [prod_append, prod, hal, Nat.one_mul, Nat.mul_assoc]
            · intro p hp'
              simp only [List.mem_flatMap] at hp'
              obtain ⟨j, hj, hpj⟩ := hp'
              exact (mixed_cart [j] hle hp hd hq (hone j hj)).1 p hpj

/-! ## … and so does every composed index list -/

theorem compose1_ok {n : Nat} {idx shp : List Nat} {sp : SliceSpec} {T shp' : List Nat} (h : compose1 idx shp sp = some (T, shp'))
    (hl : idx.length = prod shp) (hb : ∀ t, t ∈ idx → t < n) : T.length = prod shp' ∧ ∀ t, t ∈ T → t < n := by
  obtain ⟨pos, hsel, _, hT⟩ := compose1_inv h
  obtain ⟨s1, s2⟩ := selIdx_ok hsel
  subst hT
  refine ⟨by simpa using s1, ?_⟩
  intro t ht
  simp only [List.mem_map] at ht
  obtain ⟨p, hp, rfl⟩ := ht
  have hpl : p < idx.length := by rw [hl]; exact s2 p hp
  have : idx.getD p 0 = idx[p] := by simp [List.getD_eq_getElem?_getD, hpl]
  rw [this]
  exact hb _ (List.getElem_mem hpl)

theorem viewIdx_ok {n : Nat} {shape : List Nat} (hn : n = prod shape) :
    ∀ (p : SigRef) (idx shp : List Nat), viewIdx n shape p = some (idx, shp) →
      idx.length = prod shp ∧ ∀ t, t ∈ idx → t < n := by
  intro p
  induction p with
  | base i =>
    intro idx shp h
    simp only [viewIdx, Option.some.injEq, Prod.mk.injEq] at h
    obtain ⟨h1, h2⟩ := h
    subst h1 h2
    exact ⟨by simpa using hn, fun t ht => by simpa using ht⟩
  | slice p sp ih =>
    intro T shp' h
    obtain ⟨idx, shp, h1, _, h3⟩ := viewIdx_slice_inv h
    obtain ⟨i1, i2⟩ := ih idx shp h1
    exact compose1_ok h3 i1 i2

/-- the composed index list of a (nested) slice of a well-formed array (`n = prod shape`) has as many entries as the slice
    shape says, and all of them are positions of the root array -/
theorem compIdx_ok {n : Nat} {shape : List Nat} (hn : n = prod shape) {s : SigRef} {T shp' : List Nat}
    (h : compIdx n shape s = some (T, shp')) : T.length = prod shp' ∧ ∀ t, t ∈ T → t < n := by
  cases s with
  | base i => exact viewIdx_ok hn (.base i) T shp' h
  | slice p sp =>
    obtain ⟨idx, shp, h1, h2⟩ := compIdx_slice_inv h
    obtain ⟨i1, i2⟩ := viewIdx_ok hn p idx shp h1
    exact compose1_ok h2 i1 i2

theorem NSel.ok {f : Fld} {w : World} {r : Nat} {p : SigRef} {sp : SliceSpec} {T shp' : List Nat}
    (hs : NSel f w r p sp T shp') (hwf : (w.heap.objs r).data.length = prod (w.heap.objs r).shape) :
    T.length = prod shp' ∧ ∀ t, t ∈ T → t < (w.heap.objs r).data.length :=
  compIdx_ok hwf hs.comp

end PymotoVerif.Signal
