/- C18 helper lemmas, part 2: slices of ANY nesting depth (`s[a][b]…[z]`).

`viewIdx` / `compIdx` are the SPECIFICATION side: a slice is an index map into the ROOT array, nesting composes
the maps.  The lemmas show that the getters / setters of the heap model (`Core/Signal.lean`) compute exactly these maps,
and that every slice operation is a `Step` whose frame is the composed index set of the root's own array. -/
import PymotoVerif.Lemmas.Signal
namespace PymotoVerif.Signal

/-! ## composed index maps (specification) -/

/-- the base signal a (nested) slice finally refers to -/
def SigRef.root : SigRef → Nat
  | .base i => i
  | .slice p _ => p.root

def SigRef.depth : SigRef → Nat
  | .base _ => 0
  | .slice p _ => p.depth + 1

/-- one level: the slice `sp` of an array-like whose entries sit at the root positions `idx` (shape `shp`) sits at the
    root positions `idx ∘ pos`; `none` when the index is invalid or selects a single element (numpy then hands out a scalar) -/
def compose1 (idx shp : List Nat) (sp : SliceSpec) : Option (List Nat × List Nat) :=
  match selIdx shp sp with
  | .error _ => none
  | .ok (pos, shp') => if shp' = [] then none else some (pos.map fun p => idx.getD p 0, shp')

/-- root positions and shape of a chain of VIEW slices (`n`, `shape`: length and shape of the root array) -/
def viewIdx (n : Nat) (shape : List Nat) : SigRef → Option (List Nat × List Nat)
  | .base _ => some (List.range n, shape)
  | .slice p sp =>
    match viewIdx n shape p with
    | none => none
    | some (idx, shp) => if sp.isView then compose1 idx shp sp else none

/-- root positions and shape of `p[sp]`: `p` a chain of view slices, the LAST index `sp` of any kind (view or copy) -/
def compIdx (n : Nat) (shape : List Nat) : SigRef → Option (List Nat × List Nat)
  | .base _ => some (List.range n, shape)
  | .slice p sp =>
    match viewIdx n shape p with
    | none => none
    | some (idx, shp) => compose1 idx shp sp

theorem compose1_inv {idx shp : List Nat} {sp : SliceSpec} {T shp' : List Nat} (h : compose1 idx shp sp = some (T, shp')) :
    ∃ pos, selIdx shp sp = .ok (pos, shp') ∧ shp' ≠ [] ∧ T = pos.map fun p => idx.getD p 0 := by
  unfold compose1 at h
  split at h
  · cases h
  · rename_i pos s' hsel
    split at h
    · cases h
    · rename_i hz
      simp only [Option.some.injEq, Prod.mk.injEq] at h
      obtain ⟨h1, h2⟩ := h
      subst h1 h2
      exact ⟨pos, hsel, hz, rfl⟩

theorem viewIdx_slice_inv {n : Nat} {shape : List Nat} {p : SigRef} {sp : SliceSpec} {T shp' : List Nat}
    (h : viewIdx n shape (.slice p sp) = some (T, shp')) :
    ∃ idx shp, viewIdx n shape p = some (idx, shp) ∧ sp.isView = true ∧ compose1 idx shp sp = some (T, shp') := by
  simp only [viewIdx] at h
  split at h
  · cases h
  · rename_i idx shp hv
    split at h
    · rename_i hview
      exact ⟨idx, shp, hv, hview, h⟩
    · cases h

theorem compIdx_slice_inv {n : Nat} {shape : List Nat} {p : SigRef} {sp : SliceSpec} {T shp' : List Nat}
    (h : compIdx n shape (.slice p sp) = some (T, shp')) :
    ∃ idx shp, viewIdx n shape p = some (idx, shp) ∧ compose1 idx shp sp = some (T, shp') := by
  simp only [compIdx] at h
  split at h
  · cases h
  · rename_i idx shp hv
    exact ⟨idx, shp, hv, h⟩

/-- a chain of view slices is in particular a slice -/
theorem compIdx_of_viewIdx {n : Nat} {shape : List Nat} {p : SigRef} {T shp' : List Nat}
    (h : viewIdx n shape p = some (T, shp')) : compIdx n shape p = some (T, shp') := by
  cases p with
  | base i => exact h
  | slice p sp =>
    obtain ⟨idx, shp, h1, _, h3⟩ := viewIdx_slice_inv h
    simp only [compIdx, h1, h3]

/-! ## the getters compute the composed maps -/

theorem getField_slice_eq {f : Fld} {w w1 : World} {p : SigRef} {b : PVal} (sp : SliceSpec)
    (hg : getField f w p = .ok (w1, b)) (hb : b ≠ .none) :
    getField f w (.slice p sp) = match getItem w1.heap b sp with
      | .error e => .error e
      | .ok (h, v) => .ok ({ w1 with heap := h }, v) := by
  cases b <;> simp_all [getField] <;> (cases getItem w1.heap _ sp <;> rfl)

theorem getItem_sel {h : Heap} {b : PVal} {sp : SliceSpec} {r : Nat} {idx shp pos shp' : List Nat}
    (hv : b.asView h = some (r, idx, shp)) (hsel : selIdx shp sp = .ok (pos, shp')) (hz : shp' ≠ []) :
    getItem h b sp = if sp.isView = true then .ok (h, .view r (pos.map fun p => idx.getD p 0) shp')
      else .ok ((h.alloc ⟨(h.objs r).cplx, shp', h.read r (pos.map fun p => idx.getD p 0)⟩).1, .arr h.next) := by
  unfold getItem
  rw [hv]
  simp only [hsel, hz, if_false]
  split <;> rfl

/-- the getter of a chain of view slices does not allocate and returns the view at the composed positions -/
theorem getField_viewIdx (f : Fld) (w : World) (r : Nat) :
    ∀ (p : SigRef) (idx shp : List Nat), (w.sigs p.root).get f = .arr r →
      viewIdx (w.heap.objs r).data.length (w.heap.objs r).shape p = some (idx, shp) →
      ∃ b, getField f w p = .ok (w, b) ∧ b ≠ .none ∧ b.asView w.heap = some (r, idx, shp) := by
  intro p
  induction p with
  | base i =>
    intro idx shp hh hv
    simp only [viewIdx, Option.some.injEq, Prod.mk.injEq] at hv
    obtain ⟨h1, h2⟩ := hv
    subst h1 h2
    refine ⟨.arr r, ?_, by simp, rfl⟩
    simp only [getField]
    rw [show (w.sigs i).get f = .arr r from hh]
  | slice p sp ih =>
    intro T shp' hh hv
    obtain ⟨idx, shp, h1, hview, h3⟩ := viewIdx_slice_inv hv
    obtain ⟨pos, hsel, hz, hT⟩ := compose1_inv h3
    obtain ⟨b, hg, hb, hav⟩ := ih idx shp hh h1
    refine ⟨.view r T shp', ?_, by simp, rfl⟩
    rw [getField_slice_eq sp hg hb, getItem_sel hav hsel hz]
    simp only [hview, if_true, hT]

/-- `p[sp]` seen from world `w`: the root signal holds the whole array `r` in field `f`, and the composed positions are `T` -/
structure NSel (f : Fld) (w : World) (r : Nat) (p : SigRef) (sp : SliceSpec) (T shp' : List Nat) : Prop where
  hold : (w.sigs p.root).get f = .arr r
  comp : compIdx (w.heap.objs r).data.length (w.heap.objs r).shape (.slice p sp) = some (T, shp')

theorem NSel.step {f : Fld} {N r : Nat} {T' : List Nat} {w w' : World} {p : SigRef} {sp : SliceSpec} {T shp' : List Nat}
    (hs : NSel f w r p sp T shp') (st : Step N r T' w w') : NSel f w' r p sp T shp' := by
  obtain ⟨h1, _, _, _, _, _, h4, h5, _⟩ := st
  exact ⟨by rw [h1]; exact hs.hold, by rw [h4, h5]; exact hs.comp⟩

theorem NSel.unpack {f : Fld} {w : World} {r : Nat} {p : SigRef} {sp : SliceSpec} {T shp' : List Nat}
    (hs : NSel f w r p sp T shp') :
    ∃ b idx shp pos, getField f w p = .ok (w, b) ∧ b ≠ .none ∧ b.asView w.heap = some (r, idx, shp) ∧
      selIdx shp sp = .ok (pos, shp') ∧ shp' ≠ [] ∧ T = pos.map fun p => idx.getD p 0 := by
  obtain ⟨idx, shp, h1, h2⟩ := compIdx_slice_inv hs.comp
  obtain ⟨pos, hsel, hz, hT⟩ := compose1_inv h2
  obtain ⟨b, hg, hb, hav⟩ := getField_viewIdx f w r p idx shp hs.hold h1
  exact ⟨b, idx, shp, pos, hg, hb, hav, hsel, hz, hT⟩

/-! ## frames of the slice operations, any depth -/

theorem writeField_n {N : Nat} (f : Fld) (w : World) (r : Nat) (p : SigRef) (sp : SliceSpec) (v : PVal) (T shp' : List Nat)
    (hs : NSel f w r p sp T shp') : Step N r T w (writeField f w p sp v).1 := by
  obtain ⟨b, idx, shp, pos, hg, hb, hav, hsel, hz, hT⟩ := hs.unpack
  unfold writeField
  rw [hg]
  simp only
  split
  · exact Step.refl _ _ _ _
  · rename_i h' hset
    obtain ⟨vals, hv⟩ := setItem_ok hav hsel hset
    subst hv
    subst hT
    exact ⟨rfl, rfl, rfl, Frame.write _ _ _ _ _ _ (fun p hp => hp)⟩

theorem getField_slice_n {N : Nat} (f : Fld) (w w1 : World) (r : Nat) (p : SigRef) (sp : SliceSpec) (v : PVal) (T shp' : List Nat)
    (hs : NSel f w r p sp T shp') (hr : r < N) (hN : N ≤ w.heap.next)
    (hg : getField f w (.slice p sp) = .ok (w1, v)) :
    Step N r T w w1 ∧ (v = .view r T shp' ∨ (v = .arr w.heap.next ∧ ∃ o, w1.heap = (w.heap.alloc o).1)) := by
  obtain ⟨b, idx, shp, pos, hg0, hb, hav, hsel, hz, hT⟩ := hs.unpack
  rw [getField_slice_eq sp hg0 hb, getItem_sel hav hsel hz] at hg
  by_cases hview : sp.isView = true
  · rw [if_pos hview] at hg
    simp only [Except.ok.injEq, Prod.mk.injEq] at hg
    obtain ⟨h1, h2⟩ := hg
    subst h1 h2 hT
    exact ⟨Step.refl _ _ _ _, Or.inl rfl⟩
  · rw [if_neg hview] at hg
    simp only [Except.ok.injEq, Prod.mk.injEq] at hg
    obtain ⟨h1, h2⟩ := hg
    subst h1 h2
    exact ⟨⟨rfl, rfl, rfl, Frame.alloc _ _ _ _ _ hr hN⟩, Or.inr ⟨rfl, _, rfl⟩⟩

/-- `SignalSlice.sensitivity = v` when the root already has a sensitivity array -/
theorem setSens_slice_n {N : Nat} (w : World) (r : Nat) (p : SigRef) (sp : SliceSpec) (v : PVal) (T shp' : List Nat)
    (hs : NSel .sens w r p sp T shp') : Step N r T w (setSens w (.slice p sp) v).1 := by
  obtain ⟨b, idx, shp, pos, hg, hb, hav, hsel, hz, hT⟩ := hs.unpack
  have e : setSens w (.slice p sp) v = writeField .sens w p sp (match v with | .none => .sc false 0 | x => x) := by
    cases b <;> simp_all [setSens, PVal.asView] <;> (cases v <;> rfl)
  rw [e]
  exact writeField_n .sens w r p sp _ T shp' hs

theorem addTail_n {N : Nat} (w : World) (r : Nat) (p : SigRef) (sp : SliceSpec) (ds : PVal) (T shp' : List Nat)
    (hs : NSel .sens w r p sp T shp') (hr : r < N) (hN : N ≤ w.heap.next) :
    Step N r T w (addTail w p sp ds).1 := by
  unfold addTail
  split
  · exact Step.refl _ _ _ _
  · rename_i w5 v5 hg5
    obtain ⟨st5, _⟩ := getField_slice_n .sens w w5 r p sp v5 T shp' hs hr hN hg5
    have hs5 := hs.step st5
    have hN5 : N ≤ w5.heap.next := Nat.le_trans hN st5.next_le
    split
    · exact st5
    · rename_i w6 tmp hg6
      obtain ⟨st6, htmp⟩ := getField_slice_n .sens w5 w6 r p sp tmp T shp' hs5 hr hN5 hg6
      have st06 := st5.trans st6
      split
      · exact st06
      · rename_i h7 res hi
        have st67 : Step N r T w6 { w6 with heap := h7 } := by
          refine ⟨rfl, rfl, rfl, ?_⟩
          rcases htmp with hv | ⟨hv, _⟩
          · subst hv
            obtain ⟨_, vals, hw⟩ := iadd_view_ok (t := .view r T shp') (r := r) (idx := T) (shp := shp') rfl hi
            rw [hw]
            exact Frame.write _ _ _ _ _ _ (fun p hp => hp)
          · subst hv
            obtain ⟨_, vals, hw⟩ := iadd_view_ok (t := .arr w5.heap.next) (r := w5.heap.next)
              (idx := List.range (w6.heap.objs w5.heap.next).data.length)
              (shp := (w6.heap.objs w5.heap.next).shape) rfl hi
            rw [hw]
            exact Frame.write_fresh _ _ _ _ _ _ _ hr hN5
        have st07 := st06.trans st67
        exact st07.trans (setSens_slice_n _ r p sp _ T shp' (hs.step st07))

theorem addSlice_n {N : Nat} (w : World) (r : Nat) (p : SigRef) (sp : SliceSpec) (ds : PVal) (T shp' : List Nat)
    (hs : NSel .sens w r p sp T shp') (hr : r < N) (hN : N ≤ w.heap.next) :
    Step N r T w (addSlice w p sp ds).1 := by
  obtain ⟨b, idx, shp, pos, hg, hb, hav, hsel, hz, hT⟩ := hs.unpack
  have e : ds ≠ .none → addSlice w p sp ds = addTail w p sp ds := by
    intro hds
    cases ds <;> cases b <;> simp_all [addSlice, initSens, PVal.asView]
  by_cases hds : ds = .none
  · subst hds
    exact Step.refl _ _ _ _
  · rw [e hds]
    exact addTail_n w r p sp ds T shp' hs hr hN

theorem resetSlice_n {N : Nat} (w : World) (r : Nat) (p : SigRef) (sp : SliceSpec) (T shp' : List Nat)
    (hs : NSel .sens w r p sp T shp') (hr : r < N) (hN : N ≤ w.heap.next) :
    Step N r T w (resetSlice w p sp).1 := by
  unfold resetSlice
  split
  · exact Step.refl _ _ _ _
  · rename_i w1 hg
    exact (getField_slice_n .sens w w1 r p sp _ T shp' hs hr hN hg).1
  · rename_i w1 v hne hg
    obtain ⟨st, _⟩ := getField_slice_n .sens w w1 r p sp v T shp' hs hr hN hg
    exact st.trans (setSens_slice_n w1 r p sp _ T shp' (hs.step st))

/-! ## first `add_sensitivity` through a (nested) slice: the zero sensitivity of the root -/

def AllZero (l : List GI) : Prop := ∀ x, x ∈ l → x = 0

theorem AllZero.getD {l : List GI} (h : AllZero l) (j : Nat) : l.getD j 0 = 0 := by
  by_cases hj : j < l.length
  · have : l.getD j 0 = l[j] := by simp [List.getD_eq_getElem?_getD, hj]
    rw [this]; exact h _ (List.getElem_mem hj)
  · simp [List.getD_eq_getElem?_getD, Nat.le_of_not_lt hj]

theorem AllZero.replicate (n : Nat) : AllZero (List.replicate n 0) := by
  intro x hx
  exact (List.mem_replicate.1 hx).2

theorem AllZero.writeList {d vals : List GI} (idx : List Nat) (hd : AllZero d) (hv : AllZero vals) :
    AllZero (writeList d idx vals) := by
  induction idx generalizing d vals with
  | nil => simpa using hd
  | cons i is ih =>
    cases vals with
    | nil => simpa using hd
    | cons v vs =>
      rw [writeList_cons]
      refine ih ?_ (fun x hx => hv x (by simp [hx]))
      intro x hx
      rcases List.mem_or_eq_of_mem_set hx with h | h
      · exact hd x h
      · rw [h]; exact hv v (by simp)

theorem dropIm_zero : dropIm 0 = 0 := rfl

/-- a zero right-hand side stays zero under conversion and broadcasting -/
theorem prepVal_zero {h : Heap} {tc c : Bool} {shp vshape : List Nat} {v : PVal} {data vals : List GI}
    (hs : v.src h = some (.arr c vshape data)) (hz : AllZero data) (hp : prepVal h tc shp v = .ok vals) : AllZero vals := by
  unfold prepVal at hp
  rw [hs] at hp
  simp only at hp
  split at hp
  · cases hp
  · split at hp
    · cases hp
    · rename_i m _
      simp only [Except.ok.injEq] at hp
      subst hp
      intro x hx
      split at hx
      · simp only [List.mem_map] at hx
        obtain ⟨y, ⟨p, _, rfl⟩, rfl⟩ := hx
        rw [hz.getD]; rfl
      · simp only [List.mem_map] at hx
        obtain ⟨p, _, rfl⟩ := hx
        exact hz.getD p

theorem prepSet_zero {h : Heap} {tc c : Bool} {shp vshape : List Nat} {sp : SliceSpec} {v : PVal} {data vals : List GI}
    {pos : List Nat} (hs : v.src h = some (.arr c vshape data)) (hz : AllZero data)
    (hp : prepSet h tc shp sp v = .ok (pos, vals)) : AllZero vals := by
  unfold prepSet at hp
  split at hp
  · cases hp
  · split at hp
    · split at hp <;> cases hp
    · cases hp
    · rename_i vals' hv
      split at hp
      · cases hp
      · simp only [Except.ok.injEq, Prod.mk.injEq] at hp
        rw [← hp.2]; exact prepVal_zero hs hz hv
  · split at hp
    · cases hp
    · split at hp
      · cases hp
      · rename_i vals' hv
        simp only [Except.ok.injEq, Prod.mk.injEq] at hp
        rw [← hp.2]; exact prepVal_zero hs hz hv

theorem setItem_eq {h : Heap} {t : PVal} {r : Nat} {idx shp : List Nat} (sp : SliceSpec) (v : PVal)
    (ht : t.asView h = some (r, idx, shp)) :
    setItem h t sp v = match prepSet h (h.objs r).cplx shp sp v with
      | .error e => .error e
      | .ok (pos, vals) => .ok (h.write r (pos.map fun p => idx.getD p 0) vals) := by
  unfold setItem
  rw [ht]
  rfl

theorem mulZero_view {h : Heap} {st : PVal} {r : Nat} {idx shp : List Nat} (hv : st.asView h = some (r, idx, shp))
    (hz : shp ≠ []) :
    mulZero h st = .ok ((h.alloc ⟨(h.objs r).cplx, shp, List.replicate idx.length 0⟩).1, .arr h.next) := by
  cases st with
  | arr r' =>
    simp only [PVal.asView, Option.some.injEq, Prod.mk.injEq] at hv
    obtain ⟨rfl, rfl, rfl⟩ := hv
    simp [mulZero, PVal.asView, hz]
  | view r' i' s' =>
    simp only [PVal.asView, Option.some.injEq, Prod.mk.injEq] at hv
    obtain ⟨rfl, rfl, rfl⟩ := hv
    simp [mulZero, PVal.asView, hz]
  | _ => simp [PVal.asView] at hv

theorem getField_sens_none (w : World) : ∀ p : SigRef, (w.sigs p.root).sens = .none → getField .sens w p = .ok (w, .none) := by
  intro p
  induction p with
  | base i => intro h; simp only [getField, Sig.get]; rw [show (w.sigs i).sens = .none from h]
  | slice p sp ih => intro h; simp only [getField, ih h]

theorem viewIdx_shape_ne {n : Nat} {shape : List Nat} {p : SigRef} {idx shp : List Nat}
    (h : viewIdx n shape p = some (idx, shp)) (hz : shape ≠ []) : shp ≠ [] := by
  cases p with
  | base i =>
    simp only [viewIdx, Option.some.injEq, Prod.mk.injEq] at h
    rw [← h.2]; exact hz
  | slice p sp =>
    obtain ⟨_, _, _, _, h3⟩ := viewIdx_slice_inv h
    obtain ⟨_, _, h4, _⟩ := compose1_inv h3
    exact h4

theorem viewIdx_length {n : Nat} {shape : List Nat} {p : SigRef} {idx shp : List Nat}
    (h : viewIdx n shape (.base (p.root)) = some (idx, shp)) : idx.length = n := by
  simp only [viewIdx, Option.some.injEq, Prod.mk.injEq] at h
  rw [← h.1]; simp

/-- the world after `base.sensitivity = <zeros>` issued (recursively) through a chain of slices: the ROOT signal `i` holds a
    new all-zero array `r0` of the state's shape and dtype; nothing that existed before has changed -/
structure ZeroInit (i rs : Nat) (w w' : World) (r0 : Nat) : Prop where
  sens : (w'.sigs i).sens = .arr r0
  state : (w'.sigs i).state = (w.sigs i).state
  others : ∀ j, j ≠ i → w'.sigs j = w.sigs j
  exts : w'.exts = w.exts
  nsig : w'.nsig = w.nsig
  next_le : w.heap.next ≤ w'.heap.next
  r0_lt : r0 < w'.heap.next
  old : ∀ r', r' < w.heap.next → r' ≠ r0 → w'.heap.objs r' = w.heap.objs r'
  shape : (w'.heap.objs r0).shape = (w.heap.objs rs).shape
  cplx : (w'.heap.objs r0).cplx = (w.heap.objs rs).cplx
  len : (w'.heap.objs r0).data.length = (w.heap.objs rs).data.length
  zero : AllZero (w'.heap.objs r0).data

theorem setSens_init_zero (i rs : Nat) :
    ∀ (p : SigRef) (w : World) (zr : Nat) (idx shp : List Nat),
      p.root = i → (w.sigs i).sens = .none → (w.sigs i).state = .arr rs → rs < w.heap.next → zr < w.heap.next → zr ≠ rs →
      (w.heap.objs rs).shape ≠ [] →
      viewIdx (w.heap.objs rs).data.length (w.heap.objs rs).shape p = some (idx, shp) →
      (w.heap.objs zr).shape = shp → (w.heap.objs zr).cplx = (w.heap.objs rs).cplx →
      (w.heap.objs zr).data.length = idx.length → AllZero (w.heap.objs zr).data →
      ∃ r0, (r0 = zr ∨ w.heap.next ≤ r0) ∧ ZeroInit i rs w (setSens w p (.arr zr)).1 r0 := by
  intro p
  induction p with
  | base k =>
    intro w zr idx shp hroot hse hst hrs hzr hne hnz hv hshape hcplx hlen hzero
    simp only [SigRef.root] at hroot
    subst hroot
    simp only [viewIdx, Option.some.injEq, Prod.mk.injEq] at hv
    obtain ⟨h1, h2⟩ := hv
    subst h1 h2
    refine ⟨zr, Or.inl rfl, ?_⟩
    simp only [setSens]
    exact ⟨by simp [World.setSens], by simp [World.setSens], fun j hj => by simp [World.setSens, hj], rfl, rfl,
      Nat.le_refl _, hzr, fun _ _ _ => rfl, hshape, hcplx, by simpa [World.setSens] using hlen, hzero⟩
  | slice p sp ih =>
    intro w zr T shp' hroot hse hst hrs hzr hne hnz hv hshape hcplx hlen hzero
    simp only [SigRef.root] at hroot
    obtain ⟨idx, shp, h1, hview, h3⟩ := viewIdx_slice_inv hv
    obtain ⟨pos, hsel, hz', hT⟩ := compose1_inv h3
    have hshp : shp ≠ [] := viewIdx_shape_ne h1 hnz
    have hst' : (w.sigs p.root).get .state = .arr rs := by rw [hroot]; exact hst
    obtain ⟨st, hgst, hstn, hstv⟩ := getField_viewIdx .state w rs p idx shp hst' h1
    -- the world after `self.base.state * 0`
    let o : Obj := ⟨(w.heap.objs rs).cplx, shp, List.replicate idx.length 0⟩
    let w2 : World := { w with heap := (w.heap.alloc o).1 }
    have e : setSens w (.slice p sp) (.arr zr) =
        (match setSens w2 p (.arr w.heap.next) with
          | (w4, some e) => (w4, some e)
          | (w4, Option.none) => writeField .sens w4 p sp (.arr zr)) := by
      simp only [setSens, getField_sens_none w p (by rw [hroot]; exact hse), hgst, mulZero_view hstv hshp]
      rfl
    have hrs2 : w2.heap.objs rs = w.heap.objs rs := alloc_objs_old _ _ _ (Nat.ne_of_lt hrs)
    obtain ⟨r0, hr0, Z⟩ := ih w2 w.heap.next idx shp hroot hse hst (Nat.lt_succ_of_lt hrs) (Nat.lt_succ_self _)
      (Nat.ne_of_gt hrs) (by rw [hrs2]; exact hnz) (by rw [hrs2]; exact h1)
      (by simp [w2, o]) (by rw [hrs2]; simp [w2, o]) (by simp [w2, o]) (by simp only [w2, alloc_objs_new, o]; exact AllZero.replicate _)
    have hr0' : w.heap.next ≤ r0 := by
      rcases hr0 with h | h
      · omega
      · exact Nat.le_trans (Nat.le_succ _) h
    -- lift `Z` (relative to `w2`) to `w`
    have Zw : ZeroInit i rs w (setSens w2 p (.arr w.heap.next)).1 r0 := by
      refine ⟨Z.sens, Z.state, Z.others, Z.exts, Z.nsig, Nat.le_trans (Nat.le_succ _) Z.next_le, Z.r0_lt, ?_,
        by rw [Z.shape, hrs2], by rw [Z.cplx, hrs2], by rw [Z.len, hrs2], Z.zero⟩
      intro r' hr' hne'
      rw [Z.old r' (Nat.lt_succ_of_lt hr') hne']
      exact alloc_objs_old _ _ _ (Nat.ne_of_lt hr')
    refine ⟨r0, Or.inr hr0', ?_⟩
    rw [e]
    generalize hres : setSens w2 p (.arr w.heap.next) = res at Zw
    obtain ⟨w4, err⟩ := res
    cases err with
    | some e4 => exact Zw
    | none =>
      simp only at Zw ⊢
      -- `self.base.sensitivity[self.slice] = <zeros>` on the new root array
      have hh4 : (w4.sigs p.root).get .sens = .arr r0 := by rw [hroot]; exact Zw.sens
      have hv4 : viewIdx (w4.heap.objs r0).data.length (w4.heap.objs r0).shape p = some (idx, shp) := by
        rw [Zw.len, Zw.shape]; exact h1
      obtain ⟨b4, hg4, hb4, hav4⟩ := getField_viewIdx .sens w4 r0 p idx shp hh4 hv4
      have hzr4 : w4.heap.objs zr = w.heap.objs zr := Zw.old zr hzr (by omega)
      unfold writeField
      rw [hg4]
      simp only
      rw [setItem_eq sp (.arr zr) hav4]
      split
      · exact Zw
      · rename_i hh hset
        split at hset
        · cases hset
        · rename_i pos' vals hp
          simp only [Except.ok.injEq] at hset
          subst hset
          have hvz : AllZero vals :=
            prepSet_zero (v := .arr zr) (c := (w4.heap.objs zr).cplx) (vshape := (w4.heap.objs zr).shape)
              (data := (w4.heap.objs zr).data) rfl (by rw [hzr4]; exact hzero) hp
          refine ⟨Zw.sens, Zw.state, Zw.others, Zw.exts, Zw.nsig, Zw.next_le, Zw.r0_lt, ?_, ?_, ?_, ?_, ?_⟩
          · intro r' hr' hne'
            simp only [write_objs_ne _ _ _ _ _ hne']
            exact Zw.old r' hr' hne'
          · simpa using Zw.shape
          · simpa using Zw.cplx
          · simpa using Zw.len
          · simp only [write_objs_self]
            exact AllZero.writeList _ Zw.zero hvz

/-- the written positions receive one of the written values (no assumption on repeats) -/
theorem writeList_getD_mem (d : List GI) (T : List Nat) (vals : List GI) (j : Nat) (hj : j ∈ T) (hl : T.length ≤ vals.length)
    (hb : j < d.length) : (writeList d T vals).getD j 0 ∈ vals := by
  induction T generalizing d vals with
  | nil => simp at hj
  | cons i is ih =>
    cases vals with
    | nil => simp at hl
    | cons v vs =>
      rw [writeList_cons]
      by_cases hjis : j ∈ is
      · exact List.mem_cons_of_mem _ (ih (d.set i v) vs hjis (by simpa using hl) (by simpa using hb))
      · have hji : j = i := by
          rcases List.mem_cons.1 hj with h | h
          · exact h
          · exact absurd h hjis
        subst hji
        rw [writeList_getD_of_not_mem _ _ _ _ hjis, getD_set_self _ _ _ hb]
        simp

/-- what the first `add_sensitivity` through a slice of any depth leaves behind -/
structure ZeroCreated (i rs : Nat) (T : List Nat) (w w' : World) (r0 : Nat) : Prop where
  fresh : w.heap.next ≤ r0
  sens : (w'.sigs i).sens = .arr r0
  state : (w'.sigs i).state = .arr rs
  others : ∀ j, j ≠ i → w'.sigs j = w.sigs j
  shape : (w'.heap.objs r0).shape = (w.heap.objs rs).shape
  cplx : (w'.heap.objs r0).cplx = (w.heap.objs rs).cplx
  len : (w'.heap.objs r0).data.length = (w.heap.objs rs).data.length
  zero : ∀ j, j ∉ T → (w'.heap.objs r0).data.getD j 0 = 0
  old : ∀ r', r' < w.heap.next → w'.heap.objs r' = w.heap.objs r'

theorem addSlice_init_zero (w : World) (i rs : Nat) (p : SigRef) (sp : SliceSpec) (T shp' : List Nat) (v : PVal)
    (hv : v ≠ .none) (hroot : p.root = i) (hse : (w.sigs i).sens = .none) (hst : (w.sigs i).state = .arr rs)
    (hrs : rs < w.heap.next) (hs : NSel .state w rs p sp T shp') (hnz : (w.heap.objs rs).shape ≠ []) :
    ∃ r0, ZeroCreated i rs T w (addSlice w p sp v).1 r0 := by
  obtain ⟨idx, shp, h1, h2⟩ := compIdx_slice_inv hs.comp
  have hshp : shp ≠ [] := viewIdx_shape_ne h1 hnz
  obtain ⟨st, hgst, hstn, hstv⟩ := getField_viewIdx .state w rs p idx shp hs.hold h1
  let o : Obj := ⟨(w.heap.objs rs).cplx, shp, List.replicate idx.length 0⟩
  let w2 : World := { w with heap := (w.heap.alloc o).1 }
  have e : addSlice w p sp v =
      (match setSens w2 p (.arr w.heap.next) with
        | (w4, some e) => (w4, some e)
        | (w4, Option.none) => addTail w4 p sp v) := by
    cases v with
    | none => exact absurd rfl hv
    | _ =>
      simp only [addSlice, getField_sens_none w p (by rw [hroot]; exact hse), initSens, hgst, mulZero_view hstv hshp]
      rfl
  have hrs2 : w2.heap.objs rs = w.heap.objs rs := alloc_objs_old _ _ _ (Nat.ne_of_lt hrs)
  obtain ⟨r0, hr0, Z⟩ := setSens_init_zero i rs p w2 w.heap.next idx shp hroot hse hst (Nat.lt_succ_of_lt hrs)
    (Nat.lt_succ_self _) (Nat.ne_of_gt hrs) (by rw [hrs2]; exact hnz) (by rw [hrs2]; exact h1)
    (by simp [w2, o]) (by rw [hrs2]; simp [w2, o]) (by simp [w2, o])
    (by simp only [w2, alloc_objs_new, o]; exact AllZero.replicate _)
  have hr0' : w.heap.next ≤ r0 := by
    rcases hr0 with h | h
    · omega
    · exact Nat.le_trans (Nat.le_succ _) h
  have hold4 : ∀ r', r' < w.heap.next → (setSens w2 p (.arr w.heap.next)).1.heap.objs r' = w.heap.objs r' := by
    intro r' hr'
    rw [Z.old r' (Nat.lt_succ_of_lt hr') (by omega)]
    exact alloc_objs_old _ _ _ (Nat.ne_of_lt hr')
  refine ⟨r0, ?_⟩
  rw [e]
  generalize hres : setSens w2 p (.arr w.heap.next) = res at Z hold4
  obtain ⟨w4, err⟩ := res
  simp only at Z hold4
  cases err with
  | some e4 =>
    exact ⟨hr0', Z.sens, by rw [Z.state]; exact hst, Z.others, by rw [Z.shape, hrs2], by rw [Z.cplx, hrs2],
      by rw [Z.len, hrs2], fun j _ => Z.zero.getD j, hold4⟩
  | none =>
    simp only
    have hs4 : NSel .sens w4 r0 p sp T shp' := by
      refine ⟨by rw [hroot]; exact Z.sens, ?_⟩
      rw [Z.len, Z.shape, hrs2]
      exact hs.comp
    obtain ⟨s1, _, _, _, s5, s6, s7, s8, s9⟩ := addTail_n (N := w4.heap.next) w4 r0 p sp v T shp' hs4 Z.r0_lt (Nat.le_refl _)
    refine ⟨hr0', by rw [s1]; exact Z.sens, by rw [s1, Z.state]; exact hst, fun j hj => by rw [s1]; exact Z.others j hj,
      by rw [s8, Z.shape, hrs2], by rw [s9, Z.cplx, hrs2], by rw [s7, Z.len, hrs2], ?_, ?_⟩
    · intro j hj
      rw [s6 j hj]
      exact Z.zero.getD j
    · intro r' hr'
      rw [s5 r' (Nat.lt_of_lt_of_le hr' (Nat.le_trans (Nat.le_succ _) Z.next_le)) (by omega)]
      exact hold4 r' hr'

end PymotoVerif.Signal
