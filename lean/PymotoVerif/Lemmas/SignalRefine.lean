/- C18 helper lemmas, part 4: the abstract specification of slice operations and the one-step refinement lemma.

Abstract state: every root array is a FUNCTION index → value (`AState`); an operation through a (nested) slice is
`scatter` of a value list at the composed index list `T` of the root (`compIdx`); nothing else exists in the specification —
no views, no copies, no write-back, no nesting. -/
import PymotoVerif.Lemmas.SignalIdx
namespace PymotoVerif.Signal

/-! ## specification -/

/-- literal right-hand sides of the caller -/
inductive SArg
  | none
  | sc (c : Bool) (x : GI)
  | arr (c : Bool) (shape : List Nat) (vals : List GI)
deriving Repr

def SArg.toArg : SArg → Arg
  | .none => .none
  | .sc c x => .sc c x
  | .arr c s v => .newArr c s v

def SArg.src : SArg → Option Src
  | .none => Option.none
  | .sc c x => some (.sc c x)
  | .arr c s v => some (.arr c s v)

/-- content stored by `slice.sensitivity = a`: `None` stores 0 -/
def SArg.srcSens : SArg → Option Src
  | .none => some (.sc false 0)
  | .sc c x => some (.sc c x)
  | .arr c s v => some (.arr c s v)

inductive SKind | setState | setSens | add | reset
deriving DecidableEq, Repr

/-- an operation through the slice `p[sp]` (`p` of any nesting depth) -/
structure SOp where
  kind : SKind
  p : SigRef
  sp : SliceSpec
  a : SArg                    -- ignored by `reset`
  ka : Option Bool := none    -- `reset(keep_alloc)`; ignored by `SignalSlice.reset`

def SOp.fld (o : SOp) : Fld :=
  match o.kind with
  | .setState => .state
  | _ => .sens

/-- the operation of the heap model -/
def SOp.toOp (o : SOp) : Op :=
  match o.kind with
  | .setState => .setState (.slice o.p o.sp) o.a.toArg
  | .setSens => .setSens (.slice o.p o.sp) o.a.toArg
  | .add => .add (.slice o.p o.sp) o.a.toArg
  | .reset => .reset (.slice o.p o.sp) o.ka

/-- the values the operation scatters to the positions `T` (`error` = the operation raises and changes nothing);
    `f` is the root array, `tc` its dtype, `shp'` the shape of the slice -/
def specVals (tc : Bool) (T shp' : List Nat) (f : Nat → GI) (k : SKind) (a : SArg) : Except Err (List GI) :=
  match k with
  | .setState => prepSrc tc shp' a.src                                            -- scatter
  | .setSens => prepSrc tc shp' a.srcSens
  | .add =>
    match a.src with
    | Option.none => .error .TypeError                                            -- `add_sensitivity(None)`: no-op
    | some d => addSrc tc shp' (gatherF f T) d                                    -- gather, add, scatter
  | .reset => .ok (List.replicate (prod shp') 0)                                  -- scatter 0

def specWrite (tc : Bool) (T shp' : List Nat) (f : Nat → GI) (k : SKind) (a : SArg) : Nat → GI :=
  match specVals tc T shp' f k a with
  | .ok vals => scatterF f T vals
  | .error _ => f

/-- the static data of the slice, read off the INITIAL world: root array, its dtype, composed positions, slice shape -/
def SOp.target (w0 : World) (o : SOp) : Option (Nat × Bool × List Nat × List Nat) :=
  match (w0.sigs o.p.root).get o.fld with
  | .arr r =>
    match compIdx (w0.heap.objs r).data.length (w0.heap.objs r).shape (.slice o.p o.sp) with
    | some (T, shp') => some (r, (w0.heap.objs r).cplx, T, shp')
    | Option.none => Option.none
  | _ => Option.none

/-- abstract state: root arrays as functions -/
abbrev AState := Nat → Nat → GI

def absState (h : Heap) : AState := fun r => absArr (h.objs r).data

def specStep (w0 : World) (A : AState) (o : SOp) : AState :=
  match o.target w0 with
  | some (r, tc, T, shp') => fun r' => if r' = r then specWrite tc T shp' (A r) o.kind o.a else A r'
  | Option.none => A

def specRun (w0 : World) (A : AState) : List SOp → AState
  | [] => A
  | o :: os => specRun w0 (specStep w0 A o) os

/-- operations the refinement theorem speaks about: the root signal holds a whole array that existed initially and is
    well formed (its buffer has as many entries as its shape says), and the chain of slices is valid (`compIdx`) -/
def InScope (w0 : World) (o : SOp) : Prop :=
  ∃ r tc T shp', o.target w0 = some (r, tc, T, shp') ∧ r < w0.heap.next ∧
    (w0.heap.objs r).data.length = prod (w0.heap.objs r).shape

/-! ## one step -/

theorem NSel.congr {f : Fld} {w w' : World} {r : Nat} {p : SigRef} {sp : SliceSpec} {T shp' : List Nat}
    (hs : NSel f w r p sp T shp') (h1 : w'.sigs = w.sigs) (h2 : (w'.heap.objs r).data.length = (w.heap.objs r).data.length)
    (h3 : (w'.heap.objs r).shape = (w.heap.objs r).shape) : NSel f w' r p sp T shp' :=
  ⟨by rw [h1]; exact hs.hold, by rw [h2, h3]; exact hs.comp⟩

theorem absArr_match (X : Except Err (List GI)) (d : List GI) (T : List Nat) (hb : ∀ p, p ∈ T → p < d.length) :
    absArr (match X with | .ok vals => writeList d T vals | .error _ => d) =
      match X with | .ok vals => scatterF (absArr d) T vals | .error _ => absArr d := by
  cases X with
  | error e => rfl
  | ok vals => exact absArr_writeList d T vals hb

/-- evaluation of a literal argument: possibly one allocation, nothing else -/
theorem evalArg_lit (w : World) (a : SArg) :
    let w1 := (evalArg w a.toArg).1
    let v := (evalArg w a.toArg).2
    w1.sigs = w.sigs ∧ w.heap.next ≤ w1.heap.next ∧ (∀ r', r' < w.heap.next → w1.heap.objs r' = w.heap.objs r') ∧
    v.src w1.heap = a.src ∧ (∀ b, v.buf = some b → b < w1.heap.next) ∧ (v = .none ↔ a.src = Option.none) := by
  cases a with
  | none => exact ⟨rfl, Nat.le_refl _, fun _ _ => rfl, rfl, fun b h => by simp [evalArg, SArg.toArg, PVal.buf] at h, by simp [evalArg, SArg.toArg, SArg.src]⟩
  | sc c x => exact ⟨rfl, Nat.le_refl _, fun _ _ => rfl, rfl, fun b h => by simp [evalArg, SArg.toArg, PVal.buf] at h, by simp [evalArg, SArg.toArg, SArg.src]⟩
  | arr c s vals =>
    refine ⟨rfl, Nat.le_succ _, fun r' hr' => ?_, ?_, ?_, by simp [evalArg, SArg.toArg, SArg.src]⟩
    · simp [evalArg, SArg.toArg, Nat.ne_of_lt hr']
    · simp [evalArg, SArg.toArg, SArg.src, PVal.src]
    · intro b hb
      simp only [evalArg, SArg.toArg, PVal.buf, Option.some.injEq] at hb
      subst hb
      exact Nat.lt_succ_self _

/-- the operation of the model on the slice, after the argument has been evaluated -/
def applyK (w1 : World) (k : SKind) (p : SigRef) (sp : SliceSpec) (v : PVal) (ka : Option Bool) : World × Option Err :=
  match k with
  | .setState => setState w1 (.slice p sp) v
  | .setSens => setSens w1 (.slice p sp) v
  | .add => addSens w1 (.slice p sp) v
  | .reset => reset w1 (.slice p sp) ka

/-- every slice operation is the scatter the specification describes, and a `Step` on the rest of the world -/
theorem applyK_val {N : Nat} (w1 : World) (k : SKind) (p : SigRef) (sp : SliceSpec) (v : PVal) (a : SArg) (ka : Option Bool)
    (r : Nat) (T shp' : List Nat)
    (hs : NSel (match k with | .setState => .state | _ => .sens) w1 r p sp T shp') (hlen : T.length = prod shp')
    (hr : r < N) (hN : N ≤ w1.heap.next)
    (hsrc : v.src w1.heap = a.src) (hb : ∀ b, v.buf = some b → b < w1.heap.next) (hnone : v = .none ↔ a.src = Option.none) :
    Step N r T w1 (applyK w1 k p sp v ka).1 ∧
    ((applyK w1 k p sp v ka).1.heap.objs r).data =
      match specVals (w1.heap.objs r).cplx T shp' (absArr (w1.heap.objs r).data) k a with
      | .ok vals => writeList (w1.heap.objs r).data T vals
      | .error _ => (w1.heap.objs r).data := by
  have hr1 : r < w1.heap.next := Nat.lt_of_lt_of_le hr hN
  cases k with
  | setState =>
    refine ⟨writeField_n .state w1 r p sp v T shp' hs, ?_⟩
    simp only [applyK, setState, specVals]
    cases hp : prepSrc (w1.heap.objs r).cplx shp' a.src with
    | error e => rw [writeField_err hs (by rw [hsrc]; exact hp)]
    | ok vals => rw [writeField_ok hs (by rw [hsrc]; exact hp)]; simp
  | setSens =>
    refine ⟨setSens_slice_n w1 r p sp v T shp' hs, ?_⟩
    simp only [applyK, specVals]
    rw [setSens_slice_eq v hs]
    have hsrc' : (noneToZero v).src w1.heap = a.srcSens := by
      cases a with
      | none =>
        have : v = .none := hnone.2 rfl
        subst this; rfl
      | sc c x =>
        have hv : v ≠ .none := fun h => by simpa [SArg.src] using hnone.1 h
        cases v with
        | none => exact absurd rfl hv
        | _ => exact hsrc
      | arr c s vals =>
        have hv : v ≠ .none := fun h => by simpa [SArg.src] using hnone.1 h
        cases v with
        | none => exact absurd rfl hv
        | _ => exact hsrc
    cases hp : prepSrc (w1.heap.objs r).cplx shp' a.srcSens with
    | error e => rw [writeField_err hs (by rw [hsrc']; exact hp)]
    | ok vals => rw [writeField_ok hs (by rw [hsrc']; exact hp)]; simp
  | add =>
    refine ⟨addSlice_n w1 r p sp v T shp' hs hr hN, ?_⟩
    simp only [applyK, addSens, specVals]
    cases hd : a.src with
    | none =>
      have : v = .none := hnone.2 hd
      subst this
      rfl
    | some d =>
      simp only
      exact addSlice_val hs hlen hr1 (by rw [hsrc]; exact hd) hb
  | reset =>
    refine ⟨resetSlice_n w1 r p sp T shp' hs hr hN, ?_⟩
    simp only [applyK, reset, specVals]
    exact (resetSlice_val hs hr1).2

/-- what the induction carries: holdings fixed, the initial objects keep identity, dtype, shape and length -/
structure Inv (w0 w : World) : Prop where
  sigs : w.sigs = w0.sigs
  next : w0.heap.next ≤ w.heap.next
  len : ∀ r, r < w0.heap.next → (w.heap.objs r).data.length = (w0.heap.objs r).data.length
  shape : ∀ r, r < w0.heap.next → (w.heap.objs r).shape = (w0.heap.objs r).shape
  cplx : ∀ r, r < w0.heap.next → (w.heap.objs r).cplx = (w0.heap.objs r).cplx

theorem Inv.refl (w0 : World) : Inv w0 w0 := ⟨rfl, Nat.le_refl _, fun _ _ => rfl, fun _ _ => rfl, fun _ _ => rfl⟩

theorem step_eq_applyK (w : World) (o : SOp) :
    (step w o.toOp).1 = (applyK (match o.kind with | .reset => w | _ => (evalArg w o.a.toArg).1) o.kind o.p o.sp
      (match o.kind with | .reset => .none | _ => (evalArg w o.a.toArg).2) o.ka).1 := by
  obtain ⟨k, p, sp, a, ka⟩ := o
  cases k <;> rfl

/-- ONE operation: the abstraction of the new heap is the specification step applied to the abstraction of the old heap -/
theorem step_refines (w0 w : World) (o : SOp) (hi : Inv w0 w) (hsc : InScope w0 o) :
    Inv w0 (step w o.toOp).1 ∧
    ∀ r', r' < w0.heap.next → absState (step w o.toOp).1.heap r' = specStep w0 (absState w.heap) o r' := by
  obtain ⟨r, tc, T, shp', htgt, hr, hwf⟩ := hsc
  -- unfold the static data
  have htgt' := htgt
  unfold SOp.target at htgt'
  split at htgt'
  · rename_i r0 hhold
    split at htgt'
    · rename_i T0 shp0 hcomp
      simp only [Option.some.injEq, Prod.mk.injEq] at htgt'
      obtain ⟨h1, h2, h3, h4⟩ := htgt'
      subst h1 h2 h3 h4
      obtain ⟨hlen, hinb⟩ := compIdx_ok hwf hcomp
      -- the world in which the slice operation runs
      let w1 : World := match o.kind with | .reset => w | _ => (evalArg w o.a.toArg).1
      let v : PVal := match o.kind with | .reset => .none | _ => (evalArg w o.a.toArg).2
      obtain ⟨e1, e2, e3, e4, e5, e6⟩ := evalArg_lit w o.a
      have f1 : w1.sigs = w.sigs := by simp only [w1]; split <;> first | rfl | exact e1
      have f2 : w.heap.next ≤ w1.heap.next := by simp only [w1]; split <;> first | exact Nat.le_refl _ | exact e2
      have f3 : ∀ r', r' < w.heap.next → w1.heap.objs r' = w.heap.objs r' := by
        simp only [w1]; split <;> first | exact fun _ _ => rfl | exact e3
      have hrw : r0 < w.heap.next := Nat.lt_of_lt_of_le hr hi.next
      have hobj : w1.heap.objs r0 = w.heap.objs r0 := f3 r0 hrw
      have hs : NSel o.fld w1 r0 o.p o.sp T0 shp0 := by
        refine ⟨?_, ?_⟩
        · rw [f1, hi.sigs]; exact hhold
        · rw [hobj, hi.len r0 hr, hi.shape r0 hr]; exact hcomp
      have hN : w0.heap.next ≤ w1.heap.next := Nat.le_trans hi.next f2
      have key := applyK_val (N := w0.heap.next) w1 o.kind o.p o.sp v o.a o.ka r0 T0 shp0
        (by cases hk : o.kind <;> simp only [SOp.fld, hk] at hs <;> exact hs) hlen hr hN
      have key' : Step w0.heap.next r0 T0 w1 (applyK w1 o.kind o.p o.sp v o.ka).1 ∧
          ((applyK w1 o.kind o.p o.sp v o.ka).1.heap.objs r0).data =
            match specVals (w1.heap.objs r0).cplx T0 shp0 (absArr (w1.heap.objs r0).data) o.kind o.a with
            | .ok vals => writeList (w1.heap.objs r0).data T0 vals
            | .error _ => (w1.heap.objs r0).data := by
        cases hk : o.kind with
        | reset =>
          -- `reset` takes no argument: `specVals` and the model ignore `a` and `v`
          have := applyK_val (N := w0.heap.next) w1 .reset o.p o.sp .none .none o.ka r0 T0 shp0
            (by simp only [SOp.fld, hk] at hs; exact hs) hlen hr hN rfl (fun b h => by simp [PVal.buf] at h) (by simp [SArg.src])
          simp only [hk, v] at this ⊢
          exact this
        | setState =>
          have hv : v = (evalArg w o.a.toArg).2 := by simp only [v, hk]
          have hw : w1 = (evalArg w o.a.toArg).1 := by simp only [w1, hk]
          rw [hk] at key
          exact key (by rw [hv, hw]; exact e4) (by rw [hv, hw]; exact e5) (by rw [hv]; exact e6)
        | setSens =>
          have hv : v = (evalArg w o.a.toArg).2 := by simp only [v, hk]
          have hw : w1 = (evalArg w o.a.toArg).1 := by simp only [w1, hk]
          rw [hk] at key
          exact key (by rw [hv, hw]; exact e4) (by rw [hv, hw]; exact e5) (by rw [hv]; exact e6)
        | add =>
          have hv : v = (evalArg w o.a.toArg).2 := by simp only [v, hk]
          have hw : w1 = (evalArg w o.a.toArg).1 := by simp only [w1, hk]
          rw [hk] at key
          exact key (by rw [hv, hw]; exact e4) (by rw [hv, hw]; exact e5) (by rw [hv]; exact e6)
      clear key
      obtain ⟨st, hdata⟩ := key'
      rw [step_eq_applyK]
      obtain ⟨s1, s2, s3, s4, s5, s6, s7, s8, s9⟩ := st
      refine ⟨⟨by rw [s1, f1, hi.sigs], Nat.le_trans hN s4, ?_, ?_, ?_⟩, ?_⟩
      · intro r' hr'
        by_cases hrr : r' = r0
        · subst hrr; rw [s7, hobj, hi.len _ hr']
        · rw [s5 r' hr' hrr, f3 r' (Nat.lt_of_lt_of_le hr' hi.next), hi.len _ hr']
      · intro r' hr'
        by_cases hrr : r' = r0
        · subst hrr; rw [s8, hobj, hi.shape _ hr']
        · rw [s5 r' hr' hrr, f3 r' (Nat.lt_of_lt_of_le hr' hi.next), hi.shape _ hr']
      · intro r' hr'
        by_cases hrr : r' = r0
        · subst hrr; rw [s9, hobj, hi.cplx _ hr']
        · rw [s5 r' hr' hrr, f3 r' (Nat.lt_of_lt_of_le hr' hi.next), hi.cplx _ hr']
      · intro r' hr'
        simp only [specStep, htgt]
        by_cases hrr : r' = r0
        · subst hrr
          simp only [if_true, absState, specWrite]
          rw [hdata, hobj, hi.cplx _ hr]
          exact absArr_match _ _ _ (fun t ht => by rw [hi.len _ hr]; exact hinb t ht)
        · simp only [hrr, if_false, absState]
          rw [s5 r' hr' hrr, f3 r' (Nat.lt_of_lt_of_le hr' hi.next)]
    · cases htgt'
  all_goals cases htgt'

end PymotoVerif.Signal
