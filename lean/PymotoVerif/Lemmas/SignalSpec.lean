/- C18 helper lemmas, part 3: the VALUES written by slice operations and the abstract gather / scatter specification.

Specification side (`scatterF`, `gatherF`, `specWrite`, `specStep`, `specRun`): a root array is a function index → value, a (nested)
slice is the composed index list `T` (`compIdx`, `Lemmas/SignalNested.lean`); get = gather, set = scatter, add = scatter-add,
reset = scatter 0.  Right-hand sides are literal values (`Src`); their conversion / broadcasting (`prepSrc`, `addSrc`) is numpy's
assignment semantics and is shared with the model. -/
import PymotoVerif.Lemmas.SignalNested
namespace PymotoVerif.Signal

/-! ## numpy-side facts: broadcasting a shape onto itself, index-array bookkeeping -/

theorem length_flatMap_const {α β : Type} (l : List α) (f : α → List β) (n : Nat) (h : ∀ x, (f x).length = n) :
    (l.flatMap f).length = l.length * n := by
  induction l with
  | nil => simp
  | cons a as ih => simp [List.flatMap_cons, ih, h, Nat.succ_mul, Nat.add_comm]

theorem range_flatMap_mul (a b : Nat) :
    (List.range a).flatMap (fun i => (List.range b).map fun p => i * b + p) = List.range (a * b) := by
  induction a with
  | zero => simp
  | succ a ih =>
    rw [List.range_succ, List.flatMap_append, ih, Nat.succ_mul, List.range_add]
    simp

theorem bcastOk_self (t : List Nat) : bcastOk t t = true := by
  induction t with
  | nil => rfl
  | cons d ds ih => simp [bcastOk, ih]

theorem bcastIdx_self (t : List Nat) : bcastIdx t t = List.range (prod t) := by
  induction t with
  | nil => rfl
  | cons d ds ih =>
    simp only [bcastIdx, prod, ih]
    by_cases hd : d = 1
    · subst hd
      simp [List.range_succ]
    · simp only [hd, if_false]
      exact range_flatMap_mul d (prod ds)

theorem stripOnes_zero (s : List Nat) : stripOnes 0 s = s := by
  cases s <;> simp [stripOnes]

theorem iaddBcast_self (t : List Nat) : iaddBcast t t = some (List.range (prod t)) := by
  simp [iaddBcast, bcastOk_self, bcastIdx_self]

theorem setBcast_self (t : List Nat) : setBcast t t = some (List.range (prod t)) := by
  simp [setBcast, stripOnes_zero, iaddBcast_self]

theorem bcastIdx_length : ∀ (t s : List Nat), bcastOk t s = true → (bcastIdx t s).length = prod t
  | [], [], _ => rfl
  | [], _ :: _, h => by simp [bcastOk] at h
  | _ :: _, [], h => by simp [bcastOk] at h
  | d :: ds, e :: es, h => by
    simp only [bcastOk, Bool.and_eq_true] at h
    simp only [bcastIdx, prod]
    rw [length_flatMap_const _ _ (prod ds)]
    · simp
    · intro x
      simp [bcastIdx_length ds es h.2]

theorem iaddBcast_length {t s m : List Nat} (h : iaddBcast t s = some m) : m.length = prod t := by
  unfold iaddBcast at h
  split at h
  · cases h
  · simp only at h
    split at h
    · rename_i hok
      simp only [Option.some.injEq] at h
      rw [← h]; exact bcastIdx_length _ _ hok
    · cases h

theorem intAxis_length {n : Nat} : ∀ {is : List Int} {a : List Nat}, intAxis n is = .ok a → a.length = is.length
  | [], a, h => by simp only [intAxis, Except.ok.injEq] at h; rw [← h]; rfl
  | i :: is, a, h => by
    simp only [intAxis] at h
    generalize (if i < 0 then i + (n : Int) else i) = j at h
    by_cases hc : j < 0 ∨ j ≥ (n : Int)
    · rw [if_pos hc] at h; cases h
    · rw [if_neg hc] at h
      cases hr : intAxis n is with
      | error e => rw [hr] at h; cases h
      | ok r =>
        rw [hr] at h
        simp only [Except.ok.injEq] at h
        rw [← h]
        simp [intAxis_length hr]

/-- the result shape numpy announces for an advanced index before checking the entries is the shape of the selection -/
theorem advShape_eq {shp : List Nat} {sp : SliceSpec} {pos shp' : List Nat} {x : Except Err (List Nat)}
    (hsel : selIdx shp sp = .ok (pos, shp')) (ha : advShape shp sp = some x) : x = .ok shp' := by
  cases sp with
  | basic s => simp [advShape] at ha
  | tuple ss => simp [advShape] at ha
  | intArr is =>
    cases shp with
    | nil => simp [selIdx] at hsel
    | cons d ds =>
      simp only [selIdx] at hsel
      split at hsel
      · cases hsel
      · rename_i a hia
        simp only [Except.ok.injEq, Prod.mk.injEq] at hsel
        simp only [advShape, Option.some.injEq] at ha
        rw [← ha, ← hsel.2, intAxis_length hia]
        simp
  | mixed pre arr post =>
    cases arr with
    | none => simp [advShape] at ha
    | some is =>
      simp only [selIdx] at hsel
      simp only [advShape, Option.some.injEq] at ha
      split at hsel
      · cases hsel
      · rename_i preAx d postAx rshape hm
        rw [hm] at ha
        split at hsel
        · cases hsel
        · simp only [Except.ok.injEq, Prod.mk.injEq] at hsel
          rw [← ha, ← hsel.2]

/-! ## right-hand sides -/

/-- `target[...] = src`: conversion and broadcasting of a right-hand side to a selection of shape `shp` in an array of
    dtype `tc` (the body of the model's `prepVal`, on the CONTENT of the value) -/
def prepSrc (tc : Bool) (shp : List Nat) : Option Src → Except Err (List GI)
  | Option.none => if tc then .error .Unsupported else .error .TypeError
  | some (.sc c x) =>
    if c && !tc then .error .TypeError
    else .ok (List.replicate (prod shp) x)
  | some (.arr c vshape vals) =>
    if shp = [] ∧ vshape ≠ [] then
      .error (if tc then .TypeError else .ValueError)
    else match setBcast shp vshape with
    | Option.none => .error .ValueError
    | some m =>
      let vs := m.map fun p => vals.getD p 0
      .ok (if c && !tc then vs.map dropIm else vs)

theorem prepVal_eq (h : Heap) (tc : Bool) (shp : List Nat) (v : PVal) : prepVal h tc shp v = prepSrc tc shp (v.src h) := by
  unfold prepVal prepSrc
  cases v.src h with
  | none => rfl
  | some s => cases s <;> rfl

/-- `target += src` on a selection of shape `shp` holding `cur` (the array branch of the model's `iadd`) -/
def addSrc (tc : Bool) (shp : List Nat) (cur : List GI) : Src → Except Err (List GI)
  | .sc c y => if c && !tc then .error .TypeError else .ok (cur.map fun v => v + y)
  | .arr c vshape vals =>
    if c && !tc then .error .TypeError
    else match iaddBcast shp vshape with
      | Option.none => .error .ValueError
      | some m => .ok (List.zipWith (· + ·) cur (m.map fun p => vals.getD p 0))

theorem iadd_eq {h : Heap} {t ds : PVal} {d : Src} {r : Nat} {idx shp : List Nat}
    (ht : t.asView h = some (r, idx, shp)) (hd : ds.src h = some d) :
    iadd h t ds = match addSrc (h.objs r).cplx shp (h.read r idx) d with
      | .error e => .error e
      | .ok vals => .ok (h.write r idx vals, .same) := by
  unfold iadd
  rw [hd]
  cases t with
  | none => simp [PVal.asView] at ht
  | sc c x => simp [PVal.asView] at ht
  | npsc c x => simp [PVal.asView] at ht
  | arr r0 =>
    simp only [ht]
    cases d with
    | sc c y =>
      simp only [addSrc]
      by_cases hc : (c && !(h.objs r).cplx) = true
      · simp only [hc, ↓reduceIte]
      · simp only [hc]; rfl
    | arr c vs vals =>
      simp only [addSrc]
      by_cases hc : (c && !(h.objs r).cplx) = true
      · simp only [hc, ↓reduceIte]
      · simp only [hc]
        cases iaddBcast shp vs <;> rfl
  | view r0 i0 s0 =>
    simp only [ht]
    cases d with
    | sc c y =>
      simp only [addSrc]
      by_cases hc : (c && !(h.objs r).cplx) = true
      · simp only [hc, ↓reduceIte]
      · simp only [hc]; rfl
    | arr c vs vals =>
      simp only [addSrc]
      by_cases hc : (c && !(h.objs r).cplx) = true
      · simp only [hc, ↓reduceIte]
      · simp only [hc]
        cases iaddBcast shp vs <;> rfl

/-- the values `+=` produces have the length of the selection -/
theorem addSrc_length {tc : Bool} {shp : List Nat} {cur vals : List GI} {d : Src}
    (hl : cur.length = prod shp) (h : addSrc tc shp cur d = .ok vals) : vals.length = cur.length := by
  cases d with
  | sc c y =>
    simp only [addSrc] at h
    split at h
    · cases h
    · simp only [Except.ok.injEq] at h
      rw [← h]; simp
  | arr c vs vv =>
    simp only [addSrc] at h
    split at h
    · cases h
    · split at h
      · cases h
      · rename_i m hm
        simp only [Except.ok.injEq] at h
        rw [← h]
        simp [iaddBcast_length hm, hl]

/-- writing an array of the selection's own dtype and shape stores it as it is -/
theorem prepSrc_same {tc : Bool} {shp : List Nat} {l : List GI} (hz : shp ≠ []) (hl : l.length = prod shp) :
    prepSrc tc shp (some (.arr tc shp l)) = .ok l := by
  have hb : (tc && !tc) = false := by cases tc <;> rfl
  simp only [prepSrc, hz, false_and, if_false, setBcast_self, hb]
  rw [← hl, map_getD_range_self]
  rfl

theorem prepSet_ok {h : Heap} {tc : Bool} {shp : List Nat} {sp : SliceSpec} {v : PVal} {pos shp' : List Nat} {vals : List GI}
    (hsel : selIdx shp sp = .ok (pos, shp')) (hp : prepVal h tc shp' v = .ok vals) :
    prepSet h tc shp sp v = .ok (pos, vals) := by
  unfold prepSet
  cases ha : advShape shp sp with
  | none => simp only [hsel, hp]
  | some x =>
    rw [advShape_eq hsel ha]
    simp only [hp, hsel]

theorem prepSet_err {h : Heap} {tc : Bool} {shp : List Nat} {sp : SliceSpec} {v : PVal} {pos shp' : List Nat} {e : Err}
    (hsel : selIdx shp sp = .ok (pos, shp')) (hp : prepVal h tc shp' v = .error e) :
    ∃ e', prepSet h tc shp sp v = .error e' := by
  unfold prepSet
  cases ha : advShape shp sp with
  | none => exact ⟨e, by simp only [hsel, hp]⟩
  | some x =>
    rw [advShape_eq hsel ha]
    cases e <;> simp only [hp, hsel] <;> exact ⟨_, rfl⟩

/-! ## buffers as functions -/

/-- `f[T[k]] := vals[k]` for all `k`, in order, on a root array seen as a function index → value -/
def scatterF (f : Nat → GI) : List Nat → List GI → Nat → GI
  | i :: is, v :: vs => scatterF (fun j => if j = i then v else f j) is vs
  | _, _ => f

/-- the entries at the positions `T` -/
def gatherF (f : Nat → GI) (T : List Nat) : List GI := T.map f

/-- abstraction of a buffer -/
def absArr (d : List GI) : Nat → GI := fun j => d.getD j 0

theorem absArr_set (d : List GI) (i : Nat) (v : GI) (hi : i < d.length) :
    absArr (d.set i v) = fun j => if j = i then v else absArr d j := by
  funext j
  by_cases hj : j = i
  · subst hj
    simp only [absArr, if_true]
    exact getD_set_self _ _ _ hi
  · simp only [absArr]
    rw [if_neg hj]
    exact getD_set_ne _ _ _ _ hj

theorem absArr_writeList (d : List GI) (T : List Nat) (vals : List GI) (hb : ∀ p, p ∈ T → p < d.length) :
    absArr (writeList d T vals) = scatterF (absArr d) T vals := by
  induction T generalizing d vals with
  | nil => cases vals <;> simp [scatterF]
  | cons i is ih =>
    cases vals with
    | nil => simp [scatterF]
    | cons v vs =>
      rw [writeList_cons, ih _ _ (fun p hp => by simpa using hb p (by simp [hp])), absArr_set _ _ _ (hb i (by simp))]
      rfl

theorem read_eq_gatherF (h : Heap) (r : Nat) (T : List Nat) : h.read r T = gatherF (absArr (h.objs r).data) T := rfl

/-- `a[sl] = a[sl]` changes nothing -/
theorem writeList_self (d : List GI) (T : List Nat) : writeList d T (T.map fun p => d.getD p 0) = d := by
  suffices h : ∀ (d0 d : List GI), d = d0 → writeList d T (T.map fun p => d0.getD p 0) = d0 from h d d rfl
  induction T with
  | nil => intro d0 d h; simpa using h
  | cons i is ih =>
    intro d0 d h
    subst h
    simp only [List.map_cons, writeList_cons]
    apply ih
    apply List.ext_getElem
    · simp
    · intro n h1 h2
      by_cases hn : i = n
      · subst hn
        simp [List.getD_eq_getElem?_getD, (by simpa using h1 : i < d.length)]
      · simp [List.getElem_set_ne hn]

/-- overwriting the whole buffer -/
theorem writeList_range_full (d vals : List GI) (h : vals.length = d.length) :
    writeList d (List.range d.length) vals = vals := by
  apply List.ext_getElem
  · simp [h]
  · intro n h1 h2
    have hn : n < d.length := by simpa using h1
    have := writeList_getD_of_nodup d (List.range d.length) vals List.nodup_range n (by simpa using hn) (by omega)
      (by rw [getD_range _ _ hn]; exact hn)
    rw [getD_range _ _ hn] at this
    simpa [List.getD_eq_getElem?_getD, hn, h2, h1] using this

/-! ## values written by the slice operations (any nesting depth, view path and copy-and-write-back path) -/

theorem getField_slice_val {f : Fld} {w : World} {r : Nat} {p : SigRef} {sp : SliceSpec} {T shp' : List Nat}
    (hs : NSel f w r p sp T shp') :
    getField f w (.slice p sp) = if sp.isView = true then .ok (w, .view r T shp')
      else .ok ({ w with heap := (w.heap.alloc ⟨(w.heap.objs r).cplx, shp', w.heap.read r T⟩).1 }, .arr w.heap.next) := by
  obtain ⟨b, idx, shp, pos, hg0, hb, hav, hsel, hz, hT⟩ := hs.unpack
  rw [getField_slice_eq sp hg0 hb, getItem_sel hav hsel hz]
  subst hT
  by_cases hview : sp.isView = true
  · rw [if_pos hview, if_pos hview]
  · rw [if_neg hview, if_neg hview]

theorem writeField_ok {f : Fld} {w : World} {r : Nat} {p : SigRef} {sp : SliceSpec} {T shp' : List Nat} {v : PVal} {vals : List GI}
    (hs : NSel f w r p sp T shp') (hp : prepSrc (w.heap.objs r).cplx shp' (v.src w.heap) = .ok vals) :
    writeField f w p sp v = ({ w with heap := w.heap.write r T vals }, none) := by
  obtain ⟨b, idx, shp, pos, hg, hb, hav, hsel, hz, hT⟩ := hs.unpack
  unfold writeField
  rw [hg]
  simp only
  rw [setItem_eq sp v hav, prepSet_ok hsel (by rw [prepVal_eq]; exact hp)]
  subst hT
  rfl

theorem writeField_err {f : Fld} {w : World} {r : Nat} {p : SigRef} {sp : SliceSpec} {T shp' : List Nat} {v : PVal} {e : Err}
    (hs : NSel f w r p sp T shp') (hp : prepSrc (w.heap.objs r).cplx shp' (v.src w.heap) = .error e) :
    (writeField f w p sp v).1 = w := by
  obtain ⟨b, idx, shp, pos, hg, hb, hav, hsel, hz, hT⟩ := hs.unpack
  obtain ⟨e', he'⟩ := prepSet_err (h := w.heap) (v := v) hsel (by rw [prepVal_eq]; exact hp)
  unfold writeField
  rw [hg]
  simp only
  rw [setItem_eq sp v hav, he']

/-- `slice.sensitivity = None` stores 0 (this is how `SignalSlice.reset` clears) -/
def noneToZero : PVal → PVal
  | .none => .sc false 0
  | x => x

theorem setSens_slice_eq {w : World} {r : Nat} {p : SigRef} {sp : SliceSpec} {T shp' : List Nat} (v : PVal)
    (hs : NSel .sens w r p sp T shp') :
    setSens w (.slice p sp) v = writeField .sens w p sp (noneToZero v) := by
  obtain ⟨b, idx, shp, pos, hg, hb, hav, hsel, hz, hT⟩ := hs.unpack
  cases b <;> simp_all [setSens, PVal.asView] <;> (cases v <;> rfl)

theorem addSlice_eq_addTail {w : World} {r : Nat} {p : SigRef} {sp : SliceSpec} {T shp' : List Nat} {ds : PVal}
    (hs : NSel .sens w r p sp T shp') (hds : ds ≠ .none) : addSlice w p sp ds = addTail w p sp ds := by
  obtain ⟨b, idx, shp, pos, hg, hb, hav, hsel, hz, hT⟩ := hs.unpack
  cases ds <;> cases b <;> simp_all [addSlice, initSens, PVal.asView]

theorem src_alloc {h : Heap} {v : PVal} (o : Obj) (hb : ∀ b, v.buf = some b → b < h.next) :
    v.src (h.alloc o).1 = v.src h := by
  cases v with
  | arr r =>
    have := hb r rfl
    simp [PVal.src, alloc_objs_old _ _ _ (Nat.ne_of_lt this)]
  | view r idx shp =>
    have := hb r rfl
    simp [PVal.src, Heap.read, alloc_objs_old _ _ _ (Nat.ne_of_lt this)]
  | _ => rfl

/-- the NSel facts survive an allocation -/
theorem NSel.alloc {f : Fld} {w : World} {r : Nat} {p : SigRef} {sp : SliceSpec} {T shp' : List Nat}
    (hs : NSel f w r p sp T shp') (hr : r < w.heap.next) (o : Obj) :
    NSel f { w with heap := (w.heap.alloc o).1 } r p sp T shp' :=
  hs.step (N := w.heap.next) (T' := T) ⟨rfl, rfl, rfl, Frame.alloc _ _ _ _ _ hr (Nat.le_refl _)⟩

/-- slice reset: the entries `T` of the root sensitivity become 0 (every index kind) -/
theorem resetSlice_val {w : World} {r : Nat} {p : SigRef} {sp : SliceSpec} {T shp' : List Nat}
    (hs : NSel .sens w r p sp T shp') (hr : r < w.heap.next) :
    (resetSlice w p sp).2 = none ∧
    ((resetSlice w p sp).1.heap.objs r).data = writeList (w.heap.objs r).data T (List.replicate (prod shp') 0) := by
  have hz : ∀ (h : Heap) (tc : Bool), prepSrc tc shp' ((PVal.sc false 0).src h) = .ok (List.replicate (prod shp') 0) := by
    intro h tc; simp [prepSrc, PVal.src]
  unfold resetSlice
  rw [getField_slice_val hs]
  by_cases hview : sp.isView = true
  · rw [if_pos hview]
    simp only
    rw [setSens_slice_eq .none hs]; simp only [noneToZero]; rw [writeField_ok hs (hz _ _)]
    exact ⟨rfl, by simp⟩
  · rw [if_neg hview]
    simp only
    have hs1 := hs.alloc hr ⟨(w.heap.objs r).cplx, shp', w.heap.read r T⟩
    rw [setSens_slice_eq .none hs1]; simp only [noneToZero]; rw [writeField_ok hs1 (hz _ _)]
    exact ⟨rfl, by simp [alloc_objs_old _ _ _ (Nat.ne_of_lt hr)]⟩

/-- `add_sensitivity` through a slice of any depth whose last index is a VIEW -/
theorem addTail_val_view {w : World} {r : Nat} {p : SigRef} {sp : SliceSpec} {T shp' : List Nat} {ds : PVal} {d : Src}
    (hs : NSel .sens w r p sp T shp') (hlen : T.length = prod shp') (hview : sp.isView = true)
    (hd : ds.src w.heap = some d) :
    ((addTail w p sp ds).1.heap.objs r).data =
      match addSrc (w.heap.objs r).cplx shp' (w.heap.read r T) d with
      | .ok vals => writeList (w.heap.objs r).data T vals
      | .error _ => (w.heap.objs r).data := by
  have hnz : shp' ≠ [] := by obtain ⟨_, _, _, _, _, _, _, _, hz, _⟩ := hs.unpack; exact hz
  have hg := getField_slice_val hs
  rw [if_pos hview] at hg
  have hi := iadd_eq (h := w.heap) (t := .view r T shp') (ds := ds) (r := r) (idx := T) (shp := shp') rfl hd
  unfold addTail
  simp only [hg, hi]
  cases ha : addSrc (w.heap.objs r).cplx shp' (w.heap.read r T) d with
  | error e => rfl
  | ok vals =>
    simp only
    have st : Step w.heap.next r T w { w with heap := w.heap.write r T vals } :=
      ⟨rfl, rfl, rfl, Frame.write _ _ _ _ _ _ (fun p hp => hp)⟩
    have hs7 := hs.step st
    have hp : prepSrc (({ w with heap := w.heap.write r T vals } : World).heap.objs r).cplx shp'
        ((PVal.view r T shp').src ({ w with heap := w.heap.write r T vals } : World).heap)
        = .ok ((w.heap.write r T vals).read r T) := by
      simp only [PVal.src]
      exact prepSrc_same hnz (by simp [Heap.read, hlen])
    rw [setSens_slice_eq _ hs7]; simp only [noneToZero]; rw [writeField_ok hs7 hp]
    simp only [write_objs_self, Heap.read]
    exact writeList_self _ _

/-- `add_sensitivity` through a slice of any depth whose last index is an integer array (copy, `+=` on the copy, write-back) -/
theorem addTail_val_copy {w : World} {r : Nat} {p : SigRef} {sp : SliceSpec} {T shp' : List Nat} {ds : PVal} {d : Src}
    (hs : NSel .sens w r p sp T shp') (hlen : T.length = prod shp') (hview : ¬ sp.isView = true) (hr : r < w.heap.next)
    (hd : ds.src w.heap = some d) (hb : ∀ b, ds.buf = some b → b < w.heap.next) :
    ((addTail w p sp ds).1.heap.objs r).data =
      match addSrc (w.heap.objs r).cplx shp' (w.heap.read r T) d with
      | .ok vals => writeList (w.heap.objs r).data T vals
      | .error _ => (w.heap.objs r).data := by
  have hnz : shp' ≠ [] := by obtain ⟨_, _, _, _, _, _, _, _, hz, _⟩ := hs.unpack; exact hz
  -- the two getter calls: two copies
  let o : Obj := ⟨(w.heap.objs r).cplx, shp', w.heap.read r T⟩
  let w5 : World := { w with heap := (w.heap.alloc o).1 }
  have hs5 : NSel .sens w5 r p sp T shp' := hs.alloc hr o
  have hr5 : w5.heap.objs r = w.heap.objs r := alloc_objs_old _ _ _ (Nat.ne_of_lt hr)
  have hg5 : getField .sens w (.slice p sp) = .ok (w5, .arr w.heap.next) := by
    rw [getField_slice_val hs, if_neg hview]
  let w6 : World := { w5 with heap := (w5.heap.alloc o).1 }
  have hr5' : r < w5.heap.next := Nat.lt_succ_of_lt hr
  have hs6 : NSel .sens w6 r p sp T shp' := hs5.alloc hr5' o
  have hr6 : w6.heap.objs r = w.heap.objs r := by
    rw [← hr5]; exact alloc_objs_old _ _ _ (Nat.ne_of_lt hr5')
  have hg6 : getField .sens w5 (.slice p sp) = .ok (w6, .arr w5.heap.next) := by
    rw [getField_slice_val hs5, if_neg hview]
    simp only [hr5, Heap.read, w6, o]
  have hc6 : w6.heap.objs w5.heap.next = o := alloc_objs_new _ _
  have hd6 : ds.src w6.heap = some d := by
    rw [src_alloc o (fun b hb' => Nat.lt_succ_of_lt (hb b hb')), src_alloc o hb, hd]
  have hi := iadd_eq (h := w6.heap) (t := .arr w5.heap.next) (ds := ds) (r := w5.heap.next)
    (idx := List.range (w6.heap.objs w5.heap.next).data.length) (shp := (w6.heap.objs w5.heap.next).shape) rfl hd6
  have hcur : w6.heap.read w5.heap.next (List.range (w6.heap.objs w5.heap.next).data.length) = w.heap.read r T := by
    simp only [Heap.read, hc6]
    exact map_getD_range_self _
  rw [hcur, hc6] at hi
  unfold addTail
  simp only [hg5, hg6, hi]
  cases ha : addSrc (w.heap.objs r).cplx shp' (w.heap.read r T) d with
  | error e => simp only; exact congrArg Obj.data hr6
  | ok vals =>
    simp only [o]
    have hvl : vals.length = T.length := by
      have := addSrc_length (by simp [Heap.read, hlen]) ha
      simpa [Heap.read] using this
    have hne : r ≠ w5.heap.next := Nat.ne_of_lt hr5'
    let h7 : Heap := w6.heap.write w5.heap.next (List.range o.data.length) vals
    have st : Step w5.heap.next r T w6 { w6 with heap := h7 } :=
      ⟨rfl, rfl, rfl, Frame.write_fresh _ _ _ _ _ _ _ hr5' (Nat.le_refl _)⟩
    have hs7 := hs6.step st
    have hr7 : h7.objs r = w.heap.objs r := by
      simp only [h7, write_objs_ne _ _ _ _ _ hne]; exact hr6
    have hp : prepSrc (({ w6 with heap := h7 } : World).heap.objs r).cplx shp'
        ((PVal.arr w5.heap.next).src ({ w6 with heap := h7 } : World).heap) = .ok vals := by
      simp only [PVal.src, h7, write_objs_self, hc6, hr7]
      rw [writeList_range_full _ _ (by simp [o, Heap.read, hvl])]
      exact prepSrc_same hnz (by rw [hvl, hlen])
    have e7 : setSens { w6 with heap := h7 } (.slice p sp) (.arr w5.heap.next) =
        ({ w6 with heap := h7.write r T vals }, none) := by
      rw [setSens_slice_eq _ hs7]; simp only [noneToZero]; rw [writeField_ok hs7 hp]
    show ((setSens { w6 with heap := h7 } (.slice p sp) (.arr w5.heap.next)).1.heap.objs r).data = _
    rw [e7]
    simp only [write_objs_self, hr7]

theorem addSlice_val {w : World} {r : Nat} {p : SigRef} {sp : SliceSpec} {T shp' : List Nat} {ds : PVal} {d : Src}
    (hs : NSel .sens w r p sp T shp') (hlen : T.length = prod shp') (hr : r < w.heap.next)
    (hd : ds.src w.heap = some d) (hb : ∀ b, ds.buf = some b → b < w.heap.next) :
    ((addSlice w p sp ds).1.heap.objs r).data =
      match addSrc (w.heap.objs r).cplx shp' (w.heap.read r T) d with
      | .ok vals => writeList (w.heap.objs r).data T vals
      | .error _ => (w.heap.objs r).data := by
  have hds : ds ≠ .none := by rintro rfl; simp [PVal.src] at hd
  rw [addSlice_eq_addTail hs hds]
  by_cases hview : sp.isView = true
  · exact addTail_val_view hs hlen hview hd
  · exact addTail_val_copy hs hlen hview hr hd hb

end PymotoVerif.Signal
