/- helper lemmas for C05 (direct solvers and CG) -/
import PymotoVerif.LA.CG
import Mathlib.Tactic.Ring
import Mathlib.Tactic.FieldSimp

namespace PymotoVerif.LA
open Matrix

section
variable {α : Type*} [Field α] [StarRing α] {n k m l : ℕ}

/-- contract of `scipy.linalg.solve_triangular(M, ·, lower, unit_diagonal, trans)` for ONE matrix `M` that really is
    triangular of the announced kind and invertible: it solves `op_trans(M) x = B` for every mode and rhs -/
def TriOK (tri : TriSolve α n k) (M : Mat n n α) (lower unitDiag : Bool) : Prop :=
  ∀ (t : Trans) (B : Mat n k α), opT t M * tri M lower unitDiag t B = B

theorem TriOK.N {tri : TriSolve α n k} {M : Mat n n α} {lo un : Bool} (h : TriOK tri M lo un) (B : Mat n k α) :
    M * tri M lo un .N B = B := h .N B
theorem TriOK.T {tri : TriSolve α n k} {M : Mat n n α} {lo un : Bool} (h : TriOK tri M lo un) (B : Mat n k α) :
    Mᵀ * tri M lo un .T B = B := h .T B
theorem TriOK.H {tri : TriSolve α n k} {M : Mat n n α} {lo un : Bool} (h : TriOK tri M lo un) (B : Mat n k α) :
    Mᴴ * tri M lo un .H B = B := h .H B

theorem conjM_mul (M : Mat n m α) (N : Mat m l α) : conjM (M * N) = conjM M * conjM N := by
  ext i j
  simp [conjM, Matrix.mul_apply, star_sum, mul_comm]

@[simp] theorem conjM_conjM (M : Mat n m α) : conjM (conjM M) = M := by
  ext i j; simp [conjM]

@[simp] theorem conjM_one : conjM (1 : Mat n n α) = 1 := by
  ext i j; simp [conjM, Matrix.one_apply]; split <;> simp

theorem conjM_conjTranspose (M : Mat n m α) : conjM Mᴴ = Mᵀ := by
  ext i j; simp [conjM]
theorem conjTranspose_eq_conjM_transpose (M : Mat n m α) : Mᴴ = conjM Mᵀ := by
  ext i j; simp [conjM]
theorem transpose_conjTranspose' (M : Mat n m α) : Mᴴᵀ = conjM M := by
  ext i j; simp [conjM]
theorem conjTranspose_transpose' (M : Mat n m α) : Mᵀᴴ = conjM M := by
  ext i j; simp [conjM]
theorem transpose_conjM (M : Mat n m α) : (conjM M)ᵀ = Mᴴ := by
  ext i j; simp [conjM]

/-- `u[p] = y` followed by reading the rows `p` gives back `y` when `p` is a permutation -/
theorem scatterRows_submatrix (p : Fin n → Fin n) (hp : Function.Injective p) (Y : Mat n k α) :
    (scatterRows p Y).submatrix p id = Y := by
  ext i j
  simp only [Matrix.submatrix_apply, scatterRows, id]
  cases h : (List.finRange n).reverse.find? (fun i' => decide (p i' = p i)) with
  | none =>
    have := List.find?_eq_none.mp h i (by simp)
    simp at this
  | some a =>
    have := List.find?_some h
    have ha : a = i := hp (by simpa using this)
    simp [ha]

theorem eq_of_submatrix_rows {p : Fin n → Fin n} (hp : Function.Surjective p) {X Y : Mat n k α}
    (h : X.submatrix p id = Y.submatrix p id) : X = Y := by
  ext i j
  obtain ⟨i', rfl⟩ := hp i
  have := congrFun (congrFun h i') j
  simpa using this

theorem opT_submatrix (t : Trans) (A : Mat n n α) (p : Fin n → Fin n) :
    (opT t A).submatrix p p = opT t (A.submatrix p p) := by
  cases t <;> simp [opT, Matrix.transpose_submatrix, Matrix.conjTranspose_submatrix]

/-- permuting the unknowns: it suffices to solve the symmetrically permuted system -/
theorem solve_of_permuted (t : Trans) (A : Mat n n α) (p : Fin n → Fin n) (hp : Function.Bijective p)
    (Y B : Mat n k α) (h : opT t (A.submatrix p p) * Y = B.submatrix p id) :
    opT t A * scatterRows p Y = B := by
  apply eq_of_submatrix_rows hp.2
  have h1 : (opT t A * scatterRows p Y).submatrix p id
      = (opT t A).submatrix p p * (scatterRows p Y).submatrix p id :=
    Matrix.submatrix_mul _ _ p p id hp
  rw [h1, scatterRows_submatrix p hp.1, opT_submatrix, h]

end
end PymotoVerif.LA
