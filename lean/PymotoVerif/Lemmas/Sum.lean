/- bridge between the executable `sumRange` and Mathlib's `Finset.sum`, plus the generic
   gather/scatter adjoint -/
import PymotoVerif.Core.Base
import Mathlib.Algebra.BigOperators.Group.Finset.Basic
import Mathlib.Algebra.BigOperators.Ring.Finset
import Mathlib.Algebra.BigOperators.Intervals

namespace PymotoVerif
open Finset

theorem sumRange_eq {α} [AddCommMonoid α] (n : Nat) (f : Nat → α) :
    sumRange n f = ∑ i ∈ range n, f i := by
  induction n with
  | zero => simp [sumRange]
  | succ n ih => rw [sumRange, ih, Finset.sum_range_succ]

theorem scatterAdd_adjoint_gather {α} [CommSemiring α] (m n : Nat) (idx : Nat → Nat)
    (hidx : ∀ e, e < m → idx e < n) (w x : Nat → α) :
    sumRange m (fun e => w e * gather idx x e) = sumRange n (fun j => scatterAdd m idx w j * x j) := by
  simp only [sumRange_eq, scatterAdd, gather]
  simp only [Finset.sum_mul]
  rw [Finset.sum_comm]
  apply Finset.sum_congr rfl
  intro e he
  have he' : idx e < n := hidx e (Finset.mem_range.mp he)
  simp only [ite_mul, zero_mul]
  rw [Finset.sum_ite_eq]
  simp [he']

end PymotoVerif
