/- numpy broadcasting (`bcastIdx`) versus the reverse broadcast of `MathGeneral._sensitivity` (`bmask`, `reduceKeep`) -/
import PymotoVerif.Core.Einsum
import PymotoVerif.Lemmas.Einsum
import Mathlib.Data.List.Forall2

namespace PymotoVerif.Einsum
open PymotoVerif

/-- `s` broadcasts to `S` in numpy's sense: `S` = some leading extents followed by extents aligned with `s`, where every extent
    of `s` equals the one of `S` or is 1 -/
def BroadcastsTo (s S : List Nat) : Prop :=
  ∃ lead T, S = lead ++ T ∧ List.Forall₂ (fun d D => d = D ∨ d = 1) s T

theorem BroadcastsTo.length_le {s S : List Nat} (h : BroadcastsTo s S) : s.length ≤ S.length := by
  obtain ⟨lead, T, rfl, hf⟩ := h
  rw [List.length_append, hf.length_eq]; omega

theorem broadcastsTo_nil {s : List Nat} (h : BroadcastsTo s []) : s = [] := by
  have := h.length_le
  exact List.eq_nil_of_length_eq_zero (by simpa using this)

theorem broadcastsTo_refl (s : List Nat) : BroadcastsTo s s :=
  ⟨[], s, rfl, by induction s with
    | nil => exact .nil
    | cons d s ih => exact .cons (Or.inl rfl) ih⟩

theorem broadcastsTo_scalar (S : List Nat) : BroadcastsTo [] S := ⟨S, [], by simp, .nil⟩

/-- the two ways an extent of `S` can be peeled off -/
theorem broadcastsTo_cons {s S' : List Nat} {D : Nat} (h : BroadcastsTo s (D :: S')) :
    (s.length ≤ S'.length ∧ BroadcastsTo s S') ∨
    (∃ d s', s = d :: s' ∧ s'.length = S'.length ∧ (d = D ∨ d = 1) ∧ BroadcastsTo s' S') := by
  obtain ⟨lead, T, hS, hf⟩ := h
  cases lead with
  | nil =>
    right
    simp only [List.nil_append] at hS
    subst hS
    cases hf with
    | cons h1 h2 => exact ⟨_, _, rfl, h2.length_eq, h1, [], _, rfl, h2⟩
  | cons L lead =>
    left
    simp only [List.cons_append, List.cons.injEq] at hS
    obtain ⟨_, rfl⟩ := hS
    exact ⟨by rw [List.length_append, hf.length_eq]; omega, lead, T, rfl, hf⟩

theorem bmask_lead (s S' : List Nat) (D : Nat) (h : s.length ≤ S'.length) : bmask s (D :: S') = true :: bmask s S' := by
  unfold bmask
  have h1 : (D :: S').length - s.length = (S'.length - s.length) + 1 := by
    simp only [List.length_cons]; omega
  simp only [h1, List.replicate_succ, List.drop_succ_cons, List.cons_append]

theorem bmask_aligned (s' S' : List Nat) (d D : Nat) (h : s'.length = S'.length) :
    bmask (d :: s') (D :: S') = (d == 1 && D != 1) :: bmask s' S' := by
  unfold bmask
  simp [h]

theorem keepShape_bmask {s S : List Nat} (h : BroadcastsTo s S) :
    keepShape S (bmask s S) = List.replicate (S.length - s.length) 1 ++ s := by
  induction S generalizing s with
  | nil => rw [broadcastsTo_nil h]; simp [keepShape]
  | cons D S' ih =>
    rcases broadcastsTo_cons h with ⟨hl, hb⟩ | ⟨d, s', rfl, hl, hd, hb⟩
    · rw [bmask_lead s S' D hl]
      have h1 : (D :: S').length - s.length = (S'.length - s.length) + 1 := by
        simp only [List.length_cons]; omega
      simp only [keepShape, if_true, ih hb, h1, List.replicate_succ, List.cons_append]
    · rw [bmask_aligned s' S' d D hl]
      have h1 : (D :: S').length - (d :: s').length = 0 := by simp [hl]
      have h2 : S'.length - s'.length = 0 := by simp [hl]
      simp only [keepShape, ih hb, h1, h2, List.replicate_zero, List.nil_append, List.cons.injEq, and_true]
      by_cases hc : d = 1 ∧ D ≠ 1
      · simp [hc.1, hc.2]
      · have hD : D = d := by
          rcases hd with h | h
          · exact h.symm
          · by_contra hne
            exact hc ⟨h, fun hD1 => hne (hD1.trans h.symm)⟩
        have : (d == 1 && D != 1) = false := by
          rcases Bool.eq_false_or_eq_true (d == 1 && D != 1) with h | h
          · exfalso
            simp only [Bool.and_eq_true, beq_iff_eq, bne_iff_ne, ne_eq] at h
            exact hc h
          · exact h
        simp [hD]

theorem prodL_replicate_one (n : Nat) (s : List Nat) : prodL (List.replicate n 1 ++ s) = prodL s := by
  induction n with
  | zero => rfl
  | succ n ih => simp [List.replicate_succ, prodL, ih]

theorem prodL_keepShape {s S : List Nat} (h : BroadcastsTo s S) : prodL (keepShape S (bmask s S)) = prodL s := by
  rw [keepShape_bmask h, prodL_replicate_one]

theorem split_mod (J p K' : Nat) (h : K' < p) : (J * p + K') % p = K' := by
  rw [Nat.add_comm, Nat.add_mul_mod_self_right, Nat.mod_eq_of_lt h]

theorem split_div (J p K' : Nat) (h : K' < p) : (J * p + K') / p = J := by
  have hp : 0 < p := Nat.lt_of_le_of_lt (Nat.zero_le _) h
  rw [Nat.add_comm, Nat.add_mul_div_right _ _ hp, Nat.div_eq_of_lt h, Nat.zero_add]

theorem bcastIdx_nil (S : List Nat) (K : Nat) : bcastIdx [] S K = 0 := by
  induction S generalizing K with
  | nil => rfl
  | cons D S' ih => simp [bcastIdx, ih]

theorem bcastIdx_self (s : List Nat) (K : Nat) (h : K < prodL s) : bcastIdx s s K = K := by
  induction s generalizing K with
  | nil => simp only [prodL] at h; simp only [bcastIdx]; omega
  | cons d s' ih =>
    simp only [prodL] at h
    have hp : 0 < prodL s' := by
      rcases Nat.eq_zero_or_pos (prodL s') with h0 | h0
      · rw [h0, Nat.mul_zero] at h; exact absurd h (Nat.not_lt_zero _)
      · exact h0
    have hlen : ¬ (d :: s').length ≤ s'.length := by simp
    simp only [bcastIdx, hlen, if_false]
    rw [ih _ (Nat.mod_lt _ hp)]
    by_cases hd : d = 1
    · subst hd
      rw [Nat.one_mul] at h
      simp [Nat.mod_eq_of_lt h]
    · simp only [hd, if_false]
      exact Nat.div_add_mod' K (prodL s')

section core
variable {α : Type} [CommRing α]

/-- the coded reduction is the adjoint of numpy broadcasting (all broadcast-compatible shape pairs) -/
theorem reduceKeep_adjoint_bcast {s S : List Nat} (h : BroadcastsTo s S) (w x : Nat → α) :
    sumRange (prodL S) (fun K => w K * x (bcastIdx s S K))
      = sumRange (prodL s) (fun k => reduceKeep S (bmask s S) w k * x k) := by
  induction S generalizing s w x with
  | nil =>
    rw [broadcastsTo_nil h]
    simp [prodL, sumRange, bcastIdx, reduceKeep]
  | cons D S' ih =>
    rcases broadcastsTo_cons h with ⟨hl, hb⟩ | ⟨d, s', rfl, hl, hd, hb⟩
    · -- a leading axis of the contribution: summed away
      rw [bmask_lead s S' D hl]
      simp only [prodL, reduceKeep, if_true]
      rw [sumRange_mul_split]
      have h1 : ∀ J, J < D → sumRange (prodL S') (fun K' => w (J * prodL S' + K') * x (bcastIdx s (D :: S') (J * prodL S' + K')))
          = sumRange (prodL s) (fun k => reduceKeep S' (bmask s S') (fun K' => w (J * prodL S' + K')) k * x k) := by
        intro J _
        rw [← ih hb]
        apply sumRange_congr; intro K' hK'
        simp only [bcastIdx, hl, if_true, split_mod J _ K' hK']
      rw [sumRange_congr _ _ _ h1, sumRange_comm]
      apply sumRange_congr; intro k hk
      rw [prodL_keepShape hb, Nat.mod_eq_of_lt hk]
      simp only [sumRange_eq, Finset.sum_mul]
    · -- an axis aligned with the input
      rw [bmask_aligned s' S' d D hl]
      have hlen : ¬ (d :: s').length ≤ S'.length := by simp [hl]
      have hLHS : sumRange (prodL (D :: S')) (fun K => w K * x (bcastIdx (d :: s') (D :: S') K))
          = sumRange D (fun J => sumRange (prodL s') (fun k =>
              reduceKeep S' (bmask s' S') (fun K' => w (J * prodL S' + K')) k
                * x ((if d = 1 then 0 else J) * prodL s' + k))) := by
        simp only [prodL]
        rw [sumRange_mul_split]
        apply sumRange_congr; intro J _
        rw [← ih hb (fun K' => w (J * prodL S' + K')) (fun k => x ((if d = 1 then 0 else J) * prodL s' + k))]
        apply sumRange_congr; intro K' hK'
        simp only [bcastIdx, hlen, if_false, split_mod J _ K' hK', split_div J _ K' hK']
      rw [hLHS]
      by_cases hc : d = 1 ∧ D ≠ 1
      · -- input extent 1, contribution extent ≠ 1: summed with keepdims
        obtain ⟨hd1, hD1⟩ := hc
        subst hd1
        have hm : ((1 : Nat) == 1 && D != 1) = true := by simp [hD1]
        simp only [hm, prodL, reduceKeep, if_true, Nat.one_mul, Nat.zero_mul, Nat.zero_add]
        rw [sumRange_comm]
        apply sumRange_congr; intro k hk
        rw [prodL_keepShape hb, Nat.mod_eq_of_lt hk]
        simp only [sumRange_eq, Finset.sum_mul]
      · -- equal extents: kept
        have hD : D = d := by
          rcases hd with h | h
          · exact h.symm
          · by_contra hne
            exact hc ⟨h, fun hD1 => hne (hD1.trans h.symm)⟩
        subst hD
        have hm : (D == 1 && D != 1) = false := by
          rcases Bool.eq_false_or_eq_true (D == 1 && D != 1) with h | h
          · exfalso
            simp only [Bool.and_eq_true, beq_iff_eq, bne_iff_ne, ne_eq] at h
            exact h.2 h.1
          · exact h
        simp only [hm, prodL, reduceKeep, Bool.false_eq_true, if_false]
        rw [sumRange_mul_split]
        apply sumRange_congr; intro J hJ
        apply sumRange_congr; intro k hk
        rw [prodL_keepShape hb, split_mod J _ k hk, split_div J _ k hk]
        by_cases hD1 : D = 1
        · have : J = 0 := by omega
          simp [hD1, this]
        · simp [hD1]

end core
end PymotoVerif.Einsum
