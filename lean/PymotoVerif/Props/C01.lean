/-
C01 — Every module's sensitivity is the exact adjoint of its response.

This file holds the adjoint theorems of the modules that have no vertical of their own (complex-number modules,
Scaling, ConcatSignal).  The adjoint / derivative theorems of the other module families live with their models and are
audited as part of this property (list `EXTRA_THEOREMS` in harness/props/c01.py):
  FilterConv, DensityFilter      Props/C09  filterConv_adjoint, densityFilter_adjoint
  PNorm, KS, SoftMinMax          Props/C16  *_sensitivity_is_derivative
  Element/NodalOperation         Props/C12  nodalOp_eq_transpose_elemOp
  OverhangFilter                 Props/C14  overhang_sens_is_backprop_partial + derivative atoms
  dispatch + polynomial kinds    Props/C02  module_sensitivity_is_back, local_adjoint_is_transposed_jacobian
  LinSolve, Inverse, SoE, StaticCondensation, EigenSolve   Props/C07, Props/C11 (linearised-constraint form)
Pairing: `Re (g * v)` without conjugation (the convention of finite_difference).
-/
import PymotoVerif.Core.Pointwise
import PymotoVerif.Lemmas.Sum
import Mathlib.Tactic.Ring
import Mathlib.Tactic.FieldSimp
import Mathlib.Tactic.Linarith
import Mathlib.Analysis.SpecialFunctions.Sqrt
import Mathlib.Analysis.Calculus.Deriv.Add
import Mathlib.Analysis.Calculus.Deriv.Mul

namespace PymotoVerif.C01
open PymotoVerif PymotoVerif.Pointwise

section ring
variable {α : Type} [CommRing α]

/-- MakeComplex (linear): seed `w` (complex), direction `(vx, vy)` of the two real inputs -/
theorem makeComplex_adjoint (w : Cx α) (vx vy : α) :
    pairC w (makeComplex vx vy) = (makeComplexSens w).1 * vx + (makeComplexSens w).2 * vy := by
  simp only [pairC, makeComplex, makeComplexSens]; ring

/-- MakeComplex is additive, so the directional derivative of the response is the response of the direction -/
theorem makeComplex_linear (x y vx vy : α) :
    makeComplex (x + vx) (y + vy) = ⟨(makeComplex x y).re + (makeComplex vx vy).re,
                                      (makeComplex x y).im + (makeComplex vx vy).im⟩ := rfl

/-- RealPart (real-linear): any (complex) seed `dx` on the real output, complex direction `v` -/
theorem realPart_adjoint (dx v : Cx α) : dx.re * realPart v = pairC (realPartSens dx) v := by
  simp only [pairC, realPart, realPartSens]; ring

/-- ImagPart (real-linear): real seed `a` on the real output, complex direction `v` -/
theorem imagPart_adjoint (a : α) (v : Cx α) : a * imagPart v = pairC (imagPartSens ⟨a, 0⟩) v := by
  simp only [pairC, imagPart, imagPartSens]; ring

/-- what the code does with a COMPLEX seed on ImagPart's real output: the extra term `b * Re v`
    (sensitivities of real-valued signals are real everywhere else in pyMOTO; `RealPart` takes the real part) -/
theorem imagPart_complex_seed (dy v : Cx α) :
    pairC (imagPartSens dy) v = dy.re * imagPart v + dy.im * v.re := by
  simp only [pairC, imagPart, imagPartSens]; ring

/-- ConcatSignal: splitting is the adjoint of concatenating (pairing over all `N = Σ lens` entries) -/
theorem concatGo_adjoint (xs : Nat → Nat → α) (w : Nat → α) (lens : List Nat) (i0 off : Nat) :
    sumRange (lens.foldl (· + ·) 0) (fun k => w (off + k) * concatGo xs lens i0 k)
      = sumRange lens.length (fun i => sumRange (lens.getD i 0)
          (fun j => w (off + offsetOf lens i + j) * xs (i0 + i) j)) := by
  induction lens generalizing i0 off with
  | nil => simp [sumRange]
  | cons n rest ih =>
    have hfold : ∀ (l : List Nat) (a : Nat), l.foldl (· + ·) a = a + l.foldl (· + ·) 0 := by
      intro l; induction l with
      | nil => intro a; simp
      | cons b t iht => intro a; simp only [List.foldl_cons]; rw [iht (a + b), iht (0 + b)]; omega
    simp only [List.foldl_cons, List.length_cons]
    rw [hfold rest (0 + n)]
    simp only [sumRange_eq]
    rw [Nat.zero_add, Finset.sum_range_add, Finset.sum_range_succ', add_comm]
    congr 1
    · -- later parts: shift by n
      have := ih (i0 + 1) (off + n)
      simp only [sumRange_eq] at this
      have h1 : ∀ k ∈ Finset.range (rest.foldl (· + ·) 0),
          w (off + (n + k)) * concatGo xs (n :: rest) i0 (n + k) = w (off + n + k) * concatGo xs rest (i0 + 1) k := by
        intro k _
        simp only [concatGo]
        rw [if_neg (by omega), Nat.add_sub_cancel_left, Nat.add_assoc]
      rw [Finset.sum_congr rfl h1, this]
      apply Finset.sum_congr rfl; intro i _
      have hoff : offsetOf (n :: rest) (i + 1) = n + offsetOf rest i := by
        simp only [offsetOf, List.take_succ_cons, List.foldl_cons]
        rw [hfold (rest.take i) (0 + n)]; omega
      simp only [List.getD_cons_succ, hoff]
      apply Finset.sum_congr rfl; intro j _
      congr 2 <;> omega
    · -- first part
      simp only [List.getD_cons_zero, offsetOf, List.take_zero, List.foldl_nil, Nat.add_zero]
      apply Finset.sum_congr rfl; intro k hk
      have hk' : k < n := Finset.mem_range.mp hk
      simp only [concatGo, if_pos hk']

theorem concat_adjoint (lens : List Nat) (xs : Nat → Nat → α) (w : Nat → α) :
    sumRange (lens.foldl (· + ·) 0) (fun k => w k * concat lens xs k)
      = sumRange lens.length (fun i => sumRange (lens.getD i 0) (fun j => concatSens lens w i j * xs i j)) := by
  have := concatGo_adjoint xs w lens 0 0
  simpa [concat, concatSens] using this

end ring

section field
variable {α : Type} [Field α]

/-- Scaling with its frozen scale factor is affine; its sensitivity is the adjoint of the linear part -/
theorem scaling_adjoint (mode : Nat) (sf lim x v w : α) (hlim : lim ≠ 0) :
    w * (scalingResp mode sf lim (x + v) - scalingResp mode sf lim x) = scalingSens mode sf lim w * v := by
  unfold scalingResp scalingSens
  split
  · field_simp; ring
  · split
    · field_simp; ring
    · ring

end field

/-! ### ComplexNorm over ℝ -/

/-- the coded sensitivity of `|z|` is the derivative of `a·|z + t v|` at `t = 0` (`z ≠ 0`, real seed `a`) -/
theorem complexNorm_adjoint (x y vx vy a : ℝ) (hz : x * x + y * y ≠ 0) :
    HasDerivAt (fun t : ℝ => a * complexNorm Real.sqrt ⟨x + t * vx, y + t * vy⟩)
      (pairC (complexNormSens (complexNorm Real.sqrt ⟨x, y⟩) ⟨x, y⟩ ⟨a, 0⟩) ⟨vx, vy⟩) 0 := by
  unfold complexNorm complexNormSens pairC
  simp only
  have hpos : 0 < x * x + y * y := by
    have : 0 ≤ x * x + y * y := by nlinarith [mul_self_nonneg x, mul_self_nonneg y]
    exact lt_of_le_of_ne this (Ne.symm hz)
  have hinner : HasDerivAt (fun t : ℝ => (x + t * vx) * (x + t * vx) + (y + t * vy) * (y + t * vy))
      (2 * (x * vx + y * vy)) 0 := by
    have hx : HasDerivAt (fun t : ℝ => x + t * vx) vx 0 := by
      simpa using ((hasDerivAt_id (0 : ℝ)).mul_const vx).const_add x
    have hy : HasDerivAt (fun t : ℝ => y + t * vy) vy 0 := by
      simpa using ((hasDerivAt_id (0 : ℝ)).mul_const vy).const_add y
    have h := (hx.mul hx).add (hy.mul hy)
    refine h.congr_deriv ?_
    simp; ring
  have h0 : (x + 0 * vx) * (x + 0 * vx) + (y + 0 * vy) * (y + 0 * vy) = x * x + y * y := by ring
  have hs := hinner.sqrt (by simpa using hz)
  have hfin := hs.const_mul a
  refine hfin.congr_deriv ?_
  simp only [h0]
  have hsq : Real.sqrt (x * x + y * y) ≠ 0 := (Real.sqrt_pos.mpr hpos).ne'
  field_simp
  ring

/-! ### non-vacuity -/
example : (0 : ℝ) < 3 * 3 + 4 * 4 := by norm_num
example : scalingResp 1 (2 : ℚ) 4 2 = 1 := by norm_num [scalingResp]
example : concat [2, 1] (fun i j => (10 * i + j : ℤ)) 2 = 10 := by decide

end PymotoVerif.C01
