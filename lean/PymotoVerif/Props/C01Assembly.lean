/-
C01 (assembly / element-operation family) — the sensitivity is the exact adjoint of the response.
Property theorems ONLY (helper lemmas: `Lemmas/AssemblyAdj.lean` and the C08/C12 lemma files).

The sensitivity models in `Core/Assembly.lean` MIRROR the code's `_sensitivity` methods
(`assembleSensDense`: zero the bc rows/cols of the dense seed in place, then per element
`einsum("ij,ij->", elmat, seed[indu, indv])`; `assembleSensDyad`: zero the stored vectors of the carrier,
then `contract(elmat, dofconn, dofconn)`; `elemOpSens`: `einsum('...k,...l->lk')` + `np.add.at`;
`nodalOpSens`: `einsum('...k,lk->...l')` on the gathered seed) — they are NOT defined as transposes of
the response models; that they are the adjoints is what is proved here.
Pairing: plain `Σ` of products (no conjugation), over any commutative ring (so real and complex data).
The closed form of the assembled matrix used in the proofs (`assemble_closed`) is `C08.assemble_eq_scaled_sum`.
-/
import PymotoVerif.Lemmas.AssemblyAdj
import Mathlib.Data.Rat.Init

namespace PymotoVerif.C01Assembly
open PymotoVerif PymotoVerif.Domain PymotoVerif.Assembly Finset Dom

section assembly
variable {α : Type} [CommRing α]

/-- **AssembleGeneral, dense seed**: for every connectivity table (entries `< n`), element matrix, bc list,
    `bcdiagval`, constant, scaling `x`, direction `v` and seed `W`:
    `⟨W, A(x+v) − A(x)⟩ = ⟨sens(W), v⟩` — the constant and the bc diagonal drop out -/
theorem assemble_adjoint_dense (nel m n : Nat) (dc : Nat → Nat → Nat) (hdc : ∀ e b, e < nel → b < m → dc e b < n)
    (elmat : Nat → Nat → α) (x v : Nat → α) (bc : Option (List Nat)) (bcd : α) (addc : Option (Nat → Nat → α))
    (W : Nat → Nat → α) :
    ∑ r ∈ range n, ∑ c ∈ range n, W r c *
        (assemble nel m dc elmat (fun e => x e + v e) bc bcd addc r c - assemble nel m dc elmat x bc bcd addc r c)
      = ∑ e ∈ range nel, assembleSensDense m dc elmat bc id W e * v e := by
  have a1 := assemble_pair nel m n dc hdc elmat (fun e => x e + v e) bc bcd addc W
  have a0 := assemble_pair nel m n dc hdc elmat x bc bcd addc W
  have : ∑ r ∈ range n, ∑ c ∈ range n, W r c *
        (assemble nel m dc elmat (fun e => x e + v e) bc bcd addc r c - assemble nel m dc elmat x bc bcd addc r c)
      = (∑ r ∈ range n, ∑ c ∈ range n, W r c * assemble nel m dc elmat (fun e => x e + v e) bc bcd addc r c)
        - ∑ r ∈ range n, ∑ c ∈ range n, W r c * assemble nel m dc elmat x bc bcd addc r c := by
    rw [← Finset.sum_sub_distrib]
    apply Finset.sum_congr rfl; intro r _
    rw [← Finset.sum_sub_distrib]
    apply Finset.sum_congr rfl; intro c _
    ring
  rw [this, a1, a0, add_sub_add_right_eq_sub, ← Finset.sum_sub_distrib]
  apply Finset.sum_congr rfl; intro e _
  ring

/-- the same on a `DomainDefinition`: all grids, all dofs per node -/
theorem assembleDom_adjoint_dense (d : Dom) (ndof : Nat) (elmat : Nat → Nat → α) (x v : Nat → α)
    (bc : Option (List Nat)) (bcd : α) (addc : Option (Nat → Nat → α)) (W : Nat → Nat → α) :
    ∑ r ∈ range (ndof * d.nnodes), ∑ c ∈ range (ndof * d.nnodes), W r c *
        (assembleDom d ndof elmat (fun e => x e + v e) bc bcd addc r c - assembleDom d ndof elmat x bc bcd addc r c)
      = ∑ e ∈ range d.nel, assembleSensDense (d.elemnodes * ndof) (d.dofConn ndof) elmat bc id W e * v e :=
  assemble_adjoint_dense d.nel (d.elemnodes * ndof) (ndof * d.nnodes) (d.dofConn ndof)
    (fun _ _ he hb => dofConn_lt d ndof he hb) elmat x v bc bcd addc W

/-- **AssembleGeneral, DyadCarrier seed** `W = Σ_k u_k v_kᵀ` (any number of dyads): the contraction the code
    performs after zeroing the bc entries of the stored vectors is the adjoint -/
theorem assemble_adjoint_dyad (nel m n : Nat) (dc : Nat → Nat → Nat) (hdc : ∀ e b, e < nel → b < m → dc e b < n)
    (elmat : Nat → Nat → α) (x v : Nat → α) (bc : Option (List Nat)) (bcd : α) (addc : Option (Nat → Nat → α))
    (nd : Nat) (us vs : Nat → Nat → α) :
    ∑ r ∈ range n, ∑ c ∈ range n, (∑ k ∈ range nd, us k r * vs k c) *
        (assemble nel m dc elmat (fun e => x e + v e) bc bcd addc r c - assemble nel m dc elmat x bc bcd addc r c)
      = ∑ e ∈ range nel, assembleSensDyad m dc elmat bc id nd us vs e * v e := by
  rw [assemble_adjoint_dense nel m n dc hdc elmat x v bc bcd addc]
  apply Finset.sum_congr rfl; intro e _
  rw [assembleSensDyad_eq_dense]

theorem assembleDom_adjoint_dyad (d : Dom) (ndof : Nat) (elmat : Nat → Nat → α) (x v : Nat → α)
    (bc : Option (List Nat)) (bcd : α) (addc : Option (Nat → Nat → α)) (nd : Nat) (us vs : Nat → Nat → α) :
    ∑ r ∈ range (ndof * d.nnodes), ∑ c ∈ range (ndof * d.nnodes), (∑ k ∈ range nd, us k r * vs k c) *
        (assembleDom d ndof elmat (fun e => x e + v e) bc bcd addc r c - assembleDom d ndof elmat x bc bcd addc r c)
      = ∑ e ∈ range d.nel, assembleSensDyad (d.elemnodes * ndof) (d.dofConn ndof) elmat bc id nd us vs e * v e :=
  assemble_adjoint_dyad d.nel (d.elemnodes * ndof) (ndof * d.nnodes) (d.dofConn ndof)
    (fun _ _ he hb => dofConn_lt d ndof he hb) elmat x v bc bcd addc nd us vs

/-- real `x` with complex data (`np.real(dxi) if np.isrealobj(dx)`): for an additive "real part" `re` that
    commutes with multiplication by the entries of the (real) direction `v`,
    `re ⟨W, A(x+v) − A(x)⟩ = ⟨sens(W), v⟩` with `post = re` -/
theorem assemble_adjoint_dense_realpart (nel m n : Nat) (dc : Nat → Nat → Nat)
    (hdc : ∀ e b, e < nel → b < m → dc e b < n)
    (elmat : Nat → Nat → α) (x v : Nat → α) (bc : Option (List Nat)) (bcd : α) (addc : Option (Nat → Nat → α))
    (W : Nat → Nat → α) (re : α → α) (h0 : re 0 = 0) (hadd : ∀ a b, re (a + b) = re a + re b)
    (hv : ∀ e z, re (z * v e) = re z * v e) :
    re (∑ r ∈ range n, ∑ c ∈ range n, W r c *
        (assemble nel m dc elmat (fun e => x e + v e) bc bcd addc r c - assemble nel m dc elmat x bc bcd addc r c))
      = ∑ e ∈ range nel, assembleSensDense m dc elmat bc re W e * v e := by
  rw [assemble_adjoint_dense nel m n dc hdc elmat x v bc bcd addc W]
  have hsum : ∀ (k : Nat) (f : Nat → α), re (∑ i ∈ range k, f i) = ∑ i ∈ range k, re (f i) := by
    intro k f
    induction k with
    | zero => simpa using h0
    | succ k ih => rw [Finset.sum_range_succ, Finset.sum_range_succ, hadd, ih]
  rw [hsum]
  apply Finset.sum_congr rfl; intro e _
  rw [hv]
  rfl

/-- **the in-place change of the seed is idempotent**: masking twice is masking once, hence a second
    `sensitivity()` call with the (already changed) seed object returns the same result — dense seed -/
theorem assemble_sens_seed_idempotent (m : Nat) (dc : Nat → Nat → Nat) (elmat : Nat → Nat → α)
    (bc : Option (List Nat)) (post : α → α) (W : Nat → Nat → α) :
    seedMask bc (seedMask bc W) = seedMask bc W ∧
    assembleSensDense m dc elmat bc post (seedMask bc W) = assembleSensDense m dc elmat bc post W := by
  have h : seedMask bc (seedMask bc W) = seedMask bc W := by
    funext r c
    rw [seedMask_eq, seedMask_eq]
    split <;> simp_all
  refine ⟨h, ?_⟩
  funext e
  unfold assembleSensDense
  rw [h]

/-- idempotence for the DyadCarrier seed (the stored vectors are zeroed in place) -/
theorem assemble_sens_seed_idempotent_dyad (m : Nat) (dc : Nat → Nat → Nat) (elmat : Nat → Nat → α)
    (bc : Option (List Nat)) (post : α → α) (nd : Nat) (us vs : Nat → Nat → α) :
    (∀ k, vecMask bc (vecMask bc (us k)) = vecMask bc (us k)) ∧
    assembleSensDyad m dc elmat bc post nd (fun k => vecMask bc (us k)) (fun k => vecMask bc (vs k))
      = assembleSensDyad m dc elmat bc post nd us vs := by
  have h : ∀ u : Nat → α, vecMask bc (vecMask bc u) = vecMask bc u := by
    intro u
    funext r
    rw [vecMask_eq, vecMask_eq]
    split <;> simp_all
  refine ⟨fun k => h _, ?_⟩
  funext e
  unfold assembleSensDyad
  simp only [h]
end assembly

/-- non-vacuity: a 2×1 grid, 2 dofs per node, bc = [0, 3], a constant and a non-symmetric element matrix over ℚ -/
example : ∑ r ∈ range (2 * (⟨2, 1, 0⟩ : Dom).nnodes), ∑ c ∈ range (2 * (⟨2, 1, 0⟩ : Dom).nnodes),
      (fun r c => ((r : Rat) + 2 * c)) r c *
        (assembleDom ⟨2, 1, 0⟩ 2 (fun a b => (a : Rat) - 3 * b) (fun e => (e : Rat) + (1 : Rat)) (some [0, 3]) 7
            (some fun r c => (r * c : Rat)) r c
          - assembleDom ⟨2, 1, 0⟩ 2 (fun a b => (a : Rat) - 3 * b) (fun e => (e : Rat)) (some [0, 3]) 7
            (some fun r c => (r * c : Rat)) r c)
    = ∑ e ∈ range (⟨2, 1, 0⟩ : Dom).nel,
        assembleSensDense ((⟨2, 1, 0⟩ : Dom).elemnodes * 2) ((⟨2, 1, 0⟩ : Dom).dofConn 2) (fun a b => (a : Rat) - 3 * b)
          (some [0, 3]) id (fun r c => ((r : Rat) + 2 * c)) e * (fun _ => (1 : Rat)) e :=
  assembleDom_adjoint_dense ⟨2, 1, 0⟩ 2 _ (fun e => (e : Rat)) (fun _ => 1) (some [0, 3]) 7 _ _

section ops
variable {α : Type} [CommRing α]

/-- **ElementOperation**: whenever the module accepts the input (both paths of `_response`: operator given per
    element dof, or per node and "repeated per dof"; any leading operator rows `R`), for every seed `w` of the
    output shape: `⟨w, Op(u+v) − Op(u)⟩ = ⟨sens(w), v⟩` -/
theorem elemOp_adjoint (d : Dom) (R K : Nat) (EM : Nat → Nat → α) (usize : Nat) (u v : Nat → α)
    (w : Nat → Nat → α) (rows : Nat) (y y' : Nat → Nat → α) (s : Nat → α)
    (h0 : elemOp d R K EM usize u = .ok (rows, y))
    (h1 : elemOp d R K EM usize (fun q => u q + v q) = .ok (rows, y'))
    (hs : elemOpSens d R K EM usize w = .ok s) :
    ∑ r ∈ range rows, ∑ e ∈ range d.nel, w r e * (y' r e - y r e) = ∑ q ∈ range usize, s q * v q := by
  by_cases hK : K % d.elemnodes = 0
  swap
  · simp [elemOp, hK] at h0
  by_cases hU : usize % d.nnodes = 0
  swap
  · simp [elemOp, hK, hU] at h0
  have husize : usize = usize / d.nnodes * d.nnodes := (Nat.div_mul_cancel (Nat.dvd_of_mod_eq_zero hU)).symm
  unfold elemOp at h0 h1
  unfold elemOpSens at hs
  rw [if_neg (not_not.mpr hK), if_neg (not_not.mpr hU)] at h0 h1 hs
  clear hU
  generalize usize / d.nnodes = ndof at *
  subst husize
  by_cases hrep : K = d.elemnodes * ndof
  · rw [if_neg (not_not.mpr hrep)] at h0 h1 hs
    injection h0 with h0; injection h0 with hr hy
    injection h1 with h1; injection h1 with _ hy'
    injection hs with hs
    subst hr; subst hy; subst hy'; subst hs
    have hdc : ∀ e k, e < d.nel → k < K → d.dofConn ndof e k < ndof * d.nnodes := by
      intro e k he hk
      exact dofConn_lt d ndof he (hrep ▸ hk)
    exact elemOpApply_adjoint d.nel (ndof * d.nnodes) R K (d.dofConn ndof) hdc EM w u v
  · rw [if_pos hrep] at h0 h1 hs
    by_cases hen : K = d.elemnodes
    swap
    · rw [if_pos hen] at h0; cases h0
    rw [if_neg (not_not.mpr hen)] at h0 h1 hs
    injection h0 with h0; injection h0 with hr hy
    injection h1 with h1; injection h1 with _ hy'
    injection hs with hs
    subst hr; subst hy; subst hy'; subst hs
    have hdc : ∀ e k, e < d.nel → k < ndof * d.elemnodes → d.dofConn ndof e k < ndof * d.nnodes := by
      intro e k he hk
      exact dofConn_lt d ndof he (Nat.mul_comm ndof d.elemnodes ▸ hk)
    exact elemOpApply_adjoint d.nel (ndof * d.nnodes) (ndof * R) (ndof * d.elemnodes)
      (d.dofConn ndof) hdc (repeatPerDof ndof R EM) w u v

/-- **NodalOperation**: `⟨w, Op(x+v) − Op(x)⟩ = ⟨sens(w), v⟩` for every operator shape (`R` leading rows),
    element data `x`, direction `v` (both `(R, nel)`) and nodal seed `w` -/
theorem nodalOp_adjoint (d : Dom) (R K : Nat) (EM : Nat → Nat → α) (x v : Nat → Nat → α) (w : Nat → α)
    (f f' : Nat → α) (s : Nat → Nat → α)
    (h0 : nodalOp d R K EM x = .ok f) (h1 : nodalOp d R K EM (fun r e => x r e + v r e) = .ok f')
    (hs : nodalOpSens d K EM w = .ok s) :
    ∑ q ∈ range (K / d.elemnodes * d.nnodes), w q * (f' q - f q)
      = ∑ r ∈ range R, ∑ e ∈ range d.nel, s r e * v r e := by
  by_cases hK : K % d.elemnodes = 0
  swap
  · simp [nodalOp, hK] at h0
  unfold nodalOp at h0 h1
  unfold nodalOpSens at hs
  rw [if_neg (not_not.mpr hK)] at h0 h1 hs
  injection h0 with h0; injection h1 with h1; injection hs with hs
  subst h0; subst h1; subst hs
  have hKK : K = d.elemnodes * (K / d.elemnodes) := (Nat.mul_div_cancel' (Nat.dvd_of_mod_eq_zero hK)).symm
  have hdc : ∀ e k, e < d.nel → k < K → d.dofConn (K / d.elemnodes) e k < K / d.elemnodes * d.nnodes := by
    intro e k he hk
    exact dofConn_lt d (K / d.elemnodes) he (by rw [← hKK]; exact hk)
  exact nodalOpApply_adjoint d.nel (K / d.elemnodes * d.nnodes) R K (d.dofConn (K / d.elemnodes)) hdc EM w x v
end ops

/-- non-vacuity: the hypotheses of `elemOp_adjoint` / `nodalOp_adjoint` are met on both paths
    (operator per element dof, and per node with "repeat per dof") -/
example : elemOp (⟨2, 1, 0⟩ : Dom) 3 8 (fun r k => ((r + k : Nat) : Rat)) 12 (fun q => (q : Rat))
    = .ok (3, elemOpApply ((⟨2, 1, 0⟩ : Dom).dofConn 2) 8 (fun r k => ((r + k : Nat) : Rat)) (fun q => (q : Rat))) := by
  simp [elemOp, Dom.elemnodes, Dom.dim, Dom.nnodes]
example : elemOp (⟨2, 1, 0⟩ : Dom) 3 4 (fun r k => ((r + k : Nat) : Rat)) 12 (fun q => (q : Rat))
    = .ok (2 * 3, elemOpApply ((⟨2, 1, 0⟩ : Dom).dofConn 2) (2 * 4)
        (repeatPerDof 2 3 (fun r k => ((r + k : Nat) : Rat))) (fun q => (q : Rat))) := by
  simp [elemOp, Dom.elemnodes, Dom.dim, Dom.nnodes]
example : nodalOpSens (⟨2, 1, 0⟩ : Dom) 8 (fun r k => ((r + k : Nat) : Rat)) (fun q => (q : Rat))
    = .ok (nodalOpSensApply ((⟨2, 1, 0⟩ : Dom).dofConn 2) 8 (fun r k => ((r + k : Nat) : Rat)) (fun q => (q : Rat))) := by
  simp [nodalOpSens, Dom.elemnodes, Dom.dim]

end PymotoVerif.C01Assembly
