/-
C01 — adjoint theorems for the two array-level module families of `pymoto/modules/generic.py`:

* `EinSum`: `numpy.einsum` (model `Einsum.einsum`: sum over the assignments of the summed index letters) is linear in every
  operand, and the coded sensitivity of operand `a` (`einsum(out, others -> ind_red)[expand]`, with the indices that occur only
  in operand `a` broadcast) is the adjoint of that linear map: for all expressions without repeated indices in the output and
  in the differentiated operand, all extents, all operand counts.  The special branch (one operand, scalar output: `ii->`
  through `fill_diagonal`; `i->`, `ij->`, … through `ones_like`) and the `.real` rule for a real operand among complex ones are
  separate theorems.  The operand list is written `pre ++ ⟨lsA, x⟩ :: post`; operand `a = pre.length` is differentiated.
* `MathGeneral`: numpy broadcasting of an input of shape `s` to the output shape `S` is a linear map and the coded reverse
  broadcast (sum over the leading axes and over the extent-1 axes, `keepdims`, squeeze) is its adjoint for ALL
  broadcast-compatible shape pairs including scalars; hence, GIVEN the pointwise derivative arrays `dg_df[i]` (sympy's
  `diff`/`lambdify`: external contract, validated by the correspondence), the coded sensitivities are the adjoint of the
  linearised response — algebraically over any commutative ring, with the `Re` pairing for real inputs with complex
  contributions, and as a derivative over ℝ.

Pairing: plain `Σ g·v`; for complex data `Re Σ g·v` (no conjugation).
-/
import PymotoVerif.Core.Einsum
import PymotoVerif.Lemmas.Einsum
import PymotoVerif.Lemmas.EinsumCx
import PymotoVerif.Lemmas.Unbroadcast
import Mathlib.Tactic.Ring
import Mathlib.Analysis.Calculus.Deriv.Add
import Mathlib.Analysis.Calculus.Deriv.Mul

namespace PymotoVerif.C01Generic
open PymotoVerif PymotoVerif.Pointwise PymotoVerif.Einsum

section ring
variable {α : Type} [CommRing α]

/-! ### EinSum -/

/-- einsum is additive in each operand (with homogeneity below: multilinear) -/
theorem einsum_additive (dim : Nat → Nat) (pre post : List (Operand α)) (lsA out : List Nat) (x v : Nat → α) (o : Nat) :
    einsum dim (pre ++ ⟨lsA, fun k => x k + v k⟩ :: post) out o
      = einsum dim (pre ++ ⟨lsA, x⟩ :: post) out o + einsum dim (pre ++ ⟨lsA, v⟩ :: post) out o :=
  einsum_add_slot dim pre post lsA out x v o

theorem einsum_homogeneous (dim : Nat → Nat) (pre post : List (Operand α)) (lsA out : List Nat) (c : α) (x : Nat → α) (o : Nat) :
    einsum dim (pre ++ ⟨lsA, fun k => c * x k⟩ :: post) out o = c * einsum dim (pre ++ ⟨lsA, x⟩ :: post) out o := by
  unfold einsum summedLetters
  rw [letters_insert_ls pre post lsA (fun k => c * x k) x, sumAssign_mul_left]
  apply sumAssign_congr_fun
  intro τ _ _
  simp only [prodOps_insert]
  ring

/-- general branch of `EinSum._sensitivity`: for every expression whose output and differentiated operand have no repeated
    index, every seed `w` and direction `v` of operand `a = pre.length` (the other operands fixed):
    `⟨w, einsum(…, x_a + v, …) − einsum(…, x_a, …)⟩ = ⟨sens_a(w), v⟩` -/
theorem einsum_adjoint (dim : Nat → Nat) (pre post : List (Operand α)) (lsA out : List Nat)
    (hout : out.Nodup) (hA : lsA.Nodup) (x v w : Nat → α) :
    sumRange (size dim out) (fun o => w o *
        (einsum dim (pre ++ ⟨lsA, fun k => x k + v k⟩ :: post) out o - einsum dim (pre ++ ⟨lsA, x⟩ :: post) out o))
      = sumRange (size dim lsA) (fun k => einsumSens dim (pre ++ ⟨lsA, x⟩ :: post) out w pre.length k * v k) := by
  have hlin : ∀ o, w o * (einsum dim (pre ++ ⟨lsA, fun k => x k + v k⟩ :: post) out o
      - einsum dim (pre ++ ⟨lsA, x⟩ :: post) out o) = w o * einsum dim (pre ++ ⟨lsA, v⟩ :: post) out o := by
    intro o; rw [einsum_add_slot]; ring
  simp only [hlin]
  rw [einsum_pairing dim _ out hout w, einsumSens_insert]
  simp only []
  rw [einsumSens_pairing dim (pre ++ post) lsA out hA w v]
  rw [sumAssign_perm dim _ _ (letters_perm pre post lsA out hout hA w v)]
  apply sumAssign_congr_fun
  intro τ _ _
  rw [prodOps_insert]
  ring

example : ([105, 106] : List Nat).Nodup ∧ ([106] : List Nat).Nodup := by decide
/-- non-vacuity: `"ij,j->i"` on a 2×2 matrix, differentiated operand `ij`; the coded sensitivity is the outer product `wᵢ bⱼ` -/
example : (List.range 4).map (einsumSens (fun _ => 2) [⟨[105, 106], fun _ => (0 : Int)⟩, ⟨[106], fun j => 10 + j⟩]
    [105] (fun i => 1 + i) 0) = [10, 11, 20, 22] := by decide
/-- non-vacuity: `"ij->i"`, the summed index `j` occurs only in the differentiated operand and is broadcast -/
example : (List.range 6).map (einsumSens (fun l => if l = 105 then 2 else 3) [⟨[105, 106], fun _ => (0 : Int)⟩]
    [105] (fun i => 5 + i) 0) = [5, 5, 5, 6, 6, 6] := by decide

/-- special branch `ii->` (trace): `df_in * mat` with `fill_diagonal(mat, 1)` -/
theorem einsum_trace_adjoint (dim : Nat → Nat) (i : Nat) (x v : Nat → α) (w : α) :
    w * (einsum dim [⟨[i, i], fun k => x k + v k⟩] [] 0 - einsum dim [⟨[i, i], x⟩] [] 0)
      = sumRange (dim i * dim i) (fun k => traceSens (dim i) w k * v k) := by
  have hs : ∀ z : Nat → α, summedLetters [(⟨[i, i], z⟩ : Operand α)] [] = [i] := by
    intro z; simp [summedLetters, letters, dedup]
  have he : ∀ z : Nat → α, einsum dim [⟨[i, i], z⟩] [] 0 = sumRange (dim i) (fun t => z (t * (dim i + 1))) := by
    intro z
    unfold einsum
    rw [hs z]
    simp only [sumAssign, prodOps, List.foldr, flatIdx, size, upd_same, mul_one, Nat.add_zero]
    apply sumRange_congr; intro t _
    rw [Nat.mul_add_one]
  rw [he, he]
  simp only [traceSens, diagMat, sumRange_eq]
  rw [← Finset.sum_sub_distrib, Finset.mul_sum]
  simp only [Finset.mul_sum, Finset.sum_mul]
  rw [Finset.sum_comm]
  apply Finset.sum_congr rfl; intro t ht
  have ht' : t < dim i := Finset.mem_range.mp ht
  have hlt : t * (dim i + 1) < dim i * dim i := by
    have h1 : t + 1 ≤ dim i := ht'
    calc t * (dim i + 1) < (t + 1) * dim i := by nlinarith
      _ ≤ dim i * dim i := Nat.mul_le_mul_right _ h1
  simp only [mul_ite, mul_one, mul_zero, ite_mul, zero_mul]
  rw [Finset.sum_ite_eq' (Finset.range (dim i * dim i)) (t * (dim i + 1)) (fun k => w * v k)]
  simp only [Finset.mem_range, hlt, if_true]
  ring

/-- special branch `i->`, `ij->`, `ijk->`, …: `df_in * ones_like(state)` -/
theorem einsum_ones_adjoint (dim : Nat → Nat) (lsA : List Nat) (hA : lsA.Nodup) (x v : Nat → α) (w : α) :
    w * (einsum dim [⟨lsA, fun k => x k + v k⟩] [] 0 - einsum dim [⟨lsA, x⟩] [] 0)
      = sumRange (size dim lsA) (fun k => onesSens w k * v k) := by
  have h := einsum_add_slot dim [] [] lsA [] x v 0
  simp only [List.nil_append] at h
  rw [h]
  have hp : (summedLetters [(⟨lsA, v⟩ : Operand α)] []).Perm lsA := by
    rw [List.perm_ext_iff_of_nodup (nodup_summedLetters _ _) hA]
    intro l
    simp [mem_summedLetters, letters]
  have he : einsum dim [⟨lsA, v⟩] [] 0 = sumRange (size dim lsA) v := by
    unfold einsum
    rw [sumAssign_perm dim _ _ hp]
    have := sum_flat dim lsA hA (fun _ => 0) (fun o _ => v o)
    simp only [decode] at this ⊢
    rw [this]
    apply sumAssign_congr_fun
    intro τ _ _
    simp [prodOps]
  rw [add_sub_cancel_left, he]
  simp only [onesSens, sumRange_eq, mul_one, Finset.mul_sum]

example : ([105, 106, 107] : List Nat).Nodup := by decide

/-- the `.real` rule: a REAL operand `a` among complex operands with a complex seed.  The direction of a real signal is real;
    the real part of the complex adjoint expression is the adjoint with respect to the pairing `Re Σ w·y` -/
theorem einsum_real_operand_rule (dim : Nat → Nat) (pre post : List (Operand (Cx α))) (lsA out : List Nat)
    (hout : out.Nodup) (hA : lsA.Nodup) (x v : Nat → α) (w : Nat → Cx α) :
    (sumRange (size dim out) (fun o => w o *
        (einsum dim (pre ++ ⟨lsA, fun k => ofRe (x k + v k)⟩ :: post) out o
          - einsum dim (pre ++ ⟨lsA, fun k => ofRe (x k)⟩ :: post) out o))).re
      = sumRange (size dim lsA)
          (fun k => (einsumSens dim (pre ++ ⟨lsA, fun k => ofRe (x k)⟩ :: post) out w pre.length k).re * v k) := by
  have h := einsum_adjoint dim pre post lsA out hout hA (fun k => (ofRe (x k) : Cx α)) (fun k => ofRe (v k)) w
  simp only [← ofRe_add] at h
  rw [h, re_sumRange]
  apply sumRange_congr; intro k _
  exact mul_ofRe_re _ _

/-- non-vacuity of the real rule: `"i,i->"` with a real first operand, complex second operand `[1+2i, 3]`, complex seed `1+i`:
    the stored sensitivity of the real operand is `Re ((1+i)·b) = [-1, 3]` -/
example : (List.range 2).map (fun k => (einsumSens (fun _ => 2)
    [⟨[105], fun _ => (⟨0, 0⟩ : Cx Int)⟩, ⟨[105], fun j => if j = 0 then ⟨1, 2⟩ else ⟨3, 0⟩⟩] [] (fun _ => ⟨1, 1⟩) 0 k).re)
    = [-1, 3] := by decide

/-- `EinSum._sensitivity` AS CODED (branch selection, repeated-index guard, the three dtype paths): whenever it returns
    sensitivities for an expression with a well-formed output, the entry for EVERY operand (`a = pre.length`) is the adjoint of
    the response for the pairing `Re Σ`; directions of a real operand are real -/
theorem einSum_sensitivity_is_adjoint (dim : Nat → Nat) (pre post : List (Operand (Cx α))) (lsA : List Nat)
    (xa : Nat → Cx α) (isC : List Bool) (out : List Nat) (hout : out.Nodup) (w : Nat → Cx α) (wC : Bool)
    (gs : List (Sens α)) (hok : sensitivity dim (pre ++ ⟨lsA, xa⟩ :: post) isC out w wC = .ok gs)
    (v : Nat → Cx α) (hv : isC.getD pre.length false = false → ∀ k, (v k).im = 0) :
    ∃ g, gs[pre.length]? = some g ∧
      (sumRange (size dim out) (fun o => w o *
        (response dim (pre ++ ⟨lsA, fun k => xa k + v k⟩ :: post) out o
          - response dim (pre ++ ⟨lsA, xa⟩ :: post) out o))).re
      = (sumRange (size dim lsA) (fun k => g.val k * v k)).re := by
  unfold sensitivity at hok
  simp only [response]
  by_cases hsp : out = [] ∧ (pre ++ (⟨lsA, xa⟩ : Operand (Cx α)) :: post).length = 1
  · -- one operand, scalar output
    rw [if_pos hsp] at hok
    obtain ⟨hout0, hlen⟩ := hsp
    have hpre : pre = [] := by
      cases pre with
      | nil => rfl
      | cons p ps => simp at hlen
    subst hpre
    have hpost : post = [] := by
      cases post with
      | nil => rfl
      | cons p ps => simp at hlen
    subst hpost; subst hout0
    simp only [List.nil_append, List.getD_cons_zero, List.length_nil, size, sumRange, zero_add] at hok ⊢
    by_cases hd : hasDup lsA = true
    · rw [if_pos hd] at hok
      by_cases hl : lsA.length > 2
      · rw [if_pos hl] at hok; cases hok
      · rw [if_neg hl] at hok
        obtain ⟨i, rfl⟩ := hasDup_short lsA hd hl
        have hgs := Except.ok.inj hok
        subst hgs
        refine ⟨_, rfl, ?_⟩
        have h := einsum_trace_adjoint dim i xa v (w 0)
        simp only [List.getD_cons_zero, size, Nat.mul_one]
        rw [h]
    · rw [if_neg hd] at hok
      have hA : lsA.Nodup := (hasDup_eq_false_iff lsA).mp (by simpa using hd)
      have hgs := Except.ok.inj hok
      subst hgs
      refine ⟨_, rfl, ?_⟩
      rw [einsum_ones_adjoint dim lsA hA xa v (w 0)]
  · -- general branch
    rw [if_neg hsp] at hok
    by_cases hany : (pre ++ (⟨lsA, xa⟩ : Operand (Cx α)) :: post).any (fun op => hasDup op.ls) = true
    · rw [if_pos hany] at hok; cases hok
    · rw [if_neg hany] at hok
      have hA : lsA.Nodup := by
        rw [← hasDup_eq_false_iff]
        by_contra hc
        apply hany
        rw [List.any_eq_true]
        exact ⟨⟨lsA, xa⟩, by simp, by simpa using hc⟩
      have hgs := Except.ok.inj hok
      subst hgs
      have hlt : pre.length < (pre ++ (⟨lsA, xa⟩ : Operand (Cx α)) :: post).length := by simp
      have hadj := einsum_adjoint dim pre post lsA out hout hA xa v w
      rw [List.getElem?_map, List.getElem?_range hlt]
      simp only [Option.map_some]
      refine ⟨_, rfl, ?_⟩
      rw [hadj]
      by_cases hcA : isC.getD pre.length false = true
      · -- complex operand: the einsum result is stored
        simp only [hcA, Bool.not_true, Bool.false_and, Bool.false_eq_true, if_false, if_true]
      · -- real operand: `.real` / the real-array assignment; the direction is real
        have hcA' : isC.getD pre.length false = false := by simpa using hcA
        have hvim := hv hcA'
        have hre : ∀ (g : Nat → Cx α),
            (sumRange (size dim lsA) (fun k => (ofRe (g k).re : Cx α) * v k)).re
              = (sumRange (size dim lsA) (fun k => g k * v k)).re := by
          intro g
          rw [re_sumRange, re_sumRange]
          apply sumRange_congr; intro k _
          simp [hvim k]
        split <;> exact (hre _).symm

/-- non-vacuity: the coded branch selection on `"ii->"` (2×2, seed 3) returns `3·I` -/
example : (match sensitivity (fun _ => 2) [⟨[105, 105], fun k => (⟨(k : Int), 0⟩ : Cx Int)⟩] [false] [] (fun _ => ⟨3, 0⟩) false with
    | .ok gs => gs.map (fun g => (List.range 4).map (fun k => (g.val k).re))
    | .error _ => []) = [[3, 0, 0, 3]] := by
  decide
/-- … and rejects `"ii->i"` as the code does -/
example : (match sensitivity (fun _ => 2) [⟨[105, 105], fun k => (⟨(k : Int), 0⟩ : Cx Int)⟩] [false] [105] (fun _ => ⟨3, 0⟩) false with
    | .ok _ => "ok"
    | .error e => e) = "TypeError" := by
  decide

/-! ### MathGeneral: reverse broadcast -/

/-- numpy broadcasting `s → S` is linear, and the coded reduction (`unbroadcast`: scalar inputs summed, equal shapes added,
    otherwise `np.add.reduce` over the leading and the extent-1 axes with `keepdims`, then `squeeze`) is its adjoint for the
    pairing `Σ`: for all broadcast-compatible shapes the in-place addition has matching shapes and the identity holds -/
theorem unbroadcast_adjoint_broadcast {s S : List Nat} (h : BroadcastsTo s S) (w x : Nat → α) :
    ∃ g, unbroadcast s S w = some g ∧
      sumRange (prodL S) (fun K => w K * x (bcastIdx s S K)) = sumRange (prodL s) (fun k => g k * x k) := by
  unfold unbroadcast
  by_cases h1 : s = []
  · subst h1
    refine ⟨_, if_pos rfl, ?_⟩
    simp only [bcastIdx_nil, prodL, sumRange_eq, Finset.sum_mul, Finset.sum_range_one]
  · rw [if_neg h1]
    by_cases h2 : s = S
    · subst h2
      refine ⟨_, if_pos rfl, ?_⟩
      apply sumRange_congr; intro K hK
      rw [bcastIdx_self s K hK]
    · rw [if_neg h2]
      have hk : (keepShape S (bmask s S)).drop (S.length - s.length) = s := by
        rw [keepShape_bmask h]
        simp
      refine ⟨_, if_pos hk, ?_⟩
      exact reduceKeep_adjoint_bcast h w x

example : BroadcastsTo [1, 3] [2, 2, 3] := ⟨[2], [2, 3], rfl, .cons (Or.inr rfl) (.cons (Or.inl rfl) .nil)⟩
example : BroadcastsTo [2, 1] [2, 3] := ⟨[], [2, 3], rfl, .cons (Or.inl rfl) (.cons (Or.inr rfl) .nil)⟩
/-- non-vacuity: input shape (1,3), contribution shape (2,2,3): sums over axes 0 and 1 -/
example : (unbroadcast [1, 3] [2, 2, 3] (fun K => (K : Int))).map (fun g => (List.range 3).map g) = some [18, 22, 26] := by
  decide
/-- broadcasting itself: (2,1) → (2,3) repeats along axis 1 -/
example : (List.range 6).map (bcastIdx [2, 1] [2, 3]) = [0, 0, 0, 1, 1, 1] := by decide

/-- `MathGeneral._sensitivity` given the pointwise derivative arrays: `ss` are the input shapes, `S` the output shape, `dfdy` the
    seed, `dg i` the derivative array of input `i` (shape `S`).  The linearised response in the directions `v i` is
    `dy[K] = Σᵢ dg i K · (v i broadcast to S)[K]` (the sympy contract); the coded sensitivities `g i` pair with `v i` to the
    same number -/
theorem mathGeneral_sens_is_adjoint_given_pointwise_derivative (S : List Nat) (ss : List (List Nat))
    (hs : ∀ i, i < ss.length → BroadcastsTo (ss.getD i []) S) (dfdy : Nat → α) (dg v : Nat → Nat → α) :
    ∃ g : Nat → Nat → α,
      (∀ i, i < ss.length → unbroadcast (ss.getD i []) S (fun K => dfdy K * dg i K) = some (g i)) ∧
      sumRange (prodL S) (fun K => dfdy K * sumRange ss.length (fun i => dg i K * v i (bcastIdx (ss.getD i []) S K)))
        = sumRange ss.length (fun i => sumRange (prodL (ss.getD i [])) (fun k => g i k * v i k)) := by
  classical
  have hex : ∀ i, ∃ g, i < ss.length → (unbroadcast (ss.getD i []) S (fun K => dfdy K * dg i K) = some g ∧
      sumRange (prodL S) (fun K => (dfdy K * dg i K) * v i (bcastIdx (ss.getD i []) S K))
        = sumRange (prodL (ss.getD i [])) (fun k => g k * v i k)) := by
    intro i
    by_cases hi : i < ss.length
    · obtain ⟨g, hg1, hg2⟩ := unbroadcast_adjoint_broadcast (hs i hi) (fun K => dfdy K * dg i K) (v i)
      exact ⟨g, fun _ => ⟨hg1, hg2⟩⟩
    · exact ⟨fun _ => 0, fun h => absurd h hi⟩
  choose g hg using hex
  refine ⟨g, fun i hi => (hg i hi).1, ?_⟩
  have h1 : ∀ K, dfdy K * sumRange ss.length (fun i => dg i K * v i (bcastIdx (ss.getD i []) S K))
      = sumRange ss.length (fun i => (dfdy K * dg i K) * v i (bcastIdx (ss.getD i []) S K)) := by
    intro K
    rw [sumRange_mul_left]
    apply sumRange_congr; intro i _; ring
  simp only [h1]
  rw [sumRange_comm]
  apply sumRange_congr; intro i hi
  exact (hg i hi).2

/-- the real-part rule of `MathGeneral._sensitivity`: a REAL input with a complex contribution `df_dy*dg_df[i]`
    (complex seed or complex other inputs); pairing `Re Σ` -/
theorem mathGeneral_real_input_rule {s S : List Nat} (h : BroadcastsTo s S) (addC : Bool) (dfdy dg : Nat → Cx α) (v : Nat → α) :
    ∃ g, mathGeneralSens s S false addC dfdy dg = some (false, g) ∧
      (sumRange (prodL S) (fun K => (dfdy K * dg K) * ofRe (v (bcastIdx s S K)))).re
        = sumRange (prodL s) (fun k => (g k).re * v k) := by
  unfold mathGeneralSens
  cases addC with
  | true =>
    obtain ⟨g, hg1, hg2⟩ := unbroadcast_adjoint_broadcast h (fun K => (ofRe (dfdy K * dg K).re : Cx α)) (fun k => ofRe (v k))
    refine ⟨g, by simp only [Bool.not_false, Bool.and_self, if_true, hg1], ?_⟩
    have := congrArg Cx.re hg2
    rw [re_sumRange, re_sumRange] at this
    rw [re_sumRange]
    simp only [mul_ofRe_re, ofRe_re] at this ⊢
    exact this
  | false =>
    obtain ⟨g, hg1, hg2⟩ := unbroadcast_adjoint_broadcast h (fun K => dfdy K * dg K) (fun k => (ofRe (v k) : Cx α))
    refine ⟨g, by simp only [Bool.not_false, Bool.and_false, Bool.false_eq_true, if_false, hg1], ?_⟩
    have := congrArg Cx.re hg2
    rw [re_sumRange, re_sumRange] at this
    rw [re_sumRange]
    simp only [mul_ofRe_re] at this ⊢
    exact this

/-- a COMPLEX input: the contribution is reduced as it is (pairing `Σ g·v` of complex numbers, hence also its real part) -/
theorem mathGeneral_complex_input {s S : List Nat} (h : BroadcastsTo s S) (addC : Bool) (dfdy dg v : Nat → Cx α) :
    ∃ g, mathGeneralSens s S true addC dfdy dg = some (true, g) ∧
      sumRange (prodL S) (fun K => (dfdy K * dg K) * v (bcastIdx s S K)) = sumRange (prodL s) (fun k => g k * v k) := by
  unfold mathGeneralSens
  obtain ⟨g, hg1, hg2⟩ := unbroadcast_adjoint_broadcast h (fun K => dfdy K * dg K) v
  exact ⟨g, by simp only [Bool.not_true, Bool.false_and, Bool.false_eq_true, if_false, hg1], hg2⟩

end ring

/-- over ℝ: if every output entry `y t K` along the perturbation `x + t·v` has the pointwise derivative
    `Σᵢ dg i K · (v i broadcast)[K]` at `t = 0` (the sympy contract for the generated expressions), then the coded
    sensitivities give the derivative of `⟨w, y⟩` -/
theorem mathGeneral_sens_is_derivative_given_pointwise_derivative (S : List Nat) (ss : List (List Nat))
    (hs : ∀ i, i < ss.length → BroadcastsTo (ss.getD i []) S) (dfdy : Nat → ℝ) (dg v : Nat → Nat → ℝ) (y : ℝ → Nat → ℝ)
    (hy : ∀ K, K < prodL S →
      HasDerivAt (fun t => y t K) (sumRange ss.length (fun i => dg i K * v i (bcastIdx (ss.getD i []) S K))) 0) :
    ∃ g : Nat → Nat → ℝ,
      (∀ i, i < ss.length → unbroadcast (ss.getD i []) S (fun K => dfdy K * dg i K) = some (g i)) ∧
      HasDerivAt (fun t => sumRange (prodL S) (fun K => dfdy K * y t K))
        (sumRange ss.length (fun i => sumRange (prodL (ss.getD i [])) (fun k => g i k * v i k))) 0 := by
  obtain ⟨g, hg1, hg2⟩ := mathGeneral_sens_is_adjoint_given_pointwise_derivative S ss hs dfdy dg v
  refine ⟨g, hg1, ?_⟩
  rw [← hg2]
  simp only [sumRange_eq (prodL S)]
  apply HasDerivAt.fun_sum
  intro K hK
  exact (hy K (Finset.mem_range.mp hK)).const_mul (dfdy K)

end PymotoVerif.C01Generic
