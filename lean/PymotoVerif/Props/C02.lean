/-
C02 — Network back-propagation yields the total derivative of any module graph.
Property theorems ONLY (helper lemmas: `Lemmas/Backprop.lean` abstract reverse-mode kernel,
`Lemmas/Network.lean` tie between the executable model and the kernel).

Model: `Core/Network.lean` (`Prim.response / sensitivity / reset`, `Prog.response / sensitivity /
reset`, `Signal` / `SignalSlice` accessors) — the definitions the driver executes.
Vocabulary
* `L.WF`         : different base signals own different store entries;
* `g.WF L`       : every signal of every module selects duplicate-free entries of its base, a plain
                   signal all of them; array sizes are consistent (`out_sizes`, halves of mul/dot);
* `Clean L σ`    : "None ≡ 0": a base whose sensitivity is `None` holds zeros in the flat vector
                   (true of every store reachable from a freshly built network, preserved by
                   `sensitivity`, see `sensitivity_is_backChain`);
* `g.lmods st`   : the modules of `g` (nested networks flattened) linearised at the states `st`, at
                   entry granularity; `J o e` sums the kind's local Jacobian over all positions at
                   which `o` / `e` occur, so a signal used twice or sliced is handled by definition;
* `SSA ms`       : single assignment at entry granularity = acyclic wiring without overwriting;
* sources        : entries `e ∉ written ms`.
-/
import PymotoVerif.Lemmas.Network
import PymotoVerif.Lemmas.NetworkFwd
import PymotoVerif.Lemmas.NetworkResp

namespace PymotoVerif.C02
open PymotoVerif PymotoVerif.Net Finset

variable {α : Type} [CommRing α]

/-! ## the executable sweep IS the abstract reverse sweep -/

/-- `Module.sensitivity` of the model (skip rule, None→0 seeds, coded adjoint, `add_sensitivity`
    per input in order, slices, repeated inputs) equals `LMod.back` of the linearised module. -/
theorem module_sensitivity_is_back (L : Layout) (hL : L.WF) (p : Prim α) (hp : p.WF L)
    (σ σ' : Store α) (hc : Clean L σ) (h : p.sensitivity L σ = .ok σ') :
    σ'.se = (p.lmod σ.st).back σ.se ∧ Clean L σ' ∧ σ'.st = σ.st :=
  let ⟨a, b, c, _⟩ := Prim.sens_spec L hL p hp σ σ' hc h
  ⟨a, b, c⟩

/-- `Network.sensitivity` of the model on ANY program (nested or not) is `backChain` of its
    linearised modules; states are untouched and the invariant `Clean` is kept. -/
theorem sensitivity_is_backChain (L : Layout) (hL : L.WF) (g : Prog α) (hg : g.WF L)
    (σ σ' : Store α) (hc : Clean L σ) (h : g.sensitivity L σ = .ok σ') :
    σ'.se = backChain (g.lmods σ.st) σ.se ∧ Clean L σ' ∧ σ'.st = σ.st :=
  let ⟨a, b, c, _⟩ := Prog.sens_spec L hL g hg σ σ' hc h
  ⟨a, b, c⟩

/-! ## the linearised modules are the derivatives of the modelled modules -/

/-- Local adjoint law of every module kind of the model: the coded `_sensitivity` (`Kind.adj`) is
    the transposed local Jacobian applied to the seed. -/
theorem local_adjoint_is_transposed_jacobian (k : Kind α) (n : Nat) (hk : k.sized n)
    (x w : Nat → α) (c : Nat) (hc : c < n) :
    k.adj n x w c = ∑ r ∈ range (k.nOut n), k.jac n x r c * w r :=
  Kind.adj_eq k n hk x w c hc

/-- The local Jacobian is the derivative of the coded `_response` (`Kind.f`): exact expansion along
    every line `x + t·δ`, `f (x + t δ) = f x + t · J(x) δ + t² · Q δ` (every kind is a polynomial
    map of degree ≤ 2, so no analysis is needed to characterise the derivative). -/
theorem local_jacobian_is_derivative (k : Kind α) (n : Nat) (hk : k.sized n) (x d : Nat → α)
    (t : α) (r : Nat) (hr : r < k.nOut n) :
    k.f n (fun c => x c + t * d c) r
      = k.f n x r + t * ∑ c ∈ range n, k.jac n x r c * d c + t * t * k.quad n d r := by
  rw [Kind.f_expand k n hk x (fun c => t * d c) r hr, Kind.quad_homogeneous, Finset.mul_sum]
  congr 2
  apply Finset.sum_congr rfl; intro c _; ring

/-! ## back-propagation = transposed Jacobian chain on the sources -/

/-- For every program with single assignment at entry granularity and every seed `σ.se` (on any
    signals: outputs, intermediates, several at once), the sweep leaves on every source entry
    exactly `(F₁ᵀ ∘ … ∘ Fₖᵀ) seed`. -/
theorem backprop_is_transpose (L : Layout) (hL : L.WF) (g : Prog α) (hg : g.WF L)
    (σ σ' : Store α) (hc : Clean L σ) (h : g.sensitivity L σ = .ok σ')
    (hssa : SSA (g.lmods σ.st)) (e : Nat) (he : e ∉ written (g.lmods σ.st)) :
    σ'.se e = trChain (g.lmods σ.st) σ.se e := by
  rw [(Prog.sens_spec L hL g hg σ σ' hc h).1]
  exact backChain_source _ hssa _ e he

/-- Total derivative: for every tangent `T` of the sources, `⟨seed, D(Net)·T⟩ = ⟨sensitivities, T⟩`,
    where `D(Net) = Fₖ ∘ … ∘ F₁` is the chain of the linearised modules (`U` = any finite set of
    entries containing all written ones, e.g. all entries of the store). -/
theorem backprop_total_derivative (L : Layout) (hL : L.WF) (g : Prog α) (hg : g.WF L)
    (σ σ' : Store α) (hc : Clean L σ) (h : g.sensitivity L σ = .ok σ')
    (hssa : SSA (g.lmods σ.st)) (U : Finset Nat) (hU : ∀ m ∈ g.lmods σ.st, m.outs ⊆ U)
    (T : Nat → α) (hT : ∀ e, e ∈ written (g.lmods σ.st) → T e = 0) :
    pair U σ.se (fwdChain U (g.lmods σ.st) T) = pair U σ'.se T := by
  rw [fwdChain_adjoint U _ hU]
  unfold pair
  apply Finset.sum_congr rfl; intro e _
  by_cases he : e ∈ written (g.lmods σ.st)
  · simp [hT e he]
  · rw [backprop_is_transpose L hL g hg σ σ' hc h hssa e he]

/- The chain rule for the COMPOSED response (that `fwdChain` of the local derivatives is the derivative of
   `Prog.response` itself) is `response_taylor` / `backprop_is_total_derivative_of_response` below. -/

/-- Fan-out / fan-in: the coefficient with which the seed on entry `o` reaches the source entry `e`
    is the `(o, e)` entry of the product `Fₖ · … · F₁` of the local Jacobian matrices, i.e. the sum
    over all paths from `e` to `o` of the products of local Jacobian entries, each path once. -/
theorem paths_summed_once (L : Layout) (hL : L.WF) (g : Prog α) (hg : g.WF L)
    (σ σ' : Store α) (hc : Clean L σ) (h : g.sensitivity L σ = .ok σ')
    (hssa : SSA (g.lmods σ.st)) (U : Finset Nat) (hU : ∀ m ∈ g.lmods σ.st, m.outs ⊆ U)
    (e : Nat) (heU : e ∈ U) (he : e ∉ written (g.lmods σ.st)) :
    σ'.se e = ∑ o ∈ U, chainMat U (g.lmods σ.st) o e * σ.se o := by
  rw [backprop_is_transpose L hL g hg σ σ' hc h hssa e he]
  exact trChain_eq_mat U _ hU _ e heU

/-! ## branches without seed -/

/-- The skip rule is observationally equal to running the module with zero seeds (`None ≡ 0`):
    when all output sensitivities are `None`, `Module.sensitivity` returns the store unchanged, and
    the un-skipped body (coded adjoint on zero seeds, `add_sensitivity` on every input) produces
    the same sensitivity values and states — nothing is contributed. -/
theorem unseeded_branch_contributes_nothing (L : Layout) (hL : L.WF) (p : Prim α) (hp : p.WF L)
    (σ σ' : Store α) (hc : Clean L σ) (hs : p.skip σ = true)
    (h : p.sensitivityNoSkip L σ = .ok σ') :
    p.sensitivity L σ = .ok σ ∧ σ'.se = σ.se ∧ σ'.st = σ.st := by
  refine ⟨by unfold Prim.sensitivity; rw [if_pos hs], ?_, ?_⟩
  · rw [(Prim.noskip_spec L hL p hp σ σ' hc h).1]
    exact back_zero _ _ (Prim.skip_zero L p hp σ hc hs)
  · exact (Prim.noskip_spec L hL p hp σ σ' hc h).2.2.1

/-- A whole sub-network none of whose written entries carries a seed changes no sensitivity. -/
theorem unseeded_network_contributes_nothing (L : Layout) (hL : L.WF) (g : Prog α) (hg : g.WF L)
    (σ σ' : Store α) (hc : Clean L σ) (h : g.sensitivity L σ = .ok σ')
    (hz : ∀ o ∈ written (g.lmods σ.st), σ.se o = 0) : σ'.se = σ.se := by
  rw [(Prog.sens_spec L hL g hg σ σ' hc h).1]
  generalize g.lmods σ.st = ms at hz
  induction ms with
  | nil => rfl
  | cons m ms ih =>
    have h1 : backChain ms σ.se = σ.se := ih (fun o ho => hz o (by simp [written, ho]))
    simp only [backChain, h1]
    exact back_zero _ _ (fun o ho => hz o (by simp [written, ho]))

/-! ## nested networks -/

/-- A nested network behaves as its flattening for response, sensitivity and reset. -/
theorem nested_flatten (L : Layout) (g : Prog α) (σ : Store α) :
    g.response σ = (Prog.ofList g.flat).response σ ∧
    g.sensitivity L σ = (Prog.ofList g.flat).sensitivity L σ ∧
    g.reset L σ = (Prog.ofList g.flat).reset L σ := by
  induction g generalizing σ with
  | done => exact ⟨rfl, rfl, rfl⟩
  | prim p r ih =>
    refine ⟨?_, ?_, ?_⟩
    · simp only [Prog.response, Prog.flat, Prog.ofList]
      cases p.response σ with
      | error e => rfl
      | ok σ1 => exact (ih σ1).1
    · simp only [Prog.sensitivity, Prog.flat, Prog.ofList, (ih σ).2.1]
    · simp only [Prog.reset, Prog.flat, Prog.ofList, (ih σ).2.2]
  | sub i r ihi ihr =>
    refine ⟨?_, ?_, ?_⟩
    · simp only [Prog.response, Prog.flat, Prog.response_append, (ihi σ).1]
      cases (Prog.ofList i.flat).response σ with
      | error e => rfl
      | ok σ1 => exact (ihr σ1).1
    · simp only [Prog.sensitivity, Prog.flat, Prog.sensitivity_append, (ihr σ).2.1]
      cases (Prog.ofList r.flat).sensitivity L σ with
      | error e => rfl
      | ok σ1 => exact (ihi σ1).2.1
    · simp only [Prog.reset, Prog.flat, Prog.reset_append, (ihr σ).2.2, (ihi _).2.2]

/-! ## chain rule for the composed response, and the headline theorem

Additional vocabulary (both decidable, `Bool`-valued, on the program itself):
* `g.ssaEntries`  : no store entry is written twice (single assignment at entry granularity);
* `g.rawOrdered`  : read-after-write ordering — every entry read by a module is written by an EARLIER
                    module or by no module at all (a source). -/

/-- Exact Taylor expansion of the composed response along every line: running the SAME executable
    `Prog.response` on the perturbed states `x + t·δ` succeeds iff it does on `x`, and every entry of
    the result is `response x + t · (Fₖ ∘ … ∘ F₁) δ + t² · R`, where the `Fₘ` are the modules
    linearised at the response states and `R = remChain …` is an explicit polynomial remainder.
    Holds for every `t` in every commutative ring, so `fwdChain U (g.lmods σ'.st) δ` IS `d/dt response`. -/
theorem response_taylor (L : Layout) (g : Prog α) (hg : g.WF L) (hs : g.ssaEntries = true)
    (hr : g.rawOrdered = true) (U : Finset Nat) (hU : ∀ p ∈ g.flat, ∀ e ∈ entsOf p.ins, e ∈ U)
    (t : α) (δ : Nat → α) (σ σt σ' : Store α) (hfl : σt.hasSt = σ.hasSt)
    (hst : ∀ e, σt.st e = σ.st e + t * δ e) (h : g.response σ = .ok σ') :
    ∃ σt', g.response σt = .ok σt' ∧ σt'.hasSt = σ'.hasSt ∧
      ∀ e, σt'.st e = σ'.st e + t * fwdChain U (g.lmods σ'.st) δ e
        + t * t * remChain U t g.flat σ'.st δ (fun _ => 0) e := by
  rw [Prog.response_flat] at h ⊢
  have hnd : (outEnts g.flat).Nodup := by simpa [Prog.ssaEntries] using hs
  exact list_response_expand L U g.flat (Prog.WF_flat L g hg) hnd (Prog.ordered_of_raw g hs hr) hU t
    σ σt σ' δ (fun _ => 0) hfl (fun e => by rw [hst e]; ring) h

/-- Dual-number form: for an infinitesimal `t` (`t² = 0`, e.g. `ε` in `α[ε]`), the response at
    `x + t·δ` is exactly `response x + t · fwdChain δ`. -/
theorem response_dual (L : Layout) (g : Prog α) (hg : g.WF L) (hs : g.ssaEntries = true)
    (hr : g.rawOrdered = true) (U : Finset Nat) (hU : ∀ p ∈ g.flat, ∀ e ∈ entsOf p.ins, e ∈ U)
    (t : α) (ht : t * t = 0) (δ : Nat → α) (σ σt σ' : Store α) (hfl : σt.hasSt = σ.hasSt)
    (hst : ∀ e, σt.st e = σ.st e + t * δ e) (h : g.response σ = .ok σ') :
    ∃ σt', g.response σt = .ok σt' ∧
      ∀ e, σt'.st e = σ'.st e + t * fwdChain U (g.lmods σ'.st) δ e := by
  obtain ⟨σt', a, _, c⟩ := response_taylor L g hg hs hr U hU t δ σ σt σ' hfl hst h
  exact ⟨σt', a, fun e => by rw [c e, ht, zero_mul, add_zero]⟩

/-- HEADLINE.  For every well-formed, single-assignment, read-after-write ordered program `g` (any
    wiring, fan-out, repeated and sliced signals, nesting), every input `σ`, every seed `σw.se` placed on
    any signals after the response (`σw` = the response result with arbitrary sensitivities, `Clean`), and
    every direction `δ` of the source entries:  `⟨seed, d/dt response(x + t δ)⟩ = ⟨back-propagated
    sensitivities, δ⟩`, where `d/dt response` is the `t`-coefficient `D` of the exact expansion
    `response (x + t δ) = response x + t · D + t² · R` of the executable model (all `t`). -/
theorem backprop_is_total_derivative_of_response (L : Layout) (hL : L.WF) (g : Prog α) (hg : g.WF L)
    (hs : g.ssaEntries = true) (hr : g.rawOrdered = true) (U : Finset Nat)
    (hUin : ∀ p ∈ g.flat, ∀ e ∈ entsOf p.ins, e ∈ U) (hUout : ∀ p ∈ g.flat, ∀ e ∈ entsOf p.outs, e ∈ U)
    (δ : Nat → α) (hδ : ∀ e ∈ outEnts g.flat, δ e = 0) (t : α)
    (σ σt σ1 σw σ2 : Store α) (hfl : σt.hasSt = σ.hasSt) (hst : ∀ e, σt.st e = σ.st e + t * δ e)
    (h1 : g.response σ = .ok σ1) (hw : σw.st = σ1.st) (hc : Clean L σw)
    (h2 : g.sensitivity L σw = .ok σ2) :
    ∃ (σt1 : Store α) (D R : Nat → α), g.response σt = .ok σt1 ∧
      (∀ e, σt1.st e = σ1.st e + t * D e + t * t * R e) ∧
      D = fwdChain U (g.lmods σ1.st) δ ∧ R = remChain U t g.flat σ1.st δ (fun _ => 0) ∧
      pair U σw.se D = pair U σ2.se δ := by
  obtain ⟨σt1, a, _, c⟩ := response_taylor L g hg hs hr U hUin t δ σ σt σ1 hfl hst h1
  refine ⟨σt1, _, _, a, c, rfl, rfl, ?_⟩
  have hnd : (outEnts g.flat).Nodup := by simpa [Prog.ssaEntries] using hs
  rw [← hw]
  apply backprop_total_derivative L hL g hg σw σ2 hc h2 (SSA_of_nodup g.flat σw.st hnd) U
  · intro m hm
    simp only [Prog.lmods, List.mem_map] at hm
    obtain ⟨p, hp, rfl⟩ := hm
    intro e he
    exact hUout p hp e (by simpa [Prim.lmod] using he)
  · intro e he
    simp only [Prog.lmods, written_map, List.mem_toFinset] at he
    exact hδ e he

/-! ## non-vacuity: a diamond `x → a = x², y = x ⊙ a` inside a nested network, over `ℤ`

`y = x³` entry-wise, so `∂y/∂x = 3x²` arrives along two paths (direct, coefficient `a = x²`, and
through `a`, coefficient `x · 2x`).  All hypotheses of the theorems above hold and the sweep of the
executable model returns the path sum. -/

namespace Demo
def L : Layout := { bents := fun b => [2 * b, 2 * b + 1], keep := fun _ => false }
def x : Sig := ⟨0, 0, false, [0, 1]⟩
def a : Sig := ⟨1, 1, false, [2, 3]⟩
def y : Sig := ⟨2, 2, false, [4, 5]⟩
def pSq : Prim ℤ := ⟨.sq, [x], [a], [2]⟩
def pMul : Prim ℤ := ⟨.mul, [x, a], [y], [2]⟩
/-- `Network(sq, Network(mul))` -/
def g : Prog ℤ := .prim pSq (.sub (.prim pMul .done) .done)
/-- after `response` at `x = (2, 3)` and seeding `y.sensitivity = (1, 1)` -/
def σ : Store ℤ :=
  { st := fun e => [2, 3, 4, 9, 8, 27].getD e 0, se := fun e => if e = 4 ∨ e = 5 then 1 else 0,
    hasSt := fun b => decide (b ≤ 2), hasSe := fun b => decide (b = 2) }
end Demo

open Demo in
example : L.WF ∧ g.WF L ∧ Clean L σ ∧ SSA (g.lmods σ.st) ∧
    (∀ m ∈ g.lmods σ.st, m.outs ⊆ Finset.range 6) ∧ (0 ∉ written (g.lmods σ.st)) ∧
    (∃ σ', g.sensitivity L σ = .ok σ' ∧ σ'.se 0 = 12 ∧ σ'.se 1 = 27) := by
  have hx : x.WF L := ⟨by decide, by decide, fun _ => rfl⟩
  have ha : a.WF L := ⟨by decide, by decide, fun _ => rfl⟩
  have hy : y.WF L := ⟨by decide, by decide, fun _ => rfl⟩
  have h1 : pSq.WF L := ⟨by simp [pSq, hx], by simp [pSq, ha], rfl, rfl, trivial⟩
  have h2 : pMul.WF L := ⟨by simp [pMul, hx, ha], by simp [pMul, hy], rfl, rfl, rfl⟩
  have hl : g.lmods σ.st = [pSq.lmod σ.st, pMul.lmod σ.st] := rfl
  have o1 : (pSq.lmod σ.st).outs = {2, 3} := by decide
  have o2 : (pMul.lmod σ.st).outs = {4, 5} := by decide
  refine ⟨⟨?_⟩, ⟨h1, ⟨h2, trivial⟩, trivial⟩, ?_, ?_, ?_, ?_, ?_⟩
  · intro b b' hb e he he'
    simp only [L, List.mem_cons, List.not_mem_nil, or_false] at he he'
    omega
  · intro b hb e he
    simp only [σ, decide_eq_false_iff_not] at hb
    simp only [L, List.mem_cons, List.not_mem_nil, or_false] at he
    simp only [σ]
    rw [if_neg]; omega
  · rw [hl]; simp only [SSA, written, o1, o2]; decide
  · rw [hl]; intro m hm
    simp only [List.mem_cons, List.not_mem_nil, or_false] at hm
    rcases hm with rfl | rfl
    · rw [o1]; decide
    · rw [o2]; decide
  · rw [hl]; simp only [written, o1, o2]; decide
  · refine ⟨_, rfl, ?_, ?_⟩ <;> decide

/-- `backprop_is_total_derivative_of_response` on the nested diamond: `x = (2,3)`, direction `δ = e₀`,
    `t = 1`, seed `(1,1)` on `y`: all hypotheses hold (the two decidable predicates by evaluation), the
    sweep gives `∂y₀/∂x₀ = 12`, and the response at `x + δ = (3,3)` is `y₀ = 27 = 8 + 1·12 + 1²·7`. -/
example :
    let σ0 : Store ℤ := { st := fun e => [2, 3].getD e 0, se := fun _ => 0,
                          hasSt := fun b => decide (b = 0), hasSe := fun _ => false }
    let δ : Nat → ℤ := fun e => if e = 0 then 1 else 0
    let σp : Store ℤ := { σ0 with st := fun e => σ0.st e + 1 * δ e }
    let seeded : Store ℤ → Store ℤ := fun s =>
      { s with se := fun e => if e = 4 ∨ e = 5 then 1 else 0, hasSe := fun b => decide (b = 2) }
    Demo.g.ssaEntries = true ∧ Demo.g.rawOrdered = true ∧
    (∀ p ∈ Demo.g.flat, ∀ e ∈ entsOf p.ins, e ∈ Finset.range 6) ∧
    (∀ p ∈ Demo.g.flat, ∀ e ∈ entsOf p.outs, e ∈ Finset.range 6) ∧
    (∀ e ∈ outEnts Demo.g.flat, δ e = 0) ∧ σp.hasSt = σ0.hasSt ∧ (∀ e, σp.st e = σ0.st e + 1 * δ e) ∧
    ∃ σ1, Demo.g.response σ0 = .ok σ1 ∧ σ1.st 4 = 8 ∧ Clean Demo.L (seeded σ1) ∧
      ∃ σ2, Demo.g.sensitivity Demo.L (seeded σ1) = .ok σ2 ∧ σ2.se 0 = 12 ∧
        ∃ σt1, Demo.g.response σp = .ok σt1 ∧ σt1.st 4 = 27 := by
  intro σ0 δ σp seeded
  have hf : Demo.g.flat = [Demo.pSq, Demo.pMul] := rfl
  refine ⟨by decide, by decide, ?_, ?_, by decide, rfl, fun _ => rfl, _, rfl, by decide, ?_, _, rfl, by decide, _, rfl, by decide⟩
  · rw [hf]; intro p hp
    simp only [List.mem_cons, List.not_mem_nil, or_false] at hp
    rcases hp with rfl | rfl <;> decide
  · rw [hf]; intro p hp
    simp only [List.mem_cons, List.not_mem_nil, or_false] at hp
    rcases hp with rfl | rfl <;> decide
  · intro b hb e he
    simp only [seeded, decide_eq_false_iff_not] at hb
    simp only [Demo.L, List.mem_cons, List.not_mem_nil, or_false] at he
    simp only [seeded]
    rw [if_neg]; omega

/-- the size side conditions of the local laws are satisfiable with non-trivial data -/
example : (Kind.mul : Kind ℤ).sized 4 ∧ (2 : Nat) < (Kind.fan 2 : Kind ℤ).nOut 3 := by
  exact ⟨rfl, by decide⟩

/-- `unseeded_branch_contributes_nothing` has instances: without a seed on `y`, `mul` is skipped. -/
example : Demo.pMul.skip ({ Demo.σ with hasSe := fun _ => false, se := fun _ => 0 } : Store ℤ) = true := by
  decide

end PymotoVerif.C02
