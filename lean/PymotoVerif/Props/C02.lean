/-
C02 — Network back-propagation yields the total derivative of any module graph.
Property theorems ONLY (helper lemmas: `Lemmas/Backprop.lean` abstract reverse-mode kernel,
`Lemmas/Network.lean` tie between the executable model and the kernel).

Model: `Core/Network.lean` (`Prim.response / sensitivity / reset`, `Prog.response / sensitivity /
reset`, `Signal` / `SignalSlice` accessors) — the definitions the driver executes.
Vocabulary
* `L.WF`         : different base signals own different store entries;
* `g.WF L`       : every signal of every module selects duplicate-free entries of its base, a plain
                   signal all of them; array sizes are consistent (`out_sizes`, halves of mul/dot);
* `Clean L σ`    : "None ≡ 0": a base whose sensitivity is `None` holds zeros in the flat vector
                   (true of every store reachable from a freshly built network, preserved by
                   `sensitivity`, see `sensitivity_is_backChain`);
* `g.lmods st`   : the modules of `g` (nested networks flattened) linearised at the states `st`, at
                   entry granularity; `J o e` sums the kind's local Jacobian over all positions at
                   which `o` / `e` occur, so a signal used twice or sliced is handled by definition;
* `SSA ms`       : single assignment at entry granularity = acyclic wiring without overwriting;
* sources        : entries `e ∉ written ms`.
-/
import PymotoVerif.Lemmas.Network
import PymotoVerif.Lemmas.NetworkFwd

namespace PymotoVerif.C02
open PymotoVerif PymotoVerif.Net Finset

variable {α : Type} [CommRing α]

/-! ## the executable sweep IS the abstract reverse sweep -/

/-- `Module.sensitivity` of the model (skip rule, None→0 seeds, coded adjoint, `add_sensitivity`
    per input in order, slices, repeated inputs) equals `LMod.back` of the linearised module. -/
theorem module_sensitivity_is_back (L : Layout) (hL : L.WF) (p : Prim α) (hp : p.WF L)
    (σ σ' : Store α) (hc : Clean L σ) (h : p.sensitivity L σ = .ok σ') :
    σ'.se = (p.lmod σ.st).back σ.se ∧ Clean L σ' ∧ σ'.st = σ.st :=
  let ⟨a, b, c, _⟩ := Prim.sens_spec L hL p hp σ σ' hc h
  ⟨a, b, c⟩

/-- `Network.sensitivity` of the model on ANY program (nested or not) is `backChain` of its
    linearised modules; states are untouched and the invariant `Clean` is kept. -/
theorem sensitivity_is_backChain (L : Layout) (hL : L.WF) (g : Prog α) (hg : g.WF L)
    (σ σ' : Store α) (hc : Clean L σ) (h : g.sensitivity L σ = .ok σ') :
    σ'.se = backChain (g.lmods σ.st) σ.se ∧ Clean L σ' ∧ σ'.st = σ.st :=
  let ⟨a, b, c, _⟩ := Prog.sens_spec L hL g hg σ σ' hc h
  ⟨a, b, c⟩

/-! ## the linearised modules are the derivatives of the modelled modules -/

/-- Local adjoint law of every module kind of the model: the coded `_sensitivity` (`Kind.adj`) is
    the transposed local Jacobian applied to the seed. -/
theorem local_adjoint_is_transposed_jacobian (k : Kind α) (n : Nat) (hk : k.sized n)
    (x w : Nat → α) (c : Nat) (hc : c < n) :
    k.adj n x w c = ∑ r ∈ range (k.nOut n), k.jac n x r c * w r :=
  Kind.adj_eq k n hk x w c hc

/-- The local Jacobian is the derivative of the coded `_response` (`Kind.f`): exact expansion along
    every line `x + t·δ`, `f (x + t δ) = f x + t · J(x) δ + t² · Q δ` (every kind is a polynomial
    map of degree ≤ 2, so no analysis is needed to characterise the derivative). -/
theorem local_jacobian_is_derivative (k : Kind α) (n : Nat) (hk : k.sized n) (x d : Nat → α)
    (t : α) (r : Nat) (hr : r < k.nOut n) :
    k.f n (fun c => x c + t * d c) r
      = k.f n x r + t * ∑ c ∈ range n, k.jac n x r c * d c + t * t * k.quad n d r := by
  rw [Kind.f_expand k n hk x (fun c => t * d c) r hr, Kind.quad_homogeneous, Finset.mul_sum]
  congr 2
  apply Finset.sum_congr rfl; intro c _; ring

/-! ## back-propagation = transposed Jacobian chain on the sources -/

/-- For every program with single assignment at entry granularity and every seed `σ.se` (on any
    signals: outputs, intermediates, several at once), the sweep leaves on every source entry
    exactly `(F₁ᵀ ∘ … ∘ Fₖᵀ) seed`. -/
theorem backprop_is_transpose (L : Layout) (hL : L.WF) (g : Prog α) (hg : g.WF L)
    (σ σ' : Store α) (hc : Clean L σ) (h : g.sensitivity L σ = .ok σ')
    (hssa : SSA (g.lmods σ.st)) (e : Nat) (he : e ∉ written (g.lmods σ.st)) :
    σ'.se e = trChain (g.lmods σ.st) σ.se e := by
  rw [(Prog.sens_spec L hL g hg σ σ' hc h).1]
  exact backChain_source _ hssa _ e he

/-- Total derivative: for every tangent `T` of the sources, `⟨seed, D(Net)·T⟩ = ⟨sensitivities, T⟩`,
    where `D(Net) = Fₖ ∘ … ∘ F₁` is the chain of the linearised modules (`U` = any finite set of
    entries containing all written ones, e.g. all entries of the store). -/
theorem backprop_total_derivative (L : Layout) (hL : L.WF) (g : Prog α) (hg : g.WF L)
    (σ σ' : Store α) (hc : Clean L σ) (h : g.sensitivity L σ = .ok σ')
    (hssa : SSA (g.lmods σ.st)) (U : Finset Nat) (hU : ∀ m ∈ g.lmods σ.st, m.outs ⊆ U)
    (T : Nat → α) (hT : ∀ e, e ∈ written (g.lmods σ.st) → T e = 0) :
    pair U σ.se (fwdChain U (g.lmods σ.st) T) = pair U σ'.se T := by
  rw [fwdChain_adjoint U _ hU]
  unfold pair
  apply Finset.sum_congr rfl; intro e _
  by_cases he : e ∈ written (g.lmods σ.st)
  · simp [hT e he]
  · rw [backprop_is_transpose L hL g hg σ σ' hc h hssa e he]

/- NOT PROVED (full strength of the property at the level of the composed response):
   `backprop_total_derivative_response` — for a program in which, additionally, nothing is read before it
   is written, running `Prog.response` on the perturbed sources `x + t·T` gives
   `st' = (response x).st + t · fwdChain U (g.lmods (response x).st) T + O(t²)` entry-wise (chain rule for the
   composition of the modules).  What IS proved: each module's `Kind.jac` is the exact derivative of its
   `Kind.f` (`local_jacobian_is_derivative`), each coded adjoint is its transpose
   (`local_adjoint_is_transposed_jacobian`), and the sweep equals the transposed chain of these local
   derivatives (`backprop_total_derivative`).  The composition step is checked on the real code on every run
   by the oracle of `harness/props/c02.py` (exact forward differences / dual numbers through the real network). -/

/-- Fan-out / fan-in: the coefficient with which the seed on entry `o` reaches the source entry `e`
    is the `(o, e)` entry of the product `Fₖ · … · F₁` of the local Jacobian matrices, i.e. the sum
    over all paths from `e` to `o` of the products of local Jacobian entries, each path once. -/
theorem paths_summed_once (L : Layout) (hL : L.WF) (g : Prog α) (hg : g.WF L)
    (σ σ' : Store α) (hc : Clean L σ) (h : g.sensitivity L σ = .ok σ')
    (hssa : SSA (g.lmods σ.st)) (U : Finset Nat) (hU : ∀ m ∈ g.lmods σ.st, m.outs ⊆ U)
    (e : Nat) (heU : e ∈ U) (he : e ∉ written (g.lmods σ.st)) :
    σ'.se e = ∑ o ∈ U, chainMat U (g.lmods σ.st) o e * σ.se o := by
  rw [backprop_is_transpose L hL g hg σ σ' hc h hssa e he]
  exact trChain_eq_mat U _ hU _ e heU

/-! ## branches without seed -/

/-- The skip rule is observationally equal to running the module with zero seeds (`None ≡ 0`):
    when all output sensitivities are `None`, `Module.sensitivity` returns the store unchanged, and
    the un-skipped body (coded adjoint on zero seeds, `add_sensitivity` on every input) produces
    the same sensitivity values and states — nothing is contributed. -/
theorem unseeded_branch_contributes_nothing (L : Layout) (hL : L.WF) (p : Prim α) (hp : p.WF L)
    (σ σ' : Store α) (hc : Clean L σ) (hs : p.skip σ = true)
    (h : p.sensitivityNoSkip L σ = .ok σ') :
    p.sensitivity L σ = .ok σ ∧ σ'.se = σ.se ∧ σ'.st = σ.st := by
  refine ⟨by unfold Prim.sensitivity; rw [if_pos hs], ?_, ?_⟩
  · rw [(Prim.noskip_spec L hL p hp σ σ' hc h).1]
    exact back_zero _ _ (Prim.skip_zero L p hp σ hc hs)
  · exact (Prim.noskip_spec L hL p hp σ σ' hc h).2.2.1

/-- A whole sub-network none of whose written entries carries a seed changes no sensitivity. -/
theorem unseeded_network_contributes_nothing (L : Layout) (hL : L.WF) (g : Prog α) (hg : g.WF L)
    (σ σ' : Store α) (hc : Clean L σ) (h : g.sensitivity L σ = .ok σ')
    (hz : ∀ o ∈ written (g.lmods σ.st), σ.se o = 0) : σ'.se = σ.se := by
  rw [(Prog.sens_spec L hL g hg σ σ' hc h).1]
  generalize g.lmods σ.st = ms at hz
  induction ms with
  | nil => rfl
  | cons m ms ih =>
    have h1 : backChain ms σ.se = σ.se := ih (fun o ho => hz o (by simp [written, ho]))
    simp only [backChain, h1]
    exact back_zero _ _ (fun o ho => hz o (by simp [written, ho]))

/-! ## nested networks -/

/-- A nested network behaves as its flattening for response, sensitivity and reset. -/
theorem nested_flatten (L : Layout) (g : Prog α) (σ : Store α) :
    g.response σ = (Prog.ofList g.flat).response σ ∧
    g.sensitivity L σ = (Prog.ofList g.flat).sensitivity L σ ∧
    g.reset L σ = (Prog.ofList g.flat).reset L σ := by
  induction g generalizing σ with
  | done => exact ⟨rfl, rfl, rfl⟩
  | prim p r ih =>
    refine ⟨?_, ?_, ?_⟩
    · simp only [Prog.response, Prog.flat, Prog.ofList]
      cases p.response σ with
      | error e => rfl
      | ok σ1 => exact (ih σ1).1
    · simp only [Prog.sensitivity, Prog.flat, Prog.ofList, (ih σ).2.1]
    · simp only [Prog.reset, Prog.flat, Prog.ofList, (ih σ).2.2]
  | sub i r ihi ihr =>
    refine ⟨?_, ?_, ?_⟩
    · simp only [Prog.response, Prog.flat, Prog.response_append, (ihi σ).1]
      cases (Prog.ofList i.flat).response σ with
      | error e => rfl
      | ok σ1 => exact (ihr σ1).1
    · simp only [Prog.sensitivity, Prog.flat, Prog.sensitivity_append, (ihr σ).2.1]
      cases (Prog.ofList r.flat).sensitivity L σ with
      | error e => rfl
      | ok σ1 => exact (ihi σ1).2.1
    · simp only [Prog.reset, Prog.flat, Prog.reset_append, (ihr σ).2.2, (ihi _).2.2]

/-! ## non-vacuity: a diamond `x → a = x², y = x ⊙ a` inside a nested network, over `ℤ`

`y = x³` entry-wise, so `∂y/∂x = 3x²` arrives along two paths (direct, coefficient `a = x²`, and
through `a`, coefficient `x · 2x`).  All hypotheses of the theorems above hold and the sweep of the
executable model returns the path sum. -/

namespace Demo
def L : Layout := { bents := fun b => [2 * b, 2 * b + 1], keep := fun _ => false }
def x : Sig := ⟨0, 0, false, [0, 1]⟩
def a : Sig := ⟨1, 1, false, [2, 3]⟩
def y : Sig := ⟨2, 2, false, [4, 5]⟩
def pSq : Prim ℤ := ⟨.sq, [x], [a], [2]⟩
def pMul : Prim ℤ := ⟨.mul, [x, a], [y], [2]⟩
/-- `Network(sq, Network(mul))` -/
def g : Prog ℤ := .prim pSq (.sub (.prim pMul .done) .done)
/-- after `response` at `x = (2, 3)` and seeding `y.sensitivity = (1, 1)` -/
def σ : Store ℤ :=
  { st := fun e => [2, 3, 4, 9, 8, 27].getD e 0, se := fun e => if e = 4 ∨ e = 5 then 1 else 0,
    hasSt := fun b => decide (b ≤ 2), hasSe := fun b => decide (b = 2) }
end Demo

open Demo in
example : L.WF ∧ g.WF L ∧ Clean L σ ∧ SSA (g.lmods σ.st) ∧
    (∀ m ∈ g.lmods σ.st, m.outs ⊆ Finset.range 6) ∧ (0 ∉ written (g.lmods σ.st)) ∧
    (∃ σ', g.sensitivity L σ = .ok σ' ∧ σ'.se 0 = 12 ∧ σ'.se 1 = 27) := by
  have hx : x.WF L := ⟨by decide, by decide, fun _ => rfl⟩
  have ha : a.WF L := ⟨by decide, by decide, fun _ => rfl⟩
  have hy : y.WF L := ⟨by decide, by decide, fun _ => rfl⟩
  have h1 : pSq.WF L := ⟨by simp [pSq, hx], by simp [pSq, ha], rfl, rfl, trivial⟩
  have h2 : pMul.WF L := ⟨by simp [pMul, hx, ha], by simp [pMul, hy], rfl, rfl, rfl⟩
  have hl : g.lmods σ.st = [pSq.lmod σ.st, pMul.lmod σ.st] := rfl
  have o1 : (pSq.lmod σ.st).outs = {2, 3} := by decide
  have o2 : (pMul.lmod σ.st).outs = {4, 5} := by decide
  refine ⟨⟨?_⟩, ⟨h1, ⟨h2, trivial⟩, trivial⟩, ?_, ?_, ?_, ?_, ?_⟩
  · intro b b' hb e he he'
    simp only [L, List.mem_cons, List.not_mem_nil, or_false] at he he'
    omega
  · intro b hb e he
    simp only [σ, decide_eq_false_iff_not] at hb
    simp only [L, List.mem_cons, List.not_mem_nil, or_false] at he
    simp only [σ]
    rw [if_neg]; omega
  · rw [hl]; simp only [SSA, written, o1, o2]; decide
  · rw [hl]; intro m hm
    simp only [List.mem_cons, List.not_mem_nil, or_false] at hm
    rcases hm with rfl | rfl
    · rw [o1]; decide
    · rw [o2]; decide
  · rw [hl]; simp only [written, o1, o2]; decide
  · refine ⟨_, rfl, ?_, ?_⟩ <;> decide

/-- the size side conditions of the local laws are satisfiable with non-trivial data -/
example : (Kind.mul : Kind ℤ).sized 4 ∧ (2 : Nat) < (Kind.fan 2 : Kind ℤ).nOut 3 := by
  exact ⟨rfl, by decide⟩

/-- `unseeded_branch_contributes_nothing` has instances: without a seed on `y`, `mul` is skipped. -/
example : Demo.pMul.skip ({ Demo.σ with hasSe := fun _ => false, se := fun _ => 0 } : Store ℤ) = true := by
  decide

end PymotoVerif.C02
