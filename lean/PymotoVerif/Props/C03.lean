/-
C03 — Results depend only on current inputs and seeds, never on call history.

Generic theorem over the caching-component model `Core/Component.lean`: if the cache satisfies an
invariant under which outputs and sensitivities are functions of the current inputs/seeds only
(`HistFree`), then EVERY protocol-respecting history is observationally equal to the cache-free
specification, hence the cycle after a `reset` equals that of a freshly constructed component.
Instances: stateless modules, "previous solution as initial guess" caches with an exact solver
(LinSolve; uniqueness of the solution), overwrite-caches (OverhangFilter `smax`, SystemOfEquations blocks,
StaticCondensation `X`, ElementOperation's lazily expanded operator).
-/
import PymotoVerif.Core.Component
import Mathlib.LinearAlgebra.Matrix.NonsingularInverse

namespace PymotoVerif.C03
open PymotoVerif.Component

variable {σ ι ο ω γ : Type} [Add γ]

/-- contract discharged per module: under the cache invariant, results are functions of inputs/seeds -/
structure HistFree (M : Comp σ ι ο ω γ) where
  Inv : σ → Prop
  For : σ → ι → Prop
  R : ι → ο
  S : ι → ω → γ
  inv_init : Inv M.init
  resp_out : ∀ c x, Inv c → (M.resp c x).2 = R x
  resp_inv : ∀ c x, Inv c → Inv (M.resp c x).1 ∧ For (M.resp c x).1 x
  sens_out : ∀ c x w, Inv c → For c x → (M.sens c x w).2 = S x w
  sens_inv : ∀ c x w, Inv c → For c x → Inv (M.sens c x w).1 ∧ For (M.sens c x w).1 x

/-- the observable part of a run state -/
structure Obs (ι ο ω γ : Type) where
  x : ι
  y : Option ο
  w : Option ω
  g : Option γ
  fresh : Bool

def obs (s : St σ ι ο ω γ) : Obs ι ο ω γ := ⟨s.x, s.y, s.w, s.g, s.fresh⟩

/-- the cache-free specification: what a freshly built component computes -/
def specStep (R : ι → ο) (S : ι → ω → γ) (o : Obs ι ο ω γ) : Op ι ω → Obs ι ο ω γ
  | .setInput x => { o with x := x, fresh := false }
  | .response => { o with y := some (R o.x), fresh := true }
  | .seed w => { o with w := some w }
  | .sensitivity =>
      match o.w with
      | none => o
      | some w => { o with g := acc o.g (S o.x w) }
  | .reset => { o with w := none, g := none }

def specRun (R : ι → ο) (S : ι → ω → γ) (o : Obs ι ο ω γ) (ops : List (Op ι ω)) : Obs ι ο ω γ :=
  ops.foldl (specStep R S) o

/-- run-state invariant -/
def StInv {M : Comp σ ι ο ω γ} (H : HistFree M) (s : St σ ι ο ω γ) : Prop :=
  H.Inv s.c ∧ (s.fresh = true → H.For s.c s.x)

theorem step_refines {M : Comp σ ι ο ω γ} (H : HistFree M) (s : St σ ι ο ω γ) (op : Op ι ω)
    (hs : StInv H s) (hp : protocolOK s.fresh s.w [op] = true) :
    StInv H (step M s op) ∧ obs (step M s op) = specStep H.R H.S (obs s) op := by
  obtain ⟨hinv, hfor⟩ := hs
  cases op with
  | setInput x => exact ⟨⟨hinv, by simp [step]⟩, rfl⟩
  | response =>
    obtain ⟨h1, h2⟩ := H.resp_inv s.c s.x hinv
    refine ⟨⟨h1, fun _ => h2⟩, ?_⟩
    simp [step, obs, specStep, H.resp_out s.c s.x hinv]
  | seed w => exact ⟨⟨hinv, hfor⟩, rfl⟩
  | sensitivity =>
    cases hw : s.w with
    | none =>
      refine ⟨?_, ?_⟩
      · simp only [step, hw]; exact ⟨hinv, hfor⟩
      · simp [step, obs, specStep, hw]
    | some w =>
      have hf : s.fresh = true := by
        simp [protocolOK, hw] at hp; exact hp
      obtain ⟨h1, h2⟩ := H.sens_inv s.c s.x w hinv (hfor hf)
      refine ⟨?_, ?_⟩
      · simp only [step, hw]; exact ⟨h1, fun _ => h2⟩
      · simp [step, obs, specStep, hw, H.sens_out s.c s.x w hinv (hfor hf)]
  | reset => exact ⟨⟨hinv, hfor⟩, rfl⟩

/-- protocol flags (fresh, seed present) after one operation -/
def flagsAfter (f : Bool) (w : Option ω) : Op ι ω → Bool × Option ω
  | .setInput _ => (false, w)
  | .response => (true, w)
  | .seed w' => (f, some w')
  | .sensitivity => (f, w)
  | .reset => (f, none)

theorem protocolOK_cons (f : Bool) (w : Option ω) (op : Op ι ω) (t : List (Op ι ω)) :
    protocolOK f w (op :: t) =
      (protocolOK f w [op] && protocolOK (flagsAfter f w op).1 (flagsAfter f w op).2 t) := by
  cases op <;> simp [protocolOK, flagsAfter]

theorem flags_step (M : Comp σ ι ο ω γ) (s : St σ ι ο ω γ) (op : Op ι ω) :
    ((step M s op).fresh, (step M s op).w) = flagsAfter s.fresh s.w op := by
  cases op with
  | sensitivity => cases hw : s.w <;> simp [step, flagsAfter, hw]
  | _ => simp [step, flagsAfter]

/-- **refinement**: every protocol-respecting history is observationally the cache-free specification -/
theorem run_refines_spec {M : Comp σ ι ο ω γ} (H : HistFree M) (ops : List (Op ι ω)) (s : St σ ι ο ω γ)
    (hs : StInv H s) (hp : protocolOK s.fresh s.w ops = true) :
    StInv H (run M s ops) ∧ obs (run M s ops) = specRun H.R H.S (obs s) ops := by
  induction ops generalizing s with
  | nil => exact ⟨hs, rfl⟩
  | cons op t ih =>
    rw [protocolOK_cons, Bool.and_eq_true] at hp
    obtain ⟨h1, h2⟩ := step_refines H s op hs hp.1
    have hfl := flags_step M s op
    have hp2 : protocolOK (step M s op).fresh (step M s op).w t = true := by
      have e1 : (step M s op).fresh = (flagsAfter s.fresh s.w op).1 := congrArg Prod.fst hfl
      have e2 : (step M s op).w = (flagsAfter s.fresh s.w op).2 := congrArg Prod.snd hfl
      rw [e1, e2]; exact hp.2
    obtain ⟨h3, h4⟩ := ih (step M s op) h1 hp2
    refine ⟨by simpa [run] using h3, ?_⟩
    simp only [run, specRun, List.foldl_cons] at h4 ⊢
    rw [h4, h2]

omit [Add γ] in
theorem start_inv {M : Comp σ ι ο ω γ} (H : HistFree M) (x : ι) : StInv H (start M x) :=
  ⟨H.inv_init, by simp [start]⟩

/-- the specification forgets everything at `reset; setInput x; response` -/
theorem spec_forgets (R : ι → ο) (S : ι → ω → γ) (o o' : Obs ι ο ω γ) (x : ι) (rest : List (Op ι ω))
    (ho' : o'.w = none ∧ o'.g = none) :
    specRun R S o (.reset :: .setInput x :: .response :: rest)
      = specRun R S o' (.setInput x :: .response :: rest) := by
  simp only [specRun, List.foldl_cons, specStep]
  congr 1
  obtain ⟨h1, h2⟩ := ho'
  cases o'; simp_all

theorem specRun_append (R : ι → ο) (S : ι → ω → γ) (o : Obs ι ο ω γ) (a b : List (Op ι ω)) :
    specRun R S o (a ++ b) = specRun R S (specRun R S o a) b := by
  simp [specRun, List.foldl_append]

/-- **history independence**: after ANY protocol-respecting history `h`, the cycle
    `reset; set inputs := x; response; rest` (rest = arbitrary seeds / sensitivity calls / further updates)
    produces exactly the states and sensitivities of a freshly constructed component evaluated on
    `set inputs := x; response; rest`. -/
theorem history_independent {M : Comp σ ι ο ω γ} (H : HistFree M) (h rest : List (Op ι ω)) (x0 x0' x : ι)
    (hp : protocolOK false none (h ++ .reset :: .setInput x :: .response :: rest) = true)
    (hp' : protocolOK false none (.setInput x :: .response :: rest) = true) :
    obs (run M (start M x0) (h ++ .reset :: .setInput x :: .response :: rest))
      = obs (run M (start M x0') (.setInput x :: .response :: rest)) := by
  have e1 := (run_refines_spec H _ (start M x0) (start_inv H x0) (by simpa [start] using hp)).2
  have e2 := (run_refines_spec H _ (start M x0') (start_inv H x0') (by simpa [start] using hp')).2
  rw [e1, e2, specRun_append]
  exact spec_forgets H.R H.S _ _ x rest ⟨rfl, rfl⟩

/-- `reset()` leaves no sensitivity behind -/
theorem reset_leaves_nothing (M : Comp σ ι ο ω γ) (s : St σ ι ο ω γ) :
    (step M s .reset).w = none ∧ (step M s .reset).g = none := ⟨rfl, rfl⟩

/-- `sensitivity()` without any seed changes nothing -/
theorem sensitivity_without_seed_is_noop (M : Comp σ ι ο ω γ) (s : St σ ι ο ω γ) (h : s.w = none) :
    step M s .sensitivity = s := by
  simp [step, h]

/-- neither `reset` nor `seed` nor `sensitivity` changes an output state -/
theorem outputs_only_change_at_response (M : Comp σ ι ο ω γ) (s : St σ ι ο ω γ) (op : Op ι ω)
    (h : op ≠ .response) : (step M s op).y = s.y := by
  cases op with
  | response => exact absurd rfl h
  | sensitivity => cases hw : s.w <;> simp [step, hw]
  | _ => rfl

/-! ## instances of the contract -/

/-- stateless modules (FilterConv, Filter, AssembleGeneral, EinSum, …): `σ = Unit` -/
def statelessHistFree (R : ι → ο) (S : ι → ω → γ) :
    HistFree (σ := Unit) ⟨(), fun _ x => ((), R x), fun _ x w => ((), S x w)⟩ where
  Inv := fun _ => True
  For := fun _ _ => True
  R := R
  S := S
  inv_init := trivial
  resp_out := fun _ _ _ => rfl
  resp_inv := fun _ _ _ => ⟨trivial, trivial⟩
  sens_out := fun _ _ _ _ _ => rfl
  sens_inv := fun _ _ _ _ _ => ⟨trivial, trivial⟩

/-- overwrite caches: `response` stores a function `K x` of the current inputs (OverhangFilter `smax`,
    SystemOfEquations blocks and solution, StaticCondensation `X`, Aggregation `select`/`y`, LinSolve `u`),
    `sensitivity` reads it and leaves it unchanged; whatever was stored before is irrelevant. -/
def overwriteHistFree {κ : Type} (k0 : κ) (K : ι → κ) (R : ι → ο) (S : κ → ι → ω → γ) :
    HistFree (σ := κ) ⟨k0, fun _ x => (K x, R x), fun c x w => (c, S c x w)⟩ where
  Inv := fun _ => True
  For := fun c x => c = K x
  R := R
  S := fun x w => S (K x) x w
  inv_init := trivial
  resp_out := fun _ _ _ => rfl
  resp_inv := fun _ _ _ => ⟨trivial, rfl⟩
  sens_out := fun c x w _ h => by subst h; rfl
  sens_inv := fun c x w _ h => ⟨trivial, h⟩

/-- "previous result as initial guess" caches (LinSolve `u`, LDAS data bases, cached factorisations):
    the solver `solve guess x` is only required to return THE solution (`IsSol x`), which is unique;
    then the guess — i.e. the whole history — is irrelevant. -/
def guessHistFree {κ : Type} (k0 : κ) (solve : κ → ι → κ × ο) (IsSol : ι → ο → Prop)
    (huniq : ∀ x y y', IsSol x y → IsSol x y' → y = y')
    (hsol : ∀ c x, IsSol x (solve c x).2)
    (S : ι → ω → γ) :
    HistFree (σ := κ) ⟨k0, solve, fun c x w => (c, S x w)⟩ where
  Inv := fun _ => True
  For := fun _ _ => True
  R := fun x => (solve k0 x).2
  S := S
  inv_init := trivial
  resp_out := fun c x _ => huniq x _ _ (hsol c x) (hsol k0 x)
  resp_inv := fun _ _ _ => ⟨trivial, trivial⟩
  sens_out := fun _ _ _ _ _ => rfl
  sens_inv := fun _ _ _ _ _ => ⟨trivial, trivial⟩


/-- caches that influence BOTH the response and the sensitivity computation but only through quantities that are
    uniquely determined by the current inputs / seeds (LinSolve + LDAWrapper: previous solution as initial guess, stored
    solution/right-hand-side bases, cached factorisation and symmetry flags — every answer is THE solution of a
    non-singular system, see C06 `ldas_correct`, C07 `linsolve_eq`) -/
def uniqueHistFree {κ : Type} (k0 : κ) (solve : κ → ι → κ × ο) (adj : κ → ι → ω → κ × γ)
    (IsSol : ι → ο → Prop) (IsAdj : ι → ω → γ → Prop)
    (huniq : ∀ x y y', IsSol x y → IsSol x y' → y = y')
    (huniqA : ∀ x w g g', IsAdj x w g → IsAdj x w g' → g = g')
    (hsol : ∀ c x, IsSol x (solve c x).2) (hadj : ∀ c x w, IsAdj x w (adj c x w).2) :
    HistFree (σ := κ) ⟨k0, solve, adj⟩ where
  Inv := fun _ => True
  For := fun _ _ => True
  R := fun x => (solve k0 x).2
  S := fun x w => (adj k0 x w).2
  inv_init := trivial
  resp_out := fun c x _ => huniq x _ _ (hsol c x) (hsol k0 x)
  resp_inv := fun _ _ _ => ⟨trivial, trivial⟩
  sens_out := fun c x w _ _ => huniqA x w _ _ (hadj c x w) (hadj k0 x w)
  sens_inv := fun _ _ _ _ _ => ⟨trivial, trivial⟩

section linsolve
open Matrix
variable {n k : Type} [Fintype n] [DecidableEq n] {F : Type} [Field F]

/-- the solution of a non-singular system is unique (any number of right-hand sides) -/
theorem solution_unique (A : Matrix n n F) (hA : IsUnit A.det) (B X Y : Matrix n k F)
    (hX : A * X = B) (hY : A * Y = B) : X = Y := by
  have h : A⁻¹ * (A * X) = A⁻¹ * (A * Y) := by rw [hX, hY]
  rwa [← Matrix.mul_assoc, ← Matrix.mul_assoc, Matrix.nonsing_inv_mul A hA, Matrix.one_mul, Matrix.one_mul] at h

/-- inputs of LinSolve: a non-singular matrix and a block of right-hand sides -/
abbrev LinIn (n k F : Type) [Fintype n] [DecidableEq n] [Field F] :=
  { p : Matrix n n F × Matrix n k F // IsUnit p.1.det }

/-- **LinSolve is history independent for ANY cache and ANY solver that returns solutions**: whatever the solver
    derives from its cache (initial guess, LDAS data bases, reused factorisation, stored flags), as long as each
    response solves `A X = B` and each adjoint solve `Aᵀ Λ = W`, every protocol-respecting history gives the results of a
    fresh module (instantiate `history_independent` with this contract). -/
def linsolveHistFree {κ : Type} (k0 : κ)
    (solve : κ → LinIn n k F → κ × Matrix n k F) (adj : κ → LinIn n k F → Matrix n k F → κ × Matrix n k F)
    (hsol : ∀ c x, x.1.1 * (solve c x).2 = x.1.2)
    (hadj : ∀ c x W, x.1.1ᵀ * (adj c x W).2 = W) :
    HistFree (σ := κ) ⟨k0, solve, adj⟩ :=
  uniqueHistFree k0 solve adj (fun x X => x.1.1 * X = x.1.2) (fun x W L => x.1.1ᵀ * L = W)
    (fun x X Y hX hY => solution_unique x.1.1 x.2 x.1.2 X Y hX hY)
    (fun x W L L' hL hL' => solution_unique x.1.1ᵀ (by rw [Matrix.det_transpose]; exact x.2) W L L' hL hL')
    hsol hadj

end linsolve

/-! ## non-vacuity: a concrete cached component and a concrete history -/
example :
    let M : Comp Nat Nat Nat Nat Nat := ⟨0, fun _ x => (x * x, x + 1), fun c x w => (c, c * w + x)⟩
    obs (run M (start M 7) [.setInput 3, .response, .seed 2, .sensitivity, .sensitivity,
        .reset, .setInput 5, .response, .seed 4, .sensitivity])
      = obs (run M (start M 0) [.setInput 5, .response, .seed 4, .sensitivity]) :=
  history_independent (overwriteHistFree 0 (fun x => x * x) (fun x => x + 1) (fun c x w => c * w + x))
    [.setInput 3, .response, .seed 2, .sensitivity, .sensitivity] [.seed 4, .sensitivity] 7 0 5 rfl rfl

end PymotoVerif.C03
