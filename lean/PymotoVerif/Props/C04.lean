/-
C04 — Backpropagation is linear in the seed, accumulative and leaves states untouched.

Two layers.
* abstract (`LMod.back`, `Lemmas/Backprop.lean`): what `Module.sensitivity` + `Signal.add_sensitivity` do to the
  sensitivity store for ANY module whose `_sensitivity` is the transposed local Jacobian applied to the seeds:
  the added contribution is linear in the seeds, and a second call without reset adds it a second time.
* model (`Core/Network.lean`, the executable dispatch model tied to core_objects.py by the C02/C04
  correspondence): `sensitivity` and `reset` never change a state, `response` never changes a sensitivity and
  changes no state outside its outputs, and the two abstract facts hold for the model's `Prim.sensitivity`.
Per-module linearity of the hand-written `_sensitivity` routines of the library is C01's adjoint theorem
(an adjoint of a linear map is linear); the module-zoo oracle checks it on the real code.
-/
import PymotoVerif.Props.C02

namespace PymotoVerif.C04
open PymotoVerif PymotoVerif.Net Finset

variable {ι : Type} [DecidableEq ι] {α : Type} [CommRing α]

/-- the contribution a module adds to entry `e`: `Σ_{o ∈ outs} J o e · A o` -/
def contribution (m : LMod ι α) (A : ι → α) : ι → α := fun e => ∑ o ∈ m.outs, m.J o e * A o

theorem back_eq_add_contribution (m : LMod ι α) (A : ι → α) (e : ι) :
    m.back A e = A e + contribution m A e := rfl

/-- **linear in the seed**: seeding `a·w₁ + b·w₂` adds `a·g₁ + b·g₂` -/
theorem contribution_linear (m : LMod ι α) (A B : ι → α) (a b : α) (e : ι) :
    contribution m (fun i => a * A i + b * B i) e = a * contribution m A e + b * contribution m B e := by
  simp only [contribution, Finset.mul_sum, ← Finset.sum_add_distrib]
  apply Finset.sum_congr rfl; intro o _; ring

theorem back_linear (m : LMod ι α) (A B : ι → α) (a b : α) (e : ι) :
    m.back (fun i => a * A i + b * B i) e = a * m.back A e + b * m.back B e := by
  simp only [back_eq_add_contribution, contribution_linear]; ring

/-- no output entry of the module is one of its own inputs -/
def NoSelfFeed (m : LMod ι α) : Prop := ∀ o ∈ m.outs, ∀ o' ∈ m.outs, m.J o o' = 0

/-- the seeds are not changed by the module's own sensitivity call -/
theorem back_keeps_seeds (m : LMod ι α) (h : NoSelfFeed m) (A : ι → α) (o : ι) (ho : o ∈ m.outs) :
    m.back A o = A o := by
  simp only [LMod.back]
  rw [Finset.sum_eq_zero (fun o' ho' => by rw [h o' ho' o ho, zero_mul]), add_zero]

/-- **accumulative**: calling `sensitivity()` twice without reset adds the same contribution twice -/
theorem sensitivity_twice (m : LMod ι α) (h : NoSelfFeed m) (A : ι → α) (e : ι) :
    m.back (m.back A) e = A e + 2 * contribution m A e := by
  have hc : contribution m (m.back A) e = contribution m A e := by
    simp only [contribution]
    apply Finset.sum_congr rfl; intro o ho
    rw [back_keeps_seeds m h A o ho]
  rw [back_eq_add_contribution, hc, back_eq_add_contribution]; ring

/-- n calls add n times the contribution -/
theorem sensitivity_n_times (m : LMod ι α) (h : NoSelfFeed m) (A : ι → α) (e : ι) (n : Nat) :
    (Nat.iterate m.back n A) e = A e + (n : α) * contribution m A e := by
  induction n generalizing A with
  | zero => simp
  | succ n ih =>
    rw [Function.iterate_succ, Function.comp_apply, ih (m.back A)]
    have hc : contribution m (m.back A) e = contribution m A e := by
      simp only [contribution]
      apply Finset.sum_congr rfl; intro o ho
      rw [back_keeps_seeds m h A o ho]
    rw [hc, back_eq_add_contribution]; push_cast; ring

/-! ## the executable dispatch model -/

section model
variable {β : Type} [CommRing β]

/-- `sensitivity()` leaves every state untouched (and is `LMod.back` on the sensitivities) -/
theorem sensitivity_leaves_states (L : Layout) (hL : L.WF) (p : Prim β) (hp : p.WF L)
    (σ σ' : Store β) (hc : Clean L σ) (h : p.sensitivity L σ = .ok σ') : σ'.st = σ.st :=
  (C02.module_sensitivity_is_back L hL p hp σ σ' hc h).2.2

/-- model-level linearity: three sensitivity calls on the same states with seeds `w₁`, `w₂`, `a w₁ + b w₂` -/
theorem model_sensitivity_linear (L : Layout) (hL : L.WF) (p : Prim β) (hp : p.WF L)
    (σ1 σ2 σ12 σ1' σ2' σ12' : Store β) (a b : β)
    (hc1 : Clean L σ1) (hc2 : Clean L σ2) (hc12 : Clean L σ12)
    (hst2 : σ2.st = σ1.st) (hst12 : σ12.st = σ1.st)
    (hse : σ12.se = fun i => a * σ1.se i + b * σ2.se i)
    (h1 : p.sensitivity L σ1 = .ok σ1') (h2 : p.sensitivity L σ2 = .ok σ2') (h12 : p.sensitivity L σ12 = .ok σ12')
    (e : Nat) : σ12'.se e = a * σ1'.se e + b * σ2'.se e := by
  rw [(C02.module_sensitivity_is_back L hL p hp σ1 σ1' hc1 h1).1,
      (C02.module_sensitivity_is_back L hL p hp σ2 σ2' hc2 h2).1,
      (C02.module_sensitivity_is_back L hL p hp σ12 σ12' hc12 h12).1, hst2, hst12, hse]
  exact back_linear _ _ _ a b e

/-- model-level accumulation: a second `sensitivity()` call without reset adds the same contribution again -/
theorem model_sensitivity_twice (L : Layout) (hL : L.WF) (p : Prim β) (hp : p.WF L)
    (σ σ' σ'' : Store β) (hc : Clean L σ)
    (hns : NoSelfFeed (p.lmod σ.st))
    (h1 : p.sensitivity L σ = .ok σ') (h2 : p.sensitivity L σ' = .ok σ'') (e : Nat) :
    σ''.se e = σ.se e + 2 * contribution (p.lmod σ.st) σ.se e := by
  obtain ⟨e1, hc', hst⟩ := C02.module_sensitivity_is_back L hL p hp σ σ' hc h1
  obtain ⟨e2, _, _⟩ := C02.module_sensitivity_is_back L hL p hp σ' σ'' hc' h2
  rw [e2, hst, e1]
  exact sensitivity_twice _ hns _ e

/-- `resetSig` never touches a state -/
theorem resetSig_st (L : Layout) (s : Sig) (σ : Store β) :
    (resetSig L s σ).st = σ.st ∧ (resetSig L s σ).hasSt = σ.hasSt := by
  unfold resetSig
  split
  · split
    · exact ⟨rfl, rfl⟩
    · split <;> exact ⟨rfl, rfl⟩
  · exact ⟨rfl, rfl⟩

theorem foldl_resetSig_st (L : Layout) (l : List Sig) (σ : Store β) :
    (l.foldl (fun σ s => resetSig L s σ) σ).st = σ.st ∧
    (l.foldl (fun σ s => resetSig L s σ) σ).hasSt = σ.hasSt := by
  induction l generalizing σ with
  | nil => exact ⟨rfl, rfl⟩
  | cons s t ih =>
    simp only [List.foldl_cons]
    obtain ⟨a, b⟩ := ih (resetSig L s σ)
    obtain ⟨c, d⟩ := resetSig_st L s σ
    exact ⟨a.trans c, b.trans d⟩

/-- **`reset()` changes no state** -/
theorem reset_leaves_states (L : Layout) (p : Prim β) (σ : Store β) :
    (p.reset L σ).st = σ.st ∧ (p.reset L σ).hasSt = σ.hasSt := by
  unfold Prim.reset
  obtain ⟨a, b⟩ := foldl_resetSig_st L p.ins (p.outs.foldl (fun σ s => resetSig L s σ) σ)
  obtain ⟨c, d⟩ := foldl_resetSig_st L p.outs σ
  exact ⟨a.trans c, b.trans d⟩

theorem setState_se (s : Sig) (v : Nat → β) (σ σ' : Store β) (h : setState s v σ = .ok σ') :
    σ'.se = σ.se ∧ σ'.hasSe = σ.hasSe ∧ ∀ i, i ∉ s.ents → σ'.st i = σ.st i := by
  unfold setState at h
  split at h
  · split at h
    · cases h; exact ⟨rfl, rfl, fun i hi => writeFrom_not_mem _ _ _ _ _ hi⟩
    · cases h
  · cases h; exact ⟨rfl, rfl, fun i hi => writeFrom_not_mem _ _ _ _ _ hi⟩

theorem writeOuts_se (outs : List Sig) (zs : List Nat) (off : Nat) (y : Nat → β) (σ σ' : Store β)
    (h : writeOuts outs zs off y σ = .ok σ') :
    σ'.se = σ.se ∧ σ'.hasSe = σ.hasSe ∧ ∀ i, i ∉ entsOf outs → σ'.st i = σ.st i := by
  induction outs generalizing zs off σ with
  | nil => simp only [writeOuts] at h; cases h; exact ⟨rfl, rfl, fun _ _ => rfl⟩
  | cons s ss ih =>
    cases zs with
    | nil => simp only [writeOuts] at h; cases h; exact ⟨rfl, rfl, fun _ _ => rfl⟩
    | cons z zs =>
      simp only [writeOuts] at h
      split at h
      · rename_i σ1 h1
        obtain ⟨a, b, c⟩ := setState_se s _ σ σ1 h1
        obtain ⟨a', b', c'⟩ := ih zs (off + z) σ1 h
        refine ⟨a'.trans a, b'.trans b, fun i hi => ?_⟩
        have hi' : i ∉ s.ents ∧ i ∉ entsOf ss := by
          simp only [entsOf, List.flatMap_cons, List.mem_append, not_or] at hi
          exact hi
        rw [c' i hi'.2, c i hi'.1]
      · cases h

/-- **`response()` changes no sensitivity, and no state other than those of its outputs**
    (in particular no input state, unless the wiring lists a signal as input AND output) -/
theorem response_leaves_sens_and_inputs (p : Prim β) (σ σ' : Store β) (h : p.response σ = .ok σ') :
    σ'.se = σ.se ∧ σ'.hasSe = σ.hasSe ∧ ∀ i, i ∉ entsOf p.outs → σ'.st i = σ.st i := by
  unfold Prim.response at h
  split at h
  · cases h
  · split at h
    · cases h
    · exact writeOuts_se _ _ _ _ _ _ h

end model

/-! ## non-vacuity -/
example : NoSelfFeed (⟨{2}, fun o i => if o = 2 ∧ i < 2 then 3 else 0⟩ : LMod Nat ℤ) := by
  intro o ho o' ho'
  simp only [Finset.mem_singleton] at ho ho'
  subst ho; subst ho'; simp
example : (⟨{2}, fun o i => if o = 2 ∧ i < 2 then 3 else 0⟩ : LMod Nat ℤ).back
    ((⟨{2}, fun o i => if o = 2 ∧ i < 2 then 3 else 0⟩ : LMod Nat ℤ).back (fun i => if i = 2 then 5 else 0)) 1 = 30 := by
  decide

end PymotoVerif.C04
