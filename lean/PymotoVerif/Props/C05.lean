/- C05 — every linear solver solves the requested (transposed / adjoint) system.

   Theorems about the models `LA/Solvers.lean`, `LA/CG.lean`, over ANY field with conjugation (`[Field α] [StarRing α]`:
   ℚ, ℝ with trivial star; ℚ(i), ℂ with conjugation), any size `n`, any number `k` of right-hand sides (a 1-D rhs is the
   block with `k = 1`; no hypothesis on the rank of the block, so linearly dependent columns are covered), and every
   `trans ∈ {N,T,H}`.  scipy's factorisations and triangular solves enter as hypotheses (contracts), never as axioms.
   The result of every model has by construction the type (shape) `Matrix (Fin n) (Fin k) α` of the rhs (`*_shape`).

   CG: proved are the residual invariant and the exit guarantee (partial correctness). Convergence within `maxit`
   is NOT proved (`cg_correct_partial`). -/
import PymotoVerif.Lemmas.Solvers
import PymotoVerif.Lemmas.Orth
import PymotoVerif.Lemmas.MGInterp
import Mathlib.Analysis.Real.Sqrt
import Mathlib.Data.Real.Star
import Mathlib.Algebra.Star.Rat
import Mathlib.LinearAlgebra.Matrix.Notation
import Mathlib.Tactic.Linarith
import Mathlib.Tactic.FinCases
import Mathlib.Tactic.NormNum

namespace PymotoVerif.Props.C05
open Matrix PymotoVerif.LA

variable {α : Type*} [Field α] [StarRing α] {n k : ℕ}

/-! ## SolverDiagonal -/

/-- diagonal matrix with non-zero diagonal: `op_trans(A) x = b`, block rhs -/
theorem solveDiag_correct (A : Mat n n α) (hdiag : ∀ i j, i ≠ j → A i j = 0) (hnz : ∀ i, A i i ≠ 0)
    (t : Trans) (B : Mat n k α) : opT t A * solveDiag (diagOf A) t B = B := by
  have hA : A = Matrix.diagonal (fun i => A i i) := by
    ext i j
    by_cases h : i = j
    · subst h; simp
    · simp [Matrix.diagonal_apply_ne _ h, hdiag i j h]
  have hs : ∀ i, star (A i i) ≠ 0 := fun i => by simpa using hnz i
  ext i j
  cases t
  · rw [opT, hA, Matrix.diagonal_mul]; simp [solveDiag, diagFor, diagOf, mul_div_cancel₀ _ (hnz i)]
  · rw [opT, hA, Matrix.diagonal_transpose, Matrix.diagonal_mul]
    simp [solveDiag, diagFor, diagOf, mul_div_cancel₀ _ (hnz i)]
  · rw [opT, hA, Matrix.diagonal_conjTranspose, Matrix.diagonal_mul]
    simp [solveDiag, diagFor, diagOf, mul_div_cancel₀ _ (hs i)]

/-- 1-D right-hand side (`rhs.ndim == 1` branch) -/
theorem solveDiagVec_correct (A : Mat n n α) (hdiag : ∀ i j, i ≠ j → A i j = 0) (hnz : ∀ i, A i i ≠ 0)
    (t : Trans) (b : Fin n → α) : opT t A *ᵥ solveDiagVec (diagOf A) t b = b := by
  have h := solveDiag_correct (k := 1) A hdiag hnz t (fun i _ => b i)
  funext i
  have := congrFun (congrFun h i) 0
  simpa [Matrix.mul_apply, Matrix.mulVec, dotProduct, solveDiag, solveDiagVec] using this

example : opT .H !![(2 : ℚ), 0; 0, 3] * solveDiag (diagOf !![(2 : ℚ), 0; 0, 3]) .H !![1, 2; 3, 4] = !![1, 2; 3, 4] :=
  solveDiag_correct _ (by intro i j h; fin_cases i <;> fin_cases j <;> simp at h ⊢)
    (by intro i; fin_cases i <;> simp) _ _

/-! ## SolverDenseQR -/

/-- contract: `A = q r`, `q` unitary, `r` the triangular factor handled correctly by `solve_triangular` -/
theorem solveQR_correct (tri : TriSolve α n k) (A q r : Mat n n α) (hA : A = q * r)
    (hq : qᴴ * q = 1) (hq' : q * qᴴ = 1) (hr : TriOK tri r false false) (t : Trans) (B : Mat n k α) :
    opT t A * solveQR tri q r t B = B := by
  subst hA
  cases t
  · simp only [opT, solveQR, withMemo_eq]
    rw [Matrix.mul_assoc, hr.N, ← Matrix.mul_assoc, hq', Matrix.one_mul]
  · simp only [opT, solveQR, withMemo_eq]
    have h1 : qᵀ * conjM q = 1 := by
      rw [← conjM_conjTranspose, ← conjM_mul, hq, conjM_one]
    rw [Matrix.transpose_mul, Matrix.mul_assoc, ← Matrix.mul_assoc qᵀ, h1, Matrix.one_mul, hr.T]
  · simp only [opT, solveQR, withMemo_eq]
    rw [Matrix.conjTranspose_mul, Matrix.mul_assoc, ← Matrix.mul_assoc qᴴ, hq, Matrix.one_mul, hr.H]

/-! ## SolverDenseLU -/

/-- contract: `A = p l u`, `p` a real permutation matrix (`pᵀ p = p pᵀ = 1`, `pᴴ = pᵀ`) -/
theorem solveLU_correct (tri : TriSolve α n k) (A p l u : Mat n n α) (hA : A = p * l * u)
    (hp : pᵀ * p = 1) (hp' : p * pᵀ = 1) (hreal : pᴴ = pᵀ)
    (hl : TriOK tri l true false) (hu : TriOK tri u false false) (t : Trans) (B : Mat n k α) :
    opT t A * solveLU tri p l u t B = B := by
  subst hA
  cases t
  · simp only [opT, solveLU, withMemo_eq]
    rw [Matrix.mul_assoc, hu.N, Matrix.mul_assoc, hl.N, ← Matrix.mul_assoc, hp', Matrix.one_mul]
  · simp only [opT, solveLU, withMemo_eq]
    rw [Matrix.transpose_mul, Matrix.transpose_mul, Matrix.mul_assoc, Matrix.mul_assoc, ← Matrix.mul_assoc pᵀ, hp,
      Matrix.one_mul, hl.T, hu.T]
  · simp only [opT, solveLU, withMemo_eq]
    rw [Matrix.conjTranspose_mul, Matrix.conjTranspose_mul, hreal, Matrix.mul_assoc, Matrix.mul_assoc,
      ← Matrix.mul_assoc pᵀ, hp, Matrix.one_mul, hl.H, hu.H]

/-! ## SolverDenseLDL -/

/-- the factorisation contract of `scipy.linalg.ldl` together with the state built by `update` -/
structure LDLContract (tri : TriSolve α n k) (A : Mat n n α) (s : LDLState α n) : Prop where
  perm : Function.Bijective s.p
  lp_def : s.lp = s.l.submatrix s.p id
  d1_left : s.d1 * s.d = 1
  d1_right : s.d * s.d1 = 1
  factor : A = if s.hermitian then s.l * s.d * s.lᴴ else s.l * s.d * s.lᵀ
  tri_ok : TriOK tri s.lp true true

/-- Hermitian (`A = l d lᴴ`) and complex-symmetric (`A = l d lᵀ`) LDL, all three modes, block rhs -/
theorem solveLDL_correct (tri : TriSolve α n k) (A : Mat n n α) (s : LDLState α n) (c : LDLContract tri A s)
    (t : Trans) (B : Mat n k α) : opT t A * solveLDL tri s t B = B := by
  have hid : Function.Bijective (id : Fin n → Fin n) := Function.bijective_id
  have hlpH : (s.lᴴ).submatrix id s.p = s.lpᴴ := by rw [c.lp_def, Matrix.conjTranspose_submatrix]
  have hlpT : (s.lᵀ).submatrix id s.p = s.lpᵀ := by rw [c.lp_def, Matrix.transpose_submatrix]
  have hdT : s.dᵀ * s.d1ᵀ = 1 := by rw [← Matrix.transpose_mul, c.d1_left, Matrix.transpose_one]
  have hdH : s.dᴴ * s.d1ᴴ = 1 := by rw [← Matrix.conjTranspose_mul, c.d1_left, Matrix.conjTranspose_one]
  have hconj : ∀ X : Mat n k α, conjM s.lp * conjM (tri s.lp true true .N (conjM X)) = X := by
    intro X; rw [← conjM_mul, c.tri_ok.N, conjM_conjM]
  have hu2 : ∀ X : Mat n k α, conjM (s.d1ᴴ * conjM X) = s.d1ᵀ * X := by
    intro X; rw [conjM_mul, conjM_conjTranspose, conjM_conjM]
  have hA := c.factor
  cases hh : s.hermitian
  · -- complex symmetric: A = l d lᵀ
    rw [hh] at hA; simp only [Bool.false_eq_true, if_false] at hA
    have hAp : A.submatrix s.p s.p = s.lp * s.d * s.lpᵀ := by
      rw [hA, Matrix.submatrix_mul _ _ s.p id s.p hid, Matrix.submatrix_mul _ _ s.p id id hid, hlpT,
        ← c.lp_def, Matrix.submatrix_id_id]
    cases t
    · simp only [solveLDL, withMemo_eq, hh, Bool.false_eq_true, if_false]
      apply solve_of_permuted _ _ _ c.perm
      rw [opT, hAp, Matrix.mul_assoc, c.tri_ok.T, Matrix.mul_assoc, ← Matrix.mul_assoc s.d, c.d1_right,
        Matrix.one_mul, c.tri_ok.N]
    · simp only [solveLDL, withMemo_eq, hh, Bool.false_eq_true, if_false, hu2]
      apply solve_of_permuted _ _ _ c.perm
      rw [opT, hAp, Matrix.transpose_mul, Matrix.transpose_mul, Matrix.transpose_transpose, ← Matrix.mul_assoc,
        Matrix.mul_assoc, c.tri_ok.T, Matrix.mul_assoc, ← Matrix.mul_assoc s.dᵀ, hdT, Matrix.one_mul, c.tri_ok.N]
    · simp only [solveLDL, withMemo_eq, hh, Bool.not_false, if_true]
      apply solve_of_permuted _ _ _ c.perm
      rw [opT, hAp, Matrix.conjTranspose_mul, Matrix.conjTranspose_mul, conjTranspose_transpose',
        ← Matrix.mul_assoc, Matrix.mul_assoc, c.tri_ok.H, Matrix.mul_assoc, ← Matrix.mul_assoc s.dᴴ, hdH,
        Matrix.one_mul, hconj]
  · -- Hermitian: A = l d lᴴ
    rw [hh] at hA; simp only [if_true] at hA
    have hAp : A.submatrix s.p s.p = s.lp * s.d * s.lpᴴ := by
      rw [hA, Matrix.submatrix_mul _ _ s.p id s.p hid, Matrix.submatrix_mul _ _ s.p id id hid, hlpH,
        ← c.lp_def, Matrix.submatrix_id_id]
    cases t
    · simp only [solveLDL, withMemo_eq, hh, if_true]
      apply solve_of_permuted _ _ _ c.perm
      rw [opT, hAp, Matrix.mul_assoc, c.tri_ok.H, Matrix.mul_assoc, ← Matrix.mul_assoc s.d, c.d1_right,
        Matrix.one_mul, c.tri_ok.N]
    · simp only [solveLDL, withMemo_eq, hh, if_true, hu2]
      apply solve_of_permuted _ _ _ c.perm
      rw [opT, hAp, Matrix.transpose_mul, Matrix.transpose_mul, transpose_conjTranspose',
        ← Matrix.mul_assoc, Matrix.mul_assoc, c.tri_ok.T, Matrix.mul_assoc, ← Matrix.mul_assoc s.dᵀ, hdT,
        Matrix.one_mul, hconj]
    · simp only [solveLDL, withMemo_eq, hh, Bool.not_true, Bool.false_eq_true, if_false]
      apply solve_of_permuted _ _ _ c.perm
      rw [opT, hAp, Matrix.conjTranspose_mul, Matrix.conjTranspose_mul, Matrix.conjTranspose_conjTranspose,
        ← Matrix.mul_assoc, Matrix.mul_assoc, c.tri_ok.H, Matrix.mul_assoc, ← Matrix.mul_assoc s.dᴴ, hdH,
        Matrix.one_mul, c.tri_ok.N]

/-- the authored inverse of an exactly diagonal `d` (`np.diag(1/np.diag(d))`) satisfies the `d1` part of the contract -/
theorem ldl_d1_diagonal (d : Mat n n α) (hdiag : ∀ i j, i ≠ j → d i j = 0) (hnz : ∀ i, d i i ≠ 0) :
    Matrix.diagonal (fun i => 1 / d i i) * d = 1 ∧ d * Matrix.diagonal (fun i => 1 / d i i) = 1 := by
  have hd : d = Matrix.diagonal (fun i => d i i) := by
    ext i j
    by_cases h : i = j
    · subst h; simp
    · simp [Matrix.diagonal_apply_ne _ h, hdiag i j h]
  constructor
  · rw [hd]; simp only [Matrix.diagonal_apply_eq, Matrix.diagonal_mul_diagonal]
    rw [← Matrix.diagonal_one]; congr 1; funext i; field_simp [hnz i]
  · rw [hd]; simp only [Matrix.diagonal_apply_eq, Matrix.diagonal_mul_diagonal]
    rw [← Matrix.diagonal_one]; congr 1; funext i; field_simp [hnz i]

/-! ## SolverDenseCholesky (with its LDL fall-back) -/

/-- successful factorisation `A = Uᴴ U` -/
theorem solveCholOk_correct (tri : TriSolve α n k) (A U : Mat n n α) (hA : A = Uᴴ * U)
    (hU : TriOK tri U false false) (t : Trans) (B : Mat n k α) : opT t A * solveCholOk tri U t B = B := by
  subst hA
  cases t
  · simp only [opT, solveCholOk, withMemo_eq]
    rw [Matrix.mul_assoc, hU.N, hU.H]
  · simp only [opT, solveCholOk, withMemo_eq]
    rw [Matrix.transpose_mul, transpose_conjTranspose', Matrix.mul_assoc, ← conjM_mul, hU.N, conjM_conjM, hU.T]
  · simp only [opT, solveCholOk, withMemo_eq]
    rw [Matrix.conjTranspose_mul, Matrix.conjTranspose_conjTranspose, Matrix.mul_assoc, hU.N, hU.H]

/-- `SolverDenseCholesky.solve`: either the Cholesky factor satisfies its contract, or the factorisation failed and
    the back-up LDL state satisfies the LDL contract; in both cases the requested system is solved -/
theorem solveChol_correct (tri : TriSolve α n k) (A : Mat n n α) (s : CholState α n)
    (hok : s.success = true → A = s.Uᴴ * s.U ∧ TriOK tri s.U false false)
    (hfail : s.success = false → ∃ b, s.backup = some b ∧ LDLContract tri A b)
    (t : Trans) (B : Mat n k α) : ∃ X, solveChol tri s t B = .ok X ∧ opT t A * X = B := by
  cases hs : s.success
  · obtain ⟨b, hb, hc⟩ := hfail hs
    exact ⟨solveLDL tri b t B, by simp [solveChol, hs, hb], solveLDL_correct tri A b hc t B⟩
  · obtain ⟨hA, hU⟩ := hok hs
    exact ⟨solveCholOk tri s.U t B, by simp [solveChol, hs], solveCholOk_correct tri A s.U hA hU t B⟩

/-- `update` really selects the back-up branch when `scipy.linalg.cholesky` fails, and the success branch otherwise -/
theorem updateChol_branch [DecidableEq α] (cplx : Bool) (chol : Mat n n α → Option (Mat n n α))
    (ldl : Bool → Mat n n α → Mat n n α × Mat n n α × (Fin n → Fin n)) (inv : Mat n n α → Mat n n α)
    (prev : Option (CholState α n)) (A : Mat n n α) :
    (∀ U, chol A = some U → (updateChol cplx chol ldl inv prev A).success = true
        ∧ (updateChol cplx chol ldl inv prev A).U = U) ∧
    (chol A = none → (updateChol cplx chol ldl inv prev A).success = false
        ∧ ∃ b, (updateChol cplx chol ldl inv prev A).backup = some b) := by
  constructor
  · intro U h; simp [updateChol, h]
  · intro h; simp [updateChol, h]

/-! ## SolverSparseLU (pass-through) -/

/-- contract of `splu(A).solve(·, trans)`; authored: the three mode strings are passed on unchanged (others rejected)
    and, for a real factorisation with a complex rhs `B = reB + I·imB`, real and imaginary part are solved separately -/
theorem solveSparseLU_correct (splu : Trans → Mat n k α → Mat n k α) (A : Mat n n α)
    (h : ∀ t B, opT t A * splu t B = B) (iscomplexA rhsComplex : Bool) (reB imB : Mat n k α) (I : α)
    (B : Mat n k α) (hsplit : B = fun i j => reB i j + I * imB i j) :
    (∃ X, solveSparseLU splu iscomplexA rhsComplex reB imB I "N" B = .ok X ∧ A * X = B) ∧
    (∃ X, solveSparseLU splu iscomplexA rhsComplex reB imB I "T" B = .ok X ∧ Aᵀ * X = B) ∧
    (∃ X, solveSparseLU splu iscomplexA rhsComplex reB imB I "H" B = .ok X ∧ Aᴴ * X = B) := by
  have key : ∀ t : Trans, opT t A * Matrix.of (fun i j => splu t reB i j + I * splu t imB i j) = B := by
    intro t
    have h1 : Matrix.of (fun i j => splu t reB i j + I * splu t imB i j) = splu t reB + I • splu t imB := by
      ext i j; simp
    rw [h1, Matrix.mul_add, Matrix.mul_smul, h, h, hsplit]
    ext i j; simp
  have main : ∀ (ts : String) (t : Trans), sparseTransMap ts = .ok t →
      ∃ X, solveSparseLU splu iscomplexA rhsComplex reB imB I ts B = .ok X ∧ opT t A * X = B := by
    intro ts t hts
    by_cases hc : (!iscomplexA && rhsComplex) = true
    · exact ⟨_, by simp only [solveSparseLU, hts, hc, if_true, withMemo_eq]; rfl, key t⟩
    · exact ⟨_, by simp only [solveSparseLU, hts, hc]; rfl, h t B⟩
  exact ⟨main "N" .N (by simp [sparseTransMap]), main "T" .T (by simp [sparseTransMap]),
    main "H" .H (by simp [sparseTransMap])⟩

/-! ## re-use of one solver object (`update` called again): the new factor state forgets the old matrix -/

/-- `update_forgets` for `SolverDenseCholesky`: what `solve` returns after `update(A)` depends on `A` only — not on the
    matrices of earlier updates — except through the `hermitian` flag cached by the back-up LDL solver (which the code
    keeps from the back-up's first update).  In particular a successful factorisation after an earlier fall-back
    switches back to the Cholesky factor. -/
theorem updateChol_forgets [DecidableEq α] (tri : TriSolve α n k) (cplx : Bool) (chol : Mat n n α → Option (Mat n n α))
    (ldl : Bool → Mat n n α → Mat n n α × Mat n n α × (Fin n → Fin n)) (inv : Mat n n α → Mat n n α)
    (prev₁ prev₂ : Option (CholState α n)) (A : Mat n n α)
    (hflag : ((prev₁.bind (·.backup)).map (·.hermitian)) = ((prev₂.bind (·.backup)).map (·.hermitian)))
    (t : Trans) (B : Mat n k α) :
    solveChol tri (updateChol cplx chol ldl inv prev₁ A) t B = solveChol tri (updateChol cplx chol ldl inv prev₂ A) t B := by
  unfold updateChol
  cases hc : chol A with
  | some U => simp [solveChol]
  | none => simp only [solveChol, hflag]

/-- and a successful update always selects the Cholesky branch with the NEW factor, whatever happened before -/
theorem updateChol_success_resets [DecidableEq α] (tri : TriSolve α n k) (cplx : Bool)
    (chol : Mat n n α → Option (Mat n n α))
    (ldl : Bool → Mat n n α → Mat n n α × Mat n n α × (Fin n → Fin n)) (inv : Mat n n α → Mat n n α)
    (prev : Option (CholState α n)) (A U : Mat n n α) (hU : chol A = some U) (t : Trans) (B : Mat n k α) :
    solveChol tri (updateChol cplx chol ldl inv prev A) t B = .ok (solveCholOk tri U t B) := by
  simp [updateChol, hU, solveChol]

/-! ## vector right-hand sides and shape -/

/-- a 1-D rhs is the block with one column: any block solution gives the `mulVec` solution -/
theorem vector_of_block (M : Mat n n α) (X : Mat n 1 α) (b : Fin n → α) (h : M * X = fun i _ => b i) :
    M *ᵥ (fun i => X i 0) = b := by
  funext i
  have := congrFun (congrFun h i) 0
  simpa [Matrix.mul_apply, Matrix.mulVec, dotProduct] using this

/-- the result of every direct solver has the shape `(n, k)` of the rhs: this is the TYPE of the model functions -/
theorem solve_shape (tri : TriSolve α n k) (q r p l u U : Mat n n α) (d : Fin n → α) (s : LDLState α n) (t : Trans)
    (B : Mat n k α) :
    (∃ X : Mat n k α, X = solveDiag d t B) ∧ (∃ X : Mat n k α, X = solveQR tri q r t B) ∧
    (∃ X : Mat n k α, X = solveLU tri p l u t B) ∧ (∃ X : Mat n k α, X = solveCholOk tri U t B) ∧
    (∃ X : Mat n k α, X = solveLDL tri s t B) := ⟨⟨_, rfl⟩, ⟨_, rfl⟩, ⟨_, rfl⟩, ⟨_, rfl⟩, ⟨_, rfl⟩⟩


/-! ## block CG (`CG.solve`) -/
section cg
variable {ρ : Type*} [LinearOrder ρ] [Div ρ] [Zero ρ] [One ρ] [DecidableEq α]

/-- one pass of the loop body keeps `r = b − A x`, whatever the preconditioner, `inv`, `sqrt`, the zero test of
    `orth` (i.e. whatever rank pattern of the block), the restart period and the iteration number -/
theorem cgStep_invariant (c : CGConfig α ρ n k) (b : Mat n k α) (i : ℕ) (s s' : CGState α n k) (f : Bool)
    (hinv : s.r = b - c.A * s.x) (h : cgStep c b i s = .ok (s', f)) : s'.r = b - c.A * s'.x := by
  unfold cgStep at h
  simp only [withMemo_eq] at h
  split at h
  · simp at h
  split at h
  · simp at h
  rename_i pqInv _
  by_cases hr : i % c.restart = 0
  · simp only [hr, if_true] at h
    split at h
    · simp only [Except.ok.injEq, Prod.mk.injEq] at h
      obtain ⟨rfl, _⟩ := h
      rfl
    · split at h
      · simp only [Except.ok.injEq, Prod.mk.injEq] at h
        obtain ⟨rfl, _⟩ := h
        rfl
      · simp at h
  · have key : s.r - c.A * colsToMat s.p * (pqInv * ((colsToMat s.p)ᴴ * s.r))
        = b - c.A * (s.x + colsToMat s.p * (pqInv * ((colsToMat s.p)ᴴ * s.r))) := by
      rw [hinv, Matrix.mul_add, Matrix.mul_assoc, sub_sub]
    simp only [hr, if_false] at h
    split at h
    · simp only [Except.ok.injEq, Prod.mk.injEq] at h
      obtain ⟨rfl, _⟩ := h
      exact key
    · split at h
      · simp only [Except.ok.injEq, Prod.mk.injEq] at h
        obtain ⟨rfl, _⟩ := h
        exact key
      · simp at h

/-- the loop is left with flag `true` only through the tolerance test -/
theorem cgStep_exit (c : CGConfig α ρ n k) (b : Mat n k α) (i : ℕ) (s s' : CGState α n k)
    (h : cgStep c b i s = .ok (s', true)) : converged c s'.r b = true := by
  unfold cgStep at h
  simp only [withMemo_eq] at h
  split at h
  · simp at h
  split at h
  · simp at h
  by_cases hr : i % c.restart = 0
  · simp only [hr, if_true] at h
    split at h
    · rename_i hc
      simp only [Except.ok.injEq, Prod.mk.injEq] at h
      obtain ⟨rfl, _⟩ := h
      exact hc
    · split at h <;> simp at h
  · simp only [hr, if_false] at h
    split at h
    · rename_i hc
      simp only [Except.ok.injEq, Prod.mk.injEq] at h
      obtain ⟨rfl, _⟩ := h
      exact hc
    · split at h <;> simp at h

theorem cgLoop_invariant (c : CGConfig α ρ n k) (b : Mat n k α) :
    ∀ (fuel i : ℕ) (s : CGState α n k) (tr : List (Mat n k α)) (res : CGResult α n k),
      s.r = b - c.A * s.x → cgLoop c b fuel i s tr = .ok res →
      res.r = b - c.A * res.x ∧ (res.converged = true → converged c res.r b = true) := by
  intro fuel
  induction fuel with
  | zero =>
    intro i s tr res hinv h
    simp only [cgLoop, Except.ok.injEq] at h
    subst h
    exact ⟨hinv, by simp⟩
  | succ fuel ih =>
    intro i s tr res hinv h
    unfold cgLoop at h
    split at h
    · cases h
    · rename_i s' hstep
      simp only [Except.ok.injEq] at h
      subst h
      exact ⟨cgStep_invariant c b i s s' true hinv hstep, fun _ => cgStep_exit c b i s s' hstep⟩
    · rename_i s' hstep
      exact ih (i + 1) s' _ res (cgStep_invariant c b i s s' false hinv hstep) h

/-- `cg_invariant`: in exact arithmetic the returned residual is the true residual `b − A x`, for every
    preconditioner, restart period, rank pattern of the block, with or without an initial guess -/
theorem cg_invariant (c : CGConfig α ρ n k) (b : Mat n k α) (x0 : Option (Mat n k α)) (res : CGResult α n k)
    (h : cgSolve c b x0 = .ok res) :
    res.r = b - c.A * res.x ∧ (res.converged = true → converged c res.r b = true) := by
  unfold cgSolve at h
  simp only [withMemo_eq] at h
  split at h
  · simp at h
  cases x0
  all_goals
    dsimp only at h
    split at h
    · rename_i hc
      simp only [Except.ok.injEq] at h
      subst h
      exact ⟨rfl, fun _ => hc⟩
    · split at h
      · simp at h
      · exact cgLoop_invariant c b _ _ _ _ res rfl h

/-- `cg_exit_residual`: if the loop exits through the tolerance test, every column satisfies
    `‖b_j − (A x)_j‖ / ‖b_j‖ ≤ tol` for the TRUE residual -/
theorem cg_exit_residual (c : CGConfig α ρ n k) (b : Mat n k α) (x0 : Option (Mat n k α)) (res : CGResult α n k)
    (h : cgSolve c b x0 = .ok res) (hconv : res.converged = true) (j : Fin k) :
    c.norm (fun i => (b - c.A * res.x) i j) / bnorm c b j ≤ c.tol := by
  obtain ⟨hr, hc⟩ := cg_invariant c b x0 res h
  have := hc hconv
  simp only [converged, List.all_eq_true, List.mem_finRange, decide_eq_true_eq, forall_const] at this
  have hj := this j
  rw [hr] at hj
  exact hj
end cg


/-! ## `orth` (modified Gram–Schmidt with dropping, as repaired) -/
section orth
variable [DecidableEq α]

/-- `orth_orthogonal`: under the contracts `sqrt z · conj(sqrt z) = z` (needed only when `normalize`) and
    `0 < zero_rtol`, the returned columns are pairwise orthogonal for the inner product of the code
    (`dot(a,b) = a @ b.conj()`), none of them is null, and they have unit norm when `normalize=True`;
    for every input block, rank pattern and tolerance. -/
theorem orth_orthogonal (nz : Bool) (sqrt : α → α) (lt : α → α → Bool) (rtol : α)
    (hc : OrthContract (n := n) nz sqrt lt rtol) (U : Mat n k α) (out : List (Fin n → α))
    (h : orth nz sqrt lt rtol U = .ok out) :
    out.Pairwise (fun a b => dotc a b = 0 ∧ dotc b a = 0) ∧ (∀ v ∈ out, dotc v v ≠ 0) ∧
      (nz = true → ∀ v ∈ out, dotc v v = 1) := by
  obtain ⟨hp, hg⟩ := orthCols_orthogonal nz sqrt lt rtol hc (matCols U) [] out List.Pairwise.nil (by simp) h
  exact ⟨hp, fun v hv => (hg v hv).1, fun hn v hv => (hg v hv).2 hn⟩

/-- `orth_span`: every returned column lies in the span of the input columns, and every input column `u` lies in the
    span of the returned columns up to a remainder `rem` that is either zero (the column was kept) or was dropped by
    the code's test (`‖u‖² = 0` or `‖rem‖²/‖u‖² < zero_rtol`). -/
theorem orth_span (nz : Bool) (sqrt : α → α) (lt : α → α → Bool) (rtol : α)
    (hc : OrthContract (n := n) nz sqrt lt rtol) (U : Mat n k α) (out : List (Fin n → α))
    (h : orth nz sqrt lt rtol U = .ok out) :
    (∀ v ∈ out, v ∈ spanL (matCols U)) ∧
    (∀ u ∈ matCols U, ∃ rem : Fin n → α, u - rem ∈ spanL out ∧
      (rem = 0 ∨ dotc u u = 0 ∨ lt (dotc rem rem / dotc u u) rtol = true)) :=
  ⟨orthCols_mem nz sqrt lt rtol (spanL (matCols U)) (matCols U) [] out (by simp) (fun _ hu => mem_spanL hu) h,
   orthCols_inputs nz sqrt lt rtol hc (matCols U) [] out h⟩

/-- the repaired `orth` always returns (possibly an empty block) -/
theorem orth_total (nz : Bool) (sqrt : α → α) (lt : α → α → Bool) (rtol : α) (U : Mat n k α) :
    ∃ out, orth nz sqrt lt rtol U = .ok out := orthCols_total nz sqrt lt rtol (matCols U) []
end orth

/-- non-vacuity of the `orth` contracts: over ℝ with `Real.sqrt`, `<` and `zero_rtol = 10⁻¹⁵`, both modes -/
example (nz : Bool) : OrthContract (n := n) (α := ℝ) nz Real.sqrt (fun a b => decide (a < b)) (1 / 10 ^ 15) where
  sqrt_ok := by
    intro _ v
    have h0 : 0 ≤ dotc v v := by
      simp only [dotc, dotProduct, star_trivial]
      exact Finset.sum_nonneg fun i _ => mul_self_nonneg (v i)
    rw [star_trivial, Real.mul_self_sqrt h0]
  lt_zero := by simp


/-! ## GeometricMultigrid.setup_interpolation -/

/-- `mg_interp_partition`: EVERY row of the interpolation matrix built by `setup_interpolation` sums to one (constant
    fields are reproduced), for every 2-D (`cz = 0`) and 3-D grid with even element counts `(2cx, 2cy, 2cz)` — the sizes
    the constructor admits — every number of dofs per node and every fine dof `f`.  The columns range over all
    `ncoarse = nnodes(cx,cy,cz)·ndof` coarse dofs; duplicates of the COO triplets are summed as scipy does. -/
theorem mg_interp_partition {β : Type*} [Field β] [CharZero β] (cx cy cz ndof f : ℕ)
    (hf : f < (Domain.Dom.mk (2 * cx) (2 * cy) (2 * cz)).nnodes * ndof) :
    (∑ c ∈ Finset.range ((Domain.Dom.mk cx cy cz).nnodes * ndof),
      mgInterp (α := β) ⟨2 * cx, 2 * cy, 2 * cz⟩ ndof f c) = 1 := by
  have hnd : 0 < ndof := by
    rcases Nat.eq_zero_or_pos ndof with h | h
    · subst h; simp at hf
    · exact h
  have hN : f / ndof < (Domain.Dom.mk (2 * cx) (2 * cy) (2 * cz)).nnodes := by
    rw [Nat.div_lt_iff_lt_mul hnd]; exact hf
  obtain ⟨hi, hj, hk⟩ := C13.nodeIndices_lt (Domain.Dom.mk (2 * cx) (2 * cy) (2 * cz)) hN
  have hdec : (Domain.Dom.mk (2 * cx) (2 * cy) (2 * cz)).nodeNumber
      ((Domain.Dom.mk (2 * cx) (2 * cy) (2 * cz)).nodeI (f / ndof))
      ((Domain.Dom.mk (2 * cx) (2 * cy) (2 * cz)).nodeJ (f / ndof))
      ((Domain.Dom.mk (2 * cx) (2 * cy) (2 * cz)).nodeK (f / ndof)) * ndof + f % ndof = f := by
    rw [C13.nodeNumber_nodeIndices]; exact Nat.div_add_mod' f ndof
  have := mg_rowsum (α := β) cx cy cz ndof _ _ _ (f % ndof) hi hj hk (Nat.mod_lt f hnd)
  rw [hdec] at this
  exact this


/-- `mg_interp_linear`: the interpolation reproduces every function that is affine in each coordinate (multilinear
    functions `(ax + bx·x)(ay + by·y)(az + bz·z)` of the node position, in fine-grid index units): applying row `f` to the
    coarse nodal values gives the value at the fine node of `f`. -/
theorem mg_interp_linear {β : Type*} [Field β] [CharZero β] (cx cy cz ndof f : ℕ)
    (hf : f < (Domain.Dom.mk (2 * cx) (2 * cy) (2 * cz)).nnodes * ndof) (ax bx ay by' az bz : β) :
    (∑ c ∈ Finset.range ((Domain.Dom.mk cx cy cz).nnodes * ndof),
      mgInterp (α := β) ⟨2 * cx, 2 * cy, 2 * cz⟩ ndof f c * triAffine cx cy cz ax bx ay by' az bz ndof c) =
      (ax + bx * (((Domain.Dom.mk (2 * cx) (2 * cy) (2 * cz)).nodeI (f / ndof) : ℕ) : β)) *
      (ay + by' * (((Domain.Dom.mk (2 * cx) (2 * cy) (2 * cz)).nodeJ (f / ndof) : ℕ) : β)) *
      (az + bz * (((Domain.Dom.mk (2 * cx) (2 * cy) (2 * cz)).nodeK (f / ndof) : ℕ) : β)) := by
  have hnd : 0 < ndof := by
    rcases Nat.eq_zero_or_pos ndof with h | h
    · subst h; simp at hf
    · exact h
  have hN : f / ndof < (Domain.Dom.mk (2 * cx) (2 * cy) (2 * cz)).nnodes := by
    rw [Nat.div_lt_iff_lt_mul hnd]; exact hf
  obtain ⟨hi, hj, hk⟩ := C13.nodeIndices_lt (Domain.Dom.mk (2 * cx) (2 * cy) (2 * cz)) hN
  have hdec : (Domain.Dom.mk (2 * cx) (2 * cy) (2 * cz)).nodeNumber
      ((Domain.Dom.mk (2 * cx) (2 * cy) (2 * cz)).nodeI (f / ndof))
      ((Domain.Dom.mk (2 * cx) (2 * cy) (2 * cz)).nodeJ (f / ndof))
      ((Domain.Dom.mk (2 * cx) (2 * cy) (2 * cz)).nodeK (f / ndof)) * ndof + f % ndof = f := by
    rw [C13.nodeNumber_nodeIndices]; exact Nat.div_add_mod' f ndof
  have := mg_rowsum_linear (α := β) cx cy cz ndof _ _ _ (f % ndof) hi hj hk (Nat.mod_lt f hnd) ax bx ay by' az bz
  rw [hdec] at this
  exact this

/-- non-vacuity: the centre node of the 2×2 grid (fine dof 4) receives 4 × 1/4 -/
example : (∑ c ∈ Finset.range ((Domain.Dom.mk 1 1 0).nnodes * 1), mgInterp (α := ℚ) ⟨2 * 1, 2 * 1, 2 * 0⟩ 1 4 c) = 1 :=
  mg_interp_partition 1 1 0 1 4 (by decide)

/-- partial correctness of CG over an ordered field of norms: an exit through the tolerance test returns `x` with
    `‖b_j − A x_j‖ ≤ tol ‖b_j‖` for every non-zero column `b_j`, and `‖A x_j‖ ≤ tol` (absolute) for a zero column.
    NOT proved (hence `_partial`): that the exit is taken within `maxit` iterations for every Hermitian positive
    definite `A` (convergence of CG), and hence that `solve` always returns a solution. -/
theorem cg_correct_partial {ρ : Type*} [Field ρ] [LinearOrder ρ] [IsStrictOrderedRing ρ] [DecidableEq α]
    (c : CGConfig α ρ n k) (b : Mat n k α) (x0 : Option (Mat n k α)) (res : CGResult α n k)
    (h : cgSolve c b x0 = .ok res) (hconv : res.converged = true) (j : Fin k) :
    (0 < c.norm (fun i => b i j) →
      c.norm (fun i => (b - c.A * res.x) i j) ≤ c.tol * c.norm (fun i => b i j)) ∧
    (c.norm (fun i => b i j) = 0 → c.norm (fun i => (b - c.A * res.x) i j) ≤ c.tol) := by
  have := cg_exit_residual c b x0 res h hconv j
  constructor
  · intro hb
    have hne : c.norm (fun i => b i j) ≠ 0 := ne_of_gt hb
    rw [bnorm, if_neg hne, div_le_iff₀ hb] at this
    exact this
  · intro hb
    rw [bnorm, if_pos hb, div_one] at this
    exact this


/-! ### non-vacuity of the CG theorems: a concrete 2×2 SPD system over ℚ, two iterations, exit through the tolerance test -/
section cgExample
/-- `A = [[2,1],[1,2]]`, identity preconditioner, `np.linalg.inv` of a 1×1 block, squared norms -/
def cgEx : CGConfig ℚ ℚ 2 1 :=
  { A := !![2, 1; 1, 2], precond := precIdentity,
    inv := fun m M => if m = 1 then some (fun i j => 1 / M i j) else none,
    sqrt := fun _ => 1, lt := fun a b => decide (a < b), zeroRtol := 0,
    norm := fun v => v 0 * v 0 + v 1 * v 1, tol := 1 / 1000, maxit := 5, restart := 50 }
def cgExB : Mat 2 1 ℚ := !![1; 2]
private def cgOkConv (r : Except String (CGResult ℚ 2 1)) : Bool :=
  match r with
  | .ok res => res.converged && decide (res.iters = 2) && decide (res.x 0 0 = 0) && decide (res.x 1 0 = 1)
  | .error _ => false
private theorem cgEx_runs : cgOkConv (cgSolve cgEx cgExB none) = true := by decide +kernel

/-- the model really runs two iterations on this system, leaves through the tolerance test with `x = (0, 1)`, and the
    hypotheses of `cg_invariant` / `cg_correct_partial` hold for it -/
example : ∃ res, cgSolve cgEx cgExB none = .ok res ∧ res.converged = true ∧ res.iters = 2 ∧
    res.r = cgExB - cgEx.A * res.x ∧
    cgEx.norm (fun i => (cgExB - cgEx.A * res.x) i 0) ≤ cgEx.tol * cgEx.norm (fun i => cgExB i 0) := by
  have hk := cgEx_runs
  cases h : cgSolve cgEx cgExB none with
  | error e => rw [h] at hk; simp [cgOkConv] at hk
  | ok res =>
    rw [h] at hk
    simp only [cgOkConv, Bool.and_eq_true, decide_eq_true_eq] at hk
    obtain ⟨⟨⟨hconv, hit⟩, _⟩, _⟩ := hk
    have hb : 0 < cgEx.norm (fun i => cgExB i 0) := by
      simp [cgEx, cgExB]; norm_num
    exact ⟨res, rfl, hconv, hit, (cg_invariant cgEx cgExB none res h).1,
      (cg_correct_partial cgEx cgExB none res h hconv 0).1 hb⟩
end cgExample

/-! ## auto_determine_solver -/

/-- the matrix class documented for each solver class -/
def classContains (cls : SolverClass) (A : Mat n n α) : Prop :=
  match cls with
  | .Diagonal => ∀ i j, i ≠ j → A i j = 0
  | .DenseCholesky => Aᴴ = A          -- Hermitian; if not positive definite the LDL back-up (Hermitian mode) takes over
  | .DenseLDL true => Aᴴ = A
  | .DenseLDL false => Aᵀ = A
  | .DenseLU | .SparseLU | .DenseQR => True

/-- `autoDetermine_sound`: for a square matrix the class chosen from the detected flags contains the matrix, and the
    LDL solver is constructed with the flag (`hermitian`) that matches the structure it will rely on.  Together with
    `solveDiag_correct`, `solveChol_correct`, `solveLDL_correct`, `solveLU_correct`, `solveSparseLU_correct` the returned
    solver solves the system.  `hreal`: a real dtype has real entries. -/
theorem autoDetermine_sound [DecidableEq α] (lt : α → α → Bool) (sparse cplx : Bool) (A : Mat n n α)
    (hreal : cplx = false → ∀ i j, star (A i j) = A i j) :
    classContains (autoDetermine (detectFlags lt sparse cplx A)) A := by
  have hsym : isSymmetric A = true → Aᵀ = A := by
    intro h
    simp only [isSymmetric, List.all_eq_true, List.mem_finRange, decide_eq_true_eq, forall_const] at h
    ext i j; exact (h i j).symm ▸ rfl
  have hherm : (if cplx then isHermitian true A else isSymmetric A) = true → Aᴴ = A := by
    intro h
    cases cplx
    · simp only [Bool.false_eq_true, if_false] at h
      have hs := hsym h
      ext i j
      rw [Matrix.conjTranspose_apply, hreal rfl j i]
      exact congrFun (congrFun hs i) j
    · simp only [if_true, isHermitian, List.all_eq_true, List.mem_finRange, decide_eq_true_eq,
        forall_const] at h
      ext i j
      rw [Matrix.conjTranspose_apply]
      exact (h i j).symm
  generalize hf : detectFlags lt sparse cplx A = f
  have hsq : f.square = true := by rw [← hf]; rfl
  have hdi : f.diagonal = isDiagonal A := by rw [← hf]; rfl
  have hhe : f.hermitian = (if cplx then isHermitian true A else isSymmetric A) := by rw [← hf]; rfl
  have hsy : f.symmetric = isSymmetric A := by rw [← hf]; rfl
  unfold autoDetermine
  rw [hsq]
  simp only [Bool.not_true, Bool.false_eq_true, if_false]
  cases h1 : f.diagonal with
  | true =>
    simp only [if_true, classContains]
    intro i j hij
    rw [hdi] at h1
    simp only [isDiagonal, List.all_eq_true, List.mem_finRange, Bool.or_eq_true, decide_eq_true_eq,
      forall_const] at h1
    rcases h1 i j with h | h
    · exact absurd h hij
    · exact h
  | false =>
    simp only [Bool.false_eq_true, if_false]
    cases h2 : f.sparse with
    | true => simp [classContains]
    | false =>
      simp only [Bool.false_eq_true, if_false]
      cases h3 : f.hermitian with
      | true =>
        simp only [if_true]
        rw [hhe] at h3
        split <;> exact hherm h3
      | false =>
        simp only [Bool.false_eq_true, if_false]
        cases h4 : f.symmetric with
        | true =>
          simp only [if_true]
          rw [hsy] at h4
          exact hsym h4
        | false => simp [classContains]

example : autoDetermine (detectFlags (fun a b => decide (a < b)) false false !![(2 : ℚ), 1; 1, 2]) = .DenseCholesky := by
  decide
example : autoDetermine (detectFlags (fun a b => decide (a < b)) false false !![(2 : ℚ), 1; 1, -2]) = .DenseLDL true := by
  decide
example : autoDetermine (detectFlags (fun a b => decide (a < b)) false false !![(2 : ℚ), 1; 0, 2]) = .DenseLU := by
  decide

/-! ## non-vacuity of the factorisation contracts (ℚ, a row swap as `q` / `p`, identity triangular factors) -/
section nonvacuous
/-- a `solve_triangular` that is correct for the identity matrix -/
def triId : TriSolve ℚ 2 2 := fun _ _ _ _ B => B
private theorem triId_ok (lo un : Bool) : TriOK triId (1 : Mat 2 2 ℚ) lo un := by
  intro t B; cases t <;> simp [opT, triId]
def swap2 : Mat 2 2 ℚ := !![0, 1; 1, 0]
private theorem swap2_sq : swap2 * swap2 = 1 := by
  ext i j; fin_cases i <;> fin_cases j <;> simp [swap2, Matrix.mul_apply, Fin.sum_univ_two]
private theorem swap2_T : swap2ᵀ = swap2 := by
  ext i j; fin_cases i <;> fin_cases j <;> simp [swap2]
private theorem swap2_H : swap2ᴴ = swap2 := by
  ext i j; fin_cases i <;> fin_cases j <;> simp [swap2]

example (t : Trans) (B : Mat 2 2 ℚ) : opT t swap2 * solveQR triId swap2 1 t B = B :=
  solveQR_correct triId swap2 swap2 1 (by simp) (by rw [swap2_H, swap2_sq]) (by rw [swap2_H, swap2_sq])
    (triId_ok _ _) t B
example (t : Trans) (B : Mat 2 2 ℚ) : opT t swap2 * solveLU triId swap2 1 1 t B = B :=
  solveLU_correct triId swap2 swap2 1 1 (by simp) (by rw [swap2_T, swap2_sq]) (by rw [swap2_T, swap2_sq])
    (by rw [swap2_T, swap2_H]) (triId_ok _ _) (triId_ok _ _) t B
example (t : Trans) (B : Mat 2 2 ℚ) : opT t 1 * solveCholOk triId 1 t B = B :=
  solveCholOk_correct triId 1 1 (by simp) (triId_ok _ _) t B
/-- LDL: `A = d = diag(2,3)`, `l = 1`, no pivoting -/
def ldlEx' : LDLState ℚ 2 :=
  { hermitian := true, l := 1, d := !![2, 0; 0, 3], p := id, d1 := !![1/2, 0; 0, 1/3], lp := 1 }
example (t : Trans) (B : Mat 2 2 ℚ) : opT t !![2, 0; 0, 3] * solveLDL triId ldlEx' t B = B :=
  solveLDL_correct triId _ ldlEx'
    { perm := Function.bijective_id, lp_def := by simp [ldlEx'], d1_left := by
        ext i j; fin_cases i <;> fin_cases j <;> simp [ldlEx', Matrix.mul_apply, Fin.sum_univ_two],
      d1_right := by
        ext i j; fin_cases i <;> fin_cases j <;> simp [ldlEx', Matrix.mul_apply, Fin.sum_univ_two],
      factor := by simp [ldlEx'], tri_ok := triId_ok _ _ } t B
/-- re-use: a fresh object and an object that already holds a Cholesky factor of another matrix answer alike after
    `update(A)` (hypothesis `hflag` holds: neither has a cached LDL flag) -/
example (chol : Mat 2 2 ℚ → Option (Mat 2 2 ℚ)) (ldl : Bool → Mat 2 2 ℚ → Mat 2 2 ℚ × Mat 2 2 ℚ × (Fin 2 → Fin 2))
    (A : Mat 2 2 ℚ) (t : Trans) (B : Mat 2 2 ℚ) :
    solveChol triId (updateChol false chol ldl id none A) t B
      = solveChol triId (updateChol false chol ldl id (some { success := true, U := swap2, backup := none }) A) t B :=
  updateChol_forgets triId false chol ldl id none _ A rfl t B
end nonvacuous

end PymotoVerif.Props.C05
