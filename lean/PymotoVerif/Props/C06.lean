/-
C06 — The linear-dependency-aware solver is transparent and reuses earlier solutions.
Property theorems ONLY (helper lemmas: `Lemmas/LDAS.lean`, `Lemmas/LDASInv.lean`, `Lemmas/LDASReuse.lean`, `Lemmas/LDASNorm.lean`).

Model: `LA/LDAS.lean` (state machine of `LDAWrapper` + `get_diagonal_indices`, code as repaired).
Scalars: any field `α` with the operations record `c : Cfg α` satisfying `Laws c` (conjugation is an
involutive ring map, `re` is additive, real-linear and fixed by conjugation) — true for ℚ, ℚ(i), ℝ, ℂ.
External contract: the wrapped solver `inner A adj b x0` returns an exact solution of `A x = b`
(`adj = false`) resp. `Aᴴ x = b` (`adj = true`) — `InnerOK`.
-/
import PymotoVerif.Lemmas.LDASWitness
import PymotoVerif.Lemmas.LDASReuse
import PymotoVerif.Lemmas.LDASNorm
import Mathlib.LinearAlgebra.Matrix.Notation
import Mathlib.Tactic.NormNum
import Mathlib.Tactic.FinCases

set_option linter.unusedSectionVars false

namespace PymotoVerif.C06
open PymotoVerif.LDAS Matrix

variable {n : Nat} {α : Type} [Field α] [DecidableEq α]

/-! ## `get_diagonal_indices` -/

/-- the indices handled by division are EXACTLY those with a non-zero diagonal entry whose row AND
    column are otherwise zero -/
theorem diag_indices_exact (A : Mat n α) (i : Fin n) : diagMask A i = true ↔ Decoupled A i :=
  diagMask_iff A i

/-- before repair be0d3f2 the row condition was ignored: for `A = [[1,1],[0,1]]` index 0 is flagged
    although row 0 is coupled, so the invariant `diag i ↔ Decoupled A i` is broken … -/
example : ¬ (∀ i, diagMaskBeforeRepair (!![1, 1; 0, 1] : Mat 2 ℚ) i = true ↔ Decoupled (!![1, 1; 0, 1] : Mat 2 ℚ) i) := by
  intro h
  have h0 : diagMaskBeforeRepair (!![1, 1; 0, 1] : Mat 2 ℚ) 0 = true := by decide
  have := ((h 0).mp h0).2.1 1 (by decide)
  norm_num at this

/-- … and with it the algebra the wrapper relies on: masking does not commute with the matrix any more
    (`x = [-2, 2]` is the inner solution of the witness `b = [1, 2]`; the wrapper returned `[1, 2]`) -/
example : (!![1, 1; 0, 1] : Mat 2 ℚ) *ᵥ maskOff (diagMaskBeforeRepair (!![1, 1; 0, 1] : Mat 2 ℚ)) ![-2, 2]
    ≠ maskOff (diagMaskBeforeRepair (!![1, 1; 0, 1] : Mat 2 ℚ)) ((!![1, 1; 0, 1] : Mat 2 ℚ) *ᵥ ![-2, 2]) := by
  intro h
  have := congrFun h 0
  have h0 : diagMaskBeforeRepair (!![1, 1; 0, 1] : Mat 2 ℚ) 0 = true := by decide
  have h1 : diagMaskBeforeRepair (!![1, 1; 0, 1] : Mat 2 ℚ) 1 = false := by decide
  simp [Matrix.mulVec, dotProduct, maskOff, h0, h1, Fin.sum_univ_two] at this

/-- the repaired function does not flag it -/
example : diagMask (!![1, 1; 0, 1] : Mat 2 ℚ) 0 = false := by decide

/-! ## mode table -/

/-- storage selection + conjugation solve the requested system: if the flags are truthful and `y`
    solves the storage-side system with the (possibly conjugated) right-hand side, the returned
    (possibly conjugated) vector solves `op_trans(A) x = rhs`, for `trans ∈ {N, T, H}` -/
theorem mode_table_correct {c : Cfg α} (hL : Laws c) (s : State n α) (A : Mat n α)
    (hs : truthy s.sym = true → SymM A) (hh : truthy s.herm = true → HermM c A)
    (tr : Trans) (htr : tr ≠ .other) (rhs y : Vec n α)
    (hy : (if adjointMode s tr then adjM c A else A) *ᵥ y = (if conjMode s tr then fun i => c.cj (rhs i) else rhs)) :
    opMat c A tr *ᵥ (if conjMode s tr then fun i => c.cj (y i) else y) = rhs := by
  obtain ⟨m1, m2⟩ := mode_table hL s A hs hh tr htr
  by_cases hc : conjMode s tr = true
  · simp only [hc, if_true] at hy ⊢
    exact (transfer_conj hL (m1 hc) y rhs).1 hy
  · simp only [hc] at hy ⊢
    rw [m2 (by simpa using hc)]
    exact hy

/-! ## invariant -/

theorem inv_init {c : Cfg α} (userSym userHerm : Option Bool) : Inv c (init userSym userHerm : State n α) := by
  refine ⟨fun u hu => hu, fun u hu => hu, ?_⟩
  simp [init]

/-- `update` re-establishes the invariant from ANY earlier state (flags detected again, both
    databases empty, index sets recomputed) -/
theorem inv_update {c : Cfg α} (hL : Laws c) (s : State n α) (hI : Inv c s) (A : Mat n α) (cplx : Bool)
    (hU : UpdOK c s A cplx) : Inv c (update c s A cplx) :=
  inv_update' hL s hI A cplx hU

/-- `solve` keeps the invariant: every pair appended to either database is a solution pair -/
theorem inv_solve {k : Nat} {c : Cfg α} (hL : Laws c)
    (inner : Mat n α → Bool → Vec n α → Option (Vec n α) → Vec n α) (s : State n α) (hI : Inv c s)
    (hin : ∀ A, s.A = some A → InnerOK c inner A)
    (rhs : Blk n k α) (rhsC : Bool) (x0 : Option (Blk n k α × Bool)) (tr : Trans)
    {s' : State n α} {o : SolveOut n k α} (h : solve c inner s rhs rhsC x0 tr = .ok (s', o)) : Inv c s' :=
  (solve_spec hL inner s hI hin rhs rhsC x0 tr h).1

/-! ## correctness for every history -/

/-- one call, any reachable state, all modes, vector/block: for every column `j` of the returned array
    `op_trans(A) x_j = rhs_j` EXACTLY if the inner solver was used for it, and otherwise the residual of
    the requested system is the one that passed the tolerance test (`‖r‖² > tol²‖b‖²` is false) -/
theorem ldas_solve_correct {k : Nat} {c : Cfg α} (hL : Laws c)
    (inner : Mat n α → Bool → Vec n α → Option (Vec n α) → Vec n α) (s : State n α) (hI : Inv c s)
    (hin : ∀ A, s.A = some A → InnerOK c inner A)
    (rhs : Blk n k α) (rhsC : Bool) (x0 : Option (Blk n k α × Bool)) (tr : Trans)
    {s' : State n α} {o : SolveOut n k α} (h : solve c inner s rhs rhsC x0 tr = .ok (s', o)) :
    ∃ A, s.A = some A ∧ ∀ j,
      (o.did j = true → opMat c A tr *ᵥ o.sol j = rhs j) ∧
      (o.did j = false → exceeds c (opMat c A tr *ᵥ o.sol j - rhs j) (rhs j) = false) := by
  obtain ⟨_, A, h1, _, h3⟩ := solve_spec hL inner s hI hin rhs rhsC x0 tr h
  exact ⟨A, h1, h3⟩

/-- EVERY history of `update` / `solve` calls started on a new wrapper (any user flags): each solve
    that returns, returns columns that solve the requested system of the CURRENT matrix (exactly, or
    to the tolerance that was tested) — induction over the operation list -/
theorem ldas_correct {c : Cfg α} (hL : Laws c)
    (inner : Mat n α → Bool → Vec n α → Option (Vec n α) → Vec n α) (userSym userHerm : Option Bool)
    (ops : List (Op n α)) (hH : HistOK c inner (init userSym userHerm) ops) :
    RunOK c inner (init userSym userHerm) ops :=
  run_ok hL inner ops _ (inv_init userSym userHerm) (by intro A hA; simp [init] at hA) hH

/-! ## update forgets -/

/-- after `update` no component of the state other than the user-supplied flags depends on anything
    that happened before: two wrappers with the same user flags and arbitrary different pasts are in
    the SAME state after `update(A)` -/
theorem ldas_update_forgets {c : Cfg α} (s₁ s₂ : State n α) (hI₁ : Inv c s₁) (hI₂ : Inv c s₂)
    (hs : s₁.userSym = s₂.userSym) (hh : s₁.userHerm = s₂.userHerm) (A : Mat n α) (cplx : Bool) :
    update c s₁ A cplx = update c s₂ A cplx := by
  obtain ⟨a1, b1, _⟩ := hI₁
  obtain ⟨a2, b2, _⟩ := hI₂
  have e1 : (update c s₁ A cplx).sym = (update c s₂ A cplx).sym := by
    simp only [update]
    cases hu : s₁.userSym with
    | none => rw [← hs, hu]
    | some u => rw [← hs, hu]; simp only; rw [a1 u hu, a2 u (hs ▸ hu)]
  have e2 : (update c s₁ A cplx).herm = (update c s₂ A cplx).herm := by
    simp only [update]
    cases hu : s₁.userHerm with
    | none => rw [← hh, hu]
    | some u => rw [← hh, hu]; simp only; rw [b1 u hu, b2 u (hh ▸ hu)]
  cases s₁; cases s₂
  simp only [update] at e1 e2 hs hh ⊢
  simp only [State.mk.injEq]
  exact ⟨trivial, trivial, hs, hh, e1, e2, trivial, trivial, trivial⟩

/-! ## totality -/

/-- `solve` returns a value whenever a fresh wrapper for the same matrix would: success depends only on
    `trans` and on a matrix being present, never on what the databases hold (before repair 123ee8f the
    in-place subtractions `badd -= beta*b` / `x0_loc -= outer(x, beta)` made this false for mixed real /
    complex histories; regression witness corpus/defects/c06_mixed_dtype_inplace.py) -/
theorem ldas_total {k : Nat} {c : Cfg α}
    (inner : Mat n α → Bool → Vec n α → Option (Vec n α) → Vec n α) (s fresh : State n α)
    (hA : fresh.A = s.A) (rhs : Blk n k α) (rhsC : Bool) (x0 : Option (Blk n k α × Bool)) (tr : Trans)
    (hf : ∃ r, solve c inner fresh rhs rhsC x0 tr = .ok r) : ∃ r, solve c inner s rhs rhsC x0 tr = .ok r := by
  obtain ⟨r, hr⟩ := hf
  unfold solve at hr ⊢
  split_ifs at hr ⊢ with htr
  rw [hA] at hr
  cases hsA : s.A with
  | none => simp [hsA] at hr
  | some A =>
    simp only
    generalize (if conjMode s tr = true then memoB (cjB c rhs) else rhs) = rhs'
    by_cases hadj : adjointMode s tr = true
    · simp only [hadj, if_true]
      obtain ⟨o, ho⟩ := doSolve_total (inner A true) (adjM c A) s.Acplx s.diag s.dbAdj rhs' rhsC x0
      rw [ho]; exact ⟨_, rfl⟩
    · simp only [hadj]
      obtain ⟨o, ho⟩ := doSolve_total (inner A false) A s.Acplx s.diag s.db rhs' rhsC x0
      rw [ho]; exact ⟨_, rfl⟩

/-! ## orthogonality component of the invariant, and reuse -/

/-- a new wrapper has (trivially) orthogonal databases -/
theorem inv_orth_init {c : Cfg α} (userSym userHerm : Option Bool) : OrthInv c (init userSym userHerm : State n α) :=
  ⟨orthDb_nil c _, orthDb_nil c _⟩

theorem inv_orth_update {c : Cfg α} (s : State n α) (A : Mat n α) (cplx : Bool) : OrthInv c (update c s A cplx) :=
  ⟨orthDb_nil c _, orthDb_nil c _⟩

/-- `solve` keeps both databases orthogonal (each later `b` is orthogonal to every earlier one) and free of
    zero-norm vectors: the append loop orthogonalises and skips a remainder with `bnrm ≤ tol·bnrm0` -/
theorem inv_orth_solve {k : Nat} {c : Cfg α} (hL : Laws c) (hsc : ScaleOK c) (hlt : LtOK c n)
    (inner : Mat n α → Bool → Vec n α → Option (Vec n α) → Vec n α) (s : State n α) (hO : OrthInv c s)
    (rhs : Blk n k α) (rhsC : Bool) (x0 : Option (Blk n k α × Bool)) (tr : Trans)
    {s' : State n α} {o : SolveOut n k α} (h : solve c inner s rhs rhsC x0 tr = .ok (s', o)) : OrthInv c s' :=
  solve_orth hL hsc hlt inner s hO rhs rhsC x0 tr h

/-- REUSE: if every column of the effective right-hand side (conjugated as the mode table says), restricted to
    the non-diagonal index set, is a linear combination of the right-hand sides stored for the current matrix
    in the database this call uses, and no stored pair is skipped by the dtype rule (the matrix or the
    right-hand side is complex, or the stored pairs are real), then the inner solver is NOT called.
    (The decoupled entries never matter: they are solved by division.) -/
theorem ldas_reuse {k : Nat} {c : Cfg α} (hL : Laws c) (hlt : LtOK c n)
    (inner : Mat n α → Bool → Vec n α → Option (Vec n α) → Vec n α) (s : State n α) (hI : Inv c s) (hO : OrthInv c s)
    (rhs : Blk n k α) (rhsC : Bool) (x0 : Option (Blk n k α × Bool)) (tr : Trans)
    (hns : ∀ q ∈ selDb s tr, (q.cplx && !(s.Acplx || rhsC)) = false)
    (hspan : ∀ j, SpanL (selDb s tr) (maskOff s.diag (effRhs c s tr rhs j)))
    {s' : State n α} {o : SolveOut n k α} (h : solve c inner s rhs rhsC x0 tr = .ok (s', o)) : o.called = false :=
  solve_reuse hL hlt inner s hI hO rhs rhsC x0 tr hns hspan h

/-- second half of the chain on its own: whenever the reconstruction leaves a zero remaining right-hand side
    (in particular for a zero right-hand side), the inner solver is not reached -/
theorem ldas_zero_remainder_free {k : Nat} {c : Cfg α} (hL : Laws c) (hlt : LtOK c n)
    {M : Mat n α} {Mc : Bool} {d : Fin n → Bool} {db : List (Pair n α)} (hd : MaskOK M d) (hdb : DbOK M d db)
    (hreal : Mc = false → RealM c M) (solveFn : Vec n α → Option (Vec n α) → Vec n α)
    (rhs : Blk n k α) (rhsC : Bool) (x0 : Option (Blk n k α × Bool))
    (hzero : ∀ j, (reconstruct c d (Mc || rhsC) db (fun j => maskOff d (rhs j), fun j => diagSol M d (rhs j))).1 j = 0)
    {o : SolveOut n k α} (h : doSolve c solveFn M Mc d db rhs rhsC x0 = .ok o) : o.called = false :=
  doSolve_zero_rem hL hlt hd hdb hreal solveFn rhs rhsC x0 hzero h

/-! ## the normalisation of the stored pairs is unobservable -/

/-- The code stores `(xadd/bnrm, badd/bnrm)`; the model stores `(t·xadd, t·badd)` with `t = c.scale bnrm²`, an arbitrary
    non-zero factor (the exact driver uses `t = 1`). For EVERY history, replacing the factor by any other non-zero
    function `f` changes nothing a caller can observe: the same operations fail with the same error, and every solve
    returns the same `x`, the same residual-test outcome per column (`did`), the same inner-call decision (`called`)
    and the same number of skipped columns; the final states agree in every component except that each stored pair is
    multiplied by a non-zero scalar (`StateSim`). The reason: a projection coefficient `⟨r,b⟩/⟨b,b⟩` scales as `1/t`,
    so `α·(t x)` and `α·(t b)` do not depend on `t` (`coef_scale`). -/
theorem ldas_norm_irrelevant {c : Cfg α} (hL : Laws c) (hsc : ScaleOK c) (f : α → α) (hf : ∀ a, f a ≠ 0)
    (inner : Mat n α → Bool → Vec n α → Option (Vec n α) → Vec n α) (userSym userHerm : Option Bool)
    (ops : List (Op n α)) :
    (run (c.withScale f) inner (init userSym userHerm) ops).map Res.obs
        = (run c inner (init userSym userHerm) ops).map Res.obs ∧
    StateSim (finalState c inner (init userSym userHerm) ops)
      (finalState (c.withScale f) inner (init userSym userHerm) ops) :=
  run_sim hL hsc f hf inner ops _ _ (StateSim.refl _)

/-- one call from related states (any reachable pair): same error, or same outputs and related new states -/
theorem ldas_norm_irrelevant_solve {k : Nat} {c : Cfg α} (hL : Laws c) (hsc : ScaleOK c) (f : α → α)
    (hf : ∀ a, f a ≠ 0) (inner : Mat n α → Bool → Vec n α → Option (Vec n α) → Vec n α) {s₁ s₂ : State n α}
    (h : StateSim s₁ s₂) (rhs : Blk n k α) (rhsC : Bool) (x0 : Option (Blk n k α × Bool)) (tr : Trans) :
    (∀ e, solve c inner s₁ rhs rhsC x0 tr = .error e → solve (c.withScale f) inner s₂ rhs rhsC x0 tr = .error e) ∧
    (∀ s₁' o₁, solve c inner s₁ rhs rhsC x0 tr = .ok (s₁', o₁) →
      ∃ s₂' o₂, solve (c.withScale f) inner s₂ rhs rhsC x0 tr = .ok (s₂', o₂) ∧ StateSim s₁' s₂' ∧
        o₂.sol = o₁.sol ∧ o₂.did = o₁.did ∧ o₂.called = o₁.called ∧ o₂.dropped = o₁.dropped ∧ o₂.x0loc = o₁.x0loc) := by
  obtain ⟨h1, h2⟩ := solve_sim hL hsc f hf inner h rhs rhsC x0 tr
  refine ⟨h1, fun s₁' o₁ he => ?_⟩
  obtain ⟨s₂', o₂, a, b, g1, g2, g3, g4, _, g6, _⟩ := h2 s₁' o₁ he
  exact ⟨s₂', o₂, a, b, g1, g2, g3, g4, g6⟩

/-! ## non-vacuity: a concrete instance of every hypothesis (ℚ, `cj = id`) -/

/-- the contract hypothesis is satisfiable -/
example : InnerOK cfgQ inner2 A2 := by
  intro b x0
  constructor
  · funext i
    fin_cases i <;> simp [inner2, A2, Matrix.mulVec, dotProduct, Fin.sum_univ_two]
  · funext i
    fin_cases i <;> simp [inner2, A2, adjM, cfgQ, Matrix.mulVec, dotProduct, Fin.sum_univ_two]

/-- the history hypothesis is satisfiable by a history with an update, a solve in every mode, a repeated
    and a zero right-hand side -/
example : HistOK cfgQ inner2 (init none none)
    [.update A2 false, .solve 1 (fun _ => ![1, 2]) false none .N, .solve 1 (fun _ => ![1, 2]) false none .T,
     .solve 2 (fun j => if j = 0 then ![2, 4] else ![0, 0]) false none .H] := by
  refine ⟨⟨fun h => by simp [init] at h, fun h => by simp [init] at h, fun _ _ _ => rfl⟩, ?_, trivial⟩
  intro b x0
  constructor
  · funext i
    fin_cases i <;> simp [inner2, A2, Matrix.mulVec, dotProduct, Fin.sum_univ_two]
  · funext i
    fin_cases i <;> simp [inner2, A2, adjM, cfgQ, Matrix.mulVec, dotProduct, Fin.sum_univ_two]

/-- the order hypothesis `LtOK` holds at ℚ -/
example : LtOK cfgQ 2 := by
  intro d v
  simp only [cfgQ, ipSel, decide_eq_false_iff_not, not_lt, id]
  apply mul_nonneg (by norm_num)
  apply Finset.sum_nonneg
  intro i _
  split_ifs
  · exact le_refl 0
  · exact mul_self_nonneg (v i)

/-- the span hypothesis of `ldas_reuse` is satisfiable non-trivially: `3·b` lies in the span of a database `[⟨x, b⟩]` -/
example (x b : Vec 2 ℚ) : SpanL [({ x := x, b := b, cplx := false } : Pair 2 ℚ)] (fun i => 3 * b i) :=
  ⟨3, 0, rfl, by funext i; simp⟩

/-- the scale hypotheses are satisfiable: the driver's factor 1 and, e.g., the alternative factor 2 -/
example : ScaleOK cfgQ ∧ ∀ a : ℚ, (fun _ : ℚ => (2 : ℚ)) a ≠ 0 :=
  ⟨fun _ => one_ne_zero, fun _ => two_ne_zero⟩

end PymotoVerif.C06
