/-
C07 — Linear-system modules satisfy their defining equations (and, for C01, their sensitivities are exact adjoints).
Property theorems ONLY (helper lemmas live in `Lemmas/LinSys.lean`).

Models: `LA/LinSys.lean` (`LinSolve`, `Inverse`, `SystemOfEquations`, `StaticCondensation` of pymoto/modules/linalg.py as
repaired). All statements hold for EVERY size `n`, every number of right-hand sides `k` (`k = 1` is the vector case),
every commutative ring of scalars `α` (ℚ, ℝ, ℚ(i), ℂ, …), every index partition and every exact inner solver
(contract `Solver.Ok S A`: `A * S.solve B = B`, `Aᵀ * S.solveT B = B`; discharged for the real solver stack by C05/C06
and, in the correspondence run, by an exact elimination whose contract is checked at run time).
The pairing is `⟪X, Y⟫ = Re Σᵢⱼ Xᵢⱼ Yᵢⱼ` (DESIGN §3.2); `pair X Y = Σᵢⱼ Xᵢⱼ Yᵢⱼ`.
-/
import PymotoVerif.Lemmas.LinSys
import Mathlib.Tactic.LinearCombination
import Mathlib.Tactic.NormNum
import Mathlib.Tactic.FinCases
import Mathlib.LinearAlgebra.Matrix.Determinant.Basic
import Mathlib.Algebra.Order.Field.Rat

namespace PymotoVerif.C07
open PymotoVerif PymotoVerif.LinSys Matrix

variable {α : Type*} [CommRing α]

/-! ## LinSolve -/

/-- `LinSolve` returns `X` with `A X = B` for every admissible input (everything except the documented rejection of a
real sparse matrix with a complex right-hand side), for a block of `k` right-hand sides. -/
theorem linsolve_eq {n k : ℕ} (fl : LinSolveFlags) (hadm : fl.rejected = false) (S : Solver n α)
    (A : Matrix (Fin n) (Fin n) α) (hS : S.Ok A) (B : Matrix (Fin n) (Fin k) α) :
    ∃ X, linSolveResponse fl S B = .ok X ∧ A * X = B := by
  refine ⟨S.solve B, ?_, hS.solve_eq B⟩
  rw [linSolveResponse]
  unfold LinSolveFlags.rejected at hadm
  simp [hadm]

/-- vector right-hand side (`k = 1`): `A *ᵥ x = b` -/
theorem linsolve_eq_vec {n : ℕ} (fl : LinSolveFlags) (hadm : fl.rejected = false) (S : Solver n α)
    (A : Matrix (Fin n) (Fin n) α) (hS : S.Ok A) (b : Fin n → α) :
    ∃ X, linSolveResponse fl S (Matrix.of fun i (_ : Fin 1) => b i) = .ok X ∧ A *ᵥ (fun i => X i 0) = b := by
  obtain ⟨X, h1, h2⟩ := linsolve_eq fl hadm S A hS (Matrix.of fun i (_ : Fin 1) => b i)
  refine ⟨X, h1, ?_⟩
  funext i
  have := congrFun (congrFun h2 i) 0
  simpa [Matrix.mul_apply, mulVec, dotProduct] using this

/-- the documented rejection: real sparse matrix, complex right-hand side -/
theorem linsolve_rejects {n k : ℕ} (fl : LinSolveFlags) (h : fl.rejected = true) (S : Solver n α)
    (B : Matrix (Fin n) (Fin k) α) : linSolveResponse fl S B = .error .TypeError :=
  linSolveResponse_rejected fl h S B

/-- the contract is satisfiable for EVERY non-singular matrix (non-vacuity of `Solver.Ok`) -/
example {n : ℕ} (A : Matrix (Fin n) (Fin n) ℚ) (h : IsUnit A.det) : ∃ S : Solver n ℚ, S.Ok A :=
  ⟨Solver.ofInv A, Solver.ofInv_ok A h⟩

example : ∃ S : Solver 2 ℚ, S.Ok !![2, 1; 1, 3] :=
  ⟨_, Solver.ofInv_ok _ (by rw [det_fin_two_of]; norm_num)⟩

/-- C01 for `LinSolve` (linearised-constraint form): for EVERY tangent `(dA, dB, dU)` of the defining equation
(`A dU + dA U = dB`) that respects the dtypes (a real matrix / rhs is perturbed by real numbers only),
`⟪W, dU⟫ = ⟪g_b, dB⟫ + ⟪g_A, dA⟫` with `(g_A, g_b) = LinSolve._sensitivity(W)`; vector and block right-hand sides,
dense outer-product and DyadCarrier forms, and the `.real` rules. -/
theorem linsolve_adjoint {n k : ℕ} (R : RealPart α) (fl : LinSolveFlags) (S : Solver n α)
    (A : Matrix (Fin n) (Fin n) α) (hS : S.Ok A) (U W : Matrix (Fin n) (Fin k) α)
    (dA : Matrix (Fin n) (Fin n) α) (dB dU : Matrix (Fin n) (Fin k) α)
    (hlin : A * dU + dA * U = dB)
    (hA : fl.iscomplex = false → ∀ i j, R.IsReal (dA i j))
    (hB : fl.rhsComplex = false → ∀ i j, R.IsReal (dB i j)) :
    R.re (pair W dU) =
      R.re (pair (linSolveSensitivity R fl S U W).2 dB) + R.re (pair (linSolveSensitivity R fl S U W).1.toDense dA) := by
  set lam := S.solveT W with hlam
  have hT : Aᵀ * lam = W := hS.solveT_eq W
  -- the identity without real parts
  have hcore : pair W dU = pair lam dB + pair ((-lam) * Uᵀ) dA := by
    have h1 : pair W dU = pair lam (A * dU) := by
      rw [← hT, pair_mul_left, transpose_transpose]
    have h2 : A * dU = dB - dA * U := by rw [← hlin]; abel
    rw [h1, h2, pair_sub_right, Matrix.neg_mul, pair_neg_left, pair_outer]
    ring
  -- the two outputs of the sensitivity
  have hdb : R.re (pair (linSolveSensitivity R fl S U W).2 dB) = R.re (pair lam dB) := by
    simp only [linSolveSensitivity, Tab.get_tabulate]
    cases hb : fl.rhsComplex with
    | true => simp [hlam]
    | false =>
      simp only [Bool.false_eq_true, if_false]
      exact re_pair_map_left R lam dB (hB hb)
  have hdA : R.re (pair (linSolveSensitivity R fl S U W).1.toDense dA) = R.re (pair ((-lam) * Uᵀ) dA) := by
    simp only [linSolveSensitivity, Tab.get_tabulate]
    have hD : ∀ s : MatSens n n α, s.toDense = (-lam) * Uᵀ →
        R.re (pair (if fl.iscomplex = true then s else s.real R).toDense dA) = R.re (pair ((-lam) * Uᵀ) dA) := by
      intro s hs
      cases hc : fl.iscomplex with
      | true => simp [hs]
      | false =>
        simp only [Bool.false_eq_true, if_false]
        rw [MatSens.toDense_real, hs]
        exact re_pair_map_left R _ dA (hA hc)
    cases hsp : fl.issparse with
    | true => exact hD _ (by simp [MatSens.toDense, colDyads_toDense, hlam])
    | false => exact hD _ (by simp [MatSens.toDense, hlam])
  rw [hdb, hdA, hcore, R.re_add]

/-- what the sensitivities are: `g_b = A⁻ᵀ W` and `g_A = −g_b Uᵀ` (complex data; for real data their real parts) -/
theorem linsolve_sens_eq {n k : ℕ} (R : RealPart α) (fl : LinSolveFlags) (S : Solver n α)
    (A : Matrix (Fin n) (Fin n) α) (hS : S.Ok A) (U W : Matrix (Fin n) (Fin k) α)
    (hc : fl.iscomplex = true) (hb : fl.rhsComplex = true) :
    Aᵀ * (linSolveSensitivity R fl S U W).2 = W ∧
      (linSolveSensitivity R fl S U W).1.toDense = -((linSolveSensitivity R fl S U W).2 * Uᵀ) := by
  simp only [linSolveSensitivity, Tab.get_tabulate, hc, hb, if_true]
  refine ⟨hS.solveT_eq W, ?_⟩
  cases fl.issparse <;> simp [MatSens.toDense, colDyads_toDense]

/-- the exact finite identity behind the derivative: if `A X = B` and `(A + dA) X' = B + dB` then
`(A + dA)(X' − X) = dB − dA X`, i.e. `X' − X = (A + dA)⁻¹ (dB − dA X)`; no implicit-function theorem needed. -/
theorem linsolve_finite_identity {n k : ℕ} (A dA : Matrix (Fin n) (Fin n) α) (X X' B dB : Matrix (Fin n) (Fin k) α)
    (h : A * X = B) (h' : (A + dA) * X' = B + dB) :
    (A + dA) * (X' - X) = dB - dA * X ∧
      (IsUnit (A + dA).det → X' - X = (A + dA)⁻¹ * (dB - dA * X)) := by
  have h1 : (A + dA) * (X' - X) = dB - dA * X := by
    rw [Matrix.mul_sub, h', Matrix.add_mul, h]; abel
  refine ⟨h1, fun hu => ?_⟩
  rw [← h1, ← Matrix.mul_assoc, Matrix.nonsing_inv_mul _ hu, Matrix.one_mul]

/-- non-vacuity of `linsolve_adjoint`: a tangent with real perturbations exists for every `dA`, `dU` -/
example {n k : ℕ} (A dA : Matrix (Fin n) (Fin n) ℚ) (U dU : Matrix (Fin n) (Fin k) ℚ) :
    ∃ dB, A * dU + dA * U = dB ∧ (∀ i j, (RealPart.id ℚ).IsReal (dA i j)) ∧ ∀ i j, (RealPart.id ℚ).IsReal (dB i j) :=
  ⟨_, rfl, fun _ _ => rfl, fun _ _ => rfl⟩

/-! ## Inverse -/

/-- `Inverse` returns `B` with `A B = I` (and `B A = I`) under the contract of `np.linalg.inv` -/
theorem inverse_eq {n : ℕ} (inv : Matrix (Fin n) (Fin n) α → Matrix (Fin n) (Fin n) α)
    (A : Matrix (Fin n) (Fin n) α) (hinv : A * inv A = 1) :
    A * inverseResponse inv A = 1 ∧ inverseResponse inv A * A = 1 :=
  ⟨hinv, left_inv_of_right_inv hinv⟩

example : (!![2, 1; 1, 3] : Matrix (Fin 2) (Fin 2) ℚ) * !![3/5, -1/5; -1/5, 2/5] = 1 := by
  ext i j; fin_cases i <;> fin_cases j <;> simp [Matrix.mul_apply, Fin.sum_univ_two] <;> norm_num

/-- C01 for `Inverse`: for every tangent of `A B = I` (`A dB + dA B = 0`, real `dA` for a real matrix),
`⟪W, dB⟫ = ⟪−Bᵀ W Bᵀ, dA⟫`. -/
theorem inverse_adjoint {n : ℕ} (R : RealPart α) (Acomplex : Bool) (A B W dA dB : Matrix (Fin n) (Fin n) α)
    (hB : A * B = 1) (hlin : A * dB + dA * B = 0)
    (hA : Acomplex = false → ∀ i j, R.IsReal (dA i j)) :
    R.re (pair W dB) = R.re (pair (inverseSensitivity R Acomplex B W) dA) := by
  have hBA : B * A = 1 := left_inv_of_right_inv hB
  have hdB : dB = -(B * dA * B) := by
    have h1 : A * dB = -(dA * B) := eq_neg_of_add_eq_zero_left hlin
    calc dB = (B * A) * dB := by rw [hBA, Matrix.one_mul]
      _ = B * (A * dB) := Matrix.mul_assoc _ _ _
      _ = -(B * dA * B) := by rw [h1, Matrix.mul_neg, Matrix.mul_assoc]
  have hcore : pair W dB = pair (-(Bᵀ * W * Bᵀ)) dA := by
    rw [hdB, pair_neg_right, pair_neg_left, Matrix.mul_assoc Bᵀ, pair_mul_left, pair_mul_right]
    simp only [transpose_transpose]
  unfold inverseSensitivity
  cases hc : Acomplex with
  | true => simp [hcore]
  | false =>
    simp only [Bool.false_eq_true, if_false]
    rw [re_pair_map_left R _ dA (hA hc), hcore]

/-- exact finite identity for `Inverse`: `B' − B = −B' dA B` -/
theorem inverse_finite_identity {n : ℕ} (A dA B B' : Matrix (Fin n) (Fin n) α) (h : A * B = 1) (h' : (A + dA) * B' = 1) :
    B' - B = -(B' * dA * B) := by
  have hl' : B' * (A + dA) = 1 := left_inv_of_right_inv h'
  have e1 : B' * (A + dA) * B = B := by rw [hl', Matrix.one_mul]
  have e2 : B' * (A + dA) * B = B' + B' * dA * B := by
    rw [Matrix.mul_add, Matrix.add_mul, Matrix.mul_assoc B' A B, h, Matrix.mul_one]
  rw [e2] at e1
  have e3 : B' - B = B' - (B' + B' * dA * B) := by rw [e1]
  rw [e3]; abel

/-! ## SystemOfEquations -/

/-- `SystemOfEquations` returns `(x, b)` with `A x = b`, `x[p] = xp` and `b[f] = bf`, for EVERY partition `f ⊎ p` of the
dofs (any order of the index lists), any matrix (symmetric or not), vector or block data. -/
theorem soe_eq {n nf np k : ℕ} (fl : LinSolveFlags) (hadm : fl.rejected = false)
    (f : Fin nf → Fin n) (p : Fin np → Fin n) (hpart : IsPartition f p)
    (A : Matrix (Fin n) (Fin n) α) (S : Solver nf α) (hS : S.Ok (A.submatrix f f))
    (bf : Matrix (Fin nf) (Fin k) α) (xp : Matrix (Fin np) (Fin k) α) :
    ∃ x b st, soeResponse fl f p A S bf xp = .ok ((x, b), st) ∧
      A * x = b ∧ x.submatrix p id = xp ∧ b.submatrix f id = bf := by
  refine ⟨_, _, _, soeResponse_ok fl hadm f p A S bf xp, ?_, ?_, ?_⟩
  · set xf := S.solve (bf - A.submatrix f p * xp) with hxf
    have hsol : A.submatrix f f * xf = bf - A.submatrix f p * xp := hS.solve_eq _
    have hxF : (scatterRows f xf (scatterRows p xp 0)).submatrix f id = xf :=
      scatterRows_submatrix_self hpart.inj_left _ _
    have hxP : (scatterRows f xf (scatterRows p xp 0)).submatrix p id = xp := by
      rw [scatterRows_submatrix_other hpart.disjoint, scatterRows_submatrix_self hpart.inj_right]
    rw [hpart.mul_submatrix A, hxF, hxP]
    apply hpart.ext_rows
    · rw [scatterRows_submatrix_other hpart.disjoint', scatterRows_submatrix_self hpart.inj_left]
      ext r j
      have := congrFun (congrFun hsol r) j
      simp only [Matrix.add_apply, submatrix_apply, id, Matrix.sub_apply] at this ⊢
      simp only [Matrix.mul_apply, submatrix_apply, id] at this ⊢
      linear_combination this
    · rw [scatterRows_submatrix_self hpart.inj_right]
      ext s j
      simp [Matrix.mul_apply]
  · rw [scatterRows_submatrix_other hpart.disjoint, scatterRows_submatrix_self hpart.inj_right]
  · rw [scatterRows_submatrix_other hpart.disjoint', scatterRows_submatrix_self hpart.inj_left]

/-- non-vacuity: a partition in a non-sorted order -/
example : IsPartition (n := 3) ![2, 0] ![1] := by
  unfold IsPartition
  decide

/-- C01 for `SystemOfEquations`: for every tangent of the defining equations (`A dx + dA x = db`, `dx[p] = dxp`,
`db[f] = dbf`), `⟪g_x, dx⟫ + ⟪g_b, db⟫ = ⟪g_A, dA⟫ + ⟪g_bf, dbf⟫ + ⟪g_xp, dxp⟫` where a `None` seed counts as zero;
the identity holds in the scalar ring itself (before taking real parts). -/
theorem soe_adjoint {n nf np k : ℕ} (fl : LinSolveFlags) (hadm : fl.rejected = false)
    (f : Fin nf → Fin n) (p : Fin np → Fin n) (hpart : IsPartition f p)
    (A : Matrix (Fin n) (Fin n) α) (S : Solver nf α) (hS : S.Ok (A.submatrix f f))
    (bf : Matrix (Fin nf) (Fin k) α) (xp : Matrix (Fin np) (Fin k) α)
    (x b : Matrix (Fin n) (Fin k) α) (st : SoeState n nf np k α)
    (hresp : soeResponse fl f p A S bf xp = .ok ((x, b), st))
    (gx gb : Option (Matrix (Fin n) (Fin k) α))
    (dA : Matrix (Fin n) (Fin n) α) (dbf : Matrix (Fin nf) (Fin k) α) (dxp : Matrix (Fin np) (Fin k) α)
    (dx db : Matrix (Fin n) (Fin k) α)
    (hlin : A * dx + dA * x = db) (hdx : dx.submatrix p id = dxp) (hdb : db.submatrix f id = dbf) :
    pair (gx.getD 0) dx + pair (gb.getD 0) db =
      pair (soeSensitivity f p S st gx gb).1.toDense dA + pair (soeSensitivity f p S st gx gb).2.1 dbf
        + pair (soeSensitivity f p S st gx gb).2.2 dxp := by
  -- the state left by the response
  rw [soeResponse_ok fl hadm] at hresp
  simp only [Except.ok.injEq, Prod.mk.injEq] at hresp
  obtain ⟨⟨hx, _⟩, hst⟩ := hresp
  have hstx : st.x = x := by rw [← hst, ← hx]
  have hAfp : st.Afp = A.submatrix f p := by rw [← hst]
  have hApf : st.Apf = A.submatrix p f := by rw [← hst]
  have hApp : st.App = A.submatrix p p := by rw [← hst]
  -- abbreviations: seeds with `None` read as zero
  set GX := gx.getD 0 with hGX
  set GB := gb.getD 0 with hGB
  -- the adjoint vector of the code
  set lam := soeLam f p S st gx gb with hlam
  set lamf := (-1 : α) • S.solveT (soeAdjointLoad f p st gx gb) with hlamf'
  have hlamF : lam.submatrix f id = lamf := soeLam_free hpart S st gx gb
  have hlamP : lam.submatrix p id = GB.submatrix p id := soeLam_prescribed hpart S st gx gb
  have hlamf : (A.submatrix f f)ᵀ * lamf = -(GX.submatrix f id + (A.submatrix p f)ᵀ * GB.submatrix p id) := by
    rw [hlamf', Matrix.mul_smul, hS.solveT_eq, soeAdjointLoad_eq, hApf, neg_smul, one_smul]
  obtain ⟨h1, h2, h3⟩ := soeSensitivity_eq f p S st gx gb
  rw [hstx] at h1
  rw [hlamF] at h2
  rw [hlamF, hAfp, hApp] at h3
  -- ⟪lam xᵀ, dA⟫ = ⟪lam, db⟫ − ⟪Aᵀ lam, dx⟫
  have e1 : pair (lam * xᵀ) dA = pair lam db - pair (Aᵀ * lam) dx := by
    have : dA * x = db - A * dx := by rw [← hlin]; abel
    rw [pair_outer, this, pair_sub_right, pair_mul_left Aᵀ, transpose_transpose]
  -- rows of Aᵀ lam
  have e2 : (Aᵀ * lam).submatrix f id = -(GX.submatrix f id) := by
    have := congrArg (fun M => M.submatrix f id) (hpart.mul_submatrix Aᵀ lam)
    simp only [submatrix_add, Pi.add_apply] at this
    have hA1 : ((Aᵀ).submatrix id f * lam.submatrix f id).submatrix f id = (A.submatrix f f)ᵀ * lamf := by
      rw [hlamF]; rfl
    have hA2 : ((Aᵀ).submatrix id p * lam.submatrix p id).submatrix f id = (A.submatrix p f)ᵀ * GB.submatrix p id := by
      rw [hlamP]; rfl
    rw [this, hA1, hA2, hlamf]; abel
  have e3 : (Aᵀ * lam).submatrix p id = (A.submatrix f p)ᵀ * lamf + (A.submatrix p p)ᵀ * GB.submatrix p id := by
    have := congrArg (fun M => M.submatrix p id) (hpart.mul_submatrix Aᵀ lam)
    simp only [submatrix_add, Pi.add_apply] at this
    have hA1 : ((Aᵀ).submatrix id f * lam.submatrix f id).submatrix p id = (A.submatrix f p)ᵀ * lamf := by
      rw [hlamF]; rfl
    have hA2 : ((Aᵀ).submatrix id p * lam.submatrix p id).submatrix p id = (A.submatrix p p)ᵀ * GB.submatrix p id := by
      rw [hlamP]; rfl
    rw [this, hA1, hA2]
  rw [h1, h2, h3, e1, hpart.pair_split lam db, hpart.pair_split (Aᵀ * lam) dx, hpart.pair_split GX dx,
    hpart.pair_split GB db, e2, e3, hlamF, hlamP, hdx, hdb]
  simp only [pair_add_left, pair_neg_left]
  ring

/-! ## StaticCondensation -/

/-- `StaticCondensation` returns the Schur complement of the free block, `A_mm − A_mf A_ff⁻¹ A_fm` -/
theorem static_cond_schur {n nm nf : ℕ} (m : Fin nm → Fin n) (f : Fin nf → Fin n)
    (A : Matrix (Fin n) (Fin n) α) (S : Solver nf α) (hS : S.Ok (A.submatrix f f)) :
    ∃ X, staticCondResponse true m f A S =
      .ok (A.submatrix m m - A.submatrix m f * (A.submatrix f f)⁻¹ * A.submatrix f m, X) := by
  refine ⟨S.solve (A.submatrix f m), ?_⟩
  simp only [staticCondResponse, Bool.not_true, Bool.false_eq_true, if_false, Tab.get_tabulate]
  rw [hS.solve_eq_inv, Matrix.mul_assoc]

/-- a dense matrix is rejected (`ndarray` has no `.toarray()`) -/
theorem static_cond_dense_rejected {n nm nf : ℕ} (m : Fin nm → Fin n) (f : Fin nf → Fin n)
    (A : Matrix (Fin n) (Fin n) α) (S : Solver nf α) :
    staticCondResponse false m f A S = .error .AttributeError := rfl

/-- the condensed system reproduces the main-dof response of the full system: if the full system (all other dofs
prescribed to zero) with load `b_m` on the main dofs and ZERO load on the free dofs has the solution `(x_m, x_f)`, then
`Ã x_m = b_m`. -/
theorem static_cond_reproduces {n nm nf k : ℕ} (m : Fin nm → Fin n) (f : Fin nf → Fin n)
    (A : Matrix (Fin n) (Fin n) α) (S : Solver nf α) (hS : S.Ok (A.submatrix f f))
    (Ared : Matrix (Fin nm) (Fin nm) α) (X : Matrix (Fin nf) (Fin nm) α)
    (hresp : staticCondResponse true m f A S = .ok (Ared, X))
    (xm bm : Matrix (Fin nm) (Fin k) α) (xf : Matrix (Fin nf) (Fin k) α)
    (hmain : A.submatrix m m * xm + A.submatrix m f * xf = bm)
    (hfree : A.submatrix f m * xm + A.submatrix f f * xf = 0) :
    Ared * xm = bm := by
  simp only [staticCondResponse, Bool.not_true, Bool.false_eq_true, if_false, Tab.get_tabulate] at hresp
  injection hresp with hresp
  injection hresp with hA hX
  have hXeq : A.submatrix f f * X = A.submatrix f m := by rw [← hX]; exact hS.solve_eq _
  have hxf : X * xm = -xf := by
    apply hS.cancel
    rw [← Matrix.mul_assoc, hXeq, Matrix.mul_neg]
    exact eq_neg_of_add_eq_zero_left hfree
  rw [← hA, hX, Matrix.sub_mul, Matrix.mul_assoc, hxf, Matrix.mul_neg, sub_neg_eq_add, hmain]

/-- C01 for `StaticCondensation`: for every perturbation `dA` of the full matrix and the induced tangent
(`A_ff dX + dA_ff X = dA_fm`, `dÃ = dA_mm − dA_mf X − A_mf dX`), `⟪G, dÃ⟫ = ⟪Cl G Cᵀ, dA⟫` with the code's
`C = [I; −X]`, `Cl = [I; −Yᵀ]` — for dense and DyadCarrier seeds, symmetric or non-symmetric `A`
(`X` is the stored `A_ff⁻¹ A_fm`; the tangent equation is the linearisation of `A_ff X = A_fm`). -/
theorem staticcond_adjoint {n nm nf : ℕ} (m : Fin nm → Fin n) (f : Fin nf → Fin n)
    (hm : Function.Injective m) (hf : Function.Injective f) (hfm : ∀ r s, f r ≠ m s)
    (A : Matrix (Fin n) (Fin n) α) (S : Solver nf α) (hS : S.Ok (A.submatrix f f))
    (X : Matrix (Fin nf) (Fin nm) α)
    (G : MatSens nm nm α) (dA : Matrix (Fin n) (Fin n) α) (dX : Matrix (Fin nf) (Fin nm) α)
    (hlin : A.submatrix f f * dX + dA.submatrix f f * X = dA.submatrix f m) :
    pair G.toDense (dA.submatrix m m - dA.submatrix m f * X - A.submatrix m f * dX) =
      pair (staticCondSensitivity m f A S X G).toDense dA := by
  set Yt := S.solveT (A.submatrix m f)ᵀ with hYt
  have hY : (A.submatrix f f)ᵀ * Yt = (A.submatrix m f)ᵀ := hS.solveT_eq _
  have hY' : Ytᵀ * A.submatrix f f = A.submatrix m f := by
    have := congrArg transpose hY
    rwa [transpose_mul, transpose_transpose, transpose_transpose] at this
  set C := scatterRows f (-X) (scatterRows m (1 : Matrix (Fin nm) (Fin nm) α) 0) with hC
  set Cl := scatterRows f (-Yt) (scatterRows m (1 : Matrix (Fin nm) (Fin nm) α) 0) with hCl
  have hsens : (staticCondSensitivity m f A S X G).toDense = Cl * G.toDense * Cᵀ := by
    cases G with
    | dense M =>
      simp only [staticCondSensitivity, Tab.get_tabulate, colDyads_toDense, transpose_transpose, MatSens.toDense]
      rw [Matrix.mul_assoc]
    | dyads D =>
      simp only [staticCondSensitivity, Tab.get_tabulate, MatSens.toDense]
      exact Dyads.toDense_map_mulVec _ _ D
  have hmove : pair (Cl * G.toDense * Cᵀ) dA = pair G.toDense (Clᵀ * dA * C) := by
    rw [Matrix.mul_assoc, pair_mul_left, pair_mul_right, transpose_transpose, Matrix.mul_assoc]
  have hprod : Clᵀ * dA * C =
      dA.submatrix m m - dA.submatrix m f * X - Ytᵀ * (dA.submatrix f m - dA.submatrix f f * X) := by
    rw [Matrix.mul_assoc, hCl, scatter2_transpose_mul hf hm hfm, hC]
    have hr : ∀ {l : ℕ} (r : Fin l → Fin n),
        (dA * scatterRows f (-X) (scatterRows m (1 : Matrix (Fin nm) (Fin nm) α) 0)).submatrix r id
          = dA.submatrix r m - dA.submatrix r f * X := by
      intro l r
      rw [mul_scatter2 hf hm hfm]
      ext a b
      simp [Matrix.mul_apply, sub_eq_add_neg, add_comm]
    rw [hr f, hr m]
    simp only [transpose_neg, Matrix.neg_mul, transpose_one, Matrix.one_mul]
    abel
  rw [hsens, hmove, hprod]
  congr 1
  have : dA.submatrix f m - dA.submatrix f f * X = A.submatrix f f * dX := by rw [← hlin]; abel
  rw [this, ← Matrix.mul_assoc, hY']

/-- non-vacuity of the index hypotheses of `staticcond_adjoint` (main, free, and one dof prescribed to zero) -/
example : Function.Injective (![3, 0] : Fin 2 → Fin 4) ∧ Function.Injective (![1] : Fin 1 → Fin 4) ∧
    ∀ r s, (![1] : Fin 1 → Fin 4) r ≠ (![3, 0] : Fin 2 → Fin 4) s := by
  decide

end PymotoVerif.C07
