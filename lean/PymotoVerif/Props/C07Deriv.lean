/-
C07 / C01 — the implicit-function step for the linear-system modules: the coded sensitivities ARE the derivative of the
response (real analysis; property theorems ONLY, helpers in `Lemmas/LinSysDeriv.lean`).

`Props/C07.lean` proves the adjoint identities in linearised-constraint form ("IF `dA X + A dX = dB` THEN
`⟪W, dX⟫ = ⟪g_B, dB⟫ + ⟪g_A, dA⟫`"). Here the missing analytic step is closed: along EVERY curve of inputs that is
differentiable at `t` the module's output is differentiable at `t`, its derivative satisfies the linearised constraint,
and therefore the scalar `s ↦ ⟪W, output(s)⟫` has the derivative `⟪g_B, B'⟫ + ⟪g_A, A'⟫` with `(g_A, g_B)` exactly what
the coded `_sensitivity` of `LA/LinSys.lean` returns (model definitions `linSolveSensitivity`, `inverseSensitivity`,
`soeSensitivity`, `staticCondSensitivity`, evaluated on the state stored by the response at `t`).

Conventions
* The curve parameter `s` is REAL. Scalars: `F` = any normed field over ℝ (ℝ and ℂ) for the differentiability of the
  outputs and for `SystemOfEquations` / `StaticCondensation` (whose adjoint identity holds in the scalar ring itself);
  for `LinSolve` / `Inverse`, whose code applies `.real` depending on dtypes, there is one theorem over ℝ
  (`.real` = identity, `RealPart.id ℝ`; all flag combinations) and one over ℂ (`complexRealPart`, pairing `Re Σ g v`,
  a real-dtype input is perturbed along real directions only — DESIGN §3.2, the convention of `finite_difference`).
* Differentiability of a matrix curve is ENTRYWISE: `MatDerivAt M M' t := ∀ i j, HasDerivAt (fun s => M s i j) (M' i j) t`
  (no matrix norm has to be chosen; equivalent to `HasDerivAt M M' t` in the sup-norm, `matDerivAt_iff_hasDerivAt`).
  Straight lines `s ↦ M₀ + s • D` (directional derivatives, the form used by C01) are instances (`MatDerivAt.affine`).
* The inner solver is a family `S s` (one `solver.update(A s)` per evaluation) with the C05/C06 contract at every
  non-singular matrix: `∀ s, IsUnit (A s).det → (S s).Ok (A s)`; `np.linalg.inv` likewise. No particular solver is fixed;
  `Solver.ofInv` shows the contract is satisfiable.
* The module output enters as ANY curve `X` with `response(inputs s) = .ok (X s)` for `s` near `t` — so the theorems speak
  about the modelled `_response`, not about a re-statement of it.
-/
import PymotoVerif.Lemmas.LinSysDeriv
import PymotoVerif.Props.C07

namespace PymotoVerif.C07Deriv
open PymotoVerif PymotoVerif.LinSys PymotoVerif.C07 Matrix Filter Topology

variable {F : Type*} [NormedField F] [NormedAlgebra ℝ F]

/-! ## LinSolve -/

/-- implicit differentiation of `A(s) X(s) = B(s)` (ℝ or ℂ data): the solution curve `X(s) = A(s)⁻¹ B(s)` is
differentiable at every `t` where `A`, `B` are differentiable and `A t` is non-singular, with `X' = A⁻¹ (B' − A' X)`; in
particular `A X' + A' X = B'` (the linearised constraint assumed in `C07.linsolve_adjoint`). -/
theorem linsolve_solution_hasDerivAt {n k : ℕ} (A : ℝ → Matrix (Fin n) (Fin n) F) (B : ℝ → Matrix (Fin n) (Fin k) F)
    (A' : Matrix (Fin n) (Fin n) F) (B' : Matrix (Fin n) (Fin k) F) (t : ℝ)
    (hA : MatDerivAt A A' t) (hB : MatDerivAt B B' t) (hdet : IsUnit (A t).det) :
    MatDerivAt (fun s => (A s)⁻¹ * B s) ((A t)⁻¹ * (B' - A' * ((A t)⁻¹ * B t))) t ∧
      A t * ((A t)⁻¹ * (B' - A' * ((A t)⁻¹ * B t))) + A' * ((A t)⁻¹ * B t) = B' := by
  refine ⟨hA.inv_mul hB hdet, ?_⟩
  rw [← Matrix.mul_assoc, Matrix.mul_nonsing_inv _ hdet, Matrix.one_mul]
  abel

/-- the OUTPUT of the modelled `LinSolve._response` is differentiable (ℝ or ℂ data): for every curve of inputs `(A s, B s)`
differentiable at `t` with `A t` non-singular, every family of exact inner solvers, every flag set and every curve `X` of
module outputs (`LinSolve._response (A s, B s) = X s` near `t`), `X' = A⁻¹ (B' − A' X)` and `A X' + A' X = B'`. -/
theorem linsolve_response_hasDerivAt {n k : ℕ} (fl : LinSolveFlags) (S : ℝ → Solver n F)
    (A : ℝ → Matrix (Fin n) (Fin n) F) (B : ℝ → Matrix (Fin n) (Fin k) F)
    (A' : Matrix (Fin n) (Fin n) F) (B' : Matrix (Fin n) (Fin k) F) (t : ℝ)
    (hA : MatDerivAt A A' t) (hB : MatDerivAt B B' t) (hdet : IsUnit (A t).det)
    (hS : ∀ s, IsUnit (A s).det → (S s).Ok (A s))
    (X : ℝ → Matrix (Fin n) (Fin k) F) (hX : ∀ᶠ s in 𝓝 t, linSolveResponse fl (S s) (B s) = .ok (X s)) :
    MatDerivAt X ((A t)⁻¹ * (B' - A' * X t)) t ∧ A t * ((A t)⁻¹ * (B' - A' * X t)) + A' * X t = B' := by
  -- the output curve is `A⁻¹ B` near `t`
  have hXeq : ∀ s, IsUnit (A s).det → linSolveResponse fl (S s) (B s) = .ok (X s) → X s = (A s)⁻¹ * B s := by
    intro s hs h
    rw [(linSolveResponse_eq_ok h).2, (hS s hs).solve_eq_inv]
  have hev : X =ᶠ[𝓝 t] fun s => (A s)⁻¹ * B s := by
    filter_upwards [hA.eventually_isUnit_det hdet, hX] with s hs h using hXeq s hs h
  have hXt : X t = (A t)⁻¹ * B t := hXeq t hdet hX.self_of_nhds
  constructor
  · rw [hXt]
    exact (hA.inv_mul hB hdet).congr_of_eventuallyEq hev
  · rw [← Matrix.mul_assoc, Matrix.mul_nonsing_inv _ hdet, Matrix.one_mul]
    abel

/-- **C01 for `LinSolve`, derivative form, real data.** For every curve of inputs `(A s, B s)` differentiable at `t` with
`A t` non-singular, every family of exact inner solvers, every accepted flag combination and every curve `X` of module
outputs: for every seed `W` the scalar `s ↦ ⟪W, X s⟫` has the derivative `⟪g_B, B'⟫ + ⟪g_A, A'⟫` where
`(g_A, g_B) = LinSolve._sensitivity(W)` as coded (evaluated with the solver and the stored solution `u = X t` of time `t`). -/
theorem linsolve_sensitivity_is_derivative {n k : ℕ} (fl : LinSolveFlags) (S : ℝ → Solver n ℝ)
    (A : ℝ → Matrix (Fin n) (Fin n) ℝ) (B : ℝ → Matrix (Fin n) (Fin k) ℝ)
    (A' : Matrix (Fin n) (Fin n) ℝ) (B' : Matrix (Fin n) (Fin k) ℝ) (t : ℝ)
    (hA : MatDerivAt A A' t) (hB : MatDerivAt B B' t) (hdet : IsUnit (A t).det)
    (hS : ∀ s, IsUnit (A s).det → (S s).Ok (A s))
    (X : ℝ → Matrix (Fin n) (Fin k) ℝ) (hX : ∀ᶠ s in 𝓝 t, linSolveResponse fl (S s) (B s) = .ok (X s))
    (W : Matrix (Fin n) (Fin k) ℝ) :
    HasDerivAt (fun s => pair W (X s))
      (pair (linSolveSensitivity (RealPart.id ℝ) fl (S t) (X t) W).2 B'
        + pair (linSolveSensitivity (RealPart.id ℝ) fl (S t) (X t) W).1.toDense A') t := by
  obtain ⟨hXd, hlin⟩ := linsolve_response_hasDerivAt fl S A B A' B' t hA hB hdet hS X hX
  -- the linearised constraint holds for the true derivative; `C07.linsolve_adjoint` does the algebra
  have hval : pair W ((A t)⁻¹ * (B' - A' * X t)) =
      pair (linSolveSensitivity (RealPart.id ℝ) fl (S t) (X t) W).2 B'
        + pair (linSolveSensitivity (RealPart.id ℝ) fl (S t) (X t) W).1.toDense A' :=
    linsolve_adjoint (RealPart.id ℝ) fl (S t) (A t) (hS t hdet) (X t) W A' B'
      ((A t)⁻¹ * (B' - A' * X t)) hlin (fun _ _ _ => rfl) (fun _ _ _ => rfl)
  have hd := hXd.pair W
  rw [hval] at hd
  exact hd

/-- **C01 for `LinSolve`, derivative form, complex data** (pairing `Re Σ g v`, real curve parameter). As above over ℂ;
a matrix / right-hand side of REAL dtype (`fl.iscomplex = false` / `fl.rhsComplex = false`) is perturbed along a real
direction (automatic when the curve stays real: `MatDerivAt.im_eq_zero`). Then
`d/ds Re⟪W, X s⟫ = Re⟪g_B, B'⟫ + Re⟪g_A, A'⟫` with the coded sensitivities including their `.real` rules. -/
theorem linsolve_sensitivity_is_derivative_complex {n k : ℕ} (fl : LinSolveFlags) (S : ℝ → Solver n ℂ)
    (A : ℝ → Matrix (Fin n) (Fin n) ℂ) (B : ℝ → Matrix (Fin n) (Fin k) ℂ)
    (A' : Matrix (Fin n) (Fin n) ℂ) (B' : Matrix (Fin n) (Fin k) ℂ) (t : ℝ)
    (hA : MatDerivAt A A' t) (hB : MatDerivAt B B' t) (hdet : IsUnit (A t).det)
    (hS : ∀ s, IsUnit (A s).det → (S s).Ok (A s))
    (X : ℝ → Matrix (Fin n) (Fin k) ℂ) (hX : ∀ᶠ s in 𝓝 t, linSolveResponse fl (S s) (B s) = .ok (X s))
    (hAreal : fl.iscomplex = false → ∀ i j, (A' i j).im = 0)
    (hBreal : fl.rhsComplex = false → ∀ i j, (B' i j).im = 0)
    (W : Matrix (Fin n) (Fin k) ℂ) :
    HasDerivAt (fun s => (pair W (X s)).re)
      ((pair (linSolveSensitivity complexRealPart fl (S t) (X t) W).2 B').re
        + (pair (linSolveSensitivity complexRealPart fl (S t) (X t) W).1.toDense A').re) t := by
  obtain ⟨hXd, hlin⟩ := linsolve_response_hasDerivAt fl S A B A' B' t hA hB hdet hS X hX
  have hadj := linsolve_adjoint complexRealPart fl (S t) (A t) (hS t hdet) (X t) W A' B'
    ((A t)⁻¹ * (B' - A' * X t)) hlin (fun h i j => complexRealPart_isReal (hAreal h i j))
    (fun h i j => complexRealPart_isReal (hBreal h i j))
  have hval : (pair W ((A t)⁻¹ * (B' - A' * X t))).re =
      (pair (linSolveSensitivity complexRealPart fl (S t) (X t) W).2 B').re
        + (pair (linSolveSensitivity complexRealPart fl (S t) (X t) W).1.toDense A').re := by
    have h := congrArg Complex.re hadj
    simp only [complexRealPart_re_apply, Complex.ofReal_re, Complex.add_re] at h
    exact h
  have hd := hasDerivAt_complex_re (hXd.pair W)
  rw [hval] at hd
  exact hd

/-- non-vacuity of `linsolve_sensitivity_is_derivative` for EVERY differentiable curve and every accepted flag set: the
exact solver `Solver.ofInv (A s)` satisfies the contract and `X s = (A s)⁻¹ * B s` is the module's output for all `s`. -/
example {n k : ℕ} (fl : LinSolveFlags) (hadm : fl.rejected = false)
    (A : ℝ → Matrix (Fin n) (Fin n) ℝ) (B : ℝ → Matrix (Fin n) (Fin k) ℝ) (t : ℝ) :
    (∀ s, IsUnit (A s).det → (Solver.ofInv (A s)).Ok (A s)) ∧
      ∀ᶠ s in 𝓝 t, linSolveResponse fl (Solver.ofInv (A s)) (B s) = .ok ((A s)⁻¹ * B s) :=
  ⟨fun s hs => Solver.ofInv_ok (A s) hs, Filter.Eventually.of_forall fun _ => linSolveResponse_ok fl hadm _ _⟩

/-- directional-derivative instance (the form of property C01): along the straight line `(A₀ + s dA, B₀ + s dB)` through a
non-singular `A₀`, `d/ds ⟪W, LinSolve(A₀ + s dA, B₀ + s dB)⟫ |ₛ₌₀ = ⟪g_B, dB⟫ + ⟪g_A, dA⟫`. -/
example {n k : ℕ} (fl : LinSolveFlags) (hadm : fl.rejected = false)
    (A₀ dA : Matrix (Fin n) (Fin n) ℝ) (B₀ dB W : Matrix (Fin n) (Fin k) ℝ) (h0 : IsUnit A₀.det) :
    HasDerivAt (fun s : ℝ => pair W ((A₀ + s • dA)⁻¹ * (B₀ + s • dB)))
      (pair (linSolveSensitivity (RealPart.id ℝ) fl (Solver.ofInv A₀) (A₀⁻¹ * B₀) W).2 dB
        + pair (linSolveSensitivity (RealPart.id ℝ) fl (Solver.ofInv A₀) (A₀⁻¹ * B₀) W).1.toDense dA) 0 := by
  have h := (linsolve_sensitivity_is_derivative fl (fun s => Solver.ofInv (A₀ + s • dA))
    (fun s => A₀ + s • dA) (fun s => B₀ + s • dB) dA dB 0 (MatDerivAt.affine A₀ dA 0) (MatDerivAt.affine B₀ dB 0)
    (by simpa using h0) (fun s hs => Solver.ofInv_ok _ hs) (fun s => (A₀ + s • dA)⁻¹ * (B₀ + s • dB))
    (Filter.Eventually.of_forall fun s => linSolveResponse_ok fl hadm _ _) W)
  simpa using h

/-- a concrete non-singular starting point -/
example : IsUnit (!![2, 1; 1, 3] : Matrix (Fin 2) (Fin 2) ℝ).det := by
  rw [det_fin_two_of]; norm_num

/-- complex directional-derivative instance: complex matrix and right-hand side, arbitrary complex directions -/
example {n k : ℕ} (fl : LinSolveFlags) (hc : fl.iscomplex = true) (hb : fl.rhsComplex = true)
    (A₀ dA : Matrix (Fin n) (Fin n) ℂ) (B₀ dB W : Matrix (Fin n) (Fin k) ℂ) (h0 : IsUnit A₀.det) :
    HasDerivAt (fun s : ℝ => (pair W ((A₀ + s • dA)⁻¹ * (B₀ + s • dB))).re)
      ((pair (linSolveSensitivity complexRealPart fl (Solver.ofInv A₀) (A₀⁻¹ * B₀) W).2 dB).re
        + (pair (linSolveSensitivity complexRealPart fl (Solver.ofInv A₀) (A₀⁻¹ * B₀) W).1.toDense dA).re) 0 := by
  have hadm : fl.rejected = false := by simp [LinSolveFlags.rejected, hc]
  have h := linsolve_sensitivity_is_derivative_complex fl (fun s => Solver.ofInv (A₀ + s • dA))
    (fun s => A₀ + s • dA) (fun s => B₀ + s • dB) dA dB 0 (MatDerivAt.affine A₀ dA 0) (MatDerivAt.affine B₀ dB 0)
    (by simpa using h0) (fun s hs => Solver.ofInv_ok _ hs) (fun s => (A₀ + s • dA)⁻¹ * (B₀ + s • dB))
    (Filter.Eventually.of_forall fun s => linSolveResponse_ok fl hadm _ _)
    (fun h => by simp [hc] at h) (fun h => by simp [hb] at h) W
  simpa using h

/-- the hypothesis `hAreal` of the complex theorem: a curve that stays real (real dtype) has a real derivative -/
example {n : ℕ} (A : ℝ → Matrix (Fin n) (Fin n) ℂ) (A' : Matrix (Fin n) (Fin n) ℂ) (t : ℝ) (hA : MatDerivAt A A' t)
    (hreal : ∀ s i j, (A s i j).im = 0) : ∀ i j, (A' i j).im = 0 :=
  hA.im_eq_zero (Filter.Eventually.of_forall hreal)

/-! ## Inverse -/

/-- the OUTPUT of the modelled `Inverse._response` is differentiable (ℝ or ℂ data): along every curve `A s` differentiable at
`t` with `A t` non-singular and for every `inv` satisfying the `np.linalg.inv` contract, `s ↦ inv (A s)` has the derivative
`−B A' B` (`B = inv (A t)`), which satisfies the linearised constraint `A dB + A' B = 0` of `C07.inverse_adjoint`. -/
theorem inverse_response_hasDerivAt {n : ℕ} (inv : Matrix (Fin n) (Fin n) F → Matrix (Fin n) (Fin n) F)
    (A : ℝ → Matrix (Fin n) (Fin n) F) (A' : Matrix (Fin n) (Fin n) F) (t : ℝ)
    (hA : MatDerivAt A A' t) (hdet : IsUnit (A t).det)
    (hinv : ∀ s, IsUnit (A s).det → A s * inv (A s) = 1) :
    MatDerivAt (fun s => inverseResponse inv (A s))
      (-(inverseResponse inv (A t) * A' * inverseResponse inv (A t))) t ∧
    A t * (-(inverseResponse inv (A t) * A' * inverseResponse inv (A t))) + A' * inverseResponse inv (A t) = 0 := by
  have hBeq : ∀ s, IsUnit (A s).det → inverseResponse inv (A s) = (A s)⁻¹ := fun s hs =>
    (Matrix.inv_eq_right_inv (hinv s hs)).symm
  have hev : (fun s => inverseResponse inv (A s)) =ᶠ[𝓝 t] fun s => (A s)⁻¹ := by
    filter_upwards [hA.eventually_isUnit_det hdet] with s hs using hBeq s hs
  constructor
  · rw [hBeq t hdet]
    exact (hA.inv hdet).congr_of_eventuallyEq hev
  · set Bt := inverseResponse inv (A t) with hBt
    have hAB : A t * Bt = 1 := hinv t hdet
    rw [Matrix.mul_neg, Matrix.mul_assoc Bt, ← Matrix.mul_assoc (A t), hAB, Matrix.one_mul]
    abel

/-- **C01 for `Inverse`, derivative form, real data**: `d/ds ⟪W, inv (A s)⟫ = ⟪−Bᵀ W Bᵀ, A'⟫`, the coded
`Inverse._sensitivity` (either value of the dtype flag). -/
theorem inverse_sensitivity_is_derivative {n : ℕ} (Acomplex : Bool)
    (inv : Matrix (Fin n) (Fin n) ℝ → Matrix (Fin n) (Fin n) ℝ)
    (A : ℝ → Matrix (Fin n) (Fin n) ℝ) (A' : Matrix (Fin n) (Fin n) ℝ) (t : ℝ)
    (hA : MatDerivAt A A' t) (hdet : IsUnit (A t).det)
    (hinv : ∀ s, IsUnit (A s).det → A s * inv (A s) = 1)
    (W : Matrix (Fin n) (Fin n) ℝ) :
    HasDerivAt (fun s => pair W (inverseResponse inv (A s)))
      (pair (inverseSensitivity (RealPart.id ℝ) Acomplex (inverseResponse inv (A t)) W) A') t := by
  obtain ⟨hd, hlin⟩ := inverse_response_hasDerivAt inv A A' t hA hdet hinv
  have hadj : pair W (-(inverseResponse inv (A t) * A' * inverseResponse inv (A t))) =
      pair (inverseSensitivity (RealPart.id ℝ) Acomplex (inverseResponse inv (A t)) W) A' :=
    inverse_adjoint (RealPart.id ℝ) Acomplex (A t) _ W A' _ (hinv t hdet) hlin (fun _ _ _ => rfl)
  have h := hd.pair W
  rw [hadj] at h
  exact h

/-- **C01 for `Inverse`, derivative form, complex data**: `d/ds Re⟪W, inv (A s)⟫ = Re⟪g_A, A'⟫` with
`g_A = Inverse._sensitivity(W)` (`−Bᵀ W Bᵀ`, its real part for a real-dtype `A`, which is then perturbed along a real
direction). -/
theorem inverse_sensitivity_is_derivative_complex {n : ℕ} (Acomplex : Bool)
    (inv : Matrix (Fin n) (Fin n) ℂ → Matrix (Fin n) (Fin n) ℂ)
    (A : ℝ → Matrix (Fin n) (Fin n) ℂ) (A' : Matrix (Fin n) (Fin n) ℂ) (t : ℝ)
    (hA : MatDerivAt A A' t) (hdet : IsUnit (A t).det)
    (hinv : ∀ s, IsUnit (A s).det → A s * inv (A s) = 1)
    (hAreal : Acomplex = false → ∀ i j, (A' i j).im = 0)
    (W : Matrix (Fin n) (Fin n) ℂ) :
    HasDerivAt (fun s => (pair W (inverseResponse inv (A s))).re)
      (pair (inverseSensitivity complexRealPart Acomplex (inverseResponse inv (A t)) W) A').re t := by
  obtain ⟨hd, hlin⟩ := inverse_response_hasDerivAt inv A A' t hA hdet hinv
  have hadj := inverse_adjoint complexRealPart Acomplex (A t) _ W A' _ (hinv t hdet) hlin
    (fun h i j => complexRealPart_isReal (hAreal h i j))
  have hval : (pair W (-(inverseResponse inv (A t) * A' * inverseResponse inv (A t)))).re =
      (pair (inverseSensitivity complexRealPart Acomplex (inverseResponse inv (A t)) W) A').re := by
    have h := congrArg Complex.re hadj
    simp only [complexRealPart_re_apply, Complex.ofReal_re] at h
    exact h
  have h := hasDerivAt_complex_re (hd.pair W)
  rw [hval] at h
  exact h

/-- non-vacuity: Mathlib's inverse satisfies the `np.linalg.inv` contract on every curve -/
example {n : ℕ} (A : ℝ → Matrix (Fin n) (Fin n) F) : ∀ s, IsUnit (A s).det → A s * (A s)⁻¹ = 1 :=
  fun s hs => Matrix.mul_nonsing_inv (A s) hs

/-! ## SystemOfEquations -/

/-- **C01 for `SystemOfEquations`, derivative form** (ℝ or ℂ data; the identity holds before taking real parts). Along
every curve of inputs `(A s, bf s, xp s)` differentiable at `t` with a non-singular free block at `t`, for every partition
`f ⊎ p`, exact inner solvers and seeds `gx`, `gb` (a `None` seed reads as zero), with `(x s, b s)` the module outputs near
`t` and `st t` the state stored by the response at `t`:
`d/ds (⟪gx, x s⟫ + ⟪gb, b s⟫) = ⟪g_A, A'⟫ + ⟪g_bf, bf'⟫ + ⟪g_xp, xp'⟫` with
`(g_A, g_bf, g_xp) = SystemOfEquations._sensitivity(gx, gb)` as coded. -/
theorem soe_sensitivity_is_derivative {n nf np k : ℕ} (fl : LinSolveFlags)
    (f : Fin nf → Fin n) (p : Fin np → Fin n) (hpart : IsPartition f p) (S : ℝ → Solver nf F)
    (A : ℝ → Matrix (Fin n) (Fin n) F) (bf : ℝ → Matrix (Fin nf) (Fin k) F) (xp : ℝ → Matrix (Fin np) (Fin k) F)
    (A' : Matrix (Fin n) (Fin n) F) (bf' : Matrix (Fin nf) (Fin k) F) (xp' : Matrix (Fin np) (Fin k) F) (t : ℝ)
    (hA : MatDerivAt A A' t) (hbf : MatDerivAt bf bf' t) (hxp : MatDerivAt xp xp' t)
    (hdet : IsUnit ((A t).submatrix f f).det)
    (hS : ∀ s, IsUnit ((A s).submatrix f f).det → (S s).Ok ((A s).submatrix f f))
    (x b : ℝ → Matrix (Fin n) (Fin k) F) (st : ℝ → SoeState n nf np k F)
    (hresp : ∀ᶠ s in 𝓝 t, soeResponse fl f p (A s) (S s) (bf s) (xp s) = .ok ((x s, b s), st s))
    (gx gb : Option (Matrix (Fin n) (Fin k) F)) :
    HasDerivAt (fun s => pair (gx.getD 0) (x s) + pair (gb.getD 0) (b s))
      (pair (soeSensitivity f p (S t) (st t) gx gb).1.toDense A'
        + pair (soeSensitivity f p (S t) (st t) gx gb).2.1 bf'
        + pair (soeSensitivity f p (S t) (st t) gx gb).2.2 xp') t := by
  have hadm : fl.rejected = false := soeResponse_eq_ok hresp.self_of_nhds
  have hAff := hA.submatrix f f
  -- near `t`: the free block is non-singular, `x` is the scattered solution and `b = A x`
  have hev := (hAff.eventually_isUnit_det hdet).and hresp
  set xf : ℝ → Matrix (Fin nf) (Fin k) F :=
    fun s => ((A s).submatrix f f)⁻¹ * (bf s - (A s).submatrix f p * xp s) with hxf
  have hxev : x =ᶠ[𝓝 t] fun s => scatterRows f (xf s) (scatterRows p (xp s) 0) := by
    filter_upwards [hev] with s hs
    have h := hs.2
    rw [soeResponse_ok fl hadm] at h
    simp only [Except.ok.injEq, Prod.mk.injEq] at h
    rw [← h.1.1, (hS s hs.1).solve_eq_inv]
  have hbev : b =ᶠ[𝓝 t] fun s => A s * x s := by
    filter_upwards [hev] with s hs
    obtain ⟨x1, b1, st1, h1, h2, -, -⟩ := soe_eq fl hadm f p hpart (A s) (S s) (hS s hs.1) (bf s) (xp s)
    rw [hs.2] at h1
    simp only [Except.ok.injEq, Prod.mk.injEq] at h1
    rw [h1.1.1, h1.1.2, h2]
  have hbfev : (fun s => (b s).submatrix f id) =ᶠ[𝓝 t] bf := by
    filter_upwards [hev] with s hs
    obtain ⟨x1, b1, st1, h1, -, -, h4⟩ := soe_eq fl hadm f p hpart (A s) (S s) (hS s hs.1) (bf s) (xp s)
    rw [hs.2] at h1
    simp only [Except.ok.injEq, Prod.mk.injEq] at h1
    rw [h1.1.2, h4]
  have hxpev : (fun s => (x s).submatrix p id) =ᶠ[𝓝 t] xp := by
    filter_upwards [hev] with s hs
    obtain ⟨x1, b1, st1, h1, -, h3, -⟩ := soe_eq fl hadm f p hpart (A s) (S s) (hS s hs.1) (bf s) (xp s)
    rw [hs.2] at h1
    simp only [Except.ok.injEq, Prod.mk.injEq] at h1
    rw [h1.1.1, h3]
  -- derivatives of the outputs
  have hxfd := hAff.inv_mul (hbf.sub ((hA.submatrix f p).mul hxp)) hdet
  set dxf := ((A t).submatrix f f)⁻¹ *
    (bf' - (A'.submatrix f p * xp t + (A t).submatrix f p * xp') -
      A'.submatrix f f * (((A t).submatrix f f)⁻¹ * (bf t - (A t).submatrix f p * xp t))) with hdxf
  set dx := scatterRows f dxf (scatterRows p xp' 0) with hdx
  have hxd : MatDerivAt x dx t :=
    (MatDerivAt.scatterRows f hxfd (MatDerivAt.scatterRows p hxp (MatDerivAt.const 0 t))).congr_of_eventuallyEq hxev
  have hbd : MatDerivAt b (A' * x t + A t * dx) t := (hA.mul hxd).congr_of_eventuallyEq hbev
  -- the tangent satisfies the linearised defining equations
  have hdxp : dx.submatrix p id = xp' := by
    have h1 : MatDerivAt (fun s => (x s).submatrix p id) xp' t := hxp.congr_of_eventuallyEq hxpev
    exact (hxd.submatrix p id).unique h1
  have hdbf : (A' * x t + A t * dx).submatrix f id = bf' := by
    have h1 : MatDerivAt (fun s => (b s).submatrix f id) bf' t := hbf.congr_of_eventuallyEq hbfev
    exact (hbd.submatrix f id).unique h1
  have hadj := soe_adjoint fl hadm f p hpart (A t) (S t) (hS t hdet) (bf t) (xp t) (x t) (b t) (st t)
    hresp.self_of_nhds gx gb A' bf' xp' dx (A' * x t + A t * dx) (add_comm _ _) hdxp hdbf
  have h := (hxd.pair (gx.getD 0)).fun_add (hbd.pair (gb.getD 0))
  rw [hadj] at h
  exact h

/-- non-vacuity: `Solver.ofInv` on the free block satisfies the solver contract along every curve, and the module output
exists for all `s` (every accepted flag set) -/
example {n nf np k : ℕ} (fl : LinSolveFlags) (hadm : fl.rejected = false) (f : Fin nf → Fin n) (p : Fin np → Fin n)
    (A : ℝ → Matrix (Fin n) (Fin n) F) (bf : ℝ → Matrix (Fin nf) (Fin k) F) (xp : ℝ → Matrix (Fin np) (Fin k) F) :
    (∀ s, IsUnit ((A s).submatrix f f).det → (Solver.ofInv ((A s).submatrix f f)).Ok ((A s).submatrix f f)) ∧
      ∃ (x b : ℝ → Matrix (Fin n) (Fin k) F) (st : ℝ → SoeState n nf np k F), ∀ s, soeResponse fl f p (A s) (Solver.ofInv ((A s).submatrix f f)) (bf s) (xp s)
        = .ok ((x s, b s), st s) :=
  ⟨fun _ hs => Solver.ofInv_ok _ hs, _, _, _, fun s => soeResponse_ok fl hadm f p (A s) _ (bf s) (xp s)⟩

/-- `SystemOfEquations`, complex data, in the pairing `Re Σ g v` of C01 (corollary of `soe_sensitivity_is_derivative`) -/
theorem soe_sensitivity_is_derivative_complex_re {n nf np k : ℕ} (fl : LinSolveFlags)
    (f : Fin nf → Fin n) (p : Fin np → Fin n) (hpart : IsPartition f p) (S : ℝ → Solver nf ℂ)
    (A : ℝ → Matrix (Fin n) (Fin n) ℂ) (bf : ℝ → Matrix (Fin nf) (Fin k) ℂ) (xp : ℝ → Matrix (Fin np) (Fin k) ℂ)
    (A' : Matrix (Fin n) (Fin n) ℂ) (bf' : Matrix (Fin nf) (Fin k) ℂ) (xp' : Matrix (Fin np) (Fin k) ℂ) (t : ℝ)
    (hA : MatDerivAt A A' t) (hbf : MatDerivAt bf bf' t) (hxp : MatDerivAt xp xp' t)
    (hdet : IsUnit ((A t).submatrix f f).det)
    (hS : ∀ s, IsUnit ((A s).submatrix f f).det → (S s).Ok ((A s).submatrix f f))
    (x b : ℝ → Matrix (Fin n) (Fin k) ℂ) (st : ℝ → SoeState n nf np k ℂ)
    (hresp : ∀ᶠ s in 𝓝 t, soeResponse fl f p (A s) (S s) (bf s) (xp s) = .ok ((x s, b s), st s))
    (gx gb : Option (Matrix (Fin n) (Fin k) ℂ)) :
    HasDerivAt (fun s => (pair (gx.getD 0) (x s)).re + (pair (gb.getD 0) (b s)).re)
      ((pair (soeSensitivity f p (S t) (st t) gx gb).1.toDense A').re
        + (pair (soeSensitivity f p (S t) (st t) gx gb).2.1 bf').re
        + (pair (soeSensitivity f p (S t) (st t) gx gb).2.2 xp').re) t := by
  have h := hasDerivAt_complex_re (soe_sensitivity_is_derivative fl f p hpart S A bf xp A' bf' xp' t hA hbf hxp hdet hS
    x b st hresp gx gb)
  simpa only [Complex.add_re] using h

/-! ## StaticCondensation -/

/-- **C01 for `StaticCondensation`, derivative form** (ℝ or ℂ data; the identity holds before taking real parts). Along
every curve `A s` differentiable at `t` whose free block is non-singular at `t`, with `Ared s` the module output (the Schur
complement) and `X t` the stored `A_ff⁻¹ A_fm`, for every seed `G` (dense or DyadCarrier):
`d/ds ⟪G, Ared s⟫ = ⟪Cl G Cᵀ, A'⟫`, the coded `StaticCondensation._sensitivity`. -/
theorem staticcond_sensitivity_is_derivative {n nm nf : ℕ} (issparse : Bool) (m : Fin nm → Fin n) (f : Fin nf → Fin n)
    (hm : Function.Injective m) (hf : Function.Injective f) (hfm : ∀ r s, f r ≠ m s) (S : ℝ → Solver nf F)
    (A : ℝ → Matrix (Fin n) (Fin n) F) (A' : Matrix (Fin n) (Fin n) F) (t : ℝ)
    (hA : MatDerivAt A A' t) (hdet : IsUnit ((A t).submatrix f f).det)
    (hS : ∀ s, IsUnit ((A s).submatrix f f).det → (S s).Ok ((A s).submatrix f f))
    (Ared : ℝ → Matrix (Fin nm) (Fin nm) F) (X : ℝ → Matrix (Fin nf) (Fin nm) F)
    (hresp : ∀ᶠ s in 𝓝 t, staticCondResponse issparse m f (A s) (S s) = .ok (Ared s, X s))
    (G : MatSens nm nm F) :
    HasDerivAt (fun s => pair G.toDense (Ared s))
      (pair (staticCondSensitivity m f (A t) (S t) (X t) G).toDense A') t := by
  have hAff := hA.submatrix f f
  have hev := (hAff.eventually_isUnit_det hdet).and hresp
  have hXev : X =ᶠ[𝓝 t] fun s => ((A s).submatrix f f)⁻¹ * (A s).submatrix f m := by
    filter_upwards [hev] with s hs
    rw [(staticCondResponse_eq_ok hs.2).2.1, (hS s hs.1).solve_eq_inv]
  have hYev : Ared =ᶠ[𝓝 t] fun s => (A s).submatrix m m - (A s).submatrix m f * X s := by
    filter_upwards [hev] with s hs using (staticCondResponse_eq_ok hs.2).2.2
  have hXt : X t = ((A t).submatrix f f)⁻¹ * (A t).submatrix f m := hXev.self_of_nhds
  set dX := ((A t).submatrix f f)⁻¹ * (A'.submatrix f m - A'.submatrix f f * X t) with hdX
  have hXd : MatDerivAt X dX t := by
    rw [hdX, hXt]
    exact (hAff.inv_mul (hA.submatrix f m) hdet).congr_of_eventuallyEq hXev
  have hYd : MatDerivAt Ared
      (A'.submatrix m m - (A'.submatrix m f * X t + (A t).submatrix m f * dX)) t :=
    ((hA.submatrix m m).sub ((hA.submatrix m f).mul hXd)).congr_of_eventuallyEq hYev
  have hlin : (A t).submatrix f f * dX + A'.submatrix f f * X t = A'.submatrix f m := by
    rw [hdX, ← Matrix.mul_assoc, Matrix.mul_nonsing_inv _ hdet, Matrix.one_mul]
    abel
  have hadj := staticcond_adjoint m f hm hf hfm (A t) (S t) (hS t hdet) (X t) G A' dX hlin
  have h := hYd.pair G.toDense
  rw [sub_add_eq_sub_sub, hadj] at h
  exact h

/-- non-vacuity: the module output exists along every curve (sparse input) and `Solver.ofInv` satisfies the contract -/
example {n nm nf : ℕ} (m : Fin nm → Fin n) (f : Fin nf → Fin n) (A : ℝ → Matrix (Fin n) (Fin n) F) :
    (∀ s, IsUnit ((A s).submatrix f f).det → (Solver.ofInv ((A s).submatrix f f)).Ok ((A s).submatrix f f)) ∧
      ∃ (Ared : ℝ → Matrix (Fin nm) (Fin nm) F) (X : ℝ → Matrix (Fin nf) (Fin nm) F),
        ∀ s, staticCondResponse true m f (A s) (Solver.ofInv ((A s).submatrix f f)) = .ok (Ared s, X s) :=
  ⟨fun _ hs => Solver.ofInv_ok _ hs, _, _, fun _ => rfl⟩

/-- `StaticCondensation`, complex data, in the pairing `Re Σ g v` of C01 (corollary) -/
theorem staticcond_sensitivity_is_derivative_complex_re {n nm nf : ℕ} (issparse : Bool) (m : Fin nm → Fin n)
    (f : Fin nf → Fin n) (hm : Function.Injective m) (hf : Function.Injective f) (hfm : ∀ r s, f r ≠ m s)
    (S : ℝ → Solver nf ℂ) (A : ℝ → Matrix (Fin n) (Fin n) ℂ) (A' : Matrix (Fin n) (Fin n) ℂ) (t : ℝ)
    (hA : MatDerivAt A A' t) (hdet : IsUnit ((A t).submatrix f f).det)
    (hS : ∀ s, IsUnit ((A s).submatrix f f).det → (S s).Ok ((A s).submatrix f f))
    (Ared : ℝ → Matrix (Fin nm) (Fin nm) ℂ) (X : ℝ → Matrix (Fin nf) (Fin nm) ℂ)
    (hresp : ∀ᶠ s in 𝓝 t, staticCondResponse issparse m f (A s) (S s) = .ok (Ared s, X s))
    (G : MatSens nm nm ℂ) :
    HasDerivAt (fun s => (pair G.toDense (Ared s)).re)
      (pair (staticCondSensitivity m f (A t) (S t) (X t) G).toDense A').re t :=
  hasDerivAt_complex_re (staticcond_sensitivity_is_derivative issparse m f hm hf hfm S A A' t hA hdet hS Ared X hresp G)

end PymotoVerif.C07Deriv
