/-
C06 ∘ C07 — `LinSolve` with its default `LDAWrapper` satisfies the defining equations, not only `LinSolve` with an
abstract exact solver.

C07 (`Props/C07.lean`) proves `linsolve_eq` / `linsolve_adjoint` for any `S : Solver n α` with the contract
`Solver.Ok S A` (`A * S.solve B = B`, `Aᵀ * S.solveT B = B`). Here the LDAS state machine of C06 (`LA/LDAS.lean`),
wrapped around an exact inner solver, is shown to BE such a solver in every state it can reach after `update(A)` and
any history of solves on that matrix — in exact arithmetic, i.e. with tolerance 0, where a residual is either zero or
the inner solver runs.

How `tol > 0` weakens this (`ldas_solver_residual`): a column answered from the database alone is not an exact
solution; what is guaranteed is that its residual passed the wrapper's test, `‖A x_j − b_j‖ ≤ tol ‖b_j‖`. Then
`A * S.solve B = B` holds only up to that relative residual per column, `linsolve_eq` becomes "A X = B to the wrapper
tolerance" (this is how property C06 is worded), and the adjoint identity of `linsolve_adjoint` holds up to terms of
order `tol` (the sensitivities are those of the solution of the perturbed system `A x = b − r`, `‖r‖ ≤ tol‖b‖`);
columns that went through the inner solver remain exact.

Property theorems only; helper lemmas: `Lemmas/LDASSolver.lean`.
-/
import PymotoVerif.Lemmas.LDASSolver
import PymotoVerif.Lemmas.LDASWitness
import PymotoVerif.Props.C07

set_option linter.unusedSectionVars false

namespace PymotoVerif.C07LDAS
open PymotoVerif.LDAS PymotoVerif.LinSys Matrix

variable {n : Nat} {α : Type} [Field α] [DecidableEq α]

/-- for ANY tolerance: in a state satisfying the C06 invariant, `solve(B)` / `solve(B, 'T')` return, and every column
    either solves its system exactly (inner solver used) or has the residual that passed the tolerance test -/
theorem ldas_solver_residual {k : Nat} {c : Cfg α} (hL : Laws c)
    (inner : Mat n α → Bool → Vec n α → Option (Vec n α) → Vec n α) (s : State n α) (A : Mat n α)
    (hI : Inv c s) (hA : s.A = some A) (hin : InnerOK c inner A) (rhsC : Bool) (B : Matrix (Fin n) (Fin k) α)
    (tr : Trans) (htr : tr ≠ .other) :
    ∃ s' o, solve c inner s (toBlk B) rhsC none tr = .ok (s', o) ∧ ∀ j,
      (o.did j = true → opMat c A tr *ᵥ o.sol j = toBlk B j) ∧
      (o.did j = false → exceeds c (opMat c A tr *ᵥ o.sol j - toBlk B j) (toBlk B j) = false) := by
  obtain ⟨⟨s', o⟩, hr⟩ := solve_isOk c inner s hA (toBlk B) rhsC none tr htr
  have hin' : ∀ A', s.A = some A' → InnerOK c inner A' := by
    intro A' hA'
    rw [hA] at hA'
    injection hA' with hA'
    subst hA'; exact hin
  obtain ⟨_, A', h1, _, h3⟩ := solve_spec hL inner s hI hin' (toBlk B) rhsC none tr hr
  rw [hA] at h1
  injection h1 with h1
  subst h1
  exact ⟨s', o, hr, h3⟩

/-- EXACT ARITHMETIC (tolerance 0): the LDAS wrapper, in any two states satisfying the C06 invariant for the matrix
    `A`, is a solver in the sense of C07's contract -/
theorem ldas_solver_ok {c : Cfg α} (hL : Laws c) (h0 : c.tol2 = 0) (hdef : DefOK c n)
    (inner : Mat n α → Bool → Vec n α → Option (Vec n α) → Vec n α) (sN sT : State n α) (A : Mat n α)
    (hIN : Inv c sN) (hAN : sN.A = some A) (hIT : Inv c sT) (hAT : sT.A = some A) (hin : InnerOK c inner A)
    (rhsC : Bool) : (ldasSolver c inner sN sT rhsC).Ok A where
  solve_eq := by
    intro k B
    obtain ⟨s', o, hr, hc⟩ := ldas_solver_residual hL inner sN A hIN hAN hin rhsC B .N (by decide)
    simp only [ldasSolver, hr]
    exact mul_ofBlk A o.sol B (cols_exact h0 hdef hc)
  solveT_eq := by
    intro k B
    obtain ⟨s', o, hr, hc⟩ := ldas_solver_residual hL inner sT A hIT hAT hin rhsC B .T (by decide)
    simp only [ldasSolver, hr]
    exact mul_ofBlk (opMat c A .T) o.sol B (cols_exact h0 hdef hc)

/-- the same for explicitly reachable states: a new wrapper (any user flags), ANY admissible earlier history `pre`
    (other matrices, other solves), then `update(A)`, then any histories `hN`, `hT` of solves (all modes, vector /
    block, any right-hand sides) on that matrix -/
theorem ldas_solver_ok_history {c : Cfg α} (hL : Laws c) (h0 : c.tol2 = 0) (hdef : DefOK c n)
    (inner : Mat n α → Bool → Vec n α → Option (Vec n α) → Vec n α) (userSym userHerm : Option Bool)
    (pre hN hT : List (Op n α)) (A : Mat n α) (cplx : Bool)
    (hsN : ∀ op ∈ hN, Op.isSolve op = true) (hsT : ∀ op ∈ hT, Op.isSolve op = true)
    (hHN : HistOK c inner (init userSym userHerm) (pre ++ .update A cplx :: hN))
    (hHT : HistOK c inner (init userSym userHerm) (pre ++ .update A cplx :: hT)) (rhsC : Bool) :
    (ldasSolver c inner (finalState c inner (init userSym userHerm) (pre ++ .update A cplx :: hN))
      (finalState c inner (init userSym userHerm) (pre ++ .update A cplx :: hT)) rhsC).Ok A := by
  have key : ∀ (h : List (Op n α)), (∀ op ∈ h, Op.isSolve op = true) →
      HistOK c inner (init userSym userHerm) (pre ++ .update A cplx :: h) →
      Inv c (finalState c inner (init userSym userHerm) (pre ++ .update A cplx :: h)) ∧
      (finalState c inner (init userSym userHerm) (pre ++ .update A cplx :: h)).A = some A ∧ InnerOK c inner A := by
    intro h hs hH
    have split : ∀ (l₁ l₂ : List (Op n α)) (s : State n α),
        finalState c inner s (l₁ ++ l₂) = finalState c inner (finalState c inner s l₁) l₂ := by
      intro l₁
      induction l₁ with
      | nil => intro l₂ s; rfl
      | cons op l₁ ih => intro l₂ s; simp only [List.cons_append, finalState, ih]
    have hsplit : ∀ (l₁ l₂ : List (Op n α)) (s : State n α), HistOK c inner s (l₁ ++ l₂) →
        HistOK c inner s l₁ ∧ HistOK c inner (finalState c inner s l₁) l₂ := by
      intro l₁
      induction l₁ with
      | nil => intro l₂ s hh; exact ⟨trivial, hh⟩
      | cons op l₁ ih =>
        intro l₂ s hh
        cases op with
        | update A' c' =>
          obtain ⟨a, b, hh⟩ := hh
          obtain ⟨i1, i2⟩ := ih l₂ _ hh
          exact ⟨⟨a, b, i1⟩, i2⟩
        | solve k rhs rc x0 tr =>
          simp only [List.cons_append, HistOK] at hh
          obtain ⟨i1, i2⟩ := ih l₂ _ hh
          exact ⟨i1, i2⟩
    obtain ⟨hpre, hrest⟩ := hsplit pre (.update A cplx :: h) _ hH
    obtain ⟨p1, p2, _⟩ := final_inv hL inner pre _ ⟨fun u hu => hu, fun u hu => hu, by simp [init]⟩ (by intro A' hA'; simp [init] at hA') hpre
    rw [split]
    obtain ⟨hU, hInA, hrest'⟩ := hrest
    have hIn' : ∀ A', (update c (finalState c inner (init userSym userHerm) pre) A cplx).A = some A' →
        InnerOK c inner A' := by
      intro A' hA'
      simp only [update, Option.some.injEq] at hA'
      subst hA'; exact hInA
    obtain ⟨q1, _, q3⟩ := final_inv hL inner h _ (inv_update' hL _ p1 A cplx hU) hIn' hrest'
    refine ⟨q1, ?_, hInA⟩
    show (finalState c inner (step c inner _ (.update A cplx)).1 h).A = some A
    rw [show (step c inner (finalState c inner (init userSym userHerm) pre) (.update A cplx)).1
      = update c (finalState c inner (init userSym userHerm) pre) A cplx from rfl, q3 hs]
    rfl
  obtain ⟨a1, a2, a3⟩ := key hN hsN hHN
  obtain ⟨b1, b2, _⟩ := key hT hsT hHT
  exact ldas_solver_ok hL h0 hdef inner _ _ A a1 a2 b1 b2 a3 rhsC

/-! ## C07's theorems for `LinSolve` + `LDAWrapper` -/

/-- `LinSolve` whose solver is the LDAS wrapper (in any reachable state) returns `X` with `A X = B` -/
theorem linsolve_eq_ldas {k : Nat} {c : Cfg α} (hL : Laws c) (h0 : c.tol2 = 0) (hdef : DefOK c n)
    (inner : Mat n α → Bool → Vec n α → Option (Vec n α) → Vec n α) (sN sT : State n α) (A : Mat n α)
    (hIN : Inv c sN) (hAN : sN.A = some A) (hIT : Inv c sT) (hAT : sT.A = some A) (hin : InnerOK c inner A)
    (fl : LinSolveFlags) (hadm : fl.rejected = false) (B : Matrix (Fin n) (Fin k) α) :
    ∃ X, linSolveResponse fl (ldasSolver c inner sN sT fl.rhsComplex) B = .ok X ∧ A * X = B :=
  C07.linsolve_eq fl hadm _ A (ldas_solver_ok hL h0 hdef inner sN sT A hIN hAN hIT hAT hin fl.rhsComplex) B

/-- C01 for `LinSolve` + LDAS wrapper: the sensitivities computed through `solve(·, trans='T')` of the wrapper are
    the exact adjoint of the response (statement of `C07.linsolve_adjoint`) -/
theorem linsolve_adjoint_ldas {k : Nat} {c : Cfg α} (hL : Laws c) (h0 : c.tol2 = 0) (hdef : DefOK c n)
    (inner : Mat n α → Bool → Vec n α → Option (Vec n α) → Vec n α) (sN sT : State n α) (A : Mat n α)
    (hIN : Inv c sN) (hAN : sN.A = some A) (hIT : Inv c sT) (hAT : sT.A = some A) (hin : InnerOK c inner A)
    (R : RealPart α) (fl : LinSolveFlags) (U W : Matrix (Fin n) (Fin k) α)
    (dA : Matrix (Fin n) (Fin n) α) (dB dU : Matrix (Fin n) (Fin k) α)
    (hlin : A * dU + dA * U = dB)
    (hAr : fl.iscomplex = false → ∀ i j, R.IsReal (dA i j))
    (hBr : fl.rhsComplex = false → ∀ i j, R.IsReal (dB i j)) :
    R.re (pair W dU) =
      R.re (pair (linSolveSensitivity R fl (ldasSolver c inner sN sT fl.rhsComplex) U W).2 dB) +
      R.re (pair (linSolveSensitivity R fl (ldasSolver c inner sN sT fl.rhsComplex) U W).1.toDense dA) :=
  C07.linsolve_adjoint R fl _ A (ldas_solver_ok hL h0 hdef inner sN sT A hIN hAN hIT hAT hin fl.rhsComplex)
    U W dA dB dU hlin hAr hBr

/-! ## non-vacuity (ℚ, tolerance 0) -/

/-- the exact-arithmetic configuration: `cfgQ` with tolerance 0 -/
def cfgQ0 : Cfg ℚ := { C06.cfgQ with tol2 := 0 }

example : Laws cfgQ0 :=
  { cj_add := fun _ _ => rfl, cj_mul := fun _ _ => rfl, cj_cj := fun _ => rfl, re_add := fun _ _ => rfl,
    re_mul := fun _ _ _ => rfl, cj_real := fun _ _ => rfl }

example : cfgQ0.tol2 = 0 := rfl

/-- definiteness holds at ℚ, every size -/
example (m : Nat) : DefOK cfgQ0 m := by
  intro v hv
  simp only [cfgQ0, C06.cfgQ, nsq, decide_eq_false_iff_not, not_lt, id] at hv
  have h0 : ∑ i, v i * v i = 0 := le_antisymm hv (Finset.sum_nonneg fun i _ => mul_self_nonneg (v i))
  funext i
  have := (Finset.sum_eq_zero_iff_of_nonneg (fun i _ => mul_self_nonneg (v i))).mp h0 i (Finset.mem_univ i)
  exact mul_self_eq_zero.mp this

end PymotoVerif.C07LDAS
