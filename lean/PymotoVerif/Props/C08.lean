/-
C08 — Finite-element assembly equals the scaled element sum and keeps its physics.
Property theorems ONLY (helper lemmas: `Lemmas/Assembly.lean`, `Lemmas/AssemblyFE.lean`, `Lemmas/AssemblyEl.lean`).

Model: `Core/Assembly.lean` (transcription of `pymoto/modules/assembly.py`).  All statements are for
EVERY grid size, element size, scaling vector; the Gauss factor `g` is universally quantified (no
theorem here needs `g*g = 1/3`: the physics holds at every integration point).
Spec-level notions used in the statements (defined in the lemma files):
`scatterSum` (the explicit triple sum), `bcDiag`, `Bv m B v` (`B·v`), `quadForm n D ε` (`εᵀDε`),
`affineNodal2/3` (nodal vector of `u(X) = G X + t` at `get_node_position`), `engStrain2/3`.
-/
import PymotoVerif.Lemmas.AssemblyGlobal
import Mathlib.Data.Rat.Init

namespace PymotoVerif.C08
open PymotoVerif PymotoVerif.Domain PymotoVerif.Assembly PymotoVerif.C13 Finset Dom

/-! ## the assembled matrix is the scaled element sum, with bc rows/cols and the constant -/
section assembly
variable {α : Type} [CommRing α]

/-- **assembly = scaled element sum** for every connectivity table `dc` (`nel` elements, `m` dofs each),
    every element matrix, scaling vector, bc list (also with duplicates / `bc = []`), `bcdiagval` and
    constant: off the bc set `A[r][c] = Σ_e x_e Σ_{a,b : dc e a = r, dc e b = c} K_e[a][b]`, rows and
    columns of constrained dofs are zero, their diagonal carries `bcdiagval` (once per occurrence in `bc`),
    and the constant is added. -/
theorem assemble_eq_scaled_sum (nel m : Nat) (dc : Nat → Nat → Nat) (elmat : Nat → Nat → α) (x : Nat → α)
    (bc : Option (List Nat)) (bcd : α) (addc : Option (Nat → Nat → α)) (r c : Nat) :
    assemble nel m dc elmat x bc bcd addc r c
      = (if r ∈ bc.getD [] ∨ c ∈ bc.getD [] then 0
          else ∑ e ∈ range nel, x e * ∑ a ∈ range m, ∑ b ∈ range m,
                if dc e a = r ∧ dc e b = c then elmat a b else 0)
        + bcDiag (bc.getD []) bcd r c
        + (match addc with | none => 0 | some C => C r c) := by
  rw [← scatterSum_eq]
  have core : cooDense (triplets nel m dc elmat x bc bcd) r c
      = (if r ∈ bc.getD [] ∨ c ∈ bc.getD [] then 0 else scatterSum nel m dc elmat x r c)
        + bcDiag (bc.getD []) bcd r c := by
    cases bc with
    | none => simp [cooDense_none, bcDiag]
    | some l => simp [cooDense_some]
  cases addc with
  | none => simp [assemble, core]
  | some C => simp [assemble, core]

/-- the same for `AssembleGeneral` on a `DomainDefinition` (all grids, all dofs per node) -/
theorem assembleDom_eq_scaled_sum (d : Dom) (ndof : Nat) (elmat : Nat → Nat → α) (x : Nat → α)
    (bc : Option (List Nat)) (bcd : α) (addc : Option (Nat → Nat → α)) (r c : Nat) :
    assembleDom d ndof elmat x bc bcd addc r c
      = (if r ∈ bc.getD [] ∨ c ∈ bc.getD [] then 0
          else ∑ e ∈ range d.nel, x e * ∑ a ∈ range (d.elemnodes * ndof), ∑ b ∈ range (d.elemnodes * ndof),
                if d.dofConn ndof e a = r ∧ d.dofConn ndof e b = c then elmat a b else 0)
        + bcDiag (bc.getD []) bcd r c
        + (match addc with | none => 0 | some C => C r c) :=
  assemble_eq_scaled_sum _ _ _ _ _ _ _ _ _ _

/-- rows and columns of constrained dofs are zero off the diagonal (before the constant is added) -/
theorem assemble_bc_zero (nel m : Nat) (dc : Nat → Nat → Nat) (elmat : Nat → Nat → α) (x : Nat → α)
    (bc : List Nat) (bcd : α) (r c : Nat) (h : r ∈ bc ∨ c ∈ bc) (hrc : r ≠ c) :
    assemble nel m dc elmat x (some bc) bcd none r c = 0 := by
  rw [assemble_eq_scaled_sum]
  simp [h, bcDiag_offdiag bc bcd r c hrc]

/-- the chosen value sits on the diagonal of every constrained dof (bc without repetitions) -/
theorem assemble_bc_diag (nel m : Nat) (dc : Nat → Nat → Nat) (elmat : Nat → Nat → α) (x : Nat → α)
    (bc : List Nat) (hbc : bc.Nodup) (bcd : α) (r : Nat) (h : r ∈ bc) :
    assemble nel m dc elmat x (some bc) bcd none r r = bcd := by
  rw [assemble_eq_scaled_sum]
  simp [h, bcDiag_nodup bc hbc bcd r h]

/-- off the bc set the entry is exactly the scaled element sum -/
theorem assemble_free (nel m : Nat) (dc : Nat → Nat → Nat) (elmat : Nat → Nat → α) (x : Nat → α)
    (bc : List Nat) (bcd : α) (r c : Nat) (hr : r ∉ bc) (hc : c ∉ bc) :
    assemble nel m dc elmat x (some bc) bcd none r c
      = ∑ e ∈ range nel, x e * ∑ a ∈ range m, ∑ b ∈ range m,
          if dc e a = r ∧ dc e b = c then elmat a b else 0 := by
  rw [assemble_eq_scaled_sum]
  simp [hr, hc, bcDiag_of_not_mem bc bcd r c (Or.inl hr)]

/-! ## symmetry -/

/-- a symmetric element matrix (and symmetric constant) assembles to a symmetric matrix,
    for every bc set and `bcdiagval` -/
theorem assemble_symm (nel m : Nat) (dc : Nat → Nat → Nat) (elmat : Nat → Nat → α) (x : Nat → α)
    (bc : Option (List Nat)) (bcd : α) (addc : Option (Nat → Nat → α))
    (hel : ∀ a b, elmat a b = elmat b a) (hC : ∀ C, addc = some C → ∀ r c, C r c = C c r) (r c : Nat) :
    assemble nel m dc elmat x bc bcd addc r c = assemble nel m dc elmat x bc bcd addc c r := by
  rw [assemble_eq_scaled_sum, assemble_eq_scaled_sum, ← scatterSum_eq, ← scatterSum_eq,
    scatterSum_symm nel m dc elmat x hel r c, bcDiag_symm _ bcd r c]
  have hor : (r ∈ bc.getD [] ∨ c ∈ bc.getD []) ↔ (c ∈ bc.getD [] ∨ r ∈ bc.getD []) := or_comm
  simp only [hor]
  cases addc with
  | none => rfl
  | some C => simp only [hC C rfl r c]
end assembly

section stiffness_symm
variable {α : Type} [Field α]

/-- the 2-D element stiffness matrix is symmetric (plane strain and plane stress, any thickness) -/
theorem stiffElem2_symm (sx sy sz g E nu : α) (pm : PlaneMode) (a b : Nat) :
    stiffElem2 sx sy g (scaleD (getD E nu pm) sz) a b = stiffElem2 sx sy g (scaleD (getD E nu pm) sz) b a :=
  stiff_symm 4 3 _ _ _ (scaleD_symm _ _ (getD_symm E nu pm)) a b

/-- the 3-D element stiffness matrix is symmetric -/
theorem stiffElem3_symm (sx sy sz g E nu : α) (a b : Nat) :
    stiffElem3 sx sy sz g (getD E nu .d3) a b = stiffElem3 sx sy sz g (getD E nu .d3) b a :=
  stiff_symm 8 6 _ _ _ (getD_symm E nu .d3) a b

/-- **K is symmetric**, 2-D, every grid / sizes / material / plane mode / x / bc / bcdiagval -/
theorem K_symm_2d (d : Dom) (sx sy sz g E nu : α) (pm : PlaneMode) (x : Nat → α)
    (bc : Option (List Nat)) (bcd : α) (r c : Nat) :
    assembleDom d 2 (stiffElem2 sx sy g (scaleD (getD E nu pm) sz)) x bc bcd none r c
      = assembleDom d 2 (stiffElem2 sx sy g (scaleD (getD E nu pm) sz)) x bc bcd none c r :=
  assemble_symm _ _ _ _ _ _ _ _ (stiffElem2_symm sx sy sz g E nu pm) (by intro C h; cases h) r c

/-- **K is symmetric**, 3-D -/
theorem K_symm_3d (d : Dom) (sx sy sz g E nu : α) (x : Nat → α)
    (bc : Option (List Nat)) (bcd : α) (r c : Nat) :
    assembleDom d 3 (stiffElem3 sx sy sz g (getD E nu .d3)) x bc bcd none r c
      = assembleDom d 3 (stiffElem3 sx sy sz g (getD E nu .d3)) x bc bcd none c r :=
  assemble_symm _ _ _ _ _ _ _ _ (stiffElem3_symm sx sy sz g E nu) (by intro C h; cases h) r c
end stiffness_symm


/-! ## positive semi-definiteness: `uᵀKu = Σ_e x_e Σ_gp w ε_gpᵀ D ε_gp ≥ 0` -/
section psd
set_option linter.unusedSectionVars false
variable {α : Type} [Field α] [LinearOrder α] [IsStrictOrderedRing α]

/-- energy identity, 2-D: `ε_gp = B_gp u_e` with `u_e` the element gather of `u`; the thickness `sz`
    multiplies `D` as coded -/
theorem K_energy_2d (d : Dom) (sx sy sz g E nu : α) (pm : PlaneMode) (x : Nat → α) (bcd : α) (u : Nat → α) :
    ∑ r ∈ range (2 * d.nnodes), ∑ c ∈ range (2 * d.nnodes),
        u r * assembleDom d 2 (stiffElem2 sx sy g (scaleD (getD E nu pm) sz)) x none bcd none r c * u c
      = ∑ e ∈ range d.nel, x e * ∑ gp ∈ range 4, w2 sx sy *
          (sz * quadForm 3 (getD E nu pm) (Bv (d.elemnodes * 2) (Bg2 sx sy g gp) (fun a => u (d.dofConn 2 e a)))) := by
  unfold assembleDom stiffElem2
  rw [assemble_stiff_energy d.nel (d.elemnodes * 2) (2 * d.nnodes) 4 3 (d.dofConn 2)
    (fun e b he hb => dofConn_lt d 2 he hb)]
  simp only [quadForm_scaleD]

/-- **K is positive semi-definite for `x ≥ 0`** (2-D, plane strain and plane stress, `E > 0`, `-1 < ν < 1/2`,
    positive element sizes, non-negative thickness) -/
theorem K_psd_2d (d : Dom) (sx sy sz g E nu : α) (pm : PlaneMode) (hpm : pm ≠ .d3)
    (hsx : 0 < sx) (hsy : 0 < sy) (hsz : 0 ≤ sz) (hE : 0 < E) (h1 : -1 < nu) (h2 : nu < 1 / 2)
    (x : Nat → α) (hx : ∀ e, e < d.nel → 0 ≤ x e) (bcd : α) (u : Nat → α) :
    0 ≤ ∑ r ∈ range (2 * d.nnodes), ∑ c ∈ range (2 * d.nnodes),
        u r * assembleDom d 2 (stiffElem2 sx sy g (scaleD (getD E nu pm) sz)) x none bcd none r c * u c := by
  rw [K_energy_2d]
  have hw : 0 ≤ w2 sx sy := by unfold w2; positivity
  apply Finset.sum_nonneg; intro e he
  apply mul_nonneg (hx e (Finset.mem_range.mp he))
  apply Finset.sum_nonneg; intro gp _
  apply mul_nonneg hw
  apply mul_nonneg hsz
  have := D_psd E nu hE h1 h2 pm
  cases pm with
  | d3 => exact absurd rfl hpm
  | strain => exact this _
  | stress => exact this _

/-- energy identity, 3-D -/
theorem K_energy_3d (d : Dom) (sx sy sz g E nu : α) (x : Nat → α) (bcd : α) (u : Nat → α) :
    ∑ r ∈ range (3 * d.nnodes), ∑ c ∈ range (3 * d.nnodes),
        u r * assembleDom d 3 (stiffElem3 sx sy sz g (getD E nu .d3)) x none bcd none r c * u c
      = ∑ e ∈ range d.nel, x e * ∑ gp ∈ range 8, w3 sx sy sz *
          quadForm 6 (getD E nu .d3) (Bv (d.elemnodes * 3) (Bg3 sx sy sz g gp) (fun a => u (d.dofConn 3 e a))) := by
  unfold assembleDom stiffElem3
  rw [assemble_stiff_energy d.nel (d.elemnodes * 3) (3 * d.nnodes) 8 6 (d.dofConn 3)
    (fun e b he hb => dofConn_lt d 3 he hb)]

/-- **K is positive semi-definite for `x ≥ 0`** (3-D) -/
theorem K_psd_3d (d : Dom) (sx sy sz g E nu : α)
    (hsx : 0 < sx) (hsy : 0 < sy) (hsz : 0 < sz) (hE : 0 < E) (h1 : -1 < nu) (h2 : nu < 1 / 2)
    (x : Nat → α) (hx : ∀ e, e < d.nel → 0 ≤ x e) (bcd : α) (u : Nat → α) :
    0 ≤ ∑ r ∈ range (3 * d.nnodes), ∑ c ∈ range (3 * d.nnodes),
        u r * assembleDom d 3 (stiffElem3 sx sy sz g (getD E nu .d3)) x none bcd none r c * u c := by
  rw [K_energy_3d]
  have hw : 0 ≤ w3 sx sy sz := by unfold w3; positivity
  apply Finset.sum_nonneg; intro e he
  apply mul_nonneg (hx e (Finset.mem_range.mp he))
  apply Finset.sum_nonneg; intro gp _
  exact mul_nonneg hw (D_psd_3d E nu hE h1 h2 _)
end psd

example : (0 : Rat) ≤ ∑ r ∈ range (2 * (⟨2, 1, 0⟩ : Dom).nnodes), ∑ c ∈ range (2 * (⟨2, 1, 0⟩ : Dom).nnodes),
    (fun q => (q : Rat)) r * assembleDom ⟨2, 1, 0⟩ 2 (stiffElem2 (1 : Rat) 2 0 (scaleD (getD 1 (1 / 4) .stress) 1))
      (fun _ => 1) none 0 none r c * (fun q => (q : Rat)) c :=
  K_psd_2d ⟨2, 1, 0⟩ 1 2 1 0 1 (1 / 4) .stress (by decide) (by norm_num) (by norm_num) (by norm_num) (by norm_num)
    (by norm_num) (by norm_num) _ (fun _ _ => by norm_num) 0 _

/-! ## positive semi-definiteness survives boundary conditions with `bcdiagval ≥ 0` -/
section psdbc
variable {α : Type} [Field α] [LinearOrder α] [IsStrictOrderedRing α]

/-- **K stays positive semi-definite with boundary conditions** when `bcdiagval ≥ 0` (2-D) -/
theorem K_psd_bc_2d (d : Dom) (sx sy sz g E nu : α) (pm : PlaneMode) (hpm : pm ≠ .d3)
    (hsx : 0 < sx) (hsy : 0 < sy) (hsz : 0 ≤ sz) (hE : 0 < E) (h1 : -1 < nu) (h2 : nu < 1 / 2)
    (x : Nat → α) (hx : ∀ e, e < d.nel → 0 ≤ x e) (bc : List Nat) (bcd : α) (hb : 0 ≤ bcd) (u : Nat → α) :
    0 ≤ ∑ r ∈ range (2 * d.nnodes), ∑ c ∈ range (2 * d.nnodes),
        u r * assembleDom d 2 (stiffElem2 sx sy g (scaleD (getD E nu pm) sz)) x (some bc) bcd none r c * u c := by
  unfold assembleDom
  rw [assemble_bc_quad]
  apply add_nonneg
  · exact K_psd_2d d sx sy sz g E nu pm hpm hsx hsy hsz hE h1 h2 x hx bcd (fun r => if r ∈ bc then 0 else u r)
  · exact bcDiag_quad_nonneg _ bc bcd hb u

/-- **K stays positive semi-definite with boundary conditions** when `bcdiagval ≥ 0` (3-D) -/
theorem K_psd_bc_3d (d : Dom) (sx sy sz g E nu : α)
    (hsx : 0 < sx) (hsy : 0 < sy) (hsz : 0 < sz) (hE : 0 < E) (h1 : -1 < nu) (h2 : nu < 1 / 2)
    (x : Nat → α) (hx : ∀ e, e < d.nel → 0 ≤ x e) (bc : List Nat) (bcd : α) (hb : 0 ≤ bcd) (u : Nat → α) :
    0 ≤ ∑ r ∈ range (3 * d.nnodes), ∑ c ∈ range (3 * d.nnodes),
        u r * assembleDom d 3 (stiffElem3 sx sy sz g (getD E nu .d3)) x (some bc) bcd none r c * u c := by
  unfold assembleDom
  rw [assemble_bc_quad]
  apply add_nonneg
  · exact K_psd_3d d sx sy sz g E nu hsx hsy hsz hE h1 h2 x hx bcd (fun r => if r ∈ bc then 0 else u r)
  · exact bcDiag_quad_nonneg _ bc bcd hb u
end psdbc

example : (0 : Rat) ≤ ∑ r ∈ range (2 * (⟨1, 1, 0⟩ : Dom).nnodes), ∑ c ∈ range (2 * (⟨1, 1, 0⟩ : Dom).nnodes),
    (fun q => (q : Rat) - 3) r * assembleDom ⟨1, 1, 0⟩ 2 (stiffElem2 (1 : Rat) 1 0 (scaleD (getD 2 0 .strain) 1))
      (fun _ => 1) (some [0, 1, 5]) 7 none r c * (fun q => (q : Rat) - 3) c :=
  K_psd_bc_2d ⟨1, 1, 0⟩ 1 1 1 0 2 0 .strain (by decide) (by norm_num) (by norm_num) (by norm_num) (by norm_num)
    (by norm_num) (by norm_num) _ (fun _ _ => by norm_num) [0, 1, 5] 7 (by norm_num) _

/-! ## rigid-body motions are in the null space — at EVERY integration point -/
section rigid
variable {α : Type} [Field α] [CharZero α]

/-- **K annihilates every rigid-body motion**, 2-D: `u(X) = G X + t` with `G` infinitesimally rigid
    (`G₀₀ = G₁₁ = 0`, `G₀₁ + G₁₀ = 0`: translations `G = 0` and the rotation `G = ω[[0,-1],[1,0]]`).
    `g` is arbitrary: the strain vanishes at every point of every element, so the statement does not
    depend on the quadrature; any symmetric or non-symmetric `D`, any scaling `x`. -/
theorem K_rigid_null_2d (d : Dom) (hz : d.nelz = 0) (sx sy g : α) (hsx : sx ≠ 0) (hsy : sy ≠ 0)
    (D : Nat → Nat → α) (x : Nat → α) (bcd : α) (G : Nat → Nat → α) (t : Nat → α)
    (hG : ∀ i, i < 3 → engStrain2 G i = 0) (r : Nat) :
    ∑ c ∈ range (2 * d.nnodes),
        assembleDom d 2 (stiffElem2 sx sy g D) x none bcd none r c * affineNodal2 d sx sy G t c = 0 := by
  unfold assembleDom stiffElem2
  apply assemble_stiff_null d.nel (d.elemnodes * 2) (2 * d.nnodes) 4 3 (d.dofConn 2)
    (fun e b he hb => dofConn_lt d 2 he hb)
  intro e he gp _ j hj
  rw [elemnodes_2d d hz]
  exact (mesh_strain2 d hz sx sy _ _ hsx hsy G t he j hj).trans (hG j hj)

/-- **K annihilates every rigid-body motion**, 3-D: `G` skew (`engStrain3 G = 0`): three translations and
    the three infinitesimal rotations `u = ω × X` -/
theorem K_rigid_null_3d (d : Dom) (hz : d.nelz ≠ 0) (sx sy sz g : α) (hsx : sx ≠ 0) (hsy : sy ≠ 0) (hsz : sz ≠ 0)
    (D : Nat → Nat → α) (x : Nat → α) (bcd : α) (G : Nat → Nat → α) (t : Nat → α)
    (hG : ∀ i, i < 6 → engStrain3 G i = 0) (r : Nat) :
    ∑ c ∈ range (3 * d.nnodes),
        assembleDom d 3 (stiffElem3 sx sy sz g D) x none bcd none r c * affineNodal3 d sx sy sz G t c = 0 := by
  unfold assembleDom stiffElem3
  apply assemble_stiff_null d.nel (d.elemnodes * 3) (3 * d.nnodes) 8 6 (d.dofConn 3)
    (fun e b he hb => dofConn_lt d 3 he hb)
  intro e he gp _ j hj
  rw [elemnodes_3d d hz]
  exact (mesh_strain3 d hz sx sy sz _ _ _ hsx hsy hsz G t he j hj).trans (hG j hj)
end rigid

/-- non-vacuity: the 2-D rotation and a 3-D rotation about `(1,2,3)` satisfy the hypothesis -/
example : ∀ i, i < 3 → engStrain2 (fun a b => if a = 0 ∧ b = 1 then (-5 : Rat) else if a = 1 ∧ b = 0 then 5 else 0) i = 0 := by
  intro i hi; interval_cases i <;> norm_num [engStrain2]
example : ∀ i, i < 6 → engStrain3 (fun a b => ((if a = 0 ∧ b = 1 then -3 else if a = 1 ∧ b = 0 then 3
    else if a = 0 ∧ b = 2 then 2 else if a = 2 ∧ b = 0 then -2
    else if a = 1 ∧ b = 2 then -1 else if a = 2 ∧ b = 1 then 1 else 0) : Rat)) i = 0 := by
  intro i hi; interval_cases i <;> norm_num [engStrain3]


/-! ## mass matrix: total mass `ρ V Σx` per direction -/
section mass
variable {α : Type} [Field α] [CharZero α]

/-- **`1_ddᵀ M 1_dd = ρ V Σ_e x_e`** (2-D, `V = sx·sy·sz` with the thickness `sz`), any number of dofs per
    node, and different directions do not couple -/
theorem mass_total_2d (d : Dom) (hz : d.nelz = 0) (sx sy sz g rho : α) (hsx : sx ≠ 0) (hsy : sy ≠ 0)
    (ndof dd ee : Nat) (hdd : dd < ndof) (hee : ee < ndof) (x : Nat → α) (bcd : α) :
    ∑ r ∈ range (ndof * d.nnodes), ∑ c ∈ range (ndof * d.nnodes),
        dirInd ndof dd r * assembleDom d ndof (massElem2 sx sy sz g rho ndof) x none bcd none r c * dirInd ndof ee c
      = if dd = ee then rho * (sx * sy * sz) * ∑ e ∈ range d.nel, x e else 0 := by
  have hn : 0 < ndof := by omega
  unfold assembleDom
  rw [assemble_bilin d.nel (d.elemnodes * ndof) (ndof * d.nnodes) (d.dofConn ndof)
    (fun e b he hb => dofConn_lt d ndof he hb)]
  simp only [dirInd_gather d ndof _ _ _ hn]
  rw [elemnodes_2d d hz]
  unfold massElem2
  have hN : ∀ gp, gp < 4 → ∑ l ∈ range 4, Ng2 sx sy g gp l = 1 := by
    intro gp _
    rw [← sumRange_eq]
    exact shape2_sum_one sx sy _ _ hsx hsy
  simp only [mass_elem_dir 4 4 ndof dd ee hdd hee _ _ hN]
  split
  · rw [← Finset.sum_mul, Finset.mul_sum]
    rw [Finset.sum_mul]
    apply Finset.sum_congr rfl; intro e _
    unfold w2
    push_cast
    ring
  · simp

/-- **`1_ddᵀ M 1_dd = ρ V Σ_e x_e`** (3-D, `V = sx·sy·sz`) -/
theorem mass_total_3d (d : Dom) (hz : d.nelz ≠ 0) (sx sy sz g rho : α) (hsx : sx ≠ 0) (hsy : sy ≠ 0) (hsz : sz ≠ 0)
    (ndof dd ee : Nat) (hdd : dd < ndof) (hee : ee < ndof) (x : Nat → α) (bcd : α) :
    ∑ r ∈ range (ndof * d.nnodes), ∑ c ∈ range (ndof * d.nnodes),
        dirInd ndof dd r * assembleDom d ndof (massElem3 sx sy sz g rho ndof) x none bcd none r c * dirInd ndof ee c
      = if dd = ee then rho * (sx * sy * sz) * ∑ e ∈ range d.nel, x e else 0 := by
  have hn : 0 < ndof := by omega
  unfold assembleDom
  rw [assemble_bilin d.nel (d.elemnodes * ndof) (ndof * d.nnodes) (d.dofConn ndof)
    (fun e b he hb => dofConn_lt d ndof he hb)]
  simp only [dirInd_gather d ndof _ _ _ hn]
  rw [elemnodes_3d d hz]
  unfold massElem3
  have hN : ∀ gp, gp < 8 → ∑ l ∈ range 8, Ng3 sx sy sz g gp l = 1 := by
    intro gp _
    rw [← sumRange_eq]
    exact shape3_sum_one sx sy sz _ _ _ hsx hsy hsz
  simp only [mass_elem_dir 8 8 ndof dd ee hdd hee _ _ hN]
  split
  · rw [Finset.mul_sum]
    apply Finset.sum_congr rfl; intro e _
    unfold w3
    push_cast
    ring
  · simp
end mass

example : ∑ r ∈ range (2 * (⟨2, 2, 0⟩ : Dom).nnodes), ∑ c ∈ range (2 * (⟨2, 2, 0⟩ : Dom).nnodes),
    dirInd 2 1 r * assembleDom ⟨2, 2, 0⟩ 2 (massElem2 (1 : Rat) 2 3 (1 / 7) 5 2) (fun e => (e : Rat)) none 0 none r c
      * dirInd 2 1 c = if 1 = 1 then 5 * (1 * 2 * 3) * ∑ e ∈ range (⟨2, 2, 0⟩ : Dom).nel, (e : Rat) else 0 :=
  mass_total_2d ⟨2, 2, 0⟩ rfl 1 2 3 (1 / 7) 5 (by norm_num) (by norm_num) 2 1 1 (by norm_num) (by norm_num) _ 0

/-! ## Poisson matrix: constants in the null space, energy of a linear field -/
section poisson
variable {α : Type} [Field α] [CharZero α]

/-- **P annihilates constants** (2-D), every grid / sizes / conductivity / x -/
theorem poisson_const_null_2d (d : Dom) (hz : d.nelz = 0) (sx sy sz g k : α) (x : Nat → α) (bcd cst : α) (r : Nat) :
    ∑ c ∈ range (1 * d.nnodes),
        assembleDom d 1 (poissonElem2 sx sy sz g k) x none bcd none r c * (fun _ => cst) c = 0 := by
  unfold assembleDom
  rw [assemble_mulVec d.nel (d.elemnodes * 1) (1 * d.nnodes) (d.dofConn 1)
    (fun e b he hb => dofConn_lt d 1 he hb)]
  apply Finset.sum_eq_zero; intro e _
  apply Finset.sum_eq_zero; intro a _
  split
  · unfold poissonElem2
    rw [poissonFrom_eq_gram, gram_mulVec, elemnodes_2d d hz]
    have : ∀ gp ∈ range 4, ∑ i ∈ range 2, w2 sx sy * (k * sz) * dNg2 sx sy g gp i a
        * Bv (4 * 1) (dNg2 sx sy g gp) (fun _ => cst) i = 0 := by
      intro gp _
      apply Finset.sum_eq_zero; intro i _
      have : Bv (4 * 1) (dNg2 sx sy g gp) (fun _ => cst) i = 0 := by
        unfold Bv dNg2
        rw [← Finset.sum_mul, ← sumRange_eq, shapeDer2_sum_zero]; ring
      rw [this]; ring
    rw [Finset.sum_eq_zero this]; ring
  · rfl

/-- **P annihilates constants** (3-D) -/
theorem poisson_const_null_3d (d : Dom) (hz : d.nelz ≠ 0) (sx sy sz g k : α) (x : Nat → α) (bcd cst : α) (r : Nat) :
    ∑ c ∈ range (1 * d.nnodes),
        assembleDom d 1 (poissonElem3 sx sy sz g k) x none bcd none r c * (fun _ => cst) c = 0 := by
  unfold assembleDom
  rw [assemble_mulVec d.nel (d.elemnodes * 1) (1 * d.nnodes) (d.dofConn 1)
    (fun e b he hb => dofConn_lt d 1 he hb)]
  apply Finset.sum_eq_zero; intro e _
  apply Finset.sum_eq_zero; intro a _
  split
  · unfold poissonElem3
    rw [poissonFrom_eq_gram, gram_mulVec, elemnodes_3d d hz]
    have : ∀ gp ∈ range 8, ∑ i ∈ range 3, w3 sx sy sz * k * dNg3 sx sy sz g gp i a
        * Bv (8 * 1) (dNg3 sx sy sz g gp) (fun _ => cst) i = 0 := by
      intro gp _
      apply Finset.sum_eq_zero; intro i _
      have : Bv (8 * 1) (dNg3 sx sy sz g gp) (fun _ => cst) i = 0 := by
        unfold Bv dNg3
        rw [← Finset.sum_mul, ← sumRange_eq, shapeDer3_sum_zero]; ring
      rw [this]; ring
    rw [Finset.sum_eq_zero this]; ring
  · rfl

/-- **energy of a linear field** (2-D): for `u(X) = a·X + b` at the nodes,
    `uᵀ P u = k |a|² V Σ_e x_e` with `V = sx·sy·sz` (thickness `sz`) -/
theorem poisson_linear_energy_2d (d : Dom) (hz : d.nelz = 0) (sx sy sz g k : α) (hsx : sx ≠ 0) (hsy : sy ≠ 0)
    (x : Nat → α) (bcd : α) (a : Nat → α) (b : α) :
    ∑ r ∈ range (1 * d.nnodes), ∑ c ∈ range (1 * d.nnodes),
        affineScalar2 d sx sy a b r * assembleDom d 1 (poissonElem2 sx sy sz g k) x none bcd none r c
          * affineScalar2 d sx sy a b c
      = k * (a 0 * a 0 + a 1 * a 1) * (sx * sy * sz) * ∑ e ∈ range d.nel, x e := by
  unfold assembleDom
  rw [assemble_bilin d.nel (d.elemnodes * 1) (1 * d.nnodes) (d.dofConn 1)
    (fun e b he hb => dofConn_lt d 1 he hb)]
  rw [elemnodes_2d d hz, Finset.mul_sum]
  apply Finset.sum_congr rfl; intro e he
  unfold poissonElem2
  rw [poissonFrom_eq_gram, gram_bilin]
  have hg : ∀ gp ∈ range 4, ∀ i ∈ range 2,
      Bv (4 * 1) (dNg2 sx sy g gp) (fun l => affineScalar2 d sx sy a b (d.dofConn 1 e l)) i = a i := by
    intro gp _ i hi
    exact mesh_grad2 d hz sx sy _ _ hsx hsy a b (Finset.mem_range.mp he) i (Finset.mem_range.mp hi)
  have : ∀ gp ∈ range 4, ∑ i ∈ range 2, w2 sx sy * (k * sz)
        * Bv (4 * 1) (dNg2 sx sy g gp) (fun l => affineScalar2 d sx sy a b (d.dofConn 1 e l)) i
        * Bv (4 * 1) (dNg2 sx sy g gp) (fun l => affineScalar2 d sx sy a b (d.dofConn 1 e l)) i
      = w2 sx sy * (k * sz) * (a 0 * a 0 + a 1 * a 1) := by
    intro gp hgp
    rw [Finset.sum_congr rfl (fun i hi => by rw [hg gp hgp i hi])]
    simp [Finset.sum_range_succ]; ring
  rw [Finset.sum_congr rfl this]
  simp only [Finset.sum_const, Finset.card_range, nsmul_eq_mul]
  unfold w2
  push_cast
  ring

/-- **energy of a linear field** (3-D) -/
theorem poisson_linear_energy_3d (d : Dom) (hz : d.nelz ≠ 0) (sx sy sz g k : α) (hsx : sx ≠ 0) (hsy : sy ≠ 0)
    (hsz : sz ≠ 0) (x : Nat → α) (bcd : α) (a : Nat → α) (b : α) :
    ∑ r ∈ range (1 * d.nnodes), ∑ c ∈ range (1 * d.nnodes),
        affineScalar3 d sx sy sz a b r * assembleDom d 1 (poissonElem3 sx sy sz g k) x none bcd none r c
          * affineScalar3 d sx sy sz a b c
      = k * (a 0 * a 0 + a 1 * a 1 + a 2 * a 2) * (sx * sy * sz) * ∑ e ∈ range d.nel, x e := by
  unfold assembleDom
  rw [assemble_bilin d.nel (d.elemnodes * 1) (1 * d.nnodes) (d.dofConn 1)
    (fun e b he hb => dofConn_lt d 1 he hb)]
  rw [elemnodes_3d d hz, Finset.mul_sum]
  apply Finset.sum_congr rfl; intro e he
  unfold poissonElem3
  rw [poissonFrom_eq_gram, gram_bilin]
  have hg : ∀ gp ∈ range 8, ∀ i ∈ range 3,
      Bv (8 * 1) (dNg3 sx sy sz g gp) (fun l => affineScalar3 d sx sy sz a b (d.dofConn 1 e l)) i = a i := by
    intro gp _ i hi
    exact mesh_grad3 d hz sx sy sz _ _ _ hsx hsy hsz a b (Finset.mem_range.mp he) i (Finset.mem_range.mp hi)
  have : ∀ gp ∈ range 8, ∑ i ∈ range 3, w3 sx sy sz * k
        * Bv (8 * 1) (dNg3 sx sy sz g gp) (fun l => affineScalar3 d sx sy sz a b (d.dofConn 1 e l)) i
        * Bv (8 * 1) (dNg3 sx sy sz g gp) (fun l => affineScalar3 d sx sy sz a b (d.dofConn 1 e l)) i
      = w3 sx sy sz * k * (a 0 * a 0 + a 1 * a 1 + a 2 * a 2) := by
    intro gp hgp
    rw [Finset.sum_congr rfl (fun i hi => by rw [hg gp hgp i hi])]
    simp [Finset.sum_range_succ]; ring
  rw [Finset.sum_congr rfl this]
  simp only [Finset.sum_const, Finset.card_range, nsmul_eq_mul]
  unfold w3
  push_cast
  ring
end poisson

/-! ## the executable scalar `Q3 = ℚ(√3)` of the driver: Gauss factor and one exactly evaluated entry -/
example : Q3.gauss * Q3.gauss = Q3.ofRat (1 / 3) := by decide +kernel
example : poissonElem2 (1 : Q3) 1 1 Q3.gauss 1 0 0 = Q3.ofRat (2 / 3) := by decide +kernel
example : stiffElem2 (1 : Q3) 1 Q3.gauss (scaleD (getD 1 0 .stress) 1) 0 0 = Q3.ofRat (1 / 2) := by decide +kernel

end PymotoVerif.C08
