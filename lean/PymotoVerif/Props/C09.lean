/-
C09 — Density filters are the normalised local averages they are defined to be.
Property theorems ONLY (helper lemmas live in `Lemmas/Filter*.lean`).

Model: `Core/Filter.lean` (transcription of `FilterConv`, `Filter`, `DensityFilter` of `pymoto/modules/filter.py`).
Specification-level definitions (`ext1`, `extField`, `axisClean`, `axisSrc`, `Cfg.noConst`, `Cfg.allSym`): `Lemmas/FilterSpec.lean`.
All statements are for ALL domain sizes (2-D: `nelz = 0`, 3-D), kernel shapes / pad widths, fields.
-/
import PymotoVerif.Lemmas.FilterPad1
import PymotoVerif.Lemmas.FilterPad3
import PymotoVerif.Lemmas.FilterAdj
import PymotoVerif.Lemmas.FilterDens
import PymotoVerif.Lemmas.FilterVol
import PymotoVerif.Lemmas.FilterExamples
import Mathlib.Tactic.IntervalCases
import Mathlib.Data.Rat.Init
import Mathlib.Algebra.Ring.Rat
import Mathlib.Algebra.Order.Ring.Rat
import Mathlib.Analysis.Real.Sqrt
import Mathlib.Tactic.NormNum

namespace PymotoVerif.C09
open PymotoVerif PymotoVerif.Domain PymotoVerif.Filter

/-! ## closed forms of the 1-D extension rules (`np.pad` modes `symmetric`, `edge`, `wrap`) -/

/-- `symmetric`: lands in the array, is the identity on it, is even about the lower array end (`t ↦ −1−t`)
    and has period `2n` — i.e. repeated reflection for arbitrary pad widths. -/
theorem extSym_spec (n : Nat) (hn : 0 < n) (t : Int) :
    (0 ≤ extSym n t ∧ extSym n t < n) ∧ (0 ≤ t → t < n → extSym n t = t) ∧
    extSym n (-1 - t) = extSym n t ∧ extSym n (t + 2 * (n : Int)) = extSym n t :=
  ⟨extSym_range n hn t, extSym_id n t, extSym_reflect n hn t, extSym_periodic n t⟩

/-- the first reflection on either side, explicitly -/
theorem extSym_first_reflection (n : Nat) (hn : 0 < n) (t : Int) :
    (-(n : Int) ≤ t → t < 0 → extSym n t = -1 - t) ∧
    ((n : Int) ≤ t → t < 2 * (n : Int) → extSym n t = 2 * (n : Int) - 1 - t) :=
  ⟨extSym_below n hn t, extSym_above n hn t⟩

/-- `edge`: clamping to `[0, n−1]` -/
theorem extEdge_spec (n : Nat) (hn : 0 < n) (t : Int) :
    (0 ≤ extEdge n t ∧ extEdge n t < n) ∧ (0 ≤ t → t < n → extEdge n t = t) ∧
    (t < 0 → extEdge n t = 0) ∧ ((n : Int) ≤ t → extEdge n t = (n : Int) - 1) :=
  ⟨extEdge_range n hn t, extEdge_id n t, extEdge_below n t, extEdge_above n t⟩

/-- `wrap`: reduction modulo `n` (in the array, identity on it, period `n`) -/
theorem extWrap_spec (n : Nat) (hn : 0 < n) (t : Int) :
    (0 ≤ extWrap n t ∧ extWrap n t < n) ∧ (0 ≤ t → t < n → extWrap n t = t) ∧
    extWrap n (t + (n : Int)) = extWrap n t :=
  ⟨extWrap_range n hn t, extWrap_id n t, extWrap_periodic n t⟩

/-! ## `_process_padding` produces the per-face rule -/

/-- The three successive `np.pad` calls of `_process_padding` along one axis (wrap first, then the upper face on the
    wrapped array, then the lower face on the result), seen as a source map `axisSrc`, coincide with the
    specification `ext1` (rule `e0` below the array, rule `e1` above it; a constant has no source) at every position of
    the padded axis — for every pad width `p ≤ n`, and for wider pads for all mode pairs except
    `(symmetric, non-symmetric)` and `(wrap, symmetric)` (`axisClean`; see the counter-example below). -/
theorem processPadding_axis_is_extension {α : Type} (e0 e1 : Mode α) (n p q : Nat) (hn : 0 < n)
    (hq : q < n + 2 * p) (hc : axisClean e0 e1 n p) :
    axisSrc e0 e1 n p q = (match ext1 e0 e1 n ((q : Int) - (p : Int)) with
      | .idx i => some i
      | .cst _ => none) :=
  axisSrc_spec e0 e1 n p q hn hq hc

-- non-vacuity, and the hypothesis cannot be dropped: a pad wider than the array with modes (symmetric, edge)
example : axisClean (.sym : Mode Rat) (.const 1) 3 2 := Or.inl (by decide)
example : axisClean (.sym : Mode Rat) .sym 2 5 := Or.inr trivial
example : axisSrc (.sym : Mode Rat) .edge 2 5 0 = some 1 ∧
    (match ext1 (.sym : Mode Rat) .edge 2 ((0 : Int) - 5) with | .idx i => some i | .cst _ => none) = some 0 := by
  decide

/-- `_process_padding` on the 3-D index array IS the 1-D source map applied along the axis (all modes, all widths). -/
theorem processPadding_is_axis_map {α : Type} (c : Cfg α) (ind : A3 Nat) (n : Nat) (e0 e1 : Mode α) (dir p : Nat) :
    (c.processPadding ind n e0 e1 dir p).1 = padAlong dir (axisSrc e0 e1 n p) ind :=
  processPadding_fst c ind n e0 e1 dir p

/-! ## FilterConv is the padded convolution -/

/-- Output element `(i,j,k)` of `FilterConv._response` equals
    `Σ_{a,b,c} w[a,b,c] · x̃[i+p_x−a, j+p_y−b, k+p_z−c]`, `x̃ = extField` the field extended in x, then y, then z by the
    selected rule of each face (`ext1`: `extSym`/`extEdge`/`extWrap`/constant), with the value overrides of
    `override_values` applied on top (in padded coordinates).
    For arbitrary odd kernel shapes and pad widths and mixed modes on the two ends of an axis, under `axisClean`
    per axis. 3-D statement; 2-D is `nelz = 0` (one layer of elements), with a 2-D or a 3-D kernel. -/
theorem filterConv_is_padded_convolution {α : Type} [CommSemiring α] (c : Cfg α) (x : Nat → α)
    (hk : c.oddKernel) (hx : 1 ≤ c.dom.nelx) (hy : 1 ≤ c.dom.nely)
    (hcx : axisClean c.xmin c.xmax c.nx c.px) (hcy : axisClean c.ymin c.ymax c.ny c.py)
    (hcz : axisClean c.zmin c.zmax c.nz c.pz)
    (i j k : Nat) (hi : i < c.nx) (hj : j < c.ny) (hkk : k < c.nz) :
    c.resp x (c.dom.elemNumber i j k) =
      sum3 c.kx c.ky c.kz fun a b cc => c.w a b cc *
        Cfg.applyOverrides c.user
          (fun a b cc => extField c x ((a : Int) - c.px) ((b : Int) - c.py) ((cc : Int) - c.pz))
          (i + (c.kx - 1) - a) (j + (c.ky - 1) - b) (k + (c.kz - 1) - cc) :=
  resp_eq_padded_convolution_user c x hx hy
    (fun q hq => axisSrc_spec _ _ _ _ q (by unfold Cfg.nx sz; omega) hq hcx)
    (fun q hq => axisSrc_spec _ _ _ _ q (by unfold Cfg.ny sz; omega) hq hcy)
    (fun q hq => axisSrc_spec _ _ _ _ q (by unfold Cfg.nz sz; omega) hq hcz)
    hk i j k hi hj hkk

-- non-vacuity: 3×2 domain, 3×3 kernel, modes (symmetric, constant 1, edge, wrap, symmetric, symmetric)
example : exCfgMixed.oddKernel ∧ 1 ≤ exCfgMixed.dom.nelx ∧ 1 ≤ exCfgMixed.dom.nely ∧
    axisClean exCfgMixed.xmin exCfgMixed.xmax exCfgMixed.nx exCfgMixed.px ∧
    axisClean exCfgMixed.ymin exCfgMixed.ymax exCfgMixed.ny exCfgMixed.py ∧
    axisClean exCfgMixed.zmin exCfgMixed.zmax exCfgMixed.nz exCfgMixed.pz :=
  ⟨by decide, by decide, by decide, Or.inl (by decide), Or.inl (by decide), Or.inl (by decide)⟩
-- … and a 3-D one: 2×2×2 domain, 3×3×3 kernel, modes (wrap, wrap, edge, symmetric, symmetric, edge)
example : exCfg3d.oddKernel ∧ 1 ≤ exCfg3d.dom.nelx ∧ 1 ≤ exCfg3d.dom.nely ∧
    axisClean exCfg3d.xmin exCfg3d.xmax exCfg3d.nx exCfg3d.px ∧
    axisClean exCfg3d.ymin exCfg3d.ymax exCfg3d.ny exCfg3d.py ∧
    axisClean exCfg3d.zmin exCfg3d.zmax exCfg3d.nz exCfg3d.pz :=
  ⟨by decide, by decide, by decide, Or.inl (by decide), Or.inl (by decide), Or.inl (by decide)⟩
-- … and a 3-D kernel on a 2-D domain (1×1×3 identity kernel, `zmax_bc = 9`; repaired in /repo 6759d43, before
-- which element 0 came out as 9): the hypotheses hold and both sides evaluate to x₀ = 3
example : exCfgQuirk.oddKernel ∧ axisClean exCfgQuirk.zmin exCfgQuirk.zmax exCfgQuirk.nz exCfgQuirk.pz ∧
    exCfgQuirk.resp exField 0 = 3 ∧
    (sum3 exCfgQuirk.kx exCfgQuirk.ky exCfgQuirk.kz fun a b cc => exCfgQuirk.w a b cc *
      extField exCfgQuirk exField ((0 : Int) + exCfgQuirk.px - a) ((0 : Int) + exCfgQuirk.py - b)
        ((0 : Int) + exCfgQuirk.pz - cc)) = 3 := by
  refine ⟨by decide, Or.inl (by decide), ?_, ?_⟩ <;> decide +kernel
-- OPEN FINDING `filterconv-wide-pad-mixed-modes` (KNOWN_FINDINGS.txt): `axisClean` cannot be dropped. At the witness
-- (2×1 domain, field [3, 5], 7×1 kernel = shift by 3, pad 3 > 2 elements, xmin symmetric, xmax = 7) the model (as the
-- code) returns x₀ = 3 for element 0, whereas the padded-convolution formula (position −3 of the symmetric
-- extension of the field) gives x₁ = 5; the x axis is not `axisClean`.
example : ¬ axisClean exCfgFinding.xmin exCfgFinding.xmax exCfgFinding.nx exCfgFinding.px ∧
    exCfgFinding.resp exField 0 = 3 ∧
    (sum3 exCfgFinding.kx exCfgFinding.ky exCfgFinding.kz fun a b cc => exCfgFinding.w a b cc *
      extField exCfgFinding exField ((0 : Int) + exCfgFinding.px - a) ((0 : Int) + exCfgFinding.py - b)
        ((0 : Int) + exCfgFinding.pz - cc)) = 5 := by
  refine ⟨?_, ?_, ?_⟩
  · rintro (h | h)
    · exact absurd h (by decide)
    · exact h
  · decide +kernel
  · decide +kernel

/-- the same without value overrides, in domain coordinates (`Int`): exactly the formula of the property -/
theorem filterConv_is_padded_convolution_no_overrides {α : Type} [CommSemiring α] (c : Cfg α) (x : Nat → α)
    (hk : c.oddKernel) (hx : 1 ≤ c.dom.nelx) (hy : 1 ≤ c.dom.nely)
    (huser : c.user = [])
    (hcx : axisClean c.xmin c.xmax c.nx c.px) (hcy : axisClean c.ymin c.ymax c.ny c.py)
    (hcz : axisClean c.zmin c.zmax c.nz c.pz)
    (i j k : Nat) (hi : i < c.nx) (hj : j < c.ny) (hkk : k < c.nz) :
    c.resp x (c.dom.elemNumber i j k) =
      sum3 c.kx c.ky c.kz fun a b cc => c.w a b cc *
        extField c x ((i : Int) + c.px - a) ((j : Int) + c.py - b) ((k : Int) + c.pz - cc) :=
  resp_eq_padded_convolution c x hx hy huser
    (fun q hq => axisSrc_spec _ _ _ _ q (by unfold Cfg.nx sz; omega) hq hcx)
    (fun q hq => axisSrc_spec _ _ _ _ q (by unfold Cfg.ny sz; omega) hq hcy)
    (fun q hq => axisSrc_spec _ _ _ _ q (by unfold Cfg.nz sz; omega) hq hcz)
    hk i j k hi hj hkk

/-! ## constants and range (non-negative kernel summing to one, no constant-valued padding) -/

/-- FilterConv maps a constant field to the same constant (kernel sums to one; no constant padding, no overrides;
    any pad widths and any combination of `symmetric`/`edge`/`wrap`). -/
theorem filterConv_const {α : Type} [CommSemiring α] (c : Cfg α) (hx : 1 ≤ c.dom.nelx) (hy : 1 ≤ c.dom.nely)
    (hnc : c.noConst) (hsum : sum3 c.kx c.ky c.kz c.w = 1) (v : α) (e : Nat) (he : e < c.nx * c.ny * c.nz) :
    c.resp (fun _ => v) e = v :=
  filterConv_const_lemma c hx hy hnc hsum v e he

/-- FilterConv keeps every output within any bounds of the input, in particular within `[min x, max x]`
    (non-negative kernel summing to one; no constant padding, no overrides). -/
theorem filterConv_range {α : Type} [Field α] [LinearOrder α] [IsStrictOrderedRing α] (c : Cfg α)
    (hx : 1 ≤ c.dom.nelx) (hy : 1 ≤ c.dom.nely) (hnc : c.noConst) (hsum : sum3 c.kx c.ky c.kz c.w = 1)
    (hpos : ∀ a b cc, a < c.kx → b < c.ky → cc < c.kz → 0 ≤ c.w a b cc) (x : Nat → α) (lo hi : α)
    (hlo : ∀ j, j < c.nx * c.ny * c.nz → lo ≤ x j) (hhi : ∀ j, j < c.nx * c.ny * c.nz → x j ≤ hi)
    (e : Nat) (he : e < c.nx * c.ny * c.nz) : lo ≤ c.resp x e ∧ c.resp x e ≤ hi :=
  filterConv_range_lemma c hx hy hnc hsum hpos x lo hi hlo hhi e he

-- non-vacuity: one-element-wide 1×2 domain, 5×3 binomial kernel (pad 2 > 1 element: repeated reflection),
-- symmetric padding: no constant padding, kernel sums to one and is non-negative
example : 1 ≤ exCfgSym.dom.nelx ∧ 1 ≤ exCfgSym.dom.nely ∧ exCfgSym.noConst ∧
    sum3 exCfgSym.kx exCfgSym.ky exCfgSym.kz exCfgSym.w = 1 ∧
    (∀ a b cc, a < exCfgSym.kx → b < exCfgSym.ky → cc < exCfgSym.kz → 0 ≤ exCfgSym.w a b cc) := by
  refine ⟨by decide, by decide, by simp [Cfg.noConst, exCfgSym, Mode.isConst], ?_, ?_⟩
  · simp [sum3, sumRange, exCfgSym]; norm_num
  · intro a b cc _ _ _
    simp only [exCfgSym]
    split_ifs <;> norm_num

/-- every kernel built by `set_filter_radius` (relative or absolute units, any element sizes, any radius > 0) is of odd
    shape, non-negative, sums to one and is mirror-symmetric in every axis (`sqrt 0 = 0` is all that is used of `sqrt`) -/
theorem radiusKernel_props {α : Type} [Field α] [LinearOrder α] [IsStrictOrderedRing α]
    (sqrt : α → α) (hsq : sqrt 0 = 0) (trunc : α → Int) (tiny : α)
    (dom : Dom) (es : α × α × α) (radius : α) (hr : 0 < radius) (rel : Bool)
    (kx ky kz : Nat) (w : A3 α)
    (h : setFilterRadius sqrt trunc tiny 1 dom es radius rel = .ok (kx, ky, kz, w)) :
    (kx % 2 = 1 ∧ ky % 2 = 1 ∧ kz % 2 = 1) ∧ (∀ a b c, 0 ≤ w a b c) ∧ sum3 kx ky kz w = 1 ∧
    (∀ a b c, a < kx → w (kx - 1 - a) b c = w a b c) ∧
    (∀ a b c, b < ky → w a (ky - 1 - b) c = w a b c) ∧
    (∀ a b c, c < kz → w a b (kz - 1 - c) = w a b c) :=
  setFilterRadius_kernel_props sqrt hsq trunc tiny dom es radius hr rel kx ky kz w h

-- non-vacuity: 3×2 domain, radius 3/2 in relative units, the real square root; half widths (1, 1, 0) → shape 3×3×1
example : ∃ w, setFilterRadius Real.sqrt (fun _ => (1 : Int)) (0 : ℝ) 1 ⟨3, 2, 0⟩ ((1 : ℝ), (1 : ℝ), (1 : ℝ)) (3 / 2) true
    = .ok (3, 3, 1, w) ∧ Real.sqrt 0 = 0 ∧ (0 : ℝ) < 3 / 2 :=
  ⟨_, rfl, Real.sqrt_zero, by norm_num⟩

/-- hence a radius-kernel FilterConv without constant padding preserves constants and the range -/
theorem filterConv_radius_const_range {α : Type} [Field α] [LinearOrder α] [IsStrictOrderedRing α]
    (sqrt : α → α) (hsq : sqrt 0 = 0) (trunc : α → Int) (tiny : α) (es : α × α × α) (radius : α) (hr : 0 < radius)
    (rel : Bool) (c : Cfg α)
    (h : setFilterRadius sqrt trunc tiny 1 c.dom es radius rel = .ok (c.kx, c.ky, c.kz, c.w))
    (hx : 1 ≤ c.dom.nelx) (hy : 1 ≤ c.dom.nely) (hnc : c.noConst) (x : Nat → α) (lo hi : α)
    (hlo : ∀ j, j < c.nx * c.ny * c.nz → lo ≤ x j) (hhi : ∀ j, j < c.nx * c.ny * c.nz → x j ≤ hi)
    (e : Nat) (he : e < c.nx * c.ny * c.nz) :
    (∀ v, c.resp (fun _ => v) e = v) ∧ lo ≤ c.resp x e ∧ c.resp x e ≤ hi := by
  obtain ⟨_, hpos, hsum, _⟩ := setFilterRadius_kernel_props sqrt hsq trunc tiny c.dom es radius hr rel _ _ _ _ h
  exact ⟨fun v => filterConv_const_lemma c hx hy hnc hsum v e he,
    filterConv_range_lemma c hx hy hnc hsum (fun a b cc _ _ _ => hpos a b cc) x lo hi hlo hhi e he⟩

/-! ## volume preservation -/

/-- "covers twice": under the symmetric (even, `2n`-periodic) extension, a pair of opposite offsets `±d` sees every
    element of the array exactly twice — for every `d`, however large. -/
theorem extSym_covers_twice {α : Type} [AddCommGroup α] (n : Nat) (hn : 0 < n) (x : Int → α) (d : Int) :
    ∑ e ∈ Finset.range n, x (extSym n ((e : Int) + d)) + ∑ e ∈ Finset.range n, x (extSym n ((e : Int) - d))
      = ∑ j ∈ Finset.range n, x (j : Int) + ∑ j ∈ Finset.range n, x (j : Int) :=
  Filter.extSym_covers_twice n hn x d

/-- symmetric padding on all six faces + kernel mirror-symmetric in every axis ⇒ `Σ y = (Σ w) · Σ x`, for ANY pad width
    (also kernels wider than the domain, where numpy reflects repeatedly); 2-D and 3-D. -/
theorem filterConv_volume {α : Type} [Field α] [CharZero α] (c : Cfg α) (hk : c.oddKernel)
    (hx : 1 ≤ c.dom.nelx) (hy : 1 ≤ c.dom.nely) (hs : c.allSym)
    (hmx : ∀ a b cc, a < c.kx → b < c.ky → cc < c.kz → c.w (c.kx - 1 - a) b cc = c.w a b cc)
    (hmy : ∀ a b cc, a < c.kx → b < c.ky → cc < c.kz → c.w a (c.ky - 1 - b) cc = c.w a b cc)
    (hmz : ∀ a b cc, a < c.kx → b < c.ky → cc < c.kz → c.w a b (c.kz - 1 - cc) = c.w a b cc)
    (x : Nat → α) :
    sumRange (c.nx * c.ny * c.nz) (c.resp x) = sum3 c.kx c.ky c.kz c.w * sumRange (c.nx * c.ny * c.nz) x :=
  filterConv_volume_lemma c hk hx hy hs hmx hmy hmz x

/-- … in particular the total volume is preserved when the kernel sums to one -/
theorem filterConv_volume_preserved {α : Type} [Field α] [CharZero α] (c : Cfg α) (hk : c.oddKernel)
    (hx : 1 ≤ c.dom.nelx) (hy : 1 ≤ c.dom.nely) (hs : c.allSym)
    (hmx : ∀ a b cc, a < c.kx → b < c.ky → cc < c.kz → c.w (c.kx - 1 - a) b cc = c.w a b cc)
    (hmy : ∀ a b cc, a < c.kx → b < c.ky → cc < c.kz → c.w a (c.ky - 1 - b) cc = c.w a b cc)
    (hmz : ∀ a b cc, a < c.kx → b < c.ky → cc < c.kz → c.w a b (c.kz - 1 - cc) = c.w a b cc)
    (hone : sum3 c.kx c.ky c.kz c.w = 1) (x : Nat → α) :
    sumRange (c.nx * c.ny * c.nz) (c.resp x) = sumRange (c.nx * c.ny * c.nz) x := by
  rw [filterConv_volume_lemma c hk hx hy hs hmx hmy hmz x, hone, one_mul]

-- non-vacuity: the one-element-wide domain with the 5×3 binomial kernel (pad 2 > 1 element)
example : exCfgSym.oddKernel ∧ exCfgSym.allSym ∧
    (∀ a b cc, a < exCfgSym.kx → b < exCfgSym.ky → cc < exCfgSym.kz →
      exCfgSym.w (exCfgSym.kx - 1 - a) b cc = exCfgSym.w a b cc) ∧
    (∀ a b cc, a < exCfgSym.kx → b < exCfgSym.ky → cc < exCfgSym.kz →
      exCfgSym.w a (exCfgSym.ky - 1 - b) cc = exCfgSym.w a b cc) ∧
    (∀ a b cc, a < exCfgSym.kx → b < exCfgSym.ky → cc < exCfgSym.kz →
      exCfgSym.w a b (exCfgSym.kz - 1 - cc) = exCfgSym.w a b cc) := by
  refine ⟨by decide, by simp [Cfg.allSym, exCfgSym], ?_, ?_, ?_⟩
  · intro a b cc ha _ _
    simp only [exCfgSym] at ha ⊢
    interval_cases a <;> simp
  · intro a b cc _ hb _
    simp only [exCfgSym] at hb ⊢
    interval_cases b <;> simp
  · intro a b cc _ _ _
    simp only [exCfgSym]

/-- every radius-kernel FilterConv with symmetric padding on all faces preserves the volume -/
theorem filterConv_radius_volume {α : Type} [Field α] [LinearOrder α] [IsStrictOrderedRing α]
    (sqrt : α → α) (hsq : sqrt 0 = 0) (trunc : α → Int) (tiny : α) (es : α × α × α) (radius : α) (hr : 0 < radius)
    (rel : Bool) (c : Cfg α)
    (h : setFilterRadius sqrt trunc tiny 1 c.dom es radius rel = .ok (c.kx, c.ky, c.kz, c.w))
    (hx : 1 ≤ c.dom.nelx) (hy : 1 ≤ c.dom.nely) (hs : c.allSym) (x : Nat → α) :
    sumRange (c.nx * c.ny * c.nz) (c.resp x) = sumRange (c.nx * c.ny * c.nz) x :=
  filterConv_radius_volume_preserved sqrt hsq trunc tiny es radius hr rel c h hx hy hs x

/-! ## DensityFilter is the cone-weighted average -/

/-- `DensityFilter` output `y_e = Σ_j max(0, r − d_ej) x_j / Σ_j max(0, r − d_ej)` with the sums over ALL elements `j` of
    the domain (`hval e j = max 0 (r − sqrt(|Δ|²))`, `Δ` the index difference of the two elements): the window
    `|Δ| ≤ int(r)` that `_calculate_h` enumerates contains the support of the cone.
    `sqrt` enters through its contract (`hsq0`, `hsq`), `int(r)` through `hd`. 2-D and 3-D. -/
theorem densityFilter_is_cone_average {α : Type} [Field α] [LinearOrder α] [IsStrictOrderedRing α]
    (sqrt : α → α) (hsq0 : ∀ a, 0 ≤ a → 0 ≤ sqrt a) (hsq : ∀ a, 0 ≤ a → sqrt a * sqrt a = a)
    (f : DF α) (hx : 1 ≤ f.dom.nelx) (hy : 1 ≤ f.dom.nely) (hnp : f.nonpadding = none)
    (hd : (f.delem : α) ≤ f.radius ∧ f.radius < (f.delem : α) + 1) (x : Nat → α) (e : Nat) (he : e < f.nel) :
    DF.resp sqrt f x e =
      sumRange f.nel (fun j => DF.hval sqrt f e j * x j) / sumRange f.nel (fun j => DF.hval sqrt f e j) :=
  densityFilter_is_cone_average_lemma sqrt hsq0 hsq f hx hy hnp hd x e he

/-- outside the enumerated window the cone vanishes -/
theorem densityFilter_window_contains_support {α : Type} [Field α] [LinearOrder α] [IsStrictOrderedRing α]
    (sqrt : α → α) (hsq0 : ∀ a, 0 ≤ a → 0 ≤ sqrt a) (hsq : ∀ a, 0 ≤ a → sqrt a * sqrt a = a)
    (f : DF α) (hx : 1 ≤ f.dom.nelx) (hy : 1 ≤ f.dom.nely) (hd : f.radius < (f.delem : α) + 1)
    {e j : Nat} (he : e < f.nel) (hj : j < f.nel) (h : ¬ f.inWindow e j) : DF.hval sqrt f e j = 0 :=
  DF.hval_eq_zero_of_not_inWindow sqrt hsq0 hsq f hx hy hd he hj h

-- non-vacuity of the `sqrt` contract and of `hd`: the real square root; radius 5/2 with `int(5/2) = 2`
example : (∀ a : ℝ, 0 ≤ a → 0 ≤ Real.sqrt a) ∧ (∀ a : ℝ, 0 ≤ a → Real.sqrt a * Real.sqrt a = a) :=
  ⟨fun a _ => Real.sqrt_nonneg a, fun _ h => Real.mul_self_sqrt h⟩
example : let f : DF ℝ := ⟨⟨4, 3, 0⟩, 5 / 2, 2, none⟩
    1 ≤ f.dom.nelx ∧ 1 ≤ f.dom.nely ∧ f.nonpadding = none ∧ ((f.delem : ℝ) ≤ f.radius ∧ f.radius < (f.delem : ℝ) + 1)
      ∧ 0 < f.radius ∧ f.nel = 12 := by
  refine ⟨by decide, by decide, rfl, ⟨?_, ?_⟩, ?_, by decide⟩ <;> norm_num

/-- the row sums (the normalisation `s_e`) are positive, so the division is well defined -/
theorem densityFilter_Hs_pos {α : Type} [Field α] [LinearOrder α] [IsStrictOrderedRing α]
    (sqrt : α → α) (hsq : ∀ a, 0 ≤ a → sqrt a * sqrt a = a)
    (f : DF α) (hx : 1 ≤ f.dom.nelx) (hy : 1 ≤ f.dom.nely) (hr : 0 < f.radius) (e : Nat) (he : e < f.nel) :
    0 < DF.Hs sqrt f e :=
  DF.Hs_pos sqrt hsq f hx hy hr he

/-- DensityFilter maps a constant field to the same constant -/
theorem densityFilter_const {α : Type} [Field α] [LinearOrder α] [IsStrictOrderedRing α]
    (sqrt : α → α) (hsq : ∀ a, 0 ≤ a → sqrt a * sqrt a = a)
    (f : DF α) (hx : 1 ≤ f.dom.nelx) (hy : 1 ≤ f.dom.nely) (hnp : f.nonpadding = none) (hr : 0 < f.radius)
    (v : α) (e : Nat) (he : e < f.nel) : DF.resp sqrt f (fun _ => v) e = v :=
  densityFilter_const_lemma sqrt hsq f hx hy hnp hr v e he

/-- DensityFilter keeps every output within `[min x, max x]` -/
theorem densityFilter_range {α : Type} [Field α] [LinearOrder α] [IsStrictOrderedRing α]
    (sqrt : α → α) (hsq : ∀ a, 0 ≤ a → sqrt a * sqrt a = a)
    (f : DF α) (hx : 1 ≤ f.dom.nelx) (hy : 1 ≤ f.dom.nely) (hnp : f.nonpadding = none) (hr : 0 < f.radius)
    (x : Nat → α) (lo hi : α) (hlo : ∀ j, j < f.nel → lo ≤ x j) (hhi : ∀ j, j < f.nel → x j ≤ hi)
    (e : Nat) (he : e < f.nel) : lo ≤ DF.resp sqrt f x e ∧ DF.resp sqrt f x e ≤ hi :=
  densityFilter_range_lemma sqrt hsq f hx hy hnp hr x lo hi hlo hhi e he

/-! ## adjoint theorems (used by property C01) -/

/-- `FilterConv._sensitivity` (FULL correlation with the kernel → zero the override boxes → scatter-add through
    `el3d_pad`, as coded) is the exact adjoint of the linear part of `_response`:
    `⟨w, F x − F 0⟩ = ⟨Fᵀ w, x⟩` for ALL kernels, domain sizes (2-D/3-D), pad widths, combinations of the six boundary modes
    (also the non-`axisClean` ones and 3-D kernels on 2-D domains) and value overrides; vectors of any length `N ≥ nel`. -/
theorem filterConv_adjoint {α : Type} [CommRing α] (c : Cfg α) (hk : c.oddKernel)
    (hx : 1 ≤ c.dom.nelx) (hy : 1 ≤ c.dom.nely) (N : Nat) (hN : c.nx * c.ny * c.nz ≤ N) (x w : Nat → α) :
    dot N w (fun e => c.resp x e - c.resp (fun _ => 0) e) = dot N (c.sens w) x :=
  filterConv_adjoint_lemma c hk hx hy N hN x w

-- non-vacuity (the theorem has only size hypotheses): the 3-D example configuration, vectors of length 8 or more
example : exCfg3d.oddKernel ∧ 1 ≤ exCfg3d.dom.nelx ∧ 1 ≤ exCfg3d.dom.nely ∧ exCfg3d.nx * exCfg3d.ny * exCfg3d.nz ≤ 8 :=
  ⟨by decide, by decide, by decide, by decide⟩

/-- the windowed cone matrix assembled by `_calculate_h` is symmetric (`Hfull e j` = entry `(e,j)` of `H`,
    zero outside the window); no assumption on `sqrt` -/
theorem H_symm {α : Type} [Field α] [Max α] (sqrt : α → α) (f : DF α) (hx : 1 ≤ f.dom.nelx) (hy : 1 ≤ f.dom.nely)
    {e j : Nat} (he : e < f.nel) (hj : j < f.nel) : DF.Hfull sqrt f e j = DF.Hfull sqrt f j e :=
  DF.H_symm sqrt f hx hy he hj

/-- the row-major window enumeration of `_calculate_h` is multiplication by that matrix -/
theorem Hmul_is_matrix_product {α : Type} [Field α] [Max α] (sqrt : α → α) (f : DF α) (hx : 1 ≤ f.dom.nelx)
    (hy : 1 ≤ f.dom.nely) (v : Nat → α) {e : Nat} (he : e < f.nel) :
    DF.Hmul sqrt f v e = sumRange f.nel (fun j => DF.Hfull sqrt f e j * v j) :=
  DF.Hmul_eq_full sqrt f hx hy v he

/-- `Filter._sensitivity` (`H (w / s)`, as coded: no transpose) is the exact adjoint of `Filter._response` (`(H x) / s`)
    for `DensityFilter`, because `H` is symmetric; any `nonpadding`, any `sqrt`, 2-D and 3-D. -/
theorem densityFilter_adjoint {α : Type} [Field α] [Max α] (sqrt : α → α) (f : DF α)
    (hx : 1 ≤ f.dom.nelx) (hy : 1 ≤ f.dom.nely) (x w : Nat → α) :
    dot f.nel w (DF.resp sqrt f x) = dot f.nel (DF.sens sqrt f w) x :=
  densityFilter_adjoint_lemma sqrt f hx hy x w

end PymotoVerif.C09
