/-
C10 — MMA iterates respect bounds and move limits and converge on convex problems.
Property theorems ONLY (helper lemmas live in `Lemmas/MMA.lean`, `Lemmas/DesignVec.lean`).

Model: `Core/MMA.lean` (transcription of `pymoto/common/mma.py`: bound/move expansion, `mmasub`, `subsolv`, `residual`,
the outer loop with the scalar/array write-back) and `Core/DesignVec.lean` (`_concatenate_to_array`, `_split_from_array`).
`sqrt` and `np.linalg.solve` are parameters; the interior invariant holds for EVERY linear solver (no contract needed).
Scalars: any linearly ordered field, exact arithmetic; the constants `1.01 1.001 0.001 1e-5 1e-10 0.9 0.5` are the decimal
literals of the code (`OfScientific`).

Proved: concatenate/split round trip; bound expansion; write-back; the approximation reproduces value and gradient (both
versions); the asymptotes/bounds enclosure and move inequalities; every Newton iterate of `subsolv` (hence the returned
point) is strictly interior with positive multipliers and slacks; hence bounds and move limit of the new design; the exit
condition of `subsolv` (partial: Newton cap not hit), also block by block in terms of the requested accuracy
(`subsolv_exit_kkt_blocks`: stationarity and constraint rows ≤ 9·epsimin, complementarity products in (0, 19·epsimin]).
NOT proved: convergence of the MMA iterates to the optimum on convex problems and feasibility at the end — this is an
asymptotic statement that is not a theorem for MMA without the GCMMA safeguards; it is observed by the harness only.
`m = 0` (no constraint) is outside the property.
-/
import PymotoVerif.Lemmas.MMA

namespace PymotoVerif.C10
open PymotoVerif PymotoVerif.DV PymotoVerif.MMA

/-! ## design vector plumbing -/

/-- **`_split_from_array(_concatenate_to_array(states))` gives the states back** (and the assertion holds) -/
theorem concat_split_roundtrip {β : Type} (L : List (List β)) :
    concatenate (L.map some) = .ok (concat L, cumlens L) ∧ split (concat L) (cumlens L) = .ok L := by
  refine ⟨?_, split_concat L⟩
  unfold concatenate
  have h1 : (L.map some).any Option.isNone = false := by simp
  have h2 : (L.map some).map (fun o => o.getD []) = L := by simp
  simp only [h1, h2]; rfl

/-- a `None` state is rejected -/
theorem concat_none_raises {β : Type} (states : List (Option (List β))) (h : none ∈ states) :
    concatenate states = .error "ValueError" := by
  unfold concatenate
  have : states.any Option.isNone = true := List.any_eq_true.mpr ⟨none, h, rfl⟩
  simp [this]

/-- **sensitivity collection of one response**: the collected gradient is the concatenation, signal by signal, of the
    sensitivity the back-propagation left in the signal, and of ZEROS (as many as the signal has entries) for a signal
    without sensitivity (`None`: the response is not connected to it).  The collection of response `i` is a function of
    what response `i` left behind only (`runStep` applies `collectSens` to `sens i`), so nothing of another response
    can leak into it. -/
theorem sens_collect_spec {β : Type} [OfNat β 0] (st : St β) (sts : List (St β)) (l : List β)
    (ss : List (Option (List β))) :
    collectSens (st :: sts) (none :: ss) = List.replicate st.flat.length 0 ++ collectSens sts ss ∧
    collectSens (st :: sts) (some l :: ss) = l ++ collectSens sts ss ∧
    collectSens ([] : List (St β)) ss = [] := by
  refine ⟨?_, rfl, by cases ss <;> rfl⟩
  show st.flat.map (fun _ => (0 : β)) ++ collectSens sts ss = _
  rw [List.map_const']

/-- the collected gradient has one entry per design variable when every sensitivity present has the size of its signal -/
theorem sens_collect_length {β : Type} [OfNat β 0] (sts : List (St β)) (ss : List (Option (List β)))
    (hlen : ss.length = sts.length)
    (hsz : ∀ (k : Nat) (l : List β), ss[k]? = some (some l) → ∃ st : St β, sts[k]? = some st ∧ l.length = st.flat.length) :
    (collectSens sts ss).length = (concat (sts.map St.flat)).length := by
  induction sts generalizing ss with
  | nil => cases ss <;> simp [collectSens, concat]
  | cons st sts ih =>
    cases ss with
    | nil => simp at hlen
    | cons o ss =>
      have hlen' : ss.length = sts.length := by simpa using hlen
      have hsz' : ∀ (k : Nat) (l : List β), ss[k]? = some (some l) → ∃ st : St β, sts[k]? = some st ∧ l.length = st.flat.length :=
        fun k l h => by simpa using hsz (k+1) l (by simpa using h)
      have := ih ss hlen' hsz'
      cases o with
      | none => simp only [collectSens, concat, List.map_cons, List.flatten_cons, List.length_append, List.length_map] at this ⊢; omega
      | some l =>
        obtain ⟨st', h1, h2⟩ := hsz 0 l (by simp)
        have : st' = st := by simpa using h1.symm
        subst this
        simp only [collectSens, concat, List.map_cons, List.flatten_cons, List.length_append] at *; omega

example : collectSens [St.scalar (5:ℚ), St.arr [1, 2]] [none, some [7, 8]] = [0, 7, 8] := by decide

section Field
variable {α : Type} [Field α] [LinearOrder α] [IsStrictOrderedRing α]

/-- **bound expansion** (`xmin`, `xmax`; `expandMove` is literally the same function): a scalar applies to every variable;
    a list with one value per signal gives variable `j` of signal `i` (i.e. `cumlens[i] ≤ j < cumlens[i+1]`) the value `i`;
    a list with one value per variable is used as it is; any other length raises `RuntimeError`.
    (`cumulative` non-decreasing, as `cumlens` is.) -/
theorem bounds_expand_spec (n nsig : Nat) (cumulative : Nat → Nat)
    (hmono : ∀ a b, a ≤ b → cumulative a ≤ cumulative b) :
    (∀ v : α, ∃ f, expandBnd n nsig cumulative (.scalar v) = .ok f ∧ ∀ j, f j = v) ∧
    (∀ l : List α, l.length = nsig → ∃ f, expandBnd n nsig cumulative (.vec l) = .ok f ∧
        ∀ i j, i < nsig → cumulative i ≤ j → j < cumulative (i+1) → f j = ofList l i) ∧
    (∀ l : List α, l.length ≠ nsig → l.length = n → expandBnd n nsig cumulative (.vec l) = .ok (ofList l)) ∧
    (∀ l : List α, l.length ≠ nsig → l.length ≠ n → expandBnd n nsig cumulative (.vec l) = .error "RuntimeError") ∧
    (∀ b : Bnd α, expandMove n nsig cumulative b = expandBnd n nsig cumulative b) := by
  refine ⟨fun v => ⟨_, rfl, fun _ => rfl⟩, ?_, ?_, ?_, ?_⟩
  · intro l hl
    refine ⟨_, by unfold expandBnd; dsimp only; rw [if_pos hl], ?_⟩
    intro i j hi h1 h2
    exact perSignal_spec cumulative (ofList l) hmono nsig i j hi h1 h2
  · intro l h1 h2; unfold expandBnd; dsimp only; rw [if_neg h1, if_neg (by simpa using h2)]
  · intro l h1 h2; unfold expandBnd; dsimp only; rw [if_neg h1, if_pos h2]
  · intro b; cases b <;> rfl

example : ∃ f, expandBnd (α := ℚ) 3 2 (fun i => (cumlens [[(0:ℚ), 0], [0]]).getD i 0) (.vec [1/2, 3/4]) = .ok f ∧
    f 0 = 1/2 ∧ f 1 = 1/2 ∧ f 2 = 3/4 := by
  refine ⟨_, rfl, ?_, ?_, ?_⟩ <;> simp [perSignal, cumlens, cum, ofList]

/-- **write-back to the right signals**: the states written by `MMA.response` for a design `v` of the right total length
    are, signal by signal, the slices `v[cumlens[i]:cumlens[i+1]]` (so concatenating them gives `v` back), a bare scalar
    exactly for the signals with one entry, an array slice otherwise -/
theorem writeback_right_signal {β : Type} [OfNat β 0] (L : List (List β)) (v : List β) (h : v.length = (concat L).length) :
    (writeBackMMA v (cumlens L) L.length).map St.flat = writeBack v (cumlens L) L.length ∧
    concat ((writeBackMMA v (cumlens L) L.length).map St.flat) = v ∧
    ∀ i, i < L.length → ∃ st, (writeBackMMA v (cumlens L) L.length)[i]? = some st ∧
      ((L.getD i []).length = 1 → ∃ x, st = .scalar x) ∧ ((L.getD i []).length ≠ 1 → ∃ l, st = .arr l) := by
  refine ⟨writeBackMMA_flat L v h, ?_, fun i hi => writeBackMMA_kind L v i hi⟩
  rw [writeBackMMA_flat L v h]; exact concat_writeBack L v h

example : (writeBackMMA [10, 20, 30, 40] (cumlens [[1, 2], [3], [4]]) 3).map St.flat = [[10, 20], [30], [40]] := by decide

/-! ## the convex approximation -/

/-- **value**: with `low = xval - shift`, `upp = xval + shift` and `b` as coded (`rhs`), the separable approximation of every
    response `i` (objective and constraints, whatever `P Q` are) takes the value `g i` at the current design -/
theorem mma_approx_value (n : Nat) (P Q : Nat → Nat → α) (shift xval g : Nat → α) (i : Nat) :
    approx n P Q (fun j => xval j - shift j) (fun j => xval j + shift j) (rhs n P Q shift g) i xval = g i :=
  approx_eq n P Q shift xval g i

/-- **gradient**, both versions (`Svanberg1987`: `P = dx2·dg⁺`, `Q = dx2·dg⁻`; `Svanberg2007`:
    `P = dx2·(1.001 dg⁺ + 0.001 dg⁻ + 1e-5/dx)`, `Q = dx2·(0.001 dg⁺ + 1.001 dg⁻ + 1e-5/dx)`): the partial derivative of the
    approximation of response `i` with respect to variable `j` at the current design is `dg i j` -/
theorem mma_approx_gradient (v : Version) (shift dx xval : Nat → α) (dg : Nat → Nat → α) (i j : Nat)
    (hs : shift j ≠ 0) :
    approxGrad (coefP v shift dx dg) (coefQ v shift dx dg) (fun j => xval j - shift j) (fun j => xval j + shift j)
      i j xval = dg i j :=
  approxGrad_eq v shift dx xval dg i j hs

example : approxGrad (coefP .v2007 (fun _ => (1/2:ℚ)) (fun _ => 1) (fun _ _ => -3))
    (coefQ .v2007 (fun _ => (1/2:ℚ)) (fun _ => 1) (fun _ _ => -3)) (fun _ => 1/4 - 1/2) (fun _ => 1/4 + 1/2) 0 0
    (fun _ => 1/4) = -3 :=
  mma_approx_gradient .v2007 _ _ (fun _ => 1/4) _ 0 0 (by norm_num)

/-! ## asymptotes and bounds of the sub-problem -/

/-- **enclosure and move inequalities**: for `xmin ≤ xval ≤ xmax`, `dx > 0`, `0 < albefa < 1`, `move > 0` and a positive
    offset: `low < alfa ≤ xval ≤ beta < upp`, `xmin ≤ alfa`, `beta ≤ xmax`, `xval - alfa ≤ move·dx`, `beta - xval ≤ move·dx` -/
theorem mma_asymptotes_enclose (albefa : α) (offset dx move xmin xmax xval : Nat → α) (j : Nat)
    (h1 : xmin j ≤ xval j) (h2 : xval j ≤ xmax j) (hdx : 0 < dx j) (ha0 : 0 < albefa) (ha1 : albefa < 1)
    (hm : 0 < move j) (ho : 0 < offset j) :
    let A := asymptotes albefa offset dx move xmin xmax xval
    A.low j < A.alfa j ∧ A.alfa j ≤ xval j ∧ xval j ≤ A.beta j ∧ A.beta j < A.upp j ∧
    xmin j ≤ A.alfa j ∧ A.beta j ≤ xmax j ∧
    xval j - A.alfa j ≤ move j * dx j ∧ A.beta j - xval j ≤ move j * dx j :=
  asymptotes_enclose albefa offset dx move xmin xmax xval j h1 h2 hdx ha0 ha1 hm ho

/-- the offset is positive in every iteration: `asyinit > 0` before the asymptote update starts, and the result of the
    clip to `[1/asybound², asybound]` (as coded) afterwards, for `asybound > 0` -/
theorem mma_offset_pos (o : Opts α) (mem : Mem α) (xval : Nat → α) (j : Nat)
    (hinit : 0 < o.asyinit) (hb : 0 < o.asybound)
    (hprev : ∀ a, mem.offset = some a → 0 < ofArr a j) : 0 < newOffset o mem xval j :=
  newOffset_pos o mem xval j hinit hb hprev

example : (0:ℚ) ≤ 1/4 ∧ (1/4:ℚ) ≤ 1 ∧ (0:ℚ) < 1 ∧ (0:ℚ) < 1/10 ∧ (1/10:ℚ) < 1 ∧ (0:ℚ) < 1/5 ∧ (0:ℚ) < 1/2 := by norm_num

/-! ## the sub-problem solver -/

/-- **interior invariant**: every Newton pass of `subsolv` — for every linear solver, every `sqrt`, every `epsi` — maps a
    point with `alfa < x < beta` and `y, z, λ, ξ, η, μ, ζ, s > 0` to such a point (step-length rule with the `1.01` factors,
    then halving) -/
theorem subsolv_interior_invariant (sqrt : α → α) (linsolve : Nat → (Nat → Nat → α) → (Nat → α) → Option (Nat → α))
    (pb : SubProb α) (epsi : α) (st st' : NState α) (h : Interior pb st.p)
    (hs : newtonStep sqrt linsolve pb epsi st = .ok st') : Interior pb st'.p :=
  newtonStep_interior sqrt linsolve pb epsi st st' h hs

/-- the starting point is interior when the box `[alfa, beta]` is wider than the two `1e-10` margins, hence so is
    **the point `subsolv` returns** (all inner and outer loops) -/
theorem subsolv_returns_interior (sqrt : α → α) (linsolve : Nat → (Nat → Nat → α) → (Nat → α) → Option (Nat → α))
    (pb : SubProb α) (x0 : Option (Nat → α)) (fuel : Nat) (out : SubOut α)
    (hbox : ∀ j, j < pb.n → pb.alfa j + 1e-10 ≤ pb.beta j - 1e-10)
    (hs : subsolv sqrt linsolve pb x0 fuel = .ok out) : Interior pb out.p :=
  subsolv_interior sqrt linsolve pb x0 fuel out hbox hs

/-- non-vacuity: the starting point of a concrete sub-problem over ℚ (`n = 2`, `m = 1`) is interior -/
example : Interior (α := ℚ) ⟨2, 1, 1/10, fun _ => -1, fun _ => 2, fun _ => 0, fun _ => 1, fun _ _ => 1, fun _ _ => 1, 1,
    fun _ => 0, fun _ => 1, fun _ => 1000, fun _ => 1⟩
    (initPt ⟨2, 1, 1/10, fun _ => -1, fun _ => 2, fun _ => 0, fun _ => 1, fun _ _ => 1, fun _ _ => 1, 1,
      fun _ => 0, fun _ => 1, fun _ => 1000, fun _ => 1⟩ (some (fun _ => 1/4))) :=
  initPt_interior _ _ (fun j _ => by norm_num)

/-- **every MMA iterate stays within the bounds**: the new design returned by the sub-problem solver for the bounds
    `alfa beta` computed by `mmasub` satisfies `xmin < xnew < xmax` for every variable -/
theorem mma_iterate_in_bounds (albefa : α) (offset dx move xmin xmax xval : Nat → α) (pb : SubProb α) (p : Pt α)
    (hp : Interior pb p) (j : Nat) (hj : j < pb.n)
    (hal : pb.alfa j = (asymptotes albefa offset dx move xmin xmax xval).alfa j)
    (hbe : pb.beta j = (asymptotes albefa offset dx move xmin xmax xval).beta j)
    (h1 : xmin j ≤ xval j) (h2 : xval j ≤ xmax j) (hdx : 0 < dx j) (ha0 : 0 < albefa) (ha1 : albefa < 1)
    (hm : 0 < move j) (ho : 0 < offset j) :
    xmin j < ofArr p.x j ∧ ofArr p.x j < xmax j := by
  obtain ⟨_, _, _, _, e5, e6, _, _⟩ := asymptotes_enclose albefa offset dx move xmin xmax xval j h1 h2 hdx ha0 ha1 hm ho
  have a := hp.xlo j hj
  have b := hp.xhi j hj
  rw [hal] at a; rw [hbe] at b
  exact ⟨lt_of_le_of_lt e5 a, lt_of_lt_of_le b e6⟩

/-- **move limit**: it moves by less than `move·dx` (`dx = xmax - xmin` in the code) -/
theorem mma_move_limit (albefa : α) (offset dx move xmin xmax xval : Nat → α) (pb : SubProb α) (p : Pt α)
    (hp : Interior pb p) (j : Nat) (hj : j < pb.n)
    (hal : pb.alfa j = (asymptotes albefa offset dx move xmin xmax xval).alfa j)
    (hbe : pb.beta j = (asymptotes albefa offset dx move xmin xmax xval).beta j)
    (h1 : xmin j ≤ xval j) (h2 : xval j ≤ xmax j) (hdx : 0 < dx j) (ha0 : 0 < albefa) (ha1 : albefa < 1)
    (hm : 0 < move j) (ho : 0 < offset j) :
    |ofArr p.x j - xval j| < move j * dx j := by
  obtain ⟨_, _, _, _, _, _, e7, e8⟩ := asymptotes_enclose albefa offset dx move xmin xmax xval j h1 h2 hdx ha0 ha1 hm ho
  have a := hp.xlo j hj
  have b := hp.xhi j hj
  rw [hal] at a; rw [hbe] at b
  rw [abs_lt]; constructor <;> linarith

/-- **exit condition of `subsolv` (partial)**.  Full claim of the property: "the returned sub-problem solution satisfies the
    sub-problem's optimality conditions to the requested accuracy".  Proved: if the outer loop ran at least once and the
    last inner Newton loop did not hit its cap of 400 passes, then every entry of the (perturbed) KKT residual of the
    returned point, for the last `epsi`, is at most `0.9·epsi` in absolute value, with `epsimin < epsi ≤ 10·epsimin`.
    Missing: that the caps are never hit (needs convergence of the damped Newton method), and the passage from the
    `epsi`-perturbed complementarity rows to exact complementarity. -/
theorem subsolv_exit_kkt_partial (sqrt : α → α) (linsolve : Nat → (Nat → Nat → α) → (Nat → α) → Option (Nat → α))
    (pb : SubProb α) (x0 : Option (Nat → α)) (fuel : Nat) (out : SubOut α)
    (hs : subsolv sqrt linsolve pb x0 fuel = .ok out) (hran : out.outer ≠ 0) (hcap : out.itttLast ≠ 400) :
    (∀ r ∈ residual pb out.epsiLast out.p, |r| ≤ 0.9 * out.epsiLast) ∧
    pb.epsimin < out.epsiLast ∧ out.epsiLast ≤ 10 * pb.epsimin := by
  unfold subsolv at hs
  rcases outerLoop_exit sqrt linsolve pb fuel 1 _ out (Or.inl rfl) hs with h | ⟨h1, h2, h3, h4⟩
  · exact absurd h hran
  · refine ⟨fun r hr => ?_, h2, by linarith⟩
    have := mem_le_maxAbsL _ r hr
    rw [← h3] at this
    exact le_trans this (h4.resolve_right hcap)

/-- an entry of a tabulated block is an entry of the concatenated residual vector -/
private theorem mem_tab {β : Type} (n : Nat) (f : Nat → β) (j : Nat) (hj : j < n) : f j ∈ tab n f := by
  unfold tab; exact List.mem_map.mpr ⟨j, List.mem_range.mpr hj, rfl⟩

/-- **exit condition of `subsolv`, block by block, in terms of the requested accuracy `epsimin`** (same hypotheses as
    `subsolv_exit_kkt_partial`, `epsimin ≥ 0`): at the returned point the stationarity rows (`rex`, `rey`, `rez`) and the
    constraint rows (`relam`) of the sub-problem's KKT system are at most `9·epsimin` in absolute value, and every
    complementarity product (`ξⱼ(xⱼ−αⱼ)`, `ηⱼ(βⱼ−xⱼ)`, `μᵢyᵢ`, `ζz`, `λᵢsᵢ`) is positive and at most `19·epsimin`: the passage
    from the `epsi`-perturbed rows to the unperturbed optimality conditions.  Still assumed: the Newton cap is not hit. -/
theorem subsolv_exit_kkt_blocks (sqrt : α → α) (linsolve : Nat → (Nat → Nat → α) → (Nat → α) → Option (Nat → α))
    (pb : SubProb α) (x0 : Option (Nat → α)) (fuel : Nat) (out : SubOut α)
    (hs : subsolv sqrt linsolve pb x0 fuel = .ok out) (hran : out.outer ≠ 0) (hcap : out.itttLast ≠ 400)
    (he : 0 ≤ pb.epsimin) :
    (∀ j, j < pb.n → |(residualBlocks pb out.epsiLast out.p).rex j| ≤ 9 * pb.epsimin) ∧
    (∀ i, i < pb.m → |(residualBlocks pb out.epsiLast out.p).rey i| ≤ 9 * pb.epsimin) ∧
    |(residualBlocks pb out.epsiLast out.p).rez| ≤ 9 * pb.epsimin ∧
    (∀ i, i < pb.m → |(residualBlocks pb out.epsiLast out.p).relam i| ≤ 9 * pb.epsimin) ∧
    (∀ j, j < pb.n → 0 < ofArr out.p.xsi j * (ofArr out.p.x j - pb.alfa j) ∧
        ofArr out.p.xsi j * (ofArr out.p.x j - pb.alfa j) ≤ 19 * pb.epsimin) ∧
    (∀ j, j < pb.n → 0 < ofArr out.p.eta j * (pb.beta j - ofArr out.p.x j) ∧
        ofArr out.p.eta j * (pb.beta j - ofArr out.p.x j) ≤ 19 * pb.epsimin) ∧
    (∀ i, i < pb.m → 0 < ofArr out.p.mu i * ofArr out.p.y i ∧ ofArr out.p.mu i * ofArr out.p.y i ≤ 19 * pb.epsimin) ∧
    (0 < out.p.zet * out.p.z ∧ out.p.zet * out.p.z ≤ 19 * pb.epsimin) ∧
    (∀ i, i < pb.m → 0 < ofArr out.p.lam i * ofArr out.p.s i ∧ ofArr out.p.lam i * ofArr out.p.s i ≤ 19 * pb.epsimin) := by
  obtain ⟨hall, hlo, hhi⟩ := subsolv_exit_kkt_partial sqrt linsolve pb x0 fuel out hs hran hcap
  have h9 : (0.9 : α) = 9 / 10 := by norm_num
  have hepos : 0 < out.epsiLast := lt_of_le_of_lt he hlo
  have hmem : ∀ r, r ∈ residual pb out.epsiLast out.p → |r| ≤ 9 / 10 * out.epsiLast := by
    intro r hr; have := hall r hr; rwa [h9] at this
  have small : ∀ r, r ∈ residual pb out.epsiLast out.p → |r| ≤ 9 * pb.epsimin := by
    intro r hr; have := hmem r hr; linarith
  have compl : ∀ q, q - out.epsiLast ∈ residual pb out.epsiLast out.p → 0 < q ∧ q ≤ 19 * pb.epsimin := by
    intro q hq
    have := abs_le.mp (hmem _ hq)
    constructor <;> linarith [this.1, this.2]
  refine ⟨fun j hj => small _ ?_, fun i hi => small _ ?_, small _ ?_, fun i hi => small _ ?_, fun j hj => compl _ ?_,
    fun j hj => compl _ ?_, fun i hi => compl _ ?_, compl _ ?_, fun i hi => compl _ ?_⟩
  all_goals (unfold residual; simp only [List.mem_append, List.mem_singleton])
  · exact Or.inl (Or.inl (Or.inl (Or.inl (Or.inl (Or.inl (Or.inl (Or.inl (mem_tab _ _ j hj))))))))
  · exact Or.inl (Or.inl (Or.inl (Or.inl (Or.inl (Or.inl (Or.inl (Or.inr (mem_tab _ _ i hi))))))))
  · exact Or.inl (Or.inl (Or.inl (Or.inl (Or.inl (Or.inl (Or.inr trivial))))))
  · exact Or.inl (Or.inl (Or.inl (Or.inl (Or.inl (Or.inr (mem_tab _ _ i hi))))))
  · exact Or.inl (Or.inl (Or.inl (Or.inl (Or.inr (mem_tab _ (residualBlocks pb out.epsiLast out.p).rexsi j hj)))))
  · exact Or.inl (Or.inl (Or.inl (Or.inr (mem_tab _ (residualBlocks pb out.epsiLast out.p).reeta j hj))))
  · exact Or.inl (Or.inl (Or.inr (mem_tab _ (residualBlocks pb out.epsiLast out.p).remu i hi)))
  · exact Or.inl (Or.inr rfl)
  · exact Or.inr (mem_tab _ (residualBlocks pb out.epsiLast out.p).res i hi)

/-- non-vacuity: a complete `subsolv` run over ℚ (`n = m = 1`, `epsimin = 1/2`, exact Gaussian elimination, `sqrt := id`)
    returns normally after one outer pass with 4 Newton passes (each of them an instance of `subsolv_interior_invariant`),
    so the hypotheses of `subsolv_exit_kkt_partial` and `subsolv_returns_interior` are satisfiable -/
example : (subsolv (fun a : ℚ => a) gaussSolve
    ⟨1, 1, 1/2, fun _ => -1, fun _ => 2, fun _ => 0, fun _ => 1, fun i _ => if i = 0 then 1 else 1/2,
      fun i _ => if i = 0 then 1/2 else 1, 1, fun _ => 0, fun _ => 1, fun _ => 10, fun _ => 1⟩
    (some (fun _ => 1/4)) 5).toOption.map (fun o => decide (o.outer ≠ 0 ∧ o.itttLast ≠ 400 ∧ o.newton = 4)) = some true := by
  decide +kernel

end Field
end PymotoVerif.C10
