/-
C11 — EigenSolve returns genuine, normalised, ordered eigenpairs.
Property theorems ONLY (helper lemmas live in `Lemmas/Eigen.lean`, `Lemmas/LinSys.lean`).

Model: `LA/Eigen.lean` — the pyMOTO-authored post-processing of the library's raw eigenpairs. Everything is stated under the
eigen-solver CONTRACT `IsEigenpairs A B W Q` ("the library returns pairs with `A qᵢ = λᵢ B qᵢ`"); that LAPACK/ARPACK
return genuine pairs closest to the shift is external (checked numerically by the harness oracle only).
All statements hold for every size `n`, every number of modes `m`, every field of scalars (ℚ, ℝ, ℚ(i), ℂ), standard
(`B = none`) and generalised problems, and every sorting function.
-/
import PymotoVerif.Lemmas.Eigen
import Mathlib.Algebra.Order.Field.Basic
import Mathlib.Algebra.Order.Field.Rat
import Mathlib.Tactic.Positivity
import Mathlib.Tactic.Linarith
import Mathlib.Tactic.NormNum

namespace PymotoVerif.C11
open PymotoVerif PymotoVerif.LinSys PymotoVerif.Eigen Matrix

variable {α : Type*} [Field α]

/-! ## the post-processing keeps eigenpairs -/

/-- scaling every eigenvector by a factor (non-zero or not) and permuting the pairs preserves the eigen-equation -/
theorem eig_scale_permute_keeps_pairs {n m : ℕ} (A : Matrix (Fin n) (Fin n) α) (B : Option (Matrix (Fin n) (Fin n) α))
    (W : Fin m → α) (Q : Matrix (Fin n) (Fin m) α) (h : IsEigenpairs A B W Q)
    (isort : Fin m → Fin m) (c : Fin m → α) :
    IsEigenpairs A B (fun i => W (isort i)) (fun r i => c i * Q r (isort i)) := by
  intro i
  have hq : (fun r => c i * Q r (isort i)) = c i • (fun r => Q r (isort i)) := by
    funext r; simp
  rw [hq, Matrix.mulVec_smul, applyB_smul, h (isort i), smul_comm]

/-- `EigenSolve._response` returns eigenpairs whenever the library does (any sorting function, any `sqrt`) -/
theorem eig_postprocess_keeps_pairs [DecidableEq α] {n m : ℕ} (sqrt : α → α) (nonneg : α → Bool)
    (A : Matrix (Fin n) (Fin n) α) (B : Option (Matrix (Fin n) (Fin n) α))
    (W : Fin m → α) (Q : Matrix (Fin n) (Fin m) α) (hlib : IsEigenpairs A B W Q) (isort : Fin m → Fin m)
    (W' : Fin m → α) (Q' : Matrix (Fin n) (Fin m) α)
    (h : postprocess sqrt nonneg B W Q isort = .ok (W', Q')) : IsEigenpairs A B W' Q' := by
  obtain ⟨hW, hQ⟩ := postprocess_ok h
  choose s hs using hQ
  have hQ' : Q' = fun r i => s i * Q r (isort i) := by
    funext r i; exact (hs i).2 r
  rw [hW, hQ']
  exact eig_scale_permute_keeps_pairs A B W Q hlib isort s

/-- non-vacuity: a genuine eigenpair system (generalised, with a non-trivial `B`) -/
example : IsEigenpairs (n := 2) (m := 2) (!![2, 0; 0, 6] : Matrix (Fin 2) (Fin 2) ℚ) (some !![2, 0; 0, 3])
    ![1, 2] !![1, 0; 0, 1] := by
  intro i
  fin_cases i <;> funext r <;> fin_cases r <;> simp [applyB, Matrix.mulVec, dotProduct, Fin.sum_univ_two] <;> norm_num

/-- `qᵢᵀ B qᵢ = 1` (bilinear form, as documented) under the contract `sqrt v * sqrt v = v` -/
theorem eig_normalised [DecidableEq α] {n m : ℕ} (sqrt : α → α) (hsqrt : ∀ v, sqrt v * sqrt v = v) (nonneg : α → Bool)
    (B : Option (Matrix (Fin n) (Fin n) α)) (W : Fin m → α) (Q : Matrix (Fin n) (Fin m) α) (isort : Fin m → Fin m)
    (W' : Fin m → α) (Q' : Matrix (Fin n) (Fin m) α)
    (h : postprocess sqrt nonneg B W Q isort = .ok (W', Q')) (i : Fin m) :
    (fun r => Q' r i) ⬝ᵥ applyB B (fun r => Q' r i) = 1 := by
  obtain ⟨_, hQ⟩ := postprocess_ok h
  obtain ⟨s, hs, hcol⟩ := hQ i
  obtain ⟨hne, hsv⟩ := scaleFactor_some hs
  set q := fun r => Q r (isort i) with hq
  have hq' : (fun r => Q' r i) = s • q := by
    funext r; simp [hcol r, hq]
  rw [hq', applyB_smul, dotProduct_smul, smul_dotProduct, smul_eq_mul, smul_eq_mul]
  set v := q ⬝ᵥ applyB B q with hv
  have hvv : v = sqrt v * sqrt v := (hsqrt v).symm
  have hsgn : ∀ b : Bool, (if b = true then (1 : α) else -1) * (if b = true then (1 : α) else -1) = 1 := by
    intro b; cases b <;> simp
  have hs2 : s * s = 1 / (sqrt v * sqrt v) := by
    rw [hsv, div_mul_div_comm, hsgn]
  calc s * (s * v) = (s * s) * v := by ring
    _ = 1 / (sqrt v * sqrt v) * (sqrt v * sqrt v) := by rw [hs2, ← hvv]
    _ = 1 := by field_simp

/-- non-vacuity of the `sqrt` contract on a field: over ℚ restricted to squares it is met by `|·|`-roots; here the
constant instance used by the normalisation of `q = (3, 4)`: `√25 = 5` -/
example : ∃ sqrt : ℚ → ℚ, sqrt 25 * sqrt 25 = 25 ∧
    scaleFactor (n := 2) sqrt (fun x => decide (0 ≤ x)) none ![3, 4] = some (1 / 5) := by
  refine ⟨fun _ => 5, by norm_num, ?_⟩
  simp [scaleFactor, applyB, average, dotProduct, Fin.sum_univ_two]
  norm_num

/-- the output order is the one given by the sorting function: values AND vectors are taken in the order `isort`;
with the `argsort` contract (values in that order are ascending) the returned eigenvalues are ascending -/
theorem eig_sorted [DecidableEq α] {n m : ℕ} (sqrt : α → α) (nonneg : α → Bool)
    (B : Option (Matrix (Fin n) (Fin n) α)) (W : Fin m → α) (Q : Matrix (Fin n) (Fin m) α) (isort : Fin m → Fin m)
    (W' : Fin m → α) (Q' : Matrix (Fin n) (Fin m) α)
    (h : postprocess sqrt nonneg B W Q isort = .ok (W', Q')) :
    (∀ i, W' i = W (isort i)) ∧ (∀ i, ∃ c, ∀ r, Q' r i = c * Q r (isort i)) ∧
      ∀ (le : α → α → Prop), (∀ i j, i ≤ j → le (W (isort i)) (W (isort j))) → ∀ i j, i ≤ j → le (W' i) (W' j) := by
  obtain ⟨hW, hQ⟩ := postprocess_ok h
  refine ⟨fun i => by rw [hW], fun i => ?_, fun le hle i j hij => ?_⟩
  · obtain ⟨s, _, hc⟩ := hQ i
    exact ⟨s, hc⟩
  · rw [hW]; exact hle i j hij

/-- real symmetric problems (ordered scalars): every returned vector has a non-negative mean entry -/
theorem eig_sign {β : Type*} [Field β] [LinearOrder β] [IsStrictOrderedRing β] {n m : ℕ} (sqrt : β → β)
    (B : Option (Matrix (Fin n) (Fin n) β)) (W : Fin m → β) (Q : Matrix (Fin n) (Fin m) β) (isort : Fin m → Fin m)
    (hpos : ∀ i, 0 ≤ sqrt ((fun r => Q r (isort i)) ⬝ᵥ applyB B (fun r => Q r (isort i))))
    (W' : Fin m → β) (Q' : Matrix (Fin n) (Fin m) β)
    (h : postprocess sqrt (fun x => decide (0 ≤ x)) B W Q isort = .ok (W', Q')) (i : Fin m) :
    0 ≤ average (fun r => Q' r i) := by
  obtain ⟨_, hQ⟩ := postprocess_ok h
  obtain ⟨s, hs, hcol⟩ := hQ i
  obtain ⟨hne, hsv⟩ := scaleFactor_some hs
  set q := fun r => Q r (isort i) with hq
  have hq' : (fun r => Q' r i) = s • q := by
    funext r; simp [hcol r, hq]
  rw [hq', average_smul]
  have hnp : 0 < sqrt (q ⬝ᵥ applyB B q) := lt_of_le_of_ne (hpos i) (Ne.symm hne)
  by_cases hn : 0 ≤ average q
  · have : s = 1 / sqrt (q ⬝ᵥ applyB B q) := by rw [hsv]; simp [hn]
    rw [this]
    exact mul_nonneg (by positivity) hn
  · have : s = -1 / sqrt (q ⬝ᵥ applyB B q) := by rw [hsv]; simp [hn]
    rw [this]
    have h1 : -1 / sqrt (q ⬝ᵥ applyB B q) < 0 := by
      apply div_neg_of_neg_of_pos <;> linarith
    exact le_of_lt (mul_pos_of_neg_of_neg h1 (not_le.mp hn))

/-- the dense path is complete: it calls `eigh` / `eig`, which return `n` pairs for an `n × n` pencil, and with a
sorting function that is a permutation EVERY library pair appears in the output (same value, proportional vector) -/
theorem eig_dense_complete [DecidableEq α] {n : ℕ} (sqrt : α → α) (nonneg : α → Bool) (hermitian : Bool)
    (B : Option (Matrix (Fin n) (Fin n) α)) (W : Fin n → α) (Q : Matrix (Fin n) (Fin n) α) (isort : Fin n → Fin n)
    (hperm : Function.Surjective isort) (W' : Fin n → α) (Q' : Matrix (Fin n) (Fin n) α)
    (h : postprocess sqrt nonneg B W Q isort = .ok (W', Q')) :
    (dispatch false hermitian = if hermitian then Lib.eigh else Lib.eig) ∧
      ∀ j, ∃ i c, W' i = W j ∧ ∀ r, Q' r i = c * Q r j := by
  obtain ⟨hW, hQ⟩ := postprocess_ok h
  refine ⟨by simp [dispatch], fun j => ?_⟩
  obtain ⟨i, hi⟩ := hperm j
  obtain ⟨s, _, hc⟩ := hQ i
  exact ⟨i, s, by rw [hW]; show W (isort i) = W j; rw [hi], fun r => by rw [hc r, hi]⟩

/-- the sparse path: shift-invert `eigsh` (Hermitian) / `eigs`; `k = nmodes` (default 6), `sigma` (default 0), and the
operator handed to ARPACK is the inverse of `A − σ B` (`B = I` when absent): an exact solver `S` for the model's
shifted matrix satisfies `(A − σ B) (OPinv v) = v`. -/
theorem eig_shift_matrix [DecidableEq α] {n : ℕ} (nmodes : Option ℕ) (sigma : Option α) (hermitian : Bool)
    (A : Matrix (Fin n) (Fin n) α) (B : Option (Matrix (Fin n) (Fin n) α))
    (S : Solver n α) (hS : S.Ok (arpackCall nmodes sigma A B).shifted) :
    (dispatch true hermitian = if hermitian then Lib.eigsh else Lib.eigs) ∧
      (arpackCall nmodes sigma A B).k = nmodes.getD 6 ∧ (arpackCall nmodes sigma A B).sigma = sigma.getD 0 ∧
      (arpackCall nmodes sigma A B).shifted = A - sigma.getD 0 • B.getD 1 ∧
      ∀ {k : ℕ} (V : Matrix (Fin n) (Fin k) α), (A - sigma.getD 0 • B.getD 1) * S.solve V = V := by
  have hsh : (arpackCall nmodes sigma A B).shifted = A - sigma.getD 0 • B.getD 1 := by
    unfold arpackCall
    by_cases h0 : sigma.getD 0 = 0
    · simp [h0]
    · simp [h0]
  refine ⟨by simp [dispatch], ?_, ?_, hsh, fun V => ?_⟩
  · unfold arpackCall; by_cases h0 : sigma.getD 0 = 0 <;> simp [h0]
  · unfold arpackCall; by_cases h0 : sigma.getD 0 = 0 <;> simp [h0]
  · rw [← hsh]; exact hS.solve_eq V

/-! ## histories on one module -/

/-- history independence of the dispatch (as repaired): on a module that has seen ANY earlier matrices (any state `st`), the
library routine of every response is the one determined by the CURRENT matrices (and the user's flag, if given) -/
theorem eig_history_dispatch (user : Option Bool) (st : HistState) (steps : List (Bool × Option Bool × Bool)) :
    (historyRun user st steps).map Prod.fst =
      steps.map (fun s => dispatch s.2.2 (isHermitian user s.1 s.2.1)) := by
  induction steps generalizing st with
  | nil => rfl
  | cons s rest ih =>
    obtain ⟨a, b, sp⟩ := s
    simp only [historyRun, List.map_cons, ih]
    congr 1

/-- when the detected Hermitian flag differs from the one of the previous response, the sparse path chooses a NEW
shift-invert solver (the cached `Ainv` was chosen for another class of matrix) -/
theorem eig_history_new_solver (st : HistState) (Aherm : Bool) (Bherm : Option Bool)
    (hchg : st.herm ≠ some (Aherm && Bherm.getD true)) :
    (historyStep none st Aherm Bherm true).2.2 = true := by
  simp [historyStep, Ne.symm hchg]

/-- non-vacuity: symmetric → non-symmetric → Hermitian on one sparse module: `eigsh`, `eigs`, `eigsh`, a new solver each time -/
example : historyRun none (HistState.init none) [(true, none, true), (false, none, true), (true, some true, true)] =
    [(Lib.eigsh, true), (Lib.eigs, true), (Lib.eigsh, true)] := by decide

/-! ## sensitivities (for C01) -/

/-
Full statement (not proved): over ℝ / ℂ, for a simple eigenvalue, `denseSens` is the transposed Jacobian of
`(A, B) ↦ (λ, Q)`. Proved below: the linearised-constraint adjoint identity for ONE mode of `_dense_sens` with complex
data (no `.real`): missing are (i) the implicit-function theorem that turns it into a derivative, (ii) the (linear) sum
over the modes with the skip rule and the `.real` rules for real inputs.
-/
/-- Lee's bordered adjoint system: for every tangent `(dA, dB, dq, dλ)` of the eigen-equation and the normalisation at
`(λ, q)`, `wq·dq + wλ dλ = ⟪g_A, dA⟫ + ⟪g_B, dB⟫` with `(g_A, g_B) = (−ν qᵀ, (λ ν + α/2 q) qᵀ)` of `_dense_sens`,
under the contract of `np.linalg.solve` for the bordered system (solvable for a simple eigenvalue). -/
theorem eig_dense_adjoint_partial {n : ℕ} (h2 : (2 : α) ≠ 0)
    (linsolve : Matrix (Fin n ⊕ Unit) (Fin n ⊕ Unit) α → (Fin n ⊕ Unit → α) → (Fin n ⊕ Unit → α))
    (A B : Matrix (Fin n) (Fin n) α) (lam : α) (q wq : Fin n → α) (wlam : α)
    (hsolve : leeMatrix A B lam q *ᵥ linsolve (leeMatrix A B lam q) (Sum.elim wq fun _ => wlam)
      = Sum.elim wq fun _ => wlam)
    (dA dB : Matrix (Fin n) (Fin n) α) (dq : Fin n → α) (dlam : α)
    (hlin : dA *ᵥ q + A *ᵥ dq - dlam • (B *ᵥ q) - lam • (dB *ᵥ q) - lam • (B *ᵥ dq) = 0)
    (hnorm : dq ⬝ᵥ (B *ᵥ q) + q ⬝ᵥ (dB *ᵥ q) + q ⬝ᵥ (B *ᵥ dq) = 0) :
    wq ⬝ᵥ dq + wlam * dlam =
      pair (denseSensMode linsolve A B lam q wq wlam).1 dA + pair (denseSensMode linsolve A B lam q wq wlam).2 dB := by
  set adj := linsolve (leeMatrix A B lam q) (Sum.elim wq fun _ => wlam) with hadj
  set nu : Fin n → α := fun r => adj (Sum.inl r) with hnu
  set al : α := adj (Sum.inr ()) with hal
  -- the two block rows of the bordered system
  have hadjS : adj = Sum.elim nu (fun _ => al) := by
    funext s; cases s with
    | inl r => rfl
    | inr u => cases u; rfl
  have hrows := hsolve
  rw [hadjS, leeMatrix, fromBlocks_mulVec] at hrows
  set Bsq : Fin n → α := ((2 : α)⁻¹ • (B + Bᵀ)) *ᵥ q with hBsq
  have hrow1 : wq = (A - lam • B)ᵀ *ᵥ nu - al • Bsq := by
    funext r
    have := congrFun hrows (Sum.inl r)
    simp only [Sum.elim_inl, Pi.add_apply, Function.comp_def] at this
    rw [← this]
    simp [Matrix.mulVec, dotProduct, sub_eq_add_neg, mul_comm]
  have e2 : wlam = -((B *ᵥ q) ⬝ᵥ nu) := by
    have := congrFun hrows (Sum.inr ())
    simp only [Sum.elim_inr, Pi.add_apply, Function.comp_def] at this
    rw [← this]
    simp [Matrix.mulVec, dotProduct]
  have e1 : wq ⬝ᵥ dq = nu ⬝ᵥ ((A - lam • B) *ᵥ dq) - al * (Bsq ⬝ᵥ dq) := by
    rw [hrow1, sub_dotProduct, smul_dotProduct, smul_eq_mul, Matrix.mulVec_transpose, ← Matrix.dotProduct_mulVec]
  have e3 : (A - lam • B) *ᵥ dq = -(dA *ᵥ q) + dlam • (B *ᵥ q) + lam • (dB *ᵥ q) := by
    rw [Matrix.sub_mulVec, Matrix.smul_mulVec]
    have := hlin
    rw [sub_eq_zero] at this
    funext r
    have hr := congrFun this r
    have hr0 := congrFun hlin r
    simp only [Pi.add_apply, Pi.sub_apply, Pi.smul_apply, smul_eq_mul, Pi.neg_apply, Pi.zero_apply] at hr0 ⊢
    linear_combination hr0
  have e4 : Bsq ⬝ᵥ dq = -((2 : α)⁻¹ * (q ⬝ᵥ (dB *ᵥ q))) := by
    rw [hBsq, Matrix.smul_mulVec, smul_dotProduct, Matrix.add_mulVec, add_dotProduct, smul_eq_mul]
    have t1 : (B *ᵥ q) ⬝ᵥ dq = dq ⬝ᵥ (B *ᵥ q) := dotProduct_comm _ _
    have t2 : (Bᵀ *ᵥ q) ⬝ᵥ dq = q ⬝ᵥ (B *ᵥ dq) := by
      rw [Matrix.mulVec_transpose, ← Matrix.dotProduct_mulVec]
    rw [t1, t2]
    have : dq ⬝ᵥ (B *ᵥ q) + q ⬝ᵥ (B *ᵥ dq) = -(q ⬝ᵥ (dB *ᵥ q)) := by linear_combination hnorm
    rw [this]; ring
  -- the two pairings
  have p1 : pair (denseSensMode linsolve A B lam q wq wlam).1 dA = -(nu ⬝ᵥ (dA *ᵥ q)) := by
    simp only [denseSensMode]
    rw [pair_vecMulVec, neg_dotProduct]
  have p2 : pair (denseSensMode linsolve A B lam q wq wlam).2 dB =
      lam * (nu ⬝ᵥ (dB *ᵥ q)) + al / 2 * (q ⬝ᵥ (dB *ᵥ q)) := by
    simp only [denseSensMode]
    rw [pair_vecMulVec, add_dotProduct, smul_dotProduct, smul_dotProduct, smul_eq_mul, smul_eq_mul]
  rw [p1, p2, e1, e3, e4, e2]
  simp only [dotProduct_add, dotProduct_neg, dotProduct_smul, smul_eq_mul]
  rw [dotProduct_comm (B *ᵥ q) nu]
  field_simp
  ring

/-
Full statement (not proved): as above. Proved: `_dense_sens` for ALL modes — the sum over the modes with the code's skip
rule (a mode whose eigenvector seed column and eigenvalue seed are both zero is skipped and contributes nothing), `None`
seeds read as zero, `B = I` when absent — for complex data. Missing: the implicit-function theorem and the `.real` rules.
-/
/-- Lee's adjoint for the whole module: for every family of per-mode tangents of the eigen-equations and normalisations,
`Σᵢ (dQ[:, i]·dqᵢ + dW[i] dλᵢ) = ⟪g_A, dA⟫ + ⟪g_B, dB⟫` with `(g_A, g_B) = _dense_sens(A, B, dW, dQ)`. -/
theorem eig_dense_adjoint_sum_partial [DecidableEq α] {n m : ℕ} (h2 : (2 : α) ≠ 0) (R : RealPart α)
    (linsolve : Matrix (Fin n ⊕ Unit) (Fin n ⊕ Unit) α → (Fin n ⊕ Unit → α) → (Fin n ⊕ Unit → α))
    (A : Matrix (Fin n) (Fin n) α) (B : Option (Matrix (Fin n) (Fin n) α))
    (W : Fin m → α) (Q : Matrix (Fin n) (Fin m) α)
    (dW : Option (Fin m → α)) (dQ : Option (Matrix (Fin n) (Fin m) α))
    (hsolve : ∀ i, ¬((∀ r, dQ.getD 0 r i = 0) ∧ dW.getD 0 i = 0) →
      leeMatrix A (B.getD 1) (W i) (fun r => Q r i) *ᵥ
          linsolve (leeMatrix A (B.getD 1) (W i) (fun r => Q r i)) (Sum.elim (fun r => dQ.getD 0 r i) fun _ => dW.getD 0 i)
        = Sum.elim (fun r => dQ.getD 0 r i) fun _ => dW.getD 0 i)
    (dA dB : Matrix (Fin n) (Fin n) α) (dq : Fin m → Fin n → α) (dlam : Fin m → α)
    (hlin : ∀ i, dA *ᵥ (fun r => Q r i) + A *ᵥ dq i - dlam i • (B.getD 1 *ᵥ fun r => Q r i)
      - W i • (dB *ᵥ fun r => Q r i) - W i • (B.getD 1 *ᵥ dq i) = 0)
    (hnorm : ∀ i, dq i ⬝ᵥ (B.getD 1 *ᵥ fun r => Q r i) + (fun r => Q r i) ⬝ᵥ (dB *ᵥ fun r => Q r i)
      + (fun r => Q r i) ⬝ᵥ (B.getD 1 *ᵥ dq i) = 0) :
    ∑ i, ((fun r => dQ.getD 0 r i) ⬝ᵥ dq i + dW.getD 0 i * dlam i) =
      pair (denseSens R true true linsolve A B W Q dW dQ).1 dA + pair (denseSens R true true linsolve A B W Q dW dQ).2 dB := by
  simp only [denseSens, if_true]
  rw [pair_sum_left, pair_sum_left, ← Finset.sum_add_distrib]
  refine Finset.sum_congr rfl fun i _ => ?_
  by_cases hs : (∀ r, dQ.getD 0 r i = 0) ∧ dW.getD 0 i = 0
  · have hz : (fun r => dQ.getD 0 r i) = 0 := funext hs.1
    simp [hs.1, hs.2, pair_zero_left]
  · have hskip : (decide (∀ r, dQ.getD 0 r i = 0) && decide (dW.getD 0 i = 0)) = false := by
      rw [Bool.and_eq_false_iff]
      by_cases h1 : ∀ r, dQ.getD 0 r i = 0
      · right; simpa using fun h => hs ⟨h1, h⟩
      · left; simpa using h1
    simp only [hskip, Bool.false_eq_true, if_false]
    exact eig_dense_adjoint_partial h2 linsolve A (B.getD 1) (W i) (fun r => Q r i) (fun r => dQ.getD 0 r i) (dW.getD 0 i)
      (hsolve i hs) dA dB (dq i) (dlam i) (hlin i) (hnorm i)

/-- non-vacuity: a tangent of the 1×1 problem `a q = λ b q`, `q b q = 1` at `a = 2, b = 1, λ = 2, q = 1` -/
example : ∃ (dA dB : Matrix (Fin 1) (Fin 1) ℚ) (dq : Fin 1 → ℚ) (dlam : ℚ),
    dA *ᵥ ![1] + !![2] *ᵥ dq - dlam • (!![1] *ᵥ ![1]) - (2 : ℚ) • (dB *ᵥ ![1]) - (2 : ℚ) • (!![1] *ᵥ dq) = 0 ∧
    dq ⬝ᵥ (!![1] *ᵥ ![1]) + ![1] ⬝ᵥ (dB *ᵥ ![1]) + ![1] ⬝ᵥ (!![1] *ᵥ dq) = 0 ∧ dlam ≠ 0 := by
  refine ⟨!![3], !![1], ![-1/2], 1, ?_, ?_, one_ne_zero⟩
  · funext i; fin_cases i; simp [Matrix.mulVec, dotProduct]; norm_num
  · simp [Matrix.mulVec, dotProduct]; norm_num

/-- sparse path, eigenvalue sensitivity (`_sparse_eigval_sens`): for a SYMMETRIC pencil (`Aᵀ = A`, `Bᵀ = B`, real or
complex symmetric) and every tangent of the eigen-equation, `w dλ = ⟪(w / qᵀBq) q qᵀ, dA⟫ − ⟪(λ w / qᵀBq) q qᵀ, dB⟫`.
(The hypothesis `Aᵀ = A` is essential: for a complex HERMITIAN matrix the left eigenvector is `conj q` and the code's
formula is not the derivative — see corpus/defects/c01_eigensolve_sparse_complex_hermitian.) -/
theorem eig_sparse_eigval_adjoint {n : ℕ} (A B : Matrix (Fin n) (Fin n) α) (hA : Aᵀ = A) (hB : Bᵀ = B)
    (lam : α) (q : Fin n → α) (hq : A *ᵥ q = lam • (B *ᵥ q)) (hqmq : q ⬝ᵥ (B *ᵥ q) ≠ 0) (w : α)
    (dA dB : Matrix (Fin n) (Fin n) α) (dq : Fin n → α) (dlam : α)
    (hlin : dA *ᵥ q + A *ᵥ dq - dlam • (B *ᵥ q) - lam • (dB *ᵥ q) - lam • (B *ᵥ dq) = 0) :
    w * dlam = pair (vecMulVec ((w / (q ⬝ᵥ (B *ᵥ q))) • q) q) dA
      + pair (vecMulVec (-((lam * w / (q ⬝ᵥ (B *ᵥ q))) • q)) q) dB := by
  have h0 := congrArg (fun v => q ⬝ᵥ v) hlin
  simp only [dotProduct_sub, dotProduct_add, dotProduct_smul, smul_eq_mul, dotProduct_zero] at h0
  have hsym : q ⬝ᵥ (A *ᵥ dq) = lam * (q ⬝ᵥ (B *ᵥ dq)) := by
    rw [Matrix.dotProduct_mulVec, ← Matrix.mulVec_transpose, hA, hq, smul_dotProduct, smul_eq_mul]
    congr 1
    rw [dotProduct_comm, Matrix.dotProduct_mulVec, ← Matrix.mulVec_transpose, hB, dotProduct_comm]
  rw [pair_vecMulVec, pair_vecMulVec, neg_dotProduct, smul_dotProduct, smul_dotProduct, smul_eq_mul, smul_eq_mul]
  rw [hsym] at h0
  field_simp
  linear_combination (-w) * h0

example : (!![2, 1; 1, 3] : Matrix (Fin 2) (Fin 2) ℚ)ᵀ = !![2, 1; 1, 3] := by
  ext i j; fin_cases i <;> fin_cases j <;> rfl

end PymotoVerif.C11
