/-
C11 — EigenSolve returns genuine, normalised, ordered eigenpairs.
Property theorems ONLY (helper lemmas live in `Lemmas/Eigen.lean`, `Lemmas/LinSys.lean`).

Model: `LA/Eigen.lean` — the pyMOTO-authored post-processing of the library's raw eigenpairs. Everything is stated under the
eigen-solver CONTRACT `IsEigenpairs A B W Q` ("the library returns pairs with `A qᵢ = λᵢ B qᵢ`"); that LAPACK/ARPACK
return genuine pairs closest to the shift is external (checked numerically by the harness oracle only).
All statements hold for every size `n`, every number of modes `m`, every field of scalars (ℚ, ℝ, ℚ(i), ℂ), standard
(`B = none`) and generalised problems, and every sorting function.
Sensitivities (C01 for EigenSolve): `_dense_sens`, `_sparse_eigval_sens`, `_sparse_eigvec_sens` — the linearised-constraint
adjoint identities (any field; whole module with the skip rules, `None` seeds and `.real` rules) and, over ℝ / ℂ, the
statement that the model's outputs ARE the derivative along every differentiable curve of eigenpairs (`HasDerivAt`).
The sparse formulas are proved for SYMMETRIC pencils (all perturbation directions); they are wrong otherwise (findings
eigensolve-sparse-complex-hermitian-sens and corpus/defects/pending/c01_eigensolve_sparse_nonsymmetric.py).
-/
import PymotoVerif.Lemmas.Eigen
import PymotoVerif.Lemmas.EigenSens
import PymotoVerif.Lemmas.EigenRank
import PymotoVerif.Lemmas.EigenDeriv
import Mathlib.Algebra.Order.Field.Basic
import Mathlib.Algebra.Order.Field.Rat
import Mathlib.Tactic.Positivity
import Mathlib.Tactic.Linarith
import Mathlib.Tactic.NormNum

namespace PymotoVerif.C11
open PymotoVerif PymotoVerif.LinSys PymotoVerif.Eigen Matrix Filter Topology

variable {α : Type*} [Field α]

/-! ## the post-processing keeps eigenpairs -/

/-- scaling every eigenvector by a factor (non-zero or not) and permuting the pairs preserves the eigen-equation -/
theorem eig_scale_permute_keeps_pairs {n m : ℕ} (A : Matrix (Fin n) (Fin n) α) (B : Option (Matrix (Fin n) (Fin n) α))
    (W : Fin m → α) (Q : Matrix (Fin n) (Fin m) α) (h : IsEigenpairs A B W Q)
    (isort : Fin m → Fin m) (c : Fin m → α) :
    IsEigenpairs A B (fun i => W (isort i)) (fun r i => c i * Q r (isort i)) := by
  intro i
  have hq : (fun r => c i * Q r (isort i)) = c i • (fun r => Q r (isort i)) := by
    funext r; simp
  rw [hq, Matrix.mulVec_smul, applyB_smul, h (isort i), smul_comm]

/-- `EigenSolve._response` returns eigenpairs whenever the library does (any sorting function, any `sqrt`) -/
theorem eig_postprocess_keeps_pairs [DecidableEq α] {n m : ℕ} (sqrt : α → α) (nonneg : α → Bool)
    (A : Matrix (Fin n) (Fin n) α) (B : Option (Matrix (Fin n) (Fin n) α))
    (W : Fin m → α) (Q : Matrix (Fin n) (Fin m) α) (hlib : IsEigenpairs A B W Q) (isort : Fin m → Fin m)
    (W' : Fin m → α) (Q' : Matrix (Fin n) (Fin m) α)
    (h : postprocess sqrt nonneg B W Q isort = .ok (W', Q')) : IsEigenpairs A B W' Q' := by
  obtain ⟨hW, hQ⟩ := postprocess_ok h
  choose s hs using hQ
  have hQ' : Q' = fun r i => s i * Q r (isort i) := by
    funext r i; exact (hs i).2 r
  rw [hW, hQ']
  exact eig_scale_permute_keeps_pairs A B W Q hlib isort s

/-- non-vacuity: a genuine eigenpair system (generalised, with a non-trivial `B`) -/
example : IsEigenpairs (n := 2) (m := 2) (!![2, 0; 0, 6] : Matrix (Fin 2) (Fin 2) ℚ) (some !![2, 0; 0, 3])
    ![1, 2] !![1, 0; 0, 1] := by
  intro i
  fin_cases i <;> funext r <;> fin_cases r <;> simp [applyB, Matrix.mulVec, dotProduct, Fin.sum_univ_two] <;> norm_num

/-- `qᵢᵀ B qᵢ = 1` (bilinear form, as documented) under the contract `sqrt v * sqrt v = v` -/
theorem eig_normalised [DecidableEq α] {n m : ℕ} (sqrt : α → α) (hsqrt : ∀ v, sqrt v * sqrt v = v) (nonneg : α → Bool)
    (B : Option (Matrix (Fin n) (Fin n) α)) (W : Fin m → α) (Q : Matrix (Fin n) (Fin m) α) (isort : Fin m → Fin m)
    (W' : Fin m → α) (Q' : Matrix (Fin n) (Fin m) α)
    (h : postprocess sqrt nonneg B W Q isort = .ok (W', Q')) (i : Fin m) :
    (fun r => Q' r i) ⬝ᵥ applyB B (fun r => Q' r i) = 1 := by
  obtain ⟨_, hQ⟩ := postprocess_ok h
  obtain ⟨s, hs, hcol⟩ := hQ i
  obtain ⟨hne, hsv⟩ := scaleFactor_some hs
  set q := fun r => Q r (isort i) with hq
  have hq' : (fun r => Q' r i) = s • q := by
    funext r; simp [hcol r, hq]
  rw [hq', applyB_smul, dotProduct_smul, smul_dotProduct, smul_eq_mul, smul_eq_mul]
  set v := q ⬝ᵥ applyB B q with hv
  have hvv : v = sqrt v * sqrt v := (hsqrt v).symm
  have hsgn : ∀ b : Bool, (if b = true then (1 : α) else -1) * (if b = true then (1 : α) else -1) = 1 := by
    intro b; cases b <;> simp
  have hs2 : s * s = 1 / (sqrt v * sqrt v) := by
    rw [hsv, div_mul_div_comm, hsgn]
  calc s * (s * v) = (s * s) * v := by ring
    _ = 1 / (sqrt v * sqrt v) * (sqrt v * sqrt v) := by rw [hs2, ← hvv]
    _ = 1 := by field_simp

/-- non-vacuity of the `sqrt` contract on a field: over ℚ restricted to squares it is met by `|·|`-roots; here the
constant instance used by the normalisation of `q = (3, 4)`: `√25 = 5` -/
example : ∃ sqrt : ℚ → ℚ, sqrt 25 * sqrt 25 = 25 ∧
    scaleFactor (n := 2) sqrt (fun x => decide (0 ≤ x)) none ![3, 4] = some (1 / 5) := by
  refine ⟨fun _ => 5, by norm_num, ?_⟩
  simp [scaleFactor, applyB, average, dotProduct, Fin.sum_univ_two]
  norm_num

/-- the output order is the one given by the sorting function: values AND vectors are taken in the order `isort`;
with the `argsort` contract (values in that order are ascending) the returned eigenvalues are ascending -/
theorem eig_sorted [DecidableEq α] {n m : ℕ} (sqrt : α → α) (nonneg : α → Bool)
    (B : Option (Matrix (Fin n) (Fin n) α)) (W : Fin m → α) (Q : Matrix (Fin n) (Fin m) α) (isort : Fin m → Fin m)
    (W' : Fin m → α) (Q' : Matrix (Fin n) (Fin m) α)
    (h : postprocess sqrt nonneg B W Q isort = .ok (W', Q')) :
    (∀ i, W' i = W (isort i)) ∧ (∀ i, ∃ c, ∀ r, Q' r i = c * Q r (isort i)) ∧
      ∀ (le : α → α → Prop), (∀ i j, i ≤ j → le (W (isort i)) (W (isort j))) → ∀ i j, i ≤ j → le (W' i) (W' j) := by
  obtain ⟨hW, hQ⟩ := postprocess_ok h
  refine ⟨fun i => by rw [hW], fun i => ?_, fun le hle i j hij => ?_⟩
  · obtain ⟨s, _, hc⟩ := hQ i
    exact ⟨s, hc⟩
  · rw [hW]; exact hle i j hij

/-- real symmetric problems (ordered scalars): every returned vector has a non-negative mean entry -/
theorem eig_sign {β : Type*} [Field β] [LinearOrder β] [IsStrictOrderedRing β] {n m : ℕ} (sqrt : β → β)
    (B : Option (Matrix (Fin n) (Fin n) β)) (W : Fin m → β) (Q : Matrix (Fin n) (Fin m) β) (isort : Fin m → Fin m)
    (hpos : ∀ i, 0 ≤ sqrt ((fun r => Q r (isort i)) ⬝ᵥ applyB B (fun r => Q r (isort i))))
    (W' : Fin m → β) (Q' : Matrix (Fin n) (Fin m) β)
    (h : postprocess sqrt (fun x => decide (0 ≤ x)) B W Q isort = .ok (W', Q')) (i : Fin m) :
    0 ≤ average (fun r => Q' r i) := by
  obtain ⟨_, hQ⟩ := postprocess_ok h
  obtain ⟨s, hs, hcol⟩ := hQ i
  obtain ⟨hne, hsv⟩ := scaleFactor_some hs
  set q := fun r => Q r (isort i) with hq
  have hq' : (fun r => Q' r i) = s • q := by
    funext r; simp [hcol r, hq]
  rw [hq', average_smul]
  have hnp : 0 < sqrt (q ⬝ᵥ applyB B q) := lt_of_le_of_ne (hpos i) (Ne.symm hne)
  by_cases hn : 0 ≤ average q
  · have : s = 1 / sqrt (q ⬝ᵥ applyB B q) := by rw [hsv]; simp [hn]
    rw [this]
    exact mul_nonneg (by positivity) hn
  · have : s = -1 / sqrt (q ⬝ᵥ applyB B q) := by rw [hsv]; simp [hn]
    rw [this]
    have h1 : -1 / sqrt (q ⬝ᵥ applyB B q) < 0 := by
      apply div_neg_of_neg_of_pos <;> linarith
    exact le_of_lt (mul_pos_of_neg_of_neg h1 (not_le.mp hn))

/-- the dense path is complete: it calls `eigh` / `eig`, which return `n` pairs for an `n × n` pencil, and with a
sorting function that is a permutation EVERY library pair appears in the output (same value, proportional vector) -/
theorem eig_dense_complete [DecidableEq α] {n : ℕ} (sqrt : α → α) (nonneg : α → Bool) (hermitian : Bool)
    (B : Option (Matrix (Fin n) (Fin n) α)) (W : Fin n → α) (Q : Matrix (Fin n) (Fin n) α) (isort : Fin n → Fin n)
    (hperm : Function.Surjective isort) (W' : Fin n → α) (Q' : Matrix (Fin n) (Fin n) α)
    (h : postprocess sqrt nonneg B W Q isort = .ok (W', Q')) :
    (dispatch false hermitian = if hermitian then Lib.eigh else Lib.eig) ∧
      ∀ j, ∃ i c, W' i = W j ∧ ∀ r, Q' r i = c * Q r j := by
  obtain ⟨hW, hQ⟩ := postprocess_ok h
  refine ⟨by simp [dispatch], fun j => ?_⟩
  obtain ⟨i, hi⟩ := hperm j
  obtain ⟨s, _, hc⟩ := hQ i
  exact ⟨i, s, by rw [hW]; show W (isort i) = W j; rw [hi], fun r => by rw [hc r, hi]⟩

/-- the sparse path: shift-invert `eigsh` (Hermitian) / `eigs`; `k = nmodes` (default 6), `sigma` (default 0), and the
operator handed to ARPACK is the inverse of `A − σ B` (`B = I` when absent): an exact solver `S` for the model's
shifted matrix satisfies `(A − σ B) (OPinv v) = v`. -/
theorem eig_shift_matrix [DecidableEq α] {n : ℕ} (nmodes : Option ℕ) (sigma : Option α) (hermitian : Bool)
    (A : Matrix (Fin n) (Fin n) α) (B : Option (Matrix (Fin n) (Fin n) α))
    (S : Solver n α) (hS : S.Ok (arpackCall nmodes sigma A B).shifted) :
    (dispatch true hermitian = if hermitian then Lib.eigsh else Lib.eigs) ∧
      (arpackCall nmodes sigma A B).k = nmodes.getD 6 ∧ (arpackCall nmodes sigma A B).sigma = sigma.getD 0 ∧
      (arpackCall nmodes sigma A B).shifted = A - sigma.getD 0 • B.getD 1 ∧
      ∀ {k : ℕ} (V : Matrix (Fin n) (Fin k) α), (A - sigma.getD 0 • B.getD 1) * S.solve V = V := by
  have hsh : (arpackCall nmodes sigma A B).shifted = A - sigma.getD 0 • B.getD 1 := by
    unfold arpackCall
    by_cases h0 : sigma.getD 0 = 0
    · simp [h0]
    · simp [h0]
  refine ⟨by simp [dispatch], ?_, ?_, hsh, fun V => ?_⟩
  · unfold arpackCall; by_cases h0 : sigma.getD 0 = 0 <;> simp [h0]
  · unfold arpackCall; by_cases h0 : sigma.getD 0 = 0 <;> simp [h0]
  · rw [← hsh]; exact hS.solve_eq V

/-! ## histories on one module -/

/-- history independence of the dispatch (as repaired): on a module that has seen ANY earlier matrices (any state `st`), the
library routine of every response is the one determined by the CURRENT matrices (and the user's flag, if given) -/
theorem eig_history_dispatch (user : Option Bool) (st : HistState) (steps : List (Bool × Option Bool × Bool)) :
    (historyRun user st steps).map Prod.fst =
      steps.map (fun s => dispatch s.2.2 (isHermitian user s.1 s.2.1)) := by
  induction steps generalizing st with
  | nil => rfl
  | cons s rest ih =>
    obtain ⟨a, b, sp⟩ := s
    simp only [historyRun, List.map_cons, ih]
    congr 1

/-- when the detected Hermitian flag differs from the one of the previous response, the sparse path chooses a NEW
shift-invert solver (the cached `Ainv` was chosen for another class of matrix) -/
theorem eig_history_new_solver (st : HistState) (Aherm : Bool) (Bherm : Option Bool)
    (hchg : st.herm ≠ some (Aherm && Bherm.getD true)) :
    (historyStep none st Aherm Bherm true).2.2 = true := by
  simp [historyStep, Ne.symm hchg]

/-- non-vacuity: symmetric → non-symmetric → Hermitian on one sparse module: `eigsh`, `eigs`, `eigsh`, a new solver each time -/
example : historyRun none (HistState.init none) [(true, none, true), (false, none, true), (true, some true, true)] =
    [(Lib.eigsh, true), (Lib.eigs, true), (Lib.eigsh, true)] := by decide

/-! ## sensitivities (for C01) -/

/-
The sensitivities are treated in two steps. (i) ALGEBRA (`…_linearised`, any field): for every tangent `(dA, dB, dλ, dq)` of
the eigen-equation and of the normalisation at `(λ, q)` the seeds pair with `(dλ, dq)` as the model's outputs pair with
`(dA, dB)`. (ii) CALCULUS (ℝ or ℂ, real curve parameter, entrywise `HasDerivAt`): along every differentiable curve of
matrices with a differentiable curve of normalised eigenpairs, the tangent satisfies the linearised equations, hence
`d/ds ⟨w, (λ, q)(s)⟩ = ⟪g_A, A'⟫ + ⟪g_B, B'⟫` — the statement of C01 for `EigenSolve`.
NOT proved (external analysis): that a simple eigenvalue HAS a differentiable curve of eigenpairs (implicit-function
theorem); it is a hypothesis of the `…_is_derivative` theorems. For a simple eigenvalue of a symmetric pencil the
tangent exists and is unique (`eig_tangent_exists_unique`), so the hypothesis fixes the derivative.
-/
/-- Lee's bordered adjoint system: for every tangent `(dA, dB, dq, dλ)` of the eigen-equation and the normalisation at
`(λ, q)`, `wq·dq + wλ dλ = ⟪g_A, dA⟫ + ⟪g_B, dB⟫` with `(g_A, g_B) = (−ν qᵀ, (λ ν + α/2 q) qᵀ)` of `_dense_sens`,
under the contract of `np.linalg.solve` for the bordered system (solvable for a simple eigenvalue). -/
theorem eig_dense_adjoint_linearised {n : ℕ} (h2 : (2 : α) ≠ 0)
    (linsolve : Matrix (Fin n ⊕ Unit) (Fin n ⊕ Unit) α → (Fin n ⊕ Unit → α) → (Fin n ⊕ Unit → α))
    (A B : Matrix (Fin n) (Fin n) α) (lam : α) (q wq : Fin n → α) (wlam : α)
    (hsolve : leeMatrix A B lam q *ᵥ linsolve (leeMatrix A B lam q) (Sum.elim wq fun _ => wlam)
      = Sum.elim wq fun _ => wlam)
    (dA dB : Matrix (Fin n) (Fin n) α) (dq : Fin n → α) (dlam : α)
    (hlin : dA *ᵥ q + A *ᵥ dq - dlam • (B *ᵥ q) - lam • (dB *ᵥ q) - lam • (B *ᵥ dq) = 0)
    (hnorm : dq ⬝ᵥ (B *ᵥ q) + q ⬝ᵥ (dB *ᵥ q) + q ⬝ᵥ (B *ᵥ dq) = 0) :
    wq ⬝ᵥ dq + wlam * dlam =
      pair (denseSensMode linsolve A B lam q wq wlam).1 dA + pair (denseSensMode linsolve A B lam q wq wlam).2 dB := by
  set adj := linsolve (leeMatrix A B lam q) (Sum.elim wq fun _ => wlam) with hadj
  set nu : Fin n → α := fun r => adj (Sum.inl r) with hnu
  set al : α := adj (Sum.inr ()) with hal
  -- the two block rows of the bordered system
  have hadjS : adj = Sum.elim nu (fun _ => al) := by
    funext s; cases s with
    | inl r => rfl
    | inr u => cases u; rfl
  have hrows := hsolve
  rw [hadjS, leeMatrix, fromBlocks_mulVec] at hrows
  set Bsq : Fin n → α := ((2 : α)⁻¹ • (B + Bᵀ)) *ᵥ q with hBsq
  have hrow1 : wq = (A - lam • B)ᵀ *ᵥ nu - al • Bsq := by
    funext r
    have := congrFun hrows (Sum.inl r)
    simp only [Sum.elim_inl, Pi.add_apply, Function.comp_def] at this
    rw [← this]
    simp [Matrix.mulVec, dotProduct, sub_eq_add_neg, mul_comm]
  have e2 : wlam = -((B *ᵥ q) ⬝ᵥ nu) := by
    have := congrFun hrows (Sum.inr ())
    simp only [Sum.elim_inr, Pi.add_apply, Function.comp_def] at this
    rw [← this]
    simp [Matrix.mulVec, dotProduct]
  have e1 : wq ⬝ᵥ dq = nu ⬝ᵥ ((A - lam • B) *ᵥ dq) - al * (Bsq ⬝ᵥ dq) := by
    rw [hrow1, sub_dotProduct, smul_dotProduct, smul_eq_mul, Matrix.mulVec_transpose, ← Matrix.dotProduct_mulVec]
  have e3 : (A - lam • B) *ᵥ dq = -(dA *ᵥ q) + dlam • (B *ᵥ q) + lam • (dB *ᵥ q) := by
    rw [Matrix.sub_mulVec, Matrix.smul_mulVec]
    have := hlin
    rw [sub_eq_zero] at this
    funext r
    have hr := congrFun this r
    have hr0 := congrFun hlin r
    simp only [Pi.add_apply, Pi.sub_apply, Pi.smul_apply, smul_eq_mul, Pi.neg_apply, Pi.zero_apply] at hr0 ⊢
    linear_combination hr0
  have e4 : Bsq ⬝ᵥ dq = -((2 : α)⁻¹ * (q ⬝ᵥ (dB *ᵥ q))) := by
    rw [hBsq, Matrix.smul_mulVec, smul_dotProduct, Matrix.add_mulVec, add_dotProduct, smul_eq_mul]
    have t1 : (B *ᵥ q) ⬝ᵥ dq = dq ⬝ᵥ (B *ᵥ q) := dotProduct_comm _ _
    have t2 : (Bᵀ *ᵥ q) ⬝ᵥ dq = q ⬝ᵥ (B *ᵥ dq) := by
      rw [Matrix.mulVec_transpose, ← Matrix.dotProduct_mulVec]
    rw [t1, t2]
    have : dq ⬝ᵥ (B *ᵥ q) + q ⬝ᵥ (B *ᵥ dq) = -(q ⬝ᵥ (dB *ᵥ q)) := by linear_combination hnorm
    rw [this]; ring
  -- the two pairings
  have p1 : pair (denseSensMode linsolve A B lam q wq wlam).1 dA = -(nu ⬝ᵥ (dA *ᵥ q)) := by
    simp only [denseSensMode]
    rw [pair_vecMulVec, neg_dotProduct]
  have p2 : pair (denseSensMode linsolve A B lam q wq wlam).2 dB =
      lam * (nu ⬝ᵥ (dB *ᵥ q)) + al / 2 * (q ⬝ᵥ (dB *ᵥ q)) := by
    simp only [denseSensMode]
    rw [pair_vecMulVec, add_dotProduct, smul_dotProduct, smul_dotProduct, smul_eq_mul, smul_eq_mul]
  rw [p1, p2, e1, e3, e4, e2]
  simp only [dotProduct_add, dotProduct_neg, dotProduct_smul, smul_eq_mul]
  rw [dotProduct_comm (B *ᵥ q) nu]
  field_simp
  ring

/- `_dense_sens` for ALL modes — the sum over the modes with the code's skip rule (a mode whose eigenvector seed column and
eigenvalue seed are both zero is skipped and contributes nothing), `None` seeds read as zero, `B = I` when absent — for
complex data (no `.real`); for real data see `eig_dense_sens_is_derivative`. -/
/-- Lee's adjoint for the whole module: for every family of per-mode tangents of the eigen-equations and normalisations,
`Σᵢ (dQ[:, i]·dqᵢ + dW[i] dλᵢ) = ⟪g_A, dA⟫ + ⟪g_B, dB⟫` with `(g_A, g_B) = _dense_sens(A, B, dW, dQ)`. -/
theorem eig_dense_adjoint_sum_linearised [DecidableEq α] {n m : ℕ} (h2 : (2 : α) ≠ 0) (R : RealPart α)
    (linsolve : Matrix (Fin n ⊕ Unit) (Fin n ⊕ Unit) α → (Fin n ⊕ Unit → α) → (Fin n ⊕ Unit → α))
    (A : Matrix (Fin n) (Fin n) α) (B : Option (Matrix (Fin n) (Fin n) α))
    (W : Fin m → α) (Q : Matrix (Fin n) (Fin m) α)
    (dW : Option (Fin m → α)) (dQ : Option (Matrix (Fin n) (Fin m) α))
    (hsolve : ∀ i, ¬((∀ r, dQ.getD 0 r i = 0) ∧ dW.getD 0 i = 0) →
      leeMatrix A (B.getD 1) (W i) (fun r => Q r i) *ᵥ
          linsolve (leeMatrix A (B.getD 1) (W i) (fun r => Q r i)) (Sum.elim (fun r => dQ.getD 0 r i) fun _ => dW.getD 0 i)
        = Sum.elim (fun r => dQ.getD 0 r i) fun _ => dW.getD 0 i)
    (dA dB : Matrix (Fin n) (Fin n) α) (dq : Fin m → Fin n → α) (dlam : Fin m → α)
    (hlin : ∀ i, dA *ᵥ (fun r => Q r i) + A *ᵥ dq i - dlam i • (B.getD 1 *ᵥ fun r => Q r i)
      - W i • (dB *ᵥ fun r => Q r i) - W i • (B.getD 1 *ᵥ dq i) = 0)
    (hnorm : ∀ i, dq i ⬝ᵥ (B.getD 1 *ᵥ fun r => Q r i) + (fun r => Q r i) ⬝ᵥ (dB *ᵥ fun r => Q r i)
      + (fun r => Q r i) ⬝ᵥ (B.getD 1 *ᵥ dq i) = 0) :
    ∑ i, ((fun r => dQ.getD 0 r i) ⬝ᵥ dq i + dW.getD 0 i * dlam i) =
      pair (denseSens R true true linsolve A B W Q dW dQ).1 dA + pair (denseSens R true true linsolve A B W Q dW dQ).2 dB := by
  simp only [denseSens, if_true]
  rw [pair_sum_left, pair_sum_left, ← Finset.sum_add_distrib]
  refine Finset.sum_congr rfl fun i _ => ?_
  by_cases hs : (∀ r, dQ.getD 0 r i = 0) ∧ dW.getD 0 i = 0
  · have hz : (fun r => dQ.getD 0 r i) = 0 := funext hs.1
    simp [hs.1, hs.2, pair_zero_left]
  · have hskip : (decide (∀ r, dQ.getD 0 r i = 0) && decide (dW.getD 0 i = 0)) = false := by
      rw [Bool.and_eq_false_iff]
      by_cases h1 : ∀ r, dQ.getD 0 r i = 0
      · right; simpa using fun h => hs ⟨h1, h⟩
      · left; simpa using h1
    simp only [hskip, Bool.false_eq_true, if_false]
    exact eig_dense_adjoint_linearised h2 linsolve A (B.getD 1) (W i) (fun r => Q r i) (fun r => dQ.getD 0 r i) (dW.getD 0 i)
      (hsolve i hs) dA dB (dq i) (dlam i) (hlin i) (hnorm i)

/-- `_dense_sens` with the `.real` rules for MIXED dtypes (`dA_i` is added as `np.real(dA_i)` unless `A` is complex, same for
`B`; then the admissible direction `dA` / `dB` is real): `Re Σᵢ (dQ[:, i]·dqᵢ + dW[i] dλᵢ) = Re (⟪g_A, dA⟫ + ⟪g_B, dB⟫)`. -/
theorem eig_dense_adjoint_sum_realpart [DecidableEq α] {n m : ℕ} (h2 : (2 : α) ≠ 0) (R : RealPart α)
    (Acomplex Bcomplex : Bool)
    (linsolve : Matrix (Fin n ⊕ Unit) (Fin n ⊕ Unit) α → (Fin n ⊕ Unit → α) → (Fin n ⊕ Unit → α))
    (A : Matrix (Fin n) (Fin n) α) (B : Option (Matrix (Fin n) (Fin n) α))
    (W : Fin m → α) (Q : Matrix (Fin n) (Fin m) α)
    (dW : Option (Fin m → α)) (dQ : Option (Matrix (Fin n) (Fin m) α))
    (hsolve : ∀ i, ¬((∀ r, dQ.getD 0 r i = 0) ∧ dW.getD 0 i = 0) →
      leeMatrix A (B.getD 1) (W i) (fun r => Q r i) *ᵥ
          linsolve (leeMatrix A (B.getD 1) (W i) (fun r => Q r i)) (Sum.elim (fun r => dQ.getD 0 r i) fun _ => dW.getD 0 i)
        = Sum.elim (fun r => dQ.getD 0 r i) fun _ => dW.getD 0 i)
    (dA dB : Matrix (Fin n) (Fin n) α)
    (hdA : Acomplex = false → ∀ i j, R.IsReal (dA i j)) (hdB : Bcomplex = false → ∀ i j, R.IsReal (dB i j))
    (dq : Fin m → Fin n → α) (dlam : Fin m → α)
    (hlin : ∀ i, dA *ᵥ (fun r => Q r i) + A *ᵥ dq i - dlam i • (B.getD 1 *ᵥ fun r => Q r i)
      - W i • (dB *ᵥ fun r => Q r i) - W i • (B.getD 1 *ᵥ dq i) = 0)
    (hnorm : ∀ i, dq i ⬝ᵥ (B.getD 1 *ᵥ fun r => Q r i) + (fun r => Q r i) ⬝ᵥ (dB *ᵥ fun r => Q r i)
      + (fun r => Q r i) ⬝ᵥ (B.getD 1 *ᵥ dq i) = 0) :
    R.re (∑ i, ((fun r => dQ.getD 0 r i) ⬝ᵥ dq i + dW.getD 0 i * dlam i)) =
      R.re (pair (denseSens R Acomplex Bcomplex linsolve A B W Q dW dQ).1 dA
        + pair (denseSens R Acomplex Bcomplex linsolve A B W Q dW dQ).2 dB) := by
  rw [eig_dense_adjoint_sum_linearised h2 R linsolve A B W Q dW dQ hsolve dA dB dq dlam hlin hnorm, R.re_add, R.re_add,
    denseSens_re_pair_fst R Acomplex Bcomplex true true linsolve A B W Q dW dQ dA hdA (by simp),
    denseSens_re_pair_snd R Acomplex Bcomplex true true linsolve A B W Q dW dQ dB hdB (by simp)]

/-- non-vacuity: a tangent of the 1×1 problem `a q = λ b q`, `q b q = 1` at `a = 2, b = 1, λ = 2, q = 1` -/
example : ∃ (dA dB : Matrix (Fin 1) (Fin 1) ℚ) (dq : Fin 1 → ℚ) (dlam : ℚ),
    dA *ᵥ ![1] + !![2] *ᵥ dq - dlam • (!![1] *ᵥ ![1]) - (2 : ℚ) • (dB *ᵥ ![1]) - (2 : ℚ) • (!![1] *ᵥ dq) = 0 ∧
    dq ⬝ᵥ (!![1] *ᵥ ![1]) + ![1] ⬝ᵥ (dB *ᵥ ![1]) + ![1] ⬝ᵥ (!![1] *ᵥ dq) = 0 ∧ dlam ≠ 0 := by
  refine ⟨!![3], !![1], ![-1/2], 1, ?_, ?_, one_ne_zero⟩
  · funext i; fin_cases i; simp [Matrix.mulVec, dotProduct]; norm_num
  · simp [Matrix.mulVec, dotProduct]; norm_num

/-- sparse path, eigenvalue sensitivity (`_sparse_eigval_sens`): for a SYMMETRIC pencil (`Aᵀ = A`, `Bᵀ = B`, real or
complex symmetric) and every tangent of the eigen-equation, `w dλ = ⟪(w / qᵀBq) q qᵀ, dA⟫ − ⟪(λ w / qᵀBq) q qᵀ, dB⟫`.
(The hypothesis `Aᵀ = A` is essential: for a complex HERMITIAN matrix the left eigenvector is `conj q` and the code's
formula is not the derivative — see corpus/defects/c01_eigensolve_sparse_complex_hermitian.) -/
theorem eig_sparse_eigval_adjoint {n : ℕ} (A B : Matrix (Fin n) (Fin n) α) (hA : Aᵀ = A) (hB : Bᵀ = B)
    (lam : α) (q : Fin n → α) (hq : A *ᵥ q = lam • (B *ᵥ q)) (hqmq : q ⬝ᵥ (B *ᵥ q) ≠ 0) (w : α)
    (dA dB : Matrix (Fin n) (Fin n) α) (dq : Fin n → α) (dlam : α)
    (hlin : dA *ᵥ q + A *ᵥ dq - dlam • (B *ᵥ q) - lam • (dB *ᵥ q) - lam • (B *ᵥ dq) = 0) :
    w * dlam = pair (vecMulVec ((w / (q ⬝ᵥ (B *ᵥ q))) • q) q) dA
      + pair (vecMulVec (-((lam * w / (q ⬝ᵥ (B *ᵥ q))) • q)) q) dB := by
  have h0 := congrArg (fun v => q ⬝ᵥ v) hlin
  simp only [dotProduct_sub, dotProduct_add, dotProduct_smul, smul_eq_mul, dotProduct_zero] at h0
  have hsym : q ⬝ᵥ (A *ᵥ dq) = lam * (q ⬝ᵥ (B *ᵥ dq)) := by
    rw [Matrix.dotProduct_mulVec, ← Matrix.mulVec_transpose, hA, hq, smul_dotProduct, smul_eq_mul]
    congr 1
    rw [dotProduct_comm, Matrix.dotProduct_mulVec, ← Matrix.mulVec_transpose, hB, dotProduct_comm]
  rw [pair_vecMulVec, pair_vecMulVec, neg_dotProduct, smul_dotProduct, smul_dotProduct, smul_eq_mul, smul_eq_mul]
  rw [hsym] at h0
  field_simp
  linear_combination (-w) * h0

example : (!![2, 1; 1, 3] : Matrix (Fin 2) (Fin 2) ℚ)ᵀ = !![2, 1; 1, 3] := by
  ext i j; fin_cases i <;> fin_cases j <;> rfl

/-! ### sparse path: eigenvector sensitivities (`_sparse_eigvec_sens`, Delissen 2022) -/

/-- ONE mode of `_sparse_eigvec_sens`. For a SYMMETRIC pencil (`Aᵀ = A`, `Bᵀ = B`) with a simple eigenvalue `λ` and
`qᵀBq = 1`, an inner solver that returns SOME solution of every consistent system with the singular matrix `(A − λB)ᵀ`,
and EVERY perturbation `(dA, dB)` (symmetric or not) with its first-order perturbation `(dλ, dq)` (linearised
eigen-equation and linearised normalisation): `w·dq = ⟪g_A, dA⟫ + ⟪g_B, dB⟫` with `(g_A, g_B) = (−v qᵀ, (α/2 q + λ v) qᵀ)`
exactly the two dyads the code adds. (Symmetry of the pencil itself is essential — the code uses the right eigenvector as
the left one; for complex Hermitian matrices see corpus/defects/c01_eigensolve_sparse_complex_hermitian.) -/
theorem eig_sparse_eigvec_mode_adjoint {n : ℕ} (h2 : (2 : α) ≠ 0) (zsolveT : (Fin n → α) → (Fin n → α))
    (A B : Matrix (Fin n) (Fin n) α) (hA : Aᵀ = A) (hB : Bᵀ = B) (lam : α) (q w : Fin n → α)
    (hq : A *ᵥ q = lam • (B *ᵥ q)) (hqBq : q ⬝ᵥ (B *ᵥ q) = 1)
    (hcontract : ∀ r, (∃ x, (A - lam • B)ᵀ *ᵥ x = r) → (A - lam • B)ᵀ *ᵥ zsolveT r = r)
    (hsimple : ∀ x, (A - lam • B) *ᵥ x = 0 → ∃ c : α, x = c • q)
    (dA dB : Matrix (Fin n) (Fin n) α) (dq : Fin n → α) (dlam : α)
    (hlin : dA *ᵥ q + A *ᵥ dq - dlam • (B *ᵥ q) - lam • (dB *ᵥ q) - lam • (B *ᵥ dq) = 0)
    (hnorm : dq ⬝ᵥ (B *ᵥ q) + q ⬝ᵥ (dB *ᵥ q) + q ⬝ᵥ (B *ᵥ dq) = 0) :
    w ⬝ᵥ dq =
      pair (vecMulVec (sparseEigvecMode zsolveT B lam q w).1.1 (sparseEigvecMode zsolveT B lam q w).1.2) dA
      + pair (vecMulVec (sparseEigvecMode zsolveT B lam q w).2.1 (sparseEigvecMode zsolveT B lam q w).2.2) dB :=
  sparseEigvecMode_adjoint h2 zsolveT A B hA hB lam q w hq hqBq
    (eigvec_solve_of_contract zsolveT hA hB w hq hqBq hcontract hsimple) dA dB dq dlam hlin hnorm

/-- the result does not depend on WHICH solution of the singular system the inner solver returns: two solvers that both
meet the contract give the same two dyads (the orthogonalisation `v = vp − (vp·Bq) q` removes the kernel component) -/
theorem eig_sparse_eigvec_solver_indep {n : ℕ} (z1 z2 : (Fin n → α) → (Fin n → α))
    (A B : Matrix (Fin n) (Fin n) α) (hA : Aᵀ = A) (hB : Bᵀ = B) (lam : α) (q w : Fin n → α)
    (hq : A *ᵥ q = lam • (B *ᵥ q)) (hqBq : q ⬝ᵥ (B *ᵥ q) = 1)
    (hc1 : ∀ r, (∃ x, (A - lam • B)ᵀ *ᵥ x = r) → (A - lam • B)ᵀ *ᵥ z1 r = r)
    (hc2 : ∀ r, (∃ x, (A - lam • B)ᵀ *ᵥ x = r) → (A - lam • B)ᵀ *ᵥ z2 r = r)
    (hsimple : ∀ x, (A - lam • B) *ᵥ x = 0 → ∃ c : α, x = c • q) :
    sparseEigvecMode z1 B lam q w = sparseEigvecMode z2 B lam q w := by
  have hZ : (A - lam • B)ᵀ = A - lam • B := (pencil_range_of_simple hA hB hq hqBq hsimple).1
  have hker : ∀ x, (A - lam • B)ᵀ *ᵥ x = 0 → ∃ c : α, x = c • q := by rw [hZ]; exact hsimple
  rw [sparseEigvecMode_eq, sparseEigvecMode_eq,
    eigvecAdj_unique z1 z2 A B lam q w hqBq hker (eigvec_solve_of_contract z1 hA hB w hq hqBq hc1 hsimple)
      (eigvec_solve_of_contract z2 hA hB w hq hqBq hc2 hsimple)]

/-- non-vacuity: `A = diag(4, 3)`, `B = diag(4, 1)`, `λ = 1`, `q = (1/2, 0)` (`qᵀBq = 1`); `A − λB = diag(0, 2)` is
singular with kernel `span q`, and the solver `r ↦ (5, r₁/2)` (an arbitrary kernel component) meets the contract -/
example : ∃ (A B : Matrix (Fin 2) (Fin 2) ℚ) (lam : ℚ) (q : Fin 2 → ℚ) (z : (Fin 2 → ℚ) → (Fin 2 → ℚ)),
    Aᵀ = A ∧ Bᵀ = B ∧ A *ᵥ q = lam • (B *ᵥ q) ∧ q ⬝ᵥ (B *ᵥ q) = 1 ∧
    (∀ r, (∃ x, (A - lam • B)ᵀ *ᵥ x = r) → (A - lam • B)ᵀ *ᵥ z r = r) ∧
    (∀ x, (A - lam • B) *ᵥ x = 0 → ∃ c : ℚ, x = c • q) := by
  refine ⟨!![4, 0; 0, 3], !![4, 0; 0, 1], 1, ![1 / 2, 0], fun r => ![5, r 1 / 2], ?_, ?_, ?_, ?_, ?_, ?_⟩
  · ext i j; fin_cases i <;> fin_cases j <;> rfl
  · ext i j; fin_cases i <;> fin_cases j <;> rfl
  · funext i; fin_cases i <;> simp [Matrix.mulVec, dotProduct, Fin.sum_univ_two] <;> norm_num
  · simp [Matrix.mulVec, dotProduct, Fin.sum_univ_two]; norm_num
  · rintro r ⟨x, rfl⟩
    funext i; fin_cases i <;> simp [Matrix.mulVec, dotProduct, Fin.sum_univ_two] <;> norm_num
  · intro x hx
    have h1 := congrFun hx 1
    simp [Matrix.mulVec, dotProduct, Fin.sum_univ_two] at h1
    norm_num at h1
    refine ⟨2 * x 0, ?_⟩
    funext i; fin_cases i
    · simp; ring
    · simpa using h1

/-- `_sparse_eigvec_sens` for ALL modes: the eigenvalue part (`dW` given: modes with `dW[i] ≠ 0`), the eigenvector part
(modes whose seed column is not identically zero — the code's `continue`), `B = I` when absent, and the `.real` rule for
real `A` / `B` (then the direction `dA` / `dB` is real): for every family of per-mode tangents,
`Re Σᵢ (dQ[:, i]·dqᵢ + dW[i] dλᵢ) = Re (⟪g_A, dA⟫ + ⟪g_B, dB⟫)` with `(g_A, g_B)` the DyadCarriers returned by the code. -/
theorem eig_sparse_eigvec_adjoint_sum [DecidableEq α] {n m : ℕ} (h2 : (2 : α) ≠ 0) (R : RealPart α) (Areal Breal : Bool)
    (zsolveT : Fin m → (Fin n → α) → (Fin n → α))
    (A : Matrix (Fin n) (Fin n) α) (B : Option (Matrix (Fin n) (Fin n) α)) (hA : Aᵀ = A) (hB : (B.getD 1)ᵀ = B.getD 1)
    (W : Fin m → α) (Q : Matrix (Fin n) (Fin m) α) (hpairs : IsEigenpairs A B W Q)
    (hnormed : ∀ i, (fun r => Q r i) ⬝ᵥ applyB B (fun r => Q r i) = 1)
    (dW : Option (Fin m → α)) (dQ : Matrix (Fin n) (Fin m) α)
    (hcontract : ∀ i r, (∃ x, (A - W i • B.getD 1)ᵀ *ᵥ x = r) → (A - W i • B.getD 1)ᵀ *ᵥ zsolveT i r = r)
    (hsimple : ∀ i x, (A - W i • B.getD 1) *ᵥ x = 0 → ∃ c : α, x = c • fun r => Q r i)
    (dA dB : Matrix (Fin n) (Fin n) α)
    (hdA : Areal = true → ∀ i j, R.IsReal (dA i j)) (hdB : Breal = true → ∀ i j, R.IsReal (dB i j))
    (dq : Fin m → Fin n → α) (dlam : Fin m → α)
    (hlin : ∀ i, dA *ᵥ (fun r => Q r i) + A *ᵥ dq i - dlam i • (B.getD 1 *ᵥ fun r => Q r i)
      - W i • (dB *ᵥ fun r => Q r i) - W i • (B.getD 1 *ᵥ dq i) = 0)
    (hnorm : ∀ i, dq i ⬝ᵥ (B.getD 1 *ᵥ fun r => Q r i) + (fun r => Q r i) ⬝ᵥ (dB *ᵥ fun r => Q r i)
      + (fun r => Q r i) ⬝ᵥ (B.getD 1 *ᵥ dq i) = 0) :
    R.re (∑ i, ((fun r => dQ r i) ⬝ᵥ dq i + dW.getD 0 i * dlam i)) =
      R.re (pair (sparseEigvecSens R Areal Breal zsolveT B W Q dW dQ).1.toDense dA
        + pair (sparseEigvecSens R Areal Breal zsolveT B W Q dW dQ).2.toDense dB) := by
  rw [sparseEigvecSens_re_pair R Areal Breal zsolveT B W Q dW dQ dA dB hdA hdB]
  congr 1
  refine Finset.sum_congr rfl fun i _ => ?_
  have hqi : A *ᵥ (fun r => Q r i) = W i • (B.getD 1 *ᵥ fun r => Q r i) := by
    rw [← applyB_eq]; exact hpairs i
  have hni : (fun r => Q r i) ⬝ᵥ (B.getD 1 *ᵥ fun r => Q r i) = 1 := by
    rw [← applyB_eq]; exact hnormed i
  rw [add_comm]
  congr 1
  · by_cases h : dW.getD 0 i = 0
    · simp [h]
    · rw [if_neg h, applyB_eq, hni]
      have := eig_sparse_eigval_adjoint A (B.getD 1) hA hB (W i) (fun r => Q r i) hqi (by rw [hni]; exact one_ne_zero)
        (dW.getD 0 i) dA dB (dq i) (dlam i) (hlin i)
      rw [hni] at this
      exact this
  · by_cases h : ∀ r, dQ r i = 0
    · simp [h]
    · rw [if_neg h]
      exact eig_sparse_eigvec_mode_adjoint h2 (zsolveT i) A (B.getD 1) hA hB (W i) (fun r => Q r i) (fun r => dQ r i) hqi hni
        (hcontract i) (hsimple i) dA dB (dq i) (dlam i) (hlin i) (hnorm i)

/-- the hypotheses on `(dλ, dq)` are never vacuous and never ambiguous: at a simple eigenvalue of a symmetric pencil with
`qᵀBq = 1`, EVERY perturbation `(dA, dB)` has exactly one first-order perturbation `(dλ, dq)` of the eigenpair -/
theorem eig_tangent_exists_unique {n : ℕ} (h2 : (2 : α) ≠ 0) (A B : Matrix (Fin n) (Fin n) α) (hA : Aᵀ = A) (hB : Bᵀ = B)
    (lam : α) (q : Fin n → α) (hq : A *ᵥ q = lam • (B *ᵥ q)) (hqBq : q ⬝ᵥ (B *ᵥ q) = 1)
    (hsimple : ∀ x, (A - lam • B) *ᵥ x = 0 → ∃ c : α, x = c • q) (dA dB : Matrix (Fin n) (Fin n) α) :
    ∃ (dq : Fin n → α) (dlam : α),
      (dA *ᵥ q + A *ᵥ dq - dlam • (B *ᵥ q) - lam • (dB *ᵥ q) - lam • (B *ᵥ dq) = 0 ∧
        dq ⬝ᵥ (B *ᵥ q) + q ⬝ᵥ (dB *ᵥ q) + q ⬝ᵥ (B *ᵥ dq) = 0) ∧
      ∀ (dq' : Fin n → α) (dlam' : α),
        dA *ᵥ q + A *ᵥ dq' - dlam' • (B *ᵥ q) - lam • (dB *ᵥ q) - lam • (B *ᵥ dq') = 0 →
        dq' ⬝ᵥ (B *ᵥ q) + q ⬝ᵥ (dB *ᵥ q) + q ⬝ᵥ (B *ᵥ dq') = 0 → dlam' = dlam ∧ dq' = dq := by
  obtain ⟨_, hrange⟩ := pencil_range_of_simple hA hB hq hqBq hsimple
  obtain ⟨dq, dlam, h1, h2'⟩ := eigen_tangent_exists h2 A B hB lam q hq hqBq hrange dA dB
  exact ⟨dq, dlam, ⟨h1, h2'⟩, fun dq' dlam' h1' h2'' =>
    eigen_tangent_unique h2 A B hA hB lam q hq hqBq hsimple dA dB dq' dq dlam' dlam h1' h2'' h1 h2'⟩

/-! ### the sensitivities are derivatives (ℝ or ℂ, real curve parameter) -/

section Deriv
variable {𝕜 : Type*} [NontriviallyNormedField 𝕜] [NormedAlgebra ℝ 𝕜]

/-- DENSE path, one mode (`_dense_sens`, Lee 1999), real or complex data: along every differentiable curve of matrices
`A(s), B(s)` carrying a differentiable curve of eigenpairs `A(s) q(s) = λ(s) B(s) q(s)`, `q(s)ᵀB(s)q(s) = 1`,
`d/ds (wq·q(s) + wλ λ(s)) = ⟪g_A, A'⟫ + ⟪g_B, B'⟫` with `(g_A, g_B)` the model's outputs (no symmetry needed). -/
theorem eig_dense_adjoint {n : ℕ}
    (linsolve : Matrix (Fin n ⊕ Unit) (Fin n ⊕ Unit) 𝕜 → (Fin n ⊕ Unit → 𝕜) → (Fin n ⊕ Unit → 𝕜))
    (A B : ℝ → Matrix (Fin n) (Fin n) 𝕜) (lam : ℝ → 𝕜) (q : ℝ → Fin n → 𝕜) (t : ℝ)
    (A' B' : Matrix (Fin n) (Fin n) 𝕜) (lam' : 𝕜) (q' : Fin n → 𝕜)
    (hA : ∀ i j, HasDerivAt (fun s => A s i j) (A' i j) t) (hB : ∀ i j, HasDerivAt (fun s => B s i j) (B' i j) t)
    (hlam : HasDerivAt lam lam' t) (hq : ∀ i, HasDerivAt (fun s => q s i) (q' i) t)
    (hE : ∀ᶠ s in 𝓝 t, A s *ᵥ q s = lam s • (B s *ᵥ q s)) (hN : ∀ᶠ s in 𝓝 t, q s ⬝ᵥ (B s *ᵥ q s) = 1)
    (wq : Fin n → 𝕜) (wlam : 𝕜)
    (hsolve : leeMatrix (A t) (B t) (lam t) (q t) *ᵥ linsolve (leeMatrix (A t) (B t) (lam t) (q t))
      (Sum.elim wq fun _ => wlam) = Sum.elim wq fun _ => wlam) :
    HasDerivAt (fun s => wq ⬝ᵥ q s + wlam * lam s)
      (pair (denseSensMode linsolve (A t) (B t) (lam t) (q t) wq wlam).1 A'
        + pair (denseSensMode linsolve (A t) (B t) (lam t) (q t) wq wlam).2 B') t := by
  obtain ⟨hlin, hnorm⟩ := eigen_curve_tangent hA hB hlam hq hE hN
  rw [← eig_dense_adjoint_linearised two_ne_zero_of_real_algebra linsolve (A t) (B t) (lam t) (q t) wq wlam hsolve
    A' B' q' lam' hlin hnorm]
  have h1 := hasDerivAt_dotProduct (u := fun _ => wq) (u' := 0) (fun i => hasDerivAt_const t (wq i)) hq
  have h := h1.fun_add (hlam.const_mul wlam)
  simpa only [zero_dotProduct, zero_add] using h

/-- SPARSE path, eigenvalue sensitivity (`_sparse_eigval_sens`): for a pencil that is symmetric at `t`,
`d/ds (w λ(s)) = ⟪(w / qᵀBq) q qᵀ, A'⟫ − ⟪(λ w / qᵀBq) q qᵀ, B'⟫`; with `w = 1`, `qᵀBq = 1`: `λ' = qᵀ(A' − λB')q`. -/
theorem eig_sparse_eigval_is_derivative {n : ℕ}
    (A B : ℝ → Matrix (Fin n) (Fin n) 𝕜) (lam : ℝ → 𝕜) (q : ℝ → Fin n → 𝕜) (t : ℝ)
    (A' B' : Matrix (Fin n) (Fin n) 𝕜) (lam' : 𝕜) (q' : Fin n → 𝕜)
    (hA : ∀ i j, HasDerivAt (fun s => A s i j) (A' i j) t) (hB : ∀ i j, HasDerivAt (fun s => B s i j) (B' i j) t)
    (hlam : HasDerivAt lam lam' t) (hq : ∀ i, HasDerivAt (fun s => q s i) (q' i) t)
    (hE : ∀ᶠ s in 𝓝 t, A s *ᵥ q s = lam s • (B s *ᵥ q s)) (hN : ∀ᶠ s in 𝓝 t, q s ⬝ᵥ (B s *ᵥ q s) = 1)
    (hsymA : (A t)ᵀ = A t) (hsymB : (B t)ᵀ = B t) (w : 𝕜) :
    HasDerivAt (fun s => w * lam s)
      (pair (vecMulVec ((w / (q t ⬝ᵥ (B t *ᵥ q t))) • q t) (q t)) A'
        + pair (vecMulVec (-((lam t * w / (q t ⬝ᵥ (B t *ᵥ q t))) • q t)) (q t)) B') t := by
  obtain ⟨hlin, _⟩ := eigen_curve_tangent hA hB hlam hq hE hN
  have hNt : q t ⬝ᵥ (B t *ᵥ q t) = 1 := hN.self_of_nhds
  rw [← eig_sparse_eigval_adjoint (A t) (B t) hsymA hsymB (lam t) (q t) hE.self_of_nhds (by rw [hNt]; exact one_ne_zero)
    w A' B' q' lam' hlin]
  exact hlam.const_mul w

/-- `λ'(t) = q(t)ᵀ (A'(t) − λ(t) B'(t)) q(t)` -/
theorem eig_eigval_derivative {n : ℕ}
    (A B : ℝ → Matrix (Fin n) (Fin n) 𝕜) (lam : ℝ → 𝕜) (q : ℝ → Fin n → 𝕜) (t : ℝ)
    (A' B' : Matrix (Fin n) (Fin n) 𝕜) (lam' : 𝕜) (q' : Fin n → 𝕜)
    (hA : ∀ i j, HasDerivAt (fun s => A s i j) (A' i j) t) (hB : ∀ i j, HasDerivAt (fun s => B s i j) (B' i j) t)
    (hlam : HasDerivAt lam lam' t) (hq : ∀ i, HasDerivAt (fun s => q s i) (q' i) t)
    (hE : ∀ᶠ s in 𝓝 t, A s *ᵥ q s = lam s • (B s *ᵥ q s)) (hN : ∀ᶠ s in 𝓝 t, q s ⬝ᵥ (B s *ᵥ q s) = 1)
    (hsymA : (A t)ᵀ = A t) (hsymB : (B t)ᵀ = B t) :
    lam' = q t ⬝ᵥ ((A' - lam t • B') *ᵥ q t) := by
  have h := eig_sparse_eigval_is_derivative A B lam q t A' B' lam' q' hA hB hlam hq hE hN hsymA hsymB 1
  have hNt : q t ⬝ᵥ (B t *ᵥ q t) = 1 := hN.self_of_nhds
  have hu := (hlam.const_mul (1 : 𝕜)).unique h
  rw [hNt, pair_vecMulVec, pair_vecMulVec] at hu
  rw [sub_mulVec, smul_mulVec, dotProduct_sub, dotProduct_smul, smul_eq_mul]
  simp only [div_one, one_smul, mul_one, one_mul, neg_dotProduct, smul_dotProduct, smul_eq_mul] at hu
  rw [hu]; ring

/-- SPARSE path, one mode of `_sparse_eigvec_sens`: `d/ds (w·q(s)) = ⟪g_A, A'⟫ + ⟪g_B, B'⟫` with the two dyads the code
adds, for a pencil that is symmetric at `t` with a simple eigenvalue, under the inner-solver contract. -/
theorem eig_sparse_eigvec_mode_is_derivative {n : ℕ} (zsolveT : (Fin n → 𝕜) → (Fin n → 𝕜))
    (A B : ℝ → Matrix (Fin n) (Fin n) 𝕜) (lam : ℝ → 𝕜) (q : ℝ → Fin n → 𝕜) (t : ℝ)
    (A' B' : Matrix (Fin n) (Fin n) 𝕜) (lam' : 𝕜) (q' : Fin n → 𝕜)
    (hA : ∀ i j, HasDerivAt (fun s => A s i j) (A' i j) t) (hB : ∀ i j, HasDerivAt (fun s => B s i j) (B' i j) t)
    (hlam : HasDerivAt lam lam' t) (hq : ∀ i, HasDerivAt (fun s => q s i) (q' i) t)
    (hE : ∀ᶠ s in 𝓝 t, A s *ᵥ q s = lam s • (B s *ᵥ q s)) (hN : ∀ᶠ s in 𝓝 t, q s ⬝ᵥ (B s *ᵥ q s) = 1)
    (hsymA : (A t)ᵀ = A t) (hsymB : (B t)ᵀ = B t)
    (hcontract : ∀ r, (∃ x, (A t - lam t • B t)ᵀ *ᵥ x = r) → (A t - lam t • B t)ᵀ *ᵥ zsolveT r = r)
    (hsimple : ∀ x, (A t - lam t • B t) *ᵥ x = 0 → ∃ c : 𝕜, x = c • q t) (w : Fin n → 𝕜) :
    HasDerivAt (fun s => w ⬝ᵥ q s)
      (pair (vecMulVec (sparseEigvecMode zsolveT (B t) (lam t) (q t) w).1.1
          (sparseEigvecMode zsolveT (B t) (lam t) (q t) w).1.2) A'
        + pair (vecMulVec (sparseEigvecMode zsolveT (B t) (lam t) (q t) w).2.1
          (sparseEigvecMode zsolveT (B t) (lam t) (q t) w).2.2) B') t := by
  obtain ⟨hlin, hnorm⟩ := eigen_curve_tangent hA hB hlam hq hE hN
  rw [← eig_sparse_eigvec_mode_adjoint two_ne_zero_of_real_algebra zsolveT (A t) (B t) hsymA hsymB (lam t) (q t) w
    hE.self_of_nhds hN.self_of_nhds hcontract hsimple A' B' q' lam' hlin hnorm]
  have h1 := hasDerivAt_dotProduct (u := fun _ => w) (u' := 0) (fun i => hasDerivAt_const t (w i)) hq
  simpa only [zero_dotProduct, zero_add] using h1

end Deriv

/-- the SPARSE module with REAL data, all modes (`_sparse_eigvec_sens`, which contains `_sparse_eigval_sens`): along every
differentiable curve of real matrices, symmetric at `t`, carrying differentiable curves of the `m` computed eigenpairs
(each simple, normalised), the seeded output `Σₖ (dQ[:, k]·qₖ(s) + dW[k] λₖ(s))` has the derivative
`⟪g_A, A'⟫ + ⟪g_B, B'⟫` with `(g_A, g_B)` the DyadCarriers returned by the code — for every dtype flag, `dW = None` or
given, all-zero seed columns skipped, `B` absent (`Bc ≡ I`) or given. -/
theorem eig_sparse_sens_is_derivative {n m : ℕ} (Areal Breal : Bool) (zsolveT : Fin m → (Fin n → ℝ) → (Fin n → ℝ))
    (A Bc : ℝ → Matrix (Fin n) (Fin n) ℝ) (lam : Fin m → ℝ → ℝ) (q : Fin m → ℝ → Fin n → ℝ) (t : ℝ)
    (A' B' : Matrix (Fin n) (Fin n) ℝ) (lam' : Fin m → ℝ) (q' : Fin m → Fin n → ℝ)
    (hA : ∀ i j, HasDerivAt (fun s => A s i j) (A' i j) t) (hB : ∀ i j, HasDerivAt (fun s => Bc s i j) (B' i j) t)
    (hlam : ∀ k, HasDerivAt (lam k) (lam' k) t) (hq : ∀ k i, HasDerivAt (fun s => q k s i) (q' k i) t)
    (hE : ∀ k, ∀ᶠ s in 𝓝 t, A s *ᵥ q k s = lam k s • (Bc s *ᵥ q k s))
    (hN : ∀ k, ∀ᶠ s in 𝓝 t, q k s ⬝ᵥ (Bc s *ᵥ q k s) = 1)
    (hsymA : (A t)ᵀ = A t) (hsymB : (Bc t)ᵀ = Bc t)
    (B : Option (Matrix (Fin n) (Fin n) ℝ)) (hBt : B.getD 1 = Bc t)
    (dW : Option (Fin m → ℝ)) (dQ : Matrix (Fin n) (Fin m) ℝ)
    (hcontract : ∀ k r, (∃ x, (A t - lam k t • Bc t)ᵀ *ᵥ x = r) → (A t - lam k t • Bc t)ᵀ *ᵥ zsolveT k r = r)
    (hsimple : ∀ k x, (A t - lam k t • Bc t) *ᵥ x = 0 → ∃ c : ℝ, x = c • q k t) :
    HasDerivAt (fun s => ∑ k, ((fun r => dQ r k) ⬝ᵥ q k s + dW.getD 0 k * lam k s))
      (pair (sparseEigvecSens (RealPart.id ℝ) Areal Breal zsolveT B (fun k => lam k t) (fun r k => q k t r) dW dQ).1.toDense A'
        + pair (sparseEigvecSens (RealPart.id ℝ) Areal Breal zsolveT B (fun k => lam k t) (fun r k => q k t r) dW dQ).2.toDense
            B') t := by
  have htan := fun k => eigen_curve_tangent hA hB (hlam k) (hq k) (hE k) (hN k)
  have key := eig_sparse_eigvec_adjoint_sum (two_ne_zero : (2 : ℝ) ≠ 0) (RealPart.id ℝ) Areal Breal zsolveT (A t) B hsymA
    (by rw [hBt]; exact hsymB) (fun k => lam k t) (fun r k => q k t r)
    (fun k => by rw [applyB_eq, hBt]; exact (hE k).self_of_nhds)
    (fun k => by rw [applyB_eq, hBt]; exact (hN k).self_of_nhds) dW dQ
    (by rw [hBt]; exact hcontract) (by rw [hBt]; exact hsimple) A' B' (fun _ _ _ => rfl) (fun _ _ _ => rfl) q' lam'
    (fun k => by rw [hBt]; exact (htan k).1) (fun k => by rw [hBt]; exact (htan k).2)
  have h := hasDerivAt_seed_sum hlam hq (fun k r => dQ r k) (dW.getD 0)
  have key' : ∑ k, ((fun r => dQ r k) ⬝ᵥ q' k + dW.getD 0 k * lam' k) =
      pair (sparseEigvecSens (RealPart.id ℝ) Areal Breal zsolveT B (fun k => lam k t) (fun r k => q k t r) dW dQ).1.toDense A'
        + pair (sparseEigvecSens (RealPart.id ℝ) Areal Breal zsolveT B (fun k => lam k t) (fun r k => q k t r) dW dQ).2.toDense
            B' := key
  rw [← key']
  exact h

/-- the DENSE module with REAL data, all modes (`_dense_sens`): the seeded output has the derivative
`⟪g_A, A'⟫ + ⟪g_B, B'⟫` with `(g_A, g_B) = _dense_sens(A, B, dW, dQ)` — every dtype flag, `None` seeds, the skip rule,
`B` absent (`Bc ≡ I`) or given; general (non-symmetric) matrices; `np.linalg.solve` contract for the bordered systems. -/
theorem eig_dense_sens_is_derivative {n m : ℕ} (Acomplex Bcomplex : Bool)
    (linsolve : Matrix (Fin n ⊕ Unit) (Fin n ⊕ Unit) ℝ → (Fin n ⊕ Unit → ℝ) → (Fin n ⊕ Unit → ℝ))
    (A Bc : ℝ → Matrix (Fin n) (Fin n) ℝ) (lam : Fin m → ℝ → ℝ) (q : Fin m → ℝ → Fin n → ℝ) (t : ℝ)
    (A' B' : Matrix (Fin n) (Fin n) ℝ) (lam' : Fin m → ℝ) (q' : Fin m → Fin n → ℝ)
    (hA : ∀ i j, HasDerivAt (fun s => A s i j) (A' i j) t) (hB : ∀ i j, HasDerivAt (fun s => Bc s i j) (B' i j) t)
    (hlam : ∀ k, HasDerivAt (lam k) (lam' k) t) (hq : ∀ k i, HasDerivAt (fun s => q k s i) (q' k i) t)
    (hE : ∀ k, ∀ᶠ s in 𝓝 t, A s *ᵥ q k s = lam k s • (Bc s *ᵥ q k s))
    (hN : ∀ k, ∀ᶠ s in 𝓝 t, q k s ⬝ᵥ (Bc s *ᵥ q k s) = 1)
    (B : Option (Matrix (Fin n) (Fin n) ℝ)) (hBt : B.getD 1 = Bc t)
    (dW : Option (Fin m → ℝ)) (dQ : Option (Matrix (Fin n) (Fin m) ℝ))
    (hsolve : ∀ k, ¬((∀ r, dQ.getD 0 r k = 0) ∧ dW.getD 0 k = 0) →
      leeMatrix (A t) (Bc t) (lam k t) (q k t) *ᵥ
          linsolve (leeMatrix (A t) (Bc t) (lam k t) (q k t)) (Sum.elim (fun r => dQ.getD 0 r k) fun _ => dW.getD 0 k)
        = Sum.elim (fun r => dQ.getD 0 r k) fun _ => dW.getD 0 k) :
    HasDerivAt (fun s => ∑ k, ((fun r => dQ.getD 0 r k) ⬝ᵥ q k s + dW.getD 0 k * lam k s))
      (pair (denseSens (RealPart.id ℝ) Acomplex Bcomplex linsolve (A t) B (fun k => lam k t) (fun r k => q k t r) dW dQ).1 A'
        + pair (denseSens (RealPart.id ℝ) Acomplex Bcomplex linsolve (A t) B (fun k => lam k t) (fun r k => q k t r) dW dQ).2
            B') t := by
  have htan := fun k => eigen_curve_tangent hA hB (hlam k) (hq k) (hE k) (hN k)
  have key := eig_dense_adjoint_sum_linearised (two_ne_zero : (2 : ℝ) ≠ 0) (RealPart.id ℝ) linsolve (A t) B
    (fun k => lam k t) (fun r k => q k t r) dW dQ (by rw [hBt]; exact hsolve) A' B' q' lam'
    (fun k => by rw [hBt]; exact (htan k).1) (fun k => by rw [hBt]; exact (htan k).2)
  have e : denseSens (RealPart.id ℝ) Acomplex Bcomplex linsolve (A t) B (fun k => lam k t) (fun r k => q k t r) dW dQ
      = denseSens (RealPart.id ℝ) true true linsolve (A t) B (fun k => lam k t) (fun r k => q k t r) dW dQ :=
    denseSens_id_flags _ _ _ _ _ _ _ _ _
  rw [e, ← key]
  exact hasDerivAt_seed_sum hlam hq (fun k r => dQ.getD 0 r k) (dW.getD 0)

/-- non-vacuity of the curve hypotheses: `A(s) = [2 + s]`, `B = [1]`, `λ(s) = 2 + s`, `q = (1)` -/
example : ∃ (A B : ℝ → Matrix (Fin 1) (Fin 1) ℝ) (lam : ℝ → ℝ) (q : ℝ → Fin 1 → ℝ) (A' B' : Matrix (Fin 1) (Fin 1) ℝ)
    (lam' : ℝ) (q' : Fin 1 → ℝ),
    (∀ i j, HasDerivAt (fun s => A s i j) (A' i j) 0) ∧ (∀ i j, HasDerivAt (fun s => B s i j) (B' i j) 0) ∧
    HasDerivAt lam lam' 0 ∧ (∀ i, HasDerivAt (fun s => q s i) (q' i) 0) ∧
    (∀ᶠ s in 𝓝 (0 : ℝ), A s *ᵥ q s = lam s • (B s *ᵥ q s)) ∧ (∀ᶠ s in 𝓝 (0 : ℝ), q s ⬝ᵥ (B s *ᵥ q s) = 1) ∧
    lam' ≠ 0 := by
  refine ⟨fun s => !![2 + s], fun _ => !![1], fun s => 2 + s, fun _ => ![1], !![1], !![0], 1, ![0],
    ?_, ?_, ?_, ?_, ?_, ?_, one_ne_zero⟩
  · intro i j
    fin_cases i; fin_cases j
    simpa using (hasDerivAt_id (0 : ℝ)).const_add 2
  · intro i j
    fin_cases i; fin_cases j
    simpa using hasDerivAt_const (0 : ℝ) (1 : ℝ)
  · simpa using (hasDerivAt_id (0 : ℝ)).const_add 2
  · intro i
    fin_cases i
    simpa using hasDerivAt_const (0 : ℝ) (1 : ℝ)
  · refine Filter.Eventually.of_forall fun s => ?_
    funext i; fin_cases i; simp [Matrix.mulVec, dotProduct]
  · refine Filter.Eventually.of_forall fun s => ?_
    simp [Matrix.mulVec, dotProduct]

end PymotoVerif.C11
